/-
C16 — helper definitions and lemmas: cutting a byte string into datagrams,
the single-step specification of `takeSegments`, and the invariant of the
repeated call.
-/
import IrohModel.C16.Model

namespace IrohModel.C16

/-- Cut `l` every `s` elements (the last piece may be shorter).  No pieces for `s = 0` or `l = []`. -/
def chunks (s : Nat) (l : List UInt8) : List (List UInt8) :=
  if _h : s = 0 ∨ l = [] then [] else l.take s :: chunks s (l.drop s)
termination_by l.length
decreasing_by
  have : l ≠ [] := fun e => _h (Or.inr e)
  have : 0 < l.length := List.length_pos_iff.mpr this
  simp only [List.length_drop]; omega

/-- The datagrams a batch stands for.  Without a segment size the contents are a single
datagram; empty contents stand for no datagram. -/
def datagramsOf (d : Datagrams) : List (List UInt8) :=
  match d.segmentSize with
  | none => if d.contents = [] then [] else [d.contents]
  | some s => chunks s d.contents

theorem chunks_nil (s : Nat) : chunks s [] = [] := by
  rw [chunks]; simp

theorem chunks_cons_eq (s : Nat) (l : List UInt8) (hs : 0 < s) (hl : l ≠ []) :
    chunks s l = l.take s :: chunks s (l.drop s) := by
  rw [chunks]
  have : ¬ (s = 0 ∨ l = []) := by
    intro h; cases h with
    | inl h => omega
    | inr h => exact hl h
  simp [this]

/-- A non-empty string no longer than the segment size is a single datagram. -/
theorem chunks_le (s : Nat) (l : List UInt8) (hs : 0 < s) (hl : l ≠ []) (hle : l.length ≤ s) :
    chunks s l = [l] := by
  rw [chunks_cons_eq s l hs hl, List.take_of_length_le hle, List.drop_of_length_le hle, chunks_nil]

/-- Splitting at a multiple of the segment size keeps every datagram boundary. -/
theorem chunks_split_mul (s : Nat) (hs : 0 < s) (m : Nat) :
    ∀ l : List UInt8, chunks s (l.take (m * s)) ++ chunks s (l.drop (m * s)) = chunks s l := by
  induction m with
  | zero => intro l; simp [chunks_nil]
  | succ m ih =>
    intro l
    by_cases hl : l = []
    · subst hl; simp [chunks_nil]
    · have hlen : 0 < l.length := List.length_pos_iff.mpr hl
      have hge : s ≤ (m + 1) * s := by
        rw [Nat.succ_mul]; omega
      have htne : l.take ((m + 1) * s) ≠ [] := by
        intro h
        have := congrArg List.length h
        simp only [List.length_take, List.length_nil] at this
        omega
      rw [chunks_cons_eq s l hs hl, chunks_cons_eq s _ hs htne]
      have e1 : (l.take ((m + 1) * s)).take s = l.take s := by
        rw [List.take_take, Nat.min_eq_left hge]
      have e2 : (l.take ((m + 1) * s)).drop s = (l.drop s).take (m * s) := by
        rw [List.drop_take]
        congr 1
        rw [Nat.succ_mul]; omega
      have e3 : l.drop ((m + 1) * s) = (l.drop s).drop (m * s) := by
        rw [List.drop_drop]
        congr 1
        rw [Nat.succ_mul]; omega
      rw [e1, e2, e3, List.cons_append, ih (l.drop s)]

/-- The same for the clamped split point `min (m·s) len` that `take_segments` uses. -/
theorem chunks_split_min (s : Nat) (hs : 0 < s) (m : Nat) (l : List UInt8) :
    chunks s (l.take (min (m * s) l.length)) ++ chunks s (l.drop (min (m * s) l.length)) =
      chunks s l := by
  by_cases h : m * s ≤ l.length
  · rw [Nat.min_eq_left h]; exact chunks_split_mul s hs m l
  · have h' : l.length ≤ m * s := by omega
    rw [Nat.min_eq_right h', List.take_of_length_le (Nat.le_refl _),
      List.drop_of_length_le (Nat.le_refl _), chunks_nil, List.append_nil]

/-- At most `m` datagrams fit in `m·s` bytes. -/
theorem chunks_length_le (s : Nat) (hs : 0 < s) (m : Nat) :
    ∀ l : List UInt8, l.length ≤ m * s → (chunks s l).length ≤ m := by
  induction m with
  | zero =>
    intro l h
    have : l = [] := List.length_eq_zero_iff.mp (by omega)
    subst this; simp [chunks_nil]
  | succ m ih =>
    intro l h
    by_cases hl : l = []
    · subst hl; simp [chunks_nil]
    · rw [chunks_cons_eq s l hs hl, List.length_cons]
      have : (l.drop s).length ≤ m * s := by
        rw [List.length_drop]; rw [Nat.succ_mul] at h; omega
      have := ih (l.drop s) this
      omega

/-- More bytes than one segment are at least two datagrams. -/
theorem chunks_length_ge_two (s : Nat) (hs : 0 < s) (l : List UInt8) (h : s < l.length) :
    2 ≤ (chunks s l).length := by
  have hl : l ≠ [] := by
    intro e; subst e; simp at h
  have hd : l.drop s ≠ [] := by
    intro e
    have := congrArg List.length e
    simp only [List.length_drop, List.length_nil] at this
    omega
  rw [chunks_cons_eq s l hs hl, chunks_cons_eq s _ hs hd]
  simp

theorem length_le_flatMap_of_mem {α : Type} (f : α → List UInt8) {a : α} :
    ∀ {l : List α}, a ∈ l → (f a).length ≤ (l.flatMap f).length := by
  intro l
  induction l with
  | nil => intro h; cases h
  | cons b l ih =>
    intro h
    simp only [List.flatMap_cons, List.length_append]
    rcases List.mem_cons.mp h with e | e
    · subst e; omega
    · have := ih e; omega

/-- The state invariant of the repeated call, relative to the batch's segment size `s`:
the segment size is still `s`, or it was cleared because at most one datagram is left. -/
def Inv (s : Nat) (d : Datagrams) : Prop :=
  d.segmentSize = some s ∨ (d.segmentSize = none ∧ d.contents.length ≤ s)

/-- Everything the repeated-call proof needs to know about one call. -/
structure StepSpec (n s : Nat) (d : Datagrams) (r : Datagrams × Datagrams) : Prop where
  ecn_taken : r.1.ecn = d.ecn
  ecn_rest : r.2.ecn = d.ecn
  append : r.1.contents ++ r.2.contents = d.contents
  le : r.1.contents.length ≤ n * s
  seg_iff : r.1.segmentSize = some s ↔ s < r.1.contents.length
  seg_cases : r.1.segmentSize = none ∨ r.1.segmentSize = some s
  inv : Inv s r.2
  rest_len : r.2.contents.length ≤ d.contents.length
  progress : d.contents ≠ [] → r.2.contents.length < d.contents.length
  rest_seg : r.2.segmentSize.isSome → d.segmentSize.isSome
  aligned : datagramsOf r.1 ++ chunks s r.2.contents = chunks s d.contents

theorem takeSegments_spec (n s : Nat) (hn : 1 ≤ n) (hs : 1 ≤ s) (d : Datagrams)
    (hlen : d.contents.length ≤ usizeMax) (hinv : Inv s d) :
    StepSpec n s d (takeSegments d n) := by
  have hns : 1 ≤ n * s := Nat.mul_pos hn hs
  rcases hinv with hsome | ⟨hnone, hle⟩
  · -- a segment size is set
    have hk : min (satMul n s) d.contents.length = min (n * s) d.contents.length := by
      unfold satMul; omega
    have hmm : min (min (n * s) d.contents.length) d.contents.length =
        min (n * s) d.contents.length := by omega
    have hb : (decide (Generated.C16.batchMinSegments < n) &&
        decide (s < min (n * s) d.contents.length)) =
        decide (s < min (n * s) d.contents.length) := by
      by_cases h1 : 1 < n
      · simp [h1, Generated.C16.batchMinSegments]
      · have h1n : n = 1 := by omega
        subst h1n
        have : ¬ s < min (1 * s) d.contents.length := by omega
        simp only [Generated.C16.batchMinSegments, this, decide_false, Bool.and_false]
    have hspec : takeSegments d n =
        ({ ecn := d.ecn,
           segmentSize := if s < min (n * s) d.contents.length then some s else none,
           contents := d.contents.take (min (n * s) d.contents.length) },
         { ecn := d.ecn,
           segmentSize := if d.contents.length - min (n * s) d.contents.length ≤ s
                          then none else some s,
           contents := d.contents.drop (min (n * s) d.contents.length) }) := by
      unfold takeSegments
      rw [hsome]
      simp only [hk, List.length_take, List.length_drop, hmm]
      rw [hb]
      simp
    rw [hspec]
    have htl : (d.contents.take (min (n * s) d.contents.length)).length =
        min (n * s) d.contents.length := by
      rw [List.length_take]; omega
    have hdl : (d.contents.drop (min (n * s) d.contents.length)).length =
        d.contents.length - min (n * s) d.contents.length := List.length_drop
    refine
      { ecn_taken := rfl, ecn_rest := rfl, append := List.take_append_drop _ _,
        le := ?_, seg_iff := ?_, seg_cases := ?_, inv := ?_, rest_len := ?_, progress := ?_,
        rest_seg := ?_, aligned := ?_ }
    · show (d.contents.take _).length ≤ n * s
      rw [htl]; omega
    · show (if _ then some s else none) = some s ↔ s < (d.contents.take _).length
      rw [htl]
      by_cases hlt : s < min (n * s) d.contents.length <;> simp [hlt]
    · show (if _ then some s else none) = none ∨ (if _ then some s else none) = some s
      by_cases hlt : s < min (n * s) d.contents.length <;> simp [hlt]
    · unfold Inv
      show (if _ then none else some s) = some s ∨
        ((if _ then none else some s) = none ∧ (d.contents.drop _).length ≤ s)
      rw [hdl]
      by_cases hle : d.contents.length - min (n * s) d.contents.length ≤ s
      · right; simp [hle]
      · left; simp [hle]
    · show (d.contents.drop _).length ≤ _
      rw [hdl]; omega
    · intro hne
      have : 0 < d.contents.length := List.length_pos_iff.mpr hne
      show (d.contents.drop _).length < _
      rw [hdl]; omega
    · intro _; rw [hsome]; rfl
    · show datagramsOf _ ++ chunks s (d.contents.drop _) = _
      have hd : datagramsOf
          { ecn := d.ecn,
            segmentSize := if s < min (n * s) d.contents.length then some s else none,
            contents := d.contents.take (min (n * s) d.contents.length) } =
          chunks s (d.contents.take (min (n * s) d.contents.length)) := by
        unfold datagramsOf
        by_cases hlt : s < min (n * s) d.contents.length
        · simp [hlt]
        · simp only [hlt, if_false]
          by_cases he : d.contents.take (min (n * s) d.contents.length) = []
          · simp [he, chunks_nil]
          · simp only [he, if_false]
            exact (chunks_le s _ hs he (by omega)).symm
      rw [hd]
      exact chunks_split_min s hs n d.contents
  · -- no segment size: everything is returned as one datagram
    have hspec : takeSegments d n =
        ({ ecn := d.ecn, segmentSize := none, contents := d.contents },
         { ecn := d.ecn, segmentSize := none, contents := [] }) := by
      unfold takeSegments; rw [hnone]
    rw [hspec]
    refine
      { ecn_taken := rfl, ecn_rest := rfl, append := List.append_nil _,
        le := ?_, seg_iff := ?_, seg_cases := Or.inl rfl, inv := ?_, rest_len := Nat.zero_le _,
        progress := ?_, rest_seg := ?_, aligned := ?_ }
    · show d.contents.length ≤ n * s
      calc d.contents.length ≤ s := hle
        _ = 1 * s := (Nat.one_mul s).symm
        _ ≤ n * s := Nat.mul_le_mul_right s hn
    · show (none : Option Nat) = some s ↔ s < d.contents.length
      constructor
      · intro h; cases h
      · intro h; omega
    · right; exact ⟨rfl, Nat.zero_le _⟩
    · intro hne
      exact List.length_pos_iff.mpr hne
    · intro h; cases h
    · show datagramsOf { ecn := d.ecn, segmentSize := none, contents := d.contents } ++
        chunks s [] = chunks s d.contents
      unfold datagramsOf
      by_cases he : d.contents = []
      · simp [he, chunks_nil]
      · simp only [he, if_false, chunks_nil, List.append_nil]
        exact (chunks_le s _ hs he hle).symm

/-- What the repeated call guarantees, relative to the segment size `s`. -/
structure RunSpec (n s : Nat) (d : Datagrams) (run : List Step × Bool) : Prop where
  not_stuck : run.2 = false
  concat : run.1.flatMap (fun st => st.taken.contents) = d.contents
  each : ∀ st ∈ run.1,
    st.taken.ecn = d.ecn ∧ st.taken.contents.length ≤ n * s ∧
    (st.taken.segmentSize = some s ↔ s < st.taken.contents.length) ∧
    (st.taken.segmentSize = none ∨ st.taken.segmentSize = some s)
  aligned : run.1.flatMap (fun st => datagramsOf st.taken) = chunks s d.contents
  ne_nil : run.1 ≠ []

theorem measure_lt_of_progress {d r : Datagrams}
    (hlt : r.contents.length < d.contents.length) : measure r < measure d := by
  unfold measure
  split <;> split <;> omega

theorem takeAll_spec (n s : Nat) (hn : 1 ≤ n) (hs : 1 ≤ s) :
    ∀ (m : Nat) (d : Datagrams), measure d ≤ m → d.contents.length ≤ usizeMax → Inv s d →
      RunSpec n s d (takeAll n d) := by
  intro m
  induction m with
  | zero =>
    intro d hm hlen hinv
    have hsp := takeSegments_spec n s hn hs d hlen hinv
    have hd0 : d.contents.length = 0 := by unfold measure at hm; omega
    have hr0 : (takeSegments d n).2.contents = [] :=
      List.length_eq_zero_iff.mp (by have := hsp.rest_len; omega)
    rw [takeAll]
    simp only [hr0, List.isEmpty_nil, if_true]
    have happ := hsp.append
    rw [hr0, List.append_nil] at happ
    refine { not_stuck := rfl, concat := by simp [happ], each := ?_, aligned := ?_,
             ne_nil := by simp }
    · intro st hst
      simp only [List.mem_singleton] at hst
      subst hst
      exact ⟨hsp.ecn_taken, hsp.le, hsp.seg_iff, hsp.seg_cases⟩
    · have := hsp.aligned
      rw [hr0, chunks_nil, List.append_nil] at this
      simp [this]
  | succ m ih =>
    intro d hm hlen hinv
    have hsp := takeSegments_spec n s hn hs d hlen hinv
    rw [takeAll]
    by_cases hre : (takeSegments d n).2.contents = []
    · simp only [hre, List.isEmpty_nil, if_true]
      have happ := hsp.append
      rw [hre, List.append_nil] at happ
      refine { not_stuck := rfl, concat := by simp [happ], each := ?_, aligned := ?_,
               ne_nil := by simp }
      · intro st hst
        simp only [List.mem_singleton] at hst
        subst hst
        exact ⟨hsp.ecn_taken, hsp.le, hsp.seg_iff, hsp.seg_cases⟩
      · have := hsp.aligned
        rw [hre, chunks_nil, List.append_nil] at this
        simp [this]
    · have hne : d.contents ≠ [] := by
        intro e
        have := hsp.rest_len
        rw [e] at this
        exact hre (List.length_eq_zero_iff.mp (by simpa using this))
      have hprog := hsp.progress hne
      have hmlt : measure (takeSegments d n).2 < measure d := measure_lt_of_progress hprog
      have hie : (takeSegments d n).2.contents.isEmpty = false := by
        cases h : (takeSegments d n).2.contents with
        | nil => exact absurd h hre
        | cons _ _ => rfl
      simp only [hie, Bool.false_eq_true, if_false, hmlt, dite_true]
      have hrec := ih (takeSegments d n).2 (by omega) (by omega) hsp.inv
      refine { not_stuck := hrec.not_stuck, concat := ?_, each := ?_, aligned := ?_,
               ne_nil := by simp }
      · simp only [List.flatMap_cons, hrec.concat]
        exact hsp.append
      · intro st hst
        simp only [List.mem_cons] at hst
        rcases hst with hst | hst
        · subst hst
          exact ⟨hsp.ecn_taken, hsp.le, hsp.seg_iff, hsp.seg_cases⟩
        · have := hrec.each st hst
          rw [hsp.ecn_rest] at this
          exact this
      · simp only [List.flatMap_cons, hrec.aligned]
        exact hsp.aligned

end IrohModel.C16
