/-
C16 — `Datagrams::take_segments` (iroh-relay/src/protos/relay.rs), as it is
after the repair `fix: saturating product in take_segments`.

Executable, core Lean only.  Byte strings are `List UInt8`; `usize` values are
`Nat`s, the one `usize` product of the function is modelled with its
saturation bound.
-/
import IrohModel.Generated.C16

namespace IrohModel.C16

/-- `noq_proto::EcnCodepoint`. -/
inductive Ecn where
  | ect0 | ect1 | ce
deriving DecidableEq, Repr

/-- `iroh_relay::protos::relay::Datagrams`.  `segmentSize` is an
`Option<NonZeroU16>`: when present it is in `1 … 65535` (`Datagrams.WF`). -/
structure Datagrams where
  ecn : Option Ecn
  segmentSize : Option Nat
  contents : List UInt8
deriving DecidableEq, Repr

/-- `usize::MAX` on the 64-bit targets the relay is built for. -/
def usizeMax : Nat := 2 ^ 64 - 1

/-- `usize::saturating_mul`. -/
def satMul (a b : Nat) : Nat := min (a * b) usizeMax

/--
`take_segments(&mut self, num_segments)`: returns `(returned batch, self afterwards)`.

```
let Some(segment_size) = self.segment_size else { return everything, leave self empty };
let max_content_len = num_segments.saturating_mul(segment_size);
let contents = self.contents.split_to(min(max_content_len, self.contents.len()));
let is_datagram_batch = num_segments > 1 && segment_size < contents.len();
if self.contents.len() <= segment_size { self.segment_size = None; }
Datagrams { ecn: self.ecn, segment_size: is_datagram_batch.then_some(segment_size), contents }
```
`split_to(k)` with `k ≤ len` never panics; no other partial operation occurs.
`num_segments = 0` is accepted: it takes nothing (and clears `self.segment_size`
when at most one datagram is left).
-/
def takeSegments (d : Datagrams) (n : Nat) : Datagrams × Datagrams :=
  match d.segmentSize with
  | none =>
    ({ ecn := d.ecn, segmentSize := none, contents := d.contents },
     { ecn := d.ecn, segmentSize := none, contents := [] })
  | some s =>
    let k := min (satMul n s) d.contents.length
    let taken := d.contents.take k
    let rest := d.contents.drop k
    let isBatch := decide (Generated.C16.batchMinSegments < n) && decide (s < taken.length)
    ({ ecn := d.ecn, segmentSize := if isBatch then some s else none, contents := taken },
     { ecn := d.ecn, segmentSize := if rest.length ≤ s then none else some s, contents := rest })

/-- Progress measure of the repeated call: bytes left, then whether a segment size is still set. -/
def measure (d : Datagrams) : Nat :=
  2 * d.contents.length + (if d.segmentSize.isSome then 1 else 0)

/-- One entry per call: the returned batch and what is left in `self`. -/
structure Step where
  taken : Datagrams
  rest : Datagrams
deriving Repr

/--
The caller's loop (`RelayTransport::poll_recv` across its slots): call
`take_segments(n)`; stop when `self.contents` is empty.  A call that does not
decrease `measure` would repeat forever; the run stops there with `stuck = true`
(this happens only for `n = 0`, see `Theorems.takeAll_not_stuck`).
-/
def takeAll (n : Nat) (d : Datagrams) : List Step × Bool :=
  let r := takeSegments d n
  if r.2.contents.isEmpty then ([⟨r.1, r.2⟩], false)
  else if _h : measure r.2 < measure d then
    let rec' := takeAll n r.2
    (⟨r.1, r.2⟩ :: rec'.1, rec'.2)
  else ([⟨r.1, r.2⟩], true)
termination_by measure d

end IrohModel.C16
