import IrohModel.C01.Model
import IrohModel.Common.BaseNLemmas

namespace IrohModel.C01
open IrohModel

theorem splitDots_ne_nil (s : List Char) : splitDots s ≠ [] := by
  induction s with
  | nil => simp [splitDots]
  | cons c cs ih =>
    simp only [splitDots]
    split
    · contradiction
    · split <;> simp

/-- Inverse of `splitDots`. -/
def joinDots : List (List Char) → List Char
  | [] => []
  | [p] => p
  | p :: q :: ps => p ++ '.' :: joinDots (q :: ps)

theorem joinDots_splitDots (s : List Char) : joinDots (splitDots s) = s := by
  induction s with
  | nil => simp [splitDots, joinDots]
  | cons c cs ih =>
    simp only [splitDots]
    split
    · rename_i h; exact absurd h (splitDots_ne_nil cs)
    · rename_i p ps h
      rw [h] at ih
      by_cases hc : c = '.'
      · subst hc; simp only [if_true]
        simp [joinDots, ih]
      · simp only [if_neg hc]
        cases ps with
        | nil => simp [joinDots] at ih ⊢; exact ih
        | cons q qs => simp [joinDots] at ih ⊢; exact ih

theorem splitDots_nodot (a : List Char) (h : '.' ∉ a) : splitDots a = [a] := by
  induction a with
  | nil => simp [splitDots]
  | cons c cs ih =>
    have hc : c ≠ '.' := fun e => h (by simp [e])
    have hcs : '.' ∉ cs := fun e => h (by simp [e])
    simp [splitDots, ih hcs, hc]

theorem splitDots_append (a rest : List Char) (h : '.' ∉ a) :
    splitDots (a ++ '.' :: rest) = a :: splitDots rest := by
  induction a with
  | nil =>
    simp only [List.nil_append, splitDots]
    split
    · rename_i h'; exact absurd h' (splitDots_ne_nil rest)
    · rename_i p ps h'; simp [h']
  | cons c cs ih =>
    have hc : c ≠ '.' := fun e => h (by simp [e])
    have hcs : '.' ∉ cs := fun e => h (by simp [e])
    simp only [List.cons_append, splitDots, ih hcs, if_neg hc]

theorem dot_not_in_b32 (bs : List UInt8) : '.' ∉ base32Dnssec.encode bs := by
  intro h
  have := base32Dnssec.encode_subset_alphabet bs '.' h
  revert this; decide

theorem splitDots_encodeName (id : Bytes) :
    splitDots (encodeName id) = [base32Dnssec.encode id, "iroh".toList, "invalid".toList] := by
  unfold encodeName
  have e : ".iroh.invalid".toList = '.' :: ("iroh".toList ++ '.' :: "invalid".toList) := by decide
  rw [e, splitDots_append _ _ (dot_not_in_b32 id), splitDots_append _ _ (by decide),
    splitDots_nodot _ (by decide)]

theorem parseSpki_spki (key : Bytes) (h : key.length = 32) : parseSpki (spki key) = some key := by
  simp [parseSpki, spki, spkiPrefix, h]

theorem parseSpki_eq_some {cert key : Bytes} (h : parseSpki cert = some key) :
    cert = spki key ∧ key.length = 32 := by
  unfold parseSpki at h
  split at h
  · rename_i hc
    simp only [Option.some.injEq] at h
    subst h
    refine ⟨?_, by simp; omega⟩
    unfold spki; rw [← hc.1]; exact (List.take_append_drop 12 cert).symm
  · cases h

end IrohModel.C01
