/-
C01 — dialing by public key authenticates the remote.  Model of
`iroh/src/tls/name.rs` (encode/decode of the per-id TLS name) and
`iroh/src/tls/verifier.rs` (server/client certificate verifiers for raw public
keys, TLS 1.3 handshake-signature check), plus the way `connect` ties them
together (`name::encode(dialed id)` is the server name handed to rustls).

Cryptography (`validPoint`, `verify`) is a parameter; rustls' handshake driver
(that it calls the verifier and checks Finished) is assumed.
-/
import IrohModel.Common.BaseN
import IrohModel.Generated.C01

namespace IrohModel.C01
open IrohModel

abbrev Bytes := List UInt8

structure Crypto where
  /-- 32 bytes are a valid Ed25519 public key (`PublicKey::from_bytes`). -/
  validPoint : Bytes → Bool
  /-- `PublicKey::verify(msg, sig)` (`pk msg sig`). -/
  verify : Bytes → Bytes → Bytes → Bool

/-! ### TLS name -/

def suffixLabels : List (List Char) := ["iroh".toList, "invalid".toList]

/-- `str::split(".")` -/
def splitDots : List Char → List (List Char)
  | [] => [[]]
  | c :: cs =>
    match splitDots cs with
    | [] => [[c]]            -- unreachable: splitDots never returns []
    | p :: ps => if c = '.' then [] :: p :: ps else (c :: p) :: ps

/-- `name::encode` -/
def encodeName (id : Bytes) : List Char :=
  base32Dnssec.encode id ++ ".iroh.invalid".toList

/-- `name::decode`: exactly three labels, the last two literally `iroh` and `invalid`, the first
BASE32_DNSSEC-decodes to 32 bytes that are a valid key. -/
def decodeName (C : Crypto) (s : List Char) : Option Bytes :=
  match splitDots s with
  | [l, a, b] =>
    if a = "iroh".toList ∧ b = "invalid".toList then
      match base32Dnssec.decode l with
      | some id => if id.length = 32 ∧ C.validPoint id then some id else none
      | none => none
    else none
  | _ => none

/-! ### certificate verifiers -/

/-- DER prefix of an Ed25519 SubjectPublicKeyInfo (`public_key_to_spki(alg_id::ED25519, key)`):
`SEQUENCE(42) { SEQUENCE(5) { OID 1.3.101.112 } BIT STRING(33) { 0 unused bits, key } }`. -/
def spkiPrefix : Bytes := [0x30, 0x2a, 0x30, 0x05, 0x06, 0x03, 0x2b, 0x65, 0x70, 0x03, 0x21, 0x00]

def spki (key : Bytes) : Bytes := spkiPrefix ++ key

/-- The server name rustls hands to the verifier. -/
inductive ServerName where
  | dns (s : List Char)
  | ip
deriving DecidableEq, Repr

inductive VErr where
  | unsupportedNameType | notValidForName | unknownIssuer
deriving DecidableEq, Repr

/-- `ServerCertificateVerifier::verify_server_cert` -/
def verifyServerCert (C : Crypto) (ee : Bytes) (inter : List Bytes) (name : ServerName) : Except VErr Unit :=
  match name with
  | .ip => .error .unsupportedNameType
  | .dns s =>
    match decodeName C s with
    | none => .error .notValidForName
    | some id =>
      if !inter.isEmpty then .error .unknownIssuer
      else if spki id ≠ ee then .error .unknownIssuer
      else .ok ()

/-- `ClientCertificateVerifier::verify_client_cert` -/
def verifyClientCert (_ee : Bytes) (inter : List Bytes) : Except VErr Unit :=
  if !inter.isEmpty then .error .unknownIssuer else .ok ()

/-- The raw key inside a certificate that is exactly an Ed25519 SPKI with a 32-byte key. -/
def parseSpki (cert : Bytes) : Option Bytes :=
  if cert.take 12 = spkiPrefix ∧ cert.length = 44 then some (cert.drop 12) else none

/-- Wire number of the only supported signature scheme (ED25519). -/
def schemeEd25519 : Nat := Generated.C01.schemeEd25519

/-- `verify_tls13_signature` of both verifiers (`verify_tls13_signature_with_raw_key` with the
single algorithm `Ed25519Dalek`): succeeds only for scheme ED25519, a certificate that is an
Ed25519 SPKI with a valid 32-byte key, and a signature that verifies under that key. -/
def verifyTls13 (C : Crypto) (msg cert : Bytes) (scheme : Nat) (sig : Bytes) : Bool :=
  scheme == schemeEd25519 &&
  match parseSpki cert with
  | some key => C.validPoint key && C.verify key msg sig
  | none => false

/-- `remote_id_from_noq_conn`: exactly one peer certificate, which must be an Ed25519 SPKI. -/
def remoteId (C : Crypto) (certs : List Bytes) : Option Bytes :=
  match certs with
  | [c] => match parseSpki c with
    | some k => if C.validPoint k then some k else none
    | none => none
  | _ => none

/-! ### what the dialing side requires before a connection is established -/

/-- The peer's TLS 1.3 authentication flight. -/
structure PeerAuth where
  endEntity : Bytes
  intermediates : List Bytes
  scheme : Nat
  signature : Bytes

/-- The dialer (client) accepts the server's flight for `dialed`: rustls calls
`verify_server_cert` with server name `name::encode(dialed)` and `verify_tls13_signature` over the
handshake transcript; both must succeed. -/
def clientAccepts (C : Crypto) (dialed : Bytes) (transcript : Bytes) (p : PeerAuth) : Bool :=
  (match verifyServerCert C p.endEntity p.intermediates (.dns (encodeName dialed)) with
   | .ok _ => true | .error _ => false) &&
  verifyTls13 C transcript p.endEntity p.scheme p.signature

/-- The accepting side (server) accepts the client's flight. -/
def serverAccepts (C : Crypto) (transcript : Bytes) (p : PeerAuth) : Bool :=
  (match verifyClientCert p.endEntity p.intermediates with
   | .ok _ => true | .error _ => false) &&
  verifyTls13 C transcript p.endEntity p.scheme p.signature

end IrohModel.C01
