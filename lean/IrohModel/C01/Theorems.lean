/-
C01 — property theorems.

"A connection attempt to endpoint id K completes only if the remote proves
possession of K's secret key in the handshake, whatever certificate, chain or
server name it presents.  On both sides of an established connection the
reported remote id equals the key the other side actually holds.  The locally
derived TLS name for an id decodes back to exactly that id, and a name decodes
to an id only if it has the shape `<base32 of 32 key bytes>.iroh.invalid`."

"Proves possession" = presents a handshake signature over the transcript that
`verify` accepts under K (EUF-CMA of Ed25519 assumed; rustls is assumed to call
the verifier on the peer's flight and to abort when it errs).
-/
import IrohModel.C01.Lemmas

namespace IrohModel.C01
open IrohModel

/-- The literals of the model are the ones in the source (regenerated on every run). -/
theorem literals_match_source :
    ".iroh.invalid" = Generated.C01.nameSuffix ∧ "iroh.invalid" = Generated.C01.decodeLabels ∧
    schemeEd25519 = 0x0807 := ⟨rfl, rfl, rfl⟩

/-- **name_roundtrip** — the locally derived TLS name of an id decodes back to exactly that id. -/
theorem name_roundtrip (C : Crypto) (id : Bytes) (hl : id.length = 32) (hv : C.validPoint id = true) :
    decodeName C (encodeName id) = some id := by
  unfold decodeName
  rw [splitDots_encodeName]
  simp [BaseN.decode_encode, hl, hv]

/-- **decode_shape** — a name decodes to an id only if it is `<label>.iroh.invalid` where the
label, case-folded, is the base32 (DNSSEC alphabet, 52 symbols) of the id's 32 bytes, and the id
is a valid key. -/
theorem decode_shape (C : Crypto) (s : List Char) (id : Bytes) (h : decodeName C s = some id) :
    ∃ l : List Char, s = l ++ ".iroh.invalid".toList ∧
      l.map base32Dnssec.translate = base32Dnssec.encode id ∧ l.length = 52 ∧
      id.length = 32 ∧ C.validPoint id = true := by
  unfold decodeName at h
  split at h
  · rename_i l a b hs
    split at h
    · rename_i hab
      split at h
      · rename_i id' hd
        split at h
        · rename_i hid
          simp only [Option.some.injEq] at h; subst h
          have hj := joinDots_splitDots s
          rw [hs, hab.1, hab.2] at hj
          have henc := base32Dnssec.encode_of_decode hd
          refine ⟨l, ?_, henc, ?_, hid.1, hid.2⟩
          · rw [← hj]; simp [joinDots]
          · have := congrArg List.length henc
            rw [List.length_map, base32Dnssec.length_encode, hid.1] at this
            simpa [BaseN.encodeLen, base32Dnssec] using this
        · cases h
      · cases h
    · cases h
  · cases h

/-- **server_cert_sound / complete** — the server-certificate verifier accepts exactly when the
server name is a DNS name that decodes to an id, there are no intermediates, and the end-entity
certificate is byte-for-byte the Ed25519 SPKI of that id; whatever else is presented is refused. -/
theorem server_cert_iff (C : Crypto) (ee : Bytes) (inter : List Bytes) (name : ServerName) :
    verifyServerCert C ee inter name = .ok () ↔
      ∃ s id, name = .dns s ∧ decodeName C s = some id ∧ inter = [] ∧ ee = spki id := by
  cases name with
  | ip => simp [verifyServerCert]
  | dns s =>
    cases hd : decodeName C s with
    | none => simp [verifyServerCert, hd]
    | some id =>
      cases inter with
      | cons c cs => simp [verifyServerCert, hd]
      | nil =>
        by_cases he : spki id = ee
        · subst he; simp [verifyServerCert, hd]
        · have he' : ¬ ee = spki id := fun h => he h.symm
          simp [verifyServerCert, hd, he, he']

/-- **client_cert_no_chain** — the client-certificate verifier accepts iff no chain is presented. -/
theorem client_cert_no_chain (ee : Bytes) (inter : List Bytes) :
    verifyClientCert ee inter = .ok () ↔ inter = [] := by
  unfold verifyClientCert; cases inter <;> simp

/-- **tls13_sig_iff** — a TLS 1.3 handshake signature is accepted iff the scheme is ED25519, the
certificate is exactly the SPKI of a valid 32-byte key, and the signature verifies under that key. -/
theorem tls13_sig_iff (C : Crypto) (msg cert : Bytes) (scheme : Nat) (sig : Bytes) :
    verifyTls13 C msg cert scheme sig = true ↔
      scheme = 0x0807 ∧ ∃ key, cert = spki key ∧ key.length = 32 ∧ C.validPoint key = true ∧
        C.verify key msg sig = true := by
  unfold verifyTls13
  cases hp : parseSpki cert with
  | none =>
    simp only [Bool.and_false, Bool.false_eq_true, false_iff]
    rintro ⟨_, key, hc, hl, _⟩
    rw [hc, parseSpki_spki key hl] at hp; cases hp
  | some key =>
    obtain ⟨hc, hl⟩ := parseSpki_eq_some hp
    simp only [Bool.and_eq_true, beq_iff_eq]
    constructor
    · rintro ⟨hs, hv, hver⟩; exact ⟨hs, key, hc, hl, hv, hver⟩
    · rintro ⟨hs, key', hc', hl', hv, hver⟩
      have : key' = key := by
        have := hc.symm.trans hc'
        simpa [spki] using this.symm
      subst this; exact ⟨hs, hv, hver⟩

/-- **connect_authenticates** — for every dialed id and everything a peer may present
(certificate bytes, intermediates, scheme, signature): the dialer accepts only if the certificate
is exactly the SPKI of the dialed id and the handshake signature verifies under the dialed id over
the transcript, i.e. the peer proved possession of the dialed key. -/
theorem connect_authenticates (C : Crypto) (dialed transcript : Bytes) (p : PeerAuth)
    (hl : dialed.length = 32) (hv : C.validPoint dialed = true)
    (h : clientAccepts C dialed transcript p = true) :
    p.endEntity = spki dialed ∧ p.intermediates = [] ∧ p.scheme = 0x0807 ∧
      C.verify dialed transcript p.signature = true := by
  unfold clientAccepts at h
  simp only [Bool.and_eq_true] at h
  obtain ⟨h1, h2⟩ := h
  have h1' : verifyServerCert C p.endEntity p.intermediates (.dns (encodeName dialed)) = .ok () := by
    split at h1
    · rename_i u hu; cases u; exact hu
    · cases h1
  obtain ⟨s, id, hs, hd, hi, hee⟩ := (server_cert_iff C _ _ _).1 h1'
  cases hs
  rw [name_roundtrip C dialed hl hv] at hd
  cases hd
  obtain ⟨hsch, key, hc, hkl, _, hver⟩ := (tls13_sig_iff C _ _ _ _).1 h2
  have : key = dialed := by
    have := hee.symm.trans hc
    simpa [spki] using this.symm
  subst this
  exact ⟨hee, hi, hsch, hver⟩

/-- **remote_id_client** — on an accepted outgoing connection the reported remote id is the dialed id. -/
theorem remote_id_client (C : Crypto) (dialed transcript : Bytes) (p : PeerAuth)
    (hl : dialed.length = 32) (hv : C.validPoint dialed = true)
    (h : clientAccepts C dialed transcript p = true) :
    remoteId C [p.endEntity] = some dialed := by
  obtain ⟨hee, _, _, _⟩ := connect_authenticates C dialed transcript p hl hv h
  simp [remoteId, hee, parseSpki_spki dialed hl, hv]

/-- **remote_id_server** — on an accepted incoming connection the reported remote id is a key
under which the peer's handshake signature verifies (the key the dialer actually holds). -/
theorem remote_id_server (C : Crypto) (transcript : Bytes) (p : PeerAuth)
    (h : serverAccepts C transcript p = true) :
    ∃ k, remoteId C [p.endEntity] = some k ∧ p.endEntity = spki k ∧ p.intermediates = [] ∧
      C.verify k transcript p.signature = true := by
  unfold serverAccepts at h
  simp only [Bool.and_eq_true] at h
  obtain ⟨h1, h2⟩ := h
  have hi : p.intermediates = [] := by
    apply (client_cert_no_chain p.endEntity _).1
    split at h1
    · rename_i u hu; cases u; exact hu
    · cases h1
  obtain ⟨_, key, hc, hkl, hvp, hver⟩ := (tls13_sig_iff C _ _ _ _).1 h2
  exact ⟨key, by simp [remoteId, hc, parseSpki_spki key hkl, hvp], hc, hi, hver⟩

/-- A wrong key is never accepted: if the peer cannot produce a signature verifying under the
dialed id, the connection attempt does not complete — whatever else it presents. -/
theorem wrong_key_rejected (C : Crypto) (dialed transcript : Bytes) (p : PeerAuth)
    (hl : dialed.length = 32) (hv : C.validPoint dialed = true)
    (hno : C.verify dialed transcript p.signature = false) :
    clientAccepts C dialed transcript p = false := by
  cases h : clientAccepts C dialed transcript p with
  | false => rfl
  | true =>
    have := (connect_authenticates C dialed transcript p hl hv h).2.2.2
    rw [hno] at this; cases this

-- Non-vacuity with a toy scheme (verify pk m sig := sig = pk ++ m, every 32-byte string a key).
section NonVacuity
def toyC : Crypto := ⟨fun k => k.length == 32, fun pk m sig => sig == pk ++ m⟩
def toyId : Bytes := List.replicate 32 5
example : decodeName toyC (encodeName toyId) = some toyId := by decide +kernel
example : clientAccepts toyC toyId [1, 2] ⟨spki toyId, [], 0x0807, toyId ++ [1, 2]⟩ = true := by
  decide +kernel
example : clientAccepts toyC toyId [1, 2] ⟨spki (List.replicate 32 6), [], 0x0807,
    List.replicate 32 6 ++ [1, 2]⟩ = false := by decide +kernel
example : serverAccepts toyC [1, 2] ⟨spki toyId, [], 0x0807, toyId ++ [1, 2]⟩ = true := by
  decide +kernel
end NonVacuity

end IrohModel.C01
