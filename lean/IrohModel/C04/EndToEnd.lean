/-
C04 — END-TO-END relay theorems: the frame codec (C10) composed with the relay registry
(`C04/WireModel.lean`).

Wire-level histories `l : List WOp` consist of byte strings arriving from connections'
clients (ARBITRARY byte strings — honest encodings are a special case) and of the
registry's other operations (registrations, unregistrations, notification-loop steps,
disconnect requests, deliveries, actor exits, shutdowns) in any interleaving;
`wrun km cap l` is the state after such a history.  What a connection's client receives
are the byte strings `wireOut km f` for the `out c f` events of the history.

* `wire_delivery_exact`   — honest sender, honest receiver: the receiver decodes exactly what
                            the sender encoded, attributed to the sender's authenticated id;
* `wire_no_forgery`       — whatever bytes clients put on the wire, every datagram frame a
                            connection receives names the id the SENDING connection was
                            registered (authenticated) as;
* `wire_rejected_frames_harmless` — bytes that fail to decode end the sender's connection
                            and nothing else (C10's decode totality tied to C05).
-/
import IrohModel.C04.WireModel
import IrohModel.C04.Theorems
import IrohModel.C10.Theorems

namespace IrohModel.C04
open IrohModel.RelayRegistry

/-! ### The two models agree on the constants they share -/

/-- The registry model (constants regenerated for C04) and the codec model (constants
regenerated for C10) use the same packet-size limit and field lengths. -/
theorem consts_agree :
    Generated.C04.maxPacket = Generated.C10.maxPacketSize ∧ Generated.C04.keyLen = Generated.C10.keyLen ∧
    Generated.C04.typeLen = 1 ∧ Generated.C04.ecnLen = 1 ∧ Generated.C04.segLen = 2 := by decide

/-! ### What the decoder hands to the registry -/

theorem getU16_lt (bs : Bytes) (seg : Nat) (r : Bytes) (h : C10.getU16 bs = .ok (seg, r)) : seg < 65536 := by
  unfold C10.getU16 at h
  split at h
  · rename_i a b r'
    simp only [Except.ok.injEq, Prod.mk.injEq] at h
    have ha := a.toNat_lt
    have hb' := b.toNat_lt
    omega
  · cases h

theorem datagrams_decode_wf (bs : Bytes) (b : Bool) (d : D) (h : C10.Datagrams.decode bs b = .ok d) : d.WF := by
  unfold C10.Datagrams.decode at h
  cases b with
  | false =>
    simp only [Bool.false_eq_true, if_false] at h
    by_cases hl : bs.length < 1
    · simp [hl, C10.rerr] at h
    · simp only [hl, if_false] at h
      cases hb : C10.getU8 bs with
      | error f => simp [hb] at h
      | ok p =>
        obtain ⟨e, r⟩ := p
        simp only [hb, Except.ok.injEq] at h
        subst h
        intro s hs; cases hs
  | true =>
    simp only [if_true] at h
    by_cases hl : bs.length < 3
    · simp [hl, C10.rerr] at h
    · simp only [hl, if_false] at h
      cases hb : C10.getU8 bs with
      | error f => simp [hb] at h
      | ok p =>
        obtain ⟨e, r⟩ := p
        simp only [hb] at h
        cases hg : C10.getU16 r with
        | error f => simp [hg] at h
        | ok q =>
          obtain ⟨seg, r2⟩ := q
          simp only [hg, Except.ok.injEq] at h
          subst h
          have hlt := getU16_lt r seg r2 hg
          intro s hs
          dsimp only at hs
          split at hs
          · cases hs
          · simp only [Option.some.injEq] at hs
            omega

theorem keyed_decode_ok (vk : Bytes → Bool) (content : Bytes) (b : Bool) (k : Bytes) (d : D)
    (h : C10.decodeKeyedDatagrams vk content b = .ok (k, d)) : C10.KeyOk vk k ∧ d.WF := by
  unfold C10.decodeKeyedDatagrams at h
  split at h
  · cases h
  · rename_i hlen
    cases hs : C10.sliceTo Generated.C10.keyLen content with
    | error f => rw [hs] at h; cases h
    | ok key =>
      rw [hs] at h
      dsimp only at h
      split at h
      · cases h
      · rename_i hv
        cases hr : C10.sliceFrom Generated.C10.keyLen content with
        | error f => rw [hr] at h; cases h
        | ok rest =>
          rw [hr] at h
          dsimp only at h
          cases hd : C10.Datagrams.decode rest b with
          | error f => rw [hd] at h; cases h
          | ok d' =>
            rw [hd] at h
            simp only [Except.ok.injEq, Prod.mk.injEq] at h
            obtain ⟨rfl, rfl⟩ := h
            refine ⟨⟨?_, by simpa using hv⟩, datagrams_decode_wf rest b _ hd⟩
            unfold C10.sliceTo at hs
            split at hs
            · simp only [Except.ok.injEq] at hs
              subst hs
              simp only [List.length_take, Generated.C10.keyLen] at *
              omega
            · cases hs

/-- A datagram message the relay's decoder produces has a valid 32-byte key and a
segment size in `1..65535` (or none). -/
theorem decodeC2R_datagrams_wf (vk : Bytes → Bool) (bs k : Bytes) (d : D)
    (h : C10.decodeC2R vk bs = .ok (.datagrams k d)) : C10.KeyOk vk k ∧ d.WF := by
  unfold C10.decodeC2R at h
  split at h
  · cases h
  · split at h
    · cases h
    · split at h
      · split at h
        · cases h
        · rename_i k' d' hk
          simp only [Except.ok.injEq, C10.ClientToRelayMsg.datagrams.injEq] at h
          obtain ⟨rfl, rfl⟩ := h
          exact keyed_decode_ok vk _ _ _ _ hk
      · split at h
        · cases h
        · rename_i k' d' hk
          simp only [Except.ok.injEq, C10.ClientToRelayMsg.datagrams.injEq] at h
          obtain ⟨rfl, rfl⟩ := h
          exact keyed_decode_ok vk _ _ _ _ hk
      · split at h <;> cases h
      · split at h <;> cases h
      · cases h

/-- The registry's size check on `toDgram d` is the codec's `Fits` for the relay→client frame. -/
theorem fits_of_sendable (cap : Nat) (k : Bytes) (d : D) (hk : k.length = 32) (hwf : d.WF)
    (hs : sendable (wcfg cap) (toDgram d) = true) : (C10.RelayToClientMsg.datagrams k d).Fits := by
  unfold sendable at hs
  rw [Bool.and_eq_true, decide_eq_true_iff, decide_eq_true_iff] at hs
  obtain ⟨h1, _⟩ := hs
  simp only [encodedLen, wcfg, cfgOf, toDgram, Generated.C04.typeLen, Generated.C04.keyLen,
    Generated.C04.ecnLen, Generated.C04.segLen, Generated.C04.maxPacket] at h1
  unfold C10.RelayToClientMsg.Fits
  simp only [C10.RelayToClientMsg.payload, List.length_append, hk, C10.Datagrams.encode_length,
    C10.Datagrams.encodedLen, Generated.C10.maxPacketSize]
  cases hseg : d.segmentSize with
  | none => simp only [hseg, Option.getD_none, if_true] at h1 ⊢; omega
  | some s =>
    have := (hwf s hseg).1
    simp only [hseg, Option.getD_some] at h1 ⊢
    rw [if_neg (by omega)] at h1
    omega

/-- What the receiving client decodes from the bytes of a delivered datagram frame whose
batch came from the decoder and passed the size check: the sender id's key and the batch,
in every protocol version. -/
theorem clientDecode_wireOut (km : KeyMap) (hkm : km.Lawful) (cap : Nat) (src : Id) (x : D) (hwf : x.WF)
    (hs : sendable (wcfg cap) (toDgram x) = true) (v : C10.Version) :
    clientDecode km v (wireOut km (.datagrams src (toDgram x))) = .ok (.datagrams (km.keyOf src) x) := by
  unfold clientDecode wireOut r2cMsg
  have ht : (C10.RelayToClientMsg.datagrams (km.keyOf src) x).TypeInv km.validKey :=
    show C10.KeyOk km.validKey (km.keyOf src) ∧ x.WF from ⟨⟨hkm.len src, hkm.valid src⟩, hwf⟩
  exact C10.rt_r2c km.validKey v _ ht trivial (fits_of_sendable cap _ x (hkm.len src) hwf hs) trivial

/-! ### Wire-level histories only feed decoder outputs to the registry -/

def WireShaped (op : Op D) : Prop :=
  ∀ c dst d, op = .recvFrame c (.datagrams dst d) → ∃ x : D, d = toDgram x ∧ x.WF

theorem toOps_shaped (km : KeyMap) (w : WOp) : ∀ op ∈ w.toOps km, WireShaped op := by
  intro op hop c dst d heq
  subst heq
  cases w with
  | ctl op' =>
    simp only [WOp.toOps] at hop
    split at hop
    · simp at hop
    · simp only [List.mem_singleton] at hop
      subst hop
      rename_i h; simp [isRecv] at h
  | wire c' bs =>
    simp only [WOp.toOps] at hop
    cases hw : wireIn km bs with
    | none => rw [hw] at hop; simp at hop
    | some f =>
      rw [hw] at hop
      simp only [List.mem_singleton, Op.recvFrame.injEq] at hop
      obtain ⟨rfl, rfl⟩ := hop
      unfold wireIn at hw
      split at hw
      · rename_i k x hdec
        simp only [Option.some.injEq, C2R.datagrams.injEq] at hw
        exact ⟨x, hw.2.symm, (decodeC2R_datagrams_wf _ _ _ _ hdec).2⟩
      · simp at hw
      · simp at hw
      · cases hw

theorem wops_shaped (km : KeyMap) (l : List WOp) : ∀ op ∈ wops km l, WireShaped op := by
  intro op hop
  simp only [wops, List.mem_flatMap] at hop
  obtain ⟨w, _, hw⟩ := hop
  exact toOps_shaped km w op hw

/-- Every acceptance in the log is of a decoder-produced, size-checked batch, read from a
connection that was registered as the named source id. -/
def AccInv (cap : Nat) (s : State D) : Prop :=
  ∀ sender src dst t d, Event.accepted sender src dst t d ∈ s.log →
    (∃ x : D, d = toDgram x ∧ x.WF) ∧ sendable (wcfg cap) d = true ∧ Event.registered sender src ∈ s.log

theorem AccInv.step (cap : Nat) {s : State D} (hr : RegLogInv s) (h : AccInv cap s) (op : Op D)
    (hop : WireShaped op) : AccInv cap (RelayRegistry.step (wcfg cap) s op) := by
  obtain ⟨evs, hl, _⟩ := step_kinds (wcfg cap) s op
  intro sender src dst t d hmem
  rw [hl] at hmem ⊢
  rcases List.mem_append.mp hmem with hmem | hmem
  · obtain ⟨a, b, c⟩ := h sender src dst t d hmem
    exact ⟨a, b, List.mem_append_left _ c⟩
  · obtain ⟨rfl, x, e, hx, hown, _, _, _, hs⟩ := accepted_sound (wcfg cap) s op evs hl sender src dst t d hmem
    refine ⟨hop sender dst d rfl, hs, List.mem_append_left _ ?_⟩
    rw [← hown]; exact hr sender x hx

theorem accInv_runFrom (cap : Nat) (ops : List (Op D)) (hops : ∀ op ∈ ops, WireShaped op) {s : State D}
    (hr : RegLogInv s) (h : AccInv cap s) : AccInv cap (runFrom (wcfg cap) s ops) := by
  induction ops generalizing s with
  | nil => exact h
  | cons op ops ih =>
    exact ih (fun o ho => hops o (List.mem_cons_of_mem _ ho)) (hr.step _ op)
      (h.step cap hr op (hops op List.mem_cons_self))

theorem accInv_wrun (km : KeyMap) (cap : Nat) (l : List WOp) : AccInv cap (wrun km cap l) :=
  accInv_runFrom cap _ (wops_shaped km l) RegLogInv.init (fun _ _ _ _ _ h => by simp [RelayRegistry.init] at h)

/-- A delivered pair was accepted for that connection (from `delivery_prefix`). -/
theorem out_has_accepted (cfg : Cfg D) (ops : List (Op D)) (c : Cid) (src : Id) (d : Dgram D)
    (h : Event.out c (.datagrams src d) ∈ (run cfg ops).log) :
    ∃ sender dst, Event.accepted sender src dst c d ∈ (run cfg ops).log := by
  have h1 : (src, d) ∈ deliveredTo (run cfg ops).log c := by
    simp only [deliveredTo, List.mem_filterMap]
    exact ⟨_, h, by simp⟩
  have h2 : (src, d) ∈ acceptedTo (run cfg ops).log c := (delivery_prefix cfg ops c).subset h1
  simp only [acceptedTo, List.mem_filterMap] at h2
  obtain ⟨ev, hev, hm⟩ := h2
  cases ev with
  | accepted sender src' dst t d' =>
    simp only at hm
    split at hm
    · simp only [Option.some.injEq, Prod.mk.injEq] at hm
      obtain ⟨rfl, rfl⟩ := hm
      subst_vars
      exact ⟨sender, dst, hev⟩
    · cases hm
  | _ => simp at hm

/-! ### The end-to-end theorems -/

/-- **No forgery.**  After ANY wire-level history — clients may put arbitrary byte strings
on the wire — every datagram frame written to any connection `c`
* stems from a frame the relay read from some connection `sender` (`accepted … ∈ log`,
  see `accepted_sound`: `c` was then the active connection of the addressed endpoint),
* names as its source the endpoint id `src` that `sender` was REGISTERED (authenticated) as,
* and its bytes decode at the receiving client, in every protocol version, to
  `datagrams(key of src, batch)` with the batch the relay's decoder produced. -/
theorem wire_no_forgery (km : KeyMap) (hkm : km.Lawful) (cap : Nat) (l : List WOp) (c : Cid) (src : Id)
    (d : Dgram D) (h : Event.out c (.datagrams src d) ∈ (wrun km cap l).log) :
    ∃ sender dst, Event.accepted sender src dst c d ∈ (wrun km cap l).log ∧
      Event.registered sender src ∈ (wrun km cap l).log ∧
      ∀ v, clientDecode km v (wireOut km (.datagrams src d)) = .ok (.datagrams (km.keyOf src) d.contents) := by
  obtain ⟨sender, dst, hacc⟩ := out_has_accepted (wcfg cap) (wops km l) c src d h
  obtain ⟨⟨x, rfl, hwf⟩, hs, hreg⟩ := accInv_wrun km cap l sender src dst c d hacc
  exact ⟨sender, dst, hacc, hreg, fun v => clientDecode_wireOut km hkm cap src x hwf hs v⟩

/-- The honest client's encoding is decoded by the relay to the message it encoded. -/
theorem wireIn_clientEncode (km : KeyMap) (hkm : km.Lawful) (dst : Id) (dg : D) (hwf : dg.WF)
    (hfit : (C10.ClientToRelayMsg.datagrams (km.keyOf dst) dg).Fits) :
    wireIn km (clientEncode km dst dg) = some (.datagrams dst (toDgram dg)) := by
  unfold wireIn clientEncode
  have ht : (C10.ClientToRelayMsg.datagrams (km.keyOf dst) dg).TypeInv km.validKey :=
    show C10.KeyOk km.validKey (km.keyOf dst) ∧ dg.WF from ⟨⟨hkm.len dst, hkm.valid dst⟩, hwf⟩
  rw [C10.rt_c2r km.validKey _ ht hfit]
  simp [hkm.inv dst]

/-- **Exact delivery.**  Let `l` be any wire-level history and `a` a connection of honest
client A (registered as `xa.owner`) whose actor is running.  A encodes the well-formed
datagram message `dg` for endpoint `dst` and the relay accepts it — i.e. `dst` has an
entry, its active connection `e.active` has room in its packet queue, and `dg` passes the
relay's size check.  Then after ANY further wire-level history `more`: if connection
`e.active` delivers its `k`-th datagram frame, `k` being the number of datagrams accepted
for it before, then the bytes it writes decode at the receiving client — in every
protocol version — to `datagrams(key of A's id, dg)`: true sender, same ECN, same segment
size, same contents; and by `delivery_sound` no other delivery stems from this message. -/
theorem wire_delivery_exact (km : KeyMap) (hkm : km.Lawful) (cap : Nat) (l more : List WOp)
    (a : Cid) (xa : Conn D) (dst : Id) (dg : D) (e : Entry) (y : Conn D)
    (hwf : dg.WF) (hfit : (C10.ClientToRelayMsg.datagrams (km.keyOf dst) dg).Fits)
    (ha : (wrun km cap l).conns a = some xa) (hlive : xa.exited = false)
    (hsend : sendable (wcfg cap) (toDgram dg) = true)
    (he : (wrun km cap l).entries dst = some e) (hy : (wrun km cap l).conns e.active = some y)
    (hroom : y.packetQ.length < (wcfg cap).cap)
    (p : Id × Dgram D)
    (hk : (deliveredTo (wrun km cap (l ++ [.wire a (clientEncode km dst dg)] ++ more)).log e.active)[
            (acceptedTo (wrun km cap l).log e.active).length]? = some p) :
    p = (xa.owner, toDgram dg) ∧
    ∀ v, clientDecode km v (wireOut km (.datagrams p.1 p.2)) = .ok (.datagrams (km.keyOf xa.owner) dg) := by
  -- the state right after the relay handled A's frame
  have hops : wops km (l ++ [.wire a (clientEncode km dst dg)] ++ more) =
      wops km l ++ [.recvFrame a (.datagrams dst (toDgram dg))] ++ wops km more := by
    simp [wops, WOp.toOps, wireIn_clientEncode km hkm dst dg hwf hfit]
  have h1 : (runFrom (wcfg cap) (wrun km cap l) [.recvFrame a (.datagrams dst (toDgram dg))]).log =
      (wrun km cap l).log ++ [.accepted a xa.owner dst e.active (toDgram dg)] := by
    simp [runFrom, RelayRegistry.step, RelayRegistry.recvFrame, ha, hlive, sendPacket, hsend, he, hy, hroom]
  -- later operations only extend the log
  obtain ⟨evs, h2⟩ := runFrom_log (wcfg cap) (wops km more)
    (runFrom (wcfg cap) (wrun km cap l) [.recvFrame a (.datagrams dst (toDgram dg))])
  have hfinal : (wrun km cap (l ++ [.wire a (clientEncode km dst dg)] ++ more)).log =
      (wrun km cap l).log ++ [.accepted a xa.owner dst e.active (toDgram dg)] ++ evs := by
    have hst : wrun km cap (l ++ [.wire a (clientEncode km dst dg)] ++ more) =
        runFrom (wcfg cap) (runFrom (wcfg cap) (wrun km cap l) [.recvFrame a (.datagrams dst (toDgram dg))])
          (wops km more) := by
      show run (wcfg cap) (wops km _) = _
      rw [hops]
      unfold run
      rw [runFrom_append, runFrom_append]
      rfl
    rw [hst, h2, h1]
  -- the k-th accepted pair for `e.active` is A's message
  have hacc : (acceptedTo (wrun km cap (l ++ [.wire a (clientEncode km dst dg)] ++ more)).log e.active)[
      (acceptedTo (wrun km cap l).log e.active).length]? = some (xa.owner, toDgram dg) := by
    rw [hfinal, acceptedTo_append, acceptedTo_append]
    have : acceptedTo [Event.accepted (α := D) a xa.owner dst e.active (toDgram dg)] e.active =
        [(xa.owner, toDgram dg)] := by simp [acceptedTo]
    rw [this, List.append_assoc, List.getElem?_append_right (Nat.le_refl _)]
    simp
  have hsound := delivery_sound (wcfg cap) (wops km (l ++ [.wire a (clientEncode km dst dg)] ++ more))
    e.active _ p.1 p.2 hk
  have hp : p = (xa.owner, toDgram dg) := by
    have : some p = some (xa.owner, toDgram dg) := by
      rw [← hacc]; exact hsound.symm
    exact Option.some.inj this
  refine ⟨hp, fun v => ?_⟩
  rw [hp]
  exact clientDecode_wireOut km hkm cap xa.owner dg hwf hsend v

/-- **Rejected frames are harmless.**  For ANY byte string `bs` read from connection `c`
in ANY state `s`:
1. decoding never panics (C10 `decode_total_c2r`): it yields a message or an error;
2. if it fails, the wire operation stands for `[actorExit c, unregister c]` — exactly the
   sender's own connection ends (its record is gone) — and every other connection keeps its
   record, owner, version, packet queue, cancellation and running flags (only message queues
   may receive a notice of the unregistration);
3. if it succeeds, the registry entries are unchanged and every other connection keeps its
   record, flags and message queue, its packet queue gaining at most one size-checked packet
   (C05 `no_cross_kill_step`). -/
theorem wire_rejected_frames_harmless (km : KeyMap) (cap : Nat) (s : State D) (c : Cid) (bs : Bytes)
    (c' : Cid) (hne : c' ≠ c) (y : Conn D) (hy : s.conns c' = some y) :
    C10.decodeC2R km.validKey bs ≠ .error .panic ∧
    (wireIn km bs = none →
      runFrom (wcfg cap) s (WOp.toOps km (.wire c bs)) = unregister (wcfg cap) (actorExit s c) c ∧
      (runFrom (wcfg cap) s (WOp.toOps km (.wire c bs))).conns c = none ∧
      ∃ y', (runFrom (wcfg cap) s (WOp.toOps km (.wire c bs))).conns c' = some y' ∧ SameButMsgQ y y') ∧
    (∀ f, wireIn km bs = some f →
      (runFrom (wcfg cap) s (WOp.toOps km (.wire c bs))).entries = s.entries ∧
      ∃ y', (runFrom (wcfg cap) s (WOp.toOps km (.wire c bs))).conns c' = some y' ∧
        y'.owner = y.owner ∧ y'.cancelled = y.cancelled ∧ y'.exited = y.exited ∧ y'.msgQ = y.msgQ ∧
        (y'.packetQ = y.packetQ ∨
          ∃ src d, y'.packetQ = y.packetQ ++ [(src, d)] ∧ sendable (wcfg cap) d = true)) := by
  refine ⟨C10.decode_total_c2r km.validKey bs, fun hnone => ?_, fun f hsome => ?_⟩
  · have hrun : runFrom (wcfg cap) s (WOp.toOps km (.wire c bs)) = unregister (wcfg cap) (actorExit s c) c := by
      simp [WOp.toOps, hnone, runFrom, RelayRegistry.step]
    refine ⟨hrun, ?_, ?_⟩
    · rw [hrun]
      -- the record of `c` is removed (or never existed)
      unfold RelayRegistry.unregister
      cases hx : (actorExit s c).conns c with
      | none => simpa using hx
      | some x =>
        dsimp only
        have := unregisterReg_owner (wcfg cap) (setConn (actorExit s c) c none) x.owner c c
        rw [setConn_conns, if_pos rfl] at this
        simpa using this
    · rw [hrun]
      exact exit_unregister_spares_others (wcfg cap) s c c' hne y hy
  · have hrun : runFrom (wcfg cap) s (WOp.toOps km (.wire c bs)) = recvFrame (wcfg cap) s c f := by
      simp [WOp.toOps, hsome, runFrom, RelayRegistry.step]
    rw [hrun]
    exact recvFrame_spares_others (wcfg cap) s c f c' y hy

/-! ### Non-vacuity: a concrete key map and an honest exchange, computed by the model -/

/-- 32-byte keys `[i, i, …]`; everything of length 32 counts as valid. -/
def demoKm : KeyMap :=
  { validKey := fun k => k.length == 32, keyOf := fun i => List.replicate 32 (UInt8.ofNat i),
    idOf := fun k => (k.headD 0).toNat }

def demoDg : D := { ecn := some .ce, segmentSize := some 2, contents := [1, 2, 3, 4] }

/-- Endpoint 0 (connection 0, protocol V1) and endpoint 1 (connection 1); 1 sends `demoDg`
to 0 as bytes; then some garbage; connection 0 delivers. -/
def demoWire : List WOp :=
  [.ctl (.register 0 true), .ctl (.register 1 false), .wire 1 (clientEncode demoKm 0 demoDg),
   .ctl (.deliverPacket 0)]

example : wireLog demoKm (wrun demoKm 2 demoWire).log 0 =
    [(C10.RelayToClientMsg.datagrams (demoKm.keyOf 1) demoDg).encode] := by decide
example : (wireLog demoKm (wrun demoKm 2 demoWire).log 0).map (fun bs =>
      match clientDecode demoKm .v1 bs with
      | .ok m => decide (m = .datagrams (demoKm.keyOf 1) demoDg)
      | .error _ => false) = [true] := by decide
-- garbage from connection 1 ends connection 1 and leaves connection 0 registered
example : ((wrun demoKm 2 (demoWire ++ [.wire 1 [4, 1, 2]])).conns 1).isNone = true := by decide
example : (wrun demoKm 2 (demoWire ++ [.wire 1 [4, 1, 2]])).entries 0 = some ⟨0, []⟩ := by decide

end IrohModel.C04
