/-
C04 — end-to-end relay model: the frame codec of C10 composed with the relay registry.

  bytes of a client → relay frame read from connection c
    —(C10 `decodeC2R`)→ `wireIn` → registry `recvFrame c` → packet queue of the destination's
    active connection → registry `deliverPacket` → `wireOut` —(C10 `RelayToClientMsg.encode`)→
    bytes written to the receiving connection's stream.

The registry's payload type is instantiated with C10's `Datagrams` (`D`); the `ecn`/`seg`
fields the registry's size check looks at are derived from it (`toDgram`).

How decode errors map to registry operations (`iroh-relay/src/server/client.rs`):
`Actor::handle_frame` does `frame?` on the `Result<ClientToRelayMsg, RecvError>` the stream
yields, so ANY decode error makes `run_inner` return `Err(RunError::HandleFrame)`; `Actor::run`
logs it and calls `self.clients.unregister(self.guard)`.  Hence
  bytes that fail to decode  ↦  `[actorExit c, unregister c]`
(the peer-gone notifications the unregistration may owe are the separate `notifyGone` steps).
Executable, core Lean only.
-/
import IrohModel.C04.Model
import IrohModel.C10.Model

namespace IrohModel.C04
open IrohModel.RelayRegistry

/-- The registry's payload: a whole decoded `Datagrams` value of the codec model. -/
abbrev D := C10.Datagrams

/-- Endpoint ids on the wire: `keyOf id` is the 32-byte public key of endpoint `id`,
`idOf` reads a key back, `validKey` is `PublicKey::try_from(..).is_ok()`. -/
structure KeyMap where
  validKey : Bytes → Bool
  keyOf : Id → Bytes
  idOf : Bytes → Id

/-- What is assumed of the key map: endpoint keys are valid 32-byte keys and `idOf` inverts
`keyOf` (in the code an `EndpointId` IS its key). -/
structure KeyMap.Lawful (km : KeyMap) : Prop where
  len : ∀ i, (km.keyOf i).length = 32
  valid : ∀ i, km.validKey (km.keyOf i) = true
  inv : ∀ i, km.idOf (km.keyOf i) = i

/-- The registry's view of a decoded datagram batch. -/
def toDgram (d : D) : Dgram D :=
  { ecn := C10.ecnBits d.ecn, seg := d.segmentSize.getD 0, contents := d }

/-- Configuration: the real constants; payload length = length of the contents. -/
def wcfg (cap : Nat) : Cfg D := cfgOf (fun d => d.contents.length) cap

def beNat (bs : Bytes) : Nat := bs.foldl (fun acc b => acc * 256 + b.toNat) 0

def be8 (n : Nat) : Bytes := (List.range 8).map fun i => UInt8.ofNat (n / 256 ^ (7 - i) % 256)

/-- Relay side of the inbound wire: `ClientToRelayMsg::from_bytes`; `none` = decode error. -/
def wireIn (km : KeyMap) (bs : Bytes) : Option (C2R D) :=
  match C10.decodeC2R km.validKey bs with
  | .ok (.datagrams k d) => some (.datagrams (km.idOf k) (toDgram d))
  | .ok (.ping data) => some (.ping (beNat data))
  | .ok (.pong data) => some (.pong (beNat data))
  | .error _ => none

/-- `Status`'s `Display` text (what a V1 `Health` frame carries), as UTF-8 bytes. -/
def statusText : Status → Bytes
  | .healthy => "The connection is healthy and has recovered from previous problems".toUTF8.toList
  | .sameIdConnected =>
    "Another endpoint connected with the same endpoint id. No more messages will be received.".toUTF8.toList

def c10Status : Status → C10.Status
  | .healthy => .healthy
  | .sameIdConnected => .sameEndpointIdConnected

/-- The `RelayToClientMsg` an actor writes for a registry frame. -/
def r2cMsg (km : KeyMap) : R2C D → C10.RelayToClientMsg
  | .datagrams src d => .datagrams (km.keyOf src) d.contents
  | .msg (.endpointGone id) => .endpointGone (km.keyOf id)
  | .msg (.status st) => .status (c10Status st)
  | .msg (.health st) => .health (statusText st)
  | .pong data => .pong (be8 data)

/-- Relay side of the outbound wire: the bytes written to the receiving connection. -/
def wireOut (km : KeyMap) (f : R2C D) : Bytes := (r2cMsg km f).encode

/-- Wire-level operations: bytes arriving from a connection's client, or any registry
operation other than a (pre-decoded) frame. -/
inductive WOp where
  | wire (c : Cid) (bs : Bytes)
  | ctl (op : Op D)

def isRecv : Op D → Bool
  | .recvFrame .. => true
  | _ => false

/-- **`relayWire`, inbound half**: the registry operations one wire-level operation stands for. -/
def WOp.toOps (km : KeyMap) : WOp → List (Op D)
  | .wire c bs =>
    match wireIn km bs with
    | some f => [.recvFrame c f]
    | none => [.actorExit c, .unregister c]
  | .ctl op => if isRecv op then [] else [op]

def wops (km : KeyMap) (l : List WOp) : List (Op D) := l.flatMap (WOp.toOps km)

/-- State after a wire-level history. -/
def wrun (km : KeyMap) (cap : Nat) (l : List WOp) : State D := run (wcfg cap) (wops km l)

/-- **`relayWire`, outbound half**: all byte strings written to connection `c`, in order. -/
def wireLog (km : KeyMap) (log : List (Event D)) (c : Cid) : List Bytes :=
  log.filterMap fun ev => match ev with
    | .out c' f => if c' = c then some (wireOut km f) else none
    | _ => none

/-- The honest client's sending end: `ClientToRelayMsg::to_bytes` of a datagram message. -/
def clientEncode (km : KeyMap) (dst : Id) (d : D) : Bytes :=
  (C10.ClientToRelayMsg.datagrams (km.keyOf dst) d).encode

/-- The honest client's receiving end: `RelayToClientMsg::from_bytes` in its version. -/
def clientDecode (km : KeyMap) (v : C10.Version) (bs : Bytes) : C10.Res C10.RelayToClientMsg :=
  C10.decodeR2C km.validKey v bs

end IrohModel.C04
