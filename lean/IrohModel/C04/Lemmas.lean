/-
C04 — helper lemmas: invariants of `Common/RelayRegistryLemmas` at the initial state,
and list facts about prefixes.
-/
import IrohModel.C04.Model
import IrohModel.Common.RelayRegistryLemmas

namespace IrohModel.C04
open IrohModel.RelayRegistry

variable {α : Type}

theorem delivInv_run (cfg : Cfg α) (ops : List (Op α)) : DelivInv (run cfg ops) :=
  DelivInv.runFrom cfg ops DelivInv.init

theorem prefix_getElem? {β : Type} {l₁ l₂ : List β} (h : l₁ <+: l₂) (k : Nat) (x : β)
    (hk : l₁[k]? = some x) : l₂[k]? = some x := by
  obtain ⟨t, rfl⟩ := h
  have hlt : k < l₁.length := by
    cases hlt : decide (k < l₁.length) with
    | true => exact of_decide_eq_true hlt
    | false =>
      have : l₁.length ≤ k := Nat.le_of_not_lt (of_decide_eq_false hlt)
      rw [List.getElem?_eq_none this] at hk; cases hk
  rw [List.getElem?_append_left hlt]; exact hk

/-- An `accepted` event in a list of events shows up in `acceptedTo` of its target. -/
theorem acceptedTo_ne_nil_of_mem {evs : List (Event α)} {sender : Cid} {src dst : Id} {t : Cid} {d : Dgram α}
    (h : Event.accepted sender src dst t d ∈ evs) : acceptedTo evs t ≠ [] := by
  intro hnil
  have : (src, d) ∈ acceptedTo evs t := by
    simp only [acceptedTo, List.mem_filterMap]
    exact ⟨_, h, by simp⟩
  rw [hnil] at this; simp at this

end IrohModel.C04
