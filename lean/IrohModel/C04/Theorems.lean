/-
C04 — relay forwards datagrams only to the addressed endpoint, with the true sender.

Property statement: every datagram batch the relay delivers to a client was sent by
another connected client addressed to that client's endpoint id, and it is delivered
with the authenticated id of its sender and with unchanged contents, ECN and segment
size.  It is delivered at most once, only on the connection that was the destination's
active one when the relay accepted it, and datagrams from one sender to one destination
keep their order.

The theorems are about the ghost history `log` of `RelayRegistry.run cfg ops` for
ARBITRARY operation histories `ops` and configurations `cfg`, with an arbitrary payload
type `α` (the relay never looks into the contents):
* `deliveredTo log c` — the (sender id, datagram batch) pairs connection `c` wrote to its
  stream, in order;
* `acceptedTo log c` — the (sender id, datagram batch) pairs `Clients::send_packet` queued
  on connection `c`, in order; each stems from one `accepted` event, i.e. from one frame
  read from a sender's connection (`accepted_sound`).
A datagram batch is the triple (ECN, segment size, contents).

Reading note: "another connected client" — the relay also forwards a client's datagrams
addressed to its own endpoint id (to that id's active connection); the theorems cover
this case too.
-/
import IrohModel.C04.Lemmas

namespace IrohModel.C04
open IrohModel.RelayRegistry

variable {α : Type}

/-- **Main invariant.**  What a connection has written out is, at every moment of every
history, a prefix of what the relay accepted for that connection — same sender ids, same
ECN, segment size and contents, same order, nothing duplicated, nothing invented. -/
theorem delivery_prefix (cfg : Cfg α) (ops : List (Op α)) (c : Cid) :
    deliveredTo (run cfg ops).log c <+: acceptedTo (run cfg ops).log c :=
  (delivInv_run cfg ops).pre c

/-- Soundness with unchanged contents: the `k`-th datagram batch delivered on `c` IS the
`k`-th batch accepted for `c`: sender id, ECN, segment size and contents are equal. -/
theorem delivery_sound (cfg : Cfg α) (ops : List (Op α)) (c : Cid) (k : Nat) (src : Id) (d : Dgram α)
    (h : (deliveredTo (run cfg ops).log c)[k]? = some (src, d)) :
    (acceptedTo (run cfg ops).log c)[k]? = some (src, d) :=
  prefix_getElem? (delivery_prefix cfg ops c) k (src, d) h

/-- At most once: no (sender, batch) pair is delivered on `c` more often than it was
accepted for `c` (and the `k`-th delivery uses up the `k`-th acceptance, `delivery_sound`). -/
theorem at_most_once (cfg : Cfg α) [DecidableEq α] (ops : List (Op α)) (c : Cid) (p : Id × Dgram α) :
    (deliveredTo (run cfg ops).log c).count p ≤ (acceptedTo (run cfg ops).log c).count p :=
  (delivery_prefix cfg ops c).sublist.count_le p

/-- Order per (sender id, receiving connection): the batches from `src` delivered on `c`
are a prefix of — in particular in the same order as — the batches from `src` accepted
for `c`. -/
theorem fifo_per_pair (cfg : Cfg α) (ops : List (Op α)) (c : Cid) (src : Id) :
    (deliveredTo (run cfg ops).log c).filter (fun p => p.1 = src) <+:
      (acceptedTo (run cfg ops).log c).filter (fun p => p.1 = src) :=
  (delivery_prefix cfg ops c).filter _

/-- While a connection's actor is running, nothing is lost either: accepted = delivered
followed by what still waits in the packet queue. -/
theorem accepted_eq_delivered_append_queue (cfg : Cfg α) (ops : List (Op α)) (c : Cid) (x : Conn α)
    (hx : (run cfg ops).conns c = some x) (hex : x.exited = false) :
    acceptedTo (run cfg ops).log c = deliveredTo (run cfg ops).log c ++ x.packetQ :=
  (delivInv_run cfg ops).live c x hx hex

/-- Where acceptances come from (one step, arbitrary state): if a step logs
`accepted sender src dst target d`, then the step is the actor of connection `sender`
reading the frame "datagrams `d` for `dst`" from its client; `src` is the endpoint id that
connection was authenticated as (`guard.endpoint_id`), `target` is the connection that is
the ACTIVE one of `dst` in the state the frame was handled in, and `d` passes the
forwarder's size check. -/
theorem accepted_sound (cfg : Cfg α) (s : State α) (op : Op α) (evs : List (Event α))
    (hlog : (step cfg s op).log = s.log ++ evs)
    (sender : Cid) (src dst : Id) (target : Cid) (d : Dgram α)
    (hev : Event.accepted sender src dst target d ∈ evs) :
    op = .recvFrame sender (.datagrams dst d) ∧
    ∃ x e, s.conns sender = some x ∧ x.owner = src ∧ x.exited = false ∧
      s.entries dst = some e ∧ e.active = target ∧ sendable cfg d = true := by
  -- only `recvFrame` logs `accepted` events
  have hk := step_kinds cfg s op
  obtain ⟨evs', h1, h2⟩ := hk
  rw [h1] at hlog
  have := List.append_cancel_left hlog
  subst this
  have hkind := h2 _ hev
  cases op with
  | recvFrame c f =>
    simp only [RelayRegistry.step, RelayRegistry.recvFrame] at h1
    cases hx : s.conns c with
    | none =>
      simp only [hx] at h1
      have : evs' = [] := by simpa using h1
      subst this; simp at hev
    | some x =>
      simp only [hx] at h1
      by_cases hex : x.exited = true
      · simp only [hex, if_true] at h1
        have : evs' = [] := by simpa using h1
        subst this; simp at hev
      · simp only [hex] at h1
        cases f with
        | ping data =>
          simp only [] at h1
          have := (List.append_cancel_left h1).symm
          subst this; simp at hev
        | pong data =>
          have : evs' = [] := by simpa using h1
          subst this; simp at hev
        | datagrams dst' d' =>
          simp only [sendPacket] at h1
          by_cases hs : sendable cfg d' = false
          · simp only [hs, if_true] at h1
            have := (List.append_cancel_left h1).symm
            subst this; simp at hev
          · simp only [hs] at h1
            cases he : s.entries dst' with
            | none =>
              simp only [he] at h1
              have := (List.append_cancel_left h1).symm
              subst this; simp at hev
            | some e =>
              simp only [he] at h1
              cases ht : s.conns e.active with
              | none =>
                simp only [ht] at h1
                have := (List.append_cancel_left h1).symm
                subst this; simp at hev
              | some y =>
                simp only [ht] at h1
                by_cases hroom : y.packetQ.length < cfg.cap
                · simp only [hroom, if_true] at h1
                  have := (List.append_cancel_left h1).symm
                  subst this
                  simp only [List.mem_singleton, Event.accepted.injEq] at hev
                  obtain ⟨rfl, rfl, rfl, rfl, rfl⟩ := hev
                  exact ⟨rfl, x, e, hx, rfl, by simpa using hex, he, rfl, by simpa using hs⟩
                · simp only [hroom, if_false] at h1
                  have := (List.append_cancel_left h1).symm
                  subst this; simp at hev
  | register _ _ => simp [opKinds, kind] at hkind
  | unregister _ => simp [opKinds, kind] at hkind
  | notifyGone => simp [opKinds, kind] at hkind
  | disconnect _ _ => simp [opKinds, kind] at hkind
  | deliverPacket _ => simp [opKinds, kind] at hkind
  | deliverMsg _ => simp [opKinds, kind] at hkind
  | actorExit _ => simp [opKinds, kind] at hkind
  | shutdown => simp [opKinds, kind] at hkind

/-- No misdelivery: in every reachable state, whatever is accepted is queued on the
connection that is at that moment the active one of the addressed endpoint — a connection
that was registered for exactly that endpoint id (never one of another id, never an
inactive one) — and is labelled with the id the sending connection was registered for. -/
theorem no_misdelivery (cfg : Cfg α) (ops : List (Op α)) (op : Op α) (evs : List (Event α))
    (hlog : (step cfg (run cfg ops) op).log = (run cfg ops).log ++ evs)
    (sender : Cid) (src dst : Id) (target : Cid) (d : Dgram α)
    (hev : Event.accepted sender src dst target d ∈ evs) :
    ∃ e y, (run cfg ops).entries dst = some e ∧ e.active = target ∧
      (run cfg ops).conns target = some y ∧ y.owner = dst ∧
      target ∈ (Spec.run ops).open_ dst ∧ (∀ c ∈ (Spec.run ops).open_ dst, c ≤ target) := by
  obtain ⟨_, x, e, _, _, _, he, hact, _⟩ := accepted_sound cfg _ op evs hlog sender src dst target d hev
  have inv := RegInv.run cfg ops
  have hent := inv.entries dst
  rw [he] at hent
  have hl := entryOf_eq_some hent.symm
  have hmem : target ∈ (Spec.run ops).open_ dst := by rw [hl, hact]; exact List.mem_cons_self
  have hown := inv.owner dst target hmem
  have hsorted := (SpecSorted.foldl ops SpecSorted.init).sorted dst
  refine ⟨e, ?_⟩
  cases hy : (run cfg ops).conns target with
  | none => rw [hy] at hown; simp at hown
  | some y =>
    rw [hy] at hown
    refine ⟨y, he, hact, rfl, by simpa using hown, hmem, fun c hc => ?_⟩
    change c ∈ (List.foldl Spec.step Spec.init ops).open_ dst at hc
    change (List.foldl Spec.step Spec.init ops).open_ dst = _ at hl
    rw [hl] at hsorted hc
    rcases List.mem_cons.mp hc with rfl | hc
    · exact Nat.le_of_eq hact
    · have := (List.pairwise_cons.mp hsorted).1 c hc
      omega

/-- **Completeness, one step: a forwardable datagram is queued, not dropped.**  In ANY
state: if the actor of `c` (running, registered as `x.owner`) reads a datagram frame for
`dst` whose batch passes the forwarder's size check, `dst` has an entry, and the packet
queue of its active connection has room, then the packet is appended to exactly that
queue — labelled with `x.owner` — the acceptance is logged, and `dst` is recorded in the
sender's `sent_to` set.  Nothing else changes. -/
theorem forwardable_is_queued (cfg : Cfg α) (s : State α) (c : Cid) (x : Conn α) (dst : Id) (d : Dgram α)
    (e : Entry) (y : Conn α) (hx : s.conns c = some x) (hex : x.exited = false)
    (hs : sendable cfg d = true) (he : s.entries dst = some e) (hy : s.conns e.active = some y)
    (hroom : y.packetQ.length < cfg.cap) :
    recvFrame cfg s c (.datagrams dst d) =
      emit (setSentTo (setConn s e.active (some { y with packetQ := y.packetQ ++ [(x.owner, d)] }))
        x.owner (insertNodup dst (s.sentTo x.owner)))
        [.accepted c x.owner dst e.active d] := by
  simp [RelayRegistry.recvFrame, hx, hex, sendPacket, hs, he, hy, hroom]

/-- Conversely the only reasons a decoded datagram is NOT queued: the size check, no entry
for the destination, or a full queue (a closed queue cannot occur in reachable states). -/
theorem not_queued_reasons (cfg : Cfg α) (s : State α) (c : Cid) (x : Conn α) (dst : Id) (d : Dgram α)
    (hx : s.conns c = some x) (hex : x.exited = false) :
    (recvFrame cfg s c (.datagrams dst d)).log = s.log ++ [.dropped c dst .unforwardable] ∧ sendable cfg d = false ∨
    (recvFrame cfg s c (.datagrams dst d)).log = s.log ++ [.dropped c dst .noClient] ∧ s.entries dst = none ∨
    (∃ e, s.entries dst = some e ∧ s.conns e.active = none ∧
      (recvFrame cfg s c (.datagrams dst d)).log = s.log ++ [.dropped c dst .closed]) ∨
    (∃ e y, s.entries dst = some e ∧ s.conns e.active = some y ∧ ¬ y.packetQ.length < cfg.cap ∧
      (recvFrame cfg s c (.datagrams dst d)).log = s.log ++ [.dropped c dst .full]) ∨
    (∃ e, s.entries dst = some e ∧
      (recvFrame cfg s c (.datagrams dst d)).log = s.log ++ [.accepted c x.owner dst e.active d]) := by
  simp only [RelayRegistry.recvFrame, hx, hex, sendPacket]
  by_cases hs : sendable cfg d = false
  · left; simp [hs]
  · right
    cases he : s.entries dst with
    | none => left; simp [hs]
    | some e =>
      right
      cases hy : s.conns e.active with
      | none => left; exact ⟨e, rfl, hy, by simp [hs, hy]⟩
      | some y =>
        right
        by_cases hroom : y.packetQ.length < cfg.cap
        · right; exact ⟨e, rfl, by simp [hs, hy, hroom]⟩
        · left; exact ⟨e, y, rfl, hy, hroom, by simp [hs, hy, hroom]⟩

/-- **Completeness, delivery.**  In every reachable state a running connection with a
non-empty packet queue writes its head out when its actor takes a delivery step (the head
passes the size check by the queue invariant): what was accepted is delivered, in order,
as long as the connection lives (`accepted_eq_delivered_append_queue`). -/
theorem queued_head_is_delivered (cfg : Cfg α) (ops : List (Op α)) (c : Cid) (x : Conn α) (src : Id) (d : Dgram α)
    (rest : List (Id × Dgram α)) (hx : (run cfg ops).conns c = some x) (hex : x.exited = false)
    (hq : x.packetQ = (src, d) :: rest) :
    deliverPacket cfg (run cfg ops) c =
      emit (setConn (run cfg ops) c (some { x with packetQ := rest })) [.out c (.datagrams src d)] := by
  have hs : sendable cfg d = true :=
    (QInv.runFrom cfg ops (QInv.init cfg)) c x hx (src, d) (by rw [hq]; exact List.mem_cons_self)
  simp [RelayRegistry.deliverPacket, hx, hex, hq, hs]

/-- Delivery never creates datagrams: a connection that was never accepted-for delivers
none (corollary of `delivery_prefix`). -/
theorem nothing_from_nothing (cfg : Cfg α) (ops : List (Op α)) (c : Cid)
    (h : acceptedTo (run cfg ops).log c = []) : deliveredTo (run cfg ops).log c = [] := by
  have := delivery_prefix cfg ops c
  rw [h] at this
  exact List.prefix_nil.mp this

/-! ### Non-vacuity -/

def demoCfg : Cfg (List Nat) := cfgOf List.length 2

/-- Endpoint 0 has two connections (0, then 1); endpoint 1 (connection 2) sends three
batches; the first is accepted while connection 0 is active, the others for connection 1;
then both deliver. -/
def demoOps : List (Op (List Nat)) :=
  [.register 0 false, .register 1 false,
   .recvFrame 1 (.datagrams 0 ⟨1, 0, [1]⟩),
   .register 0 false,
   .recvFrame 1 (.datagrams 0 ⟨2, 3, [2, 2, 2, 2]⟩),
   .recvFrame 1 (.datagrams 0 ⟨0, 0, [3]⟩),
   .deliverPacket 2, .deliverPacket 0, .deliverPacket 2]

example : deliveredTo (run demoCfg demoOps).log 0 = [(1, ⟨1, 0, [1]⟩)] := by decide
example : deliveredTo (run demoCfg demoOps).log 2 = [(1, ⟨2, 3, [2, 2, 2, 2]⟩), (1, ⟨0, 0, [3]⟩)] := by decide
example : acceptedTo (run demoCfg demoOps).log 2 = deliveredTo (run demoCfg demoOps).log 2 := by decide
example : Event.accepted 1 1 0 0 ⟨1, 0, [1]⟩ ∈ (run demoCfg demoOps).log := by decide
-- a full queue drops: capacity 2, third batch for the same connection is not accepted
example : acceptedTo (run demoCfg (demoOps.take 6 ++ [.recvFrame 1 (.datagrams 0 ⟨0, 0, [4]⟩)])).log 2
    = [(1, ⟨2, 3, [2, 2, 2, 2]⟩), (1, ⟨0, 0, [3]⟩)] := by decide

end IrohModel.C04
