/-
C04 — relay forwards datagrams only to the addressed endpoint, with the true sender.
The model is the shared `Common/RelayRegistry`; this file instantiates its configuration
with the constants extracted from the source.
-/
import IrohModel.Generated.C04
import IrohModel.Common.RelayRegistry
import IrohModel.Common.RelaySched

namespace IrohModel.C04
open IrohModel.RelayRegistry

/-- Configuration of the real relay for payload type `α` with length function `plen`;
`cap = 0` stands for `Config::new`'s default `PER_CLIENT_SEND_QUEUE_DEPTH`. -/
def cfgOf {α : Type} (plen : α → Nat) (cap : Nat) : Cfg α :=
  { cap := if cap = 0 then Generated.C04.defaultCap else cap,
    maxPacket := Generated.C04.maxPacket,
    typeLen := Generated.C04.typeLen, keyLen := Generated.C04.keyLen,
    ecnLen := Generated.C04.ecnLen, segLen := Generated.C04.segLen,
    plen := plen }

/-- The configuration the driver replays harness scripts with. -/
def driverCfg (cap : Nat) : Cfg RelaySched.Tok := cfgOf (fun t => t.len) cap

end IrohModel.C04
