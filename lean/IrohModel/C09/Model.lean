/-
C09 — per-client receive rate limiter (iroh-relay/src/server/streams.rs), as the code is
after the two `fix:` commits (saturating refill product / period count; refill periods that
do not fit `u32` ms are rejected).

Time is an *input*: whole milliseconds since an arbitrary origin (`Nat`); a `Duration` is
its `as_millis()` (sub-millisecond parts of the refill period are not modelled, see
props/C09.json).  `i64` values are `Int`s with **explicit** saturation (`sat`) exactly where
the code uses `saturating_*`; `as u32` truncations are `% 2^32`; a Rust panic (division by
zero — unreachable for buckets built by `Bucket::new`, proved in Theorems) is the outcome
`none` of the `Option`-valued functions.

  `Bucket.new`          ↔ `Bucket::new(max, bytes_per_second, refill_period)` at `Instant::now() = now`
  `Bucket.updateState`  ↔ `Bucket::update_state`
  `Bucket.consume`      ↔ `Bucket::consume(bytes)`; result `some d` = `Err(deadline d)`
  `fromConfig`          ↔ `Bucket::from_config(Option<ClientRateLimit>)`
  `RL.poll`             ↔ `<RateLimited<S> as AsyncRead>::poll_read` at virtual time `now`
                          with a read buffer of `buf` bytes, over an inner reader that has
                          `avail` bytes ready (and is `Pending` when it has none)
-/
import IrohModel.Generated.C09

namespace IrohModel.C09
open IrohModel.Generated.C09

def i64Max : Int := 9223372036854775807
def i64Min : Int := -9223372036854775808
def u32Max : Nat := 4294967295
def two32 : Nat := 4294967296

/-- Result of an `i64::saturating_*` operation whose exact result is `x`. -/
def sat (x : Int) : Int := if x > i64Max then i64Max else if x < i64Min then i64Min else x

structure Bucket where
  fill : Int
  max : Int
  /-- `last_fill`, ms -/
  lastFill : Nat
  /-- `refill_period.as_millis()` -/
  period : Nat
  refill : Int
deriving DecidableEq, Repr

/-- `Bucket::new`; `pms = refill_period.as_millis()`; `none` = `Err(InvalidBucketConfig)`.
`max`, `bps` are `i64`s. -/
def Bucket.new (max bps : Int) (pms now : Nat) : Option Bucket :=
  -- u32::try_from(refill_period.as_millis()).unwrap_or(0)
  let p : Nat := if pms ≤ u32Max then pms else 0
  let refill := Int.tdiv (sat (bps * (p : Int))) msPerSec
  if max > 0 ∧ bps > 0 ∧ p > 0 ∧ refill > 0 then
    some { fill := max, max := max, lastFill := now, period := pms, refill := refill }
  else none

/-- `update_state`; `none` = panic (u32 division by zero). -/
def Bucket.updateState (b : Bucket) (now : Nat) : Option Bucket :=
  -- now.saturating_duration_since(last_fill).as_millis() as u32 / refill_period.as_millis() as u32
  let div := b.period % two32
  if div = 0 then none else
  let periods := ((now - b.lastFill) % two32) / div
  if periods = 0 then some b else
  some { b with
    fill := min (sat (b.fill + sat ((periods : Int) * b.refill))) b.max
    lastFill := b.lastFill + b.period * periods }

/-- `u32::try_from(x).unwrap_or(u32::MAX)` for an `i64` `x`. -/
def toU32OrMax (x : Int) : Nat := if x < 0 then u32Max else if x > (u32Max : Int) then u32Max else x.toNat

/-- `consume(bytes)` at time `now`; `none` = panic; `some (b', none)` = `Ok(())`,
`some (b', some d)` = `Err(d)`. -/
def Bucket.consume (b : Bucket) (bytes now : Nat) : Option (Bucket × Option Nat) :=
  -- i64::try_from(bytes).unwrap_or(i64::MAX)
  let c : Int := if (bytes : Int) ≤ i64Max then (bytes : Int) else i64Max
  match b.updateState now with
  | none => none
  | some b =>
    let fill := sat (b.fill - c)
    let b := { b with fill := fill }
    if fill > 0 then some (b, none) else
    let missing := sat (-fill)
    if b.refill = 0 then none else     -- `missing / self.refill`
    let needed := toU32OrMax (sat (Int.tdiv missing b.refill + 1))
    some (b, some (b.lastFill + needed * b.period))

/-- A caller of `Bucket::consume` that respects the returned deadline, the way `RateLimited`
does: no `consume` while the last `Err(deadline)` is still in the future. -/
structure Reader where
  b : Bucket
  sleepUntil : Option Nat
deriving DecidableEq, Repr

inductive ReadOut where
  | blocked
  | ok
  | err (deadline : Nat)
deriving DecidableEq, Repr

def Reader.blocked (sleepUntil : Option Nat) (now : Nat) : Bool :=
  match sleepUntil with
  | some d => decide (now < d)
  | none => false

/-- One read attempt of `bytes` bytes at time `now`; `none` = panic. -/
def Reader.read (r : Reader) (bytes now : Nat) : Option (Reader × ReadOut) :=
  if Reader.blocked r.sleepUntil now then some (r, .blocked) else
  match r.b.consume bytes now with
  | none => none
  | some (b', none) => some (⟨b', none⟩, .ok)
  | some (b', some d) => some (⟨b', some d⟩, .err d)

/-- `ClientRateLimit` (`NonZeroU32` fields as naturals). -/
structure Cfg where
  bps : Nat
  burst : Option Nat
deriving DecidableEq, Repr

/-- `Bucket::from_config`; outer `none` = `Err(InvalidBucketConfig)`. -/
def fromConfig (cfg : Option Cfg) (now : Nat) : Option (Option Bucket) :=
  match cfg with
  | none => some none
  | some c =>
    match Bucket.new ((c.burst.getD (c.bps / burstDivisor) : Nat) : Int) (c.bps : Int) relayPeriodMs now with
    | none => none
    | some b => some (some b)

/-- `RateLimited<S>` plus the part of its environment that `poll_read` looks at. -/
structure RL where
  bucket : Option Bucket
  /-- deadline of `bucket_refilled` -/
  sleepUntil : Option Nat
  /-- value on the watch channel not yet seen (`has_changed()`) -/
  pendingCfg : Option (Option Cfg)
  /-- `limited_tx` counter -/
  limited : Nat
  /-- bytes the inner reader has ready -/
  avail : Nat
deriving DecidableEq, Repr

inductive PollOut where
  | ready (n : Nat)
  | pending
deriving DecidableEq, Repr

/-- `RateLimited::from_watcher` at time `now`; `none` = `Err(InvalidBucketConfig)`. -/
def RL.fromWatcher (cfg : Option Cfg) (now : Nat) : Option RL :=
  match fromConfig cfg now with
  | none => none
  | some b => some ⟨b, none, none, 0, 0⟩

/-- First part of `poll_read`: pick up a live rate change. -/
def RL.applyCfg (r : RL) (now : Nat) : RL :=
  match r.pendingCfg with
  | none => r
  | some cfg =>
    match fromConfig cfg now with
    | some b => { r with bucket := b, sleepUntil := none, pendingCfg := none }
    | none => { r with pendingCfg := none }   -- "ignoring invalid live rate-limit update"

/-- The inner reader: `Pending` with nothing ready, else `min avail buf` bytes. -/
def innerRead (avail buf : Nat) : Option Nat := if avail = 0 then none else some (min avail buf)

/-- `poll_read` at time `now` with `buf` bytes of buffer space; `none` = panic. -/
def RL.poll (r : RL) (now buf : Nat) : Option (RL × PollOut) :=
  let r := r.applyCfg now
  match r.bucket with
  | none =>
    match innerRead r.avail buf with
    | none => some (r, .pending)
    | some n => some ({ r with avail := r.avail - n }, .ready n)
  | some b =>
    -- `ready!(bucket_refilled.poll(cx)); this.bucket_refilled = None;`
    if Reader.blocked r.sleepUntil now then some (r, .pending) else
    let r := { r with sleepUntil := none }
    match innerRead r.avail buf with
    | none => some (r, .pending)
    | some n =>
      match b.consume n now with
      | none => none
      | some (b', none) => some ({ r with bucket := some b', avail := r.avail - n }, .ready n)
      | some (b', some d) =>
        some ({ r with bucket := some b', avail := r.avail - n, sleepUntil := some d,
                       limited := r.limited + 1 }, .ready n)

/-- `tokio::time::timeout(ms, reader.read(buf))` under the auto-advancing paused clock:
poll at `now`; if the poll is pending on the refill sleep and that sleep ends within
`now + ms`, the runtime jumps there and polls again; a poll pending on the inner reader
stays pending (no new data arrives while waiting).  Returns state, new clock, outcome. -/
def RL.wait (r : RL) (now ms buf : Nat) : Option (RL × Nat × PollOut) :=
  match r.poll now buf with
  | none => none
  | some (r1, .ready n) => some (r1, now, .ready n)
  | some (r1, .pending) =>
    match r1.bucket, r1.sleepUntil with
    | some _, some d =>
      if d ≤ now + ms then
        -- woken at `d` (> now, otherwise the first poll had not been blocked)
        match r1.poll d buf with
        | none => none
        | some (r2, .ready n) => some (r2, d, .ready n)
        | some (r2, .pending) => some (r2, now + ms, .pending)
      else some (r1, now + ms, .pending)
    | _, _ => some (r1, now + ms, .pending)

/-! ### Content level: *which* bytes `poll_read` hands over

`RateLimited` has no buffer of its own: `poll_read` lets the inner reader write into the
caller's `ReadBuf` and returns at once; the bucket is charged afterwards and throttles the
*next* poll.  While the refill sleep is pending the inner reader is not polled at all. -/

/-- What the inner reader answers once its ready bytes are used up. -/
inductive Tail where
  /-- nothing yet: `Poll::Pending` -/
  | open
  /-- end of stream: `Ready(Ok(()))` with nothing written -/
  | eof
  /-- `Ready(Err(e))`, `code` identifies the `io::ErrorKind` -/
  | err (code : Nat)
deriving DecidableEq, Repr

/-- The inner reader: bytes ready now (in stream order) and what follows them. -/
structure Inner where
  data : List UInt8
  tail : Tail
deriving DecidableEq, Repr

/-- `RateLimited<S>` together with its inner reader `S`.  `rl.avail` is not used here: the
bytes ready are `inner.data`. -/
structure RLC where
  rl : RL
  inner : Inner
deriving DecidableEq, Repr

inductive PollOutC where
  /-- `Ready(Ok(()))` with these bytes appended to the caller's buffer -/
  | ready (bytes : List UInt8)
  /-- `Ready(Ok(()))` with nothing appended although the buffer has room: end of stream -/
  | eof
  /-- `Ready(Err(e))` -/
  | err (code : Nat)
  | pending
deriving DecidableEq, Repr

/-- `poll_read` when the inner reader has no bytes ready and answers `eof` (`code = none`)
or an error: the config pick-up and the refill wait come first; an error returns through
`ready!(…)?` before the bucket is touched; end of stream is charged as a read of 0 bytes. -/
def RLC.pollTerminal (r : RLC) (now : Nat) (code : Option Nat) : Option (RLC × PollOutC) :=
  let out : PollOutC := match code with
    | none => .eof
    | some c => .err c
  let rl := r.rl.applyCfg now
  match rl.bucket with
  | none => some (⟨rl, r.inner⟩, out)
  | some b =>
    if Reader.blocked rl.sleepUntil now then some (⟨rl, r.inner⟩, .pending) else
    let rl := { rl with sleepUntil := none }
    match code with
    | some _ => some (⟨rl, r.inner⟩, out)
    | none =>
      match b.consume 0 now with
      | none => none
      | some (b', none) => some (⟨{ rl with bucket := some b' }, r.inner⟩, out)
      | some (b', some d) =>
        some (⟨{ rl with bucket := some b', sleepUntil := some d, limited := rl.limited + 1 }, r.inner⟩, out)

/-- `poll_read` at time `now` with `buf` bytes of buffer space, content level. -/
def RLC.poll (r : RLC) (now buf : Nat) : Option (RLC × PollOutC) :=
  match r.inner.data, r.inner.tail with
  | [], .eof => r.pollTerminal now none
  | [], .err c => r.pollTerminal now (some c)
  | data, tail =>
    -- bytes ready, or nothing ready yet: the count-level `RL.poll` decides how many
    match ({ r.rl with avail := data.length }).poll now buf with
    | none => none
    | some (rl', .ready n) => some (⟨rl', ⟨data.drop n, tail⟩⟩, .ready (data.take n))
    | some (rl', .pending) => some (⟨rl', ⟨data, tail⟩⟩, .pending)

/-- `tokio::time::timeout(ms, reader.read(buf))`, content level (see `RL.wait`). -/
def RLC.wait (r : RLC) (now ms buf : Nat) : Option (RLC × Nat × PollOutC) :=
  match r.poll now buf with
  | none => none
  | some (r1, .pending) =>
    match r1.rl.bucket, r1.rl.sleepUntil with
    | some _, some d =>
      if d ≤ now + ms then
        match r1.poll d buf with
        | none => none
        | some (r2, .pending) => some (r2, now + ms, .pending)
        | some (r2, out) => some (r2, d, out)
      else some (r1, now + ms, .pending)
    | _, _ => some (r1, now + ms, .pending)
  | some (r1, out) => some (r1, now, out)

/-! ### The service's rate-limit cell and its subscribers

`RelayService` keeps the per-client limit in a `tokio::sync::watch::Sender`;
`set_client_rate_limit` does `send_replace`, which stores the value whether or not any
receiver exists and marks it unseen for every receiver; each accepted connection builds its
limiter with `RateLimited::from_watcher(io, rate_limit.subscribe(), …)`, which starts from the
value stored *now* (`borrow_and_update`). -/

structure Service where
  /-- value held by the watch channel -/
  stored : Option Cfg
  /-- live connections: id and limiter -/
  conns : List (Nat × RL)
deriving DecidableEq, Repr

/-- `RelayService::new(.., rate_limit, ..)` -/
def Service.new (c : Option Cfg) : Service := ⟨c, []⟩

/-- `set_client_rate_limit(c)` -/
def Service.set (s : Service) (c : Option Cfg) : Service :=
  ⟨c, s.conns.map fun (id, r) => (id, { r with pendingCfg := some c })⟩

/-- Accepting connection `id` at time `now`; `none` = `AcceptError::RateLimitingMisconfigured`
(the stored limit is invalid), nothing changes. -/
def Service.connect (s : Service) (id now : Nat) : Option Service :=
  match RL.fromWatcher s.stored now with
  | none => none
  | some r => some ⟨s.stored, (id, r) :: s.conns.filter fun c => c.1 != id⟩

def Service.disconnect (s : Service) (id : Nat) : Service :=
  ⟨s.stored, s.conns.filter fun c => c.1 != id⟩

/-- The bucket connection `id` works with from its next poll (at `now`) on. -/
def Service.limitOf (s : Service) (id now : Nat) : Option (Option Bucket) :=
  match s.conns.find? fun c => c.1 == id with
  | none => none
  | some (_, r) => some (r.applyCfg now).bucket

end IrohModel.C09
