/-
C09 — helper lemmas: saturation, well-formedness, specifications of
`Bucket.new` / `updateState` / `consume`, and the accounting invariant.
-/
import IrohModel.C09.Model

namespace IrohModel.C09
open IrohModel.Generated.C09

theorem i64Max_eq : i64Max = 9223372036854775807 := rfl
theorem i64Min_eq : i64Min = -9223372036854775808 := rfl
theorem u32Max_eq : u32Max = 4294967295 := rfl
theorem two32_eq : two32 = 4294967296 := rfl

/-- `sat` in a form `omega` can use. -/
theorem sat_spec (x : Int) :
    (x > 9223372036854775807 ∧ sat x = 9223372036854775807) ∨
    (x < -9223372036854775808 ∧ sat x = -9223372036854775808) ∨
    (-9223372036854775808 ≤ x ∧ x ≤ 9223372036854775807 ∧ sat x = x) := by
  unfold sat i64Max i64Min
  split
  · omega
  · split <;> omega

/-- Buckets as `Bucket::new` builds them and `consume` keeps them. -/
structure WF (b : Bucket) : Prop where
  period_pos : 0 < b.period
  period_le : b.period ≤ 4294967295
  refill_pos : 0 < b.refill
  refill_le : b.refill ≤ 9223372036854775807
  max_pos : 0 < b.max
  max_le : b.max ≤ 9223372036854775807
  fill_le : b.fill ≤ b.max
  fill_ge : -9223372036854775808 ≤ b.fill

/-! ### `Bucket::new` -/

theorem new_spec (max bps : Int) (pms now : Nat) (b : Bucket)
    (hmax : max ≤ 9223372036854775807)
    (h : Bucket.new max bps pms now = some b) :
    0 < max ∧ 0 < bps ∧ 0 < pms ∧ pms ≤ 4294967295 ∧ 1000 ≤ bps * pms ∧
    b.fill = max ∧ b.max = max ∧ b.lastFill = now ∧ b.period = pms ∧
    b.refill = sat (bps * pms) / 1000 ∧ WF b := by
  unfold Bucket.new at h
  simp only [u32Max_eq, msPerSec] at h
  by_cases hp : pms ≤ 4294967295
  · simp only [hp, if_true] at h
    split at h
    · rename_i hc
      obtain ⟨h1, h2, h3, h4⟩ := hc
      cases h
      dsimp only
      have hs := sat_spec (bps * (pms : Int))
      have hnn : 0 ≤ sat (bps * (pms : Int)) := by
        have : 0 ≤ bps * (pms : Int) := Int.mul_nonneg (by omega) (by omega)
        omega
      rw [Int.tdiv_eq_ediv_of_nonneg hnn] at h4 ⊢
      refine ⟨h1, h2, h3, hp, ?_, rfl, rfl, rfl, rfl, rfl, ?_⟩
      · omega
      · exact ⟨h3, hp, h4, by dsimp only; omega, h1, hmax, Int.le_refl _, by dsimp only; omega⟩
    · cases h
  · simp [hp] at h

theorem new_accepts (max bps : Int) (pms now : Nat)
    (h1 : 0 < max) (h2 : 0 < bps) (h3 : 0 < pms) (hp : pms ≤ 4294967295) (h4 : 1000 ≤ bps * pms) :
    (Bucket.new max bps pms now).isSome = true := by
  unfold Bucket.new
  simp only [u32Max_eq, msPerSec, hp, if_true]
  have hs := sat_spec (bps * (pms : Int))
  have hnn : 0 ≤ sat (bps * (pms : Int)) := by omega
  rw [Int.tdiv_eq_ediv_of_nonneg hnn]
  have : 0 < sat (bps * (pms : Int)) / 1000 := by omega
  simp [h1, h2, h3, this]

/-! ### `update_state` -/

/-- Number of refill periods `update_state` credits at `now`. -/
def creditedPeriods (b : Bucket) (now : Nat) : Nat := ((now - b.lastFill) % two32) / b.period

theorem creditedPeriods_le (b : Bucket) (now : Nat) :
    b.period * creditedPeriods b now ≤ now - b.lastFill := by
  unfold creditedPeriods
  have h1 := Nat.mod_le (now - b.lastFill) two32
  have h2 := Nat.div_mul_le_self ((now - b.lastFill) % two32) b.period
  rw [Nat.mul_comm]; omega

theorem creditedPeriods_noWrap (b : Bucket) (now : Nat) (h : now - b.lastFill < 4294967296) :
    creditedPeriods b now = (now - b.lastFill) / b.period := by
  unfold creditedPeriods
  rw [Nat.mod_eq_of_lt (by rw [two32_eq]; exact h)]

theorem updateState_spec (b : Bucket) (now : Nat) (hw : WF b) :
    ∃ b', b.updateState now = some b' ∧ WF b' ∧
      b'.period = b.period ∧ b'.refill = b.refill ∧ b'.max = b.max ∧
      b'.lastFill = b.lastFill + b.period * creditedPeriods b now ∧
      b.fill ≤ b'.fill ∧
      b'.fill ≤ b.fill + (creditedPeriods b now : Int) * b.refill ∧
      ((creditedPeriods b now : Int) * b.refill ≤ 9223372036854775807 →
        b'.fill = min (b.fill + (creditedPeriods b now : Int) * b.refill) b.max) ∧
      (∀ k : Nat, k ≤ creditedPeriods b now → -9223372036854775807 < b.fill →
        0 < b.fill + (k : Int) * b.refill → 0 < b'.fill) := by
  obtain ⟨hp0, hp1, hr0, hr1, hm0, hm1, hf1, hf0⟩ := hw
  have hmod : b.period % two32 = b.period := Nat.mod_eq_of_lt (by rw [two32_eq]; omega)
  have hne : ¬ b.period = 0 := by omega
  unfold Bucket.updateState creditedPeriods
  simp only [hmod, hne, if_false]
  generalize ((now - b.lastFill) % two32) / b.period = p
  by_cases hz : p = 0
  · subst hz
    simp only [if_true]
    refine ⟨b, rfl, ⟨hp0, hp1, hr0, hr1, hm0, hm1, hf1, hf0⟩, rfl, rfl, rfl, by simp, Int.le_refl _, by simp, ?_, ?_⟩
    · intro _
      have h0 : ((0 : Nat) : Int) * b.refill = 0 := by simp
      rw [h0]; simp only [Int.min_def]; split <;> omega
    · intro k hk _ h; have : k = 0 := by omega
      subst this; simpa using h
  · simp only [hz, if_false]
    refine ⟨_, rfl, ?_⟩
    dsimp only
    have hp : (1 : Int) ≤ (p : Int) := by
      have : 1 ≤ p := Nat.pos_of_ne_zero hz
      omega
    have hx : b.refill ≤ (p : Int) * b.refill := by
      have := Int.mul_le_mul_of_nonneg_right hp (Int.le_of_lt hr0)
      simpa using this
    have hkx : ∀ k : Nat, k ≤ p → (k : Int) * b.refill ≤ (p : Int) * b.refill := fun k hk =>
      Int.mul_le_mul_of_nonneg_right (by omega) (Int.le_of_lt hr0)
    generalize (p : Int) * b.refill = x at *
    have s1 := sat_spec x
    have s2 := sat_spec (b.fill + sat x)
    refine ⟨⟨hp0, hp1, hr0, hr1, hm0, hm1, ?_, ?_⟩, rfl, rfl, rfl, rfl, ?_, ?_, ?_, ?_⟩
    · exact Int.min_le_right _ _
    · simp only [Int.min_def]; split <;> omega
    · simp only [Int.min_def]; split <;> omega
    · simp only [Int.min_def]; split <;> omega
    · intro hx1; simp only [Int.min_def]; split <;> split <;> omega
    · intro k hk hfl hpos
      have hk' := hkx k hk
      simp only [Int.min_def]; split <;> omega

/-! ### `consume` -/

/-- The byte count as `consume` sees it: `i64::try_from(bytes).unwrap_or(i64::MAX)`. -/
def chunkOf (bytes : Nat) : Int := if (bytes : Int) ≤ i64Max then (bytes : Int) else i64Max

theorem chunkOf_spec (bytes : Nat) :
    0 ≤ chunkOf bytes ∧ chunkOf bytes ≤ 9223372036854775807 ∧ chunkOf bytes ≤ bytes ∧
    ((bytes : Int) ≤ 9223372036854775807 → chunkOf bytes = bytes) := by
  unfold chunkOf i64Max; split <;> omega

/-- `periods_needed` of `consume` for a non-positive fill. -/
def neededPeriods (fill refill : Int) : Nat :=
  toU32OrMax (sat (Int.tdiv (sat (-fill)) refill + 1))

theorem neededPeriods_spec (fill refill : Int)
    (hf0 : -9223372036854775808 ≤ fill) (hf1 : fill ≤ 0) (hr0 : 0 < refill) :
    1 ≤ neededPeriods fill refill ∧ neededPeriods fill refill ≤ 4294967295 ∧
    ((neededPeriods fill refill : Int) ≤ -fill + 1) ∧
    (∀ j : Nat, j < neededPeriods fill refill → fill + (j : Int) * refill ≤ 0) ∧
    (neededPeriods fill refill < 4294967295 → -9223372036854775808 < fill →
      0 < fill + (neededPeriods fill refill : Int) * refill) := by
  unfold neededPeriods
  have sm := sat_spec (-fill)
  have hm0 : 0 ≤ sat (-fill) := by omega
  rw [Int.tdiv_eq_ediv_of_nonneg hm0]
  generalize hm : sat (-fill) = m at *
  have hq1 : m / refill * refill ≤ m := Int.ediv_mul_le m (by omega)
  have hq2 : m < (m / refill + 1) * refill := Int.lt_ediv_add_one_mul_self m hr0
  have hq0 : 0 ≤ m / refill := Int.ediv_nonneg hm0 (by omega)
  generalize hq : m / refill = q at *
  have hqm : q ≤ m := by
    have : q * 1 ≤ q * refill := Int.mul_le_mul_of_nonneg_left (by omega) hq0
    omega
  have hq2' : m < q * refill + refill := by
    have : (q + 1) * refill = q * refill + refill := by rw [Int.add_mul]; simp
    omega
  have sn := sat_spec (q + 1)
  generalize hn : sat (q + 1) = n0 at *
  have hjq : ∀ j : Nat, (j : Int) ≤ q → (j : Int) * refill ≤ q * refill := fun j hj =>
    Int.mul_le_mul_of_nonneg_right hj (by omega)
  unfold toU32OrMax
  simp only [u32Max_eq]
  have hn1 : ¬ n0 < 0 := by omega
  simp only [hn1, if_false]
  by_cases hbig : n0 > ((4294967295 : Nat) : Int)
  · simp only [hbig, if_true]
    refine ⟨by omega, by omega, by omega, ?_, by omega⟩
    intro j hj
    have := hjq j (by omega)
    omega
  · simp only [hbig, if_false]
    have hto : ((n0.toNat : Nat) : Int) = n0 := Int.toNat_of_nonneg (by omega)
    refine ⟨by omega, by omega, by omega, ?_, ?_⟩
    · intro j hj
      have := hjq j (by omega)
      omega
    · intro hlt hfl
      rw [hto]
      have : n0 = q + 1 := by omega
      subst this
      have : (q + 1) * refill = q * refill + refill := by rw [Int.add_mul]; simp
      omega

theorem consume_spec (b : Bucket) (bytes now : Nat) (hw : WF b) :
    ∃ b1, b.updateState now = some b1 ∧ WF b1 ∧
      WF { b1 with fill := sat (b1.fill - chunkOf bytes) } ∧
      b.consume bytes now = some ({ b1 with fill := sat (b1.fill - chunkOf bytes) },
        if 0 < sat (b1.fill - chunkOf bytes) then none
        else some (b1.lastFill +
          neededPeriods (sat (b1.fill - chunkOf bytes)) b1.refill * b1.period)) := by
  obtain ⟨b1, hu, hw1, -⟩ := updateState_spec b now hw
  have hc := chunkOf_spec bytes
  have ss := sat_spec (b1.fill - chunkOf bytes)
  obtain ⟨hp0, hp1, hr0, hr1, hm0, hm1, hf1, hf0⟩ := hw1
  refine ⟨b1, hu, ⟨hp0, hp1, hr0, hr1, hm0, hm1, hf1, hf0⟩,
    ⟨hp0, hp1, hr0, hr1, hm0, hm1, by dsimp only; omega, by dsimp only; omega⟩, ?_⟩
  unfold Bucket.consume
  simp only [hu]
  rw [show (if (bytes : Int) ≤ i64Max then (bytes : Int) else i64Max) = chunkOf bytes from rfl]
  have hr : ¬ b1.refill = 0 := by omega
  by_cases hpos : 0 < sat (b1.fill - chunkOf bytes)
  · simp only [gt_iff_lt, hpos, if_true]
  · simp only [gt_iff_lt, hpos, if_false, hr, neededPeriods]

/-! ### Accounting invariant of a caller that respects the deadlines -/

/-- Ghosts: `t0` = when the bucket was created (the limit took effect), `Tr` = time of the
last admitted read (or `t0`), `Tc` = current time, `tot` = bytes admitted since `t0`,
`C` = bound on the size of one read.  `sl` = the deadline the caller is waiting for. -/
structure Inv (C t0 Tr Tc tot : Nat) (b : Bucket) (sl : Option Nat) : Prop where
  wf : WF b
  acct : ∃ K : Nat, b.lastFill = t0 + K * b.period ∧
    (tot : Int) + b.fill ≤ b.max + (K : Int) * b.refill
  lf_le : b.lastFill ≤ Tr
  tr_lt : Tr < b.lastFill + b.period
  tr_le : Tr ≤ Tc
  fill_gt : -(C : Int) < b.fill
  elig : ∃ k : Nat, 0 < b.fill + (k : Int) * b.refill ∧
    (∀ d, sl = some d → d = b.lastFill + k * b.period) ∧
    (sl = none → b.lastFill + k * b.period ≤ Tc)

theorem Inv.init (C t0 : Nat) (b : Bucket) (hw : WF b) (hf : b.fill = b.max) (hl : b.lastFill = t0) :
    Inv C t0 t0 t0 0 b none := by
  have := hw.max_pos
  have := hw.period_pos
  refine ⟨hw, ⟨0, by simp [hl], by simp [hf]⟩, by omega, by omega, by omega, by omega, ⟨0, by simp; omega, by simp, by simp [hl]⟩⟩

theorem Inv.time {C t0 Tr Tc tot : Nat} {b : Bucket} {sl : Option Nat}
    (h : Inv C t0 Tr Tc tot b sl) (T' : Nat) (hT : Tc ≤ T') : Inv C t0 Tr T' tot b sl := by
  obtain ⟨wf, acct, h1, h2, h3, h4, k, hk1, hk2, hk3⟩ := h
  exact ⟨wf, acct, h1, h2, by omega, h4, k, hk1, hk2, fun hn => by have := hk3 hn; omega⟩

/-- Dropping an elapsed `bucket_refilled` sleep without reading. -/
theorem Inv.clear {C t0 Tr Tc tot : Nat} {b : Bucket} {d : Nat}
    (h : Inv C t0 Tr Tc tot b (some d)) (hd : d ≤ Tc) : Inv C t0 Tr Tc tot b none := by
  obtain ⟨wf, acct, h1, h2, h3, h4, k, hk1, hk2, hk3⟩ := h
  exact ⟨wf, acct, h1, h2, h3, h4, k, hk1, by simp, fun _ => by have := hk2 d rfl; omega⟩

/-- The bound the invariant gives: bytes admitted ≤ burst + refill·(whole periods since `t0`) + C. -/
theorem Inv.bound {C t0 Tr Tc tot : Nat} {b : Bucket} {sl : Option Nat}
    (h : Inv C t0 Tr Tc tot b sl) :
    (tot : Int) < b.max + (((Tc - t0) / b.period : Nat) : Int) * b.refill + C := by
  obtain ⟨wf, ⟨K, hK1, hK2⟩, h1, h2, h3, h4, -⟩ := h
  have hKle : K ≤ (Tc - t0) / b.period := by
    rw [Nat.le_div_iff_mul_le wf.period_pos]; omega
  have : (K : Int) * b.refill ≤ (((Tc - t0) / b.period : Nat) : Int) * b.refill :=
    Int.mul_le_mul_of_nonneg_right (by omega) (Int.le_of_lt wf.refill_pos)
  omega

/-- An admitted read of `n ≤ C` bytes at `now`. -/
theorem Inv.read {C t0 Tr Tc tot : Nat} {b : Bucket} {sl : Option Nat}
    (h : Inv C t0 Tr Tc tot b sl) (hC : C ≤ 4294967294) (now n : Nat)
    (hnow : Tc ≤ now) (hsl : ∀ d, sl = some d → d ≤ now) (hn : n ≤ C)
    (hgap : now - Tr + b.period ≤ 4294967296) :
    ∃ b' res, b.consume n now = some (b', res) ∧ Inv C t0 now now (tot + n) b' res ∧
      b'.period = b.period ∧ b'.refill = b.refill ∧ b'.max = b.max := by
  obtain ⟨wf, ⟨K, hK1, hK2⟩, h1, h2, h3, h4, k, hk1, hk2, hk3⟩ := h
  obtain ⟨b1, hu, hw1, hw2, hcons⟩ := consume_spec b n now wf
  obtain ⟨b1', hu', -, e1, e2, e3, e4, e5, e6, -, e8⟩ := updateState_spec b now wf
  rw [hu] at hu'; cases hu'
  have hp0 := wf.period_pos
  have hr0 := wf.refill_pos
  -- no u32 wrap of the elapsed milliseconds
  have hnw : now - b.lastFill < 4294967296 := by omega
  have hp := creditedPeriods_noWrap b now hnw
  have hple := creditedPeriods_le b now
  generalize hpe : creditedPeriods b now = p at *
  -- the caller is eligible: `k` periods have passed
  have hkp : k ≤ p := by
    rw [hp, Nat.le_div_iff_mul_le hp0]
    cases hs : sl with
    | none => have := hk3 hs; omega
    | some d => have := hk2 d hs; have := hsl d hs; omega
  have hpos1 : 0 < b1.fill := e8 k hkp (by omega) hk1
  have hc := chunkOf_spec n
  have hcn : chunkOf n = n := hc.2.2.2 (by omega)
  have ss := sat_spec (b1.fill - chunkOf n)
  have hm1 := hw1.max_le
  have hf1 := hw1.fill_le
  have hfill2 : sat (b1.fill - chunkOf n) = b1.fill - n := by omega
  refine ⟨_, _, hcons, ?_, e1, e2, e3⟩
  rw [hfill2]
  rw [hfill2] at hw2
  have hlt : now - b.lastFill < p * b.period + b.period := by
    rw [hp]; exact Nat.lt_div_mul_add hp0
  have hacct : ((tot + n : Nat) : Int) + (b1.fill - n) ≤ b1.max + ((K + p : Nat) : Int) * b1.refill := by
    have : ((K + p : Nat) : Int) * b1.refill = (K : Int) * b.refill + (p : Int) * b.refill := by
      rw [e2, Int.natCast_add, Int.add_mul]
    omega
  have hlf : b1.lastFill = t0 + (K + p) * b1.period := by
    rw [e4, e1, hK1, Nat.add_mul, Nat.mul_comm b.period p]; omega
  refine ⟨hw2, ⟨K + p, hlf, hacct⟩, ?_, ?_, Nat.le_refl _, ?_, ?_⟩
  · show b1.lastFill ≤ now
    rw [e4]; omega
  · show now < b1.lastFill + b1.period
    rw [e4, e1, Nat.mul_comm b.period p]; omega
  · show -(C : Int) < b1.fill - n
    omega
  · show ∃ k' : Nat, 0 < b1.fill - (n : Int) + (k' : Int) * b1.refill ∧ _ ∧ _
    by_cases hpos : 0 < b1.fill - (n : Int)
    · refine ⟨0, by simpa using hpos, ?_, ?_⟩
      · intro d hd; rw [if_pos hpos] at hd; cases hd
      · intro _; show b1.lastFill + 0 * b1.period ≤ now
        rw [e4]; omega
    · have hnp := neededPeriods_spec (b1.fill - n) b1.refill (by omega) (by omega) (by rw [e2]; exact hr0)
      obtain ⟨n1, n2, n3, -, n5⟩ := hnp
      refine ⟨neededPeriods (b1.fill - n) b1.refill, n5 (by omega) (by omega), ?_, ?_⟩
      · intro d hd; rw [if_neg hpos] at hd; cases hd; rfl
      · intro hnone; rw [if_neg hpos] at hnone; cases hnone

/-! ### Ghost instrumentation of `RateLimited` (specification vocabulary for the bound)

The ghost record says *which limit is in effect, since when, and how many bytes were read
since then*; it is computed from observable things only (configs sent, poll times, bytes
returned) plus the validity of a config (`fromConfig … ≠ none`). -/

structure Ghost where
  /-- limit in effect -/
  cfg : Option Cfg
  /-- when it took effect (time of the poll that installed it, or construction) -/
  t0 : Nat
  /-- bytes read since `t0` -/
  tot : Nat
  /-- time of the last read since `t0` (or `t0`) -/
  Tr : Nat
  /-- time of the last poll -/
  Tc : Nat

/-- A pending live update is picked up by the poll at `now`: a valid one takes effect now. -/
def Ghost.applyCfg (g : Ghost) (r : RL) (now : Nat) : Ghost :=
  match r.pendingCfg with
  | none => g
  | some c =>
    match fromConfig c now with
    | some _ => ⟨c, now, 0, now, now⟩
    | none => g

def Ghost.afterPoll (g : Ghost) (now : Nat) : PollOut → Ghost
  | .ready n => { g with tot := g.tot + n, Tr := now, Tc := now }
  | .pending => { g with Tc := now }

/-- A relay `ClientRateLimit` with `u32` fields. -/
def CfgOK (c : Cfg) : Prop := c.bps ≤ u32Max ∧ ∀ m, c.burst = some m → m ≤ u32Max

/-- Burst of a relay config. -/
def Cfg.burstBytes (c : Cfg) : Nat := c.burst.getD (c.bps / burstDivisor)
/-- Tokens per 100 ms period of a relay config. -/
def Cfg.refillBytes (c : Cfg) : Nat := c.bps * relayPeriodMs / 1000

/-- Every bucket the reader holds is well-formed. -/
def RLWF (r : RL) : Prop := ∀ b, r.bucket = some b → WF b

theorem fromConfig_spec (cfg : Option Cfg) (hc : ∀ c, cfg = some c → CfgOK c) (now : Nat) (bk : Option Bucket)
    (h : fromConfig cfg now = some bk) :
    (cfg = none → bk = none) ∧
    ∀ c, cfg = some c → ∃ b, bk = some b ∧ WF b ∧ b.fill = b.max ∧ b.lastFill = now ∧
      b.period = relayPeriodMs ∧ b.max = c.burstBytes ∧ b.refill = c.refillBytes := by
  cases cfg with
  | none => simp [fromConfig] at h; simp [h]
  | some c =>
    refine ⟨by simp, ?_⟩
    intro c' hc'; cases hc'
    obtain ⟨h1, h2⟩ := hc c rfl
    rw [u32Max_eq] at h1 h2
    have hm : ((c.burst.getD (c.bps / burstDivisor) : Nat) : Int) ≤ 9223372036854775807 := by
      cases hb : c.burst with
      | none => simp only [Option.getD_none, burstDivisor]; omega
      | some m => have := h2 m hb; simp only [Option.getD_some]; omega
    unfold fromConfig at h
    cases hn : Bucket.new ((c.burst.getD (c.bps / burstDivisor) : Nat) : Int) (c.bps : Int) relayPeriodMs now with
    | none => simp [hn] at h
    | some b' =>
      simp only [hn, Option.some.injEq] at h
      subst h
      obtain ⟨-, -, -, -, -, f1, f2, f3, f4, f5, w⟩ := new_spec _ _ _ _ _ hm hn
      refine ⟨b', rfl, w, by rw [f1, f2], f3, f4, f2, ?_⟩
      rw [f5]
      have ss := sat_spec ((c.bps : Int) * (relayPeriodMs : Nat))
      unfold Cfg.refillBytes
      simp only [relayPeriodMs] at ss ⊢
      have e1 : ((c.bps * 100 / 1000 : Nat) : Int) = ((c.bps : Int) * 100) / 1000 := by omega
      rw [e1]
      have : sat ((c.bps : Int) * ((100 : Nat) : Int)) = (c.bps : Int) * 100 := by omega
      rw [this]

/-- Invariant of the instrumented reader. -/
def RLInv (C : Nat) (r : RL) (g : Ghost) : Prop :=
  (∀ c, r.pendingCfg = some (some c) → CfgOK c) ∧
  match g.cfg with
  | none => r.bucket = none
  | some c => ∃ b, r.bucket = some b ∧ Inv C g.t0 g.Tr g.Tc g.tot b r.sleepUntil ∧
      b.period = relayPeriodMs ∧ b.max = c.burstBytes ∧ b.refill = c.refillBytes

theorem RLInv.applyCfg {C : Nat} {r : RL} {g : Ghost} (h : RLInv C r g) (now : Nat) (hT : g.Tc ≤ now) :
    RLInv C (r.applyCfg now) (g.applyCfg r now) ∧ (g.applyCfg r now).Tc ≤ now ∧
    (r.applyCfg now).avail = r.avail ∧ (r.applyCfg now).pendingCfg = none := by
  obtain ⟨hc, hm⟩ := h
  unfold RL.applyCfg Ghost.applyCfg
  cases hp : r.pendingCfg with
  | none => exact ⟨⟨by simp [hp], hm⟩, hT, rfl, hp⟩
  | some cfg =>
    dsimp only
    cases hf : fromConfig cfg now with
    | none =>
      dsimp only
      exact ⟨⟨by simp, hm⟩, hT, rfl, rfl⟩
    | some bk =>
      dsimp only
      refine ⟨⟨by simp, ?_⟩, Nat.le_refl _, rfl, rfl⟩
      obtain ⟨s1, s2⟩ := fromConfig_spec cfg (fun c hcc => hc c (by rw [hp, hcc])) now bk hf
      cases cfg with
      | none => exact s1 rfl
      | some c =>
        obtain ⟨b, hb, w, f1, f2, f3, f4, f5⟩ := s2 c rfl
        exact ⟨b, hb, Inv.init C now b w f1 f2, f3, f4, f5⟩

/-- One `poll_read` preserves the invariant (the heart of the bound). -/
theorem RLInv.poll {C : Nat} {r : RL} {g : Ghost} (h : RLInv C r g) (hC : C ≤ 4294967294)
    (now buf : Nat) (r' : RL) (out : PollOut) (hT : g.Tc ≤ now) (hbuf : buf ≤ C)
    (hgap : now - (g.applyCfg r now).Tr + relayPeriodMs ≤ 4294967296)
    (hp : r.poll now buf = some (r', out)) :
    RLInv C r' ((g.applyCfg r now).afterPoll now out) := by
  obtain ⟨h1, hT1, hav, hpc⟩ := h.applyCfg now hT
  unfold RL.poll at hp
  generalize r.applyCfg now = r1 at *
  generalize g.applyCfg r now = g1 at *
  obtain ⟨hc1, hm1⟩ := h1
  have hc' : ∀ (r2 : RL), r2.pendingCfg = r1.pendingCfg → ∀ c, r2.pendingCfg = some (some c) → CfgOK c := by
    intro r2 h2 c hcc; rw [h2, hpc] at hcc; cases hcc
  cases hg : g1.cfg with
  | none =>
    rw [hg] at hm1
    dsimp only at hm1
    simp only [hm1] at hp
    cases hi : innerRead r1.avail buf with
    | none =>
      simp only [hi, Option.some.injEq, Prod.mk.injEq] at hp
      obtain ⟨rfl, rfl⟩ := hp
      exact ⟨hc1, by simp only [Ghost.afterPoll, hg]; exact hm1⟩
    | some n =>
      simp only [hi, Option.some.injEq, Prod.mk.injEq] at hp
      obtain ⟨rfl, rfl⟩ := hp
      exact ⟨hc' _ rfl, by simp only [Ghost.afterPoll, hg]; first | done | exact hm1⟩
  | some c =>
    rw [hg] at hm1
    obtain ⟨b, hb, hinv, p1, p2, p3⟩ := hm1
    simp only [hb] at hp
    by_cases hbl : Reader.blocked r1.sleepUntil now = true
    · simp only [hbl, if_true, Option.some.injEq, Prod.mk.injEq] at hp
      obtain ⟨rfl, rfl⟩ := hp
      refine ⟨hc1, ?_⟩
      simp only [Ghost.afterPoll, hg]
      exact ⟨b, hb, hinv.time now hT1, p1, p2, p3⟩
    · simp only [hbl, Bool.false_eq_true, if_false] at hp
      have hsl : ∀ d, r1.sleepUntil = some d → d ≤ now := by
        intro d hd
        unfold Reader.blocked at hbl
        simp only [hd, decide_eq_true_eq] at hbl
        omega
      cases hi : innerRead r1.avail buf with
      | none =>
        simp only [hi, Option.some.injEq, Prod.mk.injEq] at hp
        obtain ⟨rfl, rfl⟩ := hp
        refine ⟨hc' _ rfl, ?_⟩
        simp only [Ghost.afterPoll, hg]
        refine ⟨b, (by first | rfl | exact hb), ?_, p1, p2, p3⟩
        have hinv' := hinv.time now hT1
        cases hs : r1.sleepUntil with
        | none => rw [hs] at hinv'; exact hinv'
        | some d => rw [hs] at hinv'; exact hinv'.clear (hsl d hs)
      | some n =>
        have hn : n ≤ C := by
          unfold innerRead at hi
          split at hi
          · cases hi
          · cases hi; omega
        obtain ⟨b', res, hcons, hinv', q1, q2, q3⟩ :=
          hinv.read hC now n hT1 hsl hn (by rw [p1]; exact hgap)
        simp only [hi, hcons] at hp
        cases res with
        | none =>
          simp only [Option.some.injEq, Prod.mk.injEq] at hp
          obtain ⟨rfl, rfl⟩ := hp
          refine ⟨hc' _ rfl, ?_⟩
          simp only [Ghost.afterPoll, hg]
          exact ⟨b', rfl, hinv', by rw [q1, p1], by rw [q3, p2], by rw [q2, p3]⟩
        | some d =>
          simp only [Option.some.injEq, Prod.mk.injEq] at hp
          obtain ⟨rfl, rfl⟩ := hp
          refine ⟨hc' _ rfl, ?_⟩
          simp only [Ghost.afterPoll, hg]
          exact ⟨b', rfl, hinv', by rw [q1, p1], by rw [q3, p2], by rw [q2, p3]⟩

/-! ### Content level helpers -/

theorem applyCfg_avail (r : RL) (now : Nat) : (r.applyCfg now).avail = r.avail := by
  unfold RL.applyCfg
  cases hp : r.pendingCfg with
  | none => rfl
  | some cfg => dsimp only; cases fromConfig cfg now <;> rfl

theorem applyCfg_of_no_pending (r : RL) (now : Nat) (h : r.pendingCfg = none) : r.applyCfg now = r := by
  unfold RL.applyCfg; rw [h]

/-- A count-level poll that returns bytes returns `min avail buf` of them, and only when some
are ready; a pending one leaves `avail` alone. -/
theorem rl_poll_count (r r' : RL) (now buf : Nat) (out : PollOut) (h : r.poll now buf = some (r', out)) :
    (∀ n, out = .ready n → r.avail ≠ 0 ∧ n = min r.avail buf) ∧
    (out = .pending → r'.avail = r.avail) := by
  unfold RL.poll at h
  have hav := applyCfg_avail r now
  generalize r.applyCfg now = r1 at *
  unfold innerRead at h
  cases hb : r1.bucket with
  | none =>
    simp only [hb] at h
    by_cases ha : r1.avail = 0
    · simp only [ha, if_true, Option.some.injEq, Prod.mk.injEq] at h
      obtain ⟨rfl, rfl⟩ := h
      exact ⟨fun n hn => (by cases hn), fun _ => hav⟩
    · simp only [ha, if_false, Option.some.injEq, Prod.mk.injEq] at h
      obtain ⟨rfl, rfl⟩ := h
      exact ⟨fun n hn => (by cases hn; rw [← hav]; exact ⟨ha, rfl⟩), fun hn => (by cases hn)⟩
  | some b =>
    simp only [hb] at h
    by_cases hbl : Reader.blocked r1.sleepUntil now = true
    · simp only [hbl, if_true, Option.some.injEq, Prod.mk.injEq] at h
      obtain ⟨rfl, rfl⟩ := h
      exact ⟨fun n hn => (by cases hn), fun _ => hav⟩
    · simp only [hbl, Bool.false_eq_true, if_false] at h
      by_cases ha : r1.avail = 0
      · simp only [ha, if_true, Option.some.injEq, Prod.mk.injEq] at h
        obtain ⟨rfl, rfl⟩ := h
        exact ⟨fun n hn => (by cases hn), fun _ => (by rw [← hav]; exact ha.symm)⟩
      · simp only [ha, if_false] at h
        cases hc : b.consume (min r1.avail buf) now with
        | none => simp [hc] at h
        | some pr =>
          obtain ⟨b', res⟩ := pr
          cases res with
          | none =>
            simp only [hc, Option.some.injEq, Prod.mk.injEq] at h
            obtain ⟨rfl, rfl⟩ := h
            exact ⟨fun n hn => (by cases hn; rw [← hav]; exact ⟨ha, rfl⟩), fun hn => (by cases hn)⟩
          | some d =>
            simp only [hc, Option.some.injEq, Prod.mk.injEq] at h
            obtain ⟨rfl, rfl⟩ := h
            exact ⟨fun n hn => (by cases hn; rw [← hav]; exact ⟨ha, rfl⟩), fun hn => (by cases hn)⟩

end IrohModel.C09
