/-
C09 — property theorems (only).

Statement: for any arrival pattern of client bytes and any rate/burst configuration
(including live changes), the relay reads from a client no more than the burst plus the
refill accrued since the limit took effect, plus at most one read chunk.  When throttled,
reading resumes no later than the instant at which the bucket has refilled enough, and no
configuration or byte count makes the limiter panic or stall forever.

All statements are about the model of the code *after* the two `fix:` commits (see
Model.lean).  `none` of an `Option`-valued model function is a Rust panic.
-/
import IrohModel.C09.Lemmas

namespace IrohModel.C09
open IrohModel.Generated.C09

/-! ## 1. Configurations: what is accepted, nothing panics -/

/-- `Bucket::new` accepts exactly: positive burst and rate, a refill period of
1 … `u32::MAX` ms, and at least one token per period (`bps · period ≥ 1000`). -/
theorem new_accepts_iff (max bps : Int) (pms now : Nat) (hmax : max ≤ i64Max) :
    (Bucket.new max bps pms now).isSome = true ↔
      0 < max ∧ 0 < bps ∧ 0 < pms ∧ pms ≤ u32Max ∧ 1000 ≤ bps * pms := by
  rw [i64Max_eq] at hmax
  rw [u32Max_eq]
  constructor
  · intro h
    obtain ⟨b, hb⟩ := Option.isSome_iff_exists.1 h
    obtain ⟨h1, h2, h3, h4, h5, -⟩ := new_spec max bps pms now b hmax hb
    exact ⟨h1, h2, h3, h4, h5⟩
  · rintro ⟨h1, h2, h3, h4, h5⟩
    exact new_accepts max bps pms now h1 h2 h3 h4 h5

/-- An accepted bucket starts full at `now` and is well-formed. -/
theorem new_starts_full (max bps : Int) (pms now : Nat) (b : Bucket) (hmax : max ≤ i64Max)
    (h : Bucket.new max bps pms now = some b) :
    WF b ∧ b.fill = max ∧ b.max = max ∧ b.lastFill = now ∧ b.period = pms ∧
      b.refill = sat (bps * pms) / 1000 := by
  rw [i64Max_eq] at hmax
  obtain ⟨-, -, -, -, -, h6, h7, h8, h9, h10, h11⟩ := new_spec max bps pms now b hmax h
  exact ⟨h11, h6, h7, h8, h9, h10⟩

/-- Relay domain: a rate limit is accepted iff it gives at least 10 B/s (one token per
100 ms) and a positive burst (the default burst is `bps / 10`). -/
theorem relay_config_accepted_iff (c : Cfg) (hc : CfgOK c) (now : Nat) :
    (fromConfig (some c) now).isSome = true ↔ 0 < c.burst.getD (c.bps / 10) ∧ 10 ≤ c.bps := by
  have hm : ((c.burst.getD (c.bps / burstDivisor) : Nat) : Int) ≤ i64Max := by
    obtain ⟨h1, h2⟩ := hc
    rw [i64Max_eq]; rw [u32Max_eq] at h1 h2
    cases hb : c.burst with
    | none => simp only [Option.getD_none, burstDivisor]; omega
    | some m => have := h2 m hb; simp only [Option.getD_some]; omega
  have hiff := new_accepts_iff _ (c.bps : Int) relayPeriodMs now hm
  have hsame : (fromConfig (some c) now).isSome =
      (Bucket.new ((c.burst.getD (c.bps / burstDivisor) : Nat) : Int) (c.bps : Int) relayPeriodMs now).isSome := by
    simp only [fromConfig]
    cases Bucket.new ((c.burst.getD (c.bps / burstDivisor) : Nat) : Int) (c.bps : Int) relayPeriodMs now <;> rfl
  rw [hsame, hiff]
  simp only [relayPeriodMs, u32Max_eq, burstDivisor]
  omega

/-- `consume` never panics on a well-formed bucket, for any byte count and any time, and
keeps the bucket well-formed. -/
theorem consume_total (b : Bucket) (bytes now : Nat) (hw : WF b) :
    ∃ b' res, b.consume bytes now = some (b', res) ∧ WF b' := by
  obtain ⟨b1, -, -, hw2, hc⟩ := consume_spec b bytes now hw
  exact ⟨_, _, hc, hw2⟩

/-- A history of raw `consume(bytes)` calls at arbitrary times. -/
def runConsumes (b : Bucket) : List (Nat × Nat) → Option Bucket
  | [] => some b
  | (now, bytes) :: rest =>
    match b.consume bytes now with
    | none => none
    | some (b', _) => runConsumes b' rest

/-- **No configuration or byte count makes `Bucket` panic**: every `i64` burst/rate, every
refill period (`u128` ms), every history of byte counts and times (monotone or not). -/
theorem bucket_history_no_panic (max bps : Int) (pms t0 : Nat) (b : Bucket) (hmax : max ≤ i64Max)
    (h : Bucket.new max bps pms t0 = some b) (ops : List (Nat × Nat)) :
    (runConsumes b ops).isSome = true := by
  have hw := (new_starts_full max bps pms t0 b hmax h).1
  clear h
  induction ops generalizing b with
  | nil => rfl
  | cons op rest ih =>
    obtain ⟨now, bytes⟩ := op
    obtain ⟨b', res, hc, hw'⟩ := consume_total b bytes now hw
    simp only [runConsumes, hc]
    exact ih b' hw'

/-! ## 2. Throttling: the deadline is the first instant with enough refill -/

/-- `consume` answers `Ok` iff the fill is still positive after the subtraction. -/
theorem consume_ok_iff (b b' : Bucket) (bytes now : Nat) (res : Option Nat) (hw : WF b)
    (h : b.consume bytes now = some (b', res)) : res = none ↔ 0 < b'.fill := by
  obtain ⟨b1, -, -, -, hc⟩ := consume_spec b bytes now hw
  rw [hc] at h
  cases h
  dsimp only
  split <;> simp_all

/-- **Deadline minimality.**  `Err(d)`: `d = last_fill + k·period` where `k ≥ 1` is the least
number of refill periods after which the fill is positive again — for no smaller `j` is
`fill + j·refill > 0`, and (unless the `u32::MAX` cap on `k` is hit or the debt saturated at
`i64::MIN`) `fill + k·refill > 0`.  So reading resumes no later than, and normally exactly at,
the instant at which the bucket has refilled enough. -/
theorem deadline_minimal (b b' : Bucket) (bytes now d : Nat) (hw : WF b)
    (h : b.consume bytes now = some (b', some d)) :
    ∃ k : Nat, 1 ≤ k ∧ k ≤ u32Max ∧ d = b'.lastFill + k * b'.period ∧ b'.fill ≤ 0 ∧
      (∀ j : Nat, j < k → b'.fill + (j : Int) * b'.refill ≤ 0) ∧
      (k < u32Max → i64Min < b'.fill → 0 < b'.fill + (k : Int) * b'.refill) := by
  obtain ⟨b1, -, hw1, hw2, hc⟩ := consume_spec b bytes now hw
  rw [hc] at h
  simp only [Option.some.injEq, Prod.mk.injEq] at h
  obtain ⟨hb, hd⟩ := h
  subst hb
  dsimp only
  by_cases hpos : 0 < sat (b1.fill - chunkOf bytes)
  · rw [if_pos hpos] at hd; cases hd
  · rw [if_neg hpos] at hd
    cases hd
    have := neededPeriods_spec (sat (b1.fill - chunkOf bytes)) b1.refill hw2.fill_ge (by omega) hw1.refill_pos
    obtain ⟨n1, n2, -, n4, n5⟩ := this
    rw [u32Max_eq, i64Min_eq]
    exact ⟨_, n1, n2, rfl, by omega, n4, n5⟩

/-- **No stall.**  The deadline is a finite instant: strictly in the future and at most
`u32::MAX` periods ahead (when less than 2³² ms passed since the last refill epoch, i.e. the
`as u32` of the elapsed milliseconds did not wrap). -/
theorem deadline_future_and_finite (b b' : Bucket) (bytes now d : Nat) (hw : WF b)
    (hl : b.lastFill ≤ now) (hnw : now - b.lastFill < two32)
    (h : b.consume bytes now = some (b', some d)) :
    now < d ∧ d ≤ now + u32Max * b.period := by
  obtain ⟨k, k1, k2, hd, -⟩ := deadline_minimal b b' bytes now d hw h
  obtain ⟨b1, hu, -, -, hc⟩ := consume_spec b bytes now hw
  obtain ⟨b1', hu', -, e1, -, -, e4, -⟩ := updateState_spec b now hw
  rw [hu] at hu'; cases hu'
  rw [hc] at h
  simp only [Option.some.injEq, Prod.mk.injEq] at h
  obtain ⟨hb, -⟩ := h
  subst hb
  dsimp only at hd
  rw [two32_eq] at hnw
  have hp := creditedPeriods_noWrap b now hnw
  have hple := creditedPeriods_le b now
  have hp0 := hw.period_pos
  have hlt : now - b.lastFill < creditedPeriods b now * b.period + b.period := by
    rw [hp]; exact Nat.lt_div_mul_add hp0
  rw [Nat.mul_comm] at hple
  have hk : 1 * b.period ≤ k * b.period := Nat.mul_le_mul_right _ k1
  have hk' : k * b.period ≤ u32Max * b.period := Nat.mul_le_mul_right _ k2
  rw [e4, e1, Nat.mul_comm b.period] at hd
  omega

/-- **Relay domain: no saturation triggers in `update_state`.**  For a bucket built from a
`ClientRateLimit` (100 ms period, `refill ≤ u32::MAX·100/1000`) the refill product stays far
inside `i64` and the new fill is exactly `min(fill + periods·refill, max)`. -/
theorem relay_domain_no_saturation (b : Bucket) (now : Nat) (hw : WF b)
    (hp : b.period = relayPeriodMs) (hr : b.refill ≤ 429496729) :
    (creditedPeriods b now : Int) * b.refill ≤ i64Max ∧
    ∃ b', b.updateState now = some b' ∧
      b'.fill = min (b.fill + (creditedPeriods b now : Int) * b.refill) b.max := by
  have hple : creditedPeriods b now ≤ 42949672 := by
    unfold creditedPeriods
    rw [hp, two32_eq]
    simp only [relayPeriodMs]
    omega
  have hprod : (creditedPeriods b now : Int) * b.refill ≤ 42949672 * 429496729 :=
    Int.mul_le_mul (by omega) hr (Int.le_of_lt hw.refill_pos) (by omega)
  have hle : (creditedPeriods b now : Int) * b.refill ≤ 9223372036854775807 := by omega
  obtain ⟨b', hu, -, -, -, -, -, -, -, e7, -⟩ := updateState_spec b now hw
  exact ⟨by rw [i64Max_eq]; exact hle, b', hu, e7 hle⟩

/-- Witnesses of the three defects of the *unrepaired* arithmetic (replayed on the real code,
then fixed): the unchecked product `refill_periods as i64 * refill` for
`Bucket::new(i64::MAX, i64::MAX, 100 ms)` after 2000 idle periods, the unchecked
`missing / refill + 1` for a saturated debt with `refill = 1`, and the `as u32` truncation
of a period of 2³² + 1 ms to 1 ms. -/
theorem d3_unrepaired_arithmetic_left_i64 :
    (2000 : Int) * (sat (i64Max * 100) / 1000) > i64Max ∧
    Int.tdiv (sat (-i64Min)) 1 + 1 > i64Max ∧
    (4294967297 : Nat) % two32 = 1 := by decide

/-! ## 3. `RateLimited::poll_read`: total, reconfiguration resets, resumes at the deadline -/

/-- **Live reconfiguration resets**: a valid new limit replaces the bucket by a full one
created at the time of the poll and drops a pending refill wait; an invalid one is ignored. -/
theorem reconfig_resets (r : RL) (now : Nat) (c : Option Cfg) (hp : r.pendingCfg = some c) :
    (∀ bk, fromConfig c now = some bk →
      r.applyCfg now = { r with bucket := bk, sleepUntil := none, pendingCfg := none }) ∧
    (fromConfig c now = none → r.applyCfg now = { r with pendingCfg := none }) := by
  unfold RL.applyCfg
  simp only [hp]
  constructor
  · intro bk h; simp [h]
  · intro h; simp [h]

theorem applyCfg_wf (r : RL) (now : Nat) (hw : RLWF r)
    (hc : ∀ c, r.pendingCfg = some (some c) → CfgOK c) : RLWF (r.applyCfg now) := by
  unfold RL.applyCfg
  cases hp : r.pendingCfg with
  | none => exact hw
  | some cfg =>
    dsimp only
    cases hf : fromConfig cfg now with
    | none => exact hw
    | some bk =>
      intro b hb
      obtain ⟨s1, s2⟩ := fromConfig_spec cfg (fun c hcc => hc c (by rw [hp, hcc])) now bk hf
      cases cfg with
      | none => rw [s1 rfl] at hb; cases hb
      | some c =>
        obtain ⟨b', hb', w, -⟩ := s2 c rfl
        rw [hb'] at hb; cases hb; exact w

/-- `poll_read` never panics and keeps the reader well-formed — any time, any buffer size,
any amount of ready data, any pending (valid or invalid) live update. -/
theorem poll_total (r : RL) (now buf : Nat) (hw : RLWF r)
    (hc : ∀ c, r.pendingCfg = some (some c) → CfgOK c) :
    ∃ r' out, r.poll now buf = some (r', out) ∧ RLWF r' ∧ r'.pendingCfg = none := by
  have hw1 := applyCfg_wf r now hw hc
  have hpc : (r.applyCfg now).pendingCfg = none := by
    unfold RL.applyCfg
    cases hp : r.pendingCfg with
    | none => simp [hp]
    | some cfg => dsimp only; cases fromConfig cfg now <;> rfl
  unfold RL.poll
  generalize r.applyCfg now = r1 at *
  cases hb : r1.bucket with
  | none =>
    simp only [hb]
    cases hi : innerRead r1.avail buf with
    | none => exact ⟨_, _, rfl, hw1, hpc⟩
    | some n => exact ⟨_, _, rfl, fun b hb' => (by cases hb'), hpc⟩
  | some b =>
    simp only [hb]
    by_cases hbl : Reader.blocked r1.sleepUntil now = true
    · simp only [hbl, if_true]; exact ⟨_, _, rfl, hw1, hpc⟩
    · simp only [hbl]
      cases hi : innerRead r1.avail buf with
      | none => exact ⟨_, _, rfl, fun b' hb' => hw1 b' (by rw [hb]; exact hb'), hpc⟩
      | some n =>
        obtain ⟨b', res, hcons, hwb⟩ := consume_total b n now (hw1 b hb)
        simp only [Bool.false_eq_true, if_false, hcons]
        cases res with
        | none => exact ⟨_, _, rfl, fun b'' hb'' => by cases hb''; exact hwb, hpc⟩
        | some d => exact ⟨_, _, rfl, fun b'' hb'' => by cases hb''; exact hwb, hpc⟩

/-- **Reading resumes at the deadline** (no stall): with data ready and no refill wait still
in the future, `poll_read` returns the bytes. -/
theorem poll_reads_when_due (r : RL) (now buf : Nat) (hw : RLWF r)
    (hc : ∀ c, r.pendingCfg = some (some c) → CfgOK c) (ha : 0 < r.avail)
    (hdue : ∀ d, (r.applyCfg now).sleepUntil = some d → (r.applyCfg now).bucket ≠ none → d ≤ now) :
    ∃ r', r.poll now buf = some (r', PollOut.ready (min r.avail buf)) := by
  have hw1 := applyCfg_wf r now hw hc
  have hav : (r.applyCfg now).avail = r.avail := by
    unfold RL.applyCfg
    cases hp : r.pendingCfg with
    | none => rfl
    | some cfg => dsimp only; cases fromConfig cfg now <;> rfl
  unfold RL.poll
  generalize r.applyCfg now = r1 at *
  have hi : innerRead r1.avail buf = some (min r.avail buf) := by
    unfold innerRead; rw [hav]; simp; omega
  cases hb : r1.bucket with
  | none => simp only [hb, hi]; exact ⟨_, rfl⟩
  | some b =>
    simp only [hb]
    have hbl : Reader.blocked r1.sleepUntil now = false := by
      unfold Reader.blocked
      cases hs : r1.sleepUntil with
      | none => rfl
      | some d => have := hdue d hs (by simp [hb]); simp; omega
    simp only [hbl, Bool.false_eq_true, if_false, hi]
    obtain ⟨b', res, hcons, -⟩ := consume_total b (min r.avail buf) now (hw1 b hb)
    rw [hcons]
    cases res <;> exact ⟨_, rfl⟩

/-- States reachable by **any** use of the reader: any initial config, any data arrivals, any
live updates (valid or not), polls at any times with any buffer sizes. -/
inductive RLReachAny : RL → Prop
  | init (cfg : Option Cfg) (t : Nat) (r : RL) :
      (∀ c, cfg = some c → CfgOK c) → RL.fromWatcher cfg t = some r → RLReachAny r
  | data {r : RL} (n : Nat) : RLReachAny r → RLReachAny { r with avail := r.avail + n }
  | send {r : RL} (c : Option Cfg) : (∀ c', c = some c' → CfgOK c') → RLReachAny r →
      RLReachAny { r with pendingCfg := some c }
  | poll {r : RL} (now buf : Nat) (r' : RL) (out : PollOut) :
      RLReachAny r → r.poll now buf = some (r', out) → RLReachAny r'

/-- **No configuration, byte count or timing makes the rate-limited reader panic.** -/
theorem rl_never_panics (r : RL) (h : RLReachAny r) (now buf : Nat) :
    (r.poll now buf).isSome = true := by
  have inv : RLWF r ∧ ∀ c, r.pendingCfg = some (some c) → CfgOK c := by
    induction h with
    | init cfg t r hc hr =>
      unfold RL.fromWatcher at hr
      cases hf : fromConfig cfg t with
      | none => simp [hf] at hr
      | some bk =>
        simp only [hf, Option.some.injEq] at hr
        subst hr
        refine ⟨?_, by simp⟩
        intro b hb
        obtain ⟨s1, s2⟩ := fromConfig_spec cfg hc t bk hf
        cases cfg with
        | none => rw [s1 rfl] at hb; cases hb
        | some c =>
          obtain ⟨b', hb', w, -⟩ := s2 c rfl
          dsimp only at hb
          rw [hb'] at hb; cases hb; exact w
    | data n _ ih => exact ⟨fun b hb => ih.1 b hb, ih.2⟩
    | send c hc _ ih =>
      refine ⟨fun b hb => ih.1 b hb, ?_⟩
      intro c' hc'
      simp only [Option.some.injEq] at hc'
      exact hc c' hc'
    | poll now buf r' out _ hp ih =>
      obtain ⟨r'', out', hp', w, hpc⟩ := poll_total _ now buf ih.1 ih.2
      rw [hp] at hp'; cases hp'
      exact ⟨w, by simp [hpc]⟩
  obtain ⟨r', out, hp, -⟩ := poll_total r now buf inv.1 inv.2
  simp [hp]

/-! ## 4. The prefix bound -/

/-- States reachable by a caller of `Bucket::consume` that respects the deadlines, with the
ghosts `tot` (bytes admitted since the bucket was created at `t0`), `Tr` (time of the last
admitted read, or `t0`) and `Tc` (current time).  Hypotheses of a step: time does not run
backwards, one read is at most `C` bytes, and fewer than 2³² − period ms pass between two
admitted reads (the `as u32` of the elapsed milliseconds does not wrap). -/
inductive ReaderReach (C : Nat) (b0 : Bucket) (t0 : Nat) : Reader → Nat → Nat → Nat → Prop
  | init : ReaderReach C b0 t0 ⟨b0, none⟩ 0 t0 t0
  | wait {r : Reader} {tot Tr Tc : Nat} (T' : Nat) :
      ReaderReach C b0 t0 r tot Tr Tc → Tc ≤ T' → ReaderReach C b0 t0 r tot Tr T'
  | read {r : Reader} {tot Tr Tc : Nat} (now n : Nat) (r' : Reader) (out : ReadOut) :
      ReaderReach C b0 t0 r tot Tr Tc → Tc ≤ now → n ≤ C →
      now - Tr + b0.period ≤ two32 →
      r.read n now = some (r', out) →
      ReaderReach C b0 t0 r' (if out = ReadOut.blocked then tot else tot + n)
        (if out = ReadOut.blocked then Tr else now) now

/-- **Prefix bound, `Bucket` level.**  At every point of every such history the bytes admitted
since creation are below `burst + refill · ⌊(t − t0)/period⌋ + C` (so at most
burst + accrued refill + one chunk − 1). -/
theorem reader_prefix_bound (C : Nat) (hC : C ≤ u32Max - 1) (max bps : Int) (pms t0 : Nat) (b0 : Bucket)
    (hmax : max ≤ i64Max) (hnew : Bucket.new max bps pms t0 = some b0)
    (r : Reader) (tot Tr Tc : Nat) (h : ReaderReach C b0 t0 r tot Tr Tc) :
    (tot : Int) < max + (((Tc - t0) / pms : Nat) : Int) * b0.refill + C := by
  obtain ⟨w, f1, f2, f3, f4, -⟩ := new_starts_full max bps pms t0 b0 hmax hnew
  rw [u32Max_eq] at hC
  have inv : Inv C t0 Tr Tc tot r.b r.sleepUntil ∧ r.b.period = b0.period ∧ r.b.refill = b0.refill ∧
      r.b.max = b0.max := by
    induction h with
    | init => exact ⟨Inv.init C t0 b0 w (by rw [f1, f2]) f3, rfl, rfl, rfl⟩
    | wait T' _ hT ih => exact ⟨ih.1.time T' hT, ih.2⟩
    | @read r tot Tr Tc now n r' out _ hT hn hgap hr ih =>
      obtain ⟨hinv, p1, p2, p3⟩ := ih
      unfold Reader.read at hr
      by_cases hbl : Reader.blocked r.sleepUntil now = true
      · simp only [hbl, if_true, Option.some.injEq, Prod.mk.injEq] at hr
        obtain ⟨rfl, rfl⟩ := hr
        simp only [if_true]
        exact ⟨hinv.time now hT, p1, p2, p3⟩
      · simp only [hbl, Bool.false_eq_true, if_false] at hr
        have hsl : ∀ d, r.sleepUntil = some d → d ≤ now := by
          intro d hd
          unfold Reader.blocked at hbl
          simp only [hd, decide_eq_true_eq] at hbl
          omega
        rw [two32_eq] at hgap
        obtain ⟨b', res, hcons, hinv', q1, q2, q3⟩ :=
          hinv.read (by omega) now n hT hsl hn (by rw [p1]; exact hgap)
        rw [hcons] at hr
        cases res with
        | none =>
          simp only [Option.some.injEq, Prod.mk.injEq] at hr
          obtain ⟨rfl, rfl⟩ := hr
          simp only [reduceCtorEq, if_false]
          exact ⟨hinv', by rw [q1, p1], by rw [q2, p2], by rw [q3, p3]⟩
        | some d =>
          simp only [Option.some.injEq, Prod.mk.injEq] at hr
          obtain ⟨rfl, rfl⟩ := hr
          simp only [reduceCtorEq, if_false]
          exact ⟨hinv', by rw [q1, p1], by rw [q2, p2], by rw [q3, p3]⟩
  obtain ⟨hinv, p1, p2, p3⟩ := inv
  have := hinv.bound
  rw [p1, p2, p3, f4, f2] at this
  exact this

/-- States of the relay's rate-limited reader reachable under: time does not run backwards,
read buffers of at most `C` bytes, and fewer than 2³² − 100 ms between two reads under one
limit.  The ghost `g` records which limit is in effect, since when (`t0`), and how many bytes
were read since then (`tot`). -/
inductive RLReach (C : Nat) : RL → Ghost → Prop
  | init (cfg : Option Cfg) (t : Nat) (r : RL) :
      (∀ c, cfg = some c → CfgOK c) → RL.fromWatcher cfg t = some r →
      RLReach C r ⟨cfg, t, 0, t, t⟩
  | data {r : RL} {g : Ghost} (n : Nat) : RLReach C r g → RLReach C { r with avail := r.avail + n } g
  | send {r : RL} {g : Ghost} (c : Option Cfg) : (∀ c', c = some c' → CfgOK c') → RLReach C r g →
      RLReach C { r with pendingCfg := some c } g
  | poll {r : RL} {g : Ghost} (now buf : Nat) (r' : RL) (out : PollOut) :
      RLReach C r g → g.Tc ≤ now → buf ≤ C →
      now - (g.applyCfg r now).Tr + relayPeriodMs ≤ two32 →
      r.poll now buf = some (r', out) →
      RLReach C r' ((g.applyCfg r now).afterPoll now out)

theorem rlreach_inv (C : Nat) (hC : C ≤ u32Max - 1) (r : RL) (g : Ghost) (h : RLReach C r g) :
    RLInv C r g := by
  rw [u32Max_eq] at hC
  induction h with
  | init cfg t r hc hr =>
    unfold RL.fromWatcher at hr
    cases hf : fromConfig cfg t with
    | none => simp [hf] at hr
    | some bk =>
      simp only [hf, Option.some.injEq] at hr
      subst hr
      refine ⟨by simp, ?_⟩
      obtain ⟨s1, s2⟩ := fromConfig_spec cfg hc t bk hf
      cases cfg with
      | none => exact s1 rfl
      | some c =>
        obtain ⟨b, hb, w, f1, f2, f3, f4, f5⟩ := s2 c rfl
        exact ⟨b, hb, Inv.init C t b w f1 f2, f3, f4, f5⟩
  | data n _ ih => exact ih
  | send c hc _ ih =>
    refine ⟨?_, ih.2⟩
    intro c' hc'
    simp only [Option.some.injEq] at hc'
    exact hc c' hc'
  | poll now buf r' out _ hT hbuf hgap hp ih =>
    rw [two32_eq] at hgap
    exact ih.poll (by omega) now buf r' out hT hbuf hgap hp

/-- **Prefix bound, `RateLimited` level** (the property's first sentence).  Whenever a limit
`c` is in effect — installed at construction or live at `t0` — the bytes read since it took
effect are below `burst + refill·⌊(t − t0)/100 ms⌋ + C`: the burst, plus the refill accrued
since the limit took effect, plus at most one read chunk. -/
theorem rl_prefix_bound (C : Nat) (hC : C ≤ u32Max - 1) (r : RL) (g : Ghost) (h : RLReach C r g)
    (c : Cfg) (hc : g.cfg = some c) :
    g.tot < c.burstBytes + ((g.Tc - g.t0) / relayPeriodMs) * c.refillBytes + C := by
  obtain ⟨-, hm⟩ := rlreach_inv C hC r g h
  rw [hc] at hm
  obtain ⟨b, -, hinv, p1, p2, p3⟩ := hm
  have := hinv.bound
  rw [p1, p2, p3] at this
  have e : ((((g.Tc - g.t0) / relayPeriodMs : Nat) : Int) * (c.refillBytes : Int)) =
      ((((g.Tc - g.t0) / relayPeriodMs) * c.refillBytes : Nat) : Int) := by simp
  rw [e] at this
  omega

/-- The same bound against the configured *rate*: `1000·(bytes − burst − C) < bps·(t − t0)`,
i.e. bytes read < burst + bytes_per_second × elapsed seconds + one chunk. -/
theorem rl_prefix_bound_rate (C : Nat) (hC : C ≤ u32Max - 1) (r : RL) (g : Ghost) (h : RLReach C r g)
    (c : Cfg) (hc : g.cfg = some c) :
    1000 * g.tot < 1000 * (c.burstBytes + C) + c.bps * (g.Tc - g.t0) := by
  have hb := rl_prefix_bound C hC r g h c hc
  have h1 : (g.Tc - g.t0) / relayPeriodMs * relayPeriodMs ≤ g.Tc - g.t0 := Nat.div_mul_le_self _ _
  have h2 : c.refillBytes * 1000 ≤ c.bps * relayPeriodMs := by
    unfold Cfg.refillBytes; exact Nat.div_mul_le_self _ _
  have h3 : ((g.Tc - g.t0) / relayPeriodMs * c.refillBytes) * 1000 ≤ c.bps * (g.Tc - g.t0) := by
    calc ((g.Tc - g.t0) / relayPeriodMs * c.refillBytes) * 1000
        = (g.Tc - g.t0) / relayPeriodMs * (c.refillBytes * 1000) := by rw [Nat.mul_assoc]
      _ ≤ (g.Tc - g.t0) / relayPeriodMs * (c.bps * relayPeriodMs) := Nat.mul_le_mul_left _ h2
      _ = c.bps * ((g.Tc - g.t0) / relayPeriodMs * relayPeriodMs) := by
          rw [← Nat.mul_assoc, Nat.mul_comm _ c.bps, Nat.mul_assoc]
      _ ≤ c.bps * (g.Tc - g.t0) := Nat.mul_le_mul_left _ h1
  omega

/-- After a live reconfiguration took effect the count restarts: the ghost of the state right
after the installing poll has `t0 = now` and counts only that poll's bytes. -/
theorem reconfig_restarts_count (g : Ghost) (r : RL) (now : Nat) (c : Option Cfg) (bk : Option Bucket)
    (hp : r.pendingCfg = some c) (hv : fromConfig c now = some bk) (out : PollOut) :
    ((g.applyCfg r now).afterPoll now out).cfg = c ∧ ((g.applyCfg r now).afterPoll now out).t0 = now ∧
    ((g.applyCfg r now).afterPoll now out).tot = (match out with | .ready n => n | .pending => 0) := by
  unfold Ghost.applyCfg
  simp only [hp, hv]
  cases out <;> simp [Ghost.afterPoll]

/-! ## 6. Content: `poll_read` is transparent; EOF and errors pass through -/

/-- Inner tail / poll result for "end of stream" (`none`) or "error `c`" (`some c`). -/
def termTail : Option Nat → Tail
  | none => .eof
  | some c => .err c
def termOut : Option Nat → PollOutC
  | none => .eof
  | some c => .err c

/-- **What one `poll_read` does to the content.**
* bytes returned: exactly the first `min(ready, buf)` bytes of the inner reader, which keeps the
  rest (so `RateLimited` itself buffers nothing: it reads into the caller's buffer, hands
  everything over at once and only charges the bucket afterwards);
* `Pending` (throttled, or nothing ready): the inner reader is left exactly as it was —
  a throttled poll consumes nothing;
* end of stream / error: only when no bytes are left, the inner reader's own answer, unchanged. -/
theorem rl_poll_content (r r' : RLC) (now buf : Nat) (out : PollOutC)
    (h : r.poll now buf = some (r', out)) :
    match out with
    | .ready bs => r.inner.data ≠ [] ∧ bs = r.inner.data.take (min r.inner.data.length buf) ∧
        r'.inner = ⟨r.inner.data.drop (min r.inner.data.length buf), r.inner.tail⟩
    | .pending => r'.inner = r.inner
    | .eof => r.inner.data = [] ∧ r.inner.tail = .eof ∧ r'.inner = r.inner
    | .err c => r.inner.data = [] ∧ r.inner.tail = .err c ∧ r'.inner = r.inner := by
  have hterm : ∀ code, r.inner.data = [] → r.inner.tail = termTail code →
      r.pollTerminal now code = some (r', out) →
      (out = .pending ∨ out = termOut code) ∧ r'.inner = r.inner := by
    intro code _ _ ht
    unfold RLC.pollTerminal at ht
    cases hb : (r.rl.applyCfg now).bucket with
    | none =>
      simp only [hb, Option.some.injEq, Prod.mk.injEq] at ht
      obtain ⟨rfl, rfl⟩ := ht
      exact ⟨Or.inr (by cases code <;> rfl), rfl⟩
    | some b =>
      simp only [hb] at ht
      by_cases hbl : Reader.blocked (r.rl.applyCfg now).sleepUntil now = true
      · simp only [hbl, if_true, Option.some.injEq, Prod.mk.injEq] at ht
        obtain ⟨rfl, rfl⟩ := ht
        exact ⟨Or.inl rfl, rfl⟩
      · simp only [hbl, Bool.false_eq_true, if_false] at ht
        cases code with
        | some c =>
          simp only [Option.some.injEq, Prod.mk.injEq] at ht
          obtain ⟨rfl, rfl⟩ := ht
          exact ⟨Or.inr rfl, rfl⟩
        | none =>
          dsimp only at ht
          cases hc : b.consume 0 now with
          | none => simp [hc] at ht
          | some pr =>
            obtain ⟨b', res⟩ := pr
            cases res with
            | none =>
              simp only [hc, Option.some.injEq, Prod.mk.injEq] at ht
              obtain ⟨rfl, rfl⟩ := ht
              exact ⟨Or.inr rfl, rfl⟩
            | some d =>
              simp only [hc, Option.some.injEq, Prod.mk.injEq] at ht
              obtain ⟨rfl, rfl⟩ := ht
              exact ⟨Or.inr rfl, rfl⟩
  unfold RLC.poll at h
  split at h
  · rename_i hd htl
    obtain ⟨ho, hi⟩ := hterm none hd htl h
    rcases ho with rfl | rfl
    · exact hi
    · exact ⟨hd, htl, hi⟩
  · rename_i c hd htl
    obtain ⟨ho, hi⟩ := hterm (some c) hd htl h
    rcases ho with rfl | rfl
    · exact hi
    · exact ⟨hd, htl, hi⟩
  · cases hp : ({ r.rl with avail := r.inner.data.length } : RL).poll now buf with
    | none => simp [hp] at h
    | some pr =>
      obtain ⟨rl', o⟩ := pr
      have hcnt := rl_poll_count _ _ now buf o hp
      cases o with
      | pending =>
        simp only [hp, Option.some.injEq, Prod.mk.injEq] at h
        obtain ⟨rfl, rfl⟩ := h
        rfl
      | ready n =>
        simp only [hp, Option.some.injEq, Prod.mk.injEq] at h
        obtain ⟨rfl, rfl⟩ := h
        obtain ⟨hne, hn⟩ := hcnt.1 n rfl
        dsimp only at hne hn
        subst hn
        refine ⟨?_, rfl, rfl⟩
        intro hnil; rw [hnil] at hne; exact hne rfl

/-- Events of a content-level history. -/
inductive EvC where
  /-- more bytes arrive at the inner reader -/
  | data (bytes : List UInt8)
  /-- the inner reader will answer EOF / an error once its bytes are used up (or `open` again) -/
  | close (t : Tail)
  /-- live reconfiguration through the watch channel -/
  | send (c : Option Cfg)
  /-- `poll_read` at time `now` with `buf` bytes of room -/
  | poll (now buf : Nat)

/-- One event; returns the bytes handed to the caller by it.  `none` = panic. -/
def RLC.step (r : RLC) : EvC → Option (RLC × List UInt8)
  | .data bs => some ({ r with inner := { r.inner with data := r.inner.data ++ bs } }, [])
  | .close t => some ({ r with inner := { r.inner with tail := t } }, [])
  | .send c => some ({ r with rl := { r.rl with pendingCfg := some c } }, [])
  | .poll now buf =>
    match r.poll now buf with
    | none => none
    | some (r', .ready bs) => some (r', bs)
    | some (r', _) => some (r', [])

/-- A whole history; returns everything handed to the caller, in order. -/
def RLC.run (r : RLC) : List EvC → Option (RLC × List UInt8)
  | [] => some (r, [])
  | e :: rest =>
    match r.step e with
    | none => none
    | some (r1, o1) =>
      match RLC.run r1 rest with
      | none => none
      | some (r2, o2) => some (r2, o1 ++ o2)

/-- All bytes that arrived at the inner reader during a history, in order. -/
def arrived : List EvC → List UInt8
  | [] => []
  | .data bs :: rest => bs ++ arrived rest
  | _ :: rest => arrived rest

/-- **Transparency.**  For every history of data arrivals, EOF/error marks, live
reconfigurations and polls at arbitrary times with arbitrary buffer sizes:
`handed over ++ still unread in the inner reader = the inner reader's byte stream`.
So the caller receives exactly a prefix of the inner stream, in order — nothing dropped,
duplicated, reordered or held back inside `RateLimited`. -/
theorem rl_transparent (r r' : RLC) (evs : List EvC) (out : List UInt8)
    (h : r.run evs = some (r', out)) :
    out ++ r'.inner.data = r.inner.data ++ arrived evs := by
  induction evs generalizing r out with
  | nil =>
    simp only [RLC.run, Option.some.injEq, Prod.mk.injEq] at h
    obtain ⟨rfl, rfl⟩ := h
    simp [arrived]
  | cons e rest ih =>
    simp only [RLC.run] at h
    cases hs : r.step e with
    | none => simp [hs] at h
    | some pr =>
      obtain ⟨r1, o1⟩ := pr
      simp only [hs] at h
      cases hr : r1.run rest with
      | none => simp [hr] at h
      | some pr2 =>
        obtain ⟨r2, o2⟩ := pr2
        simp only [hr, Option.some.injEq, Prod.mk.injEq] at h
        obtain ⟨rfl, rfl⟩ := h
        have ih' := ih r1 o2 hr
        rw [List.append_assoc, ih']
        cases e with
        | data bs =>
          simp only [RLC.step, Option.some.injEq, Prod.mk.injEq] at hs
          obtain ⟨rfl, rfl⟩ := hs
          simp [arrived]
        | close t =>
          simp only [RLC.step, Option.some.injEq, Prod.mk.injEq] at hs
          obtain ⟨rfl, rfl⟩ := hs
          simp [arrived]
        | send c =>
          simp only [RLC.step, Option.some.injEq, Prod.mk.injEq] at hs
          obtain ⟨rfl, rfl⟩ := hs
          simp [arrived]
        | poll now buf =>
          simp only [RLC.step] at hs
          cases hp : r.poll now buf with
          | none => simp [hp] at hs
          | some pr3 =>
            obtain ⟨r3, o⟩ := pr3
            have hc := rl_poll_content r r3 now buf o hp
            cases o with
            | ready bs =>
              simp only [hp, Option.some.injEq, Prod.mk.injEq] at hs
              obtain ⟨rfl, rfl⟩ := hs
              obtain ⟨-, hbs, hin⟩ := hc
              rw [hin, hbs]
              simp only [arrived]
              rw [← List.append_assoc, List.take_append_drop]
            | pending =>
              simp only [hp, Option.some.injEq, Prod.mk.injEq] at hs
              obtain ⟨rfl, rfl⟩ := hs
              dsimp only at hc; rw [hc]; simp [arrived]
            | eof =>
              simp only [hp, Option.some.injEq, Prod.mk.injEq] at hs
              obtain ⟨rfl, rfl⟩ := hs
              rw [hc.2.2]; simp [arrived]
            | err c =>
              simp only [hp, Option.some.injEq, Prod.mk.injEq] at hs
              obtain ⟨rfl, rfl⟩ := hs
              rw [hc.2.2]; simp [arrived]

/-- `poll_read` never panics at content level either (any inner state, EOF and errors included). -/
theorem rlc_poll_total (r : RLC) (now buf : Nat) (hw : RLWF r.rl)
    (hc : ∀ c, r.rl.pendingCfg = some (some c) → CfgOK c) :
    ∃ r' out, r.poll now buf = some (r', out) ∧ RLWF r'.rl ∧ r'.rl.pendingCfg = none := by
  have hw1 := applyCfg_wf r.rl now hw hc
  have hpc : (r.rl.applyCfg now).pendingCfg = none := by
    unfold RL.applyCfg
    cases hp : r.rl.pendingCfg with
    | none => simp [hp]
    | some cfg => dsimp only; cases fromConfig cfg now <;> rfl
  have hterm : ∀ code, ∃ r' out, r.pollTerminal now code = some (r', out) ∧ RLWF r'.rl ∧
      r'.rl.pendingCfg = none := by
    intro code
    unfold RLC.pollTerminal
    cases hb : (r.rl.applyCfg now).bucket with
    | none => simp only [hb]; exact ⟨_, _, rfl, hw1, hpc⟩
    | some b =>
      simp only [hb]
      by_cases hbl : Reader.blocked (r.rl.applyCfg now).sleepUntil now = true
      · simp only [hbl, if_true]; exact ⟨_, _, rfl, hw1, hpc⟩
      · simp only [hbl, Bool.false_eq_true, if_false]
        cases code with
        | some c => exact ⟨_, _, rfl, fun b' hb' => hw1 b' (by rw [hb]; exact hb'), hpc⟩
        | none =>
          obtain ⟨b', res, hcons, hwb⟩ := consume_total b 0 now (hw1 b hb)
          simp only [hcons]
          cases res with
          | none => exact ⟨_, _, rfl, fun b'' hb'' => by cases hb''; exact hwb, hpc⟩
          | some d => exact ⟨_, _, rfl, fun b'' hb'' => by cases hb''; exact hwb, hpc⟩
  unfold RLC.poll
  split
  · exact hterm none
  · exact hterm _
  · obtain ⟨rl', o, hp, hw', hpc'⟩ := poll_total ({ r.rl with avail := r.inner.data.length }) now buf
      (fun b hb => hw b hb) hc
    rw [hp]
    cases o with
    | ready n => exact ⟨_, _, rfl, hw', hpc'⟩
    | pending => exact ⟨_, _, rfl, hw', hpc'⟩

/-- The instant at which the reader may poll the inner reader again. -/
def nextDue (r : RLC) (now : Nat) : Nat :=
  match r.rl.sleepUntil with
  | some d => max now d
  | none => now

/-- Poll whenever the current throttle deadline has passed, until the inner reader's ready
bytes are used up (at most `fuel` polls).  Returns final state, clock and the bytes handed over. -/
def RLC.drain (r : RLC) (now buf : Nat) : Nat → Option (RLC × Nat × List UInt8)
  | 0 => some (r, now, [])
  | fuel + 1 =>
    if r.inner.data = [] then some (r, now, []) else
    match r.poll (nextDue r now) buf with
    | some (r', .ready bs) =>
      match RLC.drain r' (nextDue r now) buf fuel with
      | some (r'', t, out) => some (r'', t, bs ++ out)
      | none => none
    | _ => none

/-- **Every inner byte is eventually handed over.**  A caller that polls (with a non-empty
buffer) each time the throttle deadline has passed — a finite instant by
`deadline_future_and_finite` — receives *all* bytes of the inner reader, in order, within as many
polls as there are bytes; no poll of that schedule is refused (`poll_reads_when_due`). -/
theorem rl_transparent_eventually (fuel : Nat) (r : RLC) (now buf : Nat) (hw : RLWF r.rl)
    (hpc : r.rl.pendingCfg = none) (hbuf : 0 < buf) (hf : r.inner.data.length ≤ fuel) :
    ∃ r' t, r.drain now buf fuel = some (r', t, r.inner.data) ∧ r'.inner.data = [] ∧
      r'.inner.tail = r.inner.tail ∧ now ≤ t := by
  induction fuel generalizing r now with
  | zero =>
    have : r.inner.data = [] := List.eq_nil_of_length_eq_zero (by omega)
    exact ⟨r, now, by simp [RLC.drain, this], this, rfl, Nat.le_refl _⟩
  | succ fuel ih =>
    unfold RLC.drain
    by_cases hd : r.inner.data = []
    · simp only [hd, if_true]; exact ⟨r, now, rfl, hd, rfl, Nat.le_refl _⟩
    · simp only [hd, if_false]
      have hlen : 0 < r.inner.data.length := List.length_pos_iff.2 hd
      have hge : now ≤ nextDue r now := by
        unfold nextDue; cases r.rl.sleepUntil <;> simp <;> omega
      -- the count-level poll at the due time returns min(len, buf) bytes
      have hcfg : ∀ c, ({ r.rl with avail := r.inner.data.length } : RL).pendingCfg = some (some c) → CfgOK c := by
        intro c hc; dsimp only at hc; rw [hpc] at hc; cases hc
      have hdue : ∀ d, (({ r.rl with avail := r.inner.data.length } : RL).applyCfg (nextDue r now)).sleepUntil = some d →
          (({ r.rl with avail := r.inner.data.length } : RL).applyCfg (nextDue r now)).bucket ≠ none →
          d ≤ nextDue r now := by
        intro d hs _
        rw [applyCfg_of_no_pending _ _ (by exact hpc)] at hs
        dsimp only at hs
        unfold nextDue; rw [hs]; exact Nat.le_max_right _ _
      obtain ⟨rl', hp⟩ := poll_reads_when_due ({ r.rl with avail := r.inner.data.length }) (nextDue r now) buf
        (fun b hb => hw b hb) hcfg hlen hdue
      obtain ⟨rl'', o, hp', hw', hpc'⟩ := poll_total ({ r.rl with avail := r.inner.data.length }) (nextDue r now) buf
        (fun b hb => hw b hb) hcfg
      rw [hp] at hp'
      simp only [Option.some.injEq, Prod.mk.injEq] at hp'
      obtain ⟨rfl, -⟩ := hp'
      dsimp only at hp
      -- content-level poll
      have hpoll : r.poll (nextDue r now) buf =
          some (⟨rl', ⟨r.inner.data.drop (min r.inner.data.length buf), r.inner.tail⟩⟩,
            .ready (r.inner.data.take (min r.inner.data.length buf))) := by
        unfold RLC.poll
        cases hdata : r.inner.data with
        | nil => exact absurd hdata hd
        | cons x xs =>
          rw [hdata] at hp
          simp only [hp]
      rw [hpoll]
      dsimp only
      have hmin : 1 ≤ min r.inner.data.length buf := by omega
      obtain ⟨r'', t, hdr, hnil, htl, ht⟩ := ih
        ⟨rl', ⟨r.inner.data.drop (min r.inner.data.length buf), r.inner.tail⟩⟩ (nextDue r now) hw' hpc'
        (by simp only [List.length_drop]; omega)
      rw [hdr]
      dsimp only
      exact ⟨r'', t, by rw [List.take_append_drop], hnil, htl, by omega⟩

/-- **EOF and inner errors pass through unchanged and are not delayed beyond the throttle
deadline.**  With no bytes left and the inner reader at EOF (`code = none`) or failing with
error `c` (`code = some c`):
(a) if no limit is in effect, or no refill wait is pending at `now`, the poll returns exactly
    that EOF / that error, at once;
(b) otherwise the poll is `Pending` on the refill wait, without touching the inner reader; and
(c) any poll at or after that wait's deadline `d` returns the EOF / error. -/
theorem rl_eof_and_errors_pass_through (r : RLC) (now buf : Nat) (code : Option Nat) (hw : RLWF r.rl)
    (hc : ∀ c, r.rl.pendingCfg = some (some c) → CfgOK c)
    (hd : r.inner.data = []) (ht : r.inner.tail = termTail code) :
    ((r.rl.applyCfg now).bucket = none ∨ Reader.blocked (r.rl.applyCfg now).sleepUntil now = false →
      ∃ r', r.poll now buf = some (r', termOut code) ∧ r'.inner = r.inner) ∧
    ((r.rl.applyCfg now).bucket ≠ none → Reader.blocked (r.rl.applyCfg now).sleepUntil now = true →
      r.poll now buf = some (⟨r.rl.applyCfg now, r.inner⟩, .pending) ∧
      ∀ d, (r.rl.applyCfg now).sleepUntil = some d → ∀ now', d ≤ now' →
        ∃ r'', (⟨r.rl.applyCfg now, r.inner⟩ : RLC).poll now' buf = some (r'', termOut code) ∧
          r''.inner = r.inner) := by
  have hw1 := applyCfg_wf r.rl now hw hc
  have hpc : (r.rl.applyCfg now).pendingCfg = none := by
    unfold RL.applyCfg
    cases hp : r.rl.pendingCfg with
    | none => simp [hp]
    | some cfg => dsimp only; cases fromConfig cfg now <;> rfl
  -- the poll is the terminal branch
  have hbranch : ∀ (q : RLC) (t : Nat), q.inner.data = [] → q.inner.tail = termTail code →
      q.poll t buf = q.pollTerminal t code := by
    intro q t hqd hqt
    unfold RLC.poll
    rw [hqd, hqt]
    cases code <;> rfl
  -- the terminal branch when not blocked
  have hgo : ∀ (q : RLC) (t : Nat), RLWF (q.rl.applyCfg t) →
      ((q.rl.applyCfg t).bucket = none ∨ Reader.blocked (q.rl.applyCfg t).sleepUntil t = false) →
      ∃ r', q.pollTerminal t code = some (r', termOut code) ∧ r'.inner = q.inner := by
    intro q t hq hnb
    unfold RLC.pollTerminal
    cases hb : (q.rl.applyCfg t).bucket with
    | none => simp only [hb]; exact ⟨⟨q.rl.applyCfg t, q.inner⟩, by cases code <;> rfl, rfl⟩
    | some b =>
      have hbl : Reader.blocked (q.rl.applyCfg t).sleepUntil t = false := by
        rcases hnb with h | h
        · rw [hb] at h; cases h
        · exact h
      simp only [hb, hbl, Bool.false_eq_true, if_false]
      cases code with
      | some c => exact ⟨_, rfl, rfl⟩
      | none =>
        obtain ⟨b', res, hcons, -⟩ := consume_total b 0 t (hq b hb)
        simp only [hcons]
        cases res <;> exact ⟨_, rfl, rfl⟩
  refine ⟨?_, ?_⟩
  · intro hnb
    rw [hbranch r now hd ht]
    exact hgo r now hw1 hnb
  · intro hbk hbl
    refine ⟨?_, ?_⟩
    · rw [hbranch r now hd ht]
      unfold RLC.pollTerminal
      cases hb : (r.rl.applyCfg now).bucket with
      | none => exact absurd hb hbk
      | some b => simp only [hb, hbl, if_true]
    · intro d hs now' hle
      have hid : (r.rl.applyCfg now).applyCfg now' = r.rl.applyCfg now := applyCfg_of_no_pending _ _ hpc
      rw [hbranch ⟨r.rl.applyCfg now, r.inner⟩ now' hd ht]
      apply hgo ⟨r.rl.applyCfg now, r.inner⟩ now'
      · dsimp only; rw [hid]; exact hw1
      · right
        dsimp only; rw [hid]
        unfold Reader.blocked; rw [hs]; simp; omega

/-! ## 7. The service: every connection works with the latest limit -/

/-- Operations on the service, in any interleaving. -/
inductive SvcOp where
  | set (c : Option Cfg)
  | connect (id now : Nat)
  | disconnect (id : Nat)

def Service.step (s : Service) : SvcOp → Service
  | .set c => s.set c
  | .connect id now => (s.connect id now).getD s     -- a refused connection changes nothing
  | .disconnect id => s.disconnect id

def Service.run (s : Service) : List SvcOp → Service
  | [] => s
  | op :: rest => Service.run (s.step op) rest

/-- The limit most recently passed to `set_client_rate_limit` (or the initial one). -/
def lastSet (c0 : Option Cfg) : List SvcOp → Option Cfg
  | [] => c0
  | .set c :: rest => lastSet c rest
  | _ :: rest => lastSet c0 rest

/-- The cell always holds the latest limit — whether or not any client was connected when it
was set. -/
theorem stored_is_latest (s : Service) (ops : List SvcOp) :
    (s.run ops).stored = lastSet s.stored ops := by
  induction ops generalizing s with
  | nil => rfl
  | cons op rest ih =>
    simp only [Service.run]
    rw [ih]
    cases op with
    | set c => rfl
    | connect id now =>
      simp only [Service.step, lastSet]
      unfold Service.connect
      cases RL.fromWatcher s.stored now <;> rfl
    | disconnect id => rfl

/-- **A new connection gets the latest limit.**  After any interleaving of `set` / `connect` /
`disconnect` (in particular a `set` while no client is connected), a connection accepted at
`now` is refused iff the latest limit is invalid, and otherwise its limiter is exactly
`RateLimited::from_watcher` of the latest limit: no limit if that is `None`, else a full
bucket with that limit's burst and refill, created at `now`, nothing pending. -/
theorem new_connection_gets_latest_limit (c0 : Option Cfg) (ops : List SvcOp) (id now : Nat)
    (hok : ∀ c, lastSet c0 ops = some c → CfgOK c) :
    match ((Service.new c0).run ops).connect id now with
    | none => fromConfig (lastSet c0 ops) now = none
    | some s' => ∃ r, s'.conns.find? (fun c => c.1 == id) = some (id, r) ∧
        RL.fromWatcher (lastSet c0 ops) now = some r ∧ r.pendingCfg = none ∧ r.sleepUntil = none ∧
        (lastSet c0 ops = none → r.bucket = none) ∧
        (∀ c, lastSet c0 ops = some c → ∃ b, r.bucket = some b ∧ b.fill = b.max ∧ b.lastFill = now ∧
          b.max = c.burstBytes ∧ b.refill = c.refillBytes ∧ b.period = relayPeriodMs) := by
  have hst : ((Service.new c0).run ops).stored = lastSet c0 ops := stored_is_latest (Service.new c0) ops
  unfold Service.connect
  rw [hst]
  unfold RL.fromWatcher
  cases hf : fromConfig (lastSet c0 ops) now with
  | none => simp only
  | some bk =>
    simp only
    refine ⟨⟨bk, none, none, 0, 0⟩, by simp, rfl, rfl, rfl, ?_, ?_⟩
    · intro hn
      exact (fromConfig_spec _ hok now bk hf).1 hn
    · intro c hc
      obtain ⟨b, hb, -, f1, f2, f3, f4, f5⟩ := (fromConfig_spec _ hok now bk hf).2 c hc
      exact ⟨b, hb, f1, f2, f4, f5, f3⟩

/-- **A live update reaches every connected client**: after `set c` every live limiter has `c`
pending, so (`reconfig_resets`) its next poll installs it if valid and ignores it otherwise. -/
theorem live_update_reaches_every_connection (s : Service) (c : Option Cfg) (id : Nat) (r : RL)
    (h : (id, r) ∈ (s.set c).conns) : r.pendingCfg = some c := by
  unfold Service.set at h
  simp only [List.mem_map] at h
  obtain ⟨⟨id', r'⟩, -, he⟩ := h
  cases he
  rfl

/-! ## 5. Non-vacuity -/

-- the relay's default 100 ms bucket at 1000 B/s: burst 100, refill 100 per period
example : (Bucket.new 100 1000 100 0) = some ⟨100, 100, 0, 100, 100⟩ := by decide
-- throttling: 4096 bytes at once → Err(deadline 4000 ms); at 4000 ms reading is possible again
example : ((⟨100, 100, 0, 100, 100⟩ : Bucket).consume 4096 0) = some (⟨-3996, 100, 0, 100, 100⟩, some 4000) := by
  decide
example : ((⟨-3996, 100, 0, 100, 100⟩ : Bucket).consume 50 4000) = some (⟨-46, 100, 4000, 100, 100⟩, some 4100) := by
  decide
-- the D3 input: i64::MAX refill after 2000 idle periods saturates instead of overflowing
example : ((⟨i64Max, i64Max, 0, 100, 922337203685477580⟩ : Bucket).consume 1 200000).isSome = true := by decide
-- rejected configurations
example : Bucket.new 1000 1000 4294967297 0 = none := by decide
example : Bucket.new 1 9 100 0 = none := by decide
-- a reachable instrumented reader state with a limit in effect (hypotheses of the bound hold)
example : RLReach 4096 ⟨some ⟨100, 100, 0, 100, 100⟩, none, none, 0, 0⟩ ⟨some ⟨1000, none⟩, 0, 0, 0, 0⟩ :=
  RLReach.init (some ⟨1000, none⟩) 0 _ (by intro c hc; cases hc; exact ⟨by decide, by intro m hm; cases hm⟩)
    (by decide)
example : ReaderReach 4096 ⟨100, 100, 0, 100, 100⟩ 0 ⟨⟨-3996, 100, 0, 100, 100⟩, some 4000⟩ 4096 0 0 :=
  ReaderReach.read (C := 4096) (b0 := ⟨100, 100, 0, 100, 100⟩) 0 4096 _ (ReadOut.err 4000) ReaderReach.init
    (Nat.le_refl _) (Nat.le_refl _) (by decide) (by decide)

-- content level: a throttled reader hands over the inner bytes in order, then the EOF
example : (⟨⟨some ⟨100, 100, 0, 100, 100⟩, none, none, 0, 0⟩, ⟨[1, 2, 3, 4, 5], .eof⟩⟩ : RLC).run
    [.poll 0 3, .poll 0 3, .data [6], .poll 0 9, .poll 0 9] =
    some (⟨⟨some ⟨94, 100, 0, 100, 100⟩, none, none, 0, 0⟩, ⟨[], .eof⟩⟩, [1, 2, 3, 4, 5, 6]) := by decide
example : (⟨⟨some ⟨-46, 100, 0, 100, 100⟩, some 100, none, 1, 0⟩, ⟨[], .err 2⟩⟩ : RLC).poll 50 8 =
    some (⟨⟨some ⟨-46, 100, 0, 100, 100⟩, some 100, none, 1, 0⟩, ⟨[], .err 2⟩⟩, .pending) := by decide
example : ((⟨⟨some ⟨-46, 100, 0, 100, 100⟩, some 100, none, 1, 0⟩, ⟨[], .err 2⟩⟩ : RLC).poll 100 8).map (·.2) =
    some (.err 2) := by decide

-- the seeded scenario: limit set while nobody is connected, then a client connects
example : (((Service.new none).run [.set (some ⟨1000, none⟩)]).connect 7 50).map (·.conns) =
    some [(7, ⟨some ⟨100, 100, 50, 100, 100⟩, none, none, 0, 0⟩)] := by decide
example : lastSet none [.connect 1 0, .disconnect 1, .set (some ⟨1000, none⟩), .connect 2 9] = some ⟨1000, none⟩ := rfl

end IrohModel.C09
