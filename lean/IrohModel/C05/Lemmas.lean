/-
C05 — helper lemmas: the queue invariant at the initial state, absence of forwarder
failures along every history, and what `trySendMsg` / `unregister` can touch.
-/
import IrohModel.C05.Model
import IrohModel.Common.RelayRegistryLemmas

namespace IrohModel.C05
open IrohModel.RelayRegistry

variable {α : Type}

theorem qInv_run (cfg : Cfg α) (ops : List (Op α)) : QInv cfg (run cfg ops) :=
  QInv.runFrom cfg ops (QInv.init cfg)

/-- No actor has failed on the forwarder's size check so far. -/
def NoFail (s : State α) : Prop := ∀ c, Event.fail c ∉ s.log

theorem NoFail.step (cfg : Cfg α) {s : State α} (hq : QInv cfg s) (h : NoFail s) (op : Op α) :
    NoFail (step cfg s op) := by
  intro c hmem
  obtain ⟨evs, hl, hk⟩ := step_kinds cfg s op
  rw [hl] at hmem
  rcases List.mem_append.mp hmem with hmem | hmem
  · exact h c hmem
  · have hkind := hk _ hmem
    cases op with
    | deliverPacket c' =>
      -- the only operation that can log `fail`: excluded by the queue invariant
      simp only [RelayRegistry.step, RelayRegistry.deliverPacket] at hl
      cases hx : s.conns c' with
      | none =>
        simp only [hx] at hl
        have : evs = [] := by simpa using hl
        subst this; simp at hmem
      | some x =>
        simp only [hx] at hl
        by_cases hex : x.exited = true
        · simp only [hex, if_true] at hl
          have : evs = [] := by simpa using hl
          subst this; simp at hmem
        · simp only [hex] at hl
          cases hpq : x.packetQ with
          | nil =>
            simp only [hpq] at hl
            have : evs = [] := by simpa using hl
            subst this; simp at hmem
          | cons p rest =>
            obtain ⟨src, d⟩ := p
            have hs : sendable cfg d = true := hq c' x hx (src, d) (by rw [hpq]; exact List.mem_cons_self)
            simp only [hpq, hs, if_true] at hl
            have := (List.append_cancel_left hl).symm
            subst this; simp at hmem
    | register _ _ => simp [opKinds, kind] at hkind
    | unregister _ => simp [opKinds, kind] at hkind
    | notifyGone => simp [opKinds, kind] at hkind
    | disconnect _ _ => simp [opKinds, kind] at hkind
    | recvFrame _ _ => simp [opKinds, kind] at hkind
    | deliverMsg _ => simp [opKinds, kind] at hkind
    | actorExit _ => simp [opKinds, kind] at hkind
    | shutdown => simp [opKinds, kind] at hkind

theorem noFail_runFrom (cfg : Cfg α) (ops : List (Op α)) {s : State α} (hq : QInv cfg s) (h : NoFail s) :
    NoFail (runFrom cfg s ops) := by
  induction ops generalizing s with
  | nil => exact h
  | cons op ops ih => exact ih (hq.step cfg op) (h.step cfg hq op)

/-! ### The timed layer -/

/-- A timed step is one or two untimed steps. -/
theorem tstep_eq_steps (cfg : Cfg α) (T : Nat) (s : State α) (top : TOp α) :
    ∃ ops : List (Op α), tstep cfg T s top = runFrom cfg s ops := by
  cases top with
  | base op => exact ⟨[op], rfl⟩
  | writePacket c d =>
    by_cases h : d ≤ T
    · exact ⟨[.deliverPacket c], by simp [tstep, h, runFrom, RelayRegistry.step]⟩
    · exact ⟨[.deliverPacket c, .actorExit c], by simp [tstep, h, runFrom, RelayRegistry.step]⟩
  | writeMsg c d =>
    by_cases h : d ≤ T
    · exact ⟨[.deliverMsg c], by simp [tstep, h, runFrom, RelayRegistry.step]⟩
    · exact ⟨[.deliverMsg c, .actorExit c], by simp [tstep, h, runFrom, RelayRegistry.step]⟩

/-- Every timed history is an untimed history: all untimed theorems apply to timed runs. -/
theorem trunFrom_eq_runFrom (cfg : Cfg α) (T : Nat) (tops : List (TOp α)) (s : State α) :
    ∃ ops : List (Op α), trunFrom cfg T s tops = runFrom cfg s ops := by
  induction tops generalizing s with
  | nil => exact ⟨[], rfl⟩
  | cons top tops ih =>
    obtain ⟨o1, h1⟩ := tstep_eq_steps cfg T s top
    obtain ⟨o2, h2⟩ := ih (tstep cfg T s top)
    refine ⟨o1 ++ o2, ?_⟩
    rw [runFrom_append, ← h1]
    exact h2

theorem qInv_trun (cfg : Cfg α) (T : Nat) (tops : List (TOp α)) : QInv cfg (trun cfg T tops) := by
  obtain ⟨ops, h⟩ := trunFrom_eq_runFrom cfg T tops RelayRegistry.init
  unfold trun
  rw [h]
  exact qInv_run cfg ops

/-- A delivery step of `c'` leaves every other record alone. -/
theorem deliverPacket_other (cfg : Cfg α) (s : State α) (c' c : Cid) (h : c ≠ c') :
    (deliverPacket cfg s c').conns c = s.conns c := by
  unfold RelayRegistry.deliverPacket
  repeat' split
  all_goals first | rfl | simp [h]

theorem deliverMsg_other (s : State α) (c' c : Cid) (h : c ≠ c') : (deliverMsg s c').conns c = s.conns c := by
  unfold RelayRegistry.deliverMsg
  repeat' split
  all_goals first | rfl | simp [h]

theorem actorExit_other (s : State α) (c' c : Cid) (h : c ≠ c') : (actorExit s c').conns c = s.conns c := by
  unfold RelayRegistry.actorExit
  split
  · rfl
  · simp [h]

end IrohModel.C05
