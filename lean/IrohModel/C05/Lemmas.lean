/-
C05 — helper lemmas: the queue invariant at the initial state, absence of forwarder
failures along every history, and what `trySendMsg` / `unregister` can touch.
-/
import IrohModel.C05.Model
import IrohModel.Common.RelayRegistryLemmas

namespace IrohModel.C05
open IrohModel.RelayRegistry

variable {α : Type}

theorem qInv_run (cfg : Cfg α) (ops : List (Op α)) : QInv cfg (run cfg ops) :=
  QInv.runFrom cfg ops (QInv.init cfg)

/-- No actor has failed on the forwarder's size check so far. -/
def NoFail (s : State α) : Prop := ∀ c, Event.fail c ∉ s.log

theorem NoFail.step (cfg : Cfg α) {s : State α} (hq : QInv cfg s) (h : NoFail s) (op : Op α) :
    NoFail (step cfg s op) := by
  intro c hmem
  obtain ⟨evs, hl, hk⟩ := step_kinds cfg s op
  rw [hl] at hmem
  rcases List.mem_append.mp hmem with hmem | hmem
  · exact h c hmem
  · have hkind := hk _ hmem
    cases op with
    | deliverPacket c' =>
      -- the only operation that can log `fail`: excluded by the queue invariant
      simp only [RelayRegistry.step, RelayRegistry.deliverPacket] at hl
      cases hx : s.conns c' with
      | none =>
        simp only [hx] at hl
        have : evs = [] := by simpa using hl
        subst this; simp at hmem
      | some x =>
        simp only [hx] at hl
        by_cases hex : x.exited = true
        · simp only [hex, if_true] at hl
          have : evs = [] := by simpa using hl
          subst this; simp at hmem
        · simp only [hex] at hl
          cases hpq : x.packetQ with
          | nil =>
            simp only [hpq] at hl
            have : evs = [] := by simpa using hl
            subst this; simp at hmem
          | cons p rest =>
            obtain ⟨src, d⟩ := p
            have hs : sendable cfg d = true := hq c' x hx (src, d) (by rw [hpq]; exact List.mem_cons_self)
            simp only [hpq, hs, if_true] at hl
            have := (List.append_cancel_left hl).symm
            subst this; simp at hmem
    | register _ _ => simp [opKinds, kind] at hkind
    | unregister _ => simp [opKinds, kind] at hkind
    | notifyGone => simp [opKinds, kind] at hkind
    | disconnect _ _ => simp [opKinds, kind] at hkind
    | recvFrame _ _ => simp [opKinds, kind] at hkind
    | deliverMsg _ => simp [opKinds, kind] at hkind
    | actorExit _ => simp [opKinds, kind] at hkind
    | shutdown => simp [opKinds, kind] at hkind

theorem noFail_runFrom (cfg : Cfg α) (ops : List (Op α)) {s : State α} (hq : QInv cfg s) (h : NoFail s) :
    NoFail (runFrom cfg s ops) := by
  induction ops generalizing s with
  | nil => exact h
  | cons op ops ih => exact ih (hq.step cfg op) (h.step cfg hq op)

end IrohModel.C05
