/-
C05 — no client can get another client disconnected from the relay.

Model = the shared `Common/RelayRegistry` (which contains the forwarder's size check
`sendable` = `server::streams::ensure_sendable`, used by `RelayedStream::start_send` AND,
since the `fix:` commit, by `Clients::send_packet` before it queues a packet) plus a
model of what the server-side decoder `ClientToRelayMsg::from_bytes` accepts, on frames
described structurally (`RawFrame`): frame type tag, an optional 32-byte key field, some
explicit bytes and an opaque tail of known length.
-/
import IrohModel.Generated.C05
import IrohModel.Common.Hex
import IrohModel.Common.RelayRegistry
import IrohModel.Common.RelaySched

namespace IrohModel.C05
open IrohModel.RelayRegistry IrohModel.RelaySched

/-- Configuration of the real relay; `cap = 0` = `Config::new`'s default depth. -/
def cfgOf {α : Type} (plen : α → Nat) (cap : Nat) : Cfg α :=
  { cap := if cap = 0 then Generated.C05.defaultCap else cap,
    maxPacket := Generated.C05.maxPacket,
    typeLen := Generated.C05.typeLen, keyLen := Generated.C05.keyLen,
    ecnLen := Generated.C05.ecnLen, segLen := Generated.C05.segLen,
    plen := plen }

def driverCfg (cap : Nat) : Cfg Tok := cfgOf (fun t => t.len) cap

/-- The 32 bytes that follow the frame type, when the harness put a key there. -/
inductive KeyField where
  /-- no key field: the body consists of `hdr ++ bulk` only -/
  | none
  /-- the public key of endpoint `n` (a valid ed25519 point) -/
  | id (n : Nat)
  /-- 32 bytes that are not a valid public key -/
  | invalid
deriving DecidableEq, Repr

/-- A client → relay frame as the harness builds it: `varint(tag) ++ key ++ hdr ++ bulk`. -/
structure RawFrame where
  /-- `none`: an empty websocket message (no frame type at all) -/
  typ : Option Nat
  key : KeyField
  hdr : List UInt8
  bulk : Tok
deriving Repr

/-- Number of bytes after the frame type (`frame_len` in `from_bytes`). -/
def RawFrame.bodyLen (f : RawFrame) : Nat :=
  (match f.key with
    | .none => 0
    | _ => Generated.C05.decKeyLen) + f.hdr.length + f.bulk.len

def beNat (bs : List UInt8) : Nat := bs.foldl (fun acc b => acc * 256 + b.toNat) 0

/-- `ClientToRelayMsg::from_bytes`: `none` = the decoder returns an error (the reading
connection's actor fails with `HandleFrameError::Recv`).
Generator contract (so that the structural description determines the outcome): for
datagram tags the key field is present unless the body is shorter than a key, and when the
tail is an opaque `p<len>.<seed>` token `hdr` covers the ECN byte and the segment size;
ping/pong bodies are given explicitly. -/
def decodeDatagramBody (batch : Bool) (f : RawFrame) : Option (C2R Tok) :=
  match f.key with
  | .none => none
  | .invalid => none
  | .id dst =>
    let fields := if batch then Generated.C05.batchMin else Generated.C05.singleMin
    if f.hdr.length + f.bulk.len < fields then none
    else if f.hdr.length < fields then none
    else
      let explicit := f.hdr.drop fields
      -- the harness names contents by their token; explicit leading bytes are spelled out
      let contents : Tok :=
        { text := if f.bulk.len = 0 then hexOfBytes explicit
                  else if explicit.isEmpty then f.bulk.text
                  else s!"{hexOfBytes explicit}+{f.bulk.text}",
          len := explicit.length + f.bulk.len }
      some (.datagrams dst
        { ecn := (f.hdr.headD 0).toNat % 4,
          seg := if batch then beNat ((f.hdr.drop 1).take 2) else 0,
          contents := contents })

def decodeRaw (f : RawFrame) : Option (C2R Tok) :=
  match f.typ with
  | none => none
  | some tag =>
    if f.bodyLen > Generated.C05.maxPacket then none
    else if tag = Generated.C05.tagDatagram then decodeDatagramBody false f
    else if tag = Generated.C05.tagDatagramBatch then decodeDatagramBody true f
    else if tag = Generated.C05.tagPing then
      if f.bodyLen = Generated.C05.pingLen ∧ f.key = .none ∧ f.bulk.len = 0 then some (.ping (beNat f.hdr)) else none
    else if tag = Generated.C05.tagPong then
      if f.bodyLen = Generated.C05.pingLen ∧ f.key = .none ∧ f.bulk.len = 0 then some (.pong (beNat f.hdr)) else none
    else none

/-- The decoder's size bound on datagram contents, as a predicate on the decoded frame:
contents of a single-datagram frame are at most `MAX_PACKET_SIZE - 32 - 1` bytes, of a
batch frame at most `MAX_PACKET_SIZE - 32 - 3`. -/
def decoderLimit (batch : Bool) : Nat :=
  Generated.C05.maxPacket - Generated.C05.decKeyLen -
    (if batch then Generated.C05.batchMin else Generated.C05.singleMin)

-- ---------------------------------------------------------------------------------------------
-- driver side: parsing of the `raw` script operation

def parseTyp (s : String) : Option (Option Nat) :=
  if s = "-" then some none else
  match s.splitOn "w" with
  | [t] => t.toNat?.map some
  | [t, _] => t.toNat?.map some
  | _ => none

def parseKey (s : String) : Option KeyField :=
  if s = "n" then some .none else if s = "x" then some .invalid else s.toNat?.map .id

/-- `raw <c> <typ> <key> <hdrhex> <tok>` -/
def parseRaw (_cfg : Cfg Tok) (s : String) : Option (SOp Tok) :=
  match tokens s with
  | ["raw", c, typ, key, hdr, tok] => do
    let hdrBytes ← bytesOfHex hdr
    let bulk ← parseTok tok
    -- a tail given in hex is known byte for byte: it is part of the explicit bytes
    let f : RawFrame ←
      if tok.startsWith "p" then
        pure { typ := ← parseTyp typ, key := ← parseKey key, hdr := hdrBytes, bulk := bulk }
      else do
        let tail ← bytesOfHex tok
        pure { typ := ← parseTyp typ, key := ← parseKey key, hdr := hdrBytes ++ tail, bulk := { text := "-", len := 0 } }
    pure (.decoded (← c.toNat?) (decodeRaw f))
  | _ => none

-- ---------------------------------------------------------------------------------------------
-- the timed dimension: the actor's write timeout

/-- `Config::write_timeout` of `Config::new` (`SERVER_WRITE_TIMEOUT`), in ms. -/
def defaultWriteTimeoutMs : Nat := Generated.C05.writeTimeoutMs

/-- Timed operations.  `Actor::write_frame` is `timeout(write_timeout, stream.send(frame))`:
a PER-FRAME budget.  `writePacket c delay` / `writeMsg c delay`: the actor of `c` pops its
packet / message queue and hands the frame to its stream; the client accepts it `delay` ms
later.  The write completes iff `delay ≤ T`; otherwise the timer fires first, the actor
fails (`RunError::PacketSend` / `WriteFrame` with `Timeout`) and leaves its loop. -/
inductive TOp (α : Type) where
  | base (op : Op α)
  | writePacket (c : Cid) (delay : Nat)
  | writeMsg (c : Cid) (delay : Nat)

variable {α : Type}

def tstep (cfg : Cfg α) (T : Nat) (s : State α) : TOp α → State α
  | .base op => step cfg s op
  | .writePacket c delay =>
    if delay ≤ T then deliverPacket cfg s c else actorExit (deliverPacket cfg s c) c
  | .writeMsg c delay =>
    if delay ≤ T then deliverMsg s c else actorExit (deliverMsg s c) c

/-- State after a timed history. -/
def trunFrom (cfg : Cfg α) (T : Nat) (s : State α) (tops : List (TOp α)) : State α :=
  tops.foldl (tstep cfg T) s

def trun (cfg : Cfg α) (T : Nat) (tops : List (TOp α)) : State α := trunFrom cfg T RelayRegistry.init tops

end IrohModel.C05
