/-
C05 — no client can get another client disconnected from the relay.

Property statement: nothing a relay client sends — any frame the relay's decoder accepts,
addressed to any endpoint id — causes the relay to close, error or stop serving a
different client's connection.  Frames the relay cannot forward are dropped (or end the
sender's own connection), never the receiver's.

History (DESIGN §6 D1, replayed on the real code by the harness before the repair): the
decoder accepts datagram frames with empty contents and with contents of exactly the
decoder's limit (65503 bytes single, 65501 bytes batch); `RelayedStream::start_send`
rejects both; they used to be queued for the destination, whose actor then failed with
`RunError::PacketSend` (`forwarder_fails_on_unforwardable` below is that step).  Repaired
by `fix:` commit 6e26a54 (`Clients::send_packet` runs the forwarder's check before it
queues); the model is of the repaired code.

Theorems are over ARBITRARY operation histories `ops` / arbitrary states, arbitrary
configuration and payload type, and arbitrary decoded frames `f` — in particular over
every frame the decoder can produce.
-/
import IrohModel.C05.Lemmas

namespace IrohModel.C05
open IrohModel.RelayRegistry IrohModel.RelaySched

variable {α : Type}

/-- **Invariant.**  In every reachable state every packet waiting in any connection's
packet queue passes the forwarder's size check. -/
theorem queued_packets_forwardable (cfg : Cfg α) (ops : List (Op α)) (c : Cid) (x : Conn α)
    (hx : (run cfg ops).conns c = some x) : ∀ p ∈ x.packetQ, sendable cfg p.2 = true :=
  qInv_run cfg ops c x hx

/-- Hence a delivery never fails on the size check: in every reachable state, the actor of
a running connection that pops its packet queue writes the datagram out and keeps running. -/
theorem deliver_never_fails (cfg : Cfg α) (ops : List (Op α)) (c : Cid) (x : Conn α) (src : Id) (d : Dgram α)
    (rest : List (Id × Dgram α)) (hx : (run cfg ops).conns c = some x) (hex : x.exited = false)
    (hq : x.packetQ = (src, d) :: rest) :
    deliverPacket cfg (run cfg ops) c =
      emit (setConn (run cfg ops) c (some { x with packetQ := rest })) [.out c (.datagrams src d)] := by
  have hs : sendable cfg d = true :=
    queued_packets_forwardable cfg ops c x hx (src, d) (by rw [hq]; exact List.mem_cons_self)
  simp [RelayRegistry.deliverPacket, hx, hex, hq, hs]

/-- Trace form: along no history does any actor fail because its stream rejected a queued
packet (`RunError::PacketSend` from the size check never happens). -/
theorem no_forwarder_failure (cfg : Cfg α) (ops : List (Op α)) (c : Cid) :
    Event.fail c ∉ (run cfg ops).log :=
  noFail_runFrom cfg ops (QInv.init cfg) (fun _ h => by simp [RelayRegistry.init] at h) c

/-- **No cross kill, one step.**  Handling ANY decoded frame `f` read from connection `c`,
in ANY state: the registry entries do not change, and every other connection `c'` keeps its
record with the same owner, cancellation flag, running flag and message queue; its packet
queue is unchanged or got exactly one more packet, which passes the forwarder's check. -/
theorem no_cross_kill_step (cfg : Cfg α) (s : State α) (c : Cid) (f : C2R α) (c' : Cid) (y : Conn α)
    (hy : s.conns c' = some y) :
    (recvFrame cfg s c f).entries = s.entries ∧
    ∃ y', (recvFrame cfg s c f).conns c' = some y' ∧
      y'.owner = y.owner ∧ y'.cancelled = y.cancelled ∧ y'.exited = y.exited ∧ y'.msgQ = y.msgQ ∧
      (y'.packetQ = y.packetQ ∨
        ∃ src d, y'.packetQ = y.packetQ ++ [(src, d)] ∧ sendable cfg d = true) :=
  recvFrame_spares_others cfg s c f c' y hy

/-- **No cross kill, along histories.**  After any history, a frame handled for `c` leaves
every other connection alive and served, and the state after it again satisfies the queue
invariant — so no later delivery of any connection fails because of it. -/
theorem no_cross_kill (cfg : Cfg α) (ops : List (Op α)) (c : Cid) (f : C2R α) (c' : Cid) (y : Conn α)
    (hy : (run cfg ops).conns c' = some y) :
    (∃ y', (recvFrame cfg (run cfg ops) c f).conns c' = some y' ∧
        y'.cancelled = y.cancelled ∧ y'.exited = y.exited) ∧
    (recvFrame cfg (run cfg ops) c f).entries = (run cfg ops).entries ∧
    (∀ k z, (recvFrame cfg (run cfg ops) c f).conns k = some z → ∀ p ∈ z.packetQ, sendable cfg p.2 = true) ∧
    (∀ more : List (Op α), ∀ k,
      Event.fail k ∉ (runFrom cfg (recvFrame cfg (run cfg ops) c f) more).log) := by
  obtain ⟨he, y', hy', _, hc, hx, _, _⟩ := no_cross_kill_step cfg (run cfg ops) c f c' y hy
  have hq : QInv cfg (recvFrame cfg (run cfg ops) c f) := (qInv_run cfg ops).step cfg (.recvFrame c f)
  have hn : NoFail (recvFrame cfg (run cfg ops) c f) :=
    NoFail.step cfg (qInv_run cfg ops) (fun k => no_forwarder_failure cfg ops k) (.recvFrame c f)
  exact ⟨⟨y', hy', hc, hx⟩, he, hq, fun more k => noFail_runFrom cfg more hq hn k⟩

/-- Frames the relay cannot forward are dropped where they were received: nothing changes
but the log. -/
theorem unforwardable_is_dropped (cfg : Cfg α) (s : State α) (c : Cid) (x : Conn α) (dst : Id) (d : Dgram α)
    (hx : s.conns c = some x) (hex : x.exited = false) (hs : sendable cfg d = false) :
    recvFrame cfg s c (.datagrams dst d) = emit s [.dropped c dst .unforwardable] := by
  simp [RelayRegistry.recvFrame, hx, hex, sendPacket, hs]

/-- A frame the decoder rejects ends the connection it was read from — and only that one:
the actor's exit and its unregistration leave every other connection's record in place,
running, uncancelled, with its packet queue (only message queues may get a notice). -/
theorem sender_exit_spares_others (cfg : Cfg α) (s : State α) (c c' : Cid) (hne : c' ≠ c) (y : Conn α)
    (hy : s.conns c' = some y) :
    ∃ y', (unregister cfg (actorExit s c) c).conns c' = some y' ∧ SameButMsgQ y y' :=
  exit_unregister_spares_others cfg s c c' hne y hy

/-- What the forwarder does with an un-forwardable packet once it IS queued (the defect's
mechanism; unreachable since the repair by `queued_packets_forwardable`): the RECEIVING
connection's actor fails. -/
theorem forwarder_fails_on_unforwardable (cfg : Cfg α) (s : State α) (c : Cid) (x : Conn α) (src : Id)
    (d : Dgram α) (rest : List (Id × Dgram α)) (hx : s.conns c = some x) (hex : x.exited = false)
    (hq : x.packetQ = (src, d) :: rest) (hs : sendable cfg d = false) :
    (deliverPacket cfg s c).log = s.log ++ [.fail c] ∧
    ((deliverPacket cfg s c).conns c).map (·.exited) = some true := by
  simp [RelayRegistry.deliverPacket, hx, hex, hq, hs]

/-! ### The two size predicates (constants regenerated from the source) -/

/-- With the real constants, for contents of `n` bytes the forwarder's check reads:
not empty and `1 + 32 + 1 (+ 2 with a segment size) + n ≤ 65536`. -/
theorem sendable_iff (plen : α → Nat) (cap : Nat) (d : Dgram α) :
    sendable (cfgOf plen cap) d = true ↔
      plen d.contents ≠ 0 ∧ plen d.contents + (if d.seg = 0 then 34 else 36) ≤ 65536 := by
  unfold sendable
  rw [Bool.and_eq_true, decide_eq_true_iff, decide_eq_true_iff]
  simp only [encodedLen, cfgOf, Generated.C05.typeLen, Generated.C05.keyLen,
    Generated.C05.ecnLen, Generated.C05.segLen, Generated.C05.maxPacket]
  by_cases h : d.seg = 0
  · simp only [h, if_true]; omega
  · simp only [h, if_false]; omega

/-- The decoder's limits on datagram contents: 65503 bytes (single), 65501 bytes (batch). -/
theorem decoderLimit_values : decoderLimit false = 65503 ∧ decoderLimit true = 65501 := by decide

/-- Among the datagrams the decoder accepts (contents of at most `decoderLimit` bytes;
a single-datagram frame never has a segment size), exactly these cannot be forwarded:
empty contents; single frames with 65503 bytes; batch frames WITH a segment size and 65501
bytes.  (A batch frame with segment size 0 decodes to "no segment size" and fits.) -/
theorem accepted_but_unforwardable_iff (plen : α → Nat) (cap : Nat) (batch : Bool) (d : Dgram α)
    (hacc : plen d.contents ≤ decoderLimit batch) (hsingle : batch = false → d.seg = 0) :
    sendable (cfgOf plen cap) d = false ↔
      plen d.contents = 0 ∨ (batch = false ∧ plen d.contents = 65503) ∨
      (batch = true ∧ d.seg ≠ 0 ∧ plen d.contents = 65501) := by
  have hv := decoderLimit_values
  rw [← Bool.not_eq_true, sendable_iff]
  cases batch with
  | false =>
    have hseg := hsingle rfl
    rw [hv.1] at hacc
    simp only [hseg, if_true, true_and, Bool.false_eq_true, false_and, or_false]
    omega
  | true =>
    rw [hv.2] at hacc
    by_cases hseg : d.seg = 0
    · simp only [hseg, if_true, Bool.true_eq_false, false_and, false_or, true_and, ne_eq, not_true_eq_false, or_false]
      omega
    · simp only [hseg, if_false, Bool.true_eq_false, false_and, false_or, true_and, ne_eq, not_false_eq_true]
      omega

/-- The decoder model only produces datagrams within those limits, and single-datagram
frames without a segment size. -/
theorem decodeDatagramBody_bounds (batch : Bool) (f : RawFrame) (dst : Id) (d : Dgram Tok)
    (hlen : f.bodyLen ≤ Generated.C05.maxPacket)
    (h : decodeDatagramBody batch f = some (.datagrams dst d)) :
    d.contents.len ≤ decoderLimit batch ∧ (batch = false → d.seg = 0) := by
  unfold decodeDatagramBody at h
  cases hkey : f.key with
  | none => simp [hkey] at h
  | invalid => simp [hkey] at h
  | id dst' =>
    simp only [hkey] at h
    simp only [RawFrame.bodyLen, hkey] at hlen
    have hv := decoderLimit_values
    cases batch with
    | false =>
      simp only [Bool.false_eq_true, if_false] at h
      by_cases h1 : f.hdr.length + f.bulk.len < Generated.C05.singleMin
      · simp [h1] at h
      · by_cases h2 : f.hdr.length < Generated.C05.singleMin
        · simp [h1, h2] at h
        · simp only [h1, h2, if_false, Option.some.injEq, C2R.datagrams.injEq] at h
          obtain ⟨_, rfl⟩ := h
          rw [hv.1]
          simp only [Generated.C05.decKeyLen, Generated.C05.maxPacket, Generated.C05.singleMin, List.length_drop] at *
          exact ⟨by omega, fun _ => trivial⟩
    | true =>
      simp only [if_true] at h
      by_cases h1 : f.hdr.length + f.bulk.len < Generated.C05.batchMin
      · simp [h1] at h
      · by_cases h2 : f.hdr.length < Generated.C05.batchMin
        · simp [h1, h2] at h
        · simp only [h1, h2, if_false, Option.some.injEq, C2R.datagrams.injEq] at h
          obtain ⟨_, rfl⟩ := h
          rw [hv.2]
          simp only [Generated.C05.decKeyLen, Generated.C05.maxPacket, Generated.C05.batchMin, List.length_drop] at *
          exact ⟨by omega, fun hb => by cases hb⟩

theorem decoder_bounds (f : RawFrame) (dst : Id) (d : Dgram Tok) (h : decodeRaw f = some (.datagrams dst d)) :
    ∃ batch, d.contents.len ≤ decoderLimit batch ∧ (batch = false → d.seg = 0) := by
  unfold decodeRaw at h
  split at h
  · cases h
  · split at h
    · cases h
    · rename_i hlen
      have hlen' : f.bodyLen ≤ Generated.C05.maxPacket := Nat.le_of_not_lt hlen
      split at h
      · exact ⟨false, decodeDatagramBody_bounds false f dst d hlen' h⟩
      · split at h
        · exact ⟨true, decodeDatagramBody_bounds true f dst d hlen' h⟩
        · split at h
          · split at h <;> cases h
          · split at h
            · split at h <;> cases h
            · cases h

/-! ### Non-vacuity -/

def demoCfg : Cfg (List Nat) := cfgOf List.length 2

/-- The former attack: an empty datagram for endpoint 0, then a normal one. -/
def demoOps : List (Op (List Nat)) :=
  [.register 0 false, .register 1 false,
   .recvFrame 1 (.datagrams 0 ⟨0, 0, []⟩), .recvFrame 1 (.datagrams 0 ⟨0, 0, [5]⟩), .deliverPacket 0]

example : Event.dropped 1 0 .unforwardable ∈ (run demoCfg demoOps).log := by decide
example : Event.out 0 (.datagrams 1 ⟨0, 0, [5]⟩) ∈ (run demoCfg demoOps).log := by decide
example : ((run demoCfg demoOps).conns 0).map (·.exited) = some false := by decide
-- the decoder accepts the two boundary frames (and they are un-forwardable)
example : (decodeRaw { typ := some 4, key := .id 0, hdr := [2], bulk := ⟨"-", 0⟩ }).isSome = true := by decide
example : (decodeRaw { typ := some 4, key := .id 0, hdr := [2], bulk := ⟨"p65503.1", 65503⟩ }).isSome = true := by
  decide
example : (decodeRaw { typ := some 4, key := .id 0, hdr := [2], bulk := ⟨"p65504.1", 65504⟩ }).isSome = false := by
  decide
example : sendable (driverCfg 2) ⟨2, 0, ⟨"p65503.1", 65503⟩⟩ = false := by decide
example : sendable (driverCfg 2) ⟨2, 0, ⟨"p65502.1", 65502⟩⟩ = true := by decide
example : sendable (driverCfg 2) ⟨2, 9, ⟨"p65501.1", 65501⟩⟩ = false := by decide

end IrohModel.C05
