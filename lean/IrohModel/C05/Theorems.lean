/-
C05 — no client can get another client disconnected from the relay.

Property statement: nothing a relay client sends — any frame the relay's decoder accepts,
addressed to any endpoint id — causes the relay to close, error or stop serving a
different client's connection.  Frames the relay cannot forward are dropped (or end the
sender's own connection), never the receiver's.

History (DESIGN §6 D1, replayed on the real code by the harness before the repair): the
decoder accepts datagram frames with empty contents and with contents of exactly the
decoder's limit (65503 bytes single, 65501 bytes batch); `RelayedStream::start_send`
rejects both; they used to be queued for the destination, whose actor then failed with
`RunError::PacketSend` (`forwarder_fails_on_unforwardable` below is that step).  Repaired
by `fix:` commit 6e26a54 (`Clients::send_packet` runs the forwarder's check before it
queues); the model is of the repaired code.

Theorems are over ARBITRARY operation histories `ops` / arbitrary states, arbitrary
configuration and payload type, and arbitrary decoded frames `f` — in particular over
every frame the decoder can produce.
-/
import IrohModel.C05.Lemmas

namespace IrohModel.C05
open IrohModel.RelayRegistry IrohModel.RelaySched

variable {α : Type}

/-- **Invariant.**  In every reachable state every packet waiting in any connection's
packet queue passes the forwarder's size check. -/
theorem queued_packets_forwardable (cfg : Cfg α) (ops : List (Op α)) (c : Cid) (x : Conn α)
    (hx : (run cfg ops).conns c = some x) : ∀ p ∈ x.packetQ, sendable cfg p.2 = true :=
  qInv_run cfg ops c x hx

/-- Hence a delivery never fails on the size check: in every reachable state, the actor of
a running connection that pops its packet queue writes the datagram out and keeps running. -/
theorem deliver_never_fails (cfg : Cfg α) (ops : List (Op α)) (c : Cid) (x : Conn α) (src : Id) (d : Dgram α)
    (rest : List (Id × Dgram α)) (hx : (run cfg ops).conns c = some x) (hex : x.exited = false)
    (hq : x.packetQ = (src, d) :: rest) :
    deliverPacket cfg (run cfg ops) c =
      emit (setConn (run cfg ops) c (some { x with packetQ := rest })) [.out c (.datagrams src d)] := by
  have hs : sendable cfg d = true :=
    queued_packets_forwardable cfg ops c x hx (src, d) (by rw [hq]; exact List.mem_cons_self)
  simp [RelayRegistry.deliverPacket, hx, hex, hq, hs]

/-- Trace form: along no history does any actor fail because its stream rejected a queued
packet (`RunError::PacketSend` from the size check never happens). -/
theorem no_forwarder_failure (cfg : Cfg α) (ops : List (Op α)) (c : Cid) :
    Event.fail c ∉ (run cfg ops).log :=
  noFail_runFrom cfg ops (QInv.init cfg) (fun _ h => by simp [RelayRegistry.init] at h) c

/-- **No cross kill, one step.**  Handling ANY decoded frame `f` read from connection `c`,
in ANY state: the registry entries do not change, and every other connection `c'` keeps its
record with the same owner, cancellation flag, running flag and message queue; its packet
queue is unchanged or got exactly one more packet, which passes the forwarder's check. -/
theorem no_cross_kill_step (cfg : Cfg α) (s : State α) (c : Cid) (f : C2R α) (c' : Cid) (y : Conn α)
    (hy : s.conns c' = some y) :
    (recvFrame cfg s c f).entries = s.entries ∧
    ∃ y', (recvFrame cfg s c f).conns c' = some y' ∧
      y'.owner = y.owner ∧ y'.cancelled = y.cancelled ∧ y'.exited = y.exited ∧ y'.msgQ = y.msgQ ∧
      (y'.packetQ = y.packetQ ∨
        ∃ src d, y'.packetQ = y.packetQ ++ [(src, d)] ∧ sendable cfg d = true) :=
  recvFrame_spares_others cfg s c f c' y hy

/-- **No cross kill, along histories.**  After any history, a frame handled for `c` leaves
every other connection alive and served, and the state after it again satisfies the queue
invariant — so no later delivery of any connection fails because of it. -/
theorem no_cross_kill (cfg : Cfg α) (ops : List (Op α)) (c : Cid) (f : C2R α) (c' : Cid) (y : Conn α)
    (hy : (run cfg ops).conns c' = some y) :
    (∃ y', (recvFrame cfg (run cfg ops) c f).conns c' = some y' ∧
        y'.cancelled = y.cancelled ∧ y'.exited = y.exited) ∧
    (recvFrame cfg (run cfg ops) c f).entries = (run cfg ops).entries ∧
    (∀ k z, (recvFrame cfg (run cfg ops) c f).conns k = some z → ∀ p ∈ z.packetQ, sendable cfg p.2 = true) ∧
    (∀ more : List (Op α), ∀ k,
      Event.fail k ∉ (runFrom cfg (recvFrame cfg (run cfg ops) c f) more).log) := by
  obtain ⟨he, y', hy', _, hc, hx, _, _⟩ := no_cross_kill_step cfg (run cfg ops) c f c' y hy
  have hq : QInv cfg (recvFrame cfg (run cfg ops) c f) := (qInv_run cfg ops).step cfg (.recvFrame c f)
  have hn : NoFail (recvFrame cfg (run cfg ops) c f) :=
    NoFail.step cfg (qInv_run cfg ops) (fun k => no_forwarder_failure cfg ops k) (.recvFrame c f)
  exact ⟨⟨y', hy', hc, hx⟩, he, hq, fun more k => noFail_runFrom cfg more hq hn k⟩

/-- Frames the relay cannot forward are dropped where they were received: nothing changes
but the log. -/
theorem unforwardable_is_dropped (cfg : Cfg α) (s : State α) (c : Cid) (x : Conn α) (dst : Id) (d : Dgram α)
    (hx : s.conns c = some x) (hex : x.exited = false) (hs : sendable cfg d = false) :
    recvFrame cfg s c (.datagrams dst d) = emit s [.dropped c dst .unforwardable] := by
  simp [RelayRegistry.recvFrame, hx, hex, sendPacket, hs]

/-- A frame the decoder rejects ends the connection it was read from — and only that one:
the actor's exit and its unregistration leave every other connection's record in place,
running, uncancelled, with its packet queue (only message queues may get a notice). -/
theorem sender_exit_spares_others (cfg : Cfg α) (s : State α) (c c' : Cid) (hne : c' ≠ c) (y : Conn α)
    (hy : s.conns c' = some y) :
    ∃ y', (unregister cfg (actorExit s c) c).conns c' = some y' ∧ SameButMsgQ y y' :=
  exit_unregister_spares_others cfg s c c' hne y hy

/-- What the forwarder does with an un-forwardable packet once it IS queued (the defect's
mechanism; unreachable since the repair by `queued_packets_forwardable`): the RECEIVING
connection's actor fails. -/
theorem forwarder_fails_on_unforwardable (cfg : Cfg α) (s : State α) (c : Cid) (x : Conn α) (src : Id)
    (d : Dgram α) (rest : List (Id × Dgram α)) (hx : s.conns c = some x) (hex : x.exited = false)
    (hq : x.packetQ = (src, d) :: rest) (hs : sendable cfg d = false) :
    (deliverPacket cfg s c).log = s.log ++ [.fail c] ∧
    ((deliverPacket cfg s c).conns c).map (·.exited) = some true := by
  simp [RelayRegistry.deliverPacket, hx, hex, hq, hs]

/-! ### The two size predicates (constants regenerated from the source) -/

/-- With the real constants, for contents of `n` bytes the forwarder's check reads:
not empty and `1 + 32 + 1 (+ 2 with a segment size) + n ≤ 65536`. -/
theorem sendable_iff (plen : α → Nat) (cap : Nat) (d : Dgram α) :
    sendable (cfgOf plen cap) d = true ↔
      plen d.contents ≠ 0 ∧ plen d.contents + (if d.seg = 0 then 34 else 36) ≤ 65536 := by
  unfold sendable
  rw [Bool.and_eq_true, decide_eq_true_iff, decide_eq_true_iff]
  simp only [encodedLen, cfgOf, Generated.C05.typeLen, Generated.C05.keyLen,
    Generated.C05.ecnLen, Generated.C05.segLen, Generated.C05.maxPacket]
  by_cases h : d.seg = 0
  · simp only [h, if_true]; omega
  · simp only [h, if_false]; omega

/-- The decoder's limits on datagram contents: 65503 bytes (single), 65501 bytes (batch). -/
theorem decoderLimit_values : decoderLimit false = 65503 ∧ decoderLimit true = 65501 := by decide

/-- Among the datagrams the decoder accepts (contents of at most `decoderLimit` bytes;
a single-datagram frame never has a segment size), exactly these cannot be forwarded:
empty contents; single frames with 65503 bytes; batch frames WITH a segment size and 65501
bytes.  (A batch frame with segment size 0 decodes to "no segment size" and fits.) -/
theorem accepted_but_unforwardable_iff (plen : α → Nat) (cap : Nat) (batch : Bool) (d : Dgram α)
    (hacc : plen d.contents ≤ decoderLimit batch) (hsingle : batch = false → d.seg = 0) :
    sendable (cfgOf plen cap) d = false ↔
      plen d.contents = 0 ∨ (batch = false ∧ plen d.contents = 65503) ∨
      (batch = true ∧ d.seg ≠ 0 ∧ plen d.contents = 65501) := by
  have hv := decoderLimit_values
  rw [← Bool.not_eq_true, sendable_iff]
  cases batch with
  | false =>
    have hseg := hsingle rfl
    rw [hv.1] at hacc
    simp only [hseg, if_true, true_and, Bool.false_eq_true, false_and, or_false]
    omega
  | true =>
    rw [hv.2] at hacc
    by_cases hseg : d.seg = 0
    · simp only [hseg, if_true, Bool.true_eq_false, false_and, false_or, true_and, ne_eq, not_true_eq_false, or_false]
      omega
    · simp only [hseg, if_false, Bool.true_eq_false, false_and, false_or, true_and, ne_eq, not_false_eq_true]
      omega

/-- The decoder model only produces datagrams within those limits, and single-datagram
frames without a segment size. -/
theorem decodeDatagramBody_bounds (batch : Bool) (f : RawFrame) (dst : Id) (d : Dgram Tok)
    (hlen : f.bodyLen ≤ Generated.C05.maxPacket)
    (h : decodeDatagramBody batch f = some (.datagrams dst d)) :
    d.contents.len ≤ decoderLimit batch ∧ (batch = false → d.seg = 0) := by
  unfold decodeDatagramBody at h
  cases hkey : f.key with
  | none => simp [hkey] at h
  | invalid => simp [hkey] at h
  | id dst' =>
    simp only [hkey] at h
    simp only [RawFrame.bodyLen, hkey] at hlen
    have hv := decoderLimit_values
    cases batch with
    | false =>
      simp only [Bool.false_eq_true, if_false] at h
      by_cases h1 : f.hdr.length + f.bulk.len < Generated.C05.singleMin
      · simp [h1] at h
      · by_cases h2 : f.hdr.length < Generated.C05.singleMin
        · simp [h1, h2] at h
        · simp only [h1, h2, if_false, Option.some.injEq, C2R.datagrams.injEq] at h
          obtain ⟨_, rfl⟩ := h
          rw [hv.1]
          simp only [Generated.C05.decKeyLen, Generated.C05.maxPacket, Generated.C05.singleMin, List.length_drop] at *
          exact ⟨by omega, fun _ => trivial⟩
    | true =>
      simp only [if_true] at h
      by_cases h1 : f.hdr.length + f.bulk.len < Generated.C05.batchMin
      · simp [h1] at h
      · by_cases h2 : f.hdr.length < Generated.C05.batchMin
        · simp [h1, h2] at h
        · simp only [h1, h2, if_false, Option.some.injEq, C2R.datagrams.injEq] at h
          obtain ⟨_, rfl⟩ := h
          rw [hv.2]
          simp only [Generated.C05.decKeyLen, Generated.C05.maxPacket, Generated.C05.batchMin, List.length_drop] at *
          exact ⟨by omega, fun hb => by cases hb⟩

theorem decoder_bounds (f : RawFrame) (dst : Id) (d : Dgram Tok) (h : decodeRaw f = some (.datagrams dst d)) :
    ∃ batch, d.contents.len ≤ decoderLimit batch ∧ (batch = false → d.seg = 0) := by
  unfold decodeRaw at h
  split at h
  · cases h
  · split at h
    · cases h
    · rename_i hlen
      have hlen' : f.bodyLen ≤ Generated.C05.maxPacket := Nat.le_of_not_lt hlen
      split at h
      · exact ⟨false, decodeDatagramBody_bounds false f dst d hlen' h⟩
      · split at h
        · exact ⟨true, decodeDatagramBody_bounds true f dst d hlen' h⟩
        · split at h
          · split at h <;> cases h
          · split at h
            · split at h <;> cases h
            · cases h

/-! ### The timed dimension: the write timeout is a PER-FRAME budget

`Actor::write_frame` = `tokio::time::timeout(self.timeout, self.stream.send(frame))`, with
`self.timeout = Config::write_timeout` (default `SERVER_WRITE_TIMEOUT`, regenerated from
the source as `Generated.C05.writeTimeoutMs`; the shape of `write_frame` and of the packet
branch of the actor loop are pinned by the constants `perFrameWriteTimeout`,
`packetBranchWritesOneFrame`).  In the timed model (`TOp`, `tstep`) the client of a
connection accepts each written frame after an arbitrary delay; a write fails iff THAT
frame's delay exceeds `T`.  How many frames senders have queued — the burst size — does not
enter: a receiver that accepts every single frame within `T` is never ended by a write. -/

/-- Timed histories are untimed histories, so everything proved above holds for them too:
in particular every queued packet passes the size check at every moment. -/
theorem timed_queue_invariant (cfg : Cfg α) (T : Nat) (tops : List (TOp α)) (c : Cid) (x : Conn α)
    (hx : (trun cfg T tops).conns c = some x) : ∀ p ∈ x.packetQ, sendable cfg p.2 = true :=
  qInv_trun cfg T tops c x hx

/-- **No cross kill, timed.**  After any timed history, let the next step be a write of the
actor of ANY connection `c'` with ANY delay, or the handling of ANY frame from `c'`.
A connection `c` whose own client is within the per-frame budget for this step
(`c' = c → delay ≤ T`) keeps its record, keeps running and stays uncancelled — whatever
other connections' clients do, however many frames are queued for `c`, whoever queued them. -/
theorem no_cross_kill_timed (cfg : Cfg α) (T : Nat) (tops : List (TOp α)) (c : Cid) (x : Conn α)
    (hx : (trun cfg T tops).conns c = some x) (c' : Cid) (delay : Nat) (hbudget : c' = c → delay ≤ T) :
    (∃ x', (tstep cfg T (trun cfg T tops) (.writePacket c' delay)).conns c = some x' ∧
        x'.exited = x.exited ∧ x'.cancelled = x.cancelled ∧ x'.owner = x.owner) ∧
    (∃ x', (tstep cfg T (trun cfg T tops) (.writeMsg c' delay)).conns c = some x' ∧
        x'.exited = x.exited ∧ x'.cancelled = x.cancelled ∧ x'.owner = x.owner) ∧
    (∀ f, c' ≠ c → ∃ x', (tstep cfg T (trun cfg T tops) (.base (.recvFrame c' f))).conns c = some x' ∧
        x'.exited = x.exited ∧ x'.cancelled = x.cancelled ∧ x'.owner = x.owner) := by
  have hq := qInv_trun cfg T tops
  generalize trun cfg T tops = s at hx hq
  refine ⟨?_, ?_, fun f hne => ?_⟩
  · by_cases hc : c' = c
    · subst hc
      -- its own write, within the budget: the queue head passes the size check, the actor goes on
      simp only [tstep, hbudget rfl, if_true]
      unfold RelayRegistry.deliverPacket
      simp only [hx]
      split
      · exact ⟨x, hx, rfl, rfl, rfl⟩
      · cases hpq : x.packetQ with
        | nil => exact ⟨x, by simp [hx], rfl, rfl, rfl⟩
        | cons p rest =>
          obtain ⟨src, d⟩ := p
          have hs : sendable cfg d = true := hq c' x hx (src, d) (by rw [hpq]; exact List.mem_cons_self)
          simp only [hs, if_true]
          exact ⟨{ x with packetQ := rest }, by simp, rfl, rfl, rfl⟩
    · have hne : c ≠ c' := fun h => hc h.symm
      refine ⟨x, ?_, rfl, rfl, rfl⟩
      simp only [tstep]
      split
      · rw [deliverPacket_other cfg s c' c hne]; exact hx
      · rw [actorExit_other _ c' c hne, deliverPacket_other cfg s c' c hne]; exact hx
  · by_cases hc : c' = c
    · subst hc
      simp only [tstep, hbudget rfl, if_true]
      unfold RelayRegistry.deliverMsg
      simp only [hx]
      split
      · exact ⟨x, hx, rfl, rfl, rfl⟩
      · split
        · exact ⟨x, hx, rfl, rfl, rfl⟩
        · rename_i m rest _
          exact ⟨{ x with msgQ := rest }, by simp, rfl, rfl, rfl⟩
    · have hne : c ≠ c' := fun h => hc h.symm
      refine ⟨x, ?_, rfl, rfl, rfl⟩
      simp only [tstep]
      split
      · rw [deliverMsg_other s c' c hne]; exact hx
      · rw [actorExit_other _ c' c hne, deliverMsg_other s c' c hne]; exact hx
  · obtain ⟨_, x', hx', ho, hcan, hex, _, _⟩ := no_cross_kill_step cfg s c' f c x hx
    exact ⟨x', hx', hex, hcan, ho⟩

/-- **Any burst drains.**  In a state of a timed history, let `c` be running with ANY number
of packets queued (whoever sent them).  If its client accepts each of them within the
per-frame budget (`ds`: one delay per queued packet, each `≤ T` — their SUM is unbounded),
then writing them one after the other delivers every queued packet, in order, and `c` is
still running afterwards. -/
theorem burst_drains_within_budget (cfg : Cfg α) (T : Nat) (ds : List Nat) (hds : ∀ d ∈ ds, d ≤ T)
    (s : State α) (hq : QInv cfg s) (c : Cid) (x : Conn α) (hx : s.conns c = some x) (hex : x.exited = false)
    (hlen : ds.length = x.packetQ.length) :
    ∃ x', (trunFrom cfg T s (ds.map (TOp.writePacket c))).conns c = some x' ∧ x'.exited = false ∧
      x'.cancelled = x.cancelled ∧ x'.packetQ = [] ∧
      deliveredTo (trunFrom cfg T s (ds.map (TOp.writePacket c))).log c = deliveredTo s.log c ++ x.packetQ := by
  induction ds generalizing s x with
  | nil =>
    have : x.packetQ = [] := List.eq_nil_of_length_eq_zero (by simpa using hlen.symm)
    exact ⟨x, hx, hex, rfl, this, by simp [trunFrom, this]⟩
  | cons d ds ih =>
    cases hpq : x.packetQ with
    | nil => rw [hpq] at hlen; simp at hlen
    | cons p rest =>
      obtain ⟨src, dg⟩ := p
      have hd : d ≤ T := hds d List.mem_cons_self
      have hs : sendable cfg dg = true := hq c x hx (src, dg) (by rw [hpq]; exact List.mem_cons_self)
      have hstep : tstep cfg T s (.writePacket c d) =
          emit (setConn s c (some { x with packetQ := rest })) [.out c (.datagrams src dg)] := by
        simp [tstep, hd, RelayRegistry.deliverPacket, hx, hex, hpq, hs]
      have hq' : QInv cfg (tstep cfg T s (.writePacket c d)) := by
        obtain ⟨ops, ho⟩ := tstep_eq_steps cfg T s (.writePacket c d)
        rw [ho]; exact QInv.runFrom cfg ops hq
      have hx' : (tstep cfg T s (.writePacket c d)).conns c = some { x with packetQ := rest } := by
        rw [hstep]; simp
      obtain ⟨x', h1, h2, h3, h4, h5⟩ := ih (fun d' hd' => hds d' (List.mem_cons_of_mem _ hd'))
        (tstep cfg T s (.writePacket c d)) hq' { x with packetQ := rest } hx' hex
        (by rw [hpq] at hlen; simpa using hlen)
      refine ⟨x', h1, h2, h3, h4, ?_⟩
      show deliveredTo (trunFrom cfg T (tstep cfg T s (.writePacket c d)) (ds.map (TOp.writePacket c))).log c = _
      rw [h5, hstep]
      simp [deliveredTo]

/-- The other side of the budget: a client that takes longer than `T` for ONE frame ends
its OWN connection's actor (and nobody else's, `no_cross_kill_timed`). -/
theorem slow_client_times_out_itself (cfg : Cfg α) (T : Nat) (s : State α) (c : Cid) (delay : Nat)
    (h : T < delay) (x : Conn α) (hx : s.conns c = some x) :
    ((tstep cfg T s (.writePacket c delay)).conns c).map (·.exited) = some true := by
  have hd : ¬ delay ≤ T := by omega
  simp only [tstep, hd, if_false]
  unfold RelayRegistry.actorExit
  have : ∃ y, (deliverPacket cfg s c).conns c = some y := by
    have := (deliverPacket_sameReg cfg s c).owner c
    rw [hx] at this
    cases hy : (deliverPacket cfg s c).conns c with
    | none => rw [hy] at this; simp at this
    | some y => exact ⟨y, rfl⟩
  obtain ⟨y, hy⟩ := this
  simp [hy]

/-- The write timeout the theorems are instantiated with by the driver: 2000 ms. -/
theorem write_timeout_value : defaultWriteTimeoutMs = 2000 ∧
    Generated.C05.perFrameWriteTimeout = true ∧ Generated.C05.packetBranchWritesOneFrame = true ∧
    Generated.C05.configUsesWriteTimeout = true ∧ Generated.C05.actorUsesConfigTimeout = true := by decide

/-! ### Non-vacuity -/

def demoCfg : Cfg (List Nat) := cfgOf List.length 2

/-- The former attack: an empty datagram for endpoint 0, then a normal one. -/
def demoOps : List (Op (List Nat)) :=
  [.register 0 false, .register 1 false,
   .recvFrame 1 (.datagrams 0 ⟨0, 0, []⟩), .recvFrame 1 (.datagrams 0 ⟨0, 0, [5]⟩), .deliverPacket 0]

example : Event.dropped 1 0 .unforwardable ∈ (run demoCfg demoOps).log := by decide
example : Event.out 0 (.datagrams 1 ⟨0, 0, [5]⟩) ∈ (run demoCfg demoOps).log := by decide
example : ((run demoCfg demoOps).conns 0).map (·.exited) = some false := by decide
-- the decoder accepts the two boundary frames (and they are un-forwardable)
example : (decodeRaw { typ := some 4, key := .id 0, hdr := [2], bulk := ⟨"-", 0⟩ }).isSome = true := by decide
example : (decodeRaw { typ := some 4, key := .id 0, hdr := [2], bulk := ⟨"p65503.1", 65503⟩ }).isSome = true := by
  decide
example : (decodeRaw { typ := some 4, key := .id 0, hdr := [2], bulk := ⟨"p65504.1", 65504⟩ }).isSome = false := by
  decide
example : sendable (driverCfg 2) ⟨2, 0, ⟨"p65503.1", 65503⟩⟩ = false := by decide
example : sendable (driverCfg 2) ⟨2, 0, ⟨"p65502.1", 65502⟩⟩ = true := by decide
example : sendable (driverCfg 2) ⟨2, 9, ⟨"p65501.1", 65501⟩⟩ = false := by decide

/-- A burst of three for endpoint 0, whose client takes 1500 ms per frame (budget 2000 ms):
4500 ms in total, all three delivered, connection 0 still running. -/
def demoBurst : List (TOp (List Nat)) :=
  [.base (.register 0 false), .base (.register 1 false),
   .base (.recvFrame 1 (.datagrams 0 ⟨0, 0, [1]⟩)), .base (.recvFrame 1 (.datagrams 0 ⟨0, 0, [2]⟩)),
   .writePacket 0 1500, .writePacket 0 1500]

example : ((trun demoCfg 2000 demoBurst).conns 0).map (·.exited) = some false := by decide
example : deliveredTo (trun demoCfg 2000 demoBurst).log 0 = [(1, ⟨0, 0, [1]⟩), (1, ⟨0, 0, [2]⟩)] := by decide
example : ((trun demoCfg 2000 (demoBurst ++ [.writePacket 0 2001])).conns 0).map (·.exited) = some true := by
  decide

end IrohModel.C05
