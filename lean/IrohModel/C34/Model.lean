/-
C34 — staggered DNS lookups.  Model of `add_jitter`, `stagger_call` and the
per-lookup timeout of `Inner::op` (iroh-dns/src/dns.rs), as the code is after the
`fix:` commit that guards `max_jitter == 0`.

Three layers, all executable, core Lean only:

* `addJitter d r`       the `u64` arithmetic of `add_jitter`; the random value `r` is an
                        input; `none` is the panic outcome of `%` by zero.
* `step`/`run`          the control flow of `stagger_call` as a labelled transition system
                        over attempt slots (`waiting → running → done`); the schedule (which
                        attempt starts / finishes next, and how) is the *input*, so theorems
                        about `run` hold for every timing pattern.
* `simulate`            a timed scheduler that turns delays, random values, scripted answer
                        times and the per-lookup timeout into one such schedule, used by the
                        driver to reproduce what the harness observes on the real code.
-/
import IrohModel.Generated.C34

namespace IrohModel.C34

open Generated.C34

/-! ## `add_jitter` -/

def u64Max : Nat := 18446744073709551615

/-- `u64::saturating_mul` -/
def satMul (a b : Nat) : Nat := if a * b > u64Max then u64Max else a * b
/-- `u64::saturating_add` -/
def satAdd (a b : Nat) : Nat := if a + b > u64Max then u64Max else a + b
/-- `u64::saturating_sub` (truncated subtraction on `Nat`) -/
def satSub (a b : Nat) : Nat := a - b
/-- `a % b` on `u64`: panics (`none`) when `b = 0`. -/
def checkedRem (a b : Nat) : Option Nat := if b = 0 then none else some (a % b)

/-- `delay.saturating_mul(MAX_JITTER_PERCENT * 2) / 100` -/
def maxJitter (d : Nat) : Nat := satMul d (maxJitterPercent * jitterSpanFactor) / jitterDivisor

/-- `add_jitter(&d)` in milliseconds with `rand::random::<u64>() = r`; `none` = panic. -/
def addJitter (d r : Nat) : Option Nat :=
  if d = 0 then some 0
  else
    let mj := maxJitter d
    if mj = 0 then some d
    else (checkedRem r mj).map fun j => satAdd (satSub d (mj / 2)) j

/-- The function as it was before the `fix:` commit (record of defect D15). -/
def addJitterOriginal (d r : Nat) : Option Nat :=
  if d = 0 then some 0
  else
    let mj := maxJitter d
    (checkedRem r mj).map fun j => satAdd (satSub d (mj / 2)) j

/-! ## `stagger_call` as a transition system

Slot `0` is the attempt with the implicit zero delay, slot `i+1` belongs to `delays[i]`.
An attempt is `waiting` while its `sleep(delay)` runs, `running` from the moment the
wrapped call is first polled (that is when the lookup is issued) and `done` once it
returned.  `calls.next()` returning `None` (the `FuturesUnorderedBounded` is empty) is
"all `n+1` slots are done". -/

inductive Status | waiting | running | done
deriving DecidableEq, Repr

inductive Res (α ε : Type) | ok (v : α) | err (e : ε)
deriving DecidableEq, Repr

inductive Event (α ε : Type)
  | start (i : Nat)
  | finish (i : Nat) (r : Res α ε)
deriving DecidableEq, Repr

structure State (α ε : Type) where
  /-- number of stagger delays; there are `n + 1` attempts -/
  n : Nat
  status : Nat → Status
  /-- the `errors` vector -/
  errors : List ε
  /-- the value `stagger_call` returned, if it has -/
  result : Option (Except (List ε) α)

def init {α ε : Type} (n : Nat) : State α ε :=
  { n := n, status := fun _ => .waiting, errors := [], result := none }

def setStatus (f : Nat → Status) (i : Nat) (x : Status) : Nat → Status :=
  fun j => if j = i then x else f j

def allDone {α ε : Type} (s : State α ε) : Bool :=
  (List.range (s.n + 1)).all fun i => s.status i == .done

/-- One scheduling step; `none` when the event is not enabled (in particular nothing is
enabled once `stagger_call` has returned: the remaining futures are dropped). -/
def step {α ε : Type} (s : State α ε) : Event α ε → Option (State α ε)
  | .start i =>
    if s.result.isNone && decide (i ≤ s.n) && s.status i == .waiting then
      some { s with status := setStatus s.status i .running }
    else none
  | .finish i r =>
    if s.result.isNone && s.status i == .running then
      match r with
      | .ok v => some { s with status := setStatus s.status i .done, result := some (.ok v) }
      | .err e =>
        let s' := { s with status := setStatus s.status i .done, errors := s.errors ++ [e] }
        some { s' with result := if allDone s' then some (.error s'.errors) else none }
    else none

def run {α ε : Type} (s : State α ε) : List (Event α ε) → Option (State α ε)
  | [] => some s
  | e :: es => (step s e).bind fun s' => run s' es

/-! ## Timed scheduler (driver side) -/

/-- Lexicographic order on `(time, phase, call)` keys. -/
def keyLe (a b : Nat × Nat × Nat) : Bool :=
  a.1 < b.1 || (a.1 == b.1 && (a.2.1 < b.2.1 || (a.2.1 == b.2.1 && a.2.2 ≤ b.2.2)))

structure Scenario where
  /-- per-lookup timeout of `Inner::op`, ms -/
  tmo : Nat
  /-- the run is observed up to and including this instant, ms -/
  horizon : Nat
  /-- stagger delays with the random value each one draws -/
  delays : List (Nat × Nat)
  /-- by call order: answer time after the call (`none` = never) and the answer -/
  scripts : List (Option Nat × Res Unit String)

/-- `add_jitter` of every delay (`none` = it panicked while the futures were built). -/
def jitterAll : List (Nat × Nat) → Option (List Nat)
  | [] => some []
  | (d, r) :: rest =>
    match addJitter d r, jitterAll rest with
    | some v, some vs => some (v :: vs)
    | _, _ => none

def fireTimes (sc : Scenario) : Option (List Nat) :=
  (jitterAll sc.delays).map fun l => 0 :: l

/-- Slots in the order in which their sleeps end (stable for equal times): `(slot, time)`. -/
def callOrder (fires : List Nat) : List (Nat × Nat) :=
  (fires.zipIdx.map fun (t, i) => (i, t)).mergeSort fun a b => a.2 ≤ b.2

/-- When and how call `k` (issued at `s`) ends: a scripted answer strictly before the
timeout, else `DnsError::Timeout` at `s + tmo` (a timer event, phase 1). -/
def completion (sc : Scenario) (k s : Nat) : (Nat × Nat) × Res Nat String :=
  match sc.scripts[k]? with
  | some (some dt, r) =>
    if dt < sc.tmo then
      ((s + dt, 2), match r with | .ok _ => .ok k | .err e => .err e)
    else ((s + sc.tmo, 1), .err "to")
  | _ => ((s + sc.tmo, 1), .err "to")

/-- Every potential event with its key, sorted: within one millisecond the timer events
(starts, then timeouts) precede the scripted answers, which come in call order. -/
def timeline (sc : Scenario) (fires : List Nat) : List ((Nat × Nat × Nat) × Event Nat String) :=
  let calls := (callOrder fires).zipIdx
  let starts := calls.map fun ((slot, s), k) => ((s, 0, k), Event.start slot)
  let ends := calls.map fun ((slot, s), k) =>
    let c := completion sc k s
    ((c.1.1, c.1.2, k), Event.finish slot c.2)
  ((starts ++ ends).mergeSort fun a b => keyLe a.1 b.1).filter fun e => e.1.1 ≤ sc.horizon

structure Trace where
  state : State Nat String
  /-- start times of the issued calls, in call order -/
  calls : List Nat
  /-- time of the last processed event -/
  last : Nat
  /-- an event of the timeline was not enabled (never happens for a sound timeline) -/
  invalid : Bool

/-- Feed the timeline to the transition system until `stagger_call` returns. -/
def runTimeline (tr : Trace) : List ((Nat × Nat × Nat) × Event Nat String) → Trace
  | [] => tr
  | (key, ev) :: rest =>
    if tr.state.result.isSome then tr
    else match step tr.state ev with
      | none => { tr with invalid := true }
      | some s' =>
        let calls := match ev with | .start _ => tr.calls ++ [key.1] | _ => tr.calls
        runTimeline { state := s', calls := calls, last := key.1, invalid := false } rest

inductive Outcome
  | panic
  | invalid
  | done (calls : List Nat) (result : Option (Except (List String) Nat)) (at_ : Nat)
deriving Repr

def simulate (sc : Scenario) : Outcome :=
  match fireTimes sc with
  | none => .panic
  | some fires =>
    let tr := runTimeline { state := init sc.delays.length, calls := [], last := 0, invalid := false }
      (timeline sc fires)
    if tr.invalid then .invalid else .done tr.calls tr.state.result tr.last

end IrohModel.C34
