/-
C34 — staggered DNS lookups.  Model of `add_jitter`, `stagger_call` and the
per-lookup timeout of `Inner::op` (iroh-dns/src/dns.rs), as the code is after the
`fix:` commit that guards `max_jitter == 0`.

Three layers, all executable, core Lean only:

* `addJitter d r`       the `u64` arithmetic of `add_jitter`; the random value `r` is an
                        input; `none` is the panic outcome of `%` by zero.
* `step`/`run`          the control flow of `stagger_call` as a labelled transition system
                        over attempt slots (`waiting → running → done`); the schedule (which
                        attempt starts / finishes next, and how) is the *input*, so theorems
                        about `run` hold for every timing pattern.
* `simulate`            a timed scheduler that turns delays, random values, scripted answer
                        times and the per-lookup timeout into one such schedule, used by the
                        driver to reproduce what the harness observes on the real code.
-/
import IrohModel.Generated.C34

namespace IrohModel.C34

open Generated.C34

/-! ## `add_jitter` -/

def u64Max : Nat := 18446744073709551615

/-- `u64::saturating_mul` -/
def satMul (a b : Nat) : Nat := if a * b > u64Max then u64Max else a * b
/-- `u64::saturating_add` -/
def satAdd (a b : Nat) : Nat := if a + b > u64Max then u64Max else a + b
/-- `u64::saturating_sub` (truncated subtraction on `Nat`) -/
def satSub (a b : Nat) : Nat := a - b
/-- `a % b` on `u64`: panics (`none`) when `b = 0`. -/
def checkedRem (a b : Nat) : Option Nat := if b = 0 then none else some (a % b)

/-- `delay.saturating_mul(MAX_JITTER_PERCENT * 2) / 100` -/
def maxJitter (d : Nat) : Nat := satMul d (maxJitterPercent * jitterSpanFactor) / jitterDivisor

/-- `add_jitter(&d)` in milliseconds with `rand::random::<u64>() = r`; `none` = panic. -/
def addJitter (d r : Nat) : Option Nat :=
  if d = 0 then some 0
  else
    let mj := maxJitter d
    if mj = 0 then some d
    else (checkedRem r mj).map fun j => satAdd (satSub d (mj / 2)) j

/-- The function as it was before the `fix:` commit (record of defect D15). -/
def addJitterOriginal (d r : Nat) : Option Nat :=
  if d = 0 then some 0
  else
    let mj := maxJitter d
    (checkedRem r mj).map fun j => satAdd (satSub d (mj / 2)) j

/-! ## `stagger_call` as a transition system

Slot `0` is the attempt with the implicit zero delay, slot `i+1` belongs to `delays[i]`.
An attempt is `waiting` while its `sleep(delay)` runs, `running` from the moment the
wrapped call is first polled (that is when the lookup is issued) and `done` once it
returned.  `calls.next()` returning `None` (the `FuturesUnorderedBounded` is empty) is
"all `n+1` slots are done". -/

inductive Status | waiting | running | done
deriving DecidableEq, Repr

inductive Res (α ε : Type) | ok (v : α) | err (e : ε)
deriving DecidableEq, Repr

inductive Event (α ε : Type)
  | start (i : Nat)
  | finish (i : Nat) (r : Res α ε)
deriving DecidableEq, Repr

structure State (α ε : Type) where
  /-- number of stagger delays; there are `n + 1` attempts -/
  n : Nat
  status : Nat → Status
  /-- the `errors` vector -/
  errors : List ε
  /-- the value `stagger_call` returned, if it has -/
  result : Option (Except (List ε) α)

def init {α ε : Type} (n : Nat) : State α ε :=
  { n := n, status := fun _ => .waiting, errors := [], result := none }

def setStatus (f : Nat → Status) (i : Nat) (x : Status) : Nat → Status :=
  fun j => if j = i then x else f j

def allDone {α ε : Type} (s : State α ε) : Bool :=
  (List.range (s.n + 1)).all fun i => s.status i == .done

/-- One scheduling step; `none` when the event is not enabled (in particular nothing is
enabled once `stagger_call` has returned: the remaining futures are dropped). -/
def step {α ε : Type} (s : State α ε) : Event α ε → Option (State α ε)
  | .start i =>
    if s.result.isNone && decide (i ≤ s.n) && s.status i == .waiting then
      some { s with status := setStatus s.status i .running }
    else none
  | .finish i r =>
    if s.result.isNone && s.status i == .running then
      match r with
      | .ok v => some { s with status := setStatus s.status i .done, result := some (.ok v) }
      | .err e =>
        let s' := { s with status := setStatus s.status i .done, errors := s.errors ++ [e] }
        some { s' with result := if allDone s' then some (.error s'.errors) else none }
    else none

def run {α ε : Type} (s : State α ε) : List (Event α ε) → Option (State α ε)
  | [] => some s
  | e :: es => (step s e).bind fun s' => run s' es

/-! ## Timed scheduler (driver side) -/

/-- Lexicographic order on `(time, phase, call)` keys. -/
def keyLe (a b : Nat × Nat × Nat) : Bool :=
  a.1 < b.1 || (a.1 == b.1 && (a.2.1 < b.2.1 || (a.2.1 == b.2.1 && a.2.2 ≤ b.2.2)))

structure Scenario where
  /-- per-lookup timeout of `Inner::op`, ms -/
  tmo : Nat
  /-- the run is observed up to and including this instant, ms -/
  horizon : Nat
  /-- stagger delays with the random value each one draws -/
  delays : List (Nat × Nat)
  /-- by call order: answer time after the call (`none` = never) and the answer -/
  scripts : List (Option Nat × Res Unit String)

/-- `add_jitter` of every delay (`none` = it panicked while the futures were built). -/
def jitterAll : List (Nat × Nat) → Option (List Nat)
  | [] => some []
  | (d, r) :: rest =>
    match addJitter d r, jitterAll rest with
    | some v, some vs => some (v :: vs)
    | _, _ => none

def fireTimes (sc : Scenario) : Option (List Nat) :=
  (jitterAll sc.delays).map fun l => 0 :: l

/-- Slots in the order in which their sleeps end (stable for equal times): `(slot, time)`. -/
def callOrder (fires : List Nat) : List (Nat × Nat) :=
  (fires.zipIdx.map fun (t, i) => (i, t)).mergeSort fun a b => a.2 ≤ b.2

/-- When and how call `k` (issued at `s`) ends: a scripted answer strictly before the
timeout, else `DnsError::Timeout` at `s + tmo` (a timer event, phase 1). -/
def completion (sc : Scenario) (k s : Nat) : (Nat × Nat) × Res Nat String :=
  match sc.scripts[k]? with
  | some (some dt, r) =>
    if dt < sc.tmo then
      ((s + dt, 2), match r with | .ok _ => .ok k | .err e => .err e)
    else ((s + sc.tmo, 1), .err "to")
  | _ => ((s + sc.tmo, 1), .err "to")

/-- Every potential event with its key, sorted: within one millisecond the timer events
(starts, then timeouts) precede the scripted answers, which come in call order. -/
def timeline (sc : Scenario) (fires : List Nat) : List ((Nat × Nat × Nat) × Event Nat String) :=
  let calls := (callOrder fires).zipIdx
  let starts := calls.map fun ((slot, s), k) => ((s, 0, k), Event.start slot)
  let ends := calls.map fun ((slot, s), k) =>
    let c := completion sc k s
    ((c.1.1, c.1.2, k), Event.finish slot c.2)
  ((starts ++ ends).mergeSort fun a b => keyLe a.1 b.1).filter fun e => e.1.1 ≤ sc.horizon

structure Trace (α : Type) where
  state : State α String
  /-- start times of the issued calls, in call order -/
  calls : List Nat
  /-- key `(time, phase, call)` of the last processed event -/
  last : Nat × Nat × Nat
  /-- an event of the timeline was not enabled (never happens for a sound timeline) -/
  invalid : Bool

/-- Feed the timeline to the transition system until `stagger_call` returns. -/
def runTimeline {α : Type} (tr : Trace α) : List ((Nat × Nat × Nat) × Event α String) → Trace α
  | [] => tr
  | (key, ev) :: rest =>
    if tr.state.result.isSome then tr
    else match step tr.state ev with
      | none => { tr with invalid := true }
      | some s' =>
        let calls := match ev with | .start _ => tr.calls ++ [key.1] | _ => tr.calls
        runTimeline { state := s', calls := calls, last := key, invalid := false } rest

inductive Outcome (α : Type)
  | panic
  | invalid
  | done (calls : List Nat) (result : Option (Except (List String) α)) (at_ : Nat × Nat × Nat)

def simulate (sc : Scenario) : Outcome Nat :=
  match fireTimes sc with
  | none => .panic
  | some fires =>
    let tr := runTimeline { state := init sc.delays.length, calls := [], last := (0, 0, 0), invalid := false }
      (timeline sc fires)
    if tr.invalid then .invalid else .done tr.calls tr.state.result tr.last

/-! ## `lookup_ipv4_ipv6_staggered`: every attempt is a pair of family lookups

`lookup_ipv4_ipv6` runs `tokio::join!(lookup_ipv4, lookup_ipv6)`: both family lookups are
issued when the attempt starts, the attempt ends when *both* have ended, and it succeeds
when at least one of them did (IPv4 addresses first). -/

inductive Fam | v4 | v6
deriving DecidableEq, Repr

/-- Result of one family lookup inside an attempt: the address tags (here: resolver call
indices) or the error code. -/
abbrev FRes := Res (List Nat) String

/-- The `match` at the end of `lookup_ipv4_ipv6`. -/
def mergeRes (r4 r6 : FRes) : FRes :=
  match r4, r6 with
  | .ok a, .ok b => .ok (a ++ b)
  | .ok a, .err _ => .ok a
  | .err _, .ok b => .ok b
  | .err e4, .err e6 => .err s!"B:{e4}/{e6}"

/-- Fine-grained schedule event: an attempt starts, or one of its family lookups ends. -/
inductive FEvent
  | start (i : Nat)
  | fin (f : Fam) (i : Nat) (r : FRes)
deriving Repr

/-- `join!`: turn a schedule of family-lookup completions into the schedule of attempt
completions.  A family result that arrives first is parked in `pend`; the attempt finishes —
with the merged result, at the position (key) of the later event — when the other family's
result arrives. -/
def coarsenK {κ : Type} : List (Nat × Fam × FRes) → List (κ × FEvent) →
    List (κ × Event (List Nat) String)
  | _, [] => []
  | pend, (k, .start i) :: rest => (k, .start i) :: coarsenK pend rest
  | pend, (k, .fin f i r) :: rest =>
    match pend.find? (fun p => p.1 == i && p.2.1 != f) with
    | some (_, _, r') =>
      let merged := match f with | .v4 => mergeRes r r' | .v6 => mergeRes r' r
      (k, .finish i merged) :: coarsenK (pend.filter fun p => p.1 != i) rest
    | none => coarsenK ((i, f, r) :: pend) rest

/-- When and how resolver call `c` (issued at `s`) ends, as a family result. -/
def completionF (sc : Scenario) (c s : Nat) : (Nat × Nat) × FRes :=
  match sc.scripts[c]? with
  | some (some dt, r) =>
    if dt < sc.tmo then
      ((s + dt, 2), match r with | .ok _ => .ok [c] | .err e => .err e)
    else ((s + sc.tmo, 1), .err "to")
  | _ => ((s + sc.tmo, 1), .err "to")

/-- Fine-grained timeline of the merged lookup: the `a`-th attempt to start issues resolver
calls `2a` (IPv4) and `2a + 1` (IPv6). -/
def fineTimeline (sc : Scenario) (fires : List Nat) : List ((Nat × Nat × Nat) × FEvent) :=
  let calls := (callOrder fires).zipIdx
  let starts := calls.map fun ((slot, s), a) => ((s, 0, 2 * a), FEvent.start slot)
  let ends4 := calls.map fun ((slot, s), a) =>
    let c := completionF sc (2 * a) s
    ((c.1.1, c.1.2, 2 * a), FEvent.fin .v4 slot c.2)
  let ends6 := calls.map fun ((slot, s), a) =>
    let c := completionF sc (2 * a + 1) s
    ((c.1.1, c.1.2, 2 * a + 1), FEvent.fin .v6 slot c.2)
  ((starts ++ ends4 ++ ends6).mergeSort fun a b => keyLe a.1 b.1).filter fun e => e.1.1 ≤ sc.horizon

def timelineBoth (sc : Scenario) (fires : List Nat) :
    List ((Nat × Nat × Nat) × Event (List Nat) String) :=
  coarsenK [] (fineTimeline sc fires)

def simulateBoth (sc : Scenario) : Outcome (List Nat) :=
  match fireTimes sc with
  | none => .panic
  | some fires =>
    let tr := runTimeline { state := init sc.delays.length, calls := [], last := (0, 0, 0), invalid := false }
      (timelineBoth sc fires)
    if tr.invalid then .invalid else .done tr.calls tr.state.result tr.last

end IrohModel.C34
