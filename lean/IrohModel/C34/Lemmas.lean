/-
C34 — observation vocabulary for schedules and the inductive invariant of the
`stagger_call` transition system.
-/
import IrohModel.C34.Model

namespace IrohModel.C34

variable {α ε : Type}

/-! ## Observations on a schedule -/

/-- Slots whose lookup was issued, in order. -/
def startIdx (es : List (Event α ε)) : List Nat :=
  es.filterMap fun | .start i => some i | _ => none
/-- Slots whose attempt returned, in order. -/
def finIdx (es : List (Event α ε)) : List Nat :=
  es.filterMap fun | .finish i _ => some i | _ => none
/-- Errors of the failed attempts, in completion order. -/
def errsOf (es : List (Event α ε)) : List ε :=
  es.filterMap fun | .finish _ (.err e) => some e | _ => none
/-- Values of the successful attempts, in completion order. -/
def oksOf (es : List (Event α ε)) : List α :=
  es.filterMap fun | .finish _ (.ok v) => some v | _ => none

@[simp] theorem startIdx_nil : startIdx ([] : List (Event α ε)) = [] := rfl
@[simp] theorem finIdx_nil : finIdx ([] : List (Event α ε)) = [] := rfl
@[simp] theorem errsOf_nil : errsOf ([] : List (Event α ε)) = [] := rfl
@[simp] theorem oksOf_nil : oksOf ([] : List (Event α ε)) = [] := rfl

@[simp] theorem startIdx_append (a b : List (Event α ε)) : startIdx (a ++ b) = startIdx a ++ startIdx b := by
  simp [startIdx]
@[simp] theorem finIdx_append (a b : List (Event α ε)) : finIdx (a ++ b) = finIdx a ++ finIdx b := by
  simp [finIdx]
@[simp] theorem errsOf_append (a b : List (Event α ε)) : errsOf (a ++ b) = errsOf a ++ errsOf b := by
  simp [errsOf]
@[simp] theorem oksOf_append (a b : List (Event α ε)) : oksOf (a ++ b) = oksOf a ++ oksOf b := by
  simp [oksOf]

@[simp] theorem startIdx_start (i : Nat) : startIdx [(.start i : Event α ε)] = [i] := rfl
@[simp] theorem startIdx_finish (i : Nat) (r : Res α ε) : startIdx [(.finish i r : Event α ε)] = [] := rfl
@[simp] theorem finIdx_start (i : Nat) : finIdx [(.start i : Event α ε)] = [] := rfl
@[simp] theorem finIdx_finish (i : Nat) (r : Res α ε) : finIdx [(.finish i r : Event α ε)] = [i] := rfl
@[simp] theorem errsOf_start (i : Nat) : errsOf [(.start i : Event α ε)] = [] := rfl
@[simp] theorem errsOf_ok (i : Nat) (v : α) : errsOf [(.finish i (.ok v) : Event α ε)] = [] := rfl
@[simp] theorem errsOf_err (i : Nat) (e : ε) : errsOf [(.finish i (.err e) : Event α ε)] = [e] := rfl
@[simp] theorem oksOf_start (i : Nat) : oksOf [(.start i : Event α ε)] = [] := rfl
@[simp] theorem oksOf_ok (i : Nat) (v : α) : oksOf [(.finish i (.ok v) : Event α ε)] = [v] := rfl
@[simp] theorem oksOf_err (i : Nat) (e : ε) : oksOf [(.finish i (.err e) : Event α ε)] = [] := rfl

theorem finIdx_length (es : List (Event α ε)) :
    (finIdx es).length = (errsOf es).length + (oksOf es).length := by
  induction es with
  | nil => rfl
  | cons e es ih =>
    have : e :: es = [e] ++ es := rfl
    rw [this, finIdx_append, errsOf_append, oksOf_append]
    simp only [List.length_append, ih]
    cases e with
    | start i => simp
    | finish i r => cases r <;> simp <;> omega

/-! ## `run` -/

theorem run_append (s : State α ε) (a b : List (Event α ε)) :
    run s (a ++ b) = (run s a).bind fun s' => run s' b := by
  induction a generalizing s with
  | nil => simp [run]
  | cons e a ih =>
    simp only [List.cons_append, run]
    cases step s e with
    | none => simp
    | some s' => simp [ih]

theorem allDone_eq_true (s : State α ε) : allDone s = true ↔ ∀ i, i ≤ s.n → s.status i = .done := by
  simp only [allDone, List.all_eq_true, List.mem_range, beq_iff_eq]
  constructor
  · intro h i hi; exact h i (by omega)
  · intro h i hi; exact h i (by omega)

theorem allDone_eq_false (s : State α ε) : allDone s = false ↔ ∃ i, i ≤ s.n ∧ s.status i ≠ .done := by
  rw [← Bool.not_eq_true, allDone_eq_true]
  constructor
  · intro h
    apply Classical.byContradiction
    intro h'
    apply h
    intro i hi
    apply Classical.byContradiction
    intro hne
    exact h' ⟨i, hi, hne⟩
  · rintro ⟨i, hi, hne⟩ h
    exact hne (h i hi)

/-- Nothing is enabled once `stagger_call` has returned. -/
theorem step_none_of_result (s : State α ε) (e : Event α ε) (h : s.result.isSome = true) :
    step s e = none := by
  cases e with
  | start i => simp [step, Option.isNone_iff_eq_none, Option.isSome_iff_ne_none.mp h]
  | finish i r => simp [step, Option.isNone_iff_eq_none, Option.isSome_iff_ne_none.mp h]

/-! ## The invariant -/

/-- What is known about the state after the schedule `hist` has been executed from `init n`. -/
structure Inv (n : Nat) (hist : List (Event α ε)) (s : State α ε) : Prop where
  n_eq : s.n = n
  waiting_iff : ∀ i, s.status i = .waiting ↔ i ∉ startIdx hist
  done_iff : ∀ i, s.status i = .done ↔ i ∈ finIdx hist
  start_le : ∀ i, i ∈ startIdx hist → i ≤ n
  start_nodup : (startIdx hist).Nodup
  fin_nodup : (finIdx hist).Nodup
  fin_started : ∀ i, i ∈ finIdx hist → i ∈ startIdx hist
  res_none : s.result = none → oksOf hist = [] ∧ s.errors = errsOf hist ∧ allDone s = false
  res_ok : ∀ v, s.result = some (.ok v) →
    ∃ pre i, hist = pre ++ [.finish i (.ok v)] ∧ oksOf pre = []
  res_err : ∀ l, s.result = some (.error l) →
    oksOf hist = [] ∧ l = errsOf hist ∧ allDone s = true

theorem inv_init (n : Nat) : Inv n [] (init n : State α ε) where
  n_eq := rfl
  waiting_iff := by simp [init]
  done_iff := by simp [init]
  start_le := by simp
  start_nodup := by simp
  fin_nodup := by simp
  fin_started := by simp
  res_none := by
    intro _
    refine ⟨rfl, rfl, ?_⟩
    rw [allDone_eq_false]
    exact ⟨0, Nat.zero_le _, by simp [init]⟩
  res_ok := by simp [init]
  res_err := by simp [init]

theorem setStatus_self (f : Nat → Status) (i : Nat) (x : Status) : setStatus f i x i = x := by
  simp [setStatus]

theorem setStatus_ne (f : Nat → Status) (i j : Nat) (x : Status) (h : j ≠ i) :
    setStatus f i x j = f j := by
  simp [setStatus, h]

theorem inv_step_start {n : Nat} {hist : List (Event α ε)} {s s' : State α ε} {i : Nat}
    (inv : Inv n hist s) (h : step s (.start i) = some s') : Inv n (hist ++ [.start i]) s' := by
  simp only [step, Bool.and_eq_true, Option.isNone_iff_eq_none, decide_eq_true_eq, beq_iff_eq] at h
  split at h
  case isFalse => cases h
  case isTrue hc =>
    obtain ⟨⟨hres, hle⟩, hwait⟩ := hc
    cases h
    have hnotin : i ∉ startIdx hist := (inv.waiting_iff i).mp hwait
    have hnd : s.status i ≠ .done := by rw [hwait]; decide
    obtain ⟨hok, herrs, hall⟩ := inv.res_none hres
    refine
      { n_eq := inv.n_eq, waiting_iff := ?_, done_iff := ?_, start_le := ?_, start_nodup := ?_,
        fin_nodup := ?_, fin_started := ?_, res_none := ?_, res_ok := ?_, res_err := ?_ }
    · intro j
      by_cases hj : j = i
      · subst hj; simp [setStatus_self]
      · simp [setStatus_ne _ _ _ _ hj, inv.waiting_iff j, hj]
    · intro j
      by_cases hj : j = i
      · subst hj
        simp only [setStatus_self, finIdx_append, finIdx_start, List.append_nil]
        constructor
        · intro h; cases h
        · intro h; exact absurd ((inv.done_iff j).mpr h) hnd
      · simp [setStatus_ne _ _ _ _ hj, inv.done_iff j]
    · intro j hj
      simp only [startIdx_append, startIdx_start, List.mem_append, List.mem_singleton] at hj
      rcases hj with hj | hj
      · exact inv.start_le j hj
      · subst hj; rw [← inv.n_eq]; exact hle
    · simp only [startIdx_append, startIdx_start]
      rw [List.nodup_append]
      refine ⟨inv.start_nodup, by simp, ?_⟩
      intro a ha b hb
      simp only [List.mem_singleton] at hb
      subst hb
      intro hab; subst hab; exact hnotin ha
    · simpa using inv.fin_nodup
    · intro j hj
      simp only [finIdx_append, finIdx_start, List.append_nil] at hj
      simp only [startIdx_append, List.mem_append]
      exact Or.inl (inv.fin_started j hj)
    · intro _
      refine ⟨by simpa using hok, by simpa using herrs, ?_⟩
      rw [allDone_eq_false] at hall ⊢
      obtain ⟨j, hjle, hjne⟩ := hall
      refine ⟨j, hjle, ?_⟩
      by_cases hj : j = i
      · subst hj; simp [setStatus_self]
      · simpa [setStatus_ne _ _ _ _ hj] using hjne
    · intro v hv; simp [hres] at hv
    · intro l hl; simp [hres] at hl

theorem inv_step_finish {n : Nat} {hist : List (Event α ε)} {s s' : State α ε} {i : Nat}
    {r : Res α ε} (inv : Inv n hist s) (h : step s (.finish i r) = some s') :
    Inv n (hist ++ [.finish i r]) s' := by
  simp only [step, Bool.and_eq_true, Option.isNone_iff_eq_none, beq_iff_eq] at h
  split at h
  case isFalse => cases h
  case isTrue hc =>
    obtain ⟨hres, hrun⟩ := hc
    have hnw : s.status i ≠ .waiting := by rw [hrun]; decide
    have hnd : s.status i ≠ .done := by rw [hrun]; decide
    have hstarted : i ∈ startIdx hist := by
      apply Classical.byContradiction
      intro hn
      exact hnw ((inv.waiting_iff i).mpr hn)
    have hnotfin : i ∉ finIdx hist := fun hm => hnd ((inv.done_iff i).mpr hm)
    obtain ⟨hok, herrs, _⟩ := inv.res_none hres
    -- facts that do not depend on the kind of result
    have hwait' : ∀ j, setStatus s.status i .done j = .waiting ↔ j ∉ startIdx (hist ++ [.finish i r]) := by
      intro j
      by_cases hj : j = i
      · subst hj
        simp only [setStatus_self, startIdx_append, startIdx_finish, List.append_nil]
        constructor
        · intro h; cases h
        · intro h; exact absurd hstarted h
      · simp [setStatus_ne _ _ _ _ hj, inv.waiting_iff j]
    have hdone' : ∀ j, setStatus s.status i .done j = .done ↔ j ∈ finIdx (hist ++ [.finish i r]) := by
      intro j
      by_cases hj : j = i
      · subst hj; simp [setStatus_self]
      · simp [setStatus_ne _ _ _ _ hj, inv.done_iff j, hj]
    have hle' : ∀ j, j ∈ startIdx (hist ++ [.finish i r]) → j ≤ n := by
      intro j hj
      simp only [startIdx_append, startIdx_finish, List.append_nil] at hj
      exact inv.start_le j hj
    have hsn' : (startIdx (hist ++ [.finish i r])).Nodup := by simpa using inv.start_nodup
    have hfn' : (finIdx (hist ++ [.finish i r])).Nodup := by
      simp only [finIdx_append, finIdx_finish]
      rw [List.nodup_append]
      refine ⟨inv.fin_nodup, by simp, ?_⟩
      intro a ha b hb
      simp only [List.mem_singleton] at hb
      subst hb
      intro hab; subst hab; exact hnotfin ha
    have hfs' : ∀ j, j ∈ finIdx (hist ++ [.finish i r]) → j ∈ startIdx (hist ++ [.finish i r]) := by
      intro j hj
      simp only [finIdx_append, finIdx_finish, List.mem_append, List.mem_singleton] at hj
      simp only [startIdx_append, startIdx_finish, List.append_nil]
      rcases hj with hj | hj
      · exact inv.fin_started j hj
      · subst hj; exact hstarted
    cases r with
    | ok v =>
      cases h
      exact
        { n_eq := inv.n_eq, waiting_iff := hwait', done_iff := hdone', start_le := hle',
          start_nodup := hsn', fin_nodup := hfn', fin_started := hfs',
          res_none := by intro h; cases h
          res_ok := by
            intro w hw
            simp only [Option.some.injEq, Except.ok.injEq] at hw
            subst hw
            exact ⟨hist, i, rfl, hok⟩
          res_err := by intro l hl; cases hl }
    | err e =>
      simp only [Option.some.injEq] at h
      subst h
      refine
        { n_eq := inv.n_eq, waiting_iff := hwait', done_iff := hdone', start_le := hle',
          start_nodup := hsn', fin_nodup := hfn', fin_started := hfs',
          res_none := ?_, res_ok := ?_, res_err := ?_ }
      · intro hr
        simp only at hr
        split at hr
        · cases hr
        · rename_i hall
          refine ⟨by simpa using hok, by simp [herrs], ?_⟩
          simpa [allDone] using hall
      · intro v hv
        simp only at hv
        split at hv <;> cases hv
      · intro l hl
        simp only at hl
        split at hl
        · rename_i hall
          simp only [Option.some.injEq, Except.error.injEq] at hl
          subst hl
          refine ⟨by simpa using hok, by simp [herrs], ?_⟩
          simpa [allDone] using hall
        · cases hl

theorem inv_step {n : Nat} {hist : List (Event α ε)} {s s' : State α ε} {e : Event α ε}
    (inv : Inv n hist s) (h : step s e = some s') : Inv n (hist ++ [e]) s' := by
  cases e with
  | start i => exact inv_step_start inv h
  | finish i r => exact inv_step_finish inv h

theorem inv_run {n : Nat} (es : List (Event α ε)) :
    ∀ (hist : List (Event α ε)) (s s' : State α ε), Inv n hist s → run s es = some s' →
      Inv n (hist ++ es) s' := by
  induction es with
  | nil => intro hist s s' inv h; simp only [run, Option.some.injEq] at h; subst h; simpa using inv
  | cons e es ih =>
    intro hist s s' inv h
    simp only [run] at h
    cases hs : step s e with
    | none => simp [hs] at h
    | some s1 =>
      simp only [hs, Option.bind_some] at h
      have := ih (hist ++ [e]) s1 s' (inv_step inv hs) h
      simpa using this

/-- The invariant holds after every executable schedule. -/
theorem inv_of_run {n : Nat} {es : List (Event α ε)} {s : State α ε}
    (h : run (init n) es = some s) : Inv n es s := by
  simpa using inv_run es [] (init n) s (inv_init n) h

end IrohModel.C34
