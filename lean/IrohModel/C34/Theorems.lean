/-
C34 — property theorems (only).  Statement of the property:

  For any list of stagger delays, a staggered lookup starts one attempt immediately and
  one per delay within ±20% of that delay, returns the first successful result, and
  otherwise returns an error carrying every attempt's error; it never panics.

`jitter_*` are about the `u64` arithmetic of `add_jitter` for every delay and every random
value.  The `run` theorems hold for every executable schedule `es` of the `stagger_call`
transition system, i.e. for every order and timing in which attempts start, succeed, fail
or never answer.  The `timeline` theorems tie the instants at which the timed scheduler
(the part compared with the real code) issues lookups to `add_jitter`.
-/
import IrohModel.C34.Lemmas

namespace IrohModel.C34

variable {α ε : Type}

/-! ### never panics / within ±20 % -/

/-- `add_jitter` never takes the panic outcome, for any delay and any random value. -/
theorem jitter_total (d r : Nat) : ∃ v, addJitter d r = some v := by
  unfold addJitter
  by_cases hd : d = 0
  · exact ⟨0, by simp [hd]⟩
  · by_cases hm : maxJitter d = 0
    · exact ⟨d, by simp [hd, hm]⟩
    · simp [hd, hm, checkedRem]

/-- The jittered delay is a `u64` within ±20 % of the delay (`|v − d| ≤ d / 5`), and
delay 0 stays 0 ("one attempt immediately"). -/
theorem jitter_within_20pct (d r v : Nat) (hd : d ≤ u64Max) (h : addJitter d r = some v) :
    5 * (d - v) ≤ d ∧ 5 * (v - d) ≤ d ∧ v ≤ u64Max ∧ (d = 0 → v = 0) := by
  unfold addJitter at h
  by_cases hd0 : d = 0
  · simp [hd0] at h; subst h; simp [hd0]
  · simp only [hd0, if_false] at h
    by_cases hm : maxJitter d = 0
    · simp only [hm, if_true, Option.some.injEq] at h
      subst h
      exact ⟨by omega, by omega, hd, fun h => absurd h hd0⟩
    · simp only [hm, if_false, checkedRem, Option.map_some, Option.some.injEq] at h
      have hj : r % maxJitter d < maxJitter d := Nat.mod_lt _ (Nat.pos_of_ne_zero hm)
      have hmj : maxJitter d * 100 ≤ d * 40 := by
        unfold maxJitter satMul
        simp only [Generated.C34.maxJitterPercent, Generated.C34.jitterSpanFactor,
          Generated.C34.jitterDivisor]
        split <;> omega
      generalize maxJitter d = mj at *
      generalize r % mj = j at *
      unfold satAdd satSub at h
      unfold u64Max at *
      split at h <;> omega

/-- Record of defect D15: before the `fix:` commit the function panicked exactly for the
delays 1 ms and 2 ms (whatever the random value). -/
theorem original_panics_iff (d r : Nat) (hd : d ≤ u64Max) :
    addJitterOriginal d r = none ↔ d = 1 ∨ d = 2 := by
  unfold addJitterOriginal
  by_cases hd0 : d = 0
  · simp [hd0]
  · have key : maxJitter d = 0 ↔ d = 1 ∨ d = 2 := by
      unfold maxJitter satMul
      simp only [Generated.C34.maxJitterPercent, Generated.C34.jitterSpanFactor,
        Generated.C34.jitterDivisor]
      unfold u64Max at *
      split <;> omega
    simp only [hd0, if_false, checkedRem]
    by_cases hm : maxJitter d = 0
    · simp [hm, ← key]
    · simp [hm, ← key]

/-! ### returns the first successful result -/

/-- After any executable schedule, `stagger_call` has returned `Ok v` iff `v` is the value of
the first attempt that succeeded; in particular it has returned `Ok` as soon as any attempt
succeeded. -/
theorem first_success {n : Nat} {es : List (Event α ε)} {s : State α ε}
    (h : run (init n) es = some s) (v : α) :
    s.result = some (.ok v) ↔ (oksOf es).head? = some v := by
  have inv := inv_of_run h
  constructor
  · intro hv
    obtain ⟨pre, i, hes, hpre⟩ := inv.res_ok v hv
    simp [hes, hpre]
  · intro hv
    cases hr : s.result with
    | none => simp [(inv.res_none hr).1] at hv
    | some x =>
      cases x with
      | error l => simp [(inv.res_err l hr).1] at hv
      | ok w =>
        obtain ⟨pre, i, hes, hpre⟩ := inv.res_ok w hr
        simp [hes, hpre] at hv
        simp [hv]

/-- The return happens at the success itself: the schedule ends with the first successful
attempt (everything still pending is dropped) and no earlier attempt had succeeded. -/
theorem success_returns_at_once {n : Nat} {es : List (Event α ε)} {s : State α ε}
    (h : run (init n) es = some s) (v : α) (hv : s.result = some (.ok v)) :
    ∃ pre i, es = pre ++ [.finish i (.ok v)] ∧ oksOf pre = [] :=
  (inv_of_run h).res_ok v hv

/-! ### otherwise an error carrying every attempt's error -/

/-- If `stagger_call` returned an error then no attempt succeeded, each of the `n + 1`
attempts ran and failed exactly once, and the error carries exactly their errors (in
completion order). -/
theorem all_errors_collected {n : Nat} {es : List (Event α ε)} {s : State α ε}
    (h : run (init n) es = some s) (l : List ε) (hl : s.result = some (.error l)) :
    l = errsOf es ∧ oksOf es = [] ∧ l.length = n + 1 ∧
    (∀ i, i ≤ n → i ∈ finIdx es) ∧ (finIdx es).Nodup := by
  have inv := inv_of_run h
  obtain ⟨hok, hle, hall⟩ := inv.res_err l hl
  have hcover : ∀ i, i ≤ n → i ∈ finIdx es := by
    intro i hi
    rw [allDone_eq_true] at hall
    exact (inv.done_iff i).mp (hall i (by rw [inv.n_eq]; exact hi))
  refine ⟨hle, hok, ?_, hcover, inv.fin_nodup⟩
  have hperm : (finIdx es).Perm (List.range (n + 1)) := by
    rw [List.perm_ext_iff_of_nodup inv.fin_nodup List.nodup_range]
    intro i
    rw [List.mem_range]
    constructor
    · intro hi; have := inv.start_le i (inv.fin_started i hi); omega
    · intro hi; exact hcover i (by omega)
  have hlen := hperm.length_eq
  rw [finIdx_length, hok, List.length_range] at hlen
  subst hle
  simpa using hlen

/-- Conversely, once every attempt has failed the error has been returned; and as long as
some attempt is outstanding and none succeeded, nothing has been returned. -/
theorem error_iff_all_failed {n : Nat} {es : List (Event α ε)} {s : State α ε}
    (h : run (init n) es = some s) :
    (∃ l, s.result = some (.error l)) ↔ (oksOf es = [] ∧ ∀ i, i ≤ n → i ∈ finIdx es) := by
  have inv := inv_of_run h
  constructor
  · rintro ⟨l, hl⟩
    obtain ⟨_, hok, _, hcover, _⟩ := all_errors_collected h l hl
    exact ⟨hok, hcover⟩
  · rintro ⟨hok, hcover⟩
    cases hr : s.result with
    | none =>
      obtain ⟨_, _, hall⟩ := inv.res_none hr
      rw [allDone_eq_false] at hall
      obtain ⟨i, hi, hne⟩ := hall
      exact absurd ((inv.done_iff i).mpr (hcover i (by rw [← inv.n_eq]; exact hi))) hne
    | some x =>
      cases x with
      | error l => exact ⟨l, rfl⟩
      | ok w =>
        obtain ⟨pre, i, hes, _⟩ := inv.res_ok w hr
        simp [hes] at hok

/-! ### one attempt per delay plus one -/

/-- Lookups are issued only by the `n + 1` attempt slots (slot 0 = the immediate attempt,
slot `i + 1` = `delays[i]`), each at most once; a lookup has been issued by every slot when
an error is returned. -/
theorem one_attempt_per_delay_plus_one {n : Nat} {es : List (Event α ε)} {s : State α ε}
    (h : run (init n) es = some s) :
    (startIdx es).Nodup ∧ (∀ i, i ∈ startIdx es → i ≤ n) ∧ (startIdx es).length ≤ n + 1 ∧
    (∀ l, s.result = some (.error l) → (startIdx es).length = n + 1) := by
  have inv := inv_of_run h
  have hsub : startIdx es ⊆ List.range (n + 1) := by
    intro i hi
    rw [List.mem_range]
    have := inv.start_le i hi
    omega
  have hlen : (startIdx es).length ≤ n + 1 := by
    simpa using inv.start_nodup.length_le_of_subset hsub
  refine ⟨inv.start_nodup, inv.start_le, hlen, ?_⟩
  intro l hl
  obtain ⟨_, _, _, hcover, _⟩ := all_errors_collected h l hl
  have hsub' : List.range (n + 1) ⊆ startIdx es := by
    intro i hi
    rw [List.mem_range] at hi
    exact inv.fin_started i (hcover i (by omega))
  have := List.nodup_range.length_le_of_subset hsub'
  simp at this
  omega

/-! ### the timed scheduler issues attempt `i` at `add_jitter(delays[i])` -/

theorem mem_callOrder {fires : List Nat} {slot t : Nat} (h : (slot, t) ∈ callOrder fires) :
    fires[slot]? = some t := by
  simp only [callOrder, List.mem_mergeSort, List.mem_map, Prod.mk.injEq] at h
  obtain ⟨⟨t', i⟩, hmem, h1, h2⟩ := h
  rw [List.mem_zipIdx_iff_getElem?] at hmem
  simp only at hmem h1 h2
  subst h1; subst h2
  exact hmem

theorem jitterAll_getElem? {ds : List (Nat × Nat)} {l : List Nat} (h : jitterAll ds = some l)
    {i t : Nat} (ht : l[i]? = some t) :
    ∃ d r, ds[i]? = some (d, r) ∧ addJitter d r = some t := by
  induction ds generalizing l i with
  | nil => simp [jitterAll] at h; subst h; simp at ht
  | cons p rest ih =>
    obtain ⟨d, r⟩ := p
    unfold jitterAll at h
    cases hv : addJitter d r with
    | none => simp [hv] at h
    | some v =>
      cases hvs : jitterAll rest with
      | none => simp [hv, hvs] at h
      | some vs =>
        simp only [hv, hvs, Option.some.injEq] at h
        subst h
        cases i with
        | zero => simp at ht; subst ht; exact ⟨d, r, by simp, hv⟩
        | succ i => simpa using ih hvs (by simpa using ht)

/-- In the timeline handed to the transition system, the lookup of slot 0 is issued at time
0 and the lookup of slot `i + 1` at exactly `add_jitter(delays[i])`, which is within ±20 % of
`delays[i]`. -/
theorem start_times_jittered (sc : Scenario) (fires : List Nat) (hf : fireTimes sc = some fires)
    (hd : ∀ p, p ∈ sc.delays → p.1 ≤ u64Max)
    (key : Nat × Nat × Nat) (slot : Nat)
    (hmem : (key, Event.start slot) ∈ timeline sc fires) :
    (slot = 0 ∧ key.1 = 0) ∨
    (∃ i d r, slot = i + 1 ∧ sc.delays[i]? = some (d, r) ∧ addJitter d r = some key.1 ∧
      5 * (d - key.1) ≤ d ∧ 5 * (key.1 - d) ≤ d) := by
  have hfire : fires[slot]? = some key.1 := by
    simp only [timeline, List.mem_filter, List.mem_mergeSort, List.mem_append, List.mem_map] at hmem
    obtain ⟨hmem, _⟩ := hmem
    rcases hmem with ⟨⟨⟨sl, s⟩, k⟩, hin, heq⟩ | ⟨⟨⟨sl, s⟩, k⟩, _, heq⟩
    · simp only [Prod.mk.injEq, Event.start.injEq] at heq
      obtain ⟨hk, hs⟩ := heq
      subst hs
      have := mem_callOrder (List.mem_zipIdx_iff_getElem?.mp hin |> fun h => by
        have := List.mem_of_getElem? h
        exact this)
      rw [← hk]; exact this
    · simp at heq
  unfold fireTimes at hf
  cases hm : jitterAll sc.delays with
  | none => simp [hm] at hf
  | some l =>
    simp only [hm, Option.map_some, Option.some.injEq] at hf
    subst hf
    cases slot with
    | zero => left; simp at hfire; exact ⟨rfl, hfire.symm⟩
    | succ i =>
      right
      simp only [List.getElem?_cons_succ] at hfire
      obtain ⟨d, r, hdel, hj⟩ := jitterAll_getElem? hm hfire
      have hb := hd (d, r) (List.mem_of_getElem? hdel)
      have := jitter_within_20pct d r key.1 hb hj
      exact ⟨i, d, r, rfl, hdel, hj, this.1, this.2.1⟩

/-- The state the scheduler ends in is the result of an executable schedule, so every
theorem above about `run` applies to what the driver (and hence the compared
implementation run) reports. -/
theorem simulate_is_schedule {α : Type} (n : Nat) (tl : List ((Nat × Nat × Nat) × Event α String)) :
    ∀ (tr : Trace α), (∃ es, run (init n) es = some tr.state) →
      ∃ es, run (init n) es = some (runTimeline tr tl).state := by
  induction tl with
  | nil => intro tr h; simpa [runTimeline] using h
  | cons x tl ih =>
    intro tr h
    obtain ⟨key, ev⟩ := x
    unfold runTimeline
    split
    · exact h
    · cases hs : step tr.state ev with
      | none => simpa using h
      | some s' =>
        simp only
        apply ih
        obtain ⟨es, hes⟩ := h
        exact ⟨es ++ [ev], by simp [run_append, hes, run, hs]⟩

/-! ### `lookup_ipv4_ipv6_staggered`: what "first success" means for the merged call

Every attempt is `tokio::join!(lookup_ipv4, lookup_ipv6)`.  On the level of the family
lookups a schedule is a list of `FEvent`s; `coarsenK` is the `join!`. -/

/-- Addresses a family lookup contributes. -/
def addrsOfF : FRes → List Nat
  | .ok a => a
  | .err _ => []

/-- An attempt of the merged lookup succeeds iff at least one of its two family lookups did,
and then its value is the IPv4 addresses followed by the IPv6 addresses (a failed family
contributes nothing). -/
theorem merge_ok_iff (r4 r6 : FRes) (v : List Nat) :
    mergeRes r4 r6 = .ok v ↔
      ((∃ a, r4 = .ok a) ∨ (∃ b, r6 = .ok b)) ∧ v = addrsOfF r4 ++ addrsOfF r6 := by
  cases r4 <;> cases r6 <;> simp [mergeRes, addrsOfF, eq_comm]

/-- It fails iff both family lookups failed, and the error names both errors. -/
theorem merge_err_iff (r4 r6 : FRes) (e : String) :
    mergeRes r4 r6 = .err e ↔ ∃ e4 e6, r4 = .err e4 ∧ r6 = .err e6 ∧ e = s!"B:{e4}/{e6}" := by
  cases r4 <;> cases r6 <;> simp [mergeRes, eq_comm]

/-- `join!` passes attempt starts through unchanged. -/
theorem coarsen_start {κ : Type} (es : List (κ × FEvent)) :
    ∀ (pend : List (Nat × Fam × FRes)) (k : κ) (i : Nat),
      (k, Event.start i) ∈ coarsenK pend es ↔ (k, FEvent.start i) ∈ es := by
  induction es with
  | nil => intro pend k i; simp [coarsenK]
  | cons x rest ih =>
    intro pend k i
    obtain ⟨k', ev⟩ := x
    cases ev with
    | start j =>
      simp only [coarsenK, List.mem_cons, Prod.mk.injEq, Event.start.injEq, FEvent.start.injEq]
      rw [ih]
    | fin f j r =>
      simp only [coarsenK]
      split
      · simp only [List.mem_cons, Prod.mk.injEq, reduceCtorEq, and_false, false_or]
        rw [ih]
      · simp only [List.mem_cons, Prod.mk.injEq, reduceCtorEq, and_false, false_or]
        rw [ih]

/-- An attempt of the merged lookup ends only when BOTH of its family lookups have ended, with
the merge of their two results (each taken from the schedule, or parked in `pend`). -/
theorem coarsen_finish_needs_both {κ : Type} (es : List (κ × FEvent)) :
    ∀ (pend : List (Nat × Fam × FRes)) (k : κ) (i : Nat) (x : FRes),
      (k, Event.finish i x) ∈ coarsenK pend es →
      ∃ r4 r6, x = mergeRes r4 r6 ∧
        ((i, Fam.v4, r4) ∈ pend ∨ ∃ k4, (k4, FEvent.fin .v4 i r4) ∈ es) ∧
        ((i, Fam.v6, r6) ∈ pend ∨ ∃ k6, (k6, FEvent.fin .v6 i r6) ∈ es) := by
  induction es with
  | nil => intro pend k i x h; simp [coarsenK] at h
  | cons y rest ih =>
    intro pend k i x h
    obtain ⟨k', ev⟩ := y
    cases ev with
    | start j =>
      simp only [coarsenK, List.mem_cons, Prod.mk.injEq, reduceCtorEq, and_false, false_or] at h
      obtain ⟨r4, r6, hx, h4, h6⟩ := ih pend k i x h
      refine ⟨r4, r6, hx, ?_, ?_⟩
      · rcases h4 with h4 | ⟨k4, h4⟩
        · exact Or.inl h4
        · exact Or.inr ⟨k4, List.mem_cons_of_mem _ h4⟩
      · rcases h6 with h6 | ⟨k6, h6⟩
        · exact Or.inl h6
        · exact Or.inr ⟨k6, List.mem_cons_of_mem _ h6⟩
    | fin f j r =>
      simp only [coarsenK] at h
      cases hfind : pend.find? (fun p => p.1 == j && p.2.1 != f) with
      | some p =>
        obtain ⟨pi, pf, pr⟩ := p
        rw [hfind] at h
        simp only at h
        have hmem := List.mem_of_find?_eq_some hfind
        have hprop := List.find?_some hfind
        simp only [Bool.and_eq_true, beq_iff_eq, bne_iff_ne, ne_eq] at hprop
        obtain ⟨hpi, hpf⟩ := hprop
        subst hpi
        simp only [List.mem_cons, Prod.mk.injEq, Event.finish.injEq] at h
        rcases h with ⟨_, hi, hx⟩ | h
        · subst hi
          cases f with
          | v4 =>
            have : pf = Fam.v6 := by cases pf <;> simp_all
            subst this
            exact ⟨r, pr, hx, Or.inr ⟨k', List.mem_cons_self⟩, Or.inl hmem⟩
          | v6 =>
            have : pf = Fam.v4 := by cases pf <;> simp_all
            subst this
            exact ⟨pr, r, hx, Or.inl hmem, Or.inr ⟨k', List.mem_cons_self⟩⟩
        · obtain ⟨r4, r6, hx, h4, h6⟩ := ih _ k i x h
          refine ⟨r4, r6, hx, ?_, ?_⟩
          · rcases h4 with h4 | ⟨k4, h4⟩
            · exact Or.inl (List.mem_filter.mp h4).1
            · exact Or.inr ⟨k4, List.mem_cons_of_mem _ h4⟩
          · rcases h6 with h6 | ⟨k6, h6⟩
            · exact Or.inl (List.mem_filter.mp h6).1
            · exact Or.inr ⟨k6, List.mem_cons_of_mem _ h6⟩
      | none =>
        rw [hfind] at h
        simp only at h
        obtain ⟨r4, r6, hx, h4, h6⟩ := ih _ k i x h
        refine ⟨r4, r6, hx, ?_, ?_⟩
        · rcases h4 with h4 | ⟨k4, h4⟩
          · simp only [List.mem_cons, Prod.mk.injEq] at h4
            rcases h4 with ⟨h1, h2, h3⟩ | h4
            · subst h1; subst h2; subst h3; exact Or.inr ⟨k', List.mem_cons_self⟩
            · exact Or.inl h4
          · exact Or.inr ⟨k4, List.mem_cons_of_mem _ h4⟩
        · rcases h6 with h6 | ⟨k6, h6⟩
          · simp only [List.mem_cons, Prod.mk.injEq] at h6
            rcases h6 with ⟨h1, h2, h3⟩ | h6
            · subst h1; subst h2; subst h3; exact Or.inr ⟨k', List.mem_cons_self⟩
            · exact Or.inl h6
          · exact Or.inr ⟨k6, List.mem_cons_of_mem _ h6⟩

/-- First success of the merged staggered lookup.  For any schedule `es` of attempt starts and
family-lookup completions: the call has returned `Ok v` iff `v` is the value of the first
attempt — in the order in which attempts END, an attempt ending with the later of its two
lookups — whose merged result is a success; and then `v` is the merge of an IPv4 and an
IPv6 result of one and the same attempt, both of which occur in the schedule. -/
theorem merged_first_success {κ : Type} {n : Nat} (es : List (κ × FEvent)) {s : State (List Nat) String}
    (h : run (init n) ((coarsenK [] es).map (·.2)) = some s) (v : List Nat) :
    (s.result = some (.ok v) ↔ (oksOf ((coarsenK [] es).map (·.2))).head? = some v) ∧
    (s.result = some (.ok v) →
      ∃ i r4 r6 k4 k6, (k4, FEvent.fin .v4 i r4) ∈ es ∧ (k6, FEvent.fin .v6 i r6) ∈ es ∧
        mergeRes r4 r6 = .ok v ∧ v = addrsOfF r4 ++ addrsOfF r6) := by
  refine ⟨first_success h v, ?_⟩
  intro hv
  obtain ⟨pre, i, hes, _⟩ := success_returns_at_once h v hv
  have hmem : Event.finish i (Res.ok v) ∈ (coarsenK [] es).map (·.2) := by rw [hes]; simp
  simp only [List.mem_map] at hmem
  obtain ⟨⟨k, ev⟩, hk, hev⟩ := hmem
  simp only at hev
  subst hev
  obtain ⟨r4, r6, hx, h4, h6⟩ := coarsen_finish_needs_both es [] k i _ hk
  simp only [List.not_mem_nil, false_or] at h4 h6
  obtain ⟨k4, h4⟩ := h4
  obtain ⟨k6, h6⟩ := h6
  exact ⟨i, r4, r6, k4, k6, h4, h6, hx.symm, ((merge_ok_iff r4 r6 v).mp hx.symm).2⟩

/-- In the merged timeline too, the lookups of slot 0 are issued at time 0 and those of slot
`i + 1` at exactly `add_jitter(delays[i])`, within ±20 % of `delays[i]`. -/
theorem start_times_jittered_both (sc : Scenario) (fires : List Nat) (hf : fireTimes sc = some fires)
    (hd : ∀ p, p ∈ sc.delays → p.1 ≤ u64Max)
    (key : Nat × Nat × Nat) (slot : Nat)
    (hmem : (key, Event.start slot) ∈ timelineBoth sc fires) :
    (slot = 0 ∧ key.1 = 0) ∨
    (∃ i d r, slot = i + 1 ∧ sc.delays[i]? = some (d, r) ∧ addJitter d r = some key.1 ∧
      5 * (d - key.1) ≤ d ∧ 5 * (key.1 - d) ≤ d) := by
  have hfire : fires[slot]? = some key.1 := by
    unfold timelineBoth at hmem
    rw [coarsen_start] at hmem
    simp only [fineTimeline, List.mem_filter, List.mem_mergeSort, List.mem_append, List.mem_map] at hmem
    obtain ⟨hmem, _⟩ := hmem
    rcases hmem with (⟨⟨⟨sl, s⟩, k⟩, hin, heq⟩ | ⟨⟨⟨sl, s⟩, k⟩, _, heq⟩) | ⟨⟨⟨sl, s⟩, k⟩, _, heq⟩
    · simp only [Prod.mk.injEq, FEvent.start.injEq] at heq
      obtain ⟨hk, hs⟩ := heq
      subst hs
      have := mem_callOrder (List.mem_of_getElem? (List.mem_zipIdx_iff_getElem?.mp hin))
      rw [← hk]; exact this
    · simp at heq
    · simp at heq
  unfold fireTimes at hf
  cases hm : jitterAll sc.delays with
  | none => simp [hm] at hf
  | some l =>
    simp only [hm, Option.map_some, Option.some.injEq] at hf
    subst hf
    cases slot with
    | zero => left; simp at hfire; exact ⟨rfl, hfire.symm⟩
    | succ i =>
      right
      simp only [List.getElem?_cons_succ] at hfire
      obtain ⟨d, r, hdel, hj⟩ := jitterAll_getElem? hm hfire
      have hb := hd (d, r) (List.mem_of_getElem? hdel)
      have := jitter_within_20pct d r key.1 hb hj
      exact ⟨i, d, r, rfl, hdel, hj, this.1, this.2.1⟩

/-! ### non-vacuity -/

-- a schedule in which the third attempt is the first to succeed
example : ∃ s : State Nat String,
    run (init 2) [.start 0, .start 1, .finish 0 (.err "e0"), .start 2, .finish 2 (.ok 7)] = some s ∧
    s.result = some (.ok 7) := ⟨_, rfl, rfl⟩
-- a schedule in which every attempt fails
example : ∃ s : State Nat String,
    run (init 1) [.start 0, .start 1, .finish 1 (.err "b"), .finish 0 (.err "a")] = some s ∧
    s.result = some (.error ["b", "a"]) := ⟨_, rfl, rfl⟩
-- jitter: 100 ms with random value 7 is 87 ms; 1 ms and 2 ms are left alone
example : addJitter 100 7 = some 87 ∧ addJitter 1 7 = some 1 ∧ addJitter 2 7 = some 2 := by decide
-- saturation at the top of the range
example : addJitter u64Max 0 = some (u64Max - 92233720368547758) := by decide
-- jittered sleeps of a concrete scenario (hypothesis of `start_times_jittered`)
example : fireTimes (Scenario.mk 100 400 [(100, 0), (50, 39)] []) = some [0, 80, 59] := by decide

end IrohModel.C34

namespace IrohModel.C34
-- merged lookup: attempt 0's IPv6 lookup fails, its IPv4 lookup succeeds later; attempt 1 fails
-- in between; the value is attempt 0's IPv4 answer, returned when the later lookup ended
example : ∃ s : State (List Nat) String,
    run (init 1) ((coarsenK [] [((), FEvent.start 0), ((), .fin .v6 0 (.err "e1")), ((), .start 1),
      ((), .fin .v4 1 (.err "e2")), ((), .fin .v6 1 (.err "e3")), ((), .fin .v4 0 (.ok [0]))]).map (·.2)) = some s ∧
    s.result = some (.ok [0]) := ⟨_, rfl, rfl⟩
end IrohModel.C34
