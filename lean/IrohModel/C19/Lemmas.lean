/-
C19 — helper lemmas: stable sort, the bind loop, `find?`-based routing.
-/
import IrohModel.C19.Model
import IrohModel.C20.Theorems

namespace IrohModel.C19

/-! ### Stable sort by prefix length, descending -/

/-- Sorted by prefix length, longest first. -/
def SortedDesc (l : List Cfg) : Prop := List.Pairwise (fun a b => b.prefixLen ≤ a.prefixLen) l

theorem insertDesc_perm (c : Cfg) (l : List Cfg) : (insertDesc c l).Perm (c :: l) := by
  induction l with
  | nil => exact List.Perm.refl _
  | cons d ds ih =>
    simp only [insertDesc]
    split
    · exact List.Perm.refl _
    · exact (List.Perm.cons d ih).trans (List.Perm.swap c d ds)

theorem sortDesc_perm (l : List Cfg) : (sortDesc l).Perm l := by
  induction l with
  | nil => exact List.Perm.refl _
  | cons c cs ih => exact (insertDesc_perm c _).trans (List.Perm.cons c ih)

theorem mem_insertDesc {c x : Cfg} {l : List Cfg} : x ∈ insertDesc c l ↔ x = c ∨ x ∈ l := by
  rw [(insertDesc_perm c l).mem_iff]; simp

theorem mem_sortDesc {x : Cfg} {l : List Cfg} : x ∈ sortDesc l ↔ x ∈ l :=
  (sortDesc_perm l).mem_iff

theorem insertDesc_sorted (c : Cfg) (l : List Cfg) (h : SortedDesc l) : SortedDesc (insertDesc c l) := by
  induction l with
  | nil => simp [insertDesc, SortedDesc]
  | cons d ds ih =>
    simp only [insertDesc]
    have hd := List.pairwise_cons.mp h
    split
    · rename_i hle
      apply List.pairwise_cons.mpr
      refine ⟨?_, h⟩
      intro x hx
      rcases List.mem_cons.mp hx with rfl | hx
      · exact hle
      · exact Nat.le_trans (hd.1 x hx) hle
    · rename_i hle
      apply List.pairwise_cons.mpr
      refine ⟨?_, ih hd.2⟩
      intro x hx
      rcases mem_insertDesc.mp hx with rfl | hx
      · omega
      · exact hd.1 x hx

theorem sortDesc_sorted (l : List Cfg) : SortedDesc (sortDesc l) := by
  induction l with
  | nil => simp [sortDesc, SortedDesc]
  | cons c cs ih => exact insertDesc_sorted c _ ih

/-- Stability: the sockets with one given prefix length keep their relative order. -/
theorem insertDesc_filter (p : Nat) (c : Cfg) (l : List Cfg) :
    (insertDesc c l).filter (fun x => x.prefixLen == p) =
      (if c.prefixLen == p then [c] else []) ++ l.filter (fun x => x.prefixLen == p) := by
  induction l with
  | nil => simp [insertDesc, List.filter_cons]
  | cons d ds ih =>
    simp only [insertDesc]
    split
    · simp only [List.filter_cons]
      split <;> simp
    · rename_i hle
      rw [List.filter_cons, ih]
      by_cases hc : c.prefixLen = p
      · have hd : ¬ d.prefixLen = p := by omega
        simp [hc, hd]
      · simp [hc, List.filter_cons]

theorem sortDesc_filter (p : Nat) (l : List Cfg) :
    (sortDesc l).filter (fun x => x.prefixLen == p) = l.filter (fun x => x.prefixLen == p) := by
  induction l with
  | nil => simp [sortDesc]
  | cons c cs ih =>
    simp only [sortDesc]
    rw [insertDesc_filter, ih, List.filter_cons]
    split <;> simp

/-! ### The bind loop -/

/-- Successfully bound sockets of family `f`, in configuration order. -/
def boundOf (f : Fam) (cfgs : List Cfg) : List Cfg := cfgs.filter (fun c => c.bindOk && c.fam == f)

theorem boundOf_cons (f : Fam) (c : Cfg) (cs : List Cfg) :
    boundOf f (c :: cs) = (if (c.bindOk && c.fam == f) = true then [c] else []) ++ boundOf f cs := by
  simp only [boundOf, List.filter_cons]; split <;> simp

theorem bindLoop_spec (cs : List Cfg) :
    ∀ (v4 v6 : List Cfg) (h4 h6 : Bool) (r4 r6 : List Cfg),
      h4 = v4.any (·.isDefault) → h6 = v6.any (·.isDefault) →
      ((v4.filter (·.isDefault)).length ≤ 1) → ((v6.filter (·.isDefault)).length ≤ 1) →
      bindLoop cs v4 v6 h4 h6 = .ok (r4, r6) →
      r4 = v4.reverse ++ boundOf .v4 cs ∧ r6 = v6.reverse ++ boundOf .v6 cs ∧
      (r4.filter (·.isDefault)).length ≤ 1 ∧ (r6.filter (·.isDefault)).length ≤ 1 ∧
      (∀ c ∈ cs, c.bindOk = false → c.required = false) := by
  induction cs with
  | nil =>
    intro v4 v6 h4 h6 r4 r6 _ _ hl4 hl6 h
    simp only [bindLoop, Except.ok.injEq, Prod.mk.injEq] at h
    obtain ⟨rfl, rfl⟩ := h
    refine ⟨by simp [boundOf], by simp [boundOf], ?_, ?_, by simp⟩
    · rw [List.filter_reverse, List.length_reverse]; exact hl4
    · rw [List.filter_reverse, List.length_reverse]; exact hl6
  | cons c cs ih =>
    intro v4 v6 h4 h6 r4 r6 hh4 hh6 hl4 hl6 h
    simp only [bindLoop] at h
    by_cases hb : c.bindOk = true
    · simp only [hb, if_true] at h
      cases hf : c.fam with
      | v4 =>
        simp only [hf] at h
        split at h
        · cases h
        · rename_i hdup
          have hnd : ¬ (c.isDefault = true ∧ h4 = true) := by simpa using hdup
          have := ih (c :: v4) v6 (h4 || c.isDefault) h6 r4 r6
            (by simp [hh4, Bool.or_comm]) hh6
            (by
              rw [List.filter_cons]
              split
              · rename_i hd
                have h4f : h4 = false := by
                  cases h4 with
                  | false => rfl
                  | true => exact absurd ⟨hd, rfl⟩ hnd
                have hnone : v4.filter (·.isDefault) = [] := by
                  apply List.filter_eq_nil_iff.mpr
                  intro x hx hxd
                  have : v4.any (·.isDefault) = true := List.any_eq_true.mpr ⟨x, hx, hxd⟩
                  rw [← hh4, h4f] at this; cases this
                simp [hnone]
              · exact hl4)
            hl6 h
          obtain ⟨e4, e6, l4, l6, hreq⟩ := this
          refine ⟨?_, ?_, l4, l6, ?_⟩
          · rw [e4, boundOf_cons]; simp [hb, hf]
          · rw [e6, boundOf_cons]; simp [hf]
          · intro x hx hxb
            rcases List.mem_cons.mp hx with rfl | hx
            · rw [hb] at hxb; cases hxb
            · exact hreq x hx hxb
      | v6 =>
        simp only [hf] at h
        split at h
        · cases h
        · rename_i hdup
          have hnd : ¬ (c.isDefault = true ∧ h6 = true) := by simpa using hdup
          have := ih v4 (c :: v6) h4 (h6 || c.isDefault) r4 r6
            hh4 (by simp [hh6, Bool.or_comm]) hl4
            (by
              rw [List.filter_cons]
              split
              · rename_i hd
                have h6f : h6 = false := by
                  cases h6 with
                  | false => rfl
                  | true => exact absurd ⟨hd, rfl⟩ hnd
                have hnone : v6.filter (·.isDefault) = [] := by
                  apply List.filter_eq_nil_iff.mpr
                  intro x hx hxd
                  have : v6.any (·.isDefault) = true := List.any_eq_true.mpr ⟨x, hx, hxd⟩
                  rw [← hh6, h6f] at this; cases this
                simp [hnone]
              · exact hl6)
            h
          obtain ⟨e4, e6, l4, l6, hreq⟩ := this
          refine ⟨?_, ?_, l4, l6, ?_⟩
          · rw [e4, boundOf_cons]; simp [hf]
          · rw [e6, boundOf_cons]; simp [hb, hf]
          · intro x hx hxb
            rcases List.mem_cons.mp hx with rfl | hx
            · rw [hb] at hxb; cases hxb
            · exact hreq x hx hxb
    · have hb' : c.bindOk = false := by simpa using hb
      simp only [hb', Bool.false_eq_true, if_false] at h
      split at h
      · cases h
      · rename_i hreqc
        obtain ⟨e4, e6, l4, l6, hreq⟩ := ih v4 v6 h4 h6 r4 r6 hh4 hh6 hl4 hl6 h
        refine ⟨?_, ?_, l4, l6, ?_⟩
        · rw [e4, boundOf_cons]; simp [hb']
        · rw [e6, boundOf_cons]; simp [hb']
        · intro x hx hxb
          rcases List.mem_cons.mp hx with rfl | hx
          · simpa using hreqc
          · exact hreq x hx hxb

/-! ### `find?` on a sorted list returns a longest-prefix element -/

theorem find?_sorted_max (p : Cfg → Bool) (l : List Cfg) (hs : SortedDesc l) (c : Cfg)
    (h : l.find? p = some c) : ∀ c' ∈ l, p c' = true → c'.prefixLen ≤ c.prefixLen := by
  induction l with
  | nil => simp at h
  | cons d ds ih =>
    have hd := List.pairwise_cons.mp hs
    rw [List.find?_cons] at h
    split at h
    · rename_i hpd
      injection h with h; subst h
      intro c' hc' _
      rcases List.mem_cons.mp hc' with rfl | hc'
      · exact Nat.le_refl _
      · exact hd.1 c' hc'
    · rename_i hpd
      intro c' hc' hp
      rcases List.mem_cons.mp hc' with rfl | hc'
      · rw [hp] at hpd; cases hpd
      · exact ih hd.2 h c' hc' hp

/-! ### Builder → `Transports::bind` -/

/-- Accumulator of the bind loop for family `f`. -/
def accOf (f : Fam) (v4 v6 : List Cfg) : List Cfg :=
  match f with
  | .v4 => v4
  | .v6 => v6

/-- A duplicate-default error means two bindable default routes of that family. -/
theorem bindLoop_dup (cs : List Cfg) :
    ∀ (v4 v6 : List Cfg) (h4 h6 : Bool) (f : Fam),
      h4 = v4.any (·.isDefault) → h6 = v6.any (·.isDefault) →
      bindLoop cs v4 v6 h4 h6 = .error (.dupDefault f) →
      2 ≤ ((accOf f v4 v6).filter (·.isDefault)).length + ((boundOf f cs).filter (·.isDefault)).length := by
  induction cs with
  | nil => intro v4 v6 h4 h6 f _ _ h; simp [bindLoop] at h
  | cons c cs ih =>
    intro v4 v6 h4 h6 f hh4 hh6 h
    simp only [bindLoop] at h
    have anyPos : ∀ (l : List Cfg), l.any (·.isDefault) = true → 1 ≤ (l.filter (·.isDefault)).length := by
      intro l hl
      obtain ⟨x, hx, hxd⟩ := List.any_eq_true.mp hl
      exact List.length_pos_iff.mpr (List.ne_nil_of_mem (List.mem_filter.mpr ⟨hx, hxd⟩))
    by_cases hb : c.bindOk = true
    · simp only [hb, if_true] at h
      cases hf : c.fam with
      | v4 =>
        simp only [hf] at h
        split at h
        · rename_i hdup
          simp only [Bool.and_eq_true] at hdup
          injection h with h; injection h with h; subst h
          have h1 := anyPos v4 (by rw [← hh4]; exact hdup.2)
          rw [boundOf_cons]
          simp only [hb, hf, accOf, beq_self_eq_true, Bool.and_self, if_true, List.singleton_append,
            List.filter_cons, hdup.1, List.length_cons]
          omega
        · have := ih (c :: v4) v6 (h4 || c.isDefault) h6 f (by simp [hh4, Bool.or_comm]) hh6 h
          rw [boundOf_cons]
          cases f with
          | v4 =>
            simp only [accOf, List.filter_cons, hb, hf, beq_self_eq_true, Bool.and_self, if_true,
              List.singleton_append] at this ⊢
            split at this <;> simp_all <;> omega
          | v6 =>
            have hne : (c.fam == Fam.v6) = false := by rw [hf]; rfl
            simpa [accOf, hb, hne] using this
      | v6 =>
        simp only [hf] at h
        split at h
        · rename_i hdup
          simp only [Bool.and_eq_true] at hdup
          injection h with h; injection h with h; subst h
          have h1 := anyPos v6 (by rw [← hh6]; exact hdup.2)
          rw [boundOf_cons]
          simp only [hb, hf, accOf, beq_self_eq_true, Bool.and_self, if_true, List.singleton_append,
            List.filter_cons, hdup.1, List.length_cons]
          omega
        · have := ih v4 (c :: v6) h4 (h6 || c.isDefault) f hh4 (by simp [hh6, Bool.or_comm]) h
          rw [boundOf_cons]
          cases f with
          | v6 =>
            simp only [accOf, List.filter_cons, hb, hf, beq_self_eq_true, Bool.and_self, if_true,
              List.singleton_append] at this ⊢
            split at this <;> simp_all <;> omega
          | v4 =>
            have hne : (c.fam == Fam.v4) = false := by rw [hf]; rfl
            simpa [accOf, hb, hne] using this
    · have hb' : c.bindOk = false := by simpa using hb
      simp only [hb', Bool.false_eq_true, if_false] at h
      split at h
      · cases h
      · have := ih v4 v6 h4 h6 f hh4 hh6 h
        rw [boundOf_cons]; simpa [hb'] using this

theorem bind_dup (cfgs : List Cfg) (f : Fam) (h : bind cfgs = .error (.dupDefault f)) :
    2 ≤ ((boundOf f cfgs).filter (·.isDefault)).length := by
  unfold bind at h
  split at h
  · rename_i e he
    injection h with h; subst h
    have := bindLoop_dup cfgs [] [] false false f (by simp) (by simp) he
    cases f <;> simpa [accOf] using this
  · cases h

/-- Does a user request ask for a default route of family `f`? -/
def userDefault (f : Fam) (rs : List BReq) : Bool :=
  rs.any fun r => r.cfg.isDefault && r.cfg.fam == f

theorem hasUserDefaultT_builder (f : Fam) (ok4 ok6 : Bool) (rs : List BReq) :
    hasUserDefaultT f (builderTransports ok4 ok6 rs) = userDefault f rs := by
  simp [hasUserDefaultT, builderTransports, userDefault, builtinCfg, List.any_map, Function.comp_def]

/-- The socket configurations `Transports::bind` hands on: each built-in wildcard unless a user
default route of its family is configured, then all user sockets in request order. -/
theorem ipConfigs_builder (ok4 ok6 : Bool) (rs : List BReq) :
    ipConfigs (builderTransports ok4 ok6 rs) =
      (if userDefault .v4 rs then [] else [builtinCfg .v4 ok4]) ++
      (if userDefault .v6 rs then [] else [builtinCfg .v6 ok6]) ++ rs.map (·.cfg) := by
  have h4 := hasUserDefaultT_builder .v4 ok4 ok6 rs
  have h6 := hasUserDefaultT_builder .v6 ok4 ok6 rs
  unfold ipConfigs
  have hrest : ((builderTransports ok4 ok6 rs).filter fun t =>
      t.userDefined || !hasUserDefaultT t.cfg.fam (builderTransports ok4 ok6 rs)) =
      (if userDefault .v4 rs then [] else [⟨builtinCfg .v4 ok4, false⟩]) ++
      (if userDefault .v6 rs then [] else [⟨builtinCfg .v6 ok6, false⟩]) ++ rs.map (fun r => ⟨r.cfg, true⟩) := by
    generalize hT : builderTransports ok4 ok6 rs = T at h4 h6
    have hTdef : T = [⟨builtinCfg .v4 ok4, false⟩, ⟨builtinCfg .v6 ok6, false⟩] ++ rs.map fun r => ⟨r.cfg, true⟩ := by
      rw [← hT]; rfl
    conv => lhs; arg 2; rw [hTdef]
    rw [List.filter_append]
    have huser : (rs.map fun r => (⟨r.cfg, true⟩ : TCfg)).filter
        (fun t => t.userDefined || !hasUserDefaultT t.cfg.fam T) = rs.map fun r => ⟨r.cfg, true⟩ := by
      apply List.filter_eq_self.mpr
      intro t ht
      obtain ⟨r, _, rfl⟩ := List.mem_map.mp ht
      simp
    rw [huser]
    simp only [List.filter_cons, List.filter_nil, builtinCfg, Bool.false_or, h4, h6]
    cases userDefault .v4 rs <;> cases userDefault .v6 rs <;> simp
  rw [hrest]
  cases userDefault .v4 rs <;> cases userDefault .v6 rs <;> simp [List.map_map, Function.comp_def]

theorem famOf_inj {a b : C20.Family} (h : famOf a = famOf b) : a = b := by
  cases a <;> cases b <;> simp_all [famOf]

/-- An accepted request list asks for at most one default route per family. -/
theorem accepted_user_defaults (rs : List BReq) (hacc : C20.accepts (rs.map (·.req)) = true) (f : C20.Family) :
    ((rs.map (·.cfg)).filter (fun c => c.isDefault && c.fam == famOf f)).length ≤ 1 := by
  have h := ((C20.accept_iff _).mp hacc).1 f
  unfold C20.defaultCount at h
  rw [List.filter_map, List.length_map] at h ⊢
  have : (rs.filter ((fun c => c.isDefault && c.fam == famOf f) ∘ fun r => r.cfg)) =
      rs.filter ((fun r => decide (r.family = f ∧ C20.MarksDefault r)) ∘ fun r => r.req) := by
    apply List.filter_congr
    intro r _
    have hi := C20.isDefaultRoute_iff r.req
    simp only [Function.comp, BReq.cfg]
    by_cases h1 : r.req.family = f
    · by_cases h2 : C20.MarksDefault r.req
      · simp [h1, h2, hi.mpr h2]
      · have : r.req.isDefaultRoute = false := by
          cases hd : r.req.isDefaultRoute with
          | false => rfl
          | true => exact absurd (hi.mp hd) h2
        simp [h1, h2, this]
    · have : ¬ famOf r.req.family = famOf f := fun h => h1 (famOf_inj h)
      simp [h1, this]
  rw [this]; exact h

end IrohModel.C19
