/-
C19 — outgoing datagrams go out the transport their address designates.

Model of
* `IpTransports::bind` (iroh/src/socket/transports/ip.rs): bind each config in order
  (a failing non-required bind is skipped, a failing required one or a second default
  route of a family aborts), stable sort by prefix length descending, default index;
* `ip::Config::is_valid_send_addr` / `is_valid_default_addr`;
* `TransportsSender::poll_send` (iroh/src/socket/transports.rs): IP routing, relay and
  custom dispatch, the final "blackhole";
* `Sender::poll_send`: closed check, classification of the destination by
  `MultipathMappedAddr::from` (C18 model), reverse lookup in the mapped-address tables,
  canonicalisation of IPv4-mapped IPv6 destinations, and the mapping of every
  per-datagram outcome to `Ok(())`.

IP addresses are numbers (`< 2^32` / `< 2^128`); whether the OS lets a socket bind, and
what each transport answers to a send (`ok | err | pending`), are inputs.
-/
import IrohModel.C18.Model
import IrohModel.C20.Model
import IrohModel.Generated.C19

namespace IrohModel.C19

inductive Fam where
  | v4 | v6
deriving DecidableEq, Repr

def Fam.bits : Fam → Nat
  | .v4 => 32
  | .v6 => 128

/-- `ip::Config` (+ `bindOk`: does `netwatch::UdpSocket::bind_full` succeed; `tag`: identity). -/
structure Cfg where
  fam : Fam
  addr : Nat
  prefixLen : Nat
  scope : Nat
  isDefault : Bool
  required : Bool
  bindOk : Bool
  tag : Nat
deriving DecidableEq, Repr

inductive BindErr where
  /-- a required socket failed to bind -/
  | failed (tag : Nat)
  /-- "can only have a single IPv4/IPv6 default transport" -/
  | dupDefault (fam : Fam)
deriving DecidableEq, Repr

/-- The `for config in configs` loop of `IpTransports::bind`; lists are built in reverse. -/
def bindLoop : List Cfg → (v4 v6 : List Cfg) → (has4 has6 : Bool) → Except BindErr (List Cfg × List Cfg)
  | [], v4, v6, _, _ => .ok (v4.reverse, v6.reverse)
  | c :: cs, v4, v6, has4, has6 =>
    if c.bindOk then
      match c.fam with
      | .v4 =>
        if c.isDefault && has4 then .error (.dupDefault .v4)
        else bindLoop cs (c :: v4) v6 (has4 || c.isDefault) has6
      | .v6 =>
        if c.isDefault && has6 then .error (.dupDefault .v6)
        else bindLoop cs v4 (c :: v6) has4 (has6 || c.isDefault)
    else if c.required then .error (.failed c.tag)
    else bindLoop cs v4 v6 has4 has6

/-- Stable insertion into a list sorted by prefix length descending
(`sort_by_key(|i| Reverse(prefix_len))` is a stable sort). -/
def insertDesc (c : Cfg) : List Cfg → List Cfg
  | [] => [c]
  | d :: ds => if d.prefixLen ≤ c.prefixLen then c :: d :: ds else d :: insertDesc c ds

/-- Stable sort by prefix length descending: elements are inserted from the back, each in front
of the already sorted later elements with an equal or shorter prefix, so equal keys keep
their order. -/
def sortDesc : List Cfg → List Cfg
  | [] => []
  | c :: cs => insertDesc c (sortDesc cs)

/-- `IpTransports` / `IpTransportsSender`: per family, sorted sockets and the default-route socket
(`default_vX_index` = position of the first default in the sorted list). -/
structure Bound where
  v4 : List Cfg
  v6 : List Cfg
deriving Repr

def Bound.list (b : Bound) : Fam → List Cfg
  | .v4 => b.v4
  | .v6 => b.v6

/-- `self.v4[default_v4_index]` -/
def Bound.default (b : Bound) (f : Fam) : Option Cfg := (b.list f).find? (·.isDefault)

def bind (cfgs : List Cfg) : Except BindErr Bound :=
  match bindLoop cfgs [] [] false false with
  | .error e => .error e
  | .ok (v4, v6) => .ok ⟨sortDesc v4, sortDesc v6⟩

/-- An IP address with its family. -/
structure Ip where
  fam : Fam
  val : Nat
deriving DecidableEq, Repr

/-- `IpvXNet::contains`: the first `prefixLen` bits agree. -/
def contains (c : Cfg) (d : Nat) : Bool :=
  d / 2 ^ (c.fam.bits - c.prefixLen) == c.addr / 2 ^ (c.fam.bits - c.prefixLen)

/-- `Ipv6Addr::is_unicast_link_local`: `fe80::/10`. -/
def isLinkLocal (d : Nat) : Bool := d / 2 ^ 118 == 0x3fa

/-- `Config::is_valid_send_addr(src, dst)`; `dstScope` is the scope id of an IPv6 destination. -/
def validSend (c : Cfg) (src : Option Ip) (dst : Ip) (dstScope : Nat) : Bool :=
  match src with
  | some s => c.fam == s.fam && (c.addr == 0 || c.addr == s.val)
  | none =>
    c.fam == dst.fam &&
      (contains c dst.val || (c.fam == .v6 && isLinkLocal dst.val && c.scope == dstScope))

/-- `Config::is_valid_default_addr(src, dst)`. -/
def validDefault (c : Cfg) (src : Option Ip) (dst : Ip) : Bool :=
  match src with
  | some s => c.fam == s.fam && c.isDefault
  | none => c.fam == dst.fam && c.isDefault

/-- The `FourTuple::Ip` arm of `TransportsSender::poll_send`: which bound socket gets the datagram. -/
def route (b : Bound) (src : Option Ip) (dst : Ip) (dstScope : Nat) : Option Cfg :=
  match (b.list dst.fam).find? (fun c => validSend c src dst dstScope) with
  | some c => some c
  | none =>
    match b.default dst.fam with
    | some c => if validDefault c src dst then some c else none
    | none => none

/-- What a transport answers to one `poll_send`. -/
inductive Ans where
  | ok | err | pending
deriving DecidableEq, Repr

/-- `Poll<io::Result<()>>` of `TransportsSender::poll_send`. -/
abbrev TsRes := Ans

/-- Who was handed the datagram. -/
inductive Handed where
  /-- the bound IP socket with this tag -/
  | ip (tag : Nat)
  /-- relay sender number `i`, for relay path `key` = (url, endpoint id) -/
  | relay (i : Nat) (key : Nat)
  /-- custom sender number `i`, for custom address `key`, local address `loc` -/
  | custom (i : Nat) (key : Nat) (loc : Option Nat)
  /-- the per-endpoint state of endpoint `id` (`try_send_remote_state_msg(id, SendDatagram)`;
  whether an actor is running and its inbox has room is outside this model) -/
  | endpointState (id : Nat)
deriving DecidableEq, Repr

/-- Relay arm: every relay sender is valid; the first that is not `Pending` ends the loop.
A sender accepts the datagram iff it answers `ok` (`poll_reserve` + `send_item`). -/
def relaySend (key : Nat) : List Ans → Nat → List Handed × TsRes
  | [], _ => ([], .pending)
  | .pending :: rest, i => relaySend key rest (i + 1)
  | .ok :: _, i => ([.relay i key], .ok)
  | .err :: _, _ => ([], .err)

/-- Custom arm: senders that accept the address are polled in order; every polled sender sees
the datagram, the first that is not `Pending` ends the loop; all pending → blackhole `Ok`. -/
def customSend (key : Nat) (loc : Option Nat) : List (Bool × Ans) → Nat → List Handed × TsRes
  | [], _ => ([], .ok)
  | (false, _) :: rest, i => customSend key loc rest (i + 1)
  | (true, .pending) :: rest, i =>
    let r := customSend key loc rest (i + 1)
    (.custom i key loc :: r.1, r.2)
  | (true, .ok) :: _, i => ([.custom i key loc], .ok)
  | (true, .err) :: _, i => ([.custom i key loc], .err)

/-- `FourTuple`. -/
inductive Path where
  | ip (dst : Ip) (dstScope : Nat) (src : Option Ip)
  | relay (key : Nat)
  | custom (key : Nat) (loc : Option Nat)
deriving DecidableEq, Repr

/-- The transports a `TransportsSender` holds: bound IP sockets, what each IP socket answers
(by tag), relay senders, custom senders (accepts the address?, answer). -/
structure Senders where
  ip : Bound
  ipAns : Nat → Ans
  relay : List Ans
  custom : List (Bool × Ans)

/-- `TransportsSender::poll_send`. -/
def tsPollSend (s : Senders) : Path → List Handed × TsRes
  | .ip dst scope src =>
    match route s.ip src dst scope with
    | some c => ([.ip c.tag], s.ipAns c.tag)
    | none => ([], .ok)
  | .relay key =>
    match s.relay with
    | [] => ([], .ok)
    | rs => relaySend key rs 0
  | .custom key loc => customSend key loc s.custom 0

/-- Result of `Sender::poll_send` as seen by QUIC. -/
inductive SendRes where
  /-- `Poll::Ready(Ok(()))` -/
  | ok
  /-- `Err(NotConnected)`: fatal, kills the QUIC endpoint driver -/
  | errClosed
deriving DecidableEq, Repr

/-- A socket address as QUIC passes it: family flag, octets (4 or 16), scope id. -/
structure SockAddr where
  isV4 : Bool
  octets : List UInt8
  scope : Nat
deriving DecidableEq, Repr

def beNat : List UInt8 → Nat → Nat
  | [], acc => acc
  | b :: bs, acc => beNat bs (acc * 256 + b.toNat)

/-- `IpAddr::to_canonical`: an IPv4-mapped IPv6 address (`::ffff:a.b.c.d`) is its IPv4 address. -/
def canonical (a : SockAddr) : Ip :=
  if a.isV4 then ⟨.v4, beNat a.octets 0⟩
  else if a.octets.take 12 == [0, 0, 0, 0, 0, 0, 0, 0, 0, 0, 0xff, 0xff] then ⟨.v4, beNat (a.octets.drop 12) 0⟩
  else ⟨.v6, beNat a.octets 0⟩

/-- The three reverse tables of `MappedAddrs` (C18 model). -/
structure Maps where
  mixed : C18.AddrMap
  relay : C18.AddrMap
  custom : C18.AddrMap

/-- `Sender::poll_send`.  `src` = `noq_transmit.src_ip`. -/
def senderPollSend (closed : Bool) (maps : Maps) (s : Senders)
    (dst : SockAddr) (src : Option SockAddr) : List Handed × SendRes :=
  if closed then ([], .errClosed)
  else
    match C18.classify dst.isV4 dst.octets with
    | .mixed =>
      match C18.findKey maps.mixed dst.octets with
      | none => ([], .ok)
      | some id => ([.endpointState id], .ok)
    | .relay =>
      match C18.findKey maps.relay dst.octets with
      | none => ([], .ok)
      | some key => ((tsPollSend s (.relay key)).1, .ok)
    | .custom =>
      match C18.findKey maps.custom dst.octets with
      | none => ([], .ok)
      | some key =>
        let loc := src.bind fun a =>
          if C18.classify a.isV4 a.octets == .custom then C18.findKey maps.custom a.octets else none
        ((tsPollSend s (.custom key loc)).1, .ok)
    | .ip =>
      let d := canonical dst
      let srcIp := src.map fun a => (⟨if a.isV4 then .v4 else .v6, beNat a.octets 0⟩ : Ip)
      ((tsPollSend s (.ip d dst.scope srcIp)).1, .ok)

/-! ### From the builder's bind requests to the bound sockets

`Builder::empty()` starts with two built-in wildcard transports (`TransportConfig::default_ipv4`
/ `default_ipv6`: `0.0.0.0:0` and `[::]:0`, prefix 0, NOT default routes, not user defined, the
IPv4 one required, the IPv6 one not); every accepted `bind_addr_with_opts` call (C20 model)
appends a user-defined transport.  `Transports::bind` drops a built-in transport when a
user-defined default route of the same family is configured, and hands the rest, in order, to
`IpTransports::bind`. -/

/-- One `bind_addr_with_opts(addr, opts)` call: the part the C20 model reads, plus the address
(IP number, scope id), whether the OS lets the socket bind, and an identity. -/
structure BReq where
  req : C20.Req
  addr : Nat
  scope : Nat
  bindOk : Bool
  tag : Nat
deriving DecidableEq, Repr

def famOf : C20.Family → Fam
  | .v4 => .v4
  | .v6 => .v6

/-- The `ip::Config` pushed by `bind_addr_with_opts`. -/
def BReq.cfg (r : BReq) : Cfg :=
  ⟨famOf r.req.family, r.addr, r.req.prefixLen, r.scope, r.req.isDefaultRoute, r.req.required, r.bindOk, r.tag⟩

/-- `TransportConfig::Ip { config, is_user_defined }`. -/
structure TCfg where
  cfg : Cfg
  userDefined : Bool
deriving DecidableEq, Repr

/-- Identity of the built-in wildcard socket of a family. -/
def builtinTag : Fam → Nat
  | .v4 => Generated.C19.builtinTagV4
  | .v6 => Generated.C19.builtinTagV6

/-- `TransportConfig::default_ipv4()` / `default_ipv6()`; `ok` = does the wildcard bind succeed. -/
def builtinCfg (f : Fam) (ok : Bool) : Cfg :=
  ⟨f, 0, 0, 0, false, f == .v4, ok, builtinTag f⟩

/-- The builder's transport list after the accepted requests `rs`. -/
def builderTransports (ok4 ok6 : Bool) (rs : List BReq) : List TCfg :=
  [⟨builtinCfg .v4 ok4, false⟩, ⟨builtinCfg .v6 ok6, false⟩] ++ rs.map fun r => ⟨r.cfg, true⟩

/-- `configs.iter().any(|t| t.is_ipvX_default() && t.is_user_defined())`. -/
def hasUserDefaultT (f : Fam) (ts : List TCfg) : Bool :=
  ts.any fun t => t.cfg.isDefault && t.cfg.fam == f && t.userDefined

/-- The filter loop at the top of `Transports::bind`: the configurations handed to
`IpTransports::bind`, in order. -/
def ipConfigs (ts : List TCfg) : List Cfg :=
  (ts.filter fun t => t.userDefined || !hasUserDefaultT t.cfg.fam ts).map (·.cfg)

/-- `Transports::bind`, IP part. -/
def transportsBind (ts : List TCfg) : Except BindErr Bound := bind (ipConfigs ts)

/-- The whole path: the builder accepts or rejects the requests (C20), then binds. -/
def builderBind (ok4 ok6 : Bool) (rs : List BReq) : Except (C20.Err × Nat) (Except BindErr Bound) :=
  match C20.addAll C20.initial 0 (rs.map (·.req)) with
  | .error e => .error e
  | .ok _ => .ok (transportsBind (builderTransports ok4 ok6 rs))

end IrohModel.C19
