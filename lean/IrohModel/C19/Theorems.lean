/-
C19 — property theorems.

"A datagram QUIC sends to a synthetic relay or custom address is handed only to that
relay path or custom address, one sent to the per-endpoint address only to that
endpoint's state, and one to an unknown synthetic address is dropped.  An IP datagram
with a source address is handed to a socket bound to that source or to a wildcard
address, else to the family's default-route socket; without one it goes to the bound
socket with the longest prefix containing the destination (or, for link-local IPv6, on
the destination's scope), else to the default-route socket, else it is dropped.  No
per-datagram failure is reported to QUIC as fatal unless the endpoint is closed."

Quantification: all lists of socket configurations (any addresses, prefix lengths,
default flags, required flags, bind outcomes), all destinations, scopes and optional
sources, all contents of the three mapped-address tables, all relay / custom sender
sets and all their answers (ok / error / pending).
-/
import IrohModel.C19.Lemmas

namespace IrohModel.C19

/-- What `IpTransports::bind` guarantees about its result. -/
structure WF (b : Bound) : Prop where
  fam4 : ∀ c ∈ b.v4, c.fam = .v4
  fam6 : ∀ c ∈ b.v6, c.fam = .v6
  sorted4 : SortedDesc b.v4
  sorted6 : SortedDesc b.v6
  oneDefault4 : (b.v4.filter (·.isDefault)).length ≤ 1
  oneDefault6 : (b.v6.filter (·.isDefault)).length ≤ 1

theorem WF.fam {b : Bound} (h : WF b) (f : Fam) : ∀ c ∈ b.list f, c.fam = f := by
  cases f with
  | v4 => exact h.fam4
  | v6 => exact h.fam6

theorem WF.sorted {b : Bound} (h : WF b) (f : Fam) : SortedDesc (b.list f) := by
  cases f with
  | v4 => exact h.sorted4
  | v6 => exact h.sorted6

/-- **bind_sorting** — a successful bind holds, per family, exactly the configurations
whose socket could be bound, ordered by prefix length (longest first) with equal prefix
lengths in configuration order; at most one of them is a default route; and binding only
fails for a required socket that cannot be bound or a second default route. -/
theorem bind_sorting (cfgs : List Cfg) (b : Bound) (h : bind cfgs = .ok b) :
    WF b ∧
    (∀ f c, c ∈ b.list f ↔ (c ∈ cfgs ∧ c.bindOk = true ∧ c.fam = f)) ∧
    (∀ f p, (b.list f).filter (fun x => x.prefixLen == p) = (boundOf f cfgs).filter (fun x => x.prefixLen == p)) ∧
    (∀ c ∈ cfgs, c.bindOk = false → c.required = false) := by
  unfold bind at h
  split at h
  · cases h
  · rename_i v4 v6 hl
    injection h with h; subst h
    obtain ⟨e4, e6, l4, l6, hreq⟩ :=
      bindLoop_spec cfgs [] [] false false v4 v6 (by simp) (by simp) (by simp) (by simp) hl
    simp only [List.reverse_nil, List.nil_append] at e4 e6
    subst e4; subst e6
    have hmem : ∀ f c, c ∈ boundOf f cfgs ↔ (c ∈ cfgs ∧ c.bindOk = true ∧ c.fam = f) := by
      intro f c; simp [boundOf, List.mem_filter]
    refine ⟨⟨?_, ?_, sortDesc_sorted _, sortDesc_sorted _, ?_, ?_⟩, ?_, ?_, hreq⟩
    · intro c hc; exact ((hmem _ c).mp (mem_sortDesc.mp hc)).2.2
    · intro c hc; exact ((hmem _ c).mp (mem_sortDesc.mp hc)).2.2
    · rw [((sortDesc_perm _).filter _).length_eq]; exact l4
    · rw [((sortDesc_perm _).filter _).length_eq]; exact l6
    · intro f c
      cases f <;> simp only [Bound.list] <;> rw [mem_sortDesc] <;> exact hmem _ c
    · intro f p
      cases f <;> simp only [Bound.list] <;> exact sortDesc_filter p _

theorem bind_error_iff (cfgs : List Cfg) (b : Bound) (h : bind cfgs = .ok b) :
    ∀ c ∈ cfgs, c.bindOk = false → c.required = false := (bind_sorting cfgs b h).2.2.2

/-- The default-route socket of a family, if any, is one of its sockets and flagged default. -/
theorem default_spec (b : Bound) (f : Fam) (c : Cfg) (h : b.default f = some c) :
    c ∈ b.list f ∧ c.isDefault = true := by
  unfold Bound.default at h
  exact ⟨List.mem_of_find?_eq_some h, by simpa using List.find?_some h⟩

theorem default_none (b : Bound) (f : Fam) (h : b.default f = none) :
    ∀ c ∈ b.list f, c.isDefault = false := by
  unfold Bound.default at h
  intro c hc
  have := List.find?_eq_none.mp h c hc
  simpa using this

/-- **nosrc_longest_prefix** — an IP datagram without source address: if any bound socket
of the destination's family has a subnet containing the destination (or, for a link-local
IPv6 destination, the destination's scope id), the datagram goes to such a socket and no
such socket has a longer prefix; otherwise it goes to the family's default-route socket;
otherwise (`none`) there is neither and it is dropped. -/
theorem nosrc_longest_prefix (b : Bound) (hb : WF b) (dst : Ip) (scope : Nat) :
    match route b none dst scope with
    | some c =>
      (c ∈ b.list dst.fam ∧ validSend c none dst scope = true ∧
        ∀ c' ∈ b.list dst.fam, validSend c' none dst scope = true → c'.prefixLen ≤ c.prefixLen)
      ∨ ((∀ c' ∈ b.list dst.fam, validSend c' none dst scope = false) ∧
          b.default dst.fam = some c ∧ c.isDefault = true)
    | none =>
      (∀ c' ∈ b.list dst.fam, validSend c' none dst scope = false) ∧
        (∀ c' ∈ b.list dst.fam, c'.isDefault = false) := by
  unfold route
  cases hf : (b.list dst.fam).find? (fun c => validSend c none dst scope) with
  | some c =>
    simp only
    left
    exact ⟨List.mem_of_find?_eq_some hf, by simpa using List.find?_some hf,
      find?_sorted_max _ _ (hb.sorted dst.fam) c hf⟩
  | none =>
    have hnone : ∀ c' ∈ b.list dst.fam, validSend c' none dst scope = false := by
      intro c' hc'; simpa using List.find?_eq_none.mp hf c' hc'
    simp only
    cases hd : b.default dst.fam with
    | none => exact ⟨hnone, default_none b dst.fam hd⟩
    | some c =>
      obtain ⟨hmem, hdef⟩ := default_spec b dst.fam c hd
      have hfam := hb.fam dst.fam c hmem
      have : validDefault c none dst = true := by simp [validDefault, hfam, hdef]
      simp only [this, if_true]
      right
      exact ⟨hnone, trivial, hdef⟩

/-- What "contains the destination, or is on a link-local destination's scope" means. -/
theorem validSend_nosrc_iff (c : Cfg) (dst : Ip) (scope : Nat) :
    validSend c none dst scope = true ↔
      c.fam = dst.fam ∧
        (dst.val / 2 ^ (c.fam.bits - c.prefixLen) = c.addr / 2 ^ (c.fam.bits - c.prefixLen) ∨
          (c.fam = .v6 ∧ dst.val / 2 ^ 118 = 0x3fa ∧ c.scope = scope)) := by
  simp [validSend, contains, isLinkLocal, and_assoc]

/-- **src_route** — an IP datagram with source address `a`: it goes to the first bound socket
of the destination's family that is bound to `a` or to the wildcard address; if there is
none, to the family's default-route socket; otherwise it is dropped.  (Source and
destination of one datagram have the same family; a socket is never given a datagram whose
source is of the other family.) -/
theorem src_route (b : Bound) (hb : WF b) (a dst : Ip) (scope : Nat) :
    match route b (some a) dst scope with
    | some c =>
      c ∈ b.list dst.fam ∧ c.fam = a.fam ∧ a.fam = dst.fam ∧
        ((c.addr = a.val ∨ c.addr = 0) ∨
          ((∀ c' ∈ b.list dst.fam, ¬ (c'.addr = a.val ∨ c'.addr = 0)) ∧
            b.default dst.fam = some c ∧ c.isDefault = true))
    | none =>
      a.fam ≠ dst.fam ∨
        ((∀ c' ∈ b.list dst.fam, ¬ (c'.addr = a.val ∨ c'.addr = 0)) ∧
          ∀ c' ∈ b.list dst.fam, c'.isDefault = false) := by
  unfold route
  cases hf : (b.list dst.fam).find? (fun c => validSend c (some a) dst scope) with
  | some c =>
    simp only
    have hmem := List.mem_of_find?_eq_some hf
    have hv : validSend c (some a) dst scope = true := by simpa using List.find?_some hf
    have hfam := hb.fam dst.fam c hmem
    simp only [validSend, Bool.and_eq_true, beq_iff_eq, Bool.or_eq_true] at hv
    exact ⟨hmem, hv.1, hv.1.symm.trans hfam, Or.inl (by rcases hv.2 with h | h <;> simp [h])⟩
  | none =>
    have hnone : ∀ c' ∈ b.list dst.fam, validSend c' (some a) dst scope = false := by
      intro c' hc'; simpa using List.find?_eq_none.mp hf c' hc'
    simp only
    by_cases hfa : a.fam = dst.fam
    · have hno : ∀ c' ∈ b.list dst.fam, ¬ (c'.addr = a.val ∨ c'.addr = 0) := by
        intro c' hc' hor
        have h1 := hnone c' hc'
        have hfam := hb.fam dst.fam c' hc'
        have : validSend c' (some a) dst scope = true := by
          simp only [validSend, Bool.and_eq_true, beq_iff_eq, Bool.or_eq_true]
          exact ⟨hfam.trans hfa.symm, by rcases hor with h | h <;> simp [h]⟩
        rw [this] at h1; cases h1
      cases hd : b.default dst.fam with
      | none => exact Or.inr ⟨hno, default_none b dst.fam hd⟩
      | some c =>
        obtain ⟨hmem, hdef⟩ := default_spec b dst.fam c hd
        have hfam := hb.fam dst.fam c hmem
        have : validDefault c (some a) dst = true := by simp [validDefault, hfam, hfa, hdef]
        simp only [this, if_true]
        exact ⟨hmem, hfam.trans hfa.symm, hfa, Or.inr ⟨hno, trivial, hdef⟩⟩
    · cases hd : b.default dst.fam with
      | none => exact Or.inl hfa
      | some c =>
        obtain ⟨hmem, _⟩ := default_spec b dst.fam c hd
        have hfam := hb.fam dst.fam c hmem
        have : validDefault c (some a) dst = false := by
          simp only [validDefault, Bool.and_eq_false_iff, beq_eq_false_iff_ne]
          left; rw [hfam]; exact fun h => hfa h.symm
        simp only [this, Bool.false_eq_true, if_false]
        exact Or.inl hfa

/-! ### Dispatch by the kind of the destination address -/

theorem relaySend_exact (key : Nat) (rs : List Ans) (i : Nat) :
    (∀ h ∈ (relaySend key rs i).1, ∃ j, h = Handed.relay j key) ∧ (relaySend key rs i).1.length ≤ 1 := by
  induction rs generalizing i with
  | nil => simp [relaySend]
  | cons a rest ih =>
    cases a with
    | ok => simp [relaySend]
    | err => simp [relaySend]
    | pending => simpa [relaySend] using ih (i + 1)

theorem customSend_exact (key : Nat) (loc : Option Nat) (cs : List (Bool × Ans)) (i : Nat) :
    ∀ h ∈ (customSend key loc cs i).1, ∃ j, h = Handed.custom j key loc := by
  induction cs generalizing i with
  | nil => simp [customSend]
  | cons a rest ih =>
    obtain ⟨v, ans⟩ := a
    cases v with
    | false => simpa [customSend] using ih (i + 1)
    | true =>
      cases ans with
      | ok => simp [customSend]
      | err => simp [customSend]
      | pending =>
        simp only [customSend]
        intro h hh
        rcases List.mem_cons.mp hh with rfl | hh
        · exact ⟨i, rfl⟩
        · exact ih (i + 1) h hh

/-- A custom sender that does not accept the address is never given the datagram. -/
theorem customSend_only_valid (key : Nat) (loc : Option Nat) (cs : List (Bool × Ans)) (i : Nat) :
    ∀ j, Handed.custom j key loc ∈ (customSend key loc cs i).1 →
      ∃ ans, cs[j - i]? = some (true, ans) ∧ i ≤ j := by
  induction cs generalizing i with
  | nil => simp [customSend]
  | cons a rest ih =>
    obtain ⟨v, ans⟩ := a
    intro j hj
    cases v with
    | false =>
      simp only [customSend] at hj
      obtain ⟨ans', h1, h2⟩ := ih (i + 1) j hj
      refine ⟨ans', ?_, by omega⟩
      have : j - i = (j - (i + 1)) + 1 := by omega
      rw [this, List.getElem?_cons_succ]; exact h1
    | true =>
      cases ans with
      | ok =>
        simp only [customSend, List.mem_singleton, Handed.custom.injEq] at hj
        obtain ⟨rfl, _⟩ := hj
        exact ⟨.ok, by simp, Nat.le_refl _⟩
      | err =>
        simp only [customSend, List.mem_singleton, Handed.custom.injEq] at hj
        obtain ⟨rfl, _⟩ := hj
        exact ⟨.err, by simp, Nat.le_refl _⟩
      | pending =>
        simp only [customSend, List.mem_cons, Handed.custom.injEq] at hj
        rcases hj with ⟨rfl, _⟩ | hj
        · exact ⟨.pending, by simp, Nat.le_refl _⟩
        · obtain ⟨ans', h1, h2⟩ := ih (i + 1) j hj
          refine ⟨ans', ?_, by omega⟩
          have : j - i = (j - (i + 1)) + 1 := by omega
          rw [this, List.getElem?_cons_succ]; exact h1

/-- **relay_custom_exact** — on an open endpoint, a datagram for a synthetic relay address
that maps to relay path `key` is handed to at most one relay sender, as a datagram for
exactly that path, and to nothing else; one for a synthetic custom address mapped to `key`
is offered only to custom senders, as a datagram for exactly that custom address. -/
theorem relay_custom_exact (maps : Maps) (s : Senders) (dst : SockAddr) (src : Option SockAddr) (key : Nat) :
    (C18.classify dst.isV4 dst.octets = .relay → C18.findKey maps.relay dst.octets = some key →
      (∀ h ∈ (senderPollSend false maps s dst src).1, ∃ j, h = Handed.relay j key) ∧
      (senderPollSend false maps s dst src).1.length ≤ 1) ∧
    (C18.classify dst.isV4 dst.octets = .custom → C18.findKey maps.custom dst.octets = some key →
      ∃ loc, ∀ h ∈ (senderPollSend false maps s dst src).1, ∃ j, h = Handed.custom j key loc) := by
  constructor
  · intro hk hf
    simp only [senderPollSend, Bool.false_eq_true, if_false, hk, hf, tsPollSend]
    cases hr : s.relay with
    | nil => simp
    | cons a rest => exact relaySend_exact key (a :: rest) 0
  · intro hk hf
    simp only [senderPollSend, Bool.false_eq_true, if_false, hk, hf, tsPollSend]
    exact ⟨_, customSend_exact key _ s.custom 0⟩

/-- **mixed_to_endpoint_state** — a datagram for the per-endpoint synthetic address of endpoint
`id` is handed to that endpoint's state and to no transport. -/
theorem mixed_to_endpoint_state (maps : Maps) (s : Senders) (dst : SockAddr) (src : Option SockAddr) (id : Nat)
    (hk : C18.classify dst.isV4 dst.octets = .mixed) (hf : C18.findKey maps.mixed dst.octets = some id) :
    senderPollSend false maps s dst src = ([.endpointState id], .ok) := by
  simp [senderPollSend, hk, hf]

/-- **unknown_dropped** — a datagram for a synthetic address (any of the three reserved ranges)
that is in no table is handed to nobody, and QUIC is told `Ok`. -/
theorem unknown_dropped (maps : Maps) (s : Senders) (dst : SockAddr) (src : Option SockAddr) :
    (C18.classify dst.isV4 dst.octets = .mixed → C18.findKey maps.mixed dst.octets = none →
      senderPollSend false maps s dst src = ([], .ok)) ∧
    (C18.classify dst.isV4 dst.octets = .relay → C18.findKey maps.relay dst.octets = none →
      senderPollSend false maps s dst src = ([], .ok)) ∧
    (C18.classify dst.isV4 dst.octets = .custom → C18.findKey maps.custom dst.octets = none →
      senderPollSend false maps s dst src = ([], .ok)) := by
  refine ⟨?_, ?_, ?_⟩ <;> intro hk hf <;> simp [senderPollSend, hk, hf]

/-- An address outside the reserved ranges is routed as an IP datagram: to the socket `route`
selects for its canonical form (scope id kept), or to nobody. -/
theorem ip_dispatch (maps : Maps) (s : Senders) (dst : SockAddr) (src : Option SockAddr)
    (hk : C18.classify dst.isV4 dst.octets = .ip) :
    (senderPollSend false maps s dst src).1 =
      match route s.ip (src.map fun a => ⟨if a.isV4 then .v4 else .v6, beNat a.octets 0⟩) (canonical dst) dst.scope with
      | some c => [.ip c.tag]
      | none => [] := by
  simp only [senderPollSend, Bool.false_eq_true, if_false, hk, tsPollSend]
  generalize route s.ip _ (canonical dst) dst.scope = r
  cases r <;> rfl

/-- **never_fatal_unless_closed** — whatever the destination, the tables and the answers of the
transports (errors, `Pending`), QUIC is told `Ok`; the one fatal error is reported exactly when
the endpoint is closed, and then nothing is handed to anybody. -/
theorem never_fatal_unless_closed (closed : Bool) (maps : Maps) (s : Senders) (dst : SockAddr)
    (src : Option SockAddr) :
    ((senderPollSend closed maps s dst src).2 = .errClosed ↔ closed = true) ∧
    (closed = true → (senderPollSend closed maps s dst src).1 = []) := by
  cases closed with
  | true => simp [senderPollSend]
  | false =>
    refine ⟨?_, by simp⟩
    simp only [senderPollSend, Bool.false_eq_true, if_false, iff_false]
    split
    · split <;> simp
    · split <;> simp
    · split <;> simp
    · simp

/-! ### From the builder's bind requests to the bound sockets (composition with C20) -/

/-- Does the built-in wildcard of family `f` bind? -/
def okOf (f : Fam) (ok4 ok6 : Bool) : Bool :=
  match f with
  | .v4 => ok4
  | .v6 => ok6

theorem boundOf_default_le (f : Fam) (l : List Cfg) :
    ((boundOf f l).filter (·.isDefault)).length ≤ (l.filter (fun c => c.isDefault && c.fam == f)).length := by
  induction l with
  | nil => simp [boundOf]
  | cons c cs ih =>
    rw [boundOf_cons, List.filter_cons]
    by_cases h1 : (c.bindOk && c.fam == f) = true
    · simp only [h1, if_true, List.singleton_append, List.filter_cons]
      have hfam : (c.fam == f) = true := by simp only [Bool.and_eq_true] at h1; exact h1.2
      by_cases hd : c.isDefault = true
      · simp only [hd, hfam, Bool.and_self, if_true, List.length_cons]; omega
      · have : c.isDefault = false := by simpa using hd
        simp only [this, Bool.false_eq_true, if_false, Bool.false_and]; exact ih
    · rw [if_neg h1, List.nil_append]
      split
      · simp only [List.length_cons]; omega
      · exact ih

theorem mem_ipConfigs_builder (ok4 ok6 : Bool) (rs : List BReq) (c : Cfg) :
    c ∈ ipConfigs (builderTransports ok4 ok6 rs) ↔
      (∃ r ∈ rs, c = r.cfg) ∨ ∃ g, c = builtinCfg g (okOf g ok4 ok6) ∧ userDefault g rs = false := by
  rw [ipConfigs_builder]
  simp only [List.mem_append, List.mem_map]
  constructor
  · rintro ((h | h) | ⟨r, hr, rfl⟩)
    · cases hu : userDefault .v4 rs <;> simp [hu] at h
      exact Or.inr ⟨.v4, h, hu⟩
    · cases hu : userDefault .v6 rs <;> simp [hu] at h
      exact Or.inr ⟨.v6, h, hu⟩
    · exact Or.inl ⟨r, hr, rfl⟩
  · rintro (⟨r, hr, rfl⟩ | ⟨g, rfl, hu⟩)
    · exact Or.inr ⟨r, hr, rfl⟩
    · cases g
      · left; left; simp [hu, okOf]
      · left; right; simp [hu, okOf]

/-- For a request list the builder accepts, `IpTransports::bind` never reports a duplicate
default route: the only possible bind error is a required socket that cannot be bound. -/
theorem accepted_never_dup (ok4 ok6 : Bool) (rs : List BReq)
    (hacc : C20.accepts (rs.map (·.req)) = true) (f : Fam) :
    transportsBind (builderTransports ok4 ok6 rs) ≠ .error (.dupDefault f) := by
  intro h
  have h2 := bind_dup _ f h
  have h1 := boundOf_default_le f (ipConfigs (builderTransports ok4 ok6 rs))
  rw [ipConfigs_builder] at h1 h2
  rw [List.filter_append, List.filter_append, List.length_append, List.length_append] at h1
  have hb4 : ((if userDefault .v4 rs then [] else [builtinCfg .v4 ok4]).filter
      (fun c => c.isDefault && c.fam == f)).length = 0 := by
    cases userDefault .v4 rs <;> simp [builtinCfg]
  have hb6 : ((if userDefault .v6 rs then [] else [builtinCfg .v6 ok6]).filter
      (fun c => c.isDefault && c.fam == f)).length = 0 := by
    cases userDefault .v6 rs <;> simp [builtinCfg]
  have hu : ((rs.map (·.cfg)).filter (fun c => c.isDefault && c.fam == f)).length ≤ 1 := by
    cases f with
    | v4 => exact accepted_user_defaults rs hacc .v4
    | v6 => exact accepted_user_defaults rs hacc .v6
  omega

/-- **builder_to_sockets** — for every request list the builder accepts (C20 `accept_iff`), and
whatever the OS answers to the individual binds: `Transports::bind` never fails for a duplicate
default route, and when it succeeds the bound sockets of family `f` are exactly the bindable user
sockets of that family plus the built-in wildcard (`0.0.0.0:0` / `[::]:0`, prefix 0, not a default
route) unless a user default route of that family was requested; they are sorted longest prefix
first, sockets of equal prefix length in configuration order (built-in first, then request order). -/
theorem builder_to_sockets (ok4 ok6 : Bool) (rs : List BReq)
    (hacc : C20.accepts (rs.map (·.req)) = true) :
    (∀ f, transportsBind (builderTransports ok4 ok6 rs) ≠ .error (.dupDefault f)) ∧
    ∀ b, transportsBind (builderTransports ok4 ok6 rs) = .ok b →
      WF b ∧
      (∀ f c, c ∈ b.list f ↔ (c.bindOk = true ∧ c.fam = f ∧
        ((∃ r ∈ rs, c = r.cfg) ∨ (c = builtinCfg f (okOf f ok4 ok6) ∧ userDefault f rs = false)))) ∧
      (∀ f p, (b.list f).filter (fun x => x.prefixLen == p) =
        (boundOf f (ipConfigs (builderTransports ok4 ok6 rs))).filter (fun x => x.prefixLen == p)) := by
  refine ⟨accepted_never_dup ok4 ok6 rs hacc, ?_⟩
  intro b hb
  obtain ⟨hwf, hmem, hstable, _⟩ := bind_sorting _ b hb
  refine ⟨hwf, ?_, hstable⟩
  intro f c
  rw [hmem f c, mem_ipConfigs_builder]
  constructor
  · rintro ⟨hc, hok, hfam⟩
    refine ⟨hok, hfam, ?_⟩
    rcases hc with h | ⟨g, rfl, hu⟩
    · exact Or.inl h
    · have : g = f := by simpa [builtinCfg] using hfam
      subst this
      exact Or.inr ⟨rfl, hu⟩
  · rintro ⟨hok, hfam, h | ⟨rfl, hu⟩⟩
    · exact ⟨Or.inl h, hok, hfam⟩
    · exact ⟨Or.inr ⟨f, rfl, hu⟩, hok, hfam⟩

/-- Order independence: permuting the requests changes neither the verdict of the builder nor
the set of bound sockets of either family (only the order among sockets of equal prefix length). -/
theorem builder_sockets_perm (ok4 ok6 : Bool) (rs rs' : List BReq) (hp : rs.Perm rs')
    (hacc : C20.accepts (rs.map (·.req)) = true) :
    C20.accepts (rs'.map (·.req)) = true ∧
    ∀ b b', transportsBind (builderTransports ok4 ok6 rs) = .ok b →
      transportsBind (builderTransports ok4 ok6 rs') = .ok b' →
      ∀ f c, c ∈ b.list f ↔ c ∈ b'.list f := by
  have hacc' : C20.accepts (rs'.map (·.req)) = true := by
    rw [← C20.perm_invariant (hp.map _)]; exact hacc
  refine ⟨hacc', ?_⟩
  intro b b' hb hb' f c
  rw [((builder_to_sockets ok4 ok6 rs hacc).2 b hb).2.1 f c,
    ((builder_to_sockets ok4 ok6 rs' hacc').2 b' hb').2.1 f c]
  have hud : userDefault f rs = userDefault f rs' := by
    unfold userDefault
    rw [Bool.eq_iff_iff, List.any_eq_true, List.any_eq_true]
    constructor <;> rintro ⟨x, hx, hxp⟩
    · exact ⟨x, hp.mem_iff.mp hx, hxp⟩
    · exact ⟨x, hp.mem_iff.mpr hx, hxp⟩
  rw [hud]
  constructor <;> rintro ⟨h1, h2, h3 | h3⟩
  · exact ⟨h1, h2, Or.inl (by obtain ⟨r, hr, e⟩ := h3; exact ⟨r, hp.mem_iff.mp hr, e⟩)⟩
  · exact ⟨h1, h2, Or.inr h3⟩
  · exact ⟨h1, h2, Or.inl (by obtain ⟨r, hr, e⟩ := h3; exact ⟨r, hp.mem_iff.mpr hr, e⟩)⟩
  · exact ⟨h1, h2, Or.inr h3⟩

/-- **every_family_has_default_or_none** — what the routing theorems need is established by the
bind of every accepted configuration: the result is well-formed (`WF`: sorted, one family per
list, at most one default); the default-route socket of a family, if any, is the (unique) user
socket requested as default route — never the built-in wildcard; there is none exactly when no
bindable user default route of that family was requested; and whenever the built-in wildcard of
the family is bound, or a user default route of the family is bound, no datagram of that family
without source address is dropped for lack of a socket. -/
theorem every_family_has_default_or_none (ok4 ok6 : Bool) (rs : List BReq)
    (hacc : C20.accepts (rs.map (·.req)) = true) (b : Bound)
    (hb : transportsBind (builderTransports ok4 ok6 rs) = .ok b) (f : Fam) :
    WF b ∧
    (∀ c, b.default f = some c → c.isDefault = true ∧ c.bindOk = true ∧ ∃ r ∈ rs, c = r.cfg) ∧
    (b.default f = none ↔ ∀ r ∈ rs, ¬ (r.cfg.fam = f ∧ r.cfg.isDefault = true ∧ r.cfg.bindOk = true)) ∧
    (((userDefault f rs = false ∧ okOf f ok4 ok6 = true) ∨
        (∃ r ∈ rs, r.cfg.fam = f ∧ r.cfg.isDefault = true ∧ r.cfg.bindOk = true)) →
      ∀ (dst : Ip) (scope : Nat), dst.fam = f → dst.val < 2 ^ f.bits → route b none dst scope ≠ none) := by
  obtain ⟨hwf, hmem, _⟩ := (builder_to_sockets ok4 ok6 rs hacc).2 b hb
  refine ⟨hwf, ?_, ?_, ?_⟩
  · intro c hc
    obtain ⟨hin, hdef⟩ := default_spec b f c hc
    obtain ⟨hok, _, h | ⟨rfl, _⟩⟩ := (hmem f c).mp hin
    · exact ⟨hdef, hok, h⟩
    · simp [builtinCfg] at hdef
  · constructor
    · intro hnone r hr ⟨hfam, hdef, hok⟩
      have hin : r.cfg ∈ b.list f := (hmem f r.cfg).mpr ⟨hok, hfam, Or.inl ⟨r, hr, rfl⟩⟩
      have := default_none b f hnone r.cfg hin
      rw [hdef] at this; cases this
    · intro hno
      cases hd : b.default f with
      | none => rfl
      | some c =>
        obtain ⟨hin, hdef⟩ := default_spec b f c hd
        obtain ⟨hok, hfam, h | ⟨rfl, _⟩⟩ := (hmem f c).mp hin
        · obtain ⟨r, hr, rfl⟩ := h
          exact absurd ⟨hfam, hdef, hok⟩ (hno r hr)
        · simp [builtinCfg] at hdef
  · intro hcase dst scope hfam hlt hroute
    have hspec := nosrc_longest_prefix b hwf dst scope
    rw [hroute] at hspec
    simp only at hspec
    obtain ⟨hnv, hnd⟩ := hspec
    rw [hfam] at hnv hnd
    rcases hcase with ⟨hu, hok⟩ | ⟨r, hr, hrf, hrd, hrok⟩
    · have hin : builtinCfg f (okOf f ok4 ok6) ∈ b.list f :=
        (hmem f _).mpr ⟨by simpa [builtinCfg] using hok, by simp [builtinCfg], Or.inr ⟨rfl, hu⟩⟩
      have hv := hnv _ hin
      have : validSend (builtinCfg f (okOf f ok4 ok6)) none dst scope = true := by
        simp only [validSend, builtinCfg, contains, Nat.sub_zero, Bool.and_eq_true, beq_iff_eq,
          Bool.or_eq_true]
        refine ⟨hfam.symm, Or.inl ?_⟩
        rw [Nat.div_eq_of_lt hlt]; simp
      rw [this] at hv; cases hv
    · have hin : r.cfg ∈ b.list f := (hmem f r.cfg).mpr ⟨hrok, hrf, Or.inl ⟨r, hr, rfl⟩⟩
      have := hnd _ hin
      rw [hrd] at this; cases this

/-- **user_socket_not_shadowed** — the implicit wildcard never takes traffic from a user socket
with a real subnet: if a bound user socket with prefix length ≥ 1 contains the destination (or is
on its scope), a datagram without source address goes to a user socket whose prefix is at least
as long — never to the built-in wildcard. -/
theorem user_socket_not_shadowed (ok4 ok6 : Bool) (rs : List BReq)
    (hacc : C20.accepts (rs.map (·.req)) = true) (b : Bound)
    (hb : transportsBind (builderTransports ok4 ok6 rs) = .ok b)
    (r : BReq) (hr : r ∈ rs) (hok : r.bindOk = true) (hp : 1 ≤ r.req.prefixLen)
    (dst : Ip) (scope : Nat) (hv : validSend r.cfg none dst scope = true) :
    ∃ c, route b none dst scope = some c ∧ r.req.prefixLen ≤ c.prefixLen ∧ ∃ r' ∈ rs, c = r'.cfg := by
  obtain ⟨hwf, hmem, _⟩ := (builder_to_sockets ok4 ok6 rs hacc).2 b hb
  have hfam : r.cfg.fam = dst.fam := by
    simp only [validSend, Bool.and_eq_true, beq_iff_eq] at hv; exact hv.1
  have hin : r.cfg ∈ b.list dst.fam := (hmem dst.fam r.cfg).mpr ⟨hok, hfam, Or.inl ⟨r, hr, rfl⟩⟩
  have hspec := nosrc_longest_prefix b hwf dst scope
  cases hroute : route b none dst scope with
  | none =>
    rw [hroute] at hspec
    have := hspec.1 _ hin
    rw [hv] at this; cases this
  | some c =>
    rw [hroute] at hspec
    simp only at hspec
    rcases hspec with ⟨hcin, _, hmax⟩ | ⟨hnv, _⟩
    · have hle : r.req.prefixLen ≤ c.prefixLen := hmax _ hin hv
      refine ⟨c, rfl, hle, ?_⟩
      obtain ⟨_, _, h | ⟨rfl, _⟩⟩ := (hmem dst.fam c).mp hcin
      · exact h
      · simp [builtinCfg] at hle; omega
    · have := hnv _ hin
      rw [hv] at this; cases this

/-- The sort the model assumes is the one the source asks for (`Reverse(prefix_len)`), and the
built-in wildcard transports are not default routes (`is_default: false`). -/
theorem source_anchors :
    Generated.C19.sortV4Descending = 1 ∧ Generated.C19.sortV6Descending = 1 ∧
    Generated.C19.builtinV4IsDefault = 0 ∧ Generated.C19.builtinV6IsDefault = 0 := ⟨rfl, rfl, rfl, rfl⟩

/-! ### Non-vacuity -/

/-- The repo's own sorting example: /8, /24 (default), /0 → /24, /8, /0; default = the /24. -/
example :
    bind [⟨.v4, 0x7f000001, 8, 0, false, true, true, 0⟩, ⟨.v4, 0x7f000001, 24, 0, true, true, true, 1⟩,
          ⟨.v4, 0x7f000001, 0, 0, false, true, true, 2⟩]
      = .ok ⟨[⟨.v4, 0x7f000001, 24, 0, true, true, true, 1⟩, ⟨.v4, 0x7f000001, 8, 0, false, true, true, 0⟩,
              ⟨.v4, 0x7f000001, 0, 0, false, true, true, 2⟩], []⟩ := by
  simp [bind, bindLoop, sortDesc, insertDesc]

/-- `WF` is satisfiable by a bind result, and routing picks the longest containing prefix. -/
example :
    route ⟨[⟨.v4, 0x0a000101, 24, 0, false, true, true, 1⟩, ⟨.v4, 0x0a000001, 8, 0, true, true, true, 0⟩], []⟩
      none ⟨.v4, 0x0a000105⟩ 0 = some ⟨.v4, 0x0a000101, 24, 0, false, true, true, 1⟩ ∧
    route ⟨[⟨.v4, 0x0a000101, 24, 0, false, true, true, 1⟩, ⟨.v4, 0x0a000001, 8, 0, true, true, true, 0⟩], []⟩
      none ⟨.v4, 0xc0a80001⟩ 0 = some ⟨.v4, 0x0a000001, 8, 0, true, true, true, 0⟩ ∧
    route ⟨[⟨.v4, 0x0a000101, 24, 0, false, true, true, 1⟩], []⟩ none ⟨.v4, 0xc0a80001⟩ 0 = none := by
  decide

/-- The link-local scope rule: `fe80::1%3` goes to the socket on scope 3. -/
example :
    route ⟨[], [⟨.v6, 0x20010db8000000000000000000000001, 64, 3, false, true, true, 0⟩,
                ⟨.v6, 0, 0, 0, true, true, true, 1⟩]⟩ none ⟨.v6, 0xfe800000000000000000000000000001⟩ 3
      = some ⟨.v6, 0x20010db8000000000000000000000001, 64, 3, false, true, true, 0⟩ := by decide

/-- The builder path on a concrete accepted request list: a /24 socket and a user default route
(/16, flag set) — the IPv4 wildcard is suppressed, the IPv6 one stays. -/
example :
    C20.accepts (([⟨⟨.v4, 24, none, true⟩, 0x0a000001, 0, true, 0⟩,
                   ⟨⟨.v4, 16, some true, true⟩, 0xc0a80001, 0, true, 1⟩] : List BReq).map (·.req)) = true ∧
    transportsBind (builderTransports true true
        [⟨⟨.v4, 24, none, true⟩, 0x0a000001, 0, true, 0⟩, ⟨⟨.v4, 16, some true, true⟩, 0xc0a80001, 0, true, 1⟩])
      = .ok ⟨[⟨.v4, 0x0a000001, 24, 0, false, true, true, 0⟩, ⟨.v4, 0xc0a80001, 16, 0, true, true, true, 1⟩],
             [builtinCfg .v6 true]⟩ := by
  constructor
  · decide
  · simp [transportsBind, ipConfigs, builderTransports, hasUserDefaultT, builtinCfg, BReq.cfg, famOf,
      C20.Req.isDefaultRoute, bind, bindLoop, sortDesc, insertDesc]

/-- Documented tie: a user socket with prefix 0 that is explicitly NOT a default route sits behind
the built-in wildcard (also prefix 0, configured first) and gets no source-less traffic. -/
example :
    transportsBind (builderTransports true true [⟨⟨.v4, 0, some false, true⟩, 0x0a000001, 0, true, 0⟩])
      = .ok ⟨[builtinCfg .v4 true, ⟨.v4, 0x0a000001, 0, 0, false, true, true, 0⟩], [builtinCfg .v6 true]⟩ := by
  simp [transportsBind, ipConfigs, builderTransports, hasUserDefaultT, builtinCfg, BReq.cfg, famOf,
    C20.Req.isDefaultRoute, bind, bindLoop, sortDesc, insertDesc]

end IrohModel.C19
