/-
C35 — property theorems (only).  Statement of the property:

  Resolving a host yields every IPv4 and IPv6 address the two lookups return, as each
  lookup completes; it ends with a combined error only if both lookups failed, with a
  no-response error only if nothing was yielded otherwise, and yields IP-literal hosts
  directly.

All theorems are about `run cfg init evs` for an arbitrary schedule `evs` (consumer polls,
lookup completions with arbitrary results, passage of time, in any order) and an arbitrary
configuration (timeout, immediate replies), i.e. they hold for every completion order,
result size, failure and timing.  `s.processed` is the list of lookup results the stream
consumed (in that order), `s.outs` what the consumer got from each poll.
-/
import IrohModel.C35.Lemmas
import IrohModel.Generated.C35

namespace IrohModel.C35

/-! ### yields every address, in completion order, without waiting for the other family -/

/-- At every moment, the addresses handed out plus those queued are exactly the addresses of
the lookups consumed so far, in consumption order and each lookup's own order; once the
stream is over nothing is queued and both lookups have been consumed — so every address the
two lookups returned has been yielded, each family as one block. -/
theorem yields_all_in_completion_order (cfg : Config) (evs : List Ev) :
    let s := run cfg init evs
    okItems s.outs ++ s.queue = s.processed.flatMap addrsOf ∧
    (s.closed = true →
      s.queue = [] ∧
      ∃ r4 r6, (s.processed = [(.v4, r4), (.v6, r6)] ∨ s.processed = [(.v6, r6), (.v4, r4)])) := by
  intro s
  have inv : Inv s := inv_reachable cfg evs
  refine ⟨inv.items, ?_⟩
  intro hc
  obtain ⟨h4, h6, hq⟩ := inv.closedInv hc
  refine ⟨hq, ?_⟩
  obtain ⟨r4, hr4⟩ := inv.v4gone.mp h4
  obtain ⟨r6, hr6⟩ := inv.v6gone.mp h6
  refine ⟨r4, r6, ?_⟩
  have hnd := inv.nodup
  generalize s.processed = l at hr4 hr6 hnd
  match l, hr4, hr6, hnd with
  | [], hr4, _, _ => cases hr4
  | [x], hr4, hr6, _ =>
    simp only [List.mem_singleton] at hr4 hr6
    rw [← hr4] at hr6; cases hr6
  | [x, y], hr4, hr6, hnd =>
    simp only [List.mem_cons, List.not_mem_nil, or_false] at hr4 hr6
    rcases hr4 with h | h <;> rcases hr6 with h' | h'
    · rw [← h] at h'; cases h'
    · left; rw [← h, ← h']
    · right; rw [← h, ← h']
    · rw [← h] at h'; cases h'
  | x :: y :: z :: rest, _, _, hnd =>
    exfalso
    obtain ⟨fx, rx⟩ := x
    obtain ⟨fy, ry⟩ := y
    obtain ⟨fz, rz⟩ := z
    simp only [List.map_cons, List.nodup_cons, List.mem_cons, not_or] at hnd
    cases fx <;> cases fy <;> cases fz <;> simp at hnd

/-- "As each lookup completes": a poll answers `Pending` only when no address is queued and
neither lookup holds an address (an answered lookup, or one that answers at once, has an
empty or failed result); afterwards both lookups are issued, unanswered and within their
timeout — the consumer is never kept waiting for one family while the other has addresses. -/
theorem pending_only_if_nothing_available (cfg : Config) (s : State)
    (h : (next cfg s).2 = .pending) :
    (s.closed = false ∧ s.queue = [] ∧ noAddr cfg.imm4 s.v4 ∧ noAddr cfg.imm6 s.v6) ∧
    ((next cfg s).1.queue = [] ∧ ¬ ((next cfg s).1.v4 = .gone ∧ (next cfg s).1.v6 = .gone) ∧
      Waiting cfg.tmo s.now (next cfg s).1.v4 ∧ Waiting cfg.tmo s.now (next cfg s).1.v6) := by
  have hm : measure s < 3 := by unfold measure; split <;> split <;> omega
  have := nextLoop_pending cfg 3 s (next cfg s).1 hm (by unfold next at h ⊢; rw [← h])
  exact ⟨this.1, this.2.2⟩

/-- Consumption order is completion order: the IPv6 result is consumed before the IPv4 one
only at a poll at which the IPv4 lookup had nothing ready (`select!` is `biased`, IPv4 first). -/
theorem v6_first_only_if_v4_not_ready (cfg : Config) (s s' : State) (r : LookupRes)
    (h : iter cfg s = (s', none)) (h6 : s'.processed = s.processed ++ [(.v6, r)]) :
    Unready cfg.tmo s.now cfg.imm4 s.v4 := by
  obtain ⟨_, _, _, _, hcase⟩ := iter_none h
  rcases hcase with ⟨r', c, _, _, _, _, hp⟩ | ⟨r', c, hu, _⟩
  · rw [hp] at h6
    have := List.append_cancel_left h6
    simp at this
  · exact hu

/-- The recursion bound in `next` is never reached. -/
theorem next_fuel (cfg : Config) (s : State) (k : Nat) : nextLoop cfg (3 + k) s = next cfg s := by
  have hm : measure s < 3 := by unfold measure; split <;> split <;> omega
  exact nextLoop_fuel cfg 3 s hm k

/-! ### combined error iff both lookups failed -/

theorem both_fail_iff_combined_error (cfg : Config) (evs : List Ev) (e4 e6 : Err) :
    let s := run cfg init evs
    Out.errBoth e4 e6 ∈ s.outs ↔
      (s.closed = true ∧ (Fam.v4, LookupRes.error e4) ∈ s.processed ∧
        (Fam.v6, LookupRes.error e6) ∈ s.processed) := by
  intro s
  have inv : Inv s := inv_reachable cfg evs
  constructor
  · intro hmem
    cases hc : s.closed with
    | false => have := inv.open_ hc _ hmem; simp [isTerminal] at this
    | true =>
      obtain ⟨pre, t, k, houts, _, hpre, hok⟩ := inv.term hc
      rw [houts] at hmem
      simp only [List.mem_append, List.mem_cons, List.mem_replicate] at hmem
      rcases hmem with hmem | hmem | hmem
      · have := hpre _ hmem; simp [isTerminal] at this
      · subst hmem; exact ⟨rfl, hok⟩
      · simp at hmem
  · rintro ⟨hc, h4, h6⟩
    obtain ⟨pre, t, k, houts, _, _, hok⟩ := inv.term hc
    rw [houts]
    cases t with
    | errBoth a b =>
      have ha := processed_unique inv hok.1 h4
      have hb := processed_unique inv hok.2 h6
      cases ha; cases hb
      simp
    | errNoResponse => exact absurd ⟨e4, e6, h4, h6⟩ hok.2
    | fin => exact absurd ⟨e4, e6, h4, h6⟩ hok.2
    | item a => cases hok
    | pending => cases hok

/-! ### no-response error iff nothing was yielded and not both failed -/

theorem noresponse_iff_nothing_and_not_both_failed (cfg : Config) (evs : List Ev) :
    let s := run cfg init evs
    Out.errNoResponse ∈ s.outs ↔
      (s.closed = true ∧ okItems s.outs = [] ∧ ¬ BothFailed s.processed) := by
  intro s
  have inv : Inv s := inv_reachable cfg evs
  constructor
  · intro hmem
    cases hc : s.closed with
    | false => have := inv.open_ hc _ hmem; simp [isTerminal] at this
    | true =>
      obtain ⟨pre, t, k, houts, _, hpre, hok⟩ := inv.term hc
      rw [houts] at hmem
      simp only [List.mem_append, List.mem_cons, List.mem_replicate] at hmem
      rcases hmem with hmem | hmem | hmem
      · have := hpre _ hmem; simp [isTerminal] at this
      · subst hmem
        refine ⟨rfl, ?_, hok.2⟩
        rw [houts]
        have : pre ++ Out.errNoResponse :: List.replicate k Out.fin =
            pre ++ ([Out.errNoResponse] ++ List.replicate k Out.fin) := rfl
        rw [this, okItems_append, okItems_append, hok.1, okItems_replicate_fin]; rfl
      · simp at hmem
  · rintro ⟨hc, hnone, hnb⟩
    obtain ⟨pre, t, k, houts, _, _, hok⟩ := inv.term hc
    rw [houts]
    have hpre : okItems pre = [] := by
      rw [houts, okItems_append] at hnone
      exact (List.append_eq_nil_iff.mp hnone).1
    cases t with
    | errBoth a b => exact absurd ⟨a, b, hok.1, hok.2⟩ hnb
    | errNoResponse => simp
    | fin => exact absurd hpre hok.1
    | item a => cases hok
    | pending => cases hok

/-! ### the stream ends once -/

/-- While the stream is open the consumer has seen only addresses and `Pending`; once it is
over, the results are: non-terminal ones, then exactly one terminal result (the combined
error, the no-response error, or `None`), then only `None`.  So there is at most one error
item, it comes last, and nothing is yielded after the end. -/
theorem terminates_once (cfg : Config) (evs : List Ev) :
    let s := run cfg init evs
    (s.closed = false → ∀ o, o ∈ s.outs → isTerminal o = false) ∧
    (s.closed = true → ∃ pre t k, s.outs = pre ++ t :: List.replicate k .fin ∧
      isTerminal t = true ∧ (∀ o, o ∈ pre → isTerminal o = false)) ∧
    (s.closed = true → (next cfg s).2 = .fin ∧ (next cfg s).1.closed = true) := by
  intro s
  have inv : Inv s := inv_reachable cfg evs
  refine ⟨inv.open_, ?_, ?_⟩
  · intro hc
    obtain ⟨pre, t, k, h1, h2, h3, _⟩ := inv.term hc
    exact ⟨pre, t, k, h1, h2, h3⟩
  · intro hc
    simp [next, nextLoop, iter, hc, emit]

/-! ### IP-literal hosts (and URLs without host) are answered directly -/

theorem ip_literal_direct (cfg : Config) (a : Addr) :
    ((resolveHostAll (.lit a)).poll cfg).2 = .out (.item a) ∧
    (((resolveHostAll (.lit a)).poll cfg).1.poll cfg).2 = .out .fin ∧
    ((resolveHostAll .missing).poll cfg).2 = .errMissingHost ∧
    (((resolveHostAll .missing).poll cfg).1.poll cfg).2 = .out .fin := by
  simp [resolveHostAll, Stream.poll]

/-- Source tripwire: the first arm of the `biased` `select!` is the IPv4 lookup, as in `iter`. -/
theorem biased_first_arm_is_v4 : Generated.C35.selectFirstArm = 4 := rfl

/-! ### non-vacuity -/

-- IPv6 answers first with two addresses, IPv4 later with one: all three are yielded, IPv6 block first
example :
    let s := run ⟨50, none, none⟩ init
      [.next, .deliver .v6 (.ok [7, 8]), .next, .next, .next, .deliver .v4 (.ok [1]), .next, .next]
    s.outs = [.pending, .item ⟨.v6, 7⟩, .item ⟨.v6, 8⟩, .pending, .item ⟨.v4, 1⟩, .fin] ∧ s.closed = true := by
  decide
-- both fail (IPv4 by timeout): one combined error, then the end
example :
    let s := run ⟨50, none, none⟩ init [.next, .deliver .v6 (.error "e8"), .advance 50, .next, .next]
    s.outs = [.pending, .errBoth "to" "e8", .fin] := by
  decide
-- both succeed with no addresses: no-response error
example :
    let s := run ⟨50, some (.ok []), none⟩ init [.next, .deliver .v6 (.ok []), .next, .next]
    s.outs = [.pending, .errNoResponse, .fin] := by
  decide
-- a `Pending` poll (hypothesis of `pending_only_if_nothing_available`)
example : (next ⟨50, none, none⟩ init).2 = .pending := by decide

end IrohModel.C35
