/-
C35 — `DnsResolver::resolve_host_all` (iroh-dns/src/dns.rs).  Executable model of the
`stream::unfold` state machine, one `poll_next` at a time, together with the two
`Inner::op` lookups it drives (lazy start at first poll, per-lookup timeout).

The schedule is the *input*: a list of events

* `next`           the consumer polls the stream once,
* `deliver f r`    the resolver's lookup for family `f` completes with `r`
                   (ignored unless that lookup has been issued and is still unanswered),
* `advance ms`     virtual time passes,

so theorems about `run` hold for every completion order, result and timing.
Core Lean only.  Fields `processed` and `outs` are history (ghost) fields: the code
does not have them, they record what the machine consumed and produced.
-/
namespace IrohModel.C35

inductive Fam | v4 | v6
deriving DecidableEq, Repr

/-- An address: family and an identifier standing for the bits. -/
structure Addr where
  fam : Fam
  id : Nat
deriving DecidableEq, Repr

abbrev Err := String

/-- What one family's lookup returns: `DnsError` code or the addresses in order. -/
inductive LookupRes
  | ok (ids : List Nat)
  | error (e : Err)
deriving DecidableEq, Repr

/-- A `MaybeFuture` holding the `Inner::op` future of one family. -/
inductive Fut
  /-- created, never polled: the resolver has not been asked yet -/
  | idle
  /-- first polled at `t0` (resolver asked, timeout armed); `answer` = resolver's reply if it came -/
  | running (t0 : Nat) (answer : Option LookupRes)
  /-- `MaybeFuture::None` -/
  | gone
deriving DecidableEq, Repr

inductive Out
  | item (a : Addr)
  | errBoth (e4 e6 : Err)
  | errNoResponse
  /-- `Poll::Ready(None)` -/
  | fin
  | pending
deriving DecidableEq, Repr

structure Config where
  /-- per-lookup timeout, ms -/
  tmo : Nat
  /-- reply the resolver gives at once when asked (the returned future is ready on first poll) -/
  imm4 : Option LookupRes
  imm6 : Option LookupRes

structure State where
  now : Nat
  v4 : Fut
  v6 : Fut
  v4Err : Option Err
  v6Err : Option Err
  queue : List Addr
  closed : Bool
  yielded : Bool
  /-- history: lookups consumed by the `select!`, in that order -/
  processed : List (Fam × LookupRes)
  /-- history: result of every `poll_next`, in order -/
  outs : List Out
  /-- history: when each resolver lookup was issued -/
  calls : List (Fam × Nat)
deriving Repr

def init : State :=
  { now := 0, v4 := .idle, v6 := .idle, v4Err := none, v6Err := none, queue := [],
    closed := false, yielded := false, processed := [], outs := [], calls := [] }

/-- Poll one `MaybeFuture<op>`: new future state, the lookup result if it is ready, and
whether this poll issued the resolver lookup.  Inside `op` the `select!` is biased: the
resolver's reply wins over the timeout. -/
def pollFut (tmo now : Nat) (imm : Option LookupRes) : Fut → Fut × Option LookupRes × Bool
  | .idle =>
    match imm with
    | some r => (.gone, some r, true)
    | none => if tmo = 0 then (.gone, some (.error "to"), true) else (.running now none, none, true)
  | .running _ (some r) => (.gone, some r, false)
  | .running t0 none =>
    if t0 + tmo ≤ now then (.gone, some (.error "to"), false) else (.running t0 none, none, false)
  | .gone => (.gone, none, false)

def addrsOf (p : Fam × LookupRes) : List Addr :=
  match p.2 with
  | .ok ids => ids.map fun i => ⟨p.1, i⟩
  | .error _ => []

/-- The body of a `select!` arm. -/
def process (s : State) (f : Fam) (r : LookupRes) : State :=
  let s := { s with processed := s.processed ++ [(f, r)] }
  match r with
  | .ok _ => { s with queue := s.queue ++ addrsOf (f, r) }
  | .error e => match f with
    | .v4 => { s with v4Err := some e }
    | .v6 => { s with v6Err := some e }

def emit (s : State) (o : Out) : State × Option Out :=
  ({ s with outs := s.outs ++ [o] }, some o)

def noteCall (s : State) (f : Fam) (issued : Bool) : State :=
  if issued then { s with calls := s.calls ++ [(f, s.now)] } else s

/-- One iteration of the `loop` in the unfold closure: `some o` = the closure returned
(`o = pending`: the `select!` found nothing ready), `none` = `continue`. -/
def iter (cfg : Config) (s : State) : State × Option Out :=
  if s.closed then emit s .fin
  else match s.queue with
  | a :: q => emit { s with queue := q, yielded := true } (.item a)
  | [] =>
    if s.v4 = .gone ∧ s.v6 = .gone then
      let s' := { s with closed := true, v4Err := none, v6Err := none }
      match s.v4Err, s.v6Err with
      | some e4, some e6 => emit s' (.errBoth e4 e6)
      | _, _ => if s.yielded then emit s' .fin else emit s' .errNoResponse
    else
      let (f4, r4, c4) := pollFut cfg.tmo s.now cfg.imm4 s.v4
      let s := noteCall { s with v4 := f4 } .v4 c4
      match r4 with
      | some r => (process s .v4 r, none)
      | none =>
        let (f6, r6, c6) := pollFut cfg.tmo s.now cfg.imm6 s.v6
        let s := noteCall { s with v6 := f6 } .v6 c6
        match r6 with
        | some r => (process s .v6 r, none)
        | none => emit s .pending

/-- `poll_next`: iterate until the closure returns.  Three iterations always suffice
(`Theorems.next_fuel`), the fuel only makes the definition structurally recursive. -/
def nextLoop (cfg : Config) : Nat → State → State × Out
  | 0, s => (s, .pending)
  | fuel + 1, s =>
    match iter cfg s with
    | (s', some o) => (s', o)
    | (s', none) => nextLoop cfg fuel s'

def next (cfg : Config) (s : State) : State × Out := nextLoop cfg 3 s

inductive Ev
  | next
  | deliver (f : Fam) (r : LookupRes)
  | advance (ms : Nat)
deriving Repr

def deliverFut (r : LookupRes) : Fut → Fut
  | .running t0 none => .running t0 (some r)
  | f => f

def step (cfg : Config) (s : State) : Ev → State
  | .next => (next cfg s).1
  | .deliver .v4 r => { s with v4 := deliverFut r s.v4 }
  | .deliver .v6 r => { s with v6 := deliverFut r s.v6 }
  | .advance ms => { s with now := s.now + ms }

def run (cfg : Config) (s : State) (evs : List Ev) : State := evs.foldl (step cfg) s

/-! ## The whole function: host kinds -/

inductive Host
  | missing
  | lit (a : Addr)
  | domain
deriving Repr

inductive TopOut
  | errMissingHost
  | out (o : Out)
deriving DecidableEq, Repr

/-- `stream::once(x)` is modelled by the remaining item. -/
inductive Stream
  | once (item : Option TopOut)
  | unfold (s : State)

def resolveHostAll : Host → Stream
  | .missing => .once (some .errMissingHost)
  | .lit a => .once (some (.out (.item a)))
  | .domain => .unfold init

def Stream.poll (cfg : Config) : Stream → Stream × TopOut
  | .once (some x) => (.once none, x)
  | .once none => (.once none, .out .fin)
  | .unfold s => let (s', o) := next cfg s; (.unfold s', .out o)

end IrohModel.C35
