/-
C35 — observation vocabulary and the inductive invariant of the `resolve_host_all`
state machine.
-/
import IrohModel.C35.Model

namespace IrohModel.C35

/-! ## Observations -/

/-- Addresses handed to the consumer so far. -/
def okItems (outs : List Out) : List Addr :=
  outs.filterMap fun | .item a => some a | _ => none

/-- Stream results after which the stream is over: an error item or `None`. -/
def isTerminal : Out → Bool
  | .errBoth _ _ => true
  | .errNoResponse => true
  | .fin => true
  | _ => false

/-- Both family lookups were consumed and both had failed. -/
def BothFailed (p : List (Fam × LookupRes)) : Prop :=
  ∃ e4 e6, (Fam.v4, LookupRes.error e4) ∈ p ∧ (Fam.v6, LookupRes.error e6) ∈ p

@[simp] theorem okItems_nil : okItems [] = [] := rfl
@[simp] theorem okItems_append (a b : List Out) : okItems (a ++ b) = okItems a ++ okItems b := by
  simp [okItems]
@[simp] theorem okItems_item (a : Addr) : okItems [.item a] = [a] := rfl
@[simp] theorem okItems_fin : okItems [.fin] = [] := rfl
@[simp] theorem okItems_pending : okItems [.pending] = [] := rfl
@[simp] theorem okItems_errBoth (a b : Err) : okItems [.errBoth a b] = [] := rfl
@[simp] theorem okItems_errNoResponse : okItems [.errNoResponse] = [] := rfl

theorem okItems_replicate_fin (k : Nat) : okItems (List.replicate k .fin) = [] := by
  induction k with
  | zero => rfl
  | succ k ih =>
    rw [List.replicate_succ]
    show okItems ([Out.fin] ++ List.replicate k Out.fin) = []
    rw [okItems_append, ih]; rfl

/-! ## `pollFut` -/

theorem pollFut_some {tmo now : Nat} {imm : Option LookupRes} {f f' : Fut} {r : LookupRes} {c : Bool}
    (h : pollFut tmo now imm f = (f', some r, c)) : f ≠ .gone ∧ f' = .gone := by
  unfold pollFut at h
  split at h
  · split at h
    · simp at h; exact ⟨(by intro hh; cases hh), h.1.symm⟩
    · split at h <;> simp at h; exact ⟨(by intro hh; cases hh), h.1.symm⟩
  · simp at h; exact ⟨(by intro hh; cases hh), h.1.symm⟩
  · split at h <;> simp at h; exact ⟨(by intro hh; cases hh), h.1.symm⟩
  · simp at h

/-- A poll that finds nothing ready: the lookup is absent, or it was just issued without an
immediate reply and a non-zero timeout, or it is unanswered and its timeout has not expired. -/
theorem pollFut_none {tmo now : Nat} {imm : Option LookupRes} {f f' : Fut} {c : Bool}
    (h : pollFut tmo now imm f = (f', none, c)) :
    (f = .gone ∧ f' = .gone) ∨
    (f = .idle ∧ imm = none ∧ tmo ≠ 0 ∧ f' = .running now none) ∨
    (∃ t0, f = .running t0 none ∧ now < t0 + tmo ∧ f' = f) := by
  unfold pollFut at h
  split at h
  · split at h
    · simp at h
    · split at h <;> simp at h
      rename_i himm htmo
      exact Or.inr (Or.inl ⟨rfl, rfl, htmo, h.1.symm⟩)
  · simp at h
  · split at h <;> simp at h
    rename_i t0 hlt
    exact Or.inr (Or.inr ⟨t0, rfl, by omega, h.1.symm⟩)
  · simp at h; exact Or.inl ⟨rfl, h.1.symm⟩

theorem pollFut_none_gone_iff {tmo now : Nat} {imm : Option LookupRes} {f f' : Fut} {c : Bool}
    (h : pollFut tmo now imm f = (f', none, c)) : f' = .gone ↔ f = .gone := by
  rcases pollFut_none h with ⟨h1, h2⟩ | ⟨h1, _, _, h2⟩ | ⟨t0, h1, _, h2⟩
  · simp [h1, h2]
  · simp [h1, h2]
  · simp [h1, h2]

/-! ## field lemmas -/

@[simp] theorem noteCall_now (s : State) (f : Fam) (c : Bool) : (noteCall s f c).now = s.now := by
  unfold noteCall; split <;> rfl
@[simp] theorem noteCall_v4 (s : State) (f : Fam) (c : Bool) : (noteCall s f c).v4 = s.v4 := by
  unfold noteCall; split <;> rfl
@[simp] theorem noteCall_v6 (s : State) (f : Fam) (c : Bool) : (noteCall s f c).v6 = s.v6 := by
  unfold noteCall; split <;> rfl
@[simp] theorem noteCall_v4Err (s : State) (f : Fam) (c : Bool) : (noteCall s f c).v4Err = s.v4Err := by
  unfold noteCall; split <;> rfl
@[simp] theorem noteCall_v6Err (s : State) (f : Fam) (c : Bool) : (noteCall s f c).v6Err = s.v6Err := by
  unfold noteCall; split <;> rfl
@[simp] theorem noteCall_queue (s : State) (f : Fam) (c : Bool) : (noteCall s f c).queue = s.queue := by
  unfold noteCall; split <;> rfl
@[simp] theorem noteCall_closed (s : State) (f : Fam) (c : Bool) : (noteCall s f c).closed = s.closed := by
  unfold noteCall; split <;> rfl
@[simp] theorem noteCall_yielded (s : State) (f : Fam) (c : Bool) : (noteCall s f c).yielded = s.yielded := by
  unfold noteCall; split <;> rfl
@[simp] theorem noteCall_processed (s : State) (f : Fam) (c : Bool) :
    (noteCall s f c).processed = s.processed := by
  unfold noteCall; split <;> rfl
@[simp] theorem noteCall_outs (s : State) (f : Fam) (c : Bool) : (noteCall s f c).outs = s.outs := by
  unfold noteCall; split <;> rfl

@[simp] theorem process_now (s : State) (f : Fam) (r : LookupRes) : (process s f r).now = s.now := by
  unfold process; cases r <;> cases f <;> rfl
@[simp] theorem process_v4 (s : State) (f : Fam) (r : LookupRes) : (process s f r).v4 = s.v4 := by
  unfold process; cases r <;> cases f <;> rfl
@[simp] theorem process_v6 (s : State) (f : Fam) (r : LookupRes) : (process s f r).v6 = s.v6 := by
  unfold process; cases r <;> cases f <;> rfl
@[simp] theorem process_closed (s : State) (f : Fam) (r : LookupRes) : (process s f r).closed = s.closed := by
  unfold process; cases r <;> cases f <;> rfl
@[simp] theorem process_yielded (s : State) (f : Fam) (r : LookupRes) :
    (process s f r).yielded = s.yielded := by
  unfold process; cases r <;> cases f <;> rfl
@[simp] theorem process_outs (s : State) (f : Fam) (r : LookupRes) : (process s f r).outs = s.outs := by
  unfold process; cases r <;> cases f <;> rfl
@[simp] theorem process_processed (s : State) (f : Fam) (r : LookupRes) :
    (process s f r).processed = s.processed ++ [(f, r)] := by
  unfold process; cases r <;> cases f <;> rfl
@[simp] theorem process_queue (s : State) (f : Fam) (r : LookupRes) :
    (process s f r).queue = s.queue ++ addrsOf (f, r) := by
  unfold process; cases r <;> cases f <;> simp [addrsOf]

theorem process_v4Err (s : State) (f : Fam) (r : LookupRes) :
    (process s f r).v4Err = match f, r with | .v4, .error e => some e | _, _ => s.v4Err := by
  unfold process; cases r <;> cases f <;> rfl
theorem process_v6Err (s : State) (f : Fam) (r : LookupRes) :
    (process s f r).v6Err = match f, r with | .v6, .error e => some e | _, _ => s.v6Err := by
  unfold process; cases r <;> cases f <;> rfl

/-! ## The invariant -/

/-- What the terminal result `t` says about the lookups, given the results `pre` before it. -/
def TermOk (p : List (Fam × LookupRes)) (pre : List Out) : Out → Prop
  | .errBoth e4 e6 => (Fam.v4, LookupRes.error e4) ∈ p ∧ (Fam.v6, LookupRes.error e6) ∈ p
  | .errNoResponse => okItems pre = [] ∧ ¬ BothFailed p
  | .fin => okItems pre ≠ [] ∧ ¬ BothFailed p
  | _ => False

structure Inv (s : State) : Prop where
  items : okItems s.outs ++ s.queue = s.processed.flatMap addrsOf
  v4gone : s.v4 = .gone ↔ ∃ r, (Fam.v4, r) ∈ s.processed
  v6gone : s.v6 = .gone ↔ ∃ r, (Fam.v6, r) ∈ s.processed
  nodup : (s.processed.map Prod.fst).Nodup
  err4 : s.closed = false → ∀ e, s.v4Err = some e ↔ (Fam.v4, LookupRes.error e) ∈ s.processed
  err6 : s.closed = false → ∀ e, s.v6Err = some e ↔ (Fam.v6, LookupRes.error e) ∈ s.processed
  yld : s.closed = false → (s.yielded = true ↔ okItems s.outs ≠ [])
  closedInv : s.closed = true → s.v4 = .gone ∧ s.v6 = .gone ∧ s.queue = []
  open_ : s.closed = false → ∀ o, o ∈ s.outs → isTerminal o = false
  term : s.closed = true → ∃ pre t k, s.outs = pre ++ t :: List.replicate k .fin ∧
    isTerminal t = true ∧ (∀ o, o ∈ pre → isTerminal o = false) ∧ TermOk s.processed pre t

theorem inv_init : Inv init where
  items := rfl
  v4gone := by simp [init]
  v6gone := by simp [init]
  nodup := by simp [init]
  err4 := by simp [init]
  err6 := by simp [init]
  yld := by simp [init]
  closedInv := by simp [init]
  open_ := by simp [init]
  term := by simp [init]

/-- One family's result is unique. -/
theorem processed_unique {s : State} (inv : Inv s) {f : Fam} {r r' : LookupRes}
    (h : (f, r) ∈ s.processed) (h' : (f, r') ∈ s.processed) : r = r' := by
  have hnd := inv.nodup
  generalize s.processed = l at *
  induction l with
  | nil => cases h
  | cons p l ih =>
    simp only [List.map_cons, List.nodup_cons, List.mem_map, not_exists, not_and] at hnd
    simp only [List.mem_cons] at h h'
    rcases h with h | h <;> rcases h' with h' | h'
    · rw [← h] at h'; exact (Prod.mk.inj h').2.symm
    · subst h; exact absurd rfl (hnd.1 (f, r') h')
    · subst h'; exact absurd rfl (hnd.1 (f, r) h)
    · exact ih h h' hnd.2

/-- Appending the result of a family that has not been consumed yet keeps the invariant of
an open state (the `select!` arm); stated on the fields because the state in which the arm
runs has the polled future already taken out. -/
theorem inv_process {s : State} (hopen : s.closed = false) (f : Fam) (r : LookupRes)
    (hnew : ∀ r', (f, r') ∉ s.processed)
    (hgone4 : f = .v4 → s.v4 = .gone) (hgone6 : f = .v6 → s.v6 = .gone)
    (hkeep4 : f ≠ .v4 → (s.v4 = .gone ↔ ∃ r, (Fam.v4, r) ∈ s.processed))
    (hkeep6 : f ≠ .v6 → (s.v6 = .gone ↔ ∃ r, (Fam.v6, r) ∈ s.processed))
    (hitems : okItems s.outs ++ s.queue = s.processed.flatMap addrsOf)
    (herr4 : ∀ e, s.v4Err = some e ↔ (Fam.v4, LookupRes.error e) ∈ s.processed)
    (herr6 : ∀ e, s.v6Err = some e ↔ (Fam.v6, LookupRes.error e) ∈ s.processed)
    (hnodup : (s.processed.map Prod.fst).Nodup)
    (hyld : s.yielded = true ↔ okItems s.outs ≠ [])
    (hnonterm : ∀ o, o ∈ s.outs → isTerminal o = false) :
    Inv (process s f r) := by
  refine
    { items := ?_, v4gone := ?_, v6gone := ?_, nodup := ?_, err4 := ?_, err6 := ?_, yld := ?_,
      closedInv := ?_, open_ := ?_, term := ?_ }
  · simp only [process_outs, process_queue, process_processed, List.flatMap_append,
      List.flatMap_cons, List.flatMap_nil, List.append_nil, ← List.append_assoc, hitems]
  · simp only [process_v4, process_processed, List.mem_append, List.mem_singleton, Prod.mk.injEq]
    by_cases hf : f = .v4
    · subst hf; simp [hgone4 rfl]
    · rw [hkeep4 hf]
      constructor
      · rintro ⟨r', h⟩; exact ⟨r', Or.inl h⟩
      · rintro ⟨r', h | h⟩
        · exact ⟨r', h⟩
        · exact absurd h.1.symm hf
  · simp only [process_v6, process_processed, List.mem_append, List.mem_singleton, Prod.mk.injEq]
    by_cases hf : f = .v6
    · subst hf; simp [hgone6 rfl]
    · rw [hkeep6 hf]
      constructor
      · rintro ⟨r', h⟩; exact ⟨r', Or.inl h⟩
      · rintro ⟨r', h | h⟩
        · exact ⟨r', h⟩
        · exact absurd h.1.symm hf
  · simp only [process_processed, List.map_append, List.map_cons, List.map_nil]
    rw [List.nodup_append]
    refine ⟨hnodup, by simp, ?_⟩
    intro a ha b hb
    simp only [List.mem_singleton] at hb
    subst hb
    intro hab; subst hab
    simp only [List.mem_map] at ha
    obtain ⟨⟨f', r'⟩, hmem, hf'⟩ := ha
    simp only at hf'; subst hf'
    exact hnew r' hmem
  · intro _ e
    rw [process_v4Err, process_processed]
    simp only [List.mem_append, List.mem_singleton, Prod.mk.injEq]
    cases f <;> cases r <;> simp_all <;> exact eq_comm
  · intro _ e
    rw [process_v6Err, process_processed]
    simp only [List.mem_append, List.mem_singleton, Prod.mk.injEq]
    cases f <;> cases r <;> simp_all <;> exact eq_comm
  · intro _; simpa using hyld
  · intro h; simp [hopen] at h
  · intro _; simpa using hnonterm
  · intro h; simp [hopen] at h


/-! ## `iter`, `nextLoop`, `step` keep the invariant -/

theorem inv_emit_nonterminal {s : State} (inv : Inv s) (hopen : s.closed = false) (o : Out)
    (ho : isTerminal o = false) (hok : okItems [o] = []) : Inv (emit s o).1 := by
  refine
    { items := ?_, v4gone := inv.v4gone, v6gone := inv.v6gone, nodup := inv.nodup,
      err4 := inv.err4, err6 := inv.err6, yld := ?_, closedInv := inv.closedInv,
      open_ := ?_, term := ?_ }
  · simp only [emit, okItems_append, hok, List.append_nil]; exact inv.items
  · intro h; simp only [emit, okItems_append, hok, List.append_nil]; exact inv.yld h
  · intro h o' ho'
    simp only [emit, List.mem_append, List.mem_singleton] at ho'
    rcases ho' with ho' | ho'
    · exact inv.open_ h o' ho'
    · subst ho'; exact ho
  · intro h; simp [emit, hopen] at h

theorem inv_iter (cfg : Config) {s : State} (inv : Inv s) : Inv (iter cfg s).1 := by
  unfold iter
  by_cases hc : s.closed = true
  · -- already closed: `None` again
    simp only [hc, if_true]
    obtain ⟨pre, t, k, houts, ht, hpre, hok⟩ := inv.term hc
    refine
      { items := ?_, v4gone := inv.v4gone, v6gone := inv.v6gone, nodup := inv.nodup,
        err4 := ?_, err6 := ?_, yld := ?_, closedInv := inv.closedInv, open_ := ?_, term := ?_ }
    · simp only [emit, okItems_append, okItems_fin, List.append_nil]; exact inv.items
    · intro h; simp [emit, hc] at h
    · intro h; simp [emit, hc] at h
    · intro h; simp [emit, hc] at h
    · intro h; simp [emit, hc] at h
    · intro _
      refine ⟨pre, t, k + 1, ?_, ht, hpre, hok⟩
      simp only [emit, houts, List.replicate_succ', List.append_assoc, List.cons_append]
  · have hopen : s.closed = false := by simpa using hc
    rw [if_neg (by simp [hopen])]
    split
    · -- an address is queued
      rename_i a q hq
      refine
        { items := ?_, v4gone := inv.v4gone, v6gone := inv.v6gone, nodup := inv.nodup,
          err4 := inv.err4, err6 := inv.err6, yld := ?_, closedInv := ?_, open_ := ?_, term := ?_ }
      · have := inv.items
        rw [hq] at this
        simp only [emit, okItems_append, okItems_item, List.append_assoc, List.singleton_append]
        exact this
      · intro _; simp [emit]
      · intro h; simp [emit, hopen] at h
      · intro _ o ho
        simp only [emit, List.mem_append, List.mem_singleton] at ho
        rcases ho with ho | ho
        · exact inv.open_ hopen o ho
        · subst ho; rfl
      · intro h; simp [emit, hopen] at h
    · rename_i hq
      by_cases hg : s.v4 = .gone ∧ s.v6 = .gone
      · -- both lookups consumed: close
        rw [if_pos hg]
        have hitems := inv.items
        rw [hq, List.append_nil] at hitems
        have hnt := inv.open_ hopen
        split
        · rename_i e4 e6 h4 h6
          refine
            { items := ?_, v4gone := inv.v4gone, v6gone := inv.v6gone, nodup := inv.nodup,
              err4 := ?_, err6 := ?_, yld := ?_, closedInv := ?_, open_ := ?_, term := ?_ }
          · simp [emit, hq, hitems]
          · intro h; simp [emit] at h
          · intro h; simp [emit] at h
          · intro h; simp [emit] at h
          · intro _; exact ⟨hg.1, hg.2, hq⟩
          · intro h; simp [emit] at h
          · intro _
            refine ⟨s.outs, .errBoth e4 e6, 0, by simp [emit], rfl, hnt, ?_⟩
            exact ⟨(inv.err4 hopen e4).mp h4, (inv.err6 hopen e6).mp h6⟩
        · rename_i hne
          have hnb : ¬ BothFailed s.processed := by
            rintro ⟨e4, e6, h4, h6⟩
            exact hne e4 e6 ((inv.err4 hopen e4).mpr h4) ((inv.err6 hopen e6).mpr h6)
          split
          · rename_i hy
            refine
              { items := ?_, v4gone := inv.v4gone, v6gone := inv.v6gone, nodup := inv.nodup,
                err4 := ?_, err6 := ?_, yld := ?_, closedInv := ?_, open_ := ?_, term := ?_ }
            · simp [emit, hq, hitems]
            · intro h; simp [emit] at h
            · intro h; simp [emit] at h
            · intro h; simp [emit] at h
            · intro _; exact ⟨hg.1, hg.2, hq⟩
            · intro h; simp [emit] at h
            · intro _
              exact ⟨s.outs, .fin, 0, by simp [emit], rfl, hnt, (inv.yld hopen).mp hy, hnb⟩
          · rename_i hy
            refine
              { items := ?_, v4gone := inv.v4gone, v6gone := inv.v6gone, nodup := inv.nodup,
                err4 := ?_, err6 := ?_, yld := ?_, closedInv := ?_, open_ := ?_, term := ?_ }
            · simp [emit, hq, hitems]
            · intro h; simp [emit] at h
            · intro h; simp [emit] at h
            · intro h; simp [emit] at h
            · intro _; exact ⟨hg.1, hg.2, hq⟩
            · intro h; simp [emit] at h
            · intro _
              refine ⟨s.outs, .errNoResponse, 0, by simp [emit], rfl, hnt, ?_, hnb⟩
              apply Classical.byContradiction
              intro hne'
              exact hy ((inv.yld hopen).mpr hne')
      · -- the `select!`
        rw [if_neg hg]
        generalize hp4 : pollFut cfg.tmo s.now cfg.imm4 s.v4 = p4
        obtain ⟨f4, r4, c4⟩ := p4
        simp only
        cases r4 with
        | some r =>
          simp only
          obtain ⟨hne, hf4⟩ := pollFut_some hp4
          subst hf4
          apply inv_process
          · simpa using hopen
          · intro r' hmem
            simp only [noteCall_processed] at hmem
            exact hne (inv.v4gone.mpr ⟨r', hmem⟩)
          · intro _; simp
          · intro h; cases h
          · intro h; exact absurd rfl h
          · intro _; simpa using inv.v6gone
          · simpa using inv.items
          · simpa using inv.err4 hopen
          · simpa using inv.err6 hopen
          · simpa using inv.nodup
          · simpa using inv.yld hopen
          · simpa using inv.open_ hopen
        | none =>
          simp only
          have hg4 := pollFut_none_gone_iff hp4
          generalize hp6 : pollFut cfg.tmo (noteCall { s with v4 := f4 } Fam.v4 c4).now cfg.imm6
            (noteCall { s with v4 := f4 } Fam.v4 c4).v6 = p6
          obtain ⟨f6, r6, c6⟩ := p6
          simp only [noteCall_now, noteCall_v6] at hp6
          cases r6 with
          | some r =>
            simp only
            obtain ⟨hne, hf6⟩ := pollFut_some hp6
            subst hf6
            apply inv_process
            · simpa using hopen
            · intro r' hmem
              simp only [noteCall_processed] at hmem
              exact hne (inv.v6gone.mpr ⟨r', hmem⟩)
            · intro h; cases h
            · intro _; simp
            · intro _; simp only [noteCall_v4, noteCall_processed]; rw [hg4]; exact inv.v4gone
            · intro h; exact absurd rfl h
            · simpa using inv.items
            · simpa using inv.err4 hopen
            · simpa using inv.err6 hopen
            · simpa using inv.nodup
            · simpa using inv.yld hopen
            · simpa using inv.open_ hopen
          | none =>
            simp only
            have hg6 := pollFut_none_gone_iff hp6
            refine
              { items := ?_, v4gone := ?_, v6gone := ?_, nodup := ?_, err4 := ?_, err6 := ?_,
                yld := ?_, closedInv := ?_, open_ := ?_, term := ?_ }
            · simpa [emit] using inv.items
            · simp only [emit, noteCall_v4, noteCall_processed]; rw [hg4]; exact inv.v4gone
            · simp only [emit, noteCall_v6, noteCall_processed]; rw [hg6]; exact inv.v6gone
            · simpa [emit] using inv.nodup
            · intro _; simpa [emit] using inv.err4 hopen
            · intro _; simpa [emit] using inv.err6 hopen
            · intro _; simpa [emit] using inv.yld hopen
            · intro h; simp [emit, hopen] at h
            · intro _ o ho
              simp only [emit, noteCall_outs, List.mem_append, List.mem_singleton] at ho
              rcases ho with ho | ho
              · exact inv.open_ hopen o ho
              · subst ho; rfl
            · intro h; simp [emit, hopen] at h

theorem inv_nextLoop (cfg : Config) (fuel : Nat) : ∀ {s : State}, Inv s → Inv (nextLoop cfg fuel s).1 := by
  induction fuel with
  | zero => intro s inv; simpa [nextLoop] using inv
  | succ fuel ih =>
    intro s inv
    unfold nextLoop
    have h := inv_iter cfg inv
    generalize iter cfg s = p at h
    obtain ⟨s', o⟩ := p
    cases o with
    | some o => exact h
    | none => exact ih h

theorem deliverFut_gone_iff (r : LookupRes) (f : Fut) : deliverFut r f = .gone ↔ f = .gone := by
  unfold deliverFut
  split <;> simp_all

theorem inv_step (cfg : Config) {s : State} (inv : Inv s) (ev : Ev) : Inv (step cfg s ev) := by
  cases ev with
  | next => exact inv_nextLoop cfg 3 inv
  | deliver f r =>
    cases f with
    | v4 =>
      exact { inv with
        v4gone := by simp only [step]; rw [deliverFut_gone_iff]; exact inv.v4gone
        closedInv := by
          intro h
          obtain ⟨a, b, c⟩ := inv.closedInv h
          exact ⟨by simp only [step]; rw [deliverFut_gone_iff]; exact a, b, c⟩ }
    | v6 =>
      exact { inv with
        v6gone := by simp only [step]; rw [deliverFut_gone_iff]; exact inv.v6gone
        closedInv := by
          intro h
          obtain ⟨a, b, c⟩ := inv.closedInv h
          exact ⟨a, by simp only [step]; rw [deliverFut_gone_iff]; exact b, c⟩ }
  | advance ms => exact { inv with }

theorem inv_run (cfg : Config) (evs : List Ev) : ∀ {s : State}, Inv s → Inv (run cfg s evs) := by
  induction evs with
  | nil => intro s inv; exact inv
  | cons ev evs ih => intro s inv; exact ih (inv_step cfg inv ev)

/-- The invariant holds in every state reachable from the initial one. -/
theorem inv_reachable (cfg : Config) (evs : List Ev) : Inv (run cfg init evs) :=
  inv_run cfg evs inv_init


/-! ## What one loop iteration does (progress) -/

/-- Nothing is ready in the lookup: it is absent, or not yet issued (and will not answer at
once nor time out at once), or issued, unanswered and within its timeout. -/
def Unready (tmo now : Nat) (imm : Option LookupRes) (f : Fut) : Prop :=
  f = .gone ∨ (f = .idle ∧ imm = none ∧ tmo ≠ 0) ∨ ∃ t0, f = .running t0 none ∧ now < t0 + tmo

/-- The lookup is absent, or issued, unanswered and within its timeout. -/
def Waiting (tmo now : Nat) (f : Fut) : Prop :=
  f = .gone ∨ ∃ t0, f = .running t0 none ∧ now < t0 + tmo

/-- The lookup holds no address that the stream could hand out. -/
def noAddr (imm : Option LookupRes) : Fut → Prop
  | .idle => ∀ ids, imm = some (.ok ids) → ids = []
  | .running _ (some (.ok ids)) => ids = []
  | _ => True

def measure (s : State) : Nat :=
  (if s.v4 = .gone then 0 else 1) + (if s.v6 = .gone then 0 else 1)

theorem unready_of_pollFut_none {tmo now : Nat} {imm : Option LookupRes} {f f' : Fut} {c : Bool}
    (h : pollFut tmo now imm f = (f', none, c)) : Unready tmo now imm f ∧ Waiting tmo now f' := by
  rcases pollFut_none h with ⟨h1, h2⟩ | ⟨h1, h2, h3, h4⟩ | ⟨t0, h1, h2, h3⟩
  · exact ⟨Or.inl h1, Or.inl h2⟩
  · refine ⟨Or.inr (Or.inl ⟨h1, h2, h3⟩), Or.inr ⟨now, h4, by omega⟩⟩
  · exact ⟨Or.inr (Or.inr ⟨t0, h1, h2⟩), Or.inr ⟨t0, by rw [h3, h1], h2⟩⟩

theorem noAddr_of_unready {tmo now : Nat} {imm : Option LookupRes} {f : Fut}
    (h : Unready tmo now imm f) : noAddr imm f := by
  rcases h with h | ⟨h, himm, _⟩ | ⟨t0, h, _⟩
  · subst h; trivial
  · subst h; intro ids hi; simp [himm] at hi
  · subst h; trivial

theorem noAddr_of_pollFut_some {tmo now : Nat} {imm : Option LookupRes} {f f' : Fut} {r : LookupRes}
    {c : Bool} (fam : Fam) (h : pollFut tmo now imm f = (f', some r, c))
    (hempty : addrsOf (fam, r) = []) : noAddr imm f := by
  cases f with
  | idle =>
    simp only [noAddr]
    intro ids hi
    subst hi
    simp only [pollFut, Prod.mk.injEq, Option.some.injEq] at h
    obtain ⟨_, hr, _⟩ := h
    subst hr
    simpa [addrsOf] using hempty
  | running t0 a =>
    cases a with
    | none => trivial
    | some r0 =>
      cases r0 with
      | ok ids =>
        simp only [pollFut, Prod.mk.injEq, Option.some.injEq] at h
        obtain ⟨_, hr, _⟩ := h
        subst hr
        simpa [noAddr, addrsOf] using hempty
      | error e => trivial
  | gone => trivial

/-- `continue`: exactly one lookup was consumed; either IPv4 (and IPv6 was not even polled),
or IPv6 while IPv4 had nothing ready (`biased`). -/
theorem iter_none {cfg : Config} {s s' : State} (h : iter cfg s = (s', none)) :
    s.closed = false ∧ s.queue = [] ∧ s'.now = s.now ∧ s'.closed = false ∧
    ((∃ r c, pollFut cfg.tmo s.now cfg.imm4 s.v4 = (.gone, some r, c) ∧ s'.v4 = .gone ∧
        s'.v6 = s.v6 ∧ s'.queue = addrsOf (Fam.v4, r) ∧ s'.processed = s.processed ++ [(Fam.v4, r)]) ∨
     (∃ r c, Unready cfg.tmo s.now cfg.imm4 s.v4 ∧ Waiting cfg.tmo s.now s'.v4 ∧
        (s'.v4 = .gone ↔ s.v4 = .gone) ∧
        pollFut cfg.tmo s.now cfg.imm6 s.v6 = (.gone, some r, c) ∧ s'.v6 = .gone ∧
        s'.queue = addrsOf (Fam.v6, r) ∧ s'.processed = s.processed ++ [(Fam.v6, r)])) := by
  unfold iter at h
  by_cases hc : s.closed = true
  · simp [hc, emit] at h
  · have hopen : s.closed = false := by simpa using hc
    rw [if_neg (by simp [hopen])] at h
    split at h
    · simp [emit] at h
    · rename_i hq
      by_cases hg : s.v4 = .gone ∧ s.v6 = .gone
      · rw [if_pos hg] at h
        split at h
        · simp [emit] at h
        · split at h <;> simp [emit] at h
      · rw [if_neg hg] at h
        generalize hp4 : pollFut cfg.tmo s.now cfg.imm4 s.v4 = p4 at h
        obtain ⟨f4, r4, c4⟩ := p4
        simp only at h
        cases r4 with
        | some r =>
          simp only [Prod.mk.injEq, and_true] at h
          subst h
          obtain ⟨_, hf4⟩ := pollFut_some hp4
          subst hf4
          refine ⟨hopen, hq, by simp, by simpa using hopen, Or.inl ⟨r, c4, rfl, by simp, by simp, by simp [hq], by simp⟩⟩
        | none =>
          simp only at h
          generalize hp6 : pollFut cfg.tmo (noteCall { s with v4 := f4 } Fam.v4 c4).now cfg.imm6
            (noteCall { s with v4 := f4 } Fam.v4 c4).v6 = p6 at h
          obtain ⟨f6, r6, c6⟩ := p6
          simp only [noteCall_now, noteCall_v6] at hp6
          cases r6 with
          | some r =>
            simp only [Prod.mk.injEq, and_true] at h
            subst h
            obtain ⟨_, hf6⟩ := pollFut_some hp6
            subst hf6
            obtain ⟨hu, hw⟩ := unready_of_pollFut_none hp4
            refine ⟨hopen, hq, by simp, by simpa using hopen, Or.inr ⟨r, c6, hu, by simpa using hw,
              by simpa using pollFut_none_gone_iff hp4, hp6, by simp, by simp [hq], by simp⟩⟩
          | none => simp [emit] at h

/-- The closure returned `Pending`: nothing was queued, no lookup had anything ready, and
both lookups are now issued (or absent) and waiting. -/
theorem iter_pending {cfg : Config} {s s' : State} (h : iter cfg s = (s', some .pending)) :
    s.closed = false ∧ s.queue = [] ∧
    Unready cfg.tmo s.now cfg.imm4 s.v4 ∧ Unready cfg.tmo s.now cfg.imm6 s.v6 ∧
    s'.closed = false ∧ s'.queue = [] ∧ ¬ (s'.v4 = .gone ∧ s'.v6 = .gone) ∧
    Waiting cfg.tmo s.now s'.v4 ∧ Waiting cfg.tmo s.now s'.v6 := by
  unfold iter at h
  by_cases hc : s.closed = true
  · simp [hc, emit] at h
  · have hopen : s.closed = false := by simpa using hc
    rw [if_neg (by simp [hopen])] at h
    split at h
    · simp [emit] at h
    · rename_i hq
      by_cases hg : s.v4 = .gone ∧ s.v6 = .gone
      · rw [if_pos hg] at h
        split at h
        · simp [emit] at h
        · split at h <;> simp [emit] at h
      · rw [if_neg hg] at h
        generalize hp4 : pollFut cfg.tmo s.now cfg.imm4 s.v4 = p4 at h
        obtain ⟨f4, r4, c4⟩ := p4
        simp only at h
        cases r4 with
        | some r => simp at h
        | none =>
          simp only at h
          generalize hp6 : pollFut cfg.tmo (noteCall { s with v4 := f4 } Fam.v4 c4).now cfg.imm6
            (noteCall { s with v4 := f4 } Fam.v4 c4).v6 = p6 at h
          obtain ⟨f6, r6, c6⟩ := p6
          simp only [noteCall_now, noteCall_v6] at hp6
          cases r6 with
          | some r => simp at h
          | none =>
            simp only [emit, Prod.mk.injEq, and_true] at h
            subst h
            obtain ⟨hu4, hw4⟩ := unready_of_pollFut_none hp4
            obtain ⟨hu6, hw6⟩ := unready_of_pollFut_none hp6
            refine ⟨hopen, hq, hu4, hu6, by simpa using hopen, by simpa using hq, ?_,
              by simpa using hw4, by simpa using hw6⟩
            simp only [noteCall_v4, noteCall_v6]
            rw [pollFut_none_gone_iff hp4, pollFut_none_gone_iff hp6]
            exact hg

theorem measure_lt_of_iter_none {cfg : Config} {s s' : State} (h : iter cfg s = (s', none)) :
    measure s' < measure s := by
  obtain ⟨_, _, _, _, h⟩ := iter_none h
  unfold measure
  rcases h with ⟨r, c, hp, h4, h6, _, _⟩ | ⟨r, c, _, _, hiff, hp, h6, _, _⟩
  · have := (pollFut_some hp).1
    simp [h4, h6, this]
  · have := (pollFut_some hp).1
    by_cases hg : s.v4 = .gone
    · simp [hiff.mpr hg, hg, h6, this]
    · have : s'.v4 ≠ .gone := fun h => hg (hiff.mp h)
      simp [*]

/-- The fuel of `nextLoop` is never used up: any amount above the number of outstanding
lookups gives the same result. -/
theorem nextLoop_fuel (cfg : Config) (fuel : Nat) :
    ∀ (s : State), measure s < fuel → ∀ k, nextLoop cfg (fuel + k) s = nextLoop cfg fuel s := by
  induction fuel with
  | zero => intro s h; omega
  | succ fuel ih =>
    intro s hm k
    rw [show fuel + 1 + k = (fuel + k) + 1 by omega]
    unfold nextLoop
    cases hi : iter cfg s with
    | mk s' o =>
      cases o with
      | some o => rfl
      | none =>
        simp only
        have := measure_lt_of_iter_none hi
        exact ih s' (by omega) k

/-- `poll_next` returned `Pending` — characterisation of the state before and after. -/
theorem nextLoop_pending (cfg : Config) (fuel : Nat) :
    ∀ (s s' : State), measure s < fuel → nextLoop cfg fuel s = (s', .pending) →
      (s.closed = false ∧ s.queue = [] ∧ noAddr cfg.imm4 s.v4 ∧ noAddr cfg.imm6 s.v6) ∧
      (s'.closed = false ∧ s'.queue = [] ∧ ¬ (s'.v4 = .gone ∧ s'.v6 = .gone) ∧
        Waiting cfg.tmo s.now s'.v4 ∧ Waiting cfg.tmo s.now s'.v6) := by
  induction fuel with
  | zero => intro s s' h; omega
  | succ fuel ih =>
    intro s s' hm h
    unfold nextLoop at h
    cases hi : iter cfg s with
    | mk s1 o =>
      rw [hi] at h
      cases o with
      | some o =>
        simp only [Prod.mk.injEq] at h
        obtain ⟨h1, h2⟩ := h
        subst h1; subst h2
        obtain ⟨a, b, c, d, e, f, g, i, j⟩ := iter_pending hi
        exact ⟨⟨a, b, noAddr_of_unready c, noAddr_of_unready d⟩, e, f, g, i, j⟩
      | none =>
        simp only at h
        have hlt := measure_lt_of_iter_none hi
        obtain ⟨⟨_, hq1, hn4, hn6⟩, hpost⟩ := ih s1 s' (by omega) h
        obtain ⟨hopen, hq, hnow, _, hcase⟩ := iter_none hi
        rw [hnow] at hpost
        refine ⟨⟨hopen, hq, ?_, ?_⟩, hpost⟩
        · rcases hcase with ⟨r, c, hp, _, _, hqq, _⟩ | ⟨r, c, hu, _, _, _, _, _, _⟩
          · exact noAddr_of_pollFut_some Fam.v4 hp (by rw [← hqq, hq1])
          · exact noAddr_of_unready hu
        · rcases hcase with ⟨r, c, _, _, h6, _, _⟩ | ⟨r, c, _, _, _, hp, _, hqq, _⟩
          · rw [← h6]; exact hn6
          · exact noAddr_of_pollFut_some Fam.v6 hp (by rw [← hqq, hq1])

end IrohModel.C35
