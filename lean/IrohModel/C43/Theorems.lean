/-
C43 — property theorems (only).  Statement of the property:

  A relay map behaves as a map from relay URL to configuration under every sequence of
  insert, remove, extend and token updates, including operations whose two arguments are
  clones sharing the same map; no operation blocks forever or panics.

Quantifier: all operation sequences, arguments drawn from independent maps and from clones of
the receiver.  The theorems are for **arbitrary** operation lists (no length bound, any number
of URLs, maps and clones): `refines_map` by induction over the list with the simulation
relation `Sim` (`Spec.lean`), the lock theorems for every operation and every pair of cells its
handles may resolve to — in particular the same cell twice.
-/
import IrohModel.C43.Sim

namespace IrohModel.C43

/-- **Behaves as a map.**  Run any operation sequence on a fresh `RelayMap` system and on the
specification (cells are functions `url → Option config`, `Spec.astep`): the final states are
related by `Sim` (same handles; every cell's lookups are the abstract map) and every outcome is
a correct answer to the abstract result (`Agree`: returned/looked-up configurations are equal,
`contains` is definedness, `urls` is the strictly increasing enumeration of the domain, `len` its
cardinality, `is_empty`/`==` hold iff the maps are empty/extensionally equal).  `timeout` agrees
with nothing, so no operation of any sequence blocks. -/
theorem refines_map (ops : List Op) :
    Sim (run Sys.init ops).1 (arun ASys.init ops).1 ∧
    AgreeAll (run Sys.init ops).2 (arun ASys.init ops).2 :=
  run_sim ops Sys.init ASys.init sim_init

/-- The same from any state that represents an abstract one (e.g. mid-history). -/
theorem refines_map_from (ops : List Op) (s : Sys) (a : ASys) (h : Sim s a) :
    Sim (run s ops).1 (arun a ops).1 ∧ AgreeAll (run s ops).2 (arun a ops).2 :=
  run_sim ops s a h

/-- What the lookups of a handle are after a run: exactly the abstract map of its cell. -/
theorem lookup_after_run (ops : List Op) (h c : Nat) (t : Tbl)
    (ht : (run Sys.init ops).1.tblOf h = some (c, t)) (u : Nat) :
    Tbl.get t u = (arun ASys.init ops).1.cells c u :=
  (tblOf_some (refines_map ops).1 ht).2.2.2.2 u

/-- **No self-deadlock.**  In every phase of the lock script of every operation, whatever cells
`c`, `d` its handles resolve to (also `c = d`: the argument is a clone of the receiver), no
lock is requested on a cell on which a conflicting lock is still held. -/
theorem no_self_deadlock (op : Op) (c d : Nat) : ∀ p ∈ script op c d, Phase.blocks p = false := by
  intro p hp
  have h := blocks_false op c d
  unfold blocks at h
  cases hb : Phase.blocks p with
  | false => rfl
  | true =>
    have : (script op c d).any Phase.blocks = true := List.any_eq_true.mpr ⟨p, hp, hb⟩
    rw [h] at this
    cases this

/-- The unrepaired `extend` (write `self`, then read `other` under it) blocks exactly when the
argument shares the receiver's cell — the defect D18 that was repaired. -/
theorem old_extend_blocks_iff (c d : Nat) :
    (oldExtendScript c d).any Phase.blocks = true ↔ c = d := by
  by_cases h : c = d
  · subst h; simp [oldExtendScript, Phase.blocks]
  · have h' : ¬ d = c := fun e => h e.symm
    simp [oldExtendScript, Phase.blocks, h, h']

/-- **No operation blocks**, in any state at all. -/
theorem never_blocks (s : Sys) (op : Op) : (step s op).2 ≠ Out.timeout := by
  cases op <;> simp only [step] <;> (repeat' split) <;> simp_all [blocks_false]

/-- **Total on live handles.**  In every reachable state, an operation whose handles exist
returns a proper value: it neither blocks nor fails to resolve (and the model has no other
failure outcome: the only `panic` sites of the code are `.expect("poisoned")`, reachable only
after a panic inside a guarded region, of which there is none). -/
theorem total_on_live_handles (ops : List Op) (op : Op)
    (hl : ∀ h ∈ op.handles, h < (run Sys.init ops).1.handles.length) :
    (step (run Sys.init ops).1 op).2 ≠ Out.timeout ∧
    (step (run Sys.init ops).1 op).2 ≠ Out.noHandle := by
  refine ⟨never_blocks _ _, ?_⟩
  have hs := (refines_map ops).1
  generalize (run Sys.init ops).1 = s at hs hl
  generalize (arun ASys.init ops).1 = a at hs
  cases op with
  | new => simp [step]
  | fromUrls us => simp [step]
  | clone h =>
    obtain ⟨c, t, ht⟩ := tblOf_of_lt hs (hl h (by simp [Op.handles]))
    simp [step, ht]
  | insert h u cfg =>
    obtain ⟨c, t, ht⟩ := tblOf_of_lt hs (hl h (by simp [Op.handles]))
    simp [step, ht, blocks_false]
  | remove h u =>
    obtain ⟨c, t, ht⟩ := tblOf_of_lt hs (hl h (by simp [Op.handles]))
    simp [step, ht, blocks_false]
  | extend h g =>
    obtain ⟨c, t, ht⟩ := tblOf_of_lt hs (hl h (by simp [Op.handles]))
    obtain ⟨d, o, hg⟩ := tblOf_of_lt hs (hl g (by simp [Op.handles]))
    simp [step, ht, hg, blocks_false]
  | token h tok =>
    obtain ⟨c, t, ht⟩ := tblOf_of_lt hs (hl h (by simp [Op.handles]))
    simp [step, ht, blocks_false]
  | get h u =>
    obtain ⟨c, t, ht⟩ := tblOf_of_lt hs (hl h (by simp [Op.handles]))
    simp [step, ht, blocks_false]
  | has h u =>
    obtain ⟨c, t, ht⟩ := tblOf_of_lt hs (hl h (by simp [Op.handles]))
    simp [step, ht, blocks_false]
  | len h =>
    obtain ⟨c, t, ht⟩ := tblOf_of_lt hs (hl h (by simp [Op.handles]))
    simp [step, ht, blocks_false]
  | isEmpty h =>
    obtain ⟨c, t, ht⟩ := tblOf_of_lt hs (hl h (by simp [Op.handles]))
    simp [step, ht, blocks_false]
  | urls h =>
    obtain ⟨c, t, ht⟩ := tblOf_of_lt hs (hl h (by simp [Op.handles]))
    simp [step, ht, blocks_false]
  | eq h g =>
    obtain ⟨c, t, ht⟩ := tblOf_of_lt hs (hl h (by simp [Op.handles]))
    obtain ⟨d, o, hg⟩ := tblOf_of_lt hs (hl g (by simp [Op.handles]))
    simp [step, ht, hg, blocks_false]

/-! ### Non-vacuity -/

/-- The D18 history on the repaired model: extend with a clone of the receiver returns. -/
example :
    (run Sys.init [.insert 0 3 ⟨3, some 7842, none⟩, .clone 0, .extend 0 1, .urls 0, .urls 1]).2
      = [.cfg none, .ok, .ok, .urls [3], .urls [3]] := by decide

/-- Clones share, independent maps do not; token updates reach every clone. -/
example :
    (run Sys.init [.fromUrls [17, 3], .clone 1, .token 2 1, .get 1 3, .get 0 3, .eq 1 2,
                   .eq 0 1, .len 1]).2
      = [.ok, .ok, .ok, .cfg (some ⟨3, some 7842, some 1⟩), .cfg none, .bool true, .bool false,
         .num 2] := by decide

example : (oldExtendScript 0 0).any Phase.blocks = true := by decide
example : (oldExtendScript 0 1).any Phase.blocks = false := by decide

end IrohModel.C43
