/-
C43 — the specification: a *map from relay URL to configuration* is a function
`Nat → Option Config`; a system of relay maps is a family of such functions (one per shared
cell) plus the handles.  `astep` is the textbook meaning of every operation; observations
whose value is not a function of finitely many lookups (`urls`, `len`, `is_empty`, `==`) are
returned as *queries* and `Agree` says which concrete answers are correct.  `timeout` agrees
with nothing: an operation that blocks forever does not refine the specification.
-/
import IrohModel.C43.Model

namespace IrohModel.C43

/-- A map from relay URL to configuration. -/
abbrev AMap := Nat → Option Config

def AMap.empty : AMap := fun _ => none
def AMap.insert (m : AMap) (u : Nat) (c : Config) : AMap := fun k => if k = u then some c else m k
def AMap.remove (m : AMap) (u : Nat) : AMap := fun k => if k = u then none else m k
/-- Entries of `o` win. -/
def AMap.extend (m o : AMap) : AMap := fun k => match o k with
  | some c => some c
  | none => m k
def AMap.withToken (m : AMap) (tok : Nat) : AMap :=
  fun k => (m k).map (fun c => { c with token := some tok })
def AMap.ofUrls (us : List Nat) : AMap := fun k => if k ∈ us then some (Config.ofUrl k) else none

/-- Cells as functions; cells `≥ ncells` do not exist. -/
structure ASys where
  cells : Nat → AMap
  ncells : Nat
  handles : List Nat

def ASys.init : ASys := ⟨fun _ => AMap.empty, 1, [0]⟩

/-- Abstract results; the last four are queries about a map. -/
inductive AOut where
  | ok
  | cfg (c : Option Config)
  | has (m : AMap) (u : Nat)
  | card (m : AMap)
  | isEmpty (m : AMap)
  | dom (m : AMap)
  | eqv (m o : AMap)
  | noHandle

def ASys.cellOf (a : ASys) (h : Nat) : Option Nat :=
  match a.handles[h]? with
  | none => none
  | some c => if c < a.ncells then some c else none

def ASys.setCell (a : ASys) (c : Nat) (m : AMap) : ASys :=
  { a with cells := fun i => if i = c then m else a.cells i }

def ASys.push (a : ASys) (m : AMap) : ASys :=
  { cells := fun i => if i = a.ncells then m else a.cells i
    ncells := a.ncells + 1
    handles := a.handles ++ [a.ncells] }

/-- The meaning of every operation on maps. -/
def astep (a : ASys) : Op → ASys × AOut
  | .new => (a.push AMap.empty, .ok)
  | .fromUrls us => (a.push (AMap.ofUrls us), .ok)
  | .clone h => match a.cellOf h with
    | none => (a, .noHandle)
    | some c => ({ a with handles := a.handles ++ [c] }, .ok)
  | .insert h u cfg => match a.cellOf h with
    | none => (a, .noHandle)
    | some c => (a.setCell c ((a.cells c).insert u cfg), .cfg (a.cells c u))
  | .remove h u => match a.cellOf h with
    | none => (a, .noHandle)
    | some c => (a.setCell c ((a.cells c).remove u), .cfg (a.cells c u))
  | .extend h g => match a.cellOf h, a.cellOf g with
    | some c, some d => (a.setCell c ((a.cells c).extend (a.cells d)), .ok)
    | _, _ => (a, .noHandle)
  | .token h tok => match a.cellOf h with
    | none => (a, .noHandle)
    | some c => (a.setCell c ((a.cells c).withToken tok), .ok)
  | .get h u => match a.cellOf h with
    | none => (a, .noHandle)
    | some c => (a, .cfg (a.cells c u))
  | .has h u => match a.cellOf h with
    | none => (a, .noHandle)
    | some c => (a, .has (a.cells c) u)
  | .len h => match a.cellOf h with
    | none => (a, .noHandle)
    | some c => (a, .card (a.cells c))
  | .isEmpty h => match a.cellOf h with
    | none => (a, .noHandle)
    | some c => (a, .isEmpty (a.cells c))
  | .urls h => match a.cellOf h with
    | none => (a, .noHandle)
    | some c => (a, .dom (a.cells c))
  | .eq h g => match a.cellOf h, a.cellOf g with
    | some c, some d => (a, .eqv (a.cells c) (a.cells d))
    | _, _ => (a, .noHandle)

def arun (a : ASys) : List Op → ASys × List AOut
  | [] => (a, [])
  | op :: ops =>
    let r := astep a op
    let rest := arun r.1 ops
    (rest.1, r.2 :: rest.2)

/-- `l` lists the domain of `m` in strictly increasing order. -/
def IsDomain (l : List Nat) (m : AMap) : Prop :=
  l.Pairwise (· < ·) ∧ ∀ u, u ∈ l ↔ (m u).isSome = true

/-- Which concrete outcome is a correct answer to which abstract result. -/
def Agree : Out → AOut → Prop
  | .ok, .ok => True
  | .noHandle, .noHandle => True
  | .cfg c, .cfg c' => c = c'
  | .bool b, .has m u => b = (m u).isSome
  | .num n, .card m => ∃ l, IsDomain l m ∧ n = l.length
  | .bool b, .isEmpty m => (b = true ↔ ∀ u, m u = none)
  | .urls l, .dom m => IsDomain l m
  | .bool b, .eqv m o => (b = true ↔ ∀ u, m u = o u)
  | _, _ => False

/-- Pointwise agreement of two outcome sequences (of the same length). -/
def AgreeAll : List Out → List AOut → Prop
  | [], [] => True
  | o :: os, a :: as => Agree o a ∧ AgreeAll os as
  | _, _ => False

/-- The handles an operation mentions. -/
def Op.handles : Op → List Nat
  | .new => []
  | .fromUrls _ => []
  | .clone h => [h]
  | .insert h _ _ => [h]
  | .remove h _ => [h]
  | .extend h g => [h, g]
  | .token h _ => [h]
  | .get h _ => [h]
  | .has h _ => [h]
  | .len h => [h]
  | .isEmpty h => [h]
  | .urls h => [h]
  | .eq h g => [h, g]

/-- The lock script of the **unrepaired** `extend` (kept to state what was wrong): the write
guard of `self` is alive while the read lock of `other` is requested. -/
def oldExtendScript (c d : Nat) : List Phase := [[(c, .write), (d, .read)]]

/-- Strictly increasing keys: the `BTreeMap` invariant. -/
def Sorted (t : Tbl) : Prop := t.Pairwise (fun a b => a.1 < b.1)

/-- The concrete system represents the abstract one. -/
def Sim (s : Sys) (a : ASys) : Prop :=
  s.handles = a.handles ∧ a.ncells = s.cells.length ∧
  (∀ c ∈ s.handles, c < s.cells.length) ∧
  (∀ t ∈ s.cells, Sorted t) ∧
  ∀ c t, s.cells[c]? = some t → ∀ u, t.get u = a.cells c u

end IrohModel.C43
