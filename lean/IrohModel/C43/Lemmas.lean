/-
C43 — helper lemmas: the sorted association list implements the map operations; one step of the
concrete system simulates one step of the specification.
-/
import IrohModel.C43.Spec

namespace IrohModel.C43

/-! ### Sorted tables -/

theorem sorted_nil : Sorted [] := List.Pairwise.nil

theorem sorted_cons {k : Nat} {v : Config} {t : Tbl} :
    Sorted ((k, v) :: t) ↔ (∀ e ∈ t, k < e.1) ∧ Sorted t := by
  simp [Sorted, List.pairwise_cons]

theorem get_none_of_lt {t : Tbl} {u : Nat} (h : ∀ e ∈ t, u < e.1) : Tbl.get t u = none := by
  induction t with
  | nil => rfl
  | cons e t ih =>
    obtain ⟨k, v⟩ := e
    have hk : u < k := by simpa using h (k, v) (by simp)
    have : ¬ k = u := Nat.ne_of_gt hk
    simp only [Tbl.get, this, if_false]
    exact ih (fun e he => h e (by simp [he]))

theorem mem_insert {t : Tbl} {u : Nat} {c : Config} {e : Nat × Config}
    (he : e ∈ Tbl.insert t u c) : e.1 = u ∨ e ∈ t := by
  induction t with
  | nil => simp [Tbl.insert] at he; left; rw [he]
  | cons hd t ih =>
    obtain ⟨k, v⟩ := hd
    by_cases h1 : u < k
    · simp only [Tbl.insert, h1, if_true, List.mem_cons] at he
      rcases he with rfl | rfl | he
      · left; rfl
      · right; simp
      · right; simp [he]
    · by_cases h2 : u = k
      · subst h2
        simp only [Tbl.insert, Nat.lt_irrefl, if_true, if_false, List.mem_cons] at he
        rcases he with rfl | he
        · left; rfl
        · right; simp [he]
      · simp only [Tbl.insert, h1, h2, if_false, List.mem_cons] at he
        rcases he with rfl | he
        · right; simp
        · rcases ih he with h | h
          · left; exact h
          · right; simp [h]

theorem sorted_insert {t : Tbl} (u : Nat) (c : Config) (h : Sorted t) :
    Sorted (Tbl.insert t u c) := by
  induction t with
  | nil => simp [Tbl.insert, Sorted]
  | cons hd t ih =>
    obtain ⟨k, v⟩ := hd
    obtain ⟨hk, ht⟩ := sorted_cons.mp h
    by_cases h1 : u < k
    · simp only [Tbl.insert, h1, if_true]
      refine sorted_cons.mpr ⟨?_, h⟩
      intro e he
      simp only [List.mem_cons] at he
      rcases he with rfl | he
      · exact h1
      · exact Nat.lt_trans h1 (hk e he)
    · by_cases h2 : u = k
      · subst h2
        simp only [Tbl.insert, Nat.lt_irrefl, if_true, if_false]
        exact sorted_cons.mpr ⟨hk, ht⟩
      · simp only [Tbl.insert, h1, h2, if_false]
        refine sorted_cons.mpr ⟨?_, ih ht⟩
        intro e he
        rcases mem_insert he with h | h
        · rw [h]; omega
        · exact hk e h

theorem get_insert {t : Tbl} (h : Sorted t) (u : Nat) (c : Config) (k : Nat) :
    Tbl.get (Tbl.insert t u c) k = if k = u then some c else Tbl.get t k := by
  induction t with
  | nil =>
    by_cases hu : k = u
    · subst hu; simp [Tbl.insert, Tbl.get]
    · have : ¬ u = k := fun h => hu h.symm
      simp [Tbl.insert, Tbl.get, hu, this]
  | cons hd t ih =>
    obtain ⟨k', v⟩ := hd
    obtain ⟨hk, ht⟩ := sorted_cons.mp h
    by_cases h1 : u < k'
    · simp only [Tbl.insert, h1, if_true]
      by_cases hu : k = u
      · subst hu; simp [Tbl.get]
      · have : ¬ u = k := fun h => hu h.symm
        rw [if_neg hu]
        simp [Tbl.get, this]
    · by_cases h2 : u = k'
      · subst h2
        simp only [Tbl.insert, Nat.lt_irrefl, if_true, if_false]
        by_cases hu : k = u
        · subst hu; simp [Tbl.get]
        · have : ¬ u = k := fun h => hu h.symm
          simp [Tbl.get, hu, this]
      · simp only [Tbl.insert, h1, h2, if_false]
        have hku : ¬ k' = u := fun h => h2 h.symm
        by_cases hu : k = u
        · subst hu
          simp [Tbl.get, hku, ih ht]
        · by_cases hk' : k' = k
          · simp [Tbl.get, hk', hu]
          · simp [Tbl.get, hk', hu, ih ht]

theorem mem_remove {t : Tbl} {u : Nat} {e : Nat × Config} (he : e ∈ Tbl.remove t u) : e ∈ t := by
  induction t with
  | nil => simp [Tbl.remove] at he
  | cons hd t ih =>
    obtain ⟨k, v⟩ := hd
    by_cases hk : k = u
    · simp only [Tbl.remove, hk, if_true] at he
      simp [he]
    · simp only [Tbl.remove, hk, if_false, List.mem_cons] at he
      rcases he with rfl | he
      · simp
      · simp [ih he]

theorem sorted_remove {t : Tbl} (u : Nat) (h : Sorted t) : Sorted (Tbl.remove t u) := by
  induction t with
  | nil => simp [Tbl.remove, Sorted]
  | cons hd t ih =>
    obtain ⟨k, v⟩ := hd
    obtain ⟨hk, ht⟩ := sorted_cons.mp h
    by_cases hku : k = u
    · simp only [Tbl.remove, hku, if_true]; exact ht
    · simp only [Tbl.remove, hku, if_false]
      exact sorted_cons.mpr ⟨fun e he => hk e (mem_remove he), ih ht⟩

theorem get_remove {t : Tbl} (h : Sorted t) (u k : Nat) :
    Tbl.get (Tbl.remove t u) k = if k = u then none else Tbl.get t k := by
  induction t with
  | nil => by_cases hu : k = u <;> simp [Tbl.remove, Tbl.get, hu]
  | cons hd t ih =>
    obtain ⟨k', v⟩ := hd
    obtain ⟨hk, ht⟩ := sorted_cons.mp h
    by_cases hku : k' = u
    · subst hku
      simp only [Tbl.remove, if_true]
      by_cases hu : k = k'
      · subst hu; simp [get_none_of_lt hk]
      · have : ¬ k' = k := fun h => hu h.symm
        simp [Tbl.get, hu, this]
    · simp only [Tbl.remove, hku, if_false]
      by_cases hu : k = u
      · subst hu; simp [Tbl.get, hku, ih ht]
      · by_cases hk' : k' = k
        · simp [Tbl.get, hk', hu]
        · simp [Tbl.get, hk', hu, ih ht]

/-- Folding `insert` over a sorted list of entries. -/
theorem foldl_insert {o t : Tbl} (ht : Sorted t) (ho : Sorted o) :
    Sorted (o.foldl (fun acc e => Tbl.insert acc e.1 e.2) t) ∧
    ∀ k, Tbl.get (o.foldl (fun acc e => Tbl.insert acc e.1 e.2) t) k =
      match Tbl.get o k with
      | some c => some c
      | none => Tbl.get t k := by
  induction o generalizing t with
  | nil => exact ⟨ht, fun k => rfl⟩
  | cons e o ih =>
    obtain ⟨k', v⟩ := e
    obtain ⟨hk, hso⟩ := sorted_cons.mp ho
    have := ih (sorted_insert k' v ht) hso
    refine ⟨this.1, fun k => ?_⟩
    simp only [List.foldl_cons]
    rw [this.2 k, get_insert ht]
    by_cases hkk : k' = k
    · subst hkk
      simp [Tbl.get, get_none_of_lt hk]
    · have : ¬ k = k' := fun h => hkk h.symm
      simp [Tbl.get, hkk, this]

theorem sorted_extend {t o : Tbl} (ht : Sorted t) (ho : Sorted o) : Sorted (Tbl.extend t o) :=
  (foldl_insert ht ho).1

theorem get_extend {t o : Tbl} (ht : Sorted t) (ho : Sorted o) (k : Nat) :
    Tbl.get (Tbl.extend t o) k = AMap.extend (Tbl.get t) (Tbl.get o) k :=
  (foldl_insert ht ho).2 k

theorem sorted_withToken {t : Tbl} (tok : Nat) (h : Sorted t) : Sorted (Tbl.withToken t tok) := by
  unfold Sorted Tbl.withToken
  rw [List.pairwise_map]
  exact h

theorem get_withToken (t : Tbl) (tok k : Nat) :
    Tbl.get (Tbl.withToken t tok) k = AMap.withToken (Tbl.get t) tok k := by
  induction t with
  | nil => rfl
  | cons e t ih =>
    obtain ⟨k', v⟩ := e
    by_cases hk : k' = k
    · simp [Tbl.withToken, Tbl.get, AMap.withToken, hk]
    · simp only [Tbl.withToken, AMap.withToken, List.map_cons, Tbl.get, hk, if_false] at ih ⊢
      exact ih

/-- Folding `insert u (ofUrl u)` over arbitrary urls. -/
theorem foldl_ofUrls (us : List Nat) (t : Tbl) (ht : Sorted t) :
    Sorted (us.foldl (fun acc u => Tbl.insert acc u (Config.ofUrl u)) t) ∧
    ∀ k, Tbl.get (us.foldl (fun acc u => Tbl.insert acc u (Config.ofUrl u)) t) k =
      if k ∈ us then some (Config.ofUrl k) else Tbl.get t k := by
  induction us generalizing t with
  | nil => exact ⟨ht, fun k => by simp⟩
  | cons u us ih =>
    have := ih (Tbl.insert t u (Config.ofUrl u)) (sorted_insert _ _ ht)
    refine ⟨this.1, fun k => ?_⟩
    simp only [List.foldl_cons]
    rw [this.2 k, get_insert ht]
    by_cases h1 : k ∈ us
    · simp [h1]
    · by_cases h2 : k = u
      · subst h2; simp
      · simp [h1, h2]

theorem sorted_ofUrls (us : List Nat) : Sorted (Tbl.ofUrls us) := (foldl_ofUrls us [] sorted_nil).1

theorem get_ofUrls (us : List Nat) (k : Nat) : Tbl.get (Tbl.ofUrls us) k = AMap.ofUrls us k := by
  unfold Tbl.ofUrls AMap.ofUrls
  rw [(foldl_ofUrls us [] sorted_nil).2 k]
  simp [Tbl.get]

/-- Same lookups, same table. -/
theorem sorted_ext {a b : Tbl} (ha : Sorted a) (hb : Sorted b)
    (h : ∀ u, Tbl.get a u = Tbl.get b u) : a = b := by
  induction a generalizing b with
  | nil =>
    cases b with
    | nil => rfl
    | cons e b =>
      obtain ⟨k, v⟩ := e
      have := h k
      simp [Tbl.get] at this
  | cons e a ih =>
    obtain ⟨k, v⟩ := e
    obtain ⟨hk, hta⟩ := sorted_cons.mp ha
    cases b with
    | nil =>
      have := h k
      simp [Tbl.get] at this
    | cons e' b =>
      obtain ⟨k', v'⟩ := e'
      obtain ⟨hk', htb⟩ := sorted_cons.mp hb
      have hkk : k = k' := by
        rcases Nat.lt_trichotomy k k' with hlt | heq | hgt
        · have h1 := h k
          have : Tbl.get ((k', v') :: b) k = none :=
            get_none_of_lt (by
              intro e he
              simp only [List.mem_cons] at he
              rcases he with rfl | he
              · exact hlt
              · exact Nat.lt_trans hlt (hk' e he))
          rw [this] at h1
          simp [Tbl.get] at h1
        · exact heq
        · have h1 := h k'
          have : Tbl.get ((k, v) :: a) k' = none :=
            get_none_of_lt (by
              intro e he
              simp only [List.mem_cons] at he
              rcases he with rfl | he
              · exact hgt
              · exact Nat.lt_trans hgt (hk e he))
          rw [this] at h1
          simp [Tbl.get] at h1
      subst hkk
      have hv : v = v' := by
        have := h k
        simpa [Tbl.get] using this
      subst hv
      have : a = b := by
        apply ih hta htb
        intro u
        by_cases hu : k = u
        · subst hu
          rw [get_none_of_lt hk, get_none_of_lt hk']
        · have := h u
          simpa [Tbl.get, hu] using this
      rw [this]

/-- The key list of a sorted table is its domain. -/
theorem keys_isDomain {t : Tbl} (h : Sorted t) : IsDomain (t.map (·.1)) (Tbl.get t) := by
  refine ⟨?_, ?_⟩
  · unfold Sorted at h
    rw [List.pairwise_map]
    exact h
  · intro u
    induction t with
    | nil => simp [Tbl.get]
    | cons e t ih =>
      obtain ⟨k, v⟩ := e
      obtain ⟨_, ht⟩ := sorted_cons.mp h
      by_cases hk : k = u
      · simp [Tbl.get, hk]
      · have : ¬ u = k := fun h => hk h.symm
        simp only [List.map_cons, List.mem_cons, this, false_or, Tbl.get, hk, if_false]
        exact ih ht

theorem isEmpty_iff (t : Tbl) : t.isEmpty = true ↔ ∀ u, Tbl.get t u = none := by
  cases t with
  | nil => simp [Tbl.get]
  | cons e t =>
    obtain ⟨k, v⟩ := e
    simp only [List.isEmpty_cons, Bool.false_eq_true, false_iff]
    intro h
    have := h k
    simp [Tbl.get] at this

end IrohModel.C43
