/-
C43 — relay maps.  Model of `RelayMap` (iroh-relay/src/relay_map.rs) **after** the repair
`fix: RelayMap::extend deadlocked when given a clone of the receiver` (the unrepaired `extend`
held the write lock of `self` while taking the read lock of `other`; see known_findings.json).
Import-free apart from the generated constants; executable.

* A `RelayMap` value is a *handle* onto a shared cell `Arc<RwLock<BTreeMap<RelayUrl,
  Arc<RelayConfig>>>>`; `clone` copies the handle, not the cell.  `Sys.cells` are the cells,
  `Sys.handles` maps every live `RelayMap` value to its cell.
* A `BTreeMap` is a key-sorted association list (`Tbl`); relay URLs are `Nat` keys (only their
  order matters, the harness URLs are order-isomorphic), an auth token is a `Nat` id.
* Every operation carries its **lock script**: the lock acquisitions it performs, grouped into
  phases; the guards of one phase are alive at the same time.  An operation blocks forever
  (outcome `timeout`) iff within one phase it requests a lock on a cell it already holds and
  one of the two requests is a write (`std::sync::RwLock` is not re-entrant).
-/
import IrohModel.Generated.C43

namespace IrohModel.C43
open IrohModel.Generated.C43

/-- `RelayConfig`: url, `quic.map(|q| q.port)`, auth token. -/
structure Config where
  url : Nat
  port : Option Nat
  token : Option Nat
deriving DecidableEq, Repr

/-- `BTreeMap<RelayUrl, Arc<RelayConfig>>`, strictly sorted by key. -/
abbrev Tbl := List (Nat × Config)

/-- `BTreeMap::get`. -/
def Tbl.get : Tbl → Nat → Option Config
  | [], _ => none
  | (k, v) :: t, u => if k = u then some v else Tbl.get t u

/-- `BTreeMap::insert` (an existing entry is replaced). -/
def Tbl.insert : Tbl → Nat → Config → Tbl
  | [], u, c => [(u, c)]
  | (k, v) :: t, u, c =>
    if u < k then (u, c) :: (k, v) :: t
    else if u = k then (k, c) :: t
    else (k, v) :: Tbl.insert t u c

/-- `BTreeMap::remove`. -/
def Tbl.remove : Tbl → Nat → Tbl
  | [], _ => []
  | (k, v) :: t, u => if k = u then t else (k, v) :: Tbl.remove t u

/-- `BTreeMap::extend(iter)`: insert every entry of `o` in order. -/
def Tbl.extend (t o : Tbl) : Tbl := o.foldl (fun acc e => acc.insert e.1 e.2) t

/-- `for config in values_mut() { *config = Arc::new(config.clone().with_auth_token(tok)) }`. -/
def Tbl.withToken (t : Tbl) (tok : Nat) : Tbl :=
  t.map (fun e => (e.1, { e.2 with token := some tok }))

/-- `RelayConfig::from(url)`: default QUIC port, no token. -/
def Config.ofUrl (u : Nat) : Config := ⟨u, some defaultQuicPort, none⟩

/-- `FromIterator<RelayUrl>`: collect `(url, RelayConfig::from(url))` into a `BTreeMap`. -/
def Tbl.ofUrls (us : List Nat) : Tbl := us.foldl (fun acc u => acc.insert u (Config.ofUrl u)) []

/-- The shared cells and the live `RelayMap` values. -/
structure Sys where
  cells : List Tbl
  handles : List Nat
deriving Repr

/-- One `RelayMap::empty()`. -/
def Sys.init : Sys := ⟨[[]], [0]⟩

inductive Op where
  | new
  | fromUrls (us : List Nat)
  | clone (h : Nat)
  | insert (h u : Nat) (c : Config)
  | remove (h u : Nat)
  | extend (h g : Nat)
  | token (h t : Nat)
  | get (h u : Nat)
  | has (h u : Nat)
  | len (h : Nat)
  | isEmpty (h : Nat)
  | urls (h : Nat)
  | eq (h g : Nat)
deriving Repr

inductive Out where
  | ok
  | cfg (c : Option Config)
  | bool (b : Bool)
  | num (n : Nat)
  | urls (l : List Nat)
  | noHandle
  | timeout
deriving DecidableEq, Repr

inductive Mode where
  | read | write
deriving DecidableEq, Repr

/-- Locks requested one after the other and held together. -/
abbrev Phase := List (Nat × Mode)

/-- A phase blocks forever iff a later request conflicts with an earlier one on the same cell. -/
def Phase.blocks : Phase → Bool
  | [] => false
  | (c, m) :: rest =>
    rest.any (fun e => e.1 == c && (m == Mode.write || e.2 == Mode.write)) || Phase.blocks rest

/-- The cell a handle points to. -/
def Sys.cellOf (s : Sys) (h : Nat) : Option Nat := s.handles[h]?

/-- The table behind a handle. -/
def Sys.tblOf (s : Sys) (h : Nat) : Option (Nat × Tbl) :=
  match s.handles[h]? with
  | none => none
  | some c => match s.cells[c]? with
    | none => none
    | some t => some (c, t)

/-- The lock script of an operation whose handles resolve to the cells `c` (and `d`). -/
def script : Op → (c d : Nat) → List Phase
  | .new, _, _ => []
  | .fromUrls _, _, _ => []
  | .clone _, _, _ => []
  | .insert _ _ _, c, _ => [[(c, .write)]]
  | .remove _ _, c, _ => [[(c, .write)]]
  -- repaired `extend`: read `other` (guard dropped at the end of the statement), then write `self`
  | .extend _ _, c, d => [[(d, .read)], [(c, .write)]]
  | .token _ _, c, _ => [[(c, .write)]]
  | .get _ _, c, _ => [[(c, .read)]]
  | .has _ _, c, _ => [[(c, .read)]]
  | .len _, c, _ => [[(c, .read)]]
  | .isEmpty _, c, _ => [[(c, .read)]]
  | .urls _, c, _ => [[(c, .read)]]
  -- `PartialEq::eq`: both read guards are alive during the comparison
  | .eq _ _, c, d => [[(c, .read), (d, .read)]]

def blocks (op : Op) (c d : Nat) : Bool := (script op c d).any Phase.blocks

/-- What the operation does to the table(s) once it holds its locks. -/
def step (s : Sys) (op : Op) : Sys × Out :=
  match op with
  | .new => ({ cells := s.cells ++ [[]], handles := s.handles ++ [s.cells.length] }, .ok)
  | .fromUrls us =>
    ({ cells := s.cells ++ [Tbl.ofUrls us], handles := s.handles ++ [s.cells.length] }, .ok)
  | .clone h =>
    match s.tblOf h with
    | none => (s, .noHandle)
    | some (c, _) => ({ s with handles := s.handles ++ [c] }, .ok)
  | .insert h u cfg =>
    match s.tblOf h with
    | none => (s, .noHandle)
    | some (c, t) =>
      if blocks op c c then (s, .timeout)
      else ({ s with cells := s.cells.set c (t.insert u cfg) }, .cfg (t.get u))
  | .remove h u =>
    match s.tblOf h with
    | none => (s, .noHandle)
    | some (c, t) =>
      if blocks op c c then (s, .timeout)
      else ({ s with cells := s.cells.set c (t.remove u) }, .cfg (t.get u))
  | .extend h g =>
    match s.tblOf h, s.tblOf g with
    | some (c, t), some (d, o) =>
      if blocks op c d then (s, .timeout)
      else ({ s with cells := s.cells.set c (t.extend o) }, .ok)
    | _, _ => (s, .noHandle)
  | .token h tok =>
    match s.tblOf h with
    | none => (s, .noHandle)
    | some (c, t) =>
      if blocks op c c then (s, .timeout)
      else ({ s with cells := s.cells.set c (t.withToken tok) }, .ok)
  | .get h u =>
    match s.tblOf h with
    | none => (s, .noHandle)
    | some (c, t) => if blocks op c c then (s, .timeout) else (s, .cfg (t.get u))
  | .has h u =>
    match s.tblOf h with
    | none => (s, .noHandle)
    | some (c, t) => if blocks op c c then (s, .timeout) else (s, .bool (t.get u).isSome)
  | .len h =>
    match s.tblOf h with
    | none => (s, .noHandle)
    | some (c, t) => if blocks op c c then (s, .timeout) else (s, .num t.length)
  | .isEmpty h =>
    match s.tblOf h with
    | none => (s, .noHandle)
    | some (c, t) => if blocks op c c then (s, .timeout) else (s, .bool t.isEmpty)
  | .urls h =>
    match s.tblOf h with
    | none => (s, .noHandle)
    | some (c, t) => if blocks op c c then (s, .timeout) else (s, .urls (t.map (·.1)))
  | .eq h g =>
    match s.tblOf h, s.tblOf g with
    | some (c, t), some (d, o) =>
      if blocks op c d then (s, .timeout) else (s, .bool (decide (t = o)))
    | _, _ => (s, .noHandle)

/-- A whole operation sequence. -/
def run (s : Sys) : List Op → Sys × List Out
  | [] => (s, [])
  | op :: ops =>
    let r := step s op
    let rest := run r.1 ops
    (rest.1, r.2 :: rest.2)

end IrohModel.C43
