/-
C43 — helper lemmas, part 2: one concrete step simulates one abstract step.
-/
import IrohModel.C43.Lemmas

namespace IrohModel.C43

/-- No operation of the repaired code requests a conflicting lock on a cell it holds —
whatever cells its handles resolve to, in particular the same cell twice. -/
theorem blocks_false (op : Op) (c d : Nat) : blocks op c d = false := by
  cases op <;> simp [blocks, script, Phase.blocks]

theorem tblOf_none {s : Sys} {a : ASys} (hs : Sim s a) {h : Nat} (hn : s.tblOf h = none) :
    a.cellOf h = none := by
  obtain ⟨hh, hn', hv, _, _⟩ := hs
  unfold Sys.tblOf at hn
  unfold ASys.cellOf
  rw [← hh]
  cases hc : s.handles[h]? with
  | none => rfl
  | some c =>
    have hmem : c ∈ s.handles := List.mem_of_getElem? hc
    have hlt := hv c hmem
    rw [hc] at hn
    have : ∃ t, s.cells[c]? = some t := ⟨s.cells[c], List.getElem?_eq_getElem hlt⟩
    obtain ⟨t, ht⟩ := this
    simp [ht] at hn

theorem tblOf_some {s : Sys} {a : ASys} (hs : Sim s a) {h c : Nat} {t : Tbl}
    (hn : s.tblOf h = some (c, t)) :
    a.cellOf h = some c ∧ s.cells[c]? = some t ∧ c < s.cells.length ∧ Sorted t ∧
      ∀ u, Tbl.get t u = a.cells c u := by
  obtain ⟨hh, hn', hv, hso, hget⟩ := hs
  unfold Sys.tblOf at hn
  cases hc : s.handles[h]? with
  | none => simp [hc] at hn
  | some c' =>
    rw [hc] at hn
    cases ht : s.cells[c']? with
    | none => simp [ht] at hn
    | some t' =>
      simp only [ht, Option.some.injEq, Prod.mk.injEq] at hn
      obtain ⟨rfl, rfl⟩ := hn
      have hmem : c' ∈ s.handles := List.mem_of_getElem? hc
      have hlt := hv c' hmem
      refine ⟨?_, ht, hlt, hso t' (List.mem_of_getElem? ht), hget c' t' ht⟩
      unfold ASys.cellOf
      rw [← hh, hc]
      simp [hn', hlt]

theorem sim_setCell {s : Sys} {a : ASys} (hs : Sim s a) {c : Nat} (hc : c < s.cells.length)
    {t' : Tbl} {m : AMap} (hso : Sorted t') (hget : ∀ u, Tbl.get t' u = m u) :
    Sim { s with cells := s.cells.set c t' } (a.setCell c m) := by
  obtain ⟨hh, hn, hv, hsorted, hg⟩ := hs
  refine ⟨hh, ?_, ?_, ?_, ?_⟩
  · simp [ASys.setCell, hn]
  · intro x hx; simp only [List.length_set]; exact hv x hx
  · intro t ht
    rcases List.mem_or_eq_of_mem_set ht with h | h
    · exact hsorted t h
    · rw [h]; exact hso
  · intro i t hi u
    simp only [List.getElem?_set] at hi
    by_cases hci : c = i
    · subst hci
      simp only [if_true, hc] at hi
      cases hi
      simp [ASys.setCell, hget]
    · simp only [hci, if_false] at hi
      have : ¬ i = c := fun h => hci h.symm
      simp only [ASys.setCell, this, if_false]
      exact hg i t hi u

theorem sim_push {s : Sys} {a : ASys} (hs : Sim s a) {t' : Tbl} {m : AMap} (hso : Sorted t')
    (hget : ∀ u, Tbl.get t' u = m u) :
    Sim { cells := s.cells ++ [t'], handles := s.handles ++ [s.cells.length] } (a.push m) := by
  obtain ⟨hh, hn, hv, hsorted, hg⟩ := hs
  refine ⟨?_, ?_, ?_, ?_, ?_⟩
  · simp [ASys.push, hh, hn]
  · simp [ASys.push, hn]
  · intro x hx
    simp only [List.mem_append, List.mem_singleton, List.length_append, List.length_cons,
      List.length_nil] at hx ⊢
    rcases hx with hx | rfl
    · have := hv x hx; omega
    · omega
  · intro t ht
    simp only [List.mem_append, List.mem_singleton] at ht
    rcases ht with ht | rfl
    · exact hsorted t ht
    · exact hso
  · intro i t hi u
    rw [List.getElem?_append] at hi
    by_cases hlt : i < s.cells.length
    · simp only [hlt, if_true] at hi
      have : ¬ i = a.ncells := by omega
      simp only [ASys.push, this, if_false]
      exact hg i t hi u
    · simp only [hlt, if_false] at hi
      by_cases he : i = s.cells.length
      · subst he
        simp at hi
        subst hi
        simp [ASys.push, hn, hget]
      · have : i - s.cells.length ≠ 0 := by omega
        cases hk : i - s.cells.length with
        | zero => exact absurd hk this
        | succ n => simp [hk] at hi

theorem sim_clone {s : Sys} {a : ASys} (hs : Sim s a) {c : Nat} (hc : c < s.cells.length) :
    Sim { s with handles := s.handles ++ [c] } { a with handles := a.handles ++ [c] } := by
  obtain ⟨hh, hn, hv, hsorted, hg⟩ := hs
  refine ⟨by simp [hh], hn, ?_, hsorted, hg⟩
  intro x hx
  simp only [List.mem_append, List.mem_singleton] at hx
  rcases hx with hx | rfl
  · exact hv x hx
  · exact hc

theorem empty_get (u : Nat) : Tbl.get [] u = AMap.empty u := rfl

/-- One step of the concrete system simulates one step of the specification, and the outcomes
agree. -/
theorem step_sim (s : Sys) (a : ASys) (op : Op) (hs : Sim s a) :
    Sim (step s op).1 (astep a op).1 ∧ Agree (step s op).2 (astep a op).2 := by
  cases op with
  | new =>
    exact ⟨sim_push hs sorted_nil empty_get, trivial⟩
  | fromUrls us =>
    exact ⟨sim_push hs (sorted_ofUrls us) (get_ofUrls us), trivial⟩
  | clone h =>
    cases ht : s.tblOf h with
    | none => simp [step, astep, ht, tblOf_none hs ht, hs, Agree]
    | some p =>
      obtain ⟨c, t⟩ := p
      obtain ⟨hc, _, hlt, _, _⟩ := tblOf_some hs ht
      simp only [step, astep, ht, hc]
      exact ⟨sim_clone hs hlt, trivial⟩
  | insert h u cfg =>
    cases ht : s.tblOf h with
    | none => simp [step, astep, ht, tblOf_none hs ht, hs, Agree]
    | some p =>
      obtain ⟨c, t⟩ := p
      obtain ⟨hc, _, hlt, hso, hg⟩ := tblOf_some hs ht
      simp only [step, astep, ht, hc, blocks_false, Bool.false_eq_true, if_false]
      refine ⟨sim_setCell hs hlt (sorted_insert u cfg hso) ?_, ?_⟩
      · intro k; rw [get_insert hso]; simp [AMap.insert, hg]
      · simp [Agree, hg]
  | remove h u =>
    cases ht : s.tblOf h with
    | none => simp [step, astep, ht, tblOf_none hs ht, hs, Agree]
    | some p =>
      obtain ⟨c, t⟩ := p
      obtain ⟨hc, _, hlt, hso, hg⟩ := tblOf_some hs ht
      simp only [step, astep, ht, hc, blocks_false, Bool.false_eq_true, if_false]
      refine ⟨sim_setCell hs hlt (sorted_remove u hso) ?_, ?_⟩
      · intro k; rw [get_remove hso]; simp [AMap.remove, hg]
      · simp [Agree, hg]
  | extend h g =>
    cases ht : s.tblOf h with
    | none => simp [step, astep, ht, tblOf_none hs ht, hs, Agree]
    | some p =>
      obtain ⟨c, t⟩ := p
      obtain ⟨hc, _, hlt, hso, hg⟩ := tblOf_some hs ht
      cases ht2 : s.tblOf g with
      | none => simp [step, astep, ht, ht2, hc, tblOf_none hs ht2, hs, Agree]
      | some q =>
        obtain ⟨d, o⟩ := q
        obtain ⟨hd, _, _, hso2, hg2⟩ := tblOf_some hs ht2
        simp only [step, astep, ht, ht2, hc, hd, blocks_false, Bool.false_eq_true, if_false]
        refine ⟨sim_setCell hs hlt (sorted_extend hso hso2) ?_, trivial⟩
        intro k
        rw [get_extend hso hso2]
        simp [AMap.extend, hg, hg2]
  | token h tok =>
    cases ht : s.tblOf h with
    | none => simp [step, astep, ht, tblOf_none hs ht, hs, Agree]
    | some p =>
      obtain ⟨c, t⟩ := p
      obtain ⟨hc, _, hlt, hso, hg⟩ := tblOf_some hs ht
      simp only [step, astep, ht, hc, blocks_false, Bool.false_eq_true, if_false]
      refine ⟨sim_setCell hs hlt (sorted_withToken tok hso) ?_, trivial⟩
      intro k; rw [get_withToken]; simp [AMap.withToken, hg]
  | get h u =>
    cases ht : s.tblOf h with
    | none => simp [step, astep, ht, tblOf_none hs ht, hs, Agree]
    | some p =>
      obtain ⟨c, t⟩ := p
      obtain ⟨hc, _, _, _, hg⟩ := tblOf_some hs ht
      simp [step, astep, ht, hc, blocks_false, hs, Agree, hg]
  | has h u =>
    cases ht : s.tblOf h with
    | none => simp [step, astep, ht, tblOf_none hs ht, hs, Agree]
    | some p =>
      obtain ⟨c, t⟩ := p
      obtain ⟨hc, _, _, _, hg⟩ := tblOf_some hs ht
      simp [step, astep, ht, hc, blocks_false, hs, Agree, hg]
  | len h =>
    cases ht : s.tblOf h with
    | none => simp [step, astep, ht, tblOf_none hs ht, hs, Agree]
    | some p =>
      obtain ⟨c, t⟩ := p
      obtain ⟨hc, _, _, hso, hg⟩ := tblOf_some hs ht
      simp only [step, astep, ht, hc, blocks_false, Bool.false_eq_true, if_false]
      refine ⟨hs, t.map (·.1), ?_, by simp⟩
      have := keys_isDomain hso
      have e : Tbl.get t = a.cells c := funext hg
      rw [e] at this
      exact this
  | isEmpty h =>
    cases ht : s.tblOf h with
    | none => simp [step, astep, ht, tblOf_none hs ht, hs, Agree]
    | some p =>
      obtain ⟨c, t⟩ := p
      obtain ⟨hc, _, _, _, hg⟩ := tblOf_some hs ht
      simp only [step, astep, ht, hc, blocks_false, Bool.false_eq_true, if_false]
      refine ⟨hs, ?_⟩
      have e : Tbl.get t = a.cells c := funext hg
      simp only [Agree]
      rw [← e]
      exact isEmpty_iff t
  | urls h =>
    cases ht : s.tblOf h with
    | none => simp [step, astep, ht, tblOf_none hs ht, hs, Agree]
    | some p =>
      obtain ⟨c, t⟩ := p
      obtain ⟨hc, _, _, hso, hg⟩ := tblOf_some hs ht
      simp only [step, astep, ht, hc, blocks_false, Bool.false_eq_true, if_false]
      refine ⟨hs, ?_⟩
      have := keys_isDomain hso
      have e : Tbl.get t = a.cells c := funext hg
      rw [e] at this
      exact this
  | eq h g =>
    cases ht : s.tblOf h with
    | none => simp [step, astep, ht, tblOf_none hs ht, hs, Agree]
    | some p =>
      obtain ⟨c, t⟩ := p
      obtain ⟨hc, _, hlt, hso, hg⟩ := tblOf_some hs ht
      cases ht2 : s.tblOf g with
      | none => simp [step, astep, ht, ht2, hc, tblOf_none hs ht2, hs, Agree]
      | some q =>
        obtain ⟨d, o⟩ := q
        obtain ⟨hd, _, _, hso2, hg2⟩ := tblOf_some hs ht2
        simp only [step, astep, ht, ht2, hc, hd, blocks_false, Bool.false_eq_true, if_false]
        refine ⟨hs, ?_⟩
        simp only [Agree, decide_eq_true_eq]
        constructor
        · intro hto u; rw [← hg, ← hg2, hto]
        · intro hall
          exact sorted_ext hso hso2 (fun u => by rw [hg, hg2, hall])

/-- A live handle always resolves to a table. -/
theorem tblOf_of_lt {s : Sys} {a : ASys} (hs : Sim s a) {h : Nat} (hlt : h < s.handles.length) :
    ∃ c t, s.tblOf h = some (c, t) := by
  cases ht : s.tblOf h with
  | some p => exact ⟨p.1, p.2, rfl⟩
  | none =>
    exfalso
    obtain ⟨_, _, hv, _, _⟩ := hs
    unfold Sys.tblOf at ht
    have hc : s.handles[h]? = some s.handles[h] := List.getElem?_eq_getElem hlt
    rw [hc] at ht
    have hlt2 := hv s.handles[h] (List.getElem_mem hlt)
    have hc2 : s.cells[s.handles[h]]? = some s.cells[s.handles[h]] := List.getElem?_eq_getElem hlt2
    simp [hc2] at ht

theorem sim_init : Sim Sys.init ASys.init := by
  refine ⟨rfl, rfl, ?_, ?_, ?_⟩
  · intro c hc; simp [Sys.init] at hc ⊢; omega
  · intro t ht; simp [Sys.init] at ht; subst ht; exact sorted_nil
  · intro c t hc u
    simp only [Sys.init] at hc
    cases c with
    | zero => simp at hc; subst hc; rfl
    | succ n => simp at hc

/-- A whole run simulates the abstract run. -/
theorem run_sim (ops : List Op) (s : Sys) (a : ASys) (hs : Sim s a) :
    Sim (run s ops).1 (arun a ops).1 ∧ AgreeAll (run s ops).2 (arun a ops).2 := by
  induction ops generalizing s a with
  | nil => exact ⟨hs, trivial⟩
  | cons op ops ih =>
    have h1 := step_sim s a op hs
    have h2 := ih (step s op).1 (astep a op).1 h1.1
    exact ⟨h2.1, h1.2, h2.2⟩

end IrohModel.C43
