/-
C10 — property theorems (only).

Statement: every relay protocol message in either direction whose fields are
within the wire format's ranges decodes back to itself, its predicted encoded
length equals its actual length, and frames only valid in another protocol
version are rejected.  Decoding any byte string never panics, and any message a
sender's size checks accept is accepted by the receiving side's decoder.

`validKey` (Ed25519 point validity) is a parameter of every statement.  The
predicates `TypeInv` (what the Rust types can hold), `InRange` (what the wire
format can carry), `Fits` (decoder's size limit) and `Allowed` (protocol version)
are defined in `Lemmas.lean`.  Constants (`MAX_PACKET_SIZE`, the frame type and
status discriminants, the literal lengths) come from the source on every run.
-/
import IrohModel.C10.Lemmas

namespace IrohModel.C10
open Generated.C10

/-- QUIC varints round-trip for every representable value, whatever follows. -/
theorem varint_roundtrip (x : Nat) (hx : x < 2 ^ 62) (rest : Bytes) :
    decodeVarint (encodeVarint x ++ rest) = some (x, rest) ∧
    (encodeVarint x).length = varintSize x :=
  ⟨decodeVarint_encodeVarint x hx rest, encodeVarint_length x⟩

/-- What decoding the encoding of *any* relay→client value of the Rust type yields in a version
that allows it: the value with durations cut to whole milliseconds modulo 2³² and the status
code re-read (`normalize`). -/
theorem decode_encode_r2c (vk : Bytes → Bool) (v : Version) (m : RelayToClientMsg)
    (ht : m.TypeInv vk) (hf : m.Fits) (ha : m.Allowed v) :
    decodeR2C vk v m.encode = .ok m.normalize := by
  unfold RelayToClientMsg.Fits at hf
  have hf' : ¬ m.payload.length > maxPacketSize := by omega
  unfold decodeR2C RelayToClientMsg.encode
  rw [decodeFrameType_encode]
  simp only [hf', if_false]
  cases m with
  | datagrams k d =>
    obtain ⟨hk, hd⟩ := ht
    have := decodeKeyedDatagrams_encode vk k d hk hd
    cases hs : d.segmentSize with
    | none =>
      rw [hs] at this
      have hb : (FrameType.relayToClientDatagram == FrameType.relayToClientDatagramBatch) = false := by decide
      simp only [Option.isSome_none] at this
      simp [RelayToClientMsg.typ, RelayToClientMsg.payload, hs, hb, this, RelayToClientMsg.normalize]
    | some s =>
      rw [hs] at this
      simp only [Option.isSome_some] at this
      simp [RelayToClientMsg.typ, RelayToClientMsg.payload, hs, this, RelayToClientMsg.normalize]
  | endpointGone k =>
    obtain ⟨hl, hv⟩ := ht
    simp [RelayToClientMsg.typ, RelayToClientMsg.payload, hl, hv, keyLen, RelayToClientMsg.normalize]
  | status s =>
    have hv : v = .v2 := ha
    have hc := Status.code_lt s ht
    simp [RelayToClientMsg.typ, RelayToClientMsg.payload, hv, Status.decode_code _ hc,
      RelayToClientMsg.normalize]
  | restarting a b =>
    simp [RelayToClientMsg.typ, RelayToClientMsg.payload,
      decodeRestarting_encode _ _ (millisU32_lt a) (millisU32_lt b), RelayToClientMsg.normalize]
  | ping d =>
    simp [RelayToClientMsg.typ, RelayToClientMsg.payload, decodePing_ok d ht,
      RelayToClientMsg.normalize]
  | pong d =>
    simp [RelayToClientMsg.typ, RelayToClientMsg.payload, decodePing_ok d ht,
      RelayToClientMsg.normalize]
  | health p =>
    have hv : v = .v1 := ha
    have hu : utf8Valid p = true := ht
    simp [RelayToClientMsg.typ, RelayToClientMsg.payload, hv, hu, RelayToClientMsg.normalize]

/-- Round trip, relay→client: a message with fields within the wire format's ranges decodes back
to itself in every protocol version that allows its frame. -/
theorem rt_r2c (vk : Bytes → Bool) (v : Version) (m : RelayToClientMsg)
    (ht : m.TypeInv vk) (hr : m.InRange) (hf : m.Fits) (ha : m.Allowed v) :
    decodeR2C vk v m.encode = .ok m := by
  rw [decode_encode_r2c vk v m ht hf ha, normalize_of_inRange m hr]

/-- Round trip, client→relay. -/
theorem rt_c2r (vk : Bytes → Bool) (m : ClientToRelayMsg) (ht : m.TypeInv vk) (hf : m.Fits) :
    decodeC2R vk m.encode = .ok m := by
  unfold ClientToRelayMsg.Fits at hf
  have hf' : ¬ m.payload.length > maxPacketSize := by omega
  unfold decodeC2R ClientToRelayMsg.encode
  rw [decodeFrameType_encode]
  simp only [hf', if_false]
  cases m with
  | datagrams k d =>
    obtain ⟨hk, hd⟩ := ht
    have := decodeKeyedDatagrams_encode vk k d hk hd
    cases hs : d.segmentSize with
    | none =>
      rw [hs] at this
      have hb : (FrameType.clientToRelayDatagram == FrameType.clientToRelayDatagramBatch) = false := by decide
      simp only [Option.isSome_none] at this
      simp [ClientToRelayMsg.typ, ClientToRelayMsg.payload, hs, hb, this]
    | some s =>
      rw [hs] at this
      simp only [Option.isSome_some] at this
      simp [ClientToRelayMsg.typ, ClientToRelayMsg.payload, hs, this]
  | ping d => simp [ClientToRelayMsg.typ, ClientToRelayMsg.payload, decodePing_ok d ht]
  | pong d => simp [ClientToRelayMsg.typ, ClientToRelayMsg.payload, decodePing_ok d ht]

/-- `encoded_len` does not panic and equals the length of the encoding, relay→client. -/
theorem len_exact_r2c (vk : Bytes → Bool) (m : RelayToClientMsg) (ht : m.TypeInv vk) :
    m.encodedLen = some m.encode.length := by
  unfold RelayToClientMsg.encodedLen RelayToClientMsg.encode
  rw [FrameType.encodedLen_eq, List.length_append, FrameType.encode_length]
  cases m with
  | datagrams k d =>
    simp [RelayToClientMsg.payload, ht.1.1, keyLen, Datagrams.encode_length]
  | endpointGone k => simp [RelayToClientMsg.payload, ht.1, keyLen]
  | status s => simp [RelayToClientMsg.payload]
  | restarting a b => simp [RelayToClientMsg.payload, u32be]
  | ping d =>
    have : d.length = 8 := ht
    simp [RelayToClientMsg.payload, this, pingLen]
  | pong d =>
    have : d.length = 8 := ht
    simp [RelayToClientMsg.payload, this, pingLen]
  | health p => simp [RelayToClientMsg.payload]

/-- `encoded_len` does not panic and equals the length of the encoding, client→relay. -/
theorem len_exact_c2r (vk : Bytes → Bool) (m : ClientToRelayMsg) (ht : m.TypeInv vk) :
    m.encodedLen = some m.encode.length := by
  unfold ClientToRelayMsg.encodedLen ClientToRelayMsg.encode
  rw [FrameType.encodedLen_eq, List.length_append, FrameType.encode_length]
  cases m with
  | datagrams k d =>
    simp [ClientToRelayMsg.payload, ht.1.1, keyLen, Datagrams.encode_length]
  | ping d =>
    have : d.length = 8 := ht
    simp [ClientToRelayMsg.payload, this, pingLen]
  | pong d =>
    have : d.length = 8 := ht
    simp [ClientToRelayMsg.payload, this, pingLen]

/-- A frame that is only valid in the other protocol version is rejected — with
`FrameNotAllowedInVersion` when it is within the size limit, with some error in any case. -/
theorem version_reject (vk : Bytes → Bool) (v : Version) (m : RelayToClientMsg)
    (hna : ¬ m.Allowed v) :
    (m.Fits → decodeR2C vk v m.encode = .error (.err .notAllowedInVersion)) ∧
    (∃ e, decodeR2C vk v m.encode = .error (.err e)) := by
  have key : ∀ (hfits : Decidable (m.payload.length > maxPacketSize)),
      decodeR2C vk v m.encode =
        if m.payload.length > maxPacketSize then rerr (.tooLarge m.payload.length)
        else rerr .notAllowedInVersion := by
    intro _
    unfold decodeR2C RelayToClientMsg.encode
    rw [decodeFrameType_encode]
    cases m with
    | health p =>
      have hv : v ≠ .v1 := hna
      simp [RelayToClientMsg.typ, RelayToClientMsg.payload, hv]
    | status s =>
      have hv : v ≠ .v2 := hna
      simp [RelayToClientMsg.typ, RelayToClientMsg.payload, hv]
    | datagrams k d => exact absurd trivial hna
    | endpointGone k => exact absurd trivial hna
    | restarting a b => exact absurd trivial hna
    | ping d => exact absurd trivial hna
    | pong d => exact absurd trivial hna
  have key := key inferInstance
  constructor
  · intro hf
    unfold RelayToClientMsg.Fits at hf
    have : ¬ m.payload.length > maxPacketSize := by omega
    rw [key]; simp [this, rerr]
  · rw [key]
    by_cases h : m.payload.length > maxPacketSize
    · exact ⟨.tooLarge m.payload.length, by simp [h, rerr]⟩
    · exact ⟨.notAllowedInVersion, by simp [h, rerr]⟩

/-- Decoding is total: on every byte string, in every version, whatever the key oracle says,
the relay→client decoder returns a message or an error — no modelled slice, index, `get_u8`,
`get_u16` or `copy_from_slice` is reached outside its bounds. -/
theorem decode_total_r2c (vk : Bytes → Bool) (v : Version) (bs : Bytes) :
    decodeR2C vk v bs ≠ .error .panic := by
  unfold decodeR2C
  split
  · next f hf =>
    intro e; injection e with e; subst e; exact decodeFrameType_no_panic bs hf
  · next t content _ =>
    by_cases hl : content.length > maxPacketSize
    · simp [hl, rerr]
    · simp only [hl, if_false]
      split
      · have := decodeKeyedDatagrams_no_panic vk content (FrameType.relayToClientDatagram == .relayToClientDatagramBatch)
        split
        · next f hf => intro e; injection e with e; subst e; exact this hf
        · simp
      · have := decodeKeyedDatagrams_no_panic vk content (FrameType.relayToClientDatagramBatch == .relayToClientDatagramBatch)
        split
        · next f hf => intro e; injection e with e; subst e; exact this hf
        · simp
      · unfold rerr; split <;> (try split) <;> simp
      · have := decodePing_no_panic content
        split
        · next f hf => intro e; injection e with e; subst e; exact this hf
        · simp
      · have := decodePing_no_panic content
        split
        · next f hf => intro e; injection e with e; subst e; exact this hf
        · simp
      · unfold rerr; split <;> (try split) <;> simp
      · have := decodeRestarting_no_panic content
        split
        · next f hf => intro e; injection e with e; subst e; exact this hf
        · simp
      · unfold rerr
        split
        · simp
        · have := Status.decode_no_panic content
          split
          · next f hf => intro e; injection e with e; subst e; exact this hf
          · simp
      · simp [rerr]

/-- The same for the client→relay decoder. -/
theorem decode_total_c2r (vk : Bytes → Bool) (bs : Bytes) :
    decodeC2R vk bs ≠ .error .panic := by
  unfold decodeC2R
  split
  · next f hf =>
    intro e; injection e with e; subst e; exact decodeFrameType_no_panic bs hf
  · next t content _ =>
    by_cases hl : content.length > maxPacketSize
    · simp [hl, rerr]
    · simp only [hl, if_false]
      split
      · have := decodeKeyedDatagrams_no_panic vk content (FrameType.clientToRelayDatagram == .clientToRelayDatagramBatch)
        split
        · next f hf => intro e; injection e with e; subst e; exact this hf
        · simp
      · have := decodeKeyedDatagrams_no_panic vk content (FrameType.clientToRelayDatagramBatch == .clientToRelayDatagramBatch)
        split
        · next f hf => intro e; injection e with e; subst e; exact this hf
        · simp
      · have := decodePing_no_panic content
        split
        · next f hf => intro e; injection e with e; subst e; exact this hf
        · simp
      · have := decodePing_no_panic content
        split
        · next f hf => intro e; injection e with e; subst e; exact this hf
        · simp
      · simp [rerr]

/-- Client sender ⇒ server decoder: every message `Conn::start_send` accepts
(`encoded_len ≤ MAX_PACKET_SIZE`, non-empty datagram) is decoded by the relay, to itself. -/
theorem sender_accept_c2r (vk : Bytes → Bool) (m : ClientToRelayMsg) (ht : m.TypeInv vk)
    (hs : clientSend m = some .ok) : decodeC2R vk m.encode = .ok m := by
  apply rt_c2r vk m ht
  unfold ClientToRelayMsg.Fits
  have hlen := len_exact_c2r vk m ht
  unfold clientSend at hs
  rw [hlen] at hs
  simp only [Option.map_some, Option.some.injEq] at hs
  have hle : ¬ m.encode.length > maxPacketSize := by
    intro h; simp [h] at hs
  have : m.encode.length = 1 + m.payload.length := by
    unfold ClientToRelayMsg.encode
    rw [List.length_append, FrameType.encode_length]
  omega

/-- Server sender ⇒ client decoder: every message `RelayedStream::start_send` accepts is decoded
by a client of any protocol version that allows the frame (to itself when its fields are within
the wire format's ranges, to its `normalize`d form otherwise). -/
theorem sender_accept_r2c (vk : Bytes → Bool) (v : Version) (m : RelayToClientMsg)
    (ht : m.TypeInv vk) (hs : serverSend m = some .ok) (ha : m.Allowed v) :
    decodeR2C vk v m.encode = .ok m.normalize ∧
    (m.InRange → decodeR2C vk v m.encode = .ok m) := by
  have hfits : m.Fits := by
    unfold RelayToClientMsg.Fits
    have hlen := len_exact_r2c vk m ht
    unfold serverSend at hs
    rw [hlen] at hs
    simp only [Option.map_some, Option.some.injEq] at hs
    have hle : ¬ m.encode.length > maxPacketSize := by
      intro h; simp [h] at hs
    have : m.encode.length = 1 + m.payload.length := by
      unfold RelayToClientMsg.encode
      rw [List.length_append, FrameType.encode_length]
    omega
  exact ⟨decode_encode_r2c vk v m ht hfits ha, fun hr => rt_r2c vk v m ht hr hfits ha⟩

/-- The senders' checks themselves never panic on values of the Rust types. -/
theorem senders_total (vk : Bytes → Bool) :
    (∀ m : ClientToRelayMsg, m.TypeInv vk → clientSend m ≠ none) ∧
    (∀ m : RelayToClientMsg, m.TypeInv vk → serverSend m ≠ none) := by
  constructor
  · intro m ht
    unfold clientSend; rw [len_exact_c2r vk m ht]; simp
  · intro m ht
    unfold serverSend; rw [len_exact_r2c vk m ht]; simp

/-- The key cache is transparent: for every history of frames (either direction, any protocol
versions, any byte strings — valid, invalid and near-miss keys, hits, misses, evictions) decoded
one after the other through one cache of any capacity (0 = disabled), every decode result equals
the result of decoding that frame without a cache. -/
theorem cache_transparent (vk : Bytes → Bool) (cap : Nat) (frames : List Frame) :
    (runCached vk (KeyCache.new cap) frames).1 = frames.map (decodeFrame vk) :=
  (runCached_spec vk frames (KeyCache.new cap) (KeyCache.new_inv vk cap)).1

/-- The same from any cache state that satisfies the invariant "every stored key is valid, at
most `cap` keys are stored"; the invariant is preserved. -/
theorem cache_transparent_from (vk : Bytes → Bool) (c : KeyCache) (hinv : c.Inv vk)
    (frames : List Frame) :
    (runCached vk c frames).1 = frames.map (decodeFrame vk) ∧ (runCached vk c frames).2.Inv vk :=
  ⟨(runCached_spec vk frames c hinv).1, (runCached_spec vk frames c hinv).2.1⟩

/-- After every history the cache holds at most `cap` keys (none when disabled), all of them
keys that `validKey` accepts, and its capacity is unchanged. -/
theorem cache_bounded (vk : Bytes → Bool) (cap : Nat) (frames : List Frame) :
    (runCached vk (KeyCache.new cap) frames).2.entries.length ≤ cap ∧
    (∀ k ∈ (runCached vk (KeyCache.new cap) frames).2.entries, vk k = true) ∧
    (runCached vk (KeyCache.new cap) frames).2.cap = cap := by
  obtain ⟨_, ⟨hv, hb⟩, hc⟩ := runCached_spec vk frames (KeyCache.new cap) (KeyCache.new_inv vk cap)
  have hc' : (runCached vk (KeyCache.new cap) frames).2.cap = cap := hc
  exact ⟨by rw [hc'] at hb; exact hb, hv, hc'⟩

/-- Lifting: in the cache state reached by any history, the decoders with a cache compute what
the cache-less decoders compute — so `rt_*`, `version_reject`, `decode_total_*` and
`sender_accept_*` hold verbatim for the decoders as the relay and the client call them. -/
theorem cached_decode_eq (vk : Bytes → Bool) (cap : Nat) (history : List Frame) (v : Version)
    (bs : Bytes) :
    (decodeR2CC vk (runCached vk (KeyCache.new cap) history).2 v bs).1 = decodeR2C vk v bs ∧
    (decodeC2RC vk (runCached vk (KeyCache.new cap) history).2 bs).1 = decodeC2R vk bs := by
  have hinv := (runCached_spec vk history (KeyCache.new cap) (KeyCache.new_inv vk cap)).2.1
  exact ⟨(decodeR2CC_spec vk _ v bs hinv).1, (decodeC2RC_spec vk _ bs hinv).1⟩

/-- For instance: the round trip and totality through a used cache. -/
theorem rt_r2c_cached (vk : Bytes → Bool) (cap : Nat) (history : List Frame) (v : Version)
    (m : RelayToClientMsg) (ht : m.TypeInv vk) (hr : m.InRange) (hf : m.Fits) (ha : m.Allowed v) :
    (decodeR2CC vk (runCached vk (KeyCache.new cap) history).2 v m.encode).1 = .ok m ∧
    ∀ bs, (decodeR2CC vk (runCached vk (KeyCache.new cap) history).2 v bs).1 ≠ .error .panic := by
  refine ⟨?_, ?_⟩
  · rw [(cached_decode_eq vk cap history v m.encode).1]; exact rt_r2c vk v m ht hr hf ha
  · intro bs; rw [(cached_decode_eq vk cap history v bs).1]; exact decode_total_r2c vk v bs

-- Non-vacuity: each constructor has values satisfying every hypothesis used above, including a
-- datagram exactly at the sender's limit; `Allowed` fails for the two version-bound frames.
section NonVacuity
def vkAll : Bytes → Bool := fun _ => true
def key0 : Bytes := List.replicate 32 7

example : (RelayToClientMsg.datagrams key0 ⟨some .ce, some 1200, [1, 2, 3]⟩).TypeInv vkAll :=
  ⟨⟨rfl, rfl⟩, by intro s hs; cases hs; omega⟩
example : (RelayToClientMsg.datagrams key0 ⟨none, none, []⟩).TypeInv vkAll :=
  ⟨⟨rfl, rfl⟩, by intro s hs; cases hs⟩
example : (RelayToClientMsg.endpointGone key0).TypeInv vkAll := ⟨rfl, rfl⟩
example : (RelayToClientMsg.status (.unknown 3)).TypeInv vkAll ∧
    (RelayToClientMsg.status (.unknown 3)).InRange ∧ (RelayToClientMsg.status (.unknown 3)).Allowed .v2 ∧
    ¬ (RelayToClientMsg.status (.unknown 3)).Allowed .v1 := by
  refine ⟨?_, ?_, rfl, by intro h; cases h⟩
  · show (3 : Nat) < 256; decide
  · show (3 : Nat) ≠ stHealthyDec ∧ (3 : Nat) ≠ stSameDec ∧ (3 : Nat) ≠ stRateLimitedDec; decide
example : (RelayToClientMsg.restarting 10000000 (4294967295 * 1000000)).InRange := by
  refine ⟨by decide, by decide, by decide, by decide⟩
example : ¬ (RelayToClientMsg.restarting 1 0).InRange := by
  intro h; exact absurd h.1 (by decide)
example : (RelayToClientMsg.ping [1, 2, 3, 4, 5, 6, 7, 8]).TypeInv vkAll := rfl
example : (RelayToClientMsg.health [0xe2, 0x82, 0xac]).TypeInv vkAll ∧
    (RelayToClientMsg.health [0xe2, 0x82, 0xac]).Allowed .v1 ∧
    ¬ (RelayToClientMsg.health [0xe2, 0x82, 0xac]).Allowed .v2 := by
  refine ⟨?_, rfl, by intro h; cases h⟩
  show utf8Valid [0xe2, 0x82, 0xac] = true; decide
example : (ClientToRelayMsg.datagrams key0 ⟨none, some 1, [9]⟩).TypeInv vkAll ∧
    clientSend (ClientToRelayMsg.datagrams key0 ⟨none, some 1, [9]⟩) = some .ok := by
  refine ⟨⟨⟨rfl, rfl⟩, by intro s hs; cases hs; omega⟩, by decide⟩
example : serverSend (.health []) = some .ok ∧ serverSend (.datagrams key0 ⟨none, none, []⟩) = some .emptyPacket := by
  decide
-- The key cache: hits promote, misses of valid keys insert, a full cache evicts its least
-- recently used key, invalid keys are never stored.
def kA : Bytes := List.replicate 32 1
def kB : Bytes := List.replicate 32 2
def kC : Bytes := List.replicate 32 3
def batchFrom (k : Bytes) : Frame := .c2r (5 :: k ++ [0, 0, 1, 9])
example : (runCached vkAll (KeyCache.new 2)
    [batchFrom kA, batchFrom kB, batchFrom kA, batchFrom kC]).2.entries = [kC, kA] := by decide
example : (runCached (fun k => k != kB) (KeyCache.new 2)
    [batchFrom kA, batchFrom kB, batchFrom kC]).2.entries = [kC, kA] := by decide
end NonVacuity

end IrohModel.C10
