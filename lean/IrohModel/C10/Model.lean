/-
C10 — the relay frame codec (iroh-relay/src/protos/relay.rs, common.rs) and the
two senders' size checks (client/conn.rs, server/streams.rs).

Executable, core Lean only.  Byte strings are `List UInt8`.  Every Rust
operation that can panic (slice indexing, `Buf::get_u8/get_u16`,
`copy_from_slice`) is a checked operation here that yields the explicit
outcome `Fail.panic` when its precondition fails; `Theorems.decode_total`
shows that outcome is unreachable.

Not modelled: Ed25519 point validity (`validKey` is a parameter; the
correspondence run asks the real `PublicKey::try_from`), the key cache (both
of its implementations answer like `PublicKey::try_from`).
-/
import IrohModel.Generated.C10
import IrohModel.Common.Hex

namespace IrohModel.C10
open Generated.C10

/-! ## QUIC variable-length integers (`noq_proto::VarInt`) -/

def u8 (n : Nat) : UInt8 := UInt8.ofNat n

/-- `VarInt::encode` for `x < 2^62` (larger values are not representable as a `VarInt`). -/
def encodeVarint (x : Nat) : Bytes :=
  if x < 2 ^ 6 then [u8 x]
  else if x < 2 ^ 14 then [u8 (64 + x / 256), u8 (x % 256)]
  else if x < 2 ^ 30 then
    [u8 (128 + x / 2 ^ 24), u8 (x / 2 ^ 16 % 256), u8 (x / 2 ^ 8 % 256), u8 (x % 256)]
  else
    [u8 (192 + x / 2 ^ 56 % 64), u8 (x / 2 ^ 48 % 256), u8 (x / 2 ^ 40 % 256),
     u8 (x / 2 ^ 32 % 256), u8 (x / 2 ^ 24 % 256), u8 (x / 2 ^ 16 % 256), u8 (x / 2 ^ 8 % 256),
     u8 (x % 256)]

/-- `VarInt::size`. -/
def varintSize (x : Nat) : Nat :=
  if x < 2 ^ 6 then 1 else if x < 2 ^ 14 then 2 else if x < 2 ^ 30 then 4 else 8

/-- `VarInt::decode`: value and remaining bytes, `none` = `UnexpectedEnd`.  Non-minimal
encodings are accepted, as in the implementation. -/
def decodeVarint : Bytes → Option (Nat × Bytes)
  | [] => none
  | b0 :: rest =>
    let v0 := b0.toNat % 64
    match b0.toNat / 64 with
    | 0 => some (v0, rest)
    | 1 =>
      match rest with
      | b1 :: r => some (v0 * 256 + b1.toNat, r)
      | _ => none
    | 2 =>
      match rest with
      | b1 :: b2 :: b3 :: r => some (((v0 * 256 + b1.toNat) * 256 + b2.toNat) * 256 + b3.toNat, r)
      | _ => none
    | _ =>
      match rest with
      | b1 :: b2 :: b3 :: b4 :: b5 :: b6 :: b7 :: r =>
        some (((((((v0 * 256 + b1.toNat) * 256 + b2.toNat) * 256 + b3.toNat) * 256 + b4.toNat) * 256
          + b5.toNat) * 256 + b6.toNat) * 256 + b7.toNat, r)
      | _ => none

/-! ## Frame types (`protos::common::FrameType`) -/

inductive FrameType where
  | serverChallenge | clientAuth | serverConfirmsAuth | serverDeniesAuth
  | clientToRelayDatagram | clientToRelayDatagramBatch
  | relayToClientDatagram | relayToClientDatagramBatch
  | endpointGone | ping | pong | health | restarting | status
deriving DecidableEq, Repr

/-- The `#[repr(u32)]` discriminants, read from the source on every run. -/
def FrameType.toNat : FrameType → Nat
  | .serverChallenge => ftServerChallenge
  | .clientAuth => ftClientAuth
  | .serverConfirmsAuth => ftServerConfirmsAuth
  | .serverDeniesAuth => ftServerDeniesAuth
  | .clientToRelayDatagram => ftClientToRelayDatagram
  | .clientToRelayDatagramBatch => ftClientToRelayDatagramBatch
  | .relayToClientDatagram => ftRelayToClientDatagram
  | .relayToClientDatagramBatch => ftRelayToClientDatagramBatch
  | .endpointGone => ftEndpointGone
  | .ping => ftPing
  | .pong => ftPong
  | .health => ftHealth
  | .restarting => ftRestarting
  | .status => ftStatus

def FrameType.all : List FrameType :=
  [.serverChallenge, .clientAuth, .serverConfirmsAuth, .serverDeniesAuth,
   .clientToRelayDatagram, .clientToRelayDatagramBatch,
   .relayToClientDatagram, .relayToClientDatagramBatch,
   .endpointGone, .ping, .pong, .health, .restarting, .status]

/-- `FrameType::from_repr`. -/
def FrameType.ofNat? (n : Nat) : Option FrameType :=
  FrameType.all.find? (fun t => t.toNat == n)

/-! ## Outcomes -/

/-- `protos::relay::Error`, as far as the decoders produce it. -/
inductive DecodeError where
  | frameTypeEof
  | unknownFrameType (tag : Nat)
  | tooLarge (frameLen : Nat)
  | invalidKey
  | invalidFrame
  | invalidFrameType (t : FrameType)
  | invalidUtf8
  | notAllowedInVersion
deriving DecidableEq, Repr

inductive Fail where
  | err (e : DecodeError)
  | panic
deriving DecidableEq, Repr

abbrev Res (α : Type) := Except Fail α

def rerr {α : Type} (e : DecodeError) : Res α := .error (.err e)

/-! ## Checked byte operations — each mirrors one panicking Rust operation -/

/-- `Buf::get_u8` (panics when empty). -/
def getU8 : Bytes → Res (UInt8 × Bytes)
  | [] => .error .panic
  | b :: r => .ok (b, r)

/-- `Buf::get_u16` (big endian; panics with fewer than two bytes). -/
def getU16 : Bytes → Res (Nat × Bytes)
  | a :: b :: r => .ok (a.toNat * 256 + b.toNat, r)
  | _ => .error .panic

/-- `&s[..n]` (panics when `n > len`). -/
def sliceTo (n : Nat) (s : Bytes) : Res Bytes :=
  if n ≤ s.length then .ok (s.take n) else .error .panic

/-- `&s[n..]` / `Bytes::slice(n..)` (panics when `n > len`). -/
def sliceFrom (n : Nat) (s : Bytes) : Res Bytes :=
  if n ≤ s.length then .ok (s.drop n) else .error .panic

/-- `dst.copy_from_slice(src)` for a `dst` of length `n` (panics on a length mismatch). -/
def copyExact (n : Nat) (src : Bytes) : Res Bytes :=
  if src.length = n then .ok src else .error .panic

/-- `<[u8; 4]>::try_from(s).map_err(|_| InvalidFrame)` followed by `u32::from_be_bytes`. -/
def u32OfSlice (s : Bytes) : Res Nat :=
  match s with
  | [a, b, c, d] => .ok (((a.toNat * 256 + b.toNat) * 256 + c.toNat) * 256 + d.toNat)
  | _ => rerr .invalidFrame

/-! ## Message types -/

/-- `noq_proto::EcnCodepoint` (`Ect0 = 0b10`, `Ect1 = 0b01`, `Ce = 0b11`). -/
inductive Ecn where
  | ect0 | ect1 | ce
deriving DecidableEq, Repr

def ecnBits : Option Ecn → Nat
  | none => 0
  | some .ect1 => 1
  | some .ect0 => 2
  | some .ce => 3

/-- `EcnCodepoint::from_bits` (looks at the two low bits only). -/
def ecnFromBits (b : UInt8) : Option Ecn :=
  match b.toNat % 4 with
  | 1 => some .ect1
  | 2 => some .ect0
  | 3 => some .ce
  | _ => none

/-- `Datagrams`; `segmentSize` is an `Option<NonZeroU16>`. -/
structure Datagrams where
  ecn : Option Ecn
  segmentSize : Option Nat
  contents : Bytes
deriving DecidableEq, Repr

/-- `protos::relay::Status`; `unknown n` holds a `u8`. -/
inductive Status where
  | healthy | sameEndpointIdConnected | rateLimited
  | unknown (n : Nat)
deriving DecidableEq, Repr

/-- `RelayToClientMsg`.  Keys are the 32 key bytes, `ping`/`pong` payloads the 8 array bytes,
`health` the UTF-8 bytes of the `String`, durations are in nanoseconds. -/
inductive RelayToClientMsg where
  | datagrams (remote : Bytes) (d : Datagrams)
  | endpointGone (key : Bytes)
  | status (s : Status)
  | restarting (reconnectInNs tryForNs : Nat)
  | ping (data : Bytes)
  | pong (data : Bytes)
  | health (problem : Bytes)
deriving DecidableEq, Repr

/-- `ClientToRelayMsg`. -/
inductive ClientToRelayMsg where
  | ping (data : Bytes)
  | pong (data : Bytes)
  | datagrams (dst : Bytes) (d : Datagrams)
deriving DecidableEq, Repr

/-- `http::ProtocolVersion` (ordered, `v1 < v2`). -/
inductive Version where
  | v1 | v2
deriving DecidableEq, Repr

/-! ## UTF-8 (`std::str::from_utf8`) -/

def isCont (b : UInt8) : Bool := 0x80 ≤ b && b ≤ 0xBF

/-- Well-formed UTF-8 byte sequences (Unicode table 3-7): no overlong forms, no surrogates,
nothing above U+10FFFF. -/
def utf8Valid : Bytes → Bool
  | [] => true
  | b0 :: rest =>
    if b0 < 0x80 then utf8Valid rest
    else if 0xC2 ≤ b0 && b0 ≤ 0xDF then
      match rest with
      | b1 :: r => isCont b1 && utf8Valid r
      | _ => false
    else if 0xE0 ≤ b0 && b0 ≤ 0xEF then
      match rest with
      | b1 :: b2 :: r =>
        (if b0 == 0xE0 then 0xA0 ≤ b1 && b1 ≤ 0xBF
         else if b0 == 0xED then 0x80 ≤ b1 && b1 ≤ 0x9F
         else isCont b1) && isCont b2 && utf8Valid r
      | _ => false
    else if 0xF0 ≤ b0 && b0 ≤ 0xF4 then
      match rest with
      | b1 :: b2 :: b3 :: r =>
        (if b0 == 0xF0 then 0x90 ≤ b1 && b1 ≤ 0xBF
         else if b0 == 0xF4 then 0x80 ≤ b1 && b1 ≤ 0x8F
         else isCont b1) && isCont b2 && isCont b3 && utf8Valid r
      | _ => false
    else false

/-! ## Encoding -/

/-- `FrameType::write_to`. -/
def FrameType.encode (t : FrameType) : Bytes := encodeVarint t.toNat

/-- `FrameType::encoded_len` (`none` = the `unreachable!` arm). -/
def FrameType.encodedLen (t : FrameType) : Option Nat :=
  if t.toNat < 2 ^ 6 then some 1
  else if t.toNat < 2 ^ 14 then some 2
  else if t.toNat < 2 ^ 30 then some 4
  else none

def u16be (n : Nat) : Bytes := [u8 (n / 256), u8 (n % 256)]

def u32be (n : Nat) : Bytes := [u8 (n / 2 ^ 24 % 256), u8 (n / 2 ^ 16 % 256), u8 (n / 2 ^ 8 % 256), u8 (n % 256)]

/-- `Datagrams::write_to`. -/
def Datagrams.encode (d : Datagrams) : Bytes :=
  [u8 (ecnBits d.ecn)] ++
  (match d.segmentSize with
   | some s => u16be s
   | none => []) ++
  d.contents

/-- `Datagrams::encoded_len`. -/
def Datagrams.encodedLen (d : Datagrams) : Nat :=
  1 + (match d.segmentSize with | some _ => 2 | none => 0) + d.contents.length

/-- `Status::write_to`. -/
def Status.code : Status → Nat
  | .healthy => stHealthyEnc
  | .sameEndpointIdConnected => stSameEnc
  | .rateLimited => stRateLimitedEnc
  | .unknown n => n

/-- `Duration::as_millis() as u32`. -/
def millisU32 (ns : Nat) : Nat := ns / 1000000 % 2 ^ 32

def RelayToClientMsg.typ : RelayToClientMsg → FrameType
  | .datagrams _ d => if d.segmentSize.isSome then .relayToClientDatagramBatch else .relayToClientDatagram
  | .endpointGone _ => .endpointGone
  | .ping _ => .ping
  | .pong _ => .pong
  | .status _ => .status
  | .restarting _ _ => .restarting
  | .health _ => .health

def RelayToClientMsg.payload : RelayToClientMsg → Bytes
  | .datagrams k d => k ++ d.encode
  | .endpointGone k => k
  | .ping data => data
  | .pong data => data
  | .health p => p
  | .restarting a b => u32be (millisU32 a) ++ u32be (millisU32 b)
  | .status s => [u8 s.code]

/-- `RelayToClientMsg::to_bytes` / `write_to`. -/
def RelayToClientMsg.encode (m : RelayToClientMsg) : Bytes := m.typ.encode ++ m.payload

/-- `RelayToClientMsg::encoded_len` (`none` = panic in `FrameType::encoded_len`). -/
def RelayToClientMsg.encodedLen (m : RelayToClientMsg) : Option Nat :=
  let payloadLen := match m with
    | .datagrams _ d => keyLen + d.encodedLen
    | .endpointGone _ => keyLen
    | .ping _ => pingLen
    | .pong _ => pingLen
    | .status _ => 1
    | .restarting _ _ => 4 + 4
    | .health p => p.length
  m.typ.encodedLen.map (· + payloadLen)

def ClientToRelayMsg.typ : ClientToRelayMsg → FrameType
  | .datagrams _ d => if d.segmentSize.isSome then .clientToRelayDatagramBatch else .clientToRelayDatagram
  | .ping _ => .ping
  | .pong _ => .pong

def ClientToRelayMsg.payload : ClientToRelayMsg → Bytes
  | .datagrams k d => k ++ d.encode
  | .ping data => data
  | .pong data => data

/-- `ClientToRelayMsg::to_bytes` / `write_to`. -/
def ClientToRelayMsg.encode (m : ClientToRelayMsg) : Bytes := m.typ.encode ++ m.payload

/-- `ClientToRelayMsg::encoded_len`. -/
def ClientToRelayMsg.encodedLen (m : ClientToRelayMsg) : Option Nat :=
  let payloadLen := match m with
    | .ping _ => pingLen
    | .pong _ => pingLen
    | .datagrams _ d => keyLen + d.encodedLen
  m.typ.encodedLen.map (· + payloadLen)

/-! ## Decoding -/

/-- `FrameType::from_bytes`. -/
def decodeFrameType (bs : Bytes) : Res (FrameType × Bytes) :=
  match decodeVarint bs with
  | none => rerr .frameTypeEof
  | some (tag, rest) =>
    if tag ≥ 2 ^ 32 then rerr (.unknownFrameType tag)
    else match FrameType.ofNat? tag with
      | none => rerr (.unknownFrameType tag)
      | some t => .ok (t, rest)

/-- `Datagrams::from_bytes`. -/
def Datagrams.decode (bs : Bytes) (isBatch : Bool) : Res Datagrams :=
  if (if isBatch then bs.length < 3 else bs.length < 1) then rerr .invalidFrame
  else
    match getU8 bs with
    | .error f => .error f
    | .ok (ecnByte, bs1) =>
      if isBatch then
        match getU16 bs1 with
        | .error f => .error f
        | .ok (seg, bs2) =>
          .ok { ecn := ecnFromBits ecnByte, segmentSize := if seg = 0 then none else some seg,
                contents := bs2 }
      else
        .ok { ecn := ecnFromBits ecnByte, segmentSize := none, contents := bs1 }

/-- The datagram arm shared by both decoders: length check, `content[..LENGTH]`,
`key_from_slice`, `content.slice(LENGTH..)`, `Datagrams::from_bytes`. -/
def decodeKeyedDatagrams (validKey : Bytes → Bool) (content : Bytes) (isBatch : Bool) :
    Res (Bytes × Datagrams) :=
  if content.length < keyLen then rerr .invalidFrame
  else
    match sliceTo keyLen content with
    | .error f => .error f
    | .ok key =>
      if !validKey key then rerr .invalidKey
      else
        match sliceFrom keyLen content with
        | .error f => .error f
        | .ok rest =>
          match Datagrams.decode rest isBatch with
          | .error f => .error f
          | .ok d => .ok (key, d)

/-- The `Ping` / `Pong` arms: `len == 8`, `data = [0u8; 8]`, `data.copy_from_slice(&content[..8])`. -/
def decodePing (content : Bytes) : Res Bytes :=
  if content.length ≠ pingDecLen then rerr .invalidFrame
  else
    match sliceTo 8 content with
    | .error f => .error f
    | .ok s => copyExact 8 s

/-- The `Restarting` arm. -/
def decodeRestarting (content : Bytes) : Res (Nat × Nat) :=
  if content.length ≠ 4 + 4 then rerr .invalidFrame
  else
    match sliceTo 4 content with
    | .error f => .error f
    | .ok a =>
      match u32OfSlice a with
      | .error f => .error f
      | .ok reconnectMs =>
        match sliceFrom 4 content with
        | .error f => .error f
        | .ok b =>
          match u32OfSlice b with
          | .error f => .error f
          | .ok tryMs => .ok (reconnectMs * 1000000, tryMs * 1000000)

/-- `Status::from_bytes` (only the first byte is looked at). -/
def Status.decode (content : Bytes) : Res Status :=
  if content.isEmpty then rerr .invalidFrame
  else
    match getU8 content with
    | .error f => .error f
    | .ok (b, _) =>
      if b.toNat = stHealthyDec then .ok .healthy
      else if b.toNat = stSameDec then .ok .sameEndpointIdConnected
      else if b.toNat = stRateLimitedDec then .ok .rateLimited
      else .ok (.unknown b.toNat)

/-- `RelayToClientMsg::from_bytes`. -/
def decodeR2C (validKey : Bytes → Bool) (v : Version) (bs : Bytes) : Res RelayToClientMsg :=
  match decodeFrameType bs with
  | .error f => .error f
  | .ok (t, content) =>
    if content.length > maxPacketSize then rerr (.tooLarge content.length)
    else
      match t with
      | .relayToClientDatagram | .relayToClientDatagramBatch =>
        match decodeKeyedDatagrams validKey content (t == .relayToClientDatagramBatch) with
        | .error f => .error f
        | .ok (k, d) => .ok (.datagrams k d)
      | .endpointGone =>
        if content.length ≠ keyLen then rerr .invalidFrame
        else if !validKey content then rerr .invalidKey
        else .ok (.endpointGone content)
      | .ping =>
        match decodePing content with
        | .error f => .error f
        | .ok d => .ok (.ping d)
      | .pong =>
        match decodePing content with
        | .error f => .error f
        | .ok d => .ok (.pong d)
      | .health =>
        if v ≠ .v1 then rerr .notAllowedInVersion
        else if !utf8Valid content then rerr .invalidUtf8
        else .ok (.health content)
      | .restarting =>
        match decodeRestarting content with
        | .error f => .error f
        | .ok (a, b) => .ok (.restarting a b)
      | .status =>
        if v ≠ .v2 then rerr .notAllowedInVersion
        else
          match Status.decode content with
          | .error f => .error f
          | .ok s => .ok (.status s)
      | other => rerr (.invalidFrameType other)

/-- `ClientToRelayMsg::from_bytes`. -/
def decodeC2R (validKey : Bytes → Bool) (bs : Bytes) : Res ClientToRelayMsg :=
  match decodeFrameType bs with
  | .error f => .error f
  | .ok (t, content) =>
    if content.length > maxPacketSize then rerr (.tooLarge content.length)
    else
      match t with
      | .clientToRelayDatagram | .clientToRelayDatagramBatch =>
        match decodeKeyedDatagrams validKey content (t == .clientToRelayDatagramBatch) with
        | .error f => .error f
        | .ok (k, d) => .ok (.datagrams k d)
      | .ping =>
        match decodePing content with
        | .error f => .error f
        | .ok d => .ok (.ping d)
      | .pong =>
        match decodePing content with
        | .error f => .error f
        | .ok d => .ok (.pong d)
      | other => rerr (.invalidFrameType other)

/-! ## The senders' checks -/

inductive SendCheck where
  | ok
  | exceedsMaxPacketSize (size : Nat)
  | emptyPacket
deriving DecidableEq, Repr

/-- `<Conn as Sink<ClientToRelayMsg>>::start_send`, before the frame is written
(`none` = panic in `encoded_len`). -/
def clientSend (m : ClientToRelayMsg) : Option SendCheck :=
  m.encodedLen.map fun size =>
    if size > maxPacketSize then .exceedsMaxPacketSize size
    else match m with
      | .datagrams _ d => if d.contents.isEmpty then .emptyPacket else .ok
      | _ => .ok

/-- `server::streams::ensure_sendable` (`RelayedStream::start_send`). -/
def serverSend (m : RelayToClientMsg) : Option SendCheck :=
  m.encodedLen.map fun size =>
    if size > maxPacketSize then .exceedsMaxPacketSize size
    else match m with
      | .datagrams _ d => if d.contents.isEmpty then .emptyPacket else .ok
      | _ => .ok

/-! ## The key cache (`key_cache.rs`) and the decoders as they are called: with a cache

`KeyCache` is `Inner::Disabled` (capacity 0) or an `lru::LruCache<PublicKey, ()>` behind a mutex.
The cache is a list of the stored keys, most recently used first.  `key_from_slice`:
disabled → `PublicKey::try_from(slice)`; otherwise a slice that is not 32 bytes long fails
(`expect_err` would panic if `try_from` accepted it); a hit (`get_key_value`, which also moves
the entry to the front) returns the stored key; a miss validates with `PublicKey::from_bytes`,
stores the key only when it is valid (`put`: evicts the least recently used entry when full)
and returns it.  Only successful parses are stored.  Mutex poisoning is not modelled (nothing
panics while the lock is held). -/

structure KeyCache where
  /-- `0` = `Inner::Disabled`. -/
  cap : Nat
  /-- most recently used first -/
  entries : List Bytes
deriving Repr

/-- `KeyCache::new(capacity)`. -/
def KeyCache.new (cap : Nat) : KeyCache := ⟨cap, []⟩

/-- `KeyCache::key_from_slice`. -/
def KeyCache.keyFromSlice (validKey : Bytes → Bool) (c : KeyCache) (slice : Bytes) :
    Res Bytes × KeyCache :=
  if c.cap = 0 then
    ((if validKey slice then .ok slice else rerr .invalidKey), c)
  else if slice.length ≠ 32 then
    ((if validKey slice then .error .panic else rerr .invalidKey), c)
  else
    match c.entries.find? (fun k => k == slice) with
    | some k => (.ok k, { c with entries := k :: c.entries.erase k })
    | none =>
      if validKey slice then (.ok slice, { c with entries := (slice :: c.entries).take c.cap })
      else (rerr .invalidKey, c)

/-- The datagram arm with the cache threaded through. -/
def decodeKeyedDatagramsC (validKey : Bytes → Bool) (c : KeyCache) (content : Bytes)
    (isBatch : Bool) : Res (Bytes × Datagrams) × KeyCache :=
  if content.length < keyLen then (rerr .invalidFrame, c)
  else
    match sliceTo keyLen content with
    | .error f => (.error f, c)
    | .ok slice =>
      match c.keyFromSlice validKey slice with
      | (.error f, c') => (.error f, c')
      | (.ok key, c') =>
        match sliceFrom keyLen content with
        | .error f => (.error f, c')
        | .ok rest =>
          match Datagrams.decode rest isBatch with
          | .error f => (.error f, c')
          | .ok d => (.ok (key, d), c')

/-- `RelayToClientMsg::from_bytes(content, cache, protocol_version)`. -/
def decodeR2CC (validKey : Bytes → Bool) (c : KeyCache) (v : Version) (bs : Bytes) :
    Res RelayToClientMsg × KeyCache :=
  match decodeFrameType bs with
  | .error f => (.error f, c)
  | .ok (t, content) =>
    if content.length > maxPacketSize then (rerr (.tooLarge content.length), c)
    else
      match t with
      | .relayToClientDatagram | .relayToClientDatagramBatch =>
        match decodeKeyedDatagramsC validKey c content (t == .relayToClientDatagramBatch) with
        | (.error f, c') => (.error f, c')
        | (.ok (k, d), c') => (.ok (.datagrams k d), c')
      | .endpointGone =>
        if content.length ≠ keyLen then (rerr .invalidFrame, c)
        else
          match c.keyFromSlice validKey content with
          | (.error f, c') => (.error f, c')
          | (.ok k, c') => (.ok (.endpointGone k), c')
      | .ping =>
        match decodePing content with
        | .error f => (.error f, c)
        | .ok d => (.ok (.ping d), c)
      | .pong =>
        match decodePing content with
        | .error f => (.error f, c)
        | .ok d => (.ok (.pong d), c)
      | .health =>
        if v ≠ .v1 then (rerr .notAllowedInVersion, c)
        else if !utf8Valid content then (rerr .invalidUtf8, c)
        else (.ok (.health content), c)
      | .restarting =>
        match decodeRestarting content with
        | .error f => (.error f, c)
        | .ok (a, b) => (.ok (.restarting a b), c)
      | .status =>
        if v ≠ .v2 then (rerr .notAllowedInVersion, c)
        else
          match Status.decode content with
          | .error f => (.error f, c)
          | .ok s => (.ok (.status s), c)
      | other => (rerr (.invalidFrameType other), c)

/-- `ClientToRelayMsg::from_bytes(content, cache)`. -/
def decodeC2RC (validKey : Bytes → Bool) (c : KeyCache) (bs : Bytes) :
    Res ClientToRelayMsg × KeyCache :=
  match decodeFrameType bs with
  | .error f => (.error f, c)
  | .ok (t, content) =>
    if content.length > maxPacketSize then (rerr (.tooLarge content.length), c)
    else
      match t with
      | .clientToRelayDatagram | .clientToRelayDatagramBatch =>
        match decodeKeyedDatagramsC validKey c content (t == .clientToRelayDatagramBatch) with
        | (.error f, c') => (.error f, c')
        | (.ok (k, d), c') => (.ok (.datagrams k d), c')
      | .ping =>
        match decodePing content with
        | .error f => (.error f, c)
        | .ok d => (.ok (.ping d), c)
      | .pong =>
        match decodePing content with
        | .error f => (.error f, c)
        | .ok d => (.ok (.pong d), c)
      | other => (rerr (.invalidFrameType other), c)

/-- A frame handed to one of the two decoders. -/
inductive Frame where
  | r2c (v : Version) (bs : Bytes)
  | c2r (bs : Bytes)
deriving Repr

inductive Decoded where
  | r2c (r : Res RelayToClientMsg)
  | c2r (r : Res ClientToRelayMsg)

/-- Decoding without a cache (`validKey` asked directly). -/
def decodeFrame (validKey : Bytes → Bool) : Frame → Decoded
  | .r2c v bs => .r2c (decodeR2C validKey v bs)
  | .c2r bs => .c2r (decodeC2R validKey bs)

/-- Decoding through a cache. -/
def decodeFrameC (validKey : Bytes → Bool) (c : KeyCache) : Frame → Decoded × KeyCache
  | .r2c v bs => let r := decodeR2CC validKey c v bs; (.r2c r.1, r.2)
  | .c2r bs => let r := decodeC2RC validKey c bs; (.c2r r.1, r.2)

/-- A history: frames decoded one after the other through the same cache. -/
def runCached (validKey : Bytes → Bool) (c : KeyCache) : List Frame → List Decoded × KeyCache
  | [] => ([], c)
  | f :: fs =>
    let r := decodeFrameC validKey c f
    let rest := runCached validKey r.2 fs
    (r.1 :: rest.1, rest.2)

end IrohModel.C10
