/-
C10 — helper definitions (well-formedness predicates used by the statements)
and lemmas: varint, frame type, per-arm round trips, per-arm absence of panics.
-/
import IrohModel.C10.Model

namespace IrohModel.C10
open Generated.C10

/-! ## Predicates of the statements -/

/-- A key value of the Rust types: 32 bytes that `PublicKey::try_from` accepts. -/
def KeyOk (validKey : Bytes → Bool) (k : Bytes) : Prop := k.length = 32 ∧ validKey k = true

/-- `Option<NonZeroU16>`. -/
def Datagrams.WF (d : Datagrams) : Prop := ∀ s, d.segmentSize = some s → 1 ≤ s ∧ s ≤ 65535

/-- `Status::Unknown(u8)`. -/
def Status.TypeInv : Status → Prop
  | .unknown n => n < 256
  | _ => True

/-- A status is within the wire format's range when `Unknown(n)` does not use the code of a
named status (those decode to the named status). -/
def Status.InRange : Status → Prop
  | .unknown n => n ≠ stHealthyDec ∧ n ≠ stSameDec ∧ n ≠ stRateLimitedDec
  | _ => True

/-- Values the Rust type `RelayToClientMsg` can hold. -/
def RelayToClientMsg.TypeInv (validKey : Bytes → Bool) : RelayToClientMsg → Prop
  | .datagrams k d => KeyOk validKey k ∧ d.WF
  | .endpointGone k => KeyOk validKey k
  | .status s => s.TypeInv
  | .restarting _ _ => True
  | .ping d => d.length = 8
  | .pong d => d.length = 8
  | .health p => utf8Valid p = true

/-- Fields within the wire format's ranges: durations are whole milliseconds below 2³²,
status codes are in range. -/
def RelayToClientMsg.InRange : RelayToClientMsg → Prop
  | .restarting a b => a % 1000000 = 0 ∧ a / 1000000 < 2 ^ 32 ∧ b % 1000000 = 0 ∧ b / 1000000 < 2 ^ 32
  | .status s => s.InRange
  | _ => True

/-- The payload is within the decoder's frame size limit. -/
def RelayToClientMsg.Fits (m : RelayToClientMsg) : Prop := m.payload.length ≤ maxPacketSize

/-- Frame allowed in protocol version `v`: `Health` only in v1, `Status` only from v2. -/
def RelayToClientMsg.Allowed : RelayToClientMsg → Version → Prop
  | .health _, v => v = .v1
  | .status _, v => v = .v2
  | _, _ => True

/-- Values the Rust type `ClientToRelayMsg` can hold. -/
def ClientToRelayMsg.TypeInv (validKey : Bytes → Bool) : ClientToRelayMsg → Prop
  | .datagrams k d => KeyOk validKey k ∧ d.WF
  | .ping d => d.length = 8
  | .pong d => d.length = 8

def ClientToRelayMsg.Fits (m : ClientToRelayMsg) : Prop := m.payload.length ≤ maxPacketSize

/-- `Status::from_bytes` on a status code. -/
def statusOfCode (c : Nat) : Status :=
  if c = stHealthyDec then .healthy
  else if c = stSameDec then .sameEndpointIdConnected
  else if c = stRateLimitedDec then .rateLimited
  else .unknown c

/-- What a relay→client message turns into on the wire and back: durations are truncated to
whole milliseconds modulo 2³², status codes are re-read. -/
def RelayToClientMsg.normalize : RelayToClientMsg → RelayToClientMsg
  | .restarting a b => .restarting (millisU32 a * 1000000) (millisU32 b * 1000000)
  | .status s => .status (statusOfCode s.code)
  | m => m

/-! ## Bytes and varints -/

theorem u8_toNat (n : Nat) (h : n < 256) : (u8 n).toNat = n := by
  unfold u8
  rw [UInt8.toNat_ofNat']
  omega

theorem decodeVarint_encodeVarint (x : Nat) (hx : x < 2 ^ 62) (rest : Bytes) :
    decodeVarint (encodeVarint x ++ rest) = some (x, rest) := by
  unfold encodeVarint
  by_cases h1 : x < 2 ^ 6
  · simp only [h1, if_true, List.cons_append, List.nil_append, decodeVarint]
    rw [u8_toNat x (by omega)]
    have h0 : x / 64 = 0 := by omega
    simp only [h0]
    congr 2
    omega
  · by_cases h2 : x < 2 ^ 14
    · simp only [h1, h2, if_true, if_false, List.cons_append, List.nil_append, decodeVarint]
      rw [u8_toNat (64 + x / 256) (by omega)]
      have h0 : (64 + x / 256) / 64 = 1 := by omega
      simp only [h0]
      rw [u8_toNat (x % 256) (by omega)]
      congr 2
      omega
    · by_cases h3 : x < 2 ^ 30
      · simp only [h1, h2, h3, if_true, if_false, List.cons_append, List.nil_append, decodeVarint]
        rw [u8_toNat (128 + x / 2 ^ 24) (by omega)]
        have h0 : (128 + x / 2 ^ 24) / 64 = 2 := by omega
        simp only [h0]
        rw [u8_toNat (x / 2 ^ 16 % 256) (by omega), u8_toNat (x / 2 ^ 8 % 256) (by omega),
          u8_toNat (x % 256) (by omega)]
        congr 2
        omega
      · simp only [h1, h2, h3, if_false, List.cons_append, List.nil_append, decodeVarint]
        rw [u8_toNat (192 + x / 2 ^ 56 % 64) (by omega)]
        have h0 : (192 + x / 2 ^ 56 % 64) / 64 = 3 := by omega
        simp only [h0]
        rw [u8_toNat (x / 2 ^ 48 % 256) (by omega), u8_toNat (x / 2 ^ 40 % 256) (by omega),
          u8_toNat (x / 2 ^ 32 % 256) (by omega), u8_toNat (x / 2 ^ 24 % 256) (by omega),
          u8_toNat (x / 2 ^ 16 % 256) (by omega), u8_toNat (x / 2 ^ 8 % 256) (by omega),
          u8_toNat (x % 256) (by omega)]
        congr 2
        omega

theorem encodeVarint_length (x : Nat) : (encodeVarint x).length = varintSize x := by
  unfold encodeVarint varintSize
  split
  · rfl
  · split
    · rfl
    · split <;> rfl

/-! ## Frame types -/

theorem FrameType.ofNat?_toNat (t : FrameType) : FrameType.ofNat? t.toNat = some t := by
  cases t <;> rfl

theorem FrameType.toNat_lt (t : FrameType) : t.toNat < 2 ^ 6 := by
  cases t <;> decide

theorem FrameType.encode_eq (t : FrameType) : t.encode = [u8 t.toNat] := by
  unfold FrameType.encode encodeVarint
  simp [t.toNat_lt]

theorem FrameType.encode_length (t : FrameType) : t.encode.length = 1 := by
  rw [t.encode_eq]; rfl

theorem FrameType.encodedLen_eq (t : FrameType) : t.encodedLen = some 1 := by
  unfold FrameType.encodedLen
  simp [t.toNat_lt]

theorem decodeFrameType_encode (t : FrameType) (rest : Bytes) :
    decodeFrameType (t.encode ++ rest) = .ok (t, rest) := by
  have hlt := t.toNat_lt
  unfold decodeFrameType FrameType.encode
  rw [decodeVarint_encodeVarint t.toNat (by omega) rest]
  have : ¬ t.toNat ≥ 2 ^ 32 := by omega
  simp only [this, if_false, FrameType.ofNat?_toNat]

/-! ## Absence of panics, arm by arm -/

theorem decodeFrameType_no_panic (bs : Bytes) : decodeFrameType bs ≠ .error .panic := by
  unfold decodeFrameType rerr
  split
  · simp
  · split
    · simp
    · split <;> simp

theorem Datagrams.decode_no_panic (bs : Bytes) (isBatch : Bool) :
    Datagrams.decode bs isBatch ≠ .error .panic := by
  unfold Datagrams.decode rerr
  cases isBatch with
  | false =>
    cases bs with
    | nil => simp
    | cons b r => simp [getU8]
  | true =>
    match bs with
    | [] => simp
    | [_] => simp
    | [_, _] => simp
    | a :: b :: c :: r =>
      have : ¬ (r.length + 1 + 1 + 1 < 3) := by omega
      simp [getU8, getU16, this]

theorem decodeKeyedDatagrams_no_panic (vk : Bytes → Bool) (content : Bytes) (isBatch : Bool) :
    decodeKeyedDatagrams vk content isBatch ≠ .error .panic := by
  unfold decodeKeyedDatagrams rerr sliceTo sliceFrom
  by_cases h : content.length < keyLen
  · simp [h]
  · have h' : keyLen ≤ content.length := by omega
    simp only [h, if_false, h', if_true]
    split
    · simp
    · have := Datagrams.decode_no_panic (List.drop keyLen content) isBatch
      split
      · next f hf => intro e; injection e with e; subst e; exact this hf
      · simp

theorem decodePing_no_panic (content : Bytes) : decodePing content ≠ .error .panic := by
  unfold decodePing rerr sliceTo copyExact
  by_cases h : content.length ≠ pingDecLen
  · simp [h]
  · have h' : content.length = 8 := by simp only [pingDecLen] at h; omega
    simp [h', pingDecLen]

theorem u32OfSlice_no_panic (s : Bytes) : u32OfSlice s ≠ .error .panic := by
  unfold u32OfSlice rerr
  split <;> simp

theorem decodeRestarting_no_panic (content : Bytes) : decodeRestarting content ≠ .error .panic := by
  unfold decodeRestarting rerr sliceTo sliceFrom
  by_cases h : content.length ≠ 4 + 4
  · simp [h]
  · have h' : content.length = 8 := by omega
    simp only [h', show ¬ (8 ≠ 4 + 4) by omega, if_false, show 4 ≤ 8 by omega, if_true]
    have h1 := u32OfSlice_no_panic (List.take 4 content)
    have h2 := u32OfSlice_no_panic (List.drop 4 content)
    split
    · next f hf => intro e; injection e with e; subst e; exact h1 hf
    · split
      · next f hf => intro e; injection e with e; subst e; exact h2 hf
      · simp

theorem Status.decode_no_panic (content : Bytes) : Status.decode content ≠ .error .panic := by
  unfold Status.decode rerr
  cases content with
  | nil => simp
  | cons b r =>
    simp only [List.isEmpty_cons, Bool.false_eq_true, if_false, getU8]
    split <;> (try split) <;> (try split) <;> simp

/-! ## Round trips, arm by arm -/

theorem ecnFromBits_bits (e : Option Ecn) : ecnFromBits (u8 (ecnBits e)) = e := by
  cases e with
  | none => rfl
  | some c => cases c <;> rfl

theorem Datagrams.decode_encode (d : Datagrams) (h : d.WF) :
    Datagrams.decode d.encode d.segmentSize.isSome = .ok d := by
  obtain ⟨ecn, seg, contents⟩ := d
  cases seg with
  | none =>
    simp [Datagrams.decode, Datagrams.encode, getU8, ecnFromBits_bits]
  | some s =>
    obtain ⟨h1, h2⟩ := h s rfl
    have e1 : (u8 (s / 256)).toNat = s / 256 := u8_toNat _ (by omega)
    have e2 : (u8 (s % 256)).toNat = s % 256 := u8_toNat _ (by omega)
    have e3 : s / 256 * 256 + s % 256 = s := by omega
    have e4 : ¬ s = 0 := by omega
    have e5 : ¬ (List.length contents + 1 + 1 + 1 < 3) := by omega
    simp [Datagrams.decode, Datagrams.encode, u16be, getU8, getU16, ecnFromBits_bits, e1, e2, e3, e4, e5]

theorem Datagrams.encode_length (d : Datagrams) : d.encode.length = d.encodedLen := by
  obtain ⟨ecn, seg, contents⟩ := d
  cases seg <;> simp [Datagrams.encode, Datagrams.encodedLen, u16be] <;> omega

theorem decodeKeyedDatagrams_encode (vk : Bytes → Bool) (k : Bytes) (d : Datagrams)
    (hk : KeyOk vk k) (hd : d.WF) :
    decodeKeyedDatagrams vk (k ++ d.encode) d.segmentSize.isSome = .ok (k, d) := by
  obtain ⟨hlen, hvalid⟩ := hk
  have hkl : k.length = keyLen := hlen
  unfold decodeKeyedDatagrams sliceTo sliceFrom
  have h1 : ¬ (k ++ d.encode).length < keyLen := by
    rw [List.length_append]; omega
  have h2 : keyLen ≤ (k ++ d.encode).length := by omega
  simp only [h1, if_false, h2, if_true, List.take_left' hkl, List.drop_left' hkl, hvalid,
    Bool.not_true, Bool.false_eq_true, Datagrams.decode_encode d hd]

theorem decodePing_ok (data : Bytes) (h : data.length = 8) : decodePing data = .ok data := by
  unfold decodePing sliceTo copyExact
  simp [h, pingDecLen, List.take_of_length_le (show data.length ≤ 8 by omega)]

theorem u32OfSlice_u32be (n : Nat) (h : n < 2 ^ 32) : u32OfSlice (u32be n) = .ok n := by
  unfold u32OfSlice u32be
  simp only
  rw [u8_toNat _ (by omega), u8_toNat _ (by omega), u8_toNat _ (by omega), u8_toNat _ (by omega)]
  congr 1
  omega

theorem decodeRestarting_encode (a b : Nat) (ha : a < 2 ^ 32) (hb : b < 2 ^ 32) :
    decodeRestarting (u32be a ++ u32be b) = .ok (a * 1000000, b * 1000000) := by
  have hl : (u32be a).length = 4 := rfl
  unfold decodeRestarting sliceTo sliceFrom
  have h1 : (u32be a ++ u32be b).length = 8 := rfl
  simp only [h1, show ¬ (8 ≠ 4 + 4) by omega, if_false, show 4 ≤ 8 by omega, if_true,
    List.take_left' hl, List.drop_left' hl, u32OfSlice_u32be a ha, u32OfSlice_u32be b hb]

theorem millisU32_lt (ns : Nat) : millisU32 ns < 2 ^ 32 := by
  unfold millisU32; omega

theorem Status.code_lt (s : Status) (h : s.TypeInv) : s.code < 256 := by
  cases s with
  | unknown n => exact h
  | _ => decide

theorem Status.decode_code (c : Nat) (hc : c < 256) (rest : Bytes) :
    Status.decode (u8 c :: rest) = .ok (statusOfCode c) := by
  unfold Status.decode statusOfCode
  simp only [List.isEmpty_cons, Bool.false_eq_true, if_false, getU8, u8_toNat c hc]
  split <;> (try split) <;> (try split) <;> rfl

theorem statusOfCode_code (s : Status) (h : s.InRange) : statusOfCode s.code = s := by
  cases s with
  | unknown n =>
    obtain ⟨h1, h2, h3⟩ := h
    simp [statusOfCode, Status.code, h1, h2, h3]
  | _ => rfl

theorem normalize_of_inRange (m : RelayToClientMsg) (h : m.InRange) : m.normalize = m := by
  cases m with
  | restarting a b =>
    obtain ⟨h1, h2, h3, h4⟩ := h
    simp only [RelayToClientMsg.normalize, millisU32]
    congr 1 <;> omega
  | status s =>
    simp only [RelayToClientMsg.normalize, statusOfCode_code s h]
  | _ => rfl

/-! ## The key cache -/

/-- Invariant of the cache: every stored key is one `validKey` accepts, and the number of
stored keys is within the capacity. -/
def KeyCache.Inv (vk : Bytes → Bool) (c : KeyCache) : Prop :=
  (∀ k ∈ c.entries, vk k = true) ∧ c.entries.length ≤ c.cap

theorem KeyCache.new_inv (vk : Bytes → Bool) (cap : Nat) : (KeyCache.new cap).Inv vk :=
  ⟨(by intro k hk; cases hk), Nat.zero_le _⟩

/-- What the uncached decoders do with a key slice. -/
def directKey (vk : Bytes → Bool) (slice : Bytes) : Res Bytes :=
  if vk slice then .ok slice else rerr .invalidKey

theorem KeyCache.keyFromSlice_spec (vk : Bytes → Bool) (c : KeyCache) (slice : Bytes)
    (hlen : slice.length = 32) (hinv : c.Inv vk) :
    (c.keyFromSlice vk slice).1 = directKey vk slice ∧
    (c.keyFromSlice vk slice).2.Inv vk ∧ (c.keyFromSlice vk slice).2.cap = c.cap := by
  obtain ⟨hvalid, hbound⟩ := hinv
  unfold KeyCache.keyFromSlice directKey
  by_cases h0 : c.cap = 0
  · rw [if_pos h0]
    exact ⟨rfl, ⟨hvalid, hbound⟩, rfl⟩
  · have hl : ¬ slice.length ≠ 32 := by omega
    rw [if_neg h0, if_neg hl]
    cases hf : c.entries.find? (fun k => k == slice) with
    | some k =>
      dsimp only
      have hmem : k ∈ c.entries := List.mem_of_find?_eq_some hf
      have heq : k = slice := by
        have := List.find?_some hf
        simpa using this
      have hvk : vk slice = true := heq ▸ hvalid k hmem
      rw [if_pos hvk]
      refine ⟨by rw [heq], ⟨?_, ?_⟩, rfl⟩
      · intro k' hk'
        rcases List.mem_cons.mp hk' with e | e
        · rw [e]; exact hvalid k hmem
        · exact hvalid k' (List.mem_of_mem_erase e)
      · show (k :: c.entries.erase k).length ≤ c.cap
        rw [List.length_cons, List.length_erase_of_mem hmem]
        have : 0 < c.entries.length := List.length_pos_of_mem hmem
        omega
    | none =>
      dsimp only
      by_cases hvk : vk slice = true
      · rw [if_pos hvk, if_pos hvk]
        refine ⟨rfl, ⟨?_, ?_⟩, rfl⟩
        · intro k' hk'
          have := List.mem_of_mem_take hk'
          rcases List.mem_cons.mp this with e | e
          · rw [e]; exact hvk
          · exact hvalid k' e
        · show ((slice :: c.entries).take c.cap).length ≤ c.cap
          rw [List.length_take]; omega
      · rw [if_neg hvk, if_neg hvk]
        exact ⟨rfl, ⟨hvalid, hbound⟩, rfl⟩

theorem decodeKeyedDatagramsC_spec (vk : Bytes → Bool) (c : KeyCache) (content : Bytes)
    (isBatch : Bool) (hinv : c.Inv vk) :
    (decodeKeyedDatagramsC vk c content isBatch).1 = decodeKeyedDatagrams vk content isBatch ∧
    (decodeKeyedDatagramsC vk c content isBatch).2.Inv vk ∧
    (decodeKeyedDatagramsC vk c content isBatch).2.cap = c.cap := by
  unfold decodeKeyedDatagramsC decodeKeyedDatagrams
  by_cases hshort : content.length < keyLen
  · rw [if_pos hshort, if_pos hshort]
    exact ⟨rfl, hinv, rfl⟩
  · rw [if_neg hshort, if_neg hshort]
    have hle : keyLen ≤ content.length := by omega
    have hst : sliceTo keyLen content = .ok (content.take keyLen) := by
      unfold sliceTo; rw [if_pos hle]
    have hsf : sliceFrom keyLen content = .ok (content.drop keyLen) := by
      unfold sliceFrom; rw [if_pos hle]
    rw [hst, hsf]
    dsimp only
    have hl32 : (content.take keyLen).length = 32 := by
      rw [List.length_take]; simp only [keyLen] at hle ⊢; omega
    obtain ⟨h1, h2, h3⟩ := KeyCache.keyFromSlice_spec vk c (content.take keyLen) hl32 hinv
    rcases hk : c.keyFromSlice vk (content.take keyLen) with ⟨r, c'⟩
    rw [hk] at h1 h2 h3
    dsimp only at h1 h2 h3 ⊢
    subst h1
    unfold directKey
    by_cases hv : vk (content.take keyLen) = true
    · rw [if_pos hv]
      simp only [hv, Bool.not_true, Bool.false_eq_true, if_false]
      cases hd : Datagrams.decode (content.drop keyLen) isBatch with
      | error f => exact ⟨rfl, h2, h3⟩
      | ok d => exact ⟨rfl, h2, h3⟩
    · rw [if_neg hv]
      have hv' : vk (content.take keyLen) = false := by
        cases h : vk (content.take keyLen) with
        | true => exact absurd h hv
        | false => rfl
      simp only [hv', Bool.not_false, if_true, rerr]
      exact ⟨trivial, h2, h3⟩

theorem decodeR2CC_spec (vk : Bytes → Bool) (c : KeyCache) (v : Version) (bs : Bytes)
    (hinv : c.Inv vk) :
    (decodeR2CC vk c v bs).1 = decodeR2C vk v bs ∧ (decodeR2CC vk c v bs).2.Inv vk ∧
    (decodeR2CC vk c v bs).2.cap = c.cap := by
  unfold decodeR2CC decodeR2C
  cases hft : decodeFrameType bs with
  | error f => exact ⟨rfl, hinv, rfl⟩
  | ok tc =>
    obtain ⟨t, content⟩ := tc
    dsimp only
    by_cases hbig : content.length > maxPacketSize
    · rw [if_pos hbig, if_pos hbig]; exact ⟨rfl, hinv, rfl⟩
    · rw [if_neg hbig, if_neg hbig]
      cases t with
      | relayToClientDatagram =>
        dsimp only
        obtain ⟨h1, h2, h3⟩ := decodeKeyedDatagramsC_spec vk c content
          (FrameType.relayToClientDatagram == .relayToClientDatagramBatch) hinv
        rcases hk : decodeKeyedDatagramsC vk c content
          (FrameType.relayToClientDatagram == .relayToClientDatagramBatch) with ⟨r, c'⟩
        rw [hk] at h1 h2 h3
        dsimp only at h1 h2 h3 ⊢
        rw [← h1]
        cases r with
        | error f => exact ⟨rfl, h2, h3⟩
        | ok kd => obtain ⟨k, d⟩ := kd; exact ⟨rfl, h2, h3⟩
      | relayToClientDatagramBatch =>
        dsimp only
        obtain ⟨h1, h2, h3⟩ := decodeKeyedDatagramsC_spec vk c content
          (FrameType.relayToClientDatagramBatch == .relayToClientDatagramBatch) hinv
        rcases hk : decodeKeyedDatagramsC vk c content
          (FrameType.relayToClientDatagramBatch == .relayToClientDatagramBatch) with ⟨r, c'⟩
        rw [hk] at h1 h2 h3
        dsimp only at h1 h2 h3 ⊢
        rw [← h1]
        cases r with
        | error f => exact ⟨rfl, h2, h3⟩
        | ok kd => obtain ⟨k, d⟩ := kd; exact ⟨rfl, h2, h3⟩
      | endpointGone =>
        dsimp only
        by_cases hl : content.length ≠ keyLen
        · rw [if_pos hl, if_pos hl]; exact ⟨rfl, hinv, rfl⟩
        · rw [if_neg hl, if_neg hl]
          have hl32 : content.length = 32 := by simp only [keyLen] at hl; omega
          obtain ⟨h1, h2, h3⟩ := KeyCache.keyFromSlice_spec vk c content hl32 hinv
          rcases hk : c.keyFromSlice vk content with ⟨r, c'⟩
          rw [hk] at h1 h2 h3
          dsimp only at h1 h2 h3 ⊢
          subst h1
          unfold directKey
          cases hv : vk content with
          | true => exact ⟨rfl, h2, h3⟩
          | false => exact ⟨rfl, h2, h3⟩
      | ping =>
        dsimp only
        cases decodePing content with
        | error f => exact ⟨rfl, hinv, rfl⟩
        | ok d => exact ⟨rfl, hinv, rfl⟩
      | pong =>
        dsimp only
        cases decodePing content with
        | error f => exact ⟨rfl, hinv, rfl⟩
        | ok d => exact ⟨rfl, hinv, rfl⟩
      | health =>
        dsimp only
        by_cases hv : v ≠ .v1
        · rw [if_pos hv, if_pos hv]; exact ⟨rfl, hinv, rfl⟩
        · rw [if_neg hv, if_neg hv]
          cases hu : utf8Valid content with
          | true => exact ⟨rfl, hinv, rfl⟩
          | false => exact ⟨rfl, hinv, rfl⟩
      | restarting =>
        dsimp only
        cases decodeRestarting content with
        | error f => exact ⟨rfl, hinv, rfl⟩
        | ok ab => obtain ⟨a, b⟩ := ab; exact ⟨rfl, hinv, rfl⟩
      | status =>
        dsimp only
        by_cases hv : v ≠ .v2
        · rw [if_pos hv, if_pos hv]; exact ⟨rfl, hinv, rfl⟩
        · rw [if_neg hv, if_neg hv]
          cases Status.decode content with
          | error f => exact ⟨rfl, hinv, rfl⟩
          | ok s => exact ⟨rfl, hinv, rfl⟩
      | _ => exact ⟨rfl, hinv, rfl⟩

theorem decodeC2RC_spec (vk : Bytes → Bool) (c : KeyCache) (bs : Bytes) (hinv : c.Inv vk) :
    (decodeC2RC vk c bs).1 = decodeC2R vk bs ∧ (decodeC2RC vk c bs).2.Inv vk ∧
    (decodeC2RC vk c bs).2.cap = c.cap := by
  unfold decodeC2RC decodeC2R
  cases hft : decodeFrameType bs with
  | error f => exact ⟨rfl, hinv, rfl⟩
  | ok tc =>
    obtain ⟨t, content⟩ := tc
    dsimp only
    by_cases hbig : content.length > maxPacketSize
    · rw [if_pos hbig, if_pos hbig]; exact ⟨rfl, hinv, rfl⟩
    · rw [if_neg hbig, if_neg hbig]
      cases t with
      | clientToRelayDatagram =>
        dsimp only
        obtain ⟨h1, h2, h3⟩ := decodeKeyedDatagramsC_spec vk c content
          (FrameType.clientToRelayDatagram == .clientToRelayDatagramBatch) hinv
        rcases hk : decodeKeyedDatagramsC vk c content
          (FrameType.clientToRelayDatagram == .clientToRelayDatagramBatch) with ⟨r, c'⟩
        rw [hk] at h1 h2 h3
        dsimp only at h1 h2 h3 ⊢
        rw [← h1]
        cases r with
        | error f => exact ⟨rfl, h2, h3⟩
        | ok kd => obtain ⟨k, d⟩ := kd; exact ⟨rfl, h2, h3⟩
      | clientToRelayDatagramBatch =>
        dsimp only
        obtain ⟨h1, h2, h3⟩ := decodeKeyedDatagramsC_spec vk c content
          (FrameType.clientToRelayDatagramBatch == .clientToRelayDatagramBatch) hinv
        rcases hk : decodeKeyedDatagramsC vk c content
          (FrameType.clientToRelayDatagramBatch == .clientToRelayDatagramBatch) with ⟨r, c'⟩
        rw [hk] at h1 h2 h3
        dsimp only at h1 h2 h3 ⊢
        rw [← h1]
        cases r with
        | error f => exact ⟨rfl, h2, h3⟩
        | ok kd => obtain ⟨k, d⟩ := kd; exact ⟨rfl, h2, h3⟩
      | ping =>
        dsimp only
        cases decodePing content with
        | error f => exact ⟨rfl, hinv, rfl⟩
        | ok d => exact ⟨rfl, hinv, rfl⟩
      | pong =>
        dsimp only
        cases decodePing content with
        | error f => exact ⟨rfl, hinv, rfl⟩
        | ok d => exact ⟨rfl, hinv, rfl⟩
      | _ => exact ⟨rfl, hinv, rfl⟩

theorem decodeFrameC_spec (vk : Bytes → Bool) (c : KeyCache) (f : Frame) (hinv : c.Inv vk) :
    (decodeFrameC vk c f).1 = decodeFrame vk f ∧ (decodeFrameC vk c f).2.Inv vk ∧
    (decodeFrameC vk c f).2.cap = c.cap := by
  cases f with
  | r2c v bs =>
    obtain ⟨h1, h2, h3⟩ := decodeR2CC_spec vk c v bs hinv
    exact ⟨by simp only [decodeFrameC, decodeFrame, h1], h2, h3⟩
  | c2r bs =>
    obtain ⟨h1, h2, h3⟩ := decodeC2RC_spec vk c bs hinv
    exact ⟨by simp only [decodeFrameC, decodeFrame, h1], h2, h3⟩

theorem runCached_spec (vk : Bytes → Bool) :
    ∀ (fs : List Frame) (c : KeyCache), c.Inv vk →
      (runCached vk c fs).1 = fs.map (decodeFrame vk) ∧ (runCached vk c fs).2.Inv vk ∧
      (runCached vk c fs).2.cap = c.cap := by
  intro fs
  induction fs with
  | nil => intro c hinv; exact ⟨rfl, hinv, rfl⟩
  | cons f fs ih =>
    intro c hinv
    obtain ⟨h1, h2, h3⟩ := decodeFrameC_spec vk c f hinv
    obtain ⟨i1, i2, i3⟩ := ih (decodeFrameC vk c f).2 h2
    refine ⟨?_, i2, by rw [← h3]; exact i3⟩
    simp only [runCached, List.map_cons, h1, i1]

end IrohModel.C10
