/-
C10 — helper definitions (well-formedness predicates used by the statements)
and lemmas: varint, frame type, per-arm round trips, per-arm absence of panics.
-/
import IrohModel.C10.Model

namespace IrohModel.C10
open Generated.C10

/-! ## Predicates of the statements -/

/-- A key value of the Rust types: 32 bytes that `PublicKey::try_from` accepts. -/
def KeyOk (validKey : Bytes → Bool) (k : Bytes) : Prop := k.length = 32 ∧ validKey k = true

/-- `Option<NonZeroU16>`. -/
def Datagrams.WF (d : Datagrams) : Prop := ∀ s, d.segmentSize = some s → 1 ≤ s ∧ s ≤ 65535

/-- `Status::Unknown(u8)`. -/
def Status.TypeInv : Status → Prop
  | .unknown n => n < 256
  | _ => True

/-- A status is within the wire format's range when `Unknown(n)` does not use the code of a
named status (those decode to the named status). -/
def Status.InRange : Status → Prop
  | .unknown n => n ≠ stHealthyDec ∧ n ≠ stSameDec ∧ n ≠ stRateLimitedDec
  | _ => True

/-- Values the Rust type `RelayToClientMsg` can hold. -/
def RelayToClientMsg.TypeInv (validKey : Bytes → Bool) : RelayToClientMsg → Prop
  | .datagrams k d => KeyOk validKey k ∧ d.WF
  | .endpointGone k => KeyOk validKey k
  | .status s => s.TypeInv
  | .restarting _ _ => True
  | .ping d => d.length = 8
  | .pong d => d.length = 8
  | .health p => utf8Valid p = true

/-- Fields within the wire format's ranges: durations are whole milliseconds below 2³²,
status codes are in range. -/
def RelayToClientMsg.InRange : RelayToClientMsg → Prop
  | .restarting a b => a % 1000000 = 0 ∧ a / 1000000 < 2 ^ 32 ∧ b % 1000000 = 0 ∧ b / 1000000 < 2 ^ 32
  | .status s => s.InRange
  | _ => True

/-- The payload is within the decoder's frame size limit. -/
def RelayToClientMsg.Fits (m : RelayToClientMsg) : Prop := m.payload.length ≤ maxPacketSize

/-- Frame allowed in protocol version `v`: `Health` only in v1, `Status` only from v2. -/
def RelayToClientMsg.Allowed : RelayToClientMsg → Version → Prop
  | .health _, v => v = .v1
  | .status _, v => v = .v2
  | _, _ => True

/-- Values the Rust type `ClientToRelayMsg` can hold. -/
def ClientToRelayMsg.TypeInv (validKey : Bytes → Bool) : ClientToRelayMsg → Prop
  | .datagrams k d => KeyOk validKey k ∧ d.WF
  | .ping d => d.length = 8
  | .pong d => d.length = 8

def ClientToRelayMsg.Fits (m : ClientToRelayMsg) : Prop := m.payload.length ≤ maxPacketSize

/-- `Status::from_bytes` on a status code. -/
def statusOfCode (c : Nat) : Status :=
  if c = stHealthyDec then .healthy
  else if c = stSameDec then .sameEndpointIdConnected
  else if c = stRateLimitedDec then .rateLimited
  else .unknown c

/-- What a relay→client message turns into on the wire and back: durations are truncated to
whole milliseconds modulo 2³², status codes are re-read. -/
def RelayToClientMsg.normalize : RelayToClientMsg → RelayToClientMsg
  | .restarting a b => .restarting (millisU32 a * 1000000) (millisU32 b * 1000000)
  | .status s => .status (statusOfCode s.code)
  | m => m

/-! ## Bytes and varints -/

theorem u8_toNat (n : Nat) (h : n < 256) : (u8 n).toNat = n := by
  unfold u8
  rw [UInt8.toNat_ofNat']
  omega

theorem decodeVarint_encodeVarint (x : Nat) (hx : x < 2 ^ 62) (rest : Bytes) :
    decodeVarint (encodeVarint x ++ rest) = some (x, rest) := by
  unfold encodeVarint
  by_cases h1 : x < 2 ^ 6
  · simp only [h1, if_true, List.cons_append, List.nil_append, decodeVarint]
    rw [u8_toNat x (by omega)]
    have h0 : x / 64 = 0 := by omega
    simp only [h0]
    congr 2
    omega
  · by_cases h2 : x < 2 ^ 14
    · simp only [h1, h2, if_true, if_false, List.cons_append, List.nil_append, decodeVarint]
      rw [u8_toNat (64 + x / 256) (by omega)]
      have h0 : (64 + x / 256) / 64 = 1 := by omega
      simp only [h0]
      rw [u8_toNat (x % 256) (by omega)]
      congr 2
      omega
    · by_cases h3 : x < 2 ^ 30
      · simp only [h1, h2, h3, if_true, if_false, List.cons_append, List.nil_append, decodeVarint]
        rw [u8_toNat (128 + x / 2 ^ 24) (by omega)]
        have h0 : (128 + x / 2 ^ 24) / 64 = 2 := by omega
        simp only [h0]
        rw [u8_toNat (x / 2 ^ 16 % 256) (by omega), u8_toNat (x / 2 ^ 8 % 256) (by omega),
          u8_toNat (x % 256) (by omega)]
        congr 2
        omega
      · simp only [h1, h2, h3, if_false, List.cons_append, List.nil_append, decodeVarint]
        rw [u8_toNat (192 + x / 2 ^ 56 % 64) (by omega)]
        have h0 : (192 + x / 2 ^ 56 % 64) / 64 = 3 := by omega
        simp only [h0]
        rw [u8_toNat (x / 2 ^ 48 % 256) (by omega), u8_toNat (x / 2 ^ 40 % 256) (by omega),
          u8_toNat (x / 2 ^ 32 % 256) (by omega), u8_toNat (x / 2 ^ 24 % 256) (by omega),
          u8_toNat (x / 2 ^ 16 % 256) (by omega), u8_toNat (x / 2 ^ 8 % 256) (by omega),
          u8_toNat (x % 256) (by omega)]
        congr 2
        omega

theorem encodeVarint_length (x : Nat) : (encodeVarint x).length = varintSize x := by
  unfold encodeVarint varintSize
  split
  · rfl
  · split
    · rfl
    · split <;> rfl

/-! ## Frame types -/

theorem FrameType.ofNat?_toNat (t : FrameType) : FrameType.ofNat? t.toNat = some t := by
  cases t <;> rfl

theorem FrameType.toNat_lt (t : FrameType) : t.toNat < 2 ^ 6 := by
  cases t <;> decide

theorem FrameType.encode_eq (t : FrameType) : t.encode = [u8 t.toNat] := by
  unfold FrameType.encode encodeVarint
  simp [t.toNat_lt]

theorem FrameType.encode_length (t : FrameType) : t.encode.length = 1 := by
  rw [t.encode_eq]; rfl

theorem FrameType.encodedLen_eq (t : FrameType) : t.encodedLen = some 1 := by
  unfold FrameType.encodedLen
  simp [t.toNat_lt]

theorem decodeFrameType_encode (t : FrameType) (rest : Bytes) :
    decodeFrameType (t.encode ++ rest) = .ok (t, rest) := by
  have hlt := t.toNat_lt
  unfold decodeFrameType FrameType.encode
  rw [decodeVarint_encodeVarint t.toNat (by omega) rest]
  have : ¬ t.toNat ≥ 2 ^ 32 := by omega
  simp only [this, if_false, FrameType.ofNat?_toNat]

/-! ## Absence of panics, arm by arm -/

theorem decodeFrameType_no_panic (bs : Bytes) : decodeFrameType bs ≠ .error .panic := by
  unfold decodeFrameType rerr
  split
  · simp
  · split
    · simp
    · split <;> simp

theorem Datagrams.decode_no_panic (bs : Bytes) (isBatch : Bool) :
    Datagrams.decode bs isBatch ≠ .error .panic := by
  unfold Datagrams.decode rerr
  cases isBatch with
  | false =>
    cases bs with
    | nil => simp
    | cons b r => simp [getU8]
  | true =>
    match bs with
    | [] => simp
    | [_] => simp
    | [_, _] => simp
    | a :: b :: c :: r =>
      have : ¬ (r.length + 1 + 1 + 1 < 3) := by omega
      simp [getU8, getU16, this]

theorem decodeKeyedDatagrams_no_panic (vk : Bytes → Bool) (content : Bytes) (isBatch : Bool) :
    decodeKeyedDatagrams vk content isBatch ≠ .error .panic := by
  unfold decodeKeyedDatagrams rerr sliceTo sliceFrom
  by_cases h : content.length < keyLen
  · simp [h]
  · have h' : keyLen ≤ content.length := by omega
    simp only [h, if_false, h', if_true]
    split
    · simp
    · have := Datagrams.decode_no_panic (List.drop keyLen content) isBatch
      split
      · next f hf => intro e; injection e with e; subst e; exact this hf
      · simp

theorem decodePing_no_panic (content : Bytes) : decodePing content ≠ .error .panic := by
  unfold decodePing rerr sliceTo copyExact
  by_cases h : content.length ≠ pingDecLen
  · simp [h]
  · have h' : content.length = 8 := by simp only [pingDecLen] at h; omega
    simp [h', pingDecLen]

theorem u32OfSlice_no_panic (s : Bytes) : u32OfSlice s ≠ .error .panic := by
  unfold u32OfSlice rerr
  split <;> simp

theorem decodeRestarting_no_panic (content : Bytes) : decodeRestarting content ≠ .error .panic := by
  unfold decodeRestarting rerr sliceTo sliceFrom
  by_cases h : content.length ≠ 4 + 4
  · simp [h]
  · have h' : content.length = 8 := by omega
    simp only [h', show ¬ (8 ≠ 4 + 4) by omega, if_false, show 4 ≤ 8 by omega, if_true]
    have h1 := u32OfSlice_no_panic (List.take 4 content)
    have h2 := u32OfSlice_no_panic (List.drop 4 content)
    split
    · next f hf => intro e; injection e with e; subst e; exact h1 hf
    · split
      · next f hf => intro e; injection e with e; subst e; exact h2 hf
      · simp

theorem Status.decode_no_panic (content : Bytes) : Status.decode content ≠ .error .panic := by
  unfold Status.decode rerr
  cases content with
  | nil => simp
  | cons b r =>
    simp only [List.isEmpty_cons, Bool.false_eq_true, if_false, getU8]
    split <;> (try split) <;> (try split) <;> simp

/-! ## Round trips, arm by arm -/

theorem ecnFromBits_bits (e : Option Ecn) : ecnFromBits (u8 (ecnBits e)) = e := by
  cases e with
  | none => rfl
  | some c => cases c <;> rfl

theorem Datagrams.decode_encode (d : Datagrams) (h : d.WF) :
    Datagrams.decode d.encode d.segmentSize.isSome = .ok d := by
  obtain ⟨ecn, seg, contents⟩ := d
  cases seg with
  | none =>
    simp [Datagrams.decode, Datagrams.encode, getU8, ecnFromBits_bits]
  | some s =>
    obtain ⟨h1, h2⟩ := h s rfl
    have e1 : (u8 (s / 256)).toNat = s / 256 := u8_toNat _ (by omega)
    have e2 : (u8 (s % 256)).toNat = s % 256 := u8_toNat _ (by omega)
    have e3 : s / 256 * 256 + s % 256 = s := by omega
    have e4 : ¬ s = 0 := by omega
    have e5 : ¬ (List.length contents + 1 + 1 + 1 < 3) := by omega
    simp [Datagrams.decode, Datagrams.encode, u16be, getU8, getU16, ecnFromBits_bits, e1, e2, e3, e4, e5]

theorem Datagrams.encode_length (d : Datagrams) : d.encode.length = d.encodedLen := by
  obtain ⟨ecn, seg, contents⟩ := d
  cases seg <;> simp [Datagrams.encode, Datagrams.encodedLen, u16be] <;> omega

theorem decodeKeyedDatagrams_encode (vk : Bytes → Bool) (k : Bytes) (d : Datagrams)
    (hk : KeyOk vk k) (hd : d.WF) :
    decodeKeyedDatagrams vk (k ++ d.encode) d.segmentSize.isSome = .ok (k, d) := by
  obtain ⟨hlen, hvalid⟩ := hk
  have hkl : k.length = keyLen := hlen
  unfold decodeKeyedDatagrams sliceTo sliceFrom
  have h1 : ¬ (k ++ d.encode).length < keyLen := by
    rw [List.length_append]; omega
  have h2 : keyLen ≤ (k ++ d.encode).length := by omega
  simp only [h1, if_false, h2, if_true, List.take_left' hkl, List.drop_left' hkl, hvalid,
    Bool.not_true, Bool.false_eq_true, Datagrams.decode_encode d hd]

theorem decodePing_ok (data : Bytes) (h : data.length = 8) : decodePing data = .ok data := by
  unfold decodePing sliceTo copyExact
  simp [h, pingDecLen, List.take_of_length_le (show data.length ≤ 8 by omega)]

theorem u32OfSlice_u32be (n : Nat) (h : n < 2 ^ 32) : u32OfSlice (u32be n) = .ok n := by
  unfold u32OfSlice u32be
  simp only
  rw [u8_toNat _ (by omega), u8_toNat _ (by omega), u8_toNat _ (by omega), u8_toNat _ (by omega)]
  congr 1
  omega

theorem decodeRestarting_encode (a b : Nat) (ha : a < 2 ^ 32) (hb : b < 2 ^ 32) :
    decodeRestarting (u32be a ++ u32be b) = .ok (a * 1000000, b * 1000000) := by
  have hl : (u32be a).length = 4 := rfl
  unfold decodeRestarting sliceTo sliceFrom
  have h1 : (u32be a ++ u32be b).length = 8 := rfl
  simp only [h1, show ¬ (8 ≠ 4 + 4) by omega, if_false, show 4 ≤ 8 by omega, if_true,
    List.take_left' hl, List.drop_left' hl, u32OfSlice_u32be a ha, u32OfSlice_u32be b hb]

theorem millisU32_lt (ns : Nat) : millisU32 ns < 2 ^ 32 := by
  unfold millisU32; omega

theorem Status.code_lt (s : Status) (h : s.TypeInv) : s.code < 256 := by
  cases s with
  | unknown n => exact h
  | _ => decide

theorem Status.decode_code (c : Nat) (hc : c < 256) (rest : Bytes) :
    Status.decode (u8 c :: rest) = .ok (statusOfCode c) := by
  unfold Status.decode statusOfCode
  simp only [List.isEmpty_cons, Bool.false_eq_true, if_false, getU8, u8_toNat c hc]
  split <;> (try split) <;> (try split) <;> rfl

theorem statusOfCode_code (s : Status) (h : s.InRange) : statusOfCode s.code = s := by
  cases s with
  | unknown n =>
    obtain ⟨h1, h2, h3⟩ := h
    simp [statusOfCode, Status.code, h1, h2, h3]
  | _ => rfl

theorem normalize_of_inRange (m : RelayToClientMsg) (h : m.InRange) : m.normalize = m := by
  cases m with
  | restarting a b =>
    obtain ⟨h1, h2, h3, h4⟩ := h
    simp only [RelayToClientMsg.normalize, millisU32]
    congr 1 <;> omega
  | status s =>
    simp only [RelayToClientMsg.normalize, statusOfCode_code s h]
  | _ => rfl

end IrohModel.C10
