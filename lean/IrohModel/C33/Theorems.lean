/-
C33 — property theorems (only).

Statement: every timestamp the process generates for signing is strictly
greater than every timestamp generated before it, across all threads and
regardless of the wall clock moving backwards.

All theorems quantify over every state `s` reachable in the LTS of
`Model.lean`: any number of threads, any number of calls, any interleaving of
their atomic steps, any (`u64`) clock reading at each call, spurious CAS
failures included, any initial cell value.  `s.history` is the chronological
list of observable events (`inv` = a call starts, `lin` = its CAS succeeds,
`ret` = it returns its value, `panic`).
-/
import IrohModel.C33.Lemmas

namespace IrohModel.C33

/-- The values written by successful CASes, in CAS (= modification) order, are strictly
increasing, and every value is at most the current cell. -/
theorem returned_strictly_increasing_in_cas_order {c0 : Nat} {s : State} (h : Reachable c0 s) :
    (linVals s.history).Pairwise (· < ·) ∧ ∀ v ∈ linVals s.history, v ≤ s.cell := by
  have ha := invA_of_reachable h
  constructor
  · rw [State.history, linVals_reverse, List.pairwise_reverse]
    exact ha.lin_sorted
  · intro v hv
    rw [State.history, linVals_reverse, List.mem_reverse] at hv
    exact ha.lin_le v hv

/-- Every returned value is the value of a successful CAS of the same thread's call
(so the CAS order above is an order on the returned timestamps). -/
theorem returned_was_linearised {c0 : Nat} {s : State} (h : Reachable c0 s) :
    ∀ v ∈ retVals s.history, v ∈ linVals s.history := by
  intro v hv
  rw [State.history, retVals_reverse, List.mem_reverse] at hv
  rw [State.history, linVals_reverse, List.mem_reverse]
  exact (invA_of_reachable h).ret_lin v hv

/-- Real-time order.  If call A (of thread `tA`) returned `vA` before call B (of thread `tB`,
possibly the same thread) was invoked, and B — the call started by that `inv tB`, i.e. no
further `inv tB` in between — later returns `vB`, then `vA < vB`. -/
theorem real_time_order {c0 : Nat} {s : State} (h : Reachable c0 s)
    (l1 l2 l3 l4 : List Event) (tA vA tB vB : Nat)
    (hsplit : s.history = l1 ++ [.ret tA vA] ++ l2 ++ [.inv tB] ++ l3 ++ [.ret tB vB] ++ l4)
    (hcall : Event.inv tB ∉ l3) : vA < vB := by
  have hb := (invB_of_reachable h).rt
  have hlog : s.log = l4.reverse ++ .ret tB vB :: (l3.reverse ++ .inv tB ::
      (l2.reverse ++ .ret tA vA :: l1.reverse)) := by
    have := congrArg List.reverse hsplit
    simpa [State.history] using this
  exact hb.split _ _ _ _ tA vA tB vB hlog (by simpa using hcall)

/-- All returned timestamps are pairwise distinct (also between overlapping calls). -/
theorem distinct {c0 : Nat} {s : State} (h : Reachable c0 s) : (retVals s.history).Nodup := by
  rw [State.history, retVals_reverse, List.Nodup, List.pairwise_reverse]
  exact (invC_of_reachable h).ret_nodup.imp Ne.symm

/-- The only way a call fails is the checked `last + 1` at `u64::MAX`: a panic has been
observed only if the cell holds `u64::MAX` (and the cell never exceeds it). -/
theorem panic_only_at_max {c0 : Nat} {s : State} (h : Reachable c0 s) :
    s.cell ≤ cellMax ∧ (∀ t, Event.panic t ∈ s.history → s.cell = cellMax) := by
  have ha := invA_of_reachable h
  refine ⟨ha.cell_le, fun t ht => ?_⟩
  rw [State.history, List.mem_reverse, ← mem_panics] at ht
  exact ha.panic_max t ht

/-! ### Non-vacuity

A concrete reachable state in which the hypotheses of `real_time_order` hold: thread 0 calls
with clock 100 and returns; then the clock jumps BACK to 7 and thread 1 calls; its CAS first
fails spuriously, then succeeds with 101. -/

def demoLabels : List Label :=
  [.inv 0, .clock 0 100, .load 0, .cas 0 false, .ret 0,
   .inv 1, .clock 1 7, .load 1, .cas 1 true, .cas 1 false, .ret 1]

def runLabels (s : State) : List Label → Option State
  | [] => some s
  | l :: ls => (step s l).bind (runLabels · ls)

theorem reachable_of_runLabels {c0 : Nat} {s s' : State} (hs : Reachable c0 s) (ls : List Label)
    (h : runLabels s ls = some s') : Reachable c0 s' := by
  induction ls generalizing s with
  | nil => simp [runLabels] at h; exact h ▸ hs
  | cons l ls ih =>
    simp only [runLabels] at h
    cases hst : step s l with
    | none => simp [hst] at h
    | some s1 => rw [hst] at h; exact ih (Reachable.step l hs hst) h

example : ∃ s, Reachable 5 s ∧
    s.history = [.inv 0, .lin 0 100] ++ [.ret 0 100] ++ [] ++ [.inv 1] ++ [.lin 1 101] ++
      [.ret 1 101] ++ [] ∧
    Event.inv 1 ∉ [Event.lin 1 101] ∧ s.cell = 101 := by
  cases hs : runLabels (init 5) demoLabels with
  | none => exact absurd hs (by decide)
  | some s =>
    refine ⟨s, reachable_of_runLabels (.init (by decide)) _ hs, ?_, by decide, ?_⟩
    · have : (runLabels (init 5) demoLabels).map State.history =
          some [.inv 0, .lin 0 100, .ret 0 100, .inv 1, .lin 1 101, .ret 1 101] := by decide
      rw [hs] at this
      simpa using this
    · have : (runLabels (init 5) demoLabels).map State.cell = some 101 := by decide
      rw [hs] at this
      simpa using this

/-- Non-vacuity of `panic_only_at_max`: with the cell at `u64::MAX` a call does panic. -/
example : (runLabels (init cellMax) [.inv 3, .clock 3 0, .load 3, .cas 3 false]).map State.history =
    some [.inv 3, .panic 3] := by decide

end IrohModel.C33
