/-
C33 (extension) — republish ordering end to end.

Composition of four verified cores, none of which is edited here:

* C33 (`Timestamp::now` LTS): the publisher PROCESS.  Any number of threads of
  one process call `Timestamp::now()`; the value a call returns becomes the
  `seq`/timestamp of the packet it signs.
* C32 (`SignedPacket::from_bytes`): the server admits a wire packet only if it
  is authentic; honest packets are admitted (`honest_accepted`) and their
  accessors return the signed timestamp and DNS payload.
* C37 (store `upsert` with `more_recent_than`): the server keeps, per key, the
  newest packet by (timestamp, payload) for ANY delivery order, with
  duplicates (`stored_is_max`).
* C31 (endpoint info ⇄ TXT strings ⇄ packet): the stored packet decodes to the
  published info (`rt_packet`).

Result (`last_published_wins`): for every reachable state of the publisher
(any number of threads, any interleaving, any clock readings) and every list
of delivered wire packets that consists of copies of published packets — in
any order, with any duplication, some possibly never delivered — and of
arbitrary other byte strings that the server rejects, as long as the packet of
the most recent publication has arrived at least once, the store holds exactly
that packet and a lookup decodes to exactly that info.

"Most recent" is the real-time notion for a call that started after every
other publication call had returned (`RealTimeLast`, e.g. the endpoint's
latest publish when publishes do not overlap, or the last one after a burst).
For overlapping calls there is no real-time order between them; the store then
holds the one that is last in the CAS (linearisation) order of the timestamp
cell, i.e. the maximal timestamp (`stored_is_latest`), and no publication call
that started after the winner returned exists (`winner_not_superseded`).

Boundary, stated honestly:
* ONE process.  Two processes publishing under the same key each have their
  own `LAST_TIMESTAMP` cell; with unsynchronised clocks the later publication
  may carry the smaller timestamp and lose.  Outside this theorem.
* Equal timestamps cannot occur within one process (`C33.distinct`,
  `publication_well_defined`), so the payload tie-break of C37 is never
  exercised by one publisher.
* The server's store starts empty for this key (or, equivalently, holds only
  packets of this publisher run); a packet from an earlier run of the process
  with a clock that was ahead is the two-process case.
* simple-dns is assumed to behave on the published TXT string lists
  (`Published.dec_enc`: decode ∘ encode = id; `Published.enc_length`: the size
  formula validated by C31's correspondence run);
  signatures are an abstract `SigScheme`; forged packets (verifying under the
  key without the secret key) are excluded by assumption (EUF-CMA).
-/
import IrohModel.C33.Theorems
import IrohModel.C37.Theorems
import IrohModel.C32.Theorems
import IrohModel.C31.Theorems

namespace IrohModel.C33.Republish
open IrohModel.Crypto IrohModel.Pkarr

/-- The DNS wire encoder / decoder for the TXT strings of one `_iroh` name (simple-dns).  Its
assumed behaviour — decoding returns the strings, and the compressed encoding has the size that
`from_txt_strings` compares with the limit — is required of the PUBLISHED string lists only
(`Published.dec_enc`, `Published.enc_length`). -/
structure DnsCodec where
  enc : List C31.Str → Bytes
  dec : Bytes → Option (List C31.Str)

/-- Everything that is fixed for one publisher and one server. -/
structure Setup (SK : Type) where
  S : SigScheme SK Bytes Bytes Bytes
  sk : SK
  E : C32.Env
  C : C31.Codecs
  D : DnsCodec
  /-- abstract identifiers of key and signature bytes in the store model of C37 -/
  keyId : Bytes → Nat
  sigId : Bytes → Nat
  verify_eq : E.verify = S.verify
  pub_len : (S.pub sk).length = 32
  pub_valid : E.validPoint (S.pub sk) = true
  sig_len : ∀ m, (S.sign sk m).length = 64
  parses : ∀ t, E.dnsParses (D.enc t) = true

variable {SK : Type}

/-- The endpoint id = public key of the publisher. -/
def Setup.pk (P : Setup SK) : Bytes := P.S.pub P.sk

/-- TXT strings of the info signed with timestamp `v`. -/
def txts (infoOf : Nat → C31.Info) (v : Nat) : List C31.Str :=
  C31.toTxtStrings (C31.toAttrs (infoOf v))

/-- The wire packet the publisher PUTs for the call that returned timestamp `v`:
`key ‖ sign(signable(v, dns)) ‖ be64 v ‖ dns` (`SignedPacket::from_txt_strings`). -/
def wire (P : Setup SK) (infoOf : Nat → C31.Info) (v : Nat) : Bytes :=
  P.pk ++ P.S.sign P.sk (C32.signable v (P.D.enc (txts infoOf v))) ++ C32.be64 v ++
    P.D.enc (txts infoOf v)

/-- The store-level view (C37) of a packet the server admitted (C32 accessors). -/
def absPkt (P : Setup SK) (p : C32.Packet) : Packet :=
  ⟨P.keyId (C32.keyOf p.bytes), P.sigId (C32.sigOf p.bytes), C32.tsOf p.bytes, C32.dnsOf p.bytes⟩

/-- The store-level packet of the publication with timestamp `v`. -/
def pkt (P : Setup SK) (infoOf : Nat → C31.Info) (v : Nat) : Packet :=
  ⟨P.keyId P.pk, P.sigId (P.S.sign P.sk (C32.signable v (P.D.enc (txts infoOf v)))), v,
   P.D.enc (txts infoOf v)⟩

/-- Server: verify (`from_bytes`), then upsert; rejected bytes leave the store unchanged. -/
def ingest (P : Setup SK) (s : C37.Store) (w : Bytes) : C37.Store :=
  match C32.fromBytes P.E w with
  | .ok p => (C37.upsert s (absPkt P p)).1
  | .error _ => s

/-- The server processes the delivered byte strings one after the other. -/
def serverRun (P : Setup SK) (s : C37.Store) (ws : List Bytes) : C37.Store := ws.foldl (ingest P) s

/-- A lookup for the publisher's key: stored packet → TXT strings → endpoint info. -/
def lookup (P : Setup SK) (s : C37.Store) : Option (Except C31.ParseErr C31.Info) :=
  (C37.get s (P.keyId P.pk)).bind fun m =>
    (P.D.dec m.payload).map fun t => C31.fromSignedPacket P.C ⟨P.pk, t⟩

/-- What the publisher publishes: for every returned timestamp a well-formed info about
itself that the packet builder accepts. -/
structure Published (P : Setup SK) (s : State) (infoOf : Nat → C31.Info) : Prop where
  wf : ∀ v ∈ retVals s.history, C31.WF P.C (infoOf v)
  own : ∀ v ∈ retVals s.history, (infoOf v).id = P.pk
  encodes : ∀ v ∈ retVals s.history, ∃ p, C31.toSignedPacket P.pk (infoOf v) = .ok p
  /-- simple-dns: decoding the encoded TXT records returns the strings -/
  dec_enc : ∀ v ∈ retVals s.history, P.D.dec (P.D.enc (txts infoOf v)) = some (txts infoOf v)
  /-- simple-dns: size of the compressed encoding (validated by C31's correspondence run) -/
  enc_length : ∀ v ∈ retVals s.history,
    (P.D.enc (txts infoOf v)).length = C31.dnsSize 32 (txts infoOf v)

/-- What the network delivers: copies of published packets (any order, any multiplicity, any
subset) and byte strings the server rejects. -/
def Delivered (P : Setup SK) (s : State) (infoOf : Nat → C31.Info) (ws : List Bytes) : Prop :=
  ∀ w ∈ ws, (∃ v ∈ retVals s.history, w = wire P infoOf v) ∨ (∃ e, C32.fromBytes P.E w = .error e)

/-- The call of thread `t` that returned `v` started after every other publication call of the
history had returned, and no publication returned after it. -/
def RealTimeLast (h : List Event) (t v : Nat) : Prop :=
  ∃ pre mid post, h = pre ++ [.inv t] ++ mid ++ [.ret t v] ++ post ∧
    retVals mid = [] ∧ retVals post = [] ∧ Event.inv t ∉ mid

/-! ### the publisher (C33) -/

/-- Returned timestamps fit `u64`. -/
theorem ret_lt_u64 {c0 : Nat} {s : State} (hr : Reachable c0 s) {v : Nat}
    (hv : v ∈ retVals s.history) : v < 18446744073709551616 := by
  have h1 := returned_was_linearised hr v hv
  have h2 := (returned_strictly_increasing_in_cas_order hr).2 v h1
  have h3 := (panic_only_at_max hr).1
  have : cellMax = 18446744073709551615 := rfl
  omega

/-- A real-time-last call carries the maximal timestamp (C33 `real_time_order`). -/
theorem realTimeLast_is_max {c0 : Nat} {s : State} (hr : Reachable c0 s) {t vL : Nat}
    (hL : RealTimeLast s.history t vL) :
    vL ∈ retVals s.history ∧ ∀ v ∈ retVals s.history, v ≤ vL := by
  obtain ⟨pre, mid, post, hh, hmid, hpost, hinv⟩ := hL
  have hrets : retVals s.history = retVals pre ++ [vL] := by
    rw [hh]; simp [retVals, hmid, hpost]
  refine ⟨by rw [hrets]; simp, ?_⟩
  intro v hv
  rw [hrets, List.mem_append] at hv
  rcases hv with hv | hv
  · obtain ⟨tA, hA⟩ := mem_retVals.mp hv
    obtain ⟨l1, l2, rfl⟩ := List.append_of_mem hA
    have := real_time_order hr l1 l2 mid post tA v t vL (by rw [hh]; simp) hinv
    omega
  · simp at hv; omega

/-- Keying publications by their timestamp loses nothing: two distinct returning calls never
share a timestamp (C33 `distinct`). -/
theorem publication_well_defined {c0 : Nat} {s : State} (hr : Reachable c0 s) (i j : Nat) (v : Nat)
    (hi : (retVals s.history)[i]? = some v) (hj : (retVals s.history)[j]? = some v) : i = j := by
  have hnd := distinct hr
  obtain ⟨hil, hiv⟩ := List.getElem?_eq_some_iff.mp hi
  obtain ⟨hjl, hjv⟩ := List.getElem?_eq_some_iff.mp hj
  have hp := List.pairwise_iff_getElem.mp hnd
  rcases Nat.lt_trichotomy i j with h | h | h
  · exact absurd (hiv.trans hjv.symm) (hp i j hil hjl h)
  · exact h
  · exact absurd (hjv.trans hiv.symm) (hp j i hjl hil h)

/-- No publication call that started after the winner (maximal timestamp) returned exists. -/
theorem winner_not_superseded {c0 : Nat} {s : State} (hr : Reachable c0 s) (vmax : Nat)
    (hmax : ∀ v ∈ retVals s.history, v ≤ vmax)
    (l1 l2 l3 l4 : List Event) (tW tB vB : Nat)
    (hsplit : s.history = l1 ++ [.ret tW vmax] ++ l2 ++ [.inv tB] ++ l3 ++ [.ret tB vB] ++ l4)
    (hcall : Event.inv tB ∉ l3) : False := by
  have h1 := real_time_order hr l1 l2 l3 l4 tW vmax tB vB hsplit hcall
  have h2 : vB ∈ retVals s.history := by rw [hsplit]; simp [retVals]
  have := hmax vB h2
  omega

/-! ### the server admits honest packets (C32) -/

theorem honest_ingest (P : Setup SK) {c0 : Nat} {s : State} (hr : Reachable c0 s)
    (infoOf : Nat → C31.Info) (hp : Published P s infoOf) {v : Nat} (hv : v ∈ retVals s.history) :
    ∃ p, C32.fromBytes P.E (wire P infoOf v) = .ok p ∧ absPkt P p = pkt P infoOf v := by
  obtain ⟨q, hq⟩ := hp.encodes v hv
  have hsize := ((C31.encodes_iff P.pk (infoOf v) q).mp hq).1.2
  have hlen : (P.D.enc (txts infoOf v)).length ≤ 1000 := by
    rw [hp.enc_length v hv]; unfold txts; rw [← P.pub_len]; exact hsize
  have hacc := C32.honest_accepted P.S P.E P.verify_eq P.sk v (P.D.enc (txts infoOf v))
    P.pub_len P.pub_valid (P.sig_len _) (ret_lt_u64 hr hv) hlen (P.parses _)
  refine ⟨_, hacc, ?_⟩
  obtain ⟨k1, k2, k3, k4⟩ := C32.parts_of_concat (P.S.pub P.sk)
    (P.S.sign P.sk (C32.signable v (P.D.enc (txts infoOf v)))) (C32.be64 v)
    (P.D.enc (txts infoOf v)) P.pub_len (P.sig_len _) (C32.be64_length v)
  simp only [absPkt, pkt, Setup.pk, C32.tsOf, k1, k2, k3, k4, C32.beNat_be64 v (ret_lt_u64 hr hv)]

/-- Packets the server admits from a delivery, in order. -/
def admitted (P : Setup SK) (ws : List Bytes) : List Packet :=
  ws.filterMap fun w => match C32.fromBytes P.E w with
    | .ok p => some (absPkt P p)
    | .error _ => none

theorem finalStore_cons (s : C37.Store) (p : Packet) (ps : List Packet) :
    C37.finalStore s (p :: ps) = C37.finalStore (C37.upsert s p).1 ps := by
  simp [C37.finalStore, C37.publishAll]

theorem serverRun_eq (P : Setup SK) (s : C37.Store) (ws : List Bytes) :
    serverRun P s ws = C37.finalStore s (admitted P ws) := by
  induction ws generalizing s with
  | nil => simp [serverRun, admitted, C37.finalStore, C37.publishAll]
  | cons w ws ih =>
    have ih' := ih (ingest P s w)
    simp only [serverRun, List.foldl_cons] at ih' ⊢
    rw [ih']
    unfold admitted ingest
    cases h : C32.fromBytes P.E w with
    | ok p => simp [h, finalStore_cons]
    | error e => simp [h]

theorem admitted_spec (P : Setup SK) {c0 : Nat} {s : State} (hr : Reachable c0 s)
    (infoOf : Nat → C31.Info) (hp : Published P s infoOf) (ws : List Bytes)
    (hd : Delivered P s infoOf ws) :
    (∀ m ∈ admitted P ws, ∃ v ∈ retVals s.history, m = pkt P infoOf v) ∧
    (∀ v ∈ retVals s.history, wire P infoOf v ∈ ws → pkt P infoOf v ∈ admitted P ws) := by
  constructor
  · intro m hm
    simp only [admitted, List.mem_filterMap] at hm
    obtain ⟨w, hw, hwm⟩ := hm
    rcases hd w hw with ⟨v, hv, rfl⟩ | ⟨e, he⟩
    · obtain ⟨p, hacc, habs⟩ := honest_ingest P hr infoOf hp hv
      rw [hacc] at hwm
      exact ⟨v, hv, by simpa [habs] using hwm.symm⟩
    · rw [he] at hwm; cases hwm
  · intro v hv hw
    simp only [admitted, List.mem_filterMap]
    obtain ⟨p, hacc, habs⟩ := honest_ingest P hr infoOf hp hv
    exact ⟨_, hw, by simp only [hacc, habs]⟩

/-! ### the store keeps the latest (C37) and the lookup decodes it (C31) -/

/-- The store holds the publication with the maximal timestamp — the last one in the CAS
order of the publisher's timestamp cell — whatever the delivery order and duplication, and a
lookup decodes to the info of that publication. -/
theorem stored_is_latest (P : Setup SK) {c0 : Nat} {s : State} (hr : Reachable c0 s)
    (infoOf : Nat → C31.Info) (hp : Published P s infoOf) (ws : List Bytes)
    (hd : Delivered P s infoOf ws) (vmax : Nat) (hmem : vmax ∈ retVals s.history)
    (hmax : ∀ v ∈ retVals s.history, v ≤ vmax) (harr : wire P infoOf vmax ∈ ws) :
    C37.get (serverRun P C37.Store.empty ws) (P.keyId P.pk) = some (pkt P infoOf vmax) ∧
    ∃ i', lookup P (serverRun P C37.Store.empty ws) = some (.ok i') ∧
      i'.id = (infoOf vmax).id ∧ i'.addrs.Perm (infoOf vmax).addrs ∧
      i'.userData = (infoOf vmax).userData := by
  obtain ⟨hall, hin⟩ := admitted_spec P hr infoOf hp ws hd
  have hW := hin vmax hmem harr
  have hstored : C37.get (serverRun P C37.Store.empty ws) (P.keyId P.pk) = some (pkt P infoOf vmax) := by
    rw [serverRun_eq]
    have hmaxS := C37.stored_is_max (admitted P ws) (P.keyId P.pk)
    cases hg : C37.get (C37.finalStore C37.Store.empty (admitted P ws)) (P.keyId P.pk) with
    | none =>
      rw [hg] at hmaxS
      exact absurd rfl (hmaxS _ hW)
    | some m =>
      rw [hg] at hmaxS
      obtain ⟨hm, _, hnewest⟩ := hmaxS
      obtain ⟨v, hv, rfl⟩ := hall m hm
      have hle := hmax v hv
      have hnot := hnewest _ hW rfl
      have : v = vmax := by
        by_cases he : vmax = v
        · exact he.symm
        · have hlt : v < vmax := by omega
          have : moreRecentThan (pkt P infoOf vmax) (pkt P infoOf v) = true := by
            simp [moreRecentThan, pkt, he, hlt]
          rw [this] at hnot; cases hnot
      rw [this]
  refine ⟨hstored, ?_⟩
  obtain ⟨q, hq⟩ := hp.encodes vmax hmem
  obtain ⟨i', hi', h1, h2, h3⟩ :=
    C31.rt_packet P.C (infoOf vmax) P.pk q (hp.wf vmax hmem) (hp.own vmax hmem).symm hq
  refine ⟨i', ?_, h1, h2, h3⟩
  have hqv : q = ⟨P.pk, txts infoOf vmax⟩ := ((C31.encodes_iff P.pk (infoOf vmax) q).mp hq).2
  rw [hqv] at hi'
  simp only [lookup, hstored, Option.bind_some, pkt, hp.dec_enc vmax hmem, Option.map_some, hi']

/-- **Last published wins.**  For any number of publisher threads of one process, any
interleaving and clock behaviour, and any delivery order / duplication / loss of their packets
(plus any rejected garbage): if the publication whose signing call was last in real time has
reached the server at least once, the store holds exactly its packet and a lookup decodes to
exactly the info it published. -/
theorem last_published_wins (P : Setup SK) {c0 : Nat} {s : State} (hr : Reachable c0 s)
    (infoOf : Nat → C31.Info) (hp : Published P s infoOf) (ws : List Bytes)
    (hd : Delivered P s infoOf ws) (tL vL : Nat) (hL : RealTimeLast s.history tL vL)
    (harr : wire P infoOf vL ∈ ws) :
    C37.get (serverRun P C37.Store.empty ws) (P.keyId P.pk) = some (pkt P infoOf vL) ∧
    ∃ i', lookup P (serverRun P C37.Store.empty ws) = some (.ok i') ∧
      i'.id = (infoOf vL).id ∧ i'.addrs.Perm (infoOf vL).addrs ∧
      i'.userData = (infoOf vL).userData := by
  obtain ⟨hmem, hmax⟩ := realTimeLast_is_max hr hL
  exact stored_is_latest P hr infoOf hp ws hd vL hmem hmax harr

/-- Delivery order and duplication are irrelevant: two deliveries of the same publisher run that
both contain the latest packet leave the same packet in the store. -/
theorem delivery_order_irrelevant (P : Setup SK) {c0 : Nat} {s : State} (hr : Reachable c0 s)
    (infoOf : Nat → C31.Info) (hp : Published P s infoOf) (ws ws' : List Bytes)
    (hd : Delivered P s infoOf ws) (hd' : Delivered P s infoOf ws') (vmax : Nat)
    (hmem : vmax ∈ retVals s.history) (hmax : ∀ v ∈ retVals s.history, v ≤ vmax)
    (harr : wire P infoOf vmax ∈ ws) (harr' : wire P infoOf vmax ∈ ws') :
    C37.get (serverRun P C37.Store.empty ws) (P.keyId P.pk) =
      C37.get (serverRun P C37.Store.empty ws') (P.keyId P.pk) := by
  rw [(stored_is_latest P hr infoOf hp ws hd vmax hmem hmax harr).1,
    (stored_is_latest P hr infoOf hp ws' hd' vmax hmem hmax harr').1]

/-! ### Non-vacuity

One thread publishes twice; between the two calls the wall clock jumps BACK from 100 to 50, so
the second publication is signed with 101.  The server receives the newer packet first, then a
rejected byte string, then the older packet, then duplicates of both — and ends with the newer. -/

def demoInfo2 : C31.Info := { C31.toyInfo with userData := some "v2".toList }

theorem demoInfo2_wf : C31.WF C31.toyC demoInfo2 := by
  refine ⟨by decide, ?_, ?_, by decide, rfl⟩
  · intro a ha
    simp only [demoInfo2, C31.toyInfo, List.mem_cons, List.not_mem_nil, or_false] at ha
    rcases ha with rfl | rfl | rfl <;> simp [C31.Canon, C31.toyC] <;> decide
  · intro u hu
    simp only [demoInfo2, Option.some.injEq] at hu
    subst hu; decide

def demoInfoOf (v : Nat) : C31.Info := if v = 100 then C31.toyInfo else demoInfo2

/-- A stand-in for simple-dns on the two published string lists: right size, decodable. -/
def demoCodec : DnsCodec where
  enc t := List.replicate (C31.dnsSize 32 t) (if t = txts demoInfoOf 100 then 1 else 2)
  dec bs := if bs.head? = some 1 then some (txts demoInfoOf 100) else some (txts demoInfoOf 101)

def demoSetup : Setup Bytes where
  S := C32.toyScheme
  sk := C32.toyKey
  E := C32.toyEnv
  C := C31.toyC
  D := demoCodec
  keyId := fun k => k.length
  sigId := fun _ => 0
  verify_eq := rfl
  pub_len := by decide
  pub_valid := by decide
  sig_len := fun _ => by simp [C32.toyScheme, C32.toyKey]
  parses := fun t => by
    simp only [C32.toyEnv, demoCodec, List.length_replicate, decide_eq_true_eq]
    cases t <;> simp [C31.dnsSize] <;> omega

def demoLabels2 : List Label :=
  [.inv 0, .clock 0 100, .load 0, .cas 0 false, .ret 0,
   .inv 0, .clock 0 50, .load 0, .cas 0 false, .ret 0]

def demoDelivery : List Bytes :=
  [wire demoSetup demoInfoOf 101, [], wire demoSetup demoInfoOf 100,
   wire demoSetup demoInfoOf 101, wire demoSetup demoInfoOf 100]

example : ∃ s, Reachable 0 s ∧
    C37.get (serverRun demoSetup C37.Store.empty demoDelivery) (demoSetup.keyId demoSetup.pk) =
      some (pkt demoSetup demoInfoOf 101) ∧
    ∃ i', lookup demoSetup (serverRun demoSetup C37.Store.empty demoDelivery) = some (.ok i') ∧
      i'.userData = some "v2".toList := by
  cases hs : runLabels (init 0) demoLabels2 with
  | none => exact absurd hs (by decide)
  | some s =>
    have hr : Reachable 0 s := reachable_of_runLabels (.init (by decide)) _ hs
    have hh : s.history =
        [.inv 0, .lin 0 100, .ret 0 100, .inv 0, .lin 0 101, .ret 0 101] := by
      have : (runLabels (init 0) demoLabels2).map State.history =
          some [.inv 0, .lin 0 100, .ret 0 100, .inv 0, .lin 0 101, .ret 0 101] := by decide
      rw [hs] at this; simpa using this
    have hrets : retVals s.history = [100, 101] := by rw [hh]; rfl
    have hmem : ∀ v ∈ retVals s.history, v = 100 ∨ v = 101 := by
      intro v hv; rw [hrets] at hv; simpa using hv
    have hp : Published demoSetup s demoInfoOf := by
      refine ⟨?_, ?_, ?_, ?_, ?_⟩
      · intro v hv
        rcases hmem v hv with rfl | rfl
        · exact C31.toyInfo_wf
        · exact demoInfo2_wf
      · intro v hv
        rcases hmem v hv with rfl | rfl <;> decide
      · intro v hv
        rcases hmem v hv with rfl | rfl
        · exact ⟨⟨demoSetup.pk, txts demoInfoOf 100⟩,
            (C31.encodes_iff _ _ _).mpr ⟨⟨by decide, by decide⟩, rfl⟩⟩
        · exact ⟨⟨demoSetup.pk, txts demoInfoOf 101⟩,
            (C31.encodes_iff _ _ _).mpr ⟨⟨by decide, by decide⟩, rfl⟩⟩
      · intro v hv
        rcases hmem v hv with rfl | rfl <;> decide
      · intro v hv
        simp [demoSetup, demoCodec]
    have hd : Delivered demoSetup s demoInfoOf demoDelivery := by
      intro w hw
      simp only [demoDelivery, List.mem_cons, List.not_mem_nil, or_false] at hw
      rcases hw with rfl | rfl | rfl | rfl | rfl
      · exact Or.inl ⟨101, by rw [hrets]; simp, rfl⟩
      · exact Or.inr ⟨.tooShort, rfl⟩
      · exact Or.inl ⟨100, by rw [hrets]; simp, rfl⟩
      · exact Or.inl ⟨101, by rw [hrets]; simp, rfl⟩
      · exact Or.inl ⟨100, by rw [hrets]; simp, rfl⟩
    have hL : RealTimeLast s.history 0 101 :=
      ⟨[.inv 0, .lin 0 100, .ret 0 100], [.lin 0 101], [], by rw [hh]; rfl, rfl, rfl, by decide⟩
    obtain ⟨h1, i', h2, _, _, h3⟩ :=
      last_published_wins demoSetup hr demoInfoOf hp demoDelivery hd 0 101 hL (by simp [demoDelivery])
    exact ⟨s, hr, h1, i', h2, by rw [h3]; rfl⟩

end IrohModel.C33.Republish
