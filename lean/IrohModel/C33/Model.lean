/-
C33 — pkarr `Timestamp::now` (iroh-dns/src/pkarr.rs).

```rust
static LAST_TIMESTAMP: AtomicU64 = AtomicU64::new(0);
pub fn now() -> Self {
    let micros = SystemTime::now()...as_micros() as u64;          -- step `clock`
    let mut last = LAST_TIMESTAMP.load(Relaxed);                    -- step `load`
    loop {
        let next = micros.max(last + 1);                            -- step `cas` (overflow ⇒ panic)
        match LAST_TIMESTAMP.compare_exchange_weak(last, next, ..) {
            Ok(_) => return Self(next),                             --   success: linearisation point
            Err(actual) => last = actual,                           --   failure (real or spurious)
        }
    }
}
```

Model: a labelled transition system over ONE atomic cell (single-location
coherence: all accesses to the cell are totally ordered, a read-modify-write
reads the latest value) and an unbounded family of threads `t : Nat`, each with
a program counter.  Atomicity: one step per access of the cell; reading the
clock, invoking and returning are separate steps.  Clock readings are arbitrary
`u64` values chosen by the environment at each `clock` step (the wall clock may
jump backwards).  `compare_exchange_weak` may fail spuriously (flag on the
`cas` label); on failure the thread continues with the value it saw.
`last + 1` is checked arithmetic (overflow-checks are on in dev/test builds and
in the harness): at `last = u64::MAX` the call panics and returns nothing.

The log records, newest first, the observable events `inv` (call starts), `lin`
(successful CAS), `ret` (call returns its value) and `panic`.
Executable, core Lean only.
-/
import IrohModel.Generated.C33

namespace IrohModel.C33

/-- Largest value of the cell's type (`AtomicU64`), regenerated from the source. -/
abbrev cellMax : Nat := Generated.C33.cellMax

/-- Program counter of one thread. -/
inductive PC where
  /-- not inside `Timestamp::now` -/
  | idle
  /-- `now` entered, clock not yet read -/
  | started
  /-- `micros = c` read -/
  | haveClock (c : Nat)
  /-- about to compute `next` and CAS, expecting the cell to hold `last` -/
  | loaded (c last : Nat)
  /-- the CAS succeeded with `v`; `Self(v)` is about to be returned -/
  | done (v : Nat)
  /-- `last + 1` overflowed; the call unwinds -/
  | panicked
deriving DecidableEq, Repr

inductive Event where
  | inv (t : Nat)
  | lin (t v : Nat)
  | ret (t v : Nat)
  | panic (t : Nat)
deriving DecidableEq, Repr

inductive Label where
  | inv (t : Nat)
  | clock (t c : Nat)
  | load (t : Nat)
  | cas (t : Nat) (spurious : Bool)
  | ret (t : Nat)
deriving DecidableEq, Repr

structure State where
  cell : Nat
  pcs : Nat → PC
  /-- newest event first -/
  log : List Event

def setPc (pcs : Nat → PC) (t : Nat) (p : PC) : Nat → PC :=
  fun u => if u = t then p else pcs u

def init (cell0 : Nat) : State := ⟨cell0, fun _ => .idle, []⟩

/-- One atomic step; `none` when the label is not enabled. -/
def step (s : State) : Label → Option State
  | .inv t =>
    match s.pcs t with
    | .idle => some { s with pcs := setPc s.pcs t .started, log := .inv t :: s.log }
    | _ => none
  | .clock t c =>
    match s.pcs t with
    | .started => if c ≤ cellMax then some { s with pcs := setPc s.pcs t (.haveClock c) } else none
    | _ => none
  | .load t =>
    match s.pcs t with
    | .haveClock c => some { s with pcs := setPc s.pcs t (.loaded c s.cell) }
    | _ => none
  | .cas t spurious =>
    match s.pcs t with
    | .loaded c last =>
      if cellMax < last + 1 then
        some { s with pcs := setPc s.pcs t .panicked, log := .panic t :: s.log }
      else
        let next := max c (last + 1)
        if s.cell = last ∧ spurious = false then
          some { cell := next, pcs := setPc s.pcs t (.done next), log := .lin t next :: s.log }
        else
          some { s with pcs := setPc s.pcs t (.loaded c s.cell) }
    | _ => none
  | .ret t =>
    match s.pcs t with
    | .done v => some { s with pcs := setPc s.pcs t .idle, log := .ret t v :: s.log }
    | .panicked => some { s with pcs := setPc s.pcs t .idle }
    | _ => none

/-- States reachable from `init cell0` (`cell0` is 0 in the code; any `u64` is allowed). -/
inductive Reachable (cell0 : Nat) : State → Prop where
  | init : cell0 ≤ cellMax → Reachable cell0 (init cell0)
  | step {s s' : State} (l : Label) : Reachable cell0 s → step s l = some s' → Reachable cell0 s'

/-- Chronological history (oldest event first). -/
def State.history (s : State) : List Event := s.log.reverse

/-! ### Schedule runner used by the correspondence driver

A case is: the initial cell, per thread the list of clock readings of its
successive calls, and a schedule (list of thread ids).  Each schedule entry lets
that thread perform its next atomic step; afterwards the threads run to
completion one after the other. -/

structure Sim where
  st : State
  clocks : List (List Nat)

/-- The label thread `t` takes next (no spurious failures in forced schedules). -/
def nextLabel (m : Sim) (t : Nat) : Option Label :=
  match m.st.pcs t with
  | .idle => match m.clocks.getD t [] with
             | [] => none
             | _ :: _ => some (.inv t)
  | .started => match m.clocks.getD t [] with
                | [] => none
                | c :: _ => some (.clock t c)
  | .haveClock _ => some (.load t)
  | .loaded _ _ => some (.cas t false)
  | .done _ => some (.ret t)
  | .panicked => some (.ret t)

def advance (m : Sim) (t : Nat) : Sim :=
  match nextLabel m t with
  | none => m
  | some l =>
    match step m.st l with
    | none => m
    | some st' =>
      match l with
      | .clock _ _ => { st := st', clocks := m.clocks.set t ((m.clocks.getD t []).drop 1) }
      | _ => { m with st := st' }

def drainThread : Nat → Sim → Nat → Sim
  | 0, m, _ => m
  | fuel + 1, m, t =>
    match nextLabel m t with
    | none => m
    | some _ => drainThread fuel (advance m t) t

def runCase (cell0 : Nat) (clocks : List (List Nat)) (sched : List Nat) : Sim :=
  let m0 : Sim := ⟨init cell0, clocks⟩
  let m1 := sched.foldl advance m0
  let fuel := 8 * (clocks.foldl (fun a l => a + l.length) 0) + 8
  (List.range clocks.length).foldl (fun m t => drainThread fuel m t) m1

def renderEvent : Event → String
  | .inv t => s!"i{t}"
  | .lin t v => s!"l{t}={v}"
  | .ret t v => s!"r{t}={v}"
  | .panic t => s!"p{t}"

def render (m : Sim) : String :=
  " ".intercalate (m.st.history.map renderEvent ++ [s!"cell={m.st.cell}"])

end IrohModel.C33
