/-
C33 — helper definitions and the inductive invariants of the `Timestamp::now` LTS.
All statements are about the newest-first `log`; `Theorems.lean` restates the
results on the chronological `history`.
-/
import IrohModel.C33.Model

namespace IrohModel.C33

/-- Values of the successful CASes in a log. -/
def linVals : List Event → List Nat
  | [] => []
  | .lin _ v :: l => v :: linVals l
  | _ :: l => linVals l

/-- Values returned in a log. -/
def retVals : List Event → List Nat
  | [] => []
  | .ret _ v :: l => v :: retVals l
  | _ :: l => retVals l

/-- Threads that panicked in a log. -/
def panics : List Event → List Nat
  | [] => []
  | .panic t :: l => t :: panics l
  | _ :: l => panics l

/-- In a newest-first log: the part older than the most recent `inv t`. -/
def olderThanInv (t : Nat) : List Event → List Event
  | [] => []
  | e :: l => if e = .inv t then l else olderThanInv t l

/-- Real-time order, written recursively over a newest-first log: every returned value
exceeds all values returned before the returning call was invoked. -/
def RtOK : List Event → Prop
  | [] => True
  | .ret t v :: l => (∀ x ∈ retVals (olderThanInv t l), x < v) ∧ RtOK l
  | _ :: l => RtOK l

@[simp] theorem linVals_append (a b : List Event) : linVals (a ++ b) = linVals a ++ linVals b := by
  induction a with
  | nil => rfl
  | cons e a ih => cases e <;> simp [linVals, ih]

@[simp] theorem retVals_append (a b : List Event) : retVals (a ++ b) = retVals a ++ retVals b := by
  induction a with
  | nil => rfl
  | cons e a ih => cases e <;> simp [retVals, ih]

theorem linVals_reverse (a : List Event) : linVals a.reverse = (linVals a).reverse := by
  induction a with
  | nil => rfl
  | cons e a ih => cases e <;> simp [linVals, ih]

theorem retVals_reverse (a : List Event) : retVals a.reverse = (retVals a).reverse := by
  induction a with
  | nil => rfl
  | cons e a ih => cases e <;> simp [retVals, ih]

theorem mem_retVals {l : List Event} {v : Nat} : v ∈ retVals l ↔ ∃ t, Event.ret t v ∈ l := by
  induction l with
  | nil => simp [retVals]
  | cons e l ih => cases e <;> simp [retVals, ih] <;> grind

theorem mem_linVals {l : List Event} {v : Nat} : v ∈ linVals l ↔ ∃ t, Event.lin t v ∈ l := by
  induction l with
  | nil => simp [linVals]
  | cons e l ih => cases e <;> simp [linVals, ih] <;> grind

theorem mem_panics {l : List Event} {t : Nat} : t ∈ panics l ↔ Event.panic t ∈ l := by
  induction l with
  | nil => simp [panics]
  | cons e l ih => cases e <;> simp [panics, ih, eq_comm]

theorem olderThanInv_append_inv (t : Nat) (a b : List Event) (h : Event.inv t ∉ a) :
    olderThanInv t (a ++ .inv t :: b) = b := by
  induction a with
  | nil => simp [olderThanInv]
  | cons e a ih =>
    have he : e ≠ .inv t := fun h' => h (by simp [h'])
    have ha : Event.inv t ∉ a := fun h' => h (by simp [h'])
    simp [olderThanInv, he, ih ha]

theorem olderThanInv_subset {t : Nat} {e : Event} {l : List Event} (h : e ∈ olderThanInv t l) :
    e ∈ l := by
  induction l with
  | nil => simp [olderThanInv] at h
  | cons e' l ih =>
    simp only [olderThanInv] at h
    split at h
    · exact List.mem_cons_of_mem _ h
    · exact List.mem_cons_of_mem _ (ih h)

/-- `RtOK` in split form (newest first). -/
theorem RtOK.split {l : List Event} (h : RtOK l) (l4 l3 l2 l1 : List Event) (tA vA tB vB : Nat)
    (hl : l = l4 ++ .ret tB vB :: (l3 ++ .inv tB :: (l2 ++ .ret tA vA :: l1)))
    (hno : Event.inv tB ∉ l3) : vA < vB := by
  subst hl
  induction l4 with
  | nil =>
    simp only [List.nil_append, RtOK] at h
    apply h.1
    rw [olderThanInv_append_inv _ _ _ hno]
    simp [retVals]
  | cons e l4 ih =>
    apply ih
    cases e <;> simp only [List.cons_append, RtOK] at h <;> first | exact h | exact h.2

/-! ### Step lemmas -/

@[simp] theorem setPc_same (pcs : Nat → PC) (t : Nat) (p : PC) : setPc pcs t p t = p := by
  simp [setPc]

theorem setPc_other (pcs : Nat → PC) {t u : Nat} (p : PC) (h : u ≠ t) : setPc pcs t p u = pcs u := by
  simp [setPc, h]

/-- Characterisation of `step` as a relation (one disjunct per enabled transition). -/
theorem step_cases {s s' : State} {l : Label} (h : step s l = some s') :
    (∃ t, l = .inv t ∧ s.pcs t = .idle ∧
        s' = { s with pcs := setPc s.pcs t .started, log := .inv t :: s.log }) ∨
    (∃ t c, l = .clock t c ∧ s.pcs t = .started ∧ c ≤ cellMax ∧
        s' = { s with pcs := setPc s.pcs t (.haveClock c) }) ∨
    (∃ t c, l = .load t ∧ s.pcs t = .haveClock c ∧
        s' = { s with pcs := setPc s.pcs t (.loaded c s.cell) }) ∨
    (∃ t sp c last, l = .cas t sp ∧ s.pcs t = .loaded c last ∧ cellMax < last + 1 ∧
        s' = { s with pcs := setPc s.pcs t .panicked, log := .panic t :: s.log }) ∨
    (∃ t c last, l = .cas t false ∧ s.pcs t = .loaded c last ∧ last + 1 ≤ cellMax ∧ s.cell = last ∧
        s' = { cell := max c (last + 1), pcs := setPc s.pcs t (.done (max c (last + 1))),
               log := .lin t (max c (last + 1)) :: s.log }) ∨
    (∃ t sp c last, l = .cas t sp ∧ s.pcs t = .loaded c last ∧ last + 1 ≤ cellMax ∧
        s' = { s with pcs := setPc s.pcs t (.loaded c s.cell) }) ∨
    (∃ t v, l = .ret t ∧ s.pcs t = .done v ∧
        s' = { s with pcs := setPc s.pcs t .idle, log := .ret t v :: s.log }) ∨
    (∃ t, l = .ret t ∧ s.pcs t = .panicked ∧ s' = { s with pcs := setPc s.pcs t .idle }) := by
  cases l with
  | inv t =>
    simp only [step] at h
    split at h
    · rename_i hpc
      exact Or.inl ⟨t, rfl, hpc, by simpa using h.symm⟩
    · simp at h
  | clock t c =>
    simp only [step] at h
    split at h
    · rename_i hpc
      split at h
      · rename_i hc
        exact Or.inr (Or.inl ⟨t, c, rfl, hpc, hc, by simpa using h.symm⟩)
      · simp at h
    · simp at h
  | load t =>
    simp only [step] at h
    split at h
    · rename_i c hpc
      exact Or.inr (Or.inr (Or.inl ⟨t, c, rfl, hpc, by simpa using h.symm⟩))
    · simp at h
  | cas t sp =>
    simp only [step] at h
    split at h
    · rename_i c last hpc
      split at h
      · rename_i hov
        exact Or.inr (Or.inr (Or.inr (Or.inl ⟨t, sp, c, last, rfl, hpc, hov, by simpa using h.symm⟩)))
      · rename_i hov
        split at h
        · rename_i hc
          refine Or.inr (Or.inr (Or.inr (Or.inr (Or.inl ⟨t, c, last, ?_, hpc, by omega, hc.1, ?_⟩))))
          · rw [hc.2]
          · simpa using h.symm
        · exact Or.inr (Or.inr (Or.inr (Or.inr (Or.inr (Or.inl
            ⟨t, sp, c, last, rfl, hpc, by omega, by simpa using h.symm⟩)))))
    · simp at h
  | ret t =>
    simp only [step] at h
    split at h
    · rename_i v hpc
      exact Or.inr (Or.inr (Or.inr (Or.inr (Or.inr (Or.inr (Or.inl
        ⟨t, v, rfl, hpc, by simpa using h.symm⟩))))))
    · rename_i hpc
      exact Or.inr (Or.inr (Or.inr (Or.inr (Or.inr (Or.inr (Or.inr
        ⟨t, rfl, hpc, by simpa using h.symm⟩))))))
    · simp at h

/-! ### Invariant A: the cell dominates everything linearised so far -/

structure InvA (s : State) : Prop where
  cell_le : s.cell ≤ cellMax
  lin_le : ∀ v ∈ linVals s.log, v ≤ s.cell
  lin_sorted : (linVals s.log).Pairwise (· > ·)
  done_lin : ∀ t v, s.pcs t = .done v → v ∈ linVals s.log
  ret_lin : ∀ v ∈ retVals s.log, v ∈ linVals s.log
  clock_le : ∀ t c, s.pcs t = .haveClock c → c ≤ cellMax
  loaded_le : ∀ t c last, s.pcs t = .loaded c last → c ≤ cellMax ∧ last ≤ s.cell
  panicked_max : ∀ t, s.pcs t = .panicked → s.cell = cellMax
  panic_max : ∀ t ∈ panics s.log, s.cell = cellMax

theorem InvA.done_le {s : State} (h : InvA s) {t v : Nat} (hd : s.pcs t = .done v) : v ≤ s.cell :=
  h.lin_le v (h.done_lin t v hd)

theorem InvA.ret_le {s : State} (h : InvA s) {v : Nat} (hv : v ∈ retVals s.log) : v ≤ s.cell :=
  h.lin_le v (h.ret_lin v hv)

/-- Reading `setPc … t p u = q` back: either `u = t ∧ p = q` or the old pc. -/
theorem setPc_eq {pcs : Nat → PC} {t u : Nat} {p q : PC} (h : setPc pcs t p u = q) :
    (u = t ∧ p = q) ∨ (u ≠ t ∧ pcs u = q) := by
  unfold setPc at h
  by_cases hu : u = t
  · simp [hu] at h; exact Or.inl ⟨hu, h⟩
  · simp [hu] at h; exact Or.inr ⟨hu, h⟩

theorem invA_init {c0 : Nat} (h : c0 ≤ cellMax) : InvA (init c0) := by
  constructor <;> simp [init, linVals, retVals, panics, h]

theorem invA_step {s s' : State} {l : Label} (hs : InvA s) (h : step s l = some s') : InvA s' := by
  rcases step_cases h with
    ⟨t, -, hpc, rfl⟩ | ⟨t, c, -, hpc, hc, rfl⟩ | ⟨t, c, -, hpc, rfl⟩ | ⟨t, sp, c, last, -, hpc, hov, rfl⟩ |
    ⟨t, c, last, -, hpc, hov, hcell, rfl⟩ | ⟨t, sp, c, last, -, hpc, hov, rfl⟩ | ⟨t, v, -, hpc, rfl⟩ |
    ⟨t, -, hpc, rfl⟩
  · -- inv
    refine ⟨hs.cell_le, by simpa [linVals] using hs.lin_le, by simpa [linVals] using hs.lin_sorted,
      ?_, by simpa [linVals, retVals] using hs.ret_lin, ?_, ?_, ?_, by simpa [panics] using hs.panic_max⟩
    · intro u v hu; rcases setPc_eq hu with ⟨_, h'⟩ | ⟨_, h'⟩
      · cases h'
      · simpa [linVals] using hs.done_lin u v h'
    · intro u c hu; rcases setPc_eq hu with ⟨_, h'⟩ | ⟨_, h'⟩
      · cases h'
      · exact hs.clock_le u c h'
    · intro u c last hu; rcases setPc_eq hu with ⟨_, h'⟩ | ⟨_, h'⟩
      · cases h'
      · exact hs.loaded_le u c last h'
    · intro u hu; rcases setPc_eq hu with ⟨_, h'⟩ | ⟨_, h'⟩
      · cases h'
      · exact hs.panicked_max u h'
  · -- clock
    refine ⟨hs.cell_le, hs.lin_le, hs.lin_sorted, ?_, hs.ret_lin, ?_, ?_, ?_, hs.panic_max⟩
    · intro u v hu; rcases setPc_eq hu with ⟨_, h'⟩ | ⟨_, h'⟩
      · cases h'
      · exact hs.done_lin u v h'
    · intro u c' hu; rcases setPc_eq hu with ⟨_, h'⟩ | ⟨_, h'⟩
      · cases h'; exact hc
      · exact hs.clock_le u c' h'
    · intro u c' last hu; rcases setPc_eq hu with ⟨_, h'⟩ | ⟨_, h'⟩
      · cases h'
      · exact hs.loaded_le u c' last h'
    · intro u hu; rcases setPc_eq hu with ⟨_, h'⟩ | ⟨_, h'⟩
      · cases h'
      · exact hs.panicked_max u h'
  · -- load
    refine ⟨hs.cell_le, hs.lin_le, hs.lin_sorted, ?_, hs.ret_lin, ?_, ?_, ?_, hs.panic_max⟩
    · intro u v hu; rcases setPc_eq hu with ⟨_, h'⟩ | ⟨_, h'⟩
      · cases h'
      · exact hs.done_lin u v h'
    · intro u c' hu; rcases setPc_eq hu with ⟨_, h'⟩ | ⟨_, h'⟩
      · cases h'
      · exact hs.clock_le u c' h'
    · intro u c' last hu; rcases setPc_eq hu with ⟨_, h'⟩ | ⟨_, h'⟩
      · cases h'; exact ⟨hs.clock_le t c hpc, Nat.le_refl _⟩
      · exact hs.loaded_le u c' last h'
    · intro u hu; rcases setPc_eq hu with ⟨_, h'⟩ | ⟨_, h'⟩
      · cases h'
      · exact hs.panicked_max u h'
  · -- cas: overflow panic
    have hmax : s.cell = cellMax := by
      have := (hs.loaded_le t c last hpc).2
      have := hs.cell_le
      omega
    refine ⟨hs.cell_le, by simpa [linVals] using hs.lin_le, by simpa [linVals] using hs.lin_sorted,
      ?_, by simpa [linVals, retVals] using hs.ret_lin, ?_, ?_, fun _ _ => hmax, fun _ _ => hmax⟩
    · intro u v hu; rcases setPc_eq hu with ⟨_, h'⟩ | ⟨_, h'⟩
      · cases h'
      · simpa [linVals] using hs.done_lin u v h'
    · intro u c' hu; rcases setPc_eq hu with ⟨_, h'⟩ | ⟨_, h'⟩
      · cases h'
      · exact hs.clock_le u c' h'
    · intro u c' last' hu; rcases setPc_eq hu with ⟨_, h'⟩ | ⟨_, h'⟩
      · cases h'
      · exact hs.loaded_le u c' last' h'
  · -- cas: success
    have hcle := (hs.loaded_le t c last hpc).1
    have hgt : s.cell < max c (last + 1) := by omega
    refine ⟨by simp only []; omega, ?_, ?_, ?_, ?_, ?_, ?_, ?_, ?_⟩
    · intro v hv
      simp only [linVals, List.mem_cons] at hv
      rcases hv with rfl | hv
      · exact Nat.le_refl _
      · have := hs.lin_le v hv; simp only []; omega
    · simp only [linVals, List.pairwise_cons]
      exact ⟨fun v hv => by have := hs.lin_le v hv; omega, hs.lin_sorted⟩
    · intro u v hu; rcases setPc_eq hu with ⟨_, h'⟩ | ⟨_, h'⟩
      · cases h'; simp [linVals]
      · simp only [linVals, List.mem_cons]; exact Or.inr (hs.done_lin u v h')
    · intro v hv
      simp only [retVals] at hv
      simp only [linVals, List.mem_cons]; exact Or.inr (hs.ret_lin v hv)
    · intro u c' hu; rcases setPc_eq hu with ⟨_, h'⟩ | ⟨_, h'⟩
      · cases h'
      · exact hs.clock_le u c' h'
    · intro u c' last' hu; rcases setPc_eq hu with ⟨_, h'⟩ | ⟨_, h'⟩
      · cases h'
      · have := hs.loaded_le u c' last' h'; exact ⟨this.1, by simp only []; omega⟩
    · intro u hu; rcases setPc_eq hu with ⟨_, h'⟩ | ⟨_, h'⟩
      · cases h'
      · have := hs.panicked_max u h'; have := hs.cell_le; omega
    · intro u hu
      simp only [panics] at hu
      have := hs.panic_max u hu; have := hs.cell_le; omega
  · -- cas: failure (real or spurious)
    refine ⟨hs.cell_le, hs.lin_le, hs.lin_sorted, ?_, hs.ret_lin, ?_, ?_, ?_, hs.panic_max⟩
    · intro u v hu; rcases setPc_eq hu with ⟨_, h'⟩ | ⟨_, h'⟩
      · cases h'
      · exact hs.done_lin u v h'
    · intro u c' hu; rcases setPc_eq hu with ⟨_, h'⟩ | ⟨_, h'⟩
      · cases h'
      · exact hs.clock_le u c' h'
    · intro u c' last' hu; rcases setPc_eq hu with ⟨_, h'⟩ | ⟨_, h'⟩
      · cases h'; exact ⟨(hs.loaded_le t c last hpc).1, Nat.le_refl _⟩
      · exact hs.loaded_le u c' last' h'
    · intro u hu; rcases setPc_eq hu with ⟨_, h'⟩ | ⟨_, h'⟩
      · cases h'
      · exact hs.panicked_max u h'
  · -- ret
    refine ⟨hs.cell_le, by simpa [linVals] using hs.lin_le, by simpa [linVals] using hs.lin_sorted,
      ?_, ?_, ?_, ?_, ?_, by simpa [panics] using hs.panic_max⟩
    · intro u w hu; rcases setPc_eq hu with ⟨_, h'⟩ | ⟨_, h'⟩
      · cases h'
      · simpa [linVals] using hs.done_lin u w h'
    · intro w hw
      simp only [retVals, List.mem_cons] at hw
      simp only [linVals]
      rcases hw with rfl | hw
      · exact hs.done_lin t _ hpc
      · exact hs.ret_lin w hw
    · intro u c' hu; rcases setPc_eq hu with ⟨_, h'⟩ | ⟨_, h'⟩
      · cases h'
      · exact hs.clock_le u c' h'
    · intro u c' last' hu; rcases setPc_eq hu with ⟨_, h'⟩ | ⟨_, h'⟩
      · cases h'
      · exact hs.loaded_le u c' last' h'
    · intro u hu; rcases setPc_eq hu with ⟨_, h'⟩ | ⟨_, h'⟩
      · cases h'
      · exact hs.panicked_max u h'
  · -- ret after panic (unwinding finished)
    refine ⟨hs.cell_le, hs.lin_le, hs.lin_sorted, ?_, hs.ret_lin, ?_, ?_, ?_, hs.panic_max⟩
    · intro u v hu; rcases setPc_eq hu with ⟨_, h'⟩ | ⟨_, h'⟩
      · cases h'
      · exact hs.done_lin u v h'
    · intro u c' hu; rcases setPc_eq hu with ⟨_, h'⟩ | ⟨_, h'⟩
      · cases h'
      · exact hs.clock_le u c' h'
    · intro u c' last' hu; rcases setPc_eq hu with ⟨_, h'⟩ | ⟨_, h'⟩
      · cases h'
      · exact hs.loaded_le u c' last' h'
    · intro u hu; rcases setPc_eq hu with ⟨_, h'⟩ | ⟨_, h'⟩
      · cases h'
      · exact hs.panicked_max u h'

theorem invA_of_reachable {c0 : Nat} {s : State} (h : Reachable c0 s) : InvA s := by
  induction h with
  | init h0 => exact invA_init h0
  | step l _ hst ih => exact invA_step ih hst

/-! ### Invariant B: real-time order -/

structure InvB (s : State) : Prop where
  /-- a value about to be returned exceeds everything returned before its call started -/
  done_gt : ∀ t v, s.pcs t = .done v → ∀ x ∈ retVals (olderThanInv t s.log), x < v
  rt : RtOK s.log

theorem olderThanInv_cons_ne {t : Nat} {e : Event} (l : List Event) (h : e ≠ .inv t) :
    olderThanInv t (e :: l) = olderThanInv t l := by
  simp [olderThanInv, h]

theorem invB_init (c0 : Nat) : InvB (init c0) := by
  constructor <;> simp [init, RtOK]

theorem invB_step {s s' : State} {l : Label} (ha : InvA s) (hs : InvB s) (h : step s l = some s') :
    InvB s' := by
  rcases step_cases h with
    ⟨t, -, hpc, rfl⟩ | ⟨t, c, -, hpc, hc, rfl⟩ | ⟨t, c, -, hpc, rfl⟩ | ⟨t, sp, c, last, -, hpc, hov, rfl⟩ |
    ⟨t, c, last, -, hpc, hov, hcell, rfl⟩ | ⟨t, sp, c, last, -, hpc, hov, rfl⟩ | ⟨t, v, -, hpc, rfl⟩ |
    ⟨t, -, hpc, rfl⟩
  · -- inv t : thread t is idle, so no `done` pc of t; other threads keep their last inv
    refine ⟨?_, by simpa [RtOK] using hs.rt⟩
    intro u v hu; rcases setPc_eq hu with ⟨_, h'⟩ | ⟨hne, h'⟩
    · cases h'
    · rw [olderThanInv_cons_ne _ (by simp; exact fun h => hne h.symm)]
      exact hs.done_gt u v h'
  · refine ⟨?_, hs.rt⟩
    intro u v hu; rcases setPc_eq hu with ⟨_, h'⟩ | ⟨_, h'⟩
    · cases h'
    · exact hs.done_gt u v h'
  · refine ⟨?_, hs.rt⟩
    intro u v hu; rcases setPc_eq hu with ⟨_, h'⟩ | ⟨_, h'⟩
    · cases h'
    · exact hs.done_gt u v h'
  · refine ⟨?_, by simpa [RtOK] using hs.rt⟩
    intro u v hu; rcases setPc_eq hu with ⟨_, h'⟩ | ⟨_, h'⟩
    · cases h'
    · rw [olderThanInv_cons_ne _ (by simp)]
      exact hs.done_gt u v h'
  · -- successful CAS: the new value exceeds the cell, hence everything returned so far
    refine ⟨?_, by simpa [RtOK] using hs.rt⟩
    intro u v hu x hx
    rw [olderThanInv_cons_ne _ (by simp)] at hx
    rcases setPc_eq hu with ⟨_, h'⟩ | ⟨_, h'⟩
    · cases h'
      have hx' : x ∈ retVals s.log := by
        rw [mem_retVals] at hx ⊢
        obtain ⟨t', ht'⟩ := hx
        exact ⟨t', olderThanInv_subset ht'⟩
      have := ha.ret_le hx'
      omega
    · exact hs.done_gt u v h' x hx
  · refine ⟨?_, hs.rt⟩
    intro u v hu; rcases setPc_eq hu with ⟨_, h'⟩ | ⟨_, h'⟩
    · cases h'
    · exact hs.done_gt u v h'
  · -- ret
    refine ⟨?_, ?_⟩
    · intro u w hu; rcases setPc_eq hu with ⟨_, h'⟩ | ⟨_, h'⟩
      · cases h'
      · rw [olderThanInv_cons_ne _ (by simp)]
        exact hs.done_gt u w h'
    · simp only [RtOK]
      exact ⟨hs.done_gt t v hpc, hs.rt⟩
  · refine ⟨?_, hs.rt⟩
    intro u v hu; rcases setPc_eq hu with ⟨_, h'⟩ | ⟨_, h'⟩
    · cases h'
    · exact hs.done_gt u v h'

theorem invB_of_reachable {c0 : Nat} {s : State} (h : Reachable c0 s) : InvB s := by
  induction h with
  | init _ => exact invB_init _
  | step l hr hst ih => exact invB_step (invA_of_reachable hr) ih hst

/-! ### Invariant C: returned values are pairwise distinct -/

structure InvC (s : State) : Prop where
  ret_nodup : (retVals s.log).Nodup
  done_fresh : ∀ t v, s.pcs t = .done v → v ∉ retVals s.log
  done_inj : ∀ t u v, s.pcs t = .done v → s.pcs u = .done v → t = u

theorem invC_init (c0 : Nat) : InvC (init c0) := by
  constructor <;> simp [init, retVals]

theorem invC_step {s s' : State} {l : Label} (ha : InvA s) (hs : InvC s) (h : step s l = some s') :
    InvC s' := by
  rcases step_cases h with
    ⟨t, -, hpc, rfl⟩ | ⟨t, c, -, hpc, hc, rfl⟩ | ⟨t, c, -, hpc, rfl⟩ | ⟨t, sp, c, last, -, hpc, hov, rfl⟩ |
    ⟨t, c, last, -, hpc, hov, hcell, rfl⟩ | ⟨t, sp, c, last, -, hpc, hov, rfl⟩ | ⟨t, v, -, hpc, rfl⟩ |
    ⟨t, -, hpc, rfl⟩
  all_goals try
    (refine ⟨by simpa [retVals] using hs.ret_nodup, ?_, ?_⟩
     · intro u v hu; rcases setPc_eq hu with ⟨_, h'⟩ | ⟨_, h'⟩
       · cases h'
       · simpa [retVals] using hs.done_fresh u v h'
     · intro u u' v hu hu'
       rcases setPc_eq hu with ⟨_, h'⟩ | ⟨_, h'⟩
       · cases h'
       · rcases setPc_eq hu' with ⟨_, h''⟩ | ⟨_, h''⟩
         · cases h''
         · exact hs.done_inj u u' v h' h'')
  · -- successful CAS: the new value is above the cell, all other pending/returned values are not
    refine ⟨by simpa [retVals] using hs.ret_nodup, ?_, ?_⟩
    · intro u v hu; rcases setPc_eq hu with ⟨_, h'⟩ | ⟨_, h'⟩
      · cases h'
        simp only [retVals]
        intro hmem
        have := ha.ret_le hmem
        omega
      · simpa [retVals] using hs.done_fresh u v h'
    · intro u u' v hu hu'
      rcases setPc_eq hu with ⟨e1, h'⟩ | ⟨_, h'⟩
      · rcases setPc_eq hu' with ⟨e2, h''⟩ | ⟨_, h''⟩
        · rw [e1, e2]
        · cases h'
          have := ha.done_le h''
          omega
      · rcases setPc_eq hu' with ⟨_, h''⟩ | ⟨_, h''⟩
        · cases h''
          have := ha.done_le h'
          omega
        · exact hs.done_inj u u' v h' h''
  · -- ret
    refine ⟨?_, ?_, ?_⟩
    · simp only [retVals, List.nodup_cons]
      exact ⟨hs.done_fresh t v hpc, hs.ret_nodup⟩
    · intro u w hu; rcases setPc_eq hu with ⟨_, h'⟩ | ⟨hne, h'⟩
      · cases h'
      · simp only [retVals, List.mem_cons, not_or]
        refine ⟨?_, hs.done_fresh u w h'⟩
        intro hwv; subst hwv
        exact hne (hs.done_inj u t w h' hpc)
    · intro u u' w hu hu'
      rcases setPc_eq hu with ⟨_, h'⟩ | ⟨_, h'⟩
      · cases h'
      · rcases setPc_eq hu' with ⟨_, h''⟩ | ⟨_, h''⟩
        · cases h''
        · exact hs.done_inj u u' w h' h''

theorem invC_of_reachable {c0 : Nat} {s : State} (h : Reachable c0 s) : InvC s := by
  induction h with
  | init _ => exact invC_init _
  | step l hr hst ih => exact invC_step (invA_of_reachable hr) ih hst

end IrohModel.C33
