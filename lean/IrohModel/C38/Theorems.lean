/-
C38 — property theorems (only).  Statement of the property: once a publish for
a key has been acknowledged as an update, no later DNS answer or packet read
for that key reflects an older packet, whatever the interleaving with
concurrent lookups that populate the answer cache.

"Later" = the lookup's first step (taking the cache lock) comes after the
acknowledgement; a lookup that overlaps the publish may still answer from the
zone it read before.  `NotOlder v x` = `moreRecentThan x v = false`: `v` is at
least as recent as `x` (timestamp, then payload bytes).  The system is
`codeSys old warm`: any number of lookups and publishes spawned at any time,
every interleaving of their steps (see Model.lean for the atomicity), LRU
evictions at any time, starting from a store holding `old` with a cold or warm
cache.  The LTS covers one key; other keys interact only through the global
cache lock, which the step guards already allow to be taken at any time.
-/
import IrohModel.C38.Lemmas

namespace IrohModel.C38
open IrohModel.Pkarr IrohModel.LTS

/-- The source holds the cache lock from the cache miss to the cache fill and invalidates
the cache after the store write (constants extracted from `resolve` / `insert`). -/
theorem code_shape : Generated.C38.lockHeldAcrossStoreRead = true ∧
    Generated.C38.invalidateAfterUpsert = true := ⟨rfl, rfl⟩

theorem codeSys_eq (old : Option Packet) (warm : Bool) : codeSys old warm = sys true old warm := rfl

/-- Ghost-variable form: every finished lookup answered from a zone at least as recent as
every publish that had been acknowledged (as an update) when the lookup started — in
every reachable state, i.e. for every number of threads and every interleaving. -/
theorem no_stale_after_ack {old : Option Packet} {warm : Bool} {s : State}
    (h : Reachable (codeSys old warm) s) {i : Nat} {snap : List Packet} {ans : Option Packet}
    (hi : s.threads[i]? = some (.lDone snap ans)) {x : Packet} (hx : x ∈ snap) :
    ∃ v, ans = some v ∧ NotOlder v x :=
  (inv_reachable h).threads i _ hi x hx

/-- A packet read (`get_signed_packet`, the pkarr GET route) after the acknowledgement of
`x` returns a packet at least as recent as `x`. -/
theorem packet_read_not_stale {old : Option Packet} {warm : Bool} {s : State}
    (h : Reachable (codeSys old warm) s) {j : Nat} {x : Packet}
    (hj : s.threads[j]? = some (.pDone x true)) :
    ∃ v, s.store = some v ∧ NotOlder v x :=
  (inv_reachable h).store_ge x ⟨j, _, hj, Or.inr rfl⟩

/-- The snapshot a lookup carries once it has started. -/
def snapOf : Thread → Option (List Packet)
  | .lGet snap => some snap
  | .lFill snap _ => some snap
  | .lDone snap _ => some snap
  | _ => none

theorem mem_acked {ts : List Thread} {j : Nat} {x : Packet} (h : ts[j]? = some (.pDone x true)) :
    x ∈ ackedOf ts := by
  unfold ackedOf
  rw [List.mem_filterMap]
  exact ⟨_, List.mem_iff_getElem?.mpr ⟨j, h⟩, rfl⟩

/-- How one step changes the thread that takes it; every other thread is untouched. -/
theorem run_inv {hold : Bool} {s s' : State} {k : Nat} (hs : step hold s (.run k) = some s') :
    ∃ t t', s.threads[k]? = some t ∧ s'.threads = s.threads.set k t' ∧
      (∀ snap, snapOf t = some snap → snapOf t' = some snap) ∧
      (snapOf t = none → snapOf t' = none ∨ snapOf t' = some (ackedOf s.threads)) ∧
      (∀ x b, t ≠ .pDone x b) := by
  obtain ⟨st, ca, lk, ts⟩ := s
  simp only [step] at hs
  cases hk : ts[k]? with
  | none => rw [hk] at hs; cases hs
  | some t =>
    rw [hk] at hs
    refine ⟨t, ?_⟩
    cases t with
    | lCheck =>
      simp only at hs
      split at hs
      · cases hs
      · cases ca with
        | some c =>
          simp only [Option.some.injEq] at hs; subst hs
          exact ⟨_, rfl, rfl, by simp [snapOf], by simp [snapOf], by simp⟩
        | none =>
          simp only [Option.some.injEq] at hs; subst hs
          exact ⟨_, rfl, rfl, by simp [snapOf], by simp [snapOf], by simp⟩
    | lGet snap =>
      cases st with
      | none =>
        simp only [Option.some.injEq] at hs; subst hs
        exact ⟨_, rfl, rfl, by simp [snapOf], by simp [snapOf], by simp⟩
      | some r =>
        simp only [Option.some.injEq] at hs; subst hs
        exact ⟨_, rfl, rfl, by simp [snapOf], by simp [snapOf], by simp⟩
    | lFill snap r =>
      simp only at hs
      split at hs
      · cases hs
      · simp only [Option.some.injEq] at hs; subst hs
        exact ⟨_, rfl, rfl, by simp [snapOf], by simp [snapOf], by simp⟩
    | lDone snap a => cases hs
    | pUpsert p =>
      simp only [Option.some.injEq] at hs; subst hs
      refine ⟨_, rfl, rfl, by simp [snapOf], ?_, by simp⟩
      intro _; left
      by_cases hu : (upsert st p).2 = true <;> simp [hu, snapOf]
    | pRemove p =>
      simp only at hs
      split at hs
      · cases hs
      · simp only [Option.some.injEq] at hs; subst hs
        exact ⟨_, rfl, rfl, by simp [snapOf], by simp [snapOf], by simp⟩
    | pAck p =>
      simp only [Option.some.injEq] at hs; subst hs
      exact ⟨_, rfl, rfl, by simp [snapOf], by simp [snapOf], by simp⟩
    | pDone p b => cases hs

/-- Trace form, without ghost state: if publish thread `j` has returned `true` for packet
`x` in state `s₁`, and lookup thread `i` has not taken its first step in `s₁` (or does
not exist yet), then in any later state where lookup `i` has finished, its answer is a
zone at least as recent as `x`. -/
theorem later_lookup_not_stale {old : Option Packet} {warm : Bool} {s₁ s₂ : State}
    (h₁ : Reachable (codeSys old warm) s₁) (hsteps : Steps (codeSys old warm) s₁ s₂)
    {i j : Nat} {x : Packet} (hj : s₁.threads[j]? = some (.pDone x true))
    (hi : s₁.threads[i]? = some .lCheck ∨ s₁.threads.length ≤ i)
    {snap : List Packet} {ans : Option Packet} (hdone : s₂.threads[i]? = some (.lDone snap ans)) :
    ∃ v, ans = some v ∧ NotOlder v x := by
  let Q : State → Prop := fun s =>
    s.threads[j]? = some (.pDone x true) ∧
    ∀ t sn, s.threads[i]? = some t → snapOf t = some sn → x ∈ sn
  have hQ₁ : Q s₁ := by
    refine ⟨hj, ?_⟩
    intro t sn ht hsn
    rcases hi with hi | hi
    · rw [hi] at ht; cases ht; simp [snapOf] at hsn
    · rw [List.getElem?_eq_none hi] at ht; cases ht
  have hQ₂ : Q s₂ := by
    refine steps_induction Q ?_ hsteps hQ₁
    intro s l s' hq hs
    obtain ⟨hqj, hqi⟩ := hq
    have happ : ∀ (t0 : Thread), snapOf t0 = none →
        Q { s with threads := s.threads ++ [t0] } := by
      intro t0 ht0
      have hjlt : j < s.threads.length := by
        rcases Nat.lt_or_ge j s.threads.length with h | h
        · exact h
        · rw [List.getElem?_eq_none h] at hqj; cases hqj
      refine ⟨by simp only; rw [List.getElem?_append_left hjlt]; exact hqj, ?_⟩
      intro t sn ht hsn
      simp only at ht
      rw [List.getElem?_append] at ht
      split at ht
      · exact hqi t sn ht hsn
      · rcases Nat.eq_zero_or_pos (i - s.threads.length) with h0 | h0
        · rw [h0] at ht; simp at ht; subst ht; rw [ht0] at hsn; cases hsn
        · rw [List.getElem?_eq_none (by simp; omega)] at ht; cases ht
    cases l with
    | spawnLookup =>
      simp only [codeSys, sys, step, Option.some.injEq] at hs; subst hs
      exact happ .lCheck rfl
    | spawnPublish p =>
      simp only [codeSys, sys, step, Option.some.injEq] at hs; subst hs
      exact happ (.pUpsert p) rfl
    | cacheDrop =>
      simp only [codeSys, sys, step, Option.some.injEq] at hs; subst hs
      exact ⟨hqj, hqi⟩
    | run k =>
      obtain ⟨t, t', hk, hth, hkeep, hnew, hnd⟩ := run_inv hs
      have hkj : k ≠ j := by
        intro hkj; subst hkj; rw [hqj] at hk; cases hk; exact hnd x true rfl
      refine ⟨?_, ?_⟩
      · rw [hth, List.getElem?_set]; simp only [hkj, if_false]; exact hqj
      · intro u sn hu hsn
        rw [hth] at hu
        rcases getElem?_set_cases hu with ⟨rfl, rfl⟩ | ⟨_, hu'⟩
        · cases hso : snapOf t with
          | some sn0 =>
            have := hkeep sn0 hso
            rw [this] at hsn; cases hsn
            exact hqi t sn hk hso
          | none =>
            rcases hnew hso with h' | h'
            · rw [h'] at hsn; cases hsn
            · rw [h'] at hsn; cases hsn; exact mem_acked hqj
        · exact hqi u sn hu' hsn
  have hx : x ∈ snap := hQ₂.2 _ snap hdone rfl
  exact no_stale_after_ack (reachable_of_steps h₁ hsteps) hdone hx

/-! ### The defect that was repaired: without the lock the stale zone is served -/

private def pOld : Packet := ⟨0, 0, 5, [0, 7]⟩
private def pNew : Packet := ⟨0, 0, 6, [0, 0]⟩

/-- Schedule of DESIGN §6 D16: lookup misses and reads `pOld`; publish of `pNew` upserts,
invalidates, is acknowledged; the lookup then caches `pOld`; a lookup started afterwards is
answered from `pOld`. -/
private def staleSchedule : List Label :=
  [.spawnLookup, .spawnPublish pNew, .run 1, .run 1, .run 2, .run 2, .run 2, .run 1,
   .spawnLookup, .run 3]

/-- With the lock released between cache miss and cache fill (`hold = false`, the code
before the `fix:` commit) the property fails: a lookup started after the acknowledgement
of `pNew` is answered from the older `pOld`. -/
theorem counterexample_without_lock :
    ∃ (ls : List Label) (i : Nat) (snap : List Packet) (ans x : Packet),
      (run (sys false (some pOld) false) (sys false (some pOld) false).init ls).threads[i]? =
        some (.lDone snap (some ans)) ∧ x ∈ snap ∧ moreRecentThan x ans = true :=
  ⟨staleSchedule, 3, [pOld, pNew], pOld, pNew, by decide, by decide, by decide⟩

/-- The same schedule on the code as it is: the invalidation has to wait for the lookup
(its step is not enabled while the lookup holds the lock; `run` skips it), it happens
after the lookup's cache fill, and a lookup started after the acknowledgement is answered
from `pNew`. -/
theorem same_schedule_with_lock :
    (run (codeSys (some pOld) false) (codeSys (some pOld) false).init
      (staleSchedule ++ [.run 2, .run 2, .spawnLookup, .run 4, .run 4, .run 4])).threads[4]? =
      some (.lDone [pOld, pNew] (some pNew)) := by decide

-- Non-vacuity: reachable states with finished lookups whose snapshot is not empty exist
-- (previous theorem), acknowledged publishes exist, and `Steps`/`Reachable` are inhabited.
example : Reachable (codeSys (some pOld) false)
    (run (codeSys (some pOld) false) (codeSys (some pOld) false).init staleSchedule) :=
  reachable_run _ _
example : (run (codeSys (some pOld) false) (codeSys (some pOld) false).init
    (staleSchedule ++ [.run 2, .run 2])).threads[2]? = some (.pDone pNew true) := by decide

end IrohModel.C38
