/-
C38 — helper lemmas: the inductive invariant of the LTS with the cache lock
held across the store read (`hold = true`).
-/
import IrohModel.C38.Model

namespace IrohModel.C38
open IrohModel.Pkarr IrohModel.LTS

theorem moreRecent_eq : moreRecent = moreRecentThan := by
  funext a b
  simp only [moreRecent, Generated.C38.tsOp, Generated.C38.tieOp, moreRecentBy_gt_gt]

theorem upsert_def (st : Option Packet) (p : Packet) :
    upsert st p = match st with
      | some e => if moreRecentThan e p then (st, false) else (some p, true)
      | none => (some p, true) := by
  unfold upsert; cases st <;> simp [moreRecent_eq]

/-- `x ≤ v` in the recency order. -/
abbrev NotOlder (v x : Packet) : Prop := moreRecentThan x v = false

/-- The store only moves forward: whatever it was at least as recent as, it still is. -/
theorem upsert_mono {st : Option Packet} {p x v : Packet} (hv : st = some v) (hx : NotOlder v x) :
    ∃ v', (upsert st p).1 = some v' ∧ NotOlder v' x := by
  subst hv
  rw [upsert_def]
  by_cases h : moreRecentThan v p = true
  · exact ⟨v, by simp [h], hx⟩
  · have h' : moreRecentThan v p = false := by
      cases h'' : moreRecentThan v p <;> simp_all
    exact ⟨p, by simp [h'], mr_neg_trans hx h'⟩

/-- After an upsert that reported an update the store holds the packet itself. -/
theorem upsert_updated {st : Option Packet} {p : Packet} (h : (upsert st p).2 = true) :
    (upsert st p).1 = some p := by
  rw [upsert_def] at h ⊢
  cases st with
  | none => rfl
  | some e =>
    by_cases h' : moreRecentThan e p = true
    · simp [h'] at h
    · simp [h']

theorem fill_cases (cache : Option Packet) (r : Packet) :
    fill cache r = r ∨ cache = some (fill cache r) := by
  unfold fill
  cases cache with
  | none => exact Or.inl rfl
  | some c => by_cases h : cachedNewer c r = true <;> simp [h]

/-- Thread `t` witnesses that the publish of `x` has invalidated the cache. -/
def Wit (t : Thread) (x : Packet) : Prop := t = .pAck x ∨ t = .pDone x true

/-- The publish of `x` has passed its cache invalidation (it is acknowledged or about to be). -/
def Removed (ts : List Thread) (x : Packet) : Prop := ∃ (j : Nat) (t : Thread), ts[j]? = some t ∧ Wit t x

theorem acked_removed {ts : List Thread} {x : Packet} (h : x ∈ ackedOf ts) : Removed ts x := by
  unfold ackedOf at h
  rw [List.mem_filterMap] at h
  obtain ⟨t, ht, hm⟩ := h
  obtain ⟨j, hj⟩ := List.mem_iff_getElem?.mp ht
  refine ⟨j, t, hj, ?_⟩
  cases t with
  | pDone p b =>
    cases b with
    | true => simp at hm; subst hm; exact Or.inr rfl
    | false => simp at hm
  | _ => simp at hm

theorem getElem?_set_cases {ts : List Thread} {i j : Nat} {t' u : Thread}
    (h : (ts.set i t')[j]? = some u) : (j = i ∧ u = t') ∨ (j ≠ i ∧ ts[j]? = some u) := by
  rw [List.getElem?_set] at h
  by_cases hij : i = j
  · subst hij
    simp only [if_true] at h
    split at h
    · left; exact ⟨rfl, by simpa using h.symm⟩
    · cases h
  · simp only [hij, if_false] at h
    right; exact ⟨fun h' => hij h'.symm, h⟩

theorem removed_set_mono {ts : List Thread} {i : Nat} {t t' : Thread} {x : Packet}
    (hi : ts[i]? = some t) (hw : Wit t x → Wit t' x) (h : Removed ts x) :
    Removed (ts.set i t') x := by
  obtain ⟨j, u, hj, hu⟩ := h
  have hlt : i < ts.length := by
    rcases Nat.lt_or_ge i ts.length with h | h
    · exact h
    · rw [List.getElem?_eq_none h] at hi; cases hi
  by_cases hij : j = i
  · subst hij
    rw [hi] at hj; cases hj
    exact ⟨j, t', by simp [List.getElem?_set, hlt], hw hu⟩
  · have hne : ¬ i = j := fun h => hij h.symm
    exact ⟨j, u, by rw [List.getElem?_set]; simp only [hne, if_false]; exact hj, hu⟩

theorem removed_set_inv {ts : List Thread} {i : Nat} {t' : Thread} {x : Packet}
    (h : Removed (ts.set i t') x) : Wit t' x ∨ Removed ts x := by
  obtain ⟨j, u, hj, hu⟩ := h
  rcases getElem?_set_cases hj with ⟨_, rfl⟩ | ⟨_, hj'⟩
  · exact Or.inl hu
  · exact Or.inr ⟨j, u, hj', hu⟩

theorem removed_append {ts : List Thread} {t : Thread} {x : Packet} (hn : ¬ Wit t x) :
    Removed (ts ++ [t]) x ↔ Removed ts x := by
  constructor
  · rintro ⟨j, u, hj, hu⟩
    rw [List.getElem?_append] at hj
    split at hj
    · exact ⟨j, u, hj, hu⟩
    · rcases Nat.eq_zero_or_pos (j - ts.length) with h0 | h0
      · rw [h0] at hj; simp at hj; subst hj; exact absurd hu hn
      · rw [List.getElem?_eq_none (by simp; omega)] at hj; cases hj
  · rintro ⟨j, u, hj, hu⟩
    have hlt : j < ts.length := by
      rcases Nat.lt_or_ge j ts.length with h | h
      · exact h
      · rw [List.getElem?_eq_none h] at hj; cases hj
    exact ⟨j, u, by rw [List.getElem?_append_left hlt]; exact hj, hu⟩

/-- What the invariant says about thread `i` in state `s`. -/
def ThreadOK (s : State) (i : Nat) : Thread → Prop
  | .lCheck => True
  | .lGet snap => s.lock = some i ∧ ∀ x ∈ snap, Removed s.threads x
  | .lFill snap r => s.lock = some i ∧ (∀ x ∈ snap, Removed s.threads x) ∧
      ∀ x, Removed s.threads x → NotOlder r x
  | .lDone snap a => ∀ x ∈ snap, ∃ v, a = some v ∧ NotOlder v x
  | .pUpsert _ => True
  | .pRemove p => ∃ v, s.store = some v ∧ NotOlder v p
  | .pAck _ => True
  | .pDone _ _ => True

structure Inv (s : State) : Prop where
  store_ge : ∀ x, Removed s.threads x → ∃ v, s.store = some v ∧ NotOlder v x
  cache_ge : ∀ x c, Removed s.threads x → s.cache = some c → NotOlder c x
  threads : ∀ i t, s.threads[i]? = some t → ThreadOK s i t

/-- Frame rule: a thread's part of the invariant survives a step of another thread. -/
theorem threadOK_frame {s s' : State} {j : Nat} {t : Thread} (h : ThreadOK s j t)
    (hlock : s.lock = some j → s'.lock = some j)
    (hrem : ∀ x, Removed s.threads x → Removed s'.threads x)
    (hrem' : s.lock = some j → ∀ x, Removed s'.threads x → Removed s.threads x)
    (hstore : ∀ p v, s.store = some v → NotOlder v p → ∃ v', s'.store = some v' ∧ NotOlder v' p) :
    ThreadOK s' j t := by
  cases t with
  | lCheck => trivial
  | lGet snap => exact ⟨hlock h.1, fun x hx => hrem x (h.2 x hx)⟩
  | lFill snap r =>
    exact ⟨hlock h.1, fun x hx => hrem x (h.2.1 x hx), fun x hx => h.2.2 x (hrem' h.1 x hx)⟩
  | lDone snap a => exact h
  | pUpsert p => trivial
  | pRemove p => obtain ⟨v, hv, hp⟩ := h; exact hstore p v hv hp
  | pAck p => trivial
  | pDone p b => trivial

theorem inv_init (old : Option Packet) (warm : Bool) : Inv (initState old warm) := by
  cases old with
  | none =>
    refine ⟨?_, ?_, ?_⟩
    · rintro x ⟨j, t, hj, _⟩; simp [initState] at hj
    · rintro x c ⟨j, t, hj, _⟩; simp [initState] at hj
    · intro i t hi; simp [initState] at hi
  | some p =>
    have hrem : ∀ x, Removed (initState (some p) warm).threads x → x = p := by
      rintro x ⟨j, t, hj, hw⟩
      simp only [initState] at hj
      cases j with
      | zero =>
        simp at hj; subst hj
        rcases hw with h | h <;> simp at h
        exact h.symm
      | succ n => simp at hj
    refine ⟨?_, ?_, ?_⟩
    · intro x hx; rw [hrem x hx]; exact ⟨p, rfl, mr_irrefl p⟩
    · intro x c hx hc
      rw [hrem x hx]
      cases warm <;> simp [initState] at hc
      subst hc; exact mr_irrefl _
    · intro i t hi
      simp only [initState] at hi
      cases i with
      | zero => simp at hi; subst hi; trivial
      | succ n => simp at hi

theorem threads_step {s s' : State} {i : Nat} {t' : Thread} (h : Inv s)
    (hth : s'.threads = s.threads.set i t')
    (hself : ThreadOK s' i t')
    (hlock : ∀ j, j ≠ i → s.lock = some j → s'.lock = some j)
    (hrem : ∀ x, Removed s.threads x → Removed s'.threads x)
    (hrem' : ∀ j, j ≠ i → s.lock = some j → ∀ x, Removed s'.threads x → Removed s.threads x)
    (hstore : ∀ p v, s.store = some v → NotOlder v p → ∃ v', s'.store = some v' ∧ NotOlder v' p) :
    ∀ j u, s'.threads[j]? = some u → ThreadOK s' j u := by
  intro j u hj
  rw [hth] at hj
  rcases getElem?_set_cases hj with ⟨rfl, rfl⟩ | ⟨hne, hj'⟩
  · exact hself
  · exact threadOK_frame (h.threads j u hj') (hlock j hne) hrem (hrem' j hne) hstore

theorem not_wit_lCheck (x : Packet) : ¬ Wit .lCheck x := by rintro (h | h) <;> cases h
theorem not_wit_lGet (snap : List Packet) (x : Packet) : ¬ Wit (.lGet snap) x := by
  rintro (h | h) <;> cases h
theorem not_wit_lFill (snap : List Packet) (r x : Packet) : ¬ Wit (.lFill snap r) x := by
  rintro (h | h) <;> cases h
theorem not_wit_lDone (snap : List Packet) (a : Option Packet) (x : Packet) :
    ¬ Wit (.lDone snap a) x := by rintro (h | h) <;> cases h
theorem not_wit_pUpsert (p x : Packet) : ¬ Wit (.pUpsert p) x := by rintro (h | h) <;> cases h
theorem not_wit_pRemove (p x : Packet) : ¬ Wit (.pRemove p) x := by rintro (h | h) <;> cases h
theorem not_wit_pDone_false (p x : Packet) : ¬ Wit (.pDone p false) x := by
  rintro (h | h) <;> cases h

theorem inv_append {s : State} (h : Inv s) (t : Thread) (hn : ∀ x, ¬ Wit t x)
    (hok : ∀ s' i, ThreadOK s' i t) : Inv { s with threads := s.threads ++ [t] } := by
  refine ⟨?_, ?_, ?_⟩
  · intro x hx; exact h.store_ge x ((removed_append (hn x)).mp hx)
  · intro x c hx hc; exact h.cache_ge x c ((removed_append (hn x)).mp hx) hc
  · intro j u hj
    simp only at hj
    rw [List.getElem?_append] at hj
    split at hj
    · exact threadOK_frame (h.threads j u hj) (fun hl => hl)
        (fun x hx => (removed_append (hn x)).mpr hx)
        (fun _ x hx => (removed_append (hn x)).mp hx)
        (fun p v hv hp => ⟨v, hv, hp⟩)
    · rcases Nat.eq_zero_or_pos (j - s.threads.length) with h0 | h0
      · rw [h0] at hj; simp at hj; subst hj; exact hok _ _
      · rw [List.getElem?_eq_none (by simp; omega)] at hj; cases hj

/-- The invariant is preserved by every step of the system that holds the cache lock
across the store read. -/
theorem inv_step {s s' : State} {l : Label} (h : Inv s) (hs : step true s l = some s') : Inv s' := by
  cases l with
  | spawnLookup =>
    simp only [step, Option.some.injEq] at hs; subst hs
    exact inv_append h .lCheck not_wit_lCheck (fun _ _ => trivial)
  | spawnPublish p =>
    simp only [step, Option.some.injEq] at hs; subst hs
    exact inv_append h (.pUpsert p) (not_wit_pUpsert p) (fun _ _ => trivial)
  | cacheDrop =>
    simp only [step, Option.some.injEq] at hs; subst hs
    refine ⟨h.store_ge, ?_, ?_⟩
    · intro x c _ hc; cases hc
    · intro j u hj
      exact threadOK_frame (h.threads j u hj) (fun hl => hl) (fun _ hx => hx) (fun _ _ hx => hx)
        (fun p v hv hp => ⟨v, hv, hp⟩)
  | run i =>
    obtain ⟨st, ca, lk, ts⟩ := s
    simp only [step] at hs
    cases hi : ts[i]? with
    | none => rw [hi] at hs; cases hs
    | some t =>
      rw [hi] at hs
      have hti := h.threads i t hi
      have hsg := h.store_ge
      have hcg := h.cache_ge
      simp only at hsg hcg
      cases t with
      | lCheck =>
        cases lk with
        | some k => simp at hs
        | none =>
          cases ca with
          | some c =>
            simp only [Option.isSome_none, Bool.false_eq_true, if_false, Option.some.injEq] at hs
            subst hs
            have hinv : ∀ x, Removed (ts.set i (.lDone (ackedOf ts) (some c))) x → Removed ts x :=
              fun x hx => (removed_set_inv hx).resolve_left (not_wit_lDone _ _ x)
            refine ⟨fun x hx => hsg x (hinv x hx), fun x c' hx hc' => hcg x c' (hinv x hx) hc', ?_⟩
            apply threads_step h rfl
            · intro x hx
              exact ⟨c, rfl, hcg x c (acked_removed hx) rfl⟩
            · intro j _ hl; exact hl
            · intro x hx; exact removed_set_mono hi (fun hw => absurd hw (not_wit_lCheck x)) hx
            · intro j _ _ x hx; exact hinv x hx
            · intro p v hv hp; exact ⟨v, hv, hp⟩
          | none =>
            simp only [Option.isSome_none, Bool.false_eq_true, if_false, if_true,
              Option.some.injEq] at hs
            subst hs
            have hinv : ∀ x, Removed (ts.set i (.lGet (ackedOf ts))) x → Removed ts x :=
              fun x hx => (removed_set_inv hx).resolve_left (not_wit_lGet _ x)
            have hmono : ∀ x, Removed ts x → Removed (ts.set i (.lGet (ackedOf ts))) x :=
              fun x hx => removed_set_mono hi (fun hw => absurd hw (not_wit_lCheck x)) hx
            refine ⟨fun x hx => hsg x (hinv x hx), fun x c' hx hc' => hcg x c' (hinv x hx) hc', ?_⟩
            apply threads_step h rfl
            · exact ⟨rfl, fun x hx => hmono x (acked_removed hx)⟩
            · intro j _ hl; cases hl
            · exact hmono
            · intro j _ _ x hx; exact hinv x hx
            · intro p v hv hp; exact ⟨v, hv, hp⟩
      | lGet snap =>
        obtain ⟨hlk, hsnap⟩ := hti
        simp only at hlk hsnap
        cases st with
        | none =>
          simp only [if_true, Option.some.injEq] at hs; subst hs
          have hinv : ∀ x, Removed (ts.set i (.lDone snap none)) x → Removed ts x :=
            fun x hx => (removed_set_inv hx).resolve_left (not_wit_lDone _ _ x)
          refine ⟨fun x hx => hsg x (hinv x hx), fun x c' hx hc' => hcg x c' (hinv x hx) hc', ?_⟩
          apply threads_step h rfl
          · intro x hx
            obtain ⟨v, hv, _⟩ := hsg x (hsnap x hx)
            cases hv
          · intro j hne hl
            simp only at hl; rw [hlk] at hl; cases hl; exact absurd rfl hne
          · intro x hx; exact removed_set_mono hi (fun hw => absurd hw (not_wit_lGet _ x)) hx
          · intro j _ _ x hx; exact hinv x hx
          · intro p v hv hp; exact ⟨v, hv, hp⟩
        | some r =>
          simp only [Option.some.injEq] at hs; subst hs
          have hinv : ∀ x, Removed (ts.set i (.lFill snap r)) x → Removed ts x :=
            fun x hx => (removed_set_inv hx).resolve_left (not_wit_lFill _ _ x)
          have hmono : ∀ x, Removed ts x → Removed (ts.set i (.lFill snap r)) x :=
            fun x hx => removed_set_mono hi (fun hw => absurd hw (not_wit_lGet _ x)) hx
          refine ⟨fun x hx => hsg x (hinv x hx), fun x c' hx hc' => hcg x c' (hinv x hx) hc', ?_⟩
          apply threads_step h rfl
          · refine ⟨hlk, fun x hx => hmono x (hsnap x hx), ?_⟩
            intro x hx
            obtain ⟨v, hv, hxv⟩ := hsg x (hinv x hx)
            cases hv; exact hxv
          · intro j _ hl; exact hl
          · exact hmono
          · intro j _ _ x hx; exact hinv x hx
          · intro p v hv hp; exact ⟨v, hv, hp⟩
      | lFill snap r =>
        obtain ⟨hlk, hsnap, hr⟩ := hti
        simp only at hlk hsnap hr
        simp only [Bool.not_true, Bool.false_and, Bool.false_eq_true, if_false,
          Option.some.injEq] at hs
        subst hs
        have hinv : ∀ x, Removed (ts.set i (.lDone snap (some (fill ca r)))) x → Removed ts x :=
          fun x hx => (removed_set_inv hx).resolve_left (not_wit_lDone _ _ x)
        have hfill : ∀ x, Removed ts x → NotOlder (fill ca r) x := by
          intro x hx
          rcases fill_cases ca r with hf | hf
          · rw [hf]; exact hr x hx
          · exact hcg x _ hx hf
        refine ⟨fun x hx => hsg x (hinv x hx), ?_, ?_⟩
        · intro x c' hx hc'
          simp only [Option.some.injEq] at hc'
          rw [← hc']; exact hfill x (hinv x hx)
        · apply threads_step h rfl
          · intro x hx; exact ⟨_, rfl, hfill x (hsnap x hx)⟩
          · intro j hne hl
            simp only at hl; rw [hlk] at hl; cases hl; exact absurd rfl hne
          · intro x hx; exact removed_set_mono hi (fun hw => absurd hw (not_wit_lFill _ _ x)) hx
          · intro j _ _ x hx; exact hinv x hx
          · intro p v hv hp; exact ⟨v, hv, hp⟩
      | lDone snap a => cases hs
      | pUpsert p =>
        simp only [Option.some.injEq] at hs; subst hs
        have hnw : ∀ x, ¬ Wit (if (upsert st p).2 = true then Thread.pRemove p
            else Thread.pDone p false) x := by
          intro x
          by_cases hu : (upsert st p).2 = true
          · simp only [hu, if_true]; exact not_wit_pRemove p x
          · simp only [hu, if_false]; exact not_wit_pDone_false p x
        have hinv : ∀ x, Removed (ts.set i (if (upsert st p).2 = true
            then Thread.pRemove p else Thread.pDone p false)) x → Removed ts x :=
          fun x hx => (removed_set_inv hx).resolve_left (hnw x)
        have hstore : ∀ q v, st = some v → NotOlder v q →
            ∃ v', (upsert st p).1 = some v' ∧ NotOlder v' q :=
          fun q v hv hq => upsert_mono hv hq
        refine ⟨?_, fun x c' hx hc' => hcg x c' (hinv x hx) hc', ?_⟩
        · intro x hx
          obtain ⟨v, hv, hxv⟩ := hsg x (hinv x hx)
          exact hstore x v hv hxv
        · apply threads_step h rfl
          · by_cases hu : (upsert st p).2 = true
            · simp only [hu, if_true]
              exact ⟨p, upsert_updated hu, mr_irrefl p⟩
            · simp only [hu, if_false]; trivial
          · intro j _ hl; exact hl
          · intro x hx; exact removed_set_mono hi (fun hw => absurd hw (not_wit_pUpsert p x)) hx
          · intro j _ _ x hx; exact hinv x hx
          · exact hstore
      | pRemove p =>
        obtain ⟨v, hv, hpv⟩ := hti
        simp only at hv
        cases lk with
        | some k => simp at hs
        | none =>
          simp only [Option.isSome_none, Bool.false_eq_true, if_false, Option.some.injEq] at hs
          subst hs
          refine ⟨?_, fun x c' _ hc' => (by cases hc'), ?_⟩
          · intro x hx
            rcases removed_set_inv hx with hw | hx'
            · rcases hw with hw | hw
              · cases hw; exact ⟨v, hv, hpv⟩
              · cases hw
            · exact hsg x hx'
          · apply threads_step h rfl
            · trivial
            · intro j _ hl; cases hl
            · intro x hx; exact removed_set_mono hi (fun hw => absurd hw (not_wit_pRemove p x)) hx
            · intro j _ hl; cases hl
            · intro q v' hv' hq; exact ⟨v', hv', hq⟩
      | pAck p =>
        simp only [Option.some.injEq] at hs; subst hs
        have hinv : ∀ x, Removed (ts.set i (.pDone p true)) x → Removed ts x := by
          intro x hx
          rcases removed_set_inv hx with hw | hx'
          · rcases hw with hw | hw
            · cases hw
            · cases hw; exact ⟨i, .pAck p, hi, Or.inl rfl⟩
          · exact hx'
        refine ⟨fun x hx => hsg x (hinv x hx), fun x c' hx hc' => hcg x c' (hinv x hx) hc', ?_⟩
        apply threads_step h rfl
        · trivial
        · intro j _ hl; exact hl
        · intro x hx
          refine removed_set_mono hi ?_ hx
          rintro (hw | hw)
          · cases hw; exact Or.inr rfl
          · cases hw
        · intro j _ _ x hx; exact hinv x hx
        · intro q v' hv' hq; exact ⟨v', hv', hq⟩
      | pDone p b => cases hs

/-- Every reachable state of the system that holds the lock satisfies the invariant. -/
theorem inv_reachable {old : Option Packet} {warm : Bool} {s : State}
    (h : Reachable (sys true old warm) s) : Inv s :=
  invariant_of_inductive (sys true old warm) Inv (inv_init old warm)
    (fun _ _ _ hi hs => inv_step hi hs) s h

end IrohModel.C38
