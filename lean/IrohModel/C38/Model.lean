/-
C38 — DNS answers never go back behind an acknowledged publish.

Labelled transition system of `ZoneStore::resolve` and `ZoneStore::insert`
(iroh-dns-server/src/store.rs) for one key, any number of concurrent lookups
and publishes.  Atomicity (read off the awaits/locks in the source, forced at
the cfg(iroh_verif) pause points by the harness):

  lookup   lCheck : take the cache lock, look the key up in the cache;
                    hit  → answer from the cached zone, release the lock;
                    miss → keep the lock                      (`hold = true`: the code after
                                                               the fix; `false`: before)
           lGet   : read the packet from the store (message to the store actor);
                    none → release the lock, answer "no zone"
           lFill  : `ZoneCache::insert` (skipped if the cached zone has a larger
                    timestamp), answer from the cached zone, release the lock
  publish  pUpsert: `SignedPacketStore::upsert` (actor: compare with `more_recent_than`,
                    replace); not an update → finished with `false`
           pRemove: take the cache lock, remove the key's zone, release the lock
           pAck   : return `true` to the publisher
  cacheDrop       : the LRU evicts the key's zone (any time)

The store actor serialises reads and upserts, so each is one step.  `hold`
is `Generated.C38.lockHeldAcrossStoreRead`, extracted from the source of `resolve`.
Core Lean only, executable.
-/
import IrohModel.Generated.C38
import IrohModel.Common.Pkarr
import IrohModel.Common.LTS

namespace IrohModel.C38
open IrohModel.Pkarr IrohModel.LTS

inductive Thread where
  /-- lookup, not started -/
  | lCheck
  /-- lookup after a cache miss; `snap` = publishes acknowledged when it started -/
  | lGet (snap : List Packet)
  /-- lookup that read `r` from the store, before the cache fill -/
  | lFill (snap : List Packet) (r : Packet)
  /-- finished lookup with its answer (the zone it was answered from) -/
  | lDone (snap : List Packet) (ans : Option Packet)
  | pUpsert (p : Packet)
  | pRemove (p : Packet)
  | pAck (p : Packet)
  /-- finished publish with the flag returned by `insert` -/
  | pDone (p : Packet) (updated : Bool)
deriving DecidableEq, Repr

structure State where
  /-- the key's row in the packet store -/
  store : Option Packet
  /-- the key's zone in the LRU cache (the packet it was decoded from) -/
  cache : Option Packet
  /-- holder of the cache mutex across steps (index into `threads`) -/
  lock : Option Nat
  threads : List Thread
deriving DecidableEq, Repr

inductive Label where
  | spawnLookup
  | spawnPublish (p : Packet)
  | run (i : Nat)
  | cacheDrop
deriving DecidableEq, Repr

/-- `existing.more_recent_than(&packet)` with the operators found in the source. -/
def moreRecent (a b : Packet) : Bool := moreRecentBy Generated.C38.tsOp Generated.C38.tieOp a b

/-- The store actor's upsert on the key's row. -/
def upsert (st : Option Packet) (p : Packet) : Option Packet × Bool :=
  match st with
  | some e => if moreRecent e p then (st, false) else (some p, true)
  | none => (some p, true)

/-- `CachedZone::is_newer_than`: timestamps only. -/
def cachedNewer (c r : Packet) : Bool :=
  cmpBy Generated.C38.cacheNewerOp (decide (c.ts < r.ts)) (decide (r.ts < c.ts))

/-- `ZoneCache::insert`: the zone cached afterwards. -/
def fill (cache : Option Packet) (r : Packet) : Packet :=
  match cache with
  | some c => if cachedNewer c r then c else r
  | none => r

/-- Publishes acknowledged as an update so far. -/
def ackedOf (ts : List Thread) : List Packet :=
  ts.filterMap fun t => match t with
    | .pDone p true => some p
    | _ => none

def step (hold : Bool) (s : State) : Label → Option State
  | .spawnLookup => some { s with threads := s.threads ++ [.lCheck] }
  | .spawnPublish p => some { s with threads := s.threads ++ [.pUpsert p] }
  | .cacheDrop => some { s with cache := none }
  | .run i =>
    match s.threads[i]? with
    | none => none
    | some .lCheck =>
      if s.lock.isSome then none else
      match s.cache with
      | some c => some { s with threads := s.threads.set i (.lDone (ackedOf s.threads) (some c)) }
      | none => some { s with lock := if hold then some i else none,
                              threads := s.threads.set i (.lGet (ackedOf s.threads)) }
    | some (.lGet snap) =>
      match s.store with
      | none => some { s with lock := if hold then none else s.lock,
                              threads := s.threads.set i (.lDone snap none) }
      | some r => some { s with threads := s.threads.set i (.lFill snap r) }
    | some (.lFill snap r) =>
      if !hold && s.lock.isSome then none else
      let c := fill s.cache r
      some { s with cache := some c, lock := none, threads := s.threads.set i (.lDone snap (some c)) }
    | some (.lDone _ _) => none
    | some (.pUpsert p) =>
      let (st, updated) := upsert s.store p
      some { s with store := st,
                    threads := s.threads.set i (if updated then .pRemove p else .pDone p false) }
    | some (.pRemove p) =>
      if s.lock.isSome then none else
      some { s with cache := none, threads := s.threads.set i (.pAck p) }
    | some (.pAck p) => some { s with threads := s.threads.set i (.pDone p true) }
    | some (.pDone _ _) => none

/-- Initial state: `old` was published and acknowledged earlier; the cache is warm or cold. -/
def initState (old : Option Packet) (warm : Bool) : State :=
  { store := old, cache := if warm then old else none, lock := none,
    threads := match old with | some p => [.pDone p true] | none => [] }

def sys (hold : Bool) (old : Option Packet) (warm : Bool) : System State Label :=
  { init := initState old warm, step := step hold }

/-- The system of the code as it is. -/
def codeSys (old : Option Packet) (warm : Bool) : System State Label :=
  sys Generated.C38.lockHeldAcrossStoreRead old warm

end IrohModel.C38
