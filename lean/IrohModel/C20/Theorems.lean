/-
C20 — property theorems (only).  Statement of the property:
whether a set of bind addresses and options is accepted by the endpoint builder
does not depend on the order in which they are added: it is rejected exactly
when it marks more than one socket per address family as default route or has
an invalid prefix length.
-/
import IrohModel.C20.Lemmas

namespace IrohModel.C20

/-- The property's own notion of "this request marks its socket as default route":
explicitly set to true, or left unset with prefix length 0. -/
def MarksDefault (r : Req) : Prop :=
  r.flag = some true ∨ (r.flag = none ∧ r.prefixLen = 0)

instance : DecidablePred MarksDefault := fun r => by unfold MarksDefault; infer_instance

/-- The property's own notion of a valid prefix length. -/
def ValidPrefix (r : Req) : Prop :=
  match r.family with
  | .v4 => r.prefixLen ≤ 32
  | .v6 => r.prefixLen ≤ 128

instance : DecidablePred ValidPrefix := fun r => by
  unfold ValidPrefix; cases r.family <;> infer_instance

/-- Number of requests of family `f` marked as default route. -/
def defaultCount (f : Family) (xs : List Req) : Nat :=
  (xs.filter fun r => decide (r.family = f ∧ MarksDefault r)).length

/-- At most one default route per family and every prefix length valid. -/
def Acceptable (xs : List Req) : Prop :=
  (∀ f, defaultCount f xs ≤ 1) ∧ ∀ r ∈ xs, ValidPrefix r

/-- `BindOpts::is_default_route` is the property's `MarksDefault`. -/
theorem isDefaultRoute_iff (r : Req) : r.isDefaultRoute = true ↔ MarksDefault r := by
  unfold Req.isDefaultRoute MarksDefault
  cases h : r.flag with
  | none => simp [Generated.C20.implicitDefaultPrefix]
  | some b => cases b <;> simp

/-- A request built from `BindOpts::default()` (prefix 0, flag unset) is a default route. -/
theorem default_opts_is_default (f : Family) (req : Bool) :
    (Req.mk f Generated.C20.defaultPrefixLen none req).isDefaultRoute = true := by
  simp [Req.isDefaultRoute, Generated.C20.defaultPrefixLen, Generated.C20.implicitDefaultPrefix]

private theorem defaultCount_eq (f : Family) (xs : List Req) :
    defaultCount f xs = defaultsOf f xs := by
  unfold defaultCount defaultsOf
  rw [List.countP_eq_length_filter]
  congr 1
  apply List.filter_congr
  intro r _
  have := isDefaultRoute_iff r
  by_cases h1 : r.family = f <;> by_cases h2 : MarksDefault r <;> simp_all

private theorem validPrefix_iff (r : Req) : ValidPrefix r ↔ r.prefixLen ≤ maxPrefix r.family := by
  unfold ValidPrefix maxPrefix; cases r.family <;> simp

/-- **Exact acceptance**: a chain of bind requests on a fresh builder is accepted iff it
marks at most one socket per address family as default route and every prefix length
is valid — for every list of requests, of any length. -/
theorem accept_iff (xs : List Req) : accepts xs = true ↔ Acceptable xs := by
  have h := addAll_ok_iff xs initial 0
  have hinit : ∀ f, hasUserDefault f initial = false := by
    intro f; cases f <;> rfl
  have hacc : accepts xs = true ↔ ∃ ts', addAll initial 0 xs = .ok ts' := by
    unfold accepts
    cases addAll initial 0 xs <;> simp
  rw [hacc, h]
  unfold Acceptable PrefixesValid
  simp only [hinit, Bool.false_eq_true, false_implies, true_and, defaultCount_eq, validPrefix_iff]
  exact And.comm

/-- **Exact rejection**, in the words of the statement. -/
theorem reject_iff (xs : List Req) :
    accepts xs = false ↔ (∃ f, 1 < defaultCount f xs) ∨ ∃ r ∈ xs, ¬ ValidPrefix r := by
  have h := accept_iff xs
  unfold Acceptable at h
  constructor
  · intro hf
    have hn : ¬ ((∀ f, defaultCount f xs ≤ 1) ∧ ∀ r ∈ xs, ValidPrefix r) := by
      intro hc; rw [h.mpr hc] at hf; cases hf
    by_cases h1 : ∀ f, defaultCount f xs ≤ 1
    · right
      have h2 : ¬ ∀ r ∈ xs, ValidPrefix r := fun hc => hn ⟨h1, hc⟩
      simpa using h2
    · left
      have : ∃ f, ¬ defaultCount f xs ≤ 1 := by simpa using h1
      obtain ⟨f, hf⟩ := this
      exact ⟨f, by omega⟩
  · intro hr
    cases hacc : accepts xs with
    | false => rfl
    | true =>
      have ⟨h1, h2⟩ := h.mp hacc
      rcases hr with ⟨f, hf⟩ | ⟨r, hr, hv⟩
      · have := h1 f; omega
      · exact absurd (h2 r hr) hv

/-- **Order independence**: any permutation of the requests gets the same verdict. -/
theorem perm_invariant {xs ys : List Req} (h : xs.Perm ys) : accepts xs = accepts ys := by
  have key : Acceptable xs ↔ Acceptable ys := by
    unfold Acceptable defaultCount
    constructor
    · rintro ⟨h1, h2⟩
      exact ⟨fun f => by rw [← (h.filter _).length_eq]; exact h1 f,
             fun r hr => h2 r (h.mem_iff.mpr hr)⟩
    · rintro ⟨h1, h2⟩
      exact ⟨fun f => by rw [(h.filter _).length_eq]; exact h1 f,
             fun r hr => h2 r (h.mem_iff.mp hr)⟩
  have hx := accept_iff xs
  have hy := accept_iff ys
  cases hax : accepts xs <;> cases hay : accepts ys <;> simp_all

/-- When the chain is rejected, the reported error is sound: `dup` only at a request that is
itself a default route, `badPrefix` only at a request with an invalid prefix. -/
theorem error_sound (xs : List Req) : ∀ (ts : List Transport) (i : Nat) (e : Err) (k : Nat),
    addAll ts i xs = .error (e, k) →
      ∃ r, xs[k - i]? = some r ∧ i ≤ k ∧
        (e = .dup → MarksDefault r) ∧ (e = .badPrefix → ¬ ValidPrefix r) := by
  induction xs with
  | nil => intro ts i e k h; simp [addAll] at h
  | cons r rs ih =>
    intro ts i e k h
    simp only [addAll] at h
    cases hb : addBind ts r with
    | error e' =>
      rw [hb] at h
      simp only [Except.error.injEq, Prod.mk.injEq] at h
      obtain ⟨he, hk⟩ := h
      subst he hk
      refine ⟨r, by simp, Nat.le_refl _, ?_, ?_⟩
      · intro hd
        subst hd
        unfold addBind at hb
        by_cases h1 : (r.isDefaultRoute && hasUserDefault r.family ts) = true
        · simp only [Bool.and_eq_true] at h1
          exact (isDefaultRoute_iff r).mp h1.1
        · simp only [h1] at hb
          by_cases h2 : maxPrefix r.family < r.prefixLen <;> simp [h2] at hb
      · intro hd
        subst hd
        unfold addBind at hb
        by_cases h1 : (r.isDefaultRoute && hasUserDefault r.family ts) = true
        · simp [h1] at hb
        · simp only [h1] at hb
          by_cases h2 : maxPrefix r.family < r.prefixLen
          · rw [validPrefix_iff]; omega
          · simp [h2] at hb
    | ok ts' =>
      rw [hb] at h
      obtain ⟨r', hr', hik, hrest⟩ := ih ts' (i + 1) e k h
      refine ⟨r', ?_, by omega, hrest⟩
      have : k - i = (k - (i + 1)) + 1 := by omega
      rw [this]; simpa using hr'

-- Non-vacuity and the former defect (D7) as concrete instances.
/-- `[default, non-default]` of one family is acceptable (the input the unrepaired code
rejected), and so is the reverse order. -/
example : accepts [⟨.v4, 0, none, true⟩, ⟨.v4, 24, none, true⟩] = true := by decide
example : accepts [⟨.v4, 24, none, true⟩, ⟨.v4, 0, none, true⟩] = true := by decide
example : Acceptable [⟨.v4, 0, none, true⟩, ⟨.v6, 0, some true, true⟩, ⟨.v6, 64, none, false⟩] := by
  rw [← accept_iff]; decide
example : ¬ Acceptable [⟨.v4, 0, none, true⟩, ⟨.v4, 8, some true, true⟩] := by
  rw [← accept_iff]; decide
example : ¬ Acceptable [⟨.v6, 129, none, true⟩] := by rw [← accept_iff]; decide
example : [(⟨.v4, 0, none, true⟩ : Req), ⟨.v4, 24, none, true⟩].Perm
    [⟨.v4, 24, none, true⟩, ⟨.v4, 0, none, true⟩] := List.Perm.swap _ _ _
example : addAll initial 0 [⟨.v4, 0, none, true⟩, ⟨.v4, 0, none, true⟩] = .error (.dup, 1) := rfl

end IrohModel.C20
