/-
C20 — endpoint builder, bind requests.  Model of `Builder::bind_addr_with_opts`
(iroh/src/endpoint.rs, after the `fix:` commit that makes the duplicate-default
check fire only when the NEW request is itself a default route) and of
`BindOpts::is_default_route` (iroh/src/endpoint/bind.rs).

What is modelled: the builder's transport list restricted to what the check
reads (address family, `is_default`, `is_user_defined`), the order of the two
checks (duplicate default first, prefix length second), and the fact that a
failing call consumes the builder (the sequence stops at the first error).
What is assumed: `Ipv4Net::new` / `Ipv6Net::new` (crate `ipnet`) fail exactly for
prefix lengths above 32 / 128.
-/
import IrohModel.Generated.C20

namespace IrohModel.C20

inductive Family | v4 | v6
deriving DecidableEq, Repr

/-- One `bind_addr_with_opts(addr, opts)` call: the address family of `addr` and the
three fields of `BindOpts`.  `prefixLen` is a `u8` in the code; the model allows any `Nat`. -/
structure Req where
  family : Family
  prefixLen : Nat
  flag : Option Bool
  required : Bool
deriving DecidableEq, Repr

/-- `BindOpts::is_default_route`. -/
def Req.isDefaultRoute (r : Req) : Bool :=
  match r.flag with
  | some b => b
  | none => r.prefixLen == Generated.C20.implicitDefaultPrefix

/-- Largest prefix length `IpvNNet::new` accepts. -/
def maxPrefix : Family → Nat
  | .v4 => 32
  | .v6 => 128

/-- What the duplicate check reads of a `TransportConfig::Ip`. -/
structure Transport where
  family : Family
  isDefault : Bool
  userDefined : Bool
deriving DecidableEq, Repr

/-- `Builder::empty()`: one non-user-defined default transport per family. -/
def initial : List Transport := [⟨.v4, true, false⟩, ⟨.v6, true, false⟩]

inductive Err | dup | badPrefix
deriving DecidableEq, Repr

/-- `.any(|t| t.is_ipvN_default() && t.is_user_defined())` for the family `f`. -/
def hasUserDefault (f : Family) (ts : List Transport) : Bool :=
  ts.any fun t => t.isDefault && t.family == f && t.userDefined

/-- One call of `bind_addr_with_opts`. -/
def addBind (ts : List Transport) (r : Req) : Except Err (List Transport) :=
  if r.isDefaultRoute && hasUserDefault r.family ts then .error .dup
  else if maxPrefix r.family < r.prefixLen then .error .badPrefix
  else .ok (ts ++ [⟨r.family, r.isDefaultRoute, true⟩])

/-- A chain of calls starting at request index `i`; stops at the first error. -/
def addAll (ts : List Transport) (i : Nat) : List Req → Except (Err × Nat) (List Transport)
  | [] => .ok ts
  | r :: rs =>
    match addBind ts r with
    | .error e => .error (e, i)
    | .ok ts' => addAll ts' (i + 1) rs

/-- Whether the whole chain on a fresh builder is accepted. -/
def accepts (xs : List Req) : Bool :=
  match addAll initial 0 xs with
  | .ok _ => true
  | .error _ => false

end IrohModel.C20
