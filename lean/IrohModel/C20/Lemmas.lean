/-
C20 — helper lemmas: the acceptance of a chain of bind requests from an
arbitrary builder state, characterised by counting.
-/
import IrohModel.C20.Model

namespace IrohModel.C20

/-- Number of requests of family `f` that mark their socket as default route. -/
def defaultsOf (f : Family) (xs : List Req) : Nat :=
  xs.countP fun r => r.family == f && r.isDefaultRoute

/-- Every prefix length is valid for its address family. -/
def PrefixesValid (xs : List Req) : Prop :=
  ∀ r ∈ xs, r.prefixLen ≤ maxPrefix r.family

theorem hasUserDefault_append (f : Family) (ts : List Transport) (t : Transport) :
    hasUserDefault f (ts ++ [t]) =
      (hasUserDefault f ts || (t.isDefault && t.family == f && t.userDefined)) := by
  simp [hasUserDefault, List.any_append]

theorem defaultsOf_cons (f : Family) (r : Req) (xs : List Req) :
    defaultsOf f (r :: xs) =
      defaultsOf f xs + (if (r.family == f && r.isDefaultRoute) = true then 1 else 0) := by
  simp [defaultsOf, List.countP_cons]

theorem prefixesValid_cons (r : Req) (xs : List Req) :
    PrefixesValid (r :: xs) ↔ r.prefixLen ≤ maxPrefix r.family ∧ PrefixesValid xs := by
  simp [PrefixesValid]

/-- Acceptance from an arbitrary builder state. -/
theorem addAll_ok_iff (xs : List Req) : ∀ (ts : List Transport) (i : Nat),
    (∃ ts', addAll ts i xs = .ok ts') ↔
      (PrefixesValid xs ∧
        ∀ f, (hasUserDefault f ts = true → defaultsOf f xs = 0) ∧ defaultsOf f xs ≤ 1) := by
  induction xs with
  | nil => intro ts i; simp [addAll, PrefixesValid, defaultsOf]
  | cons r rs ih =>
    intro ts i
    rw [prefixesValid_cons]
    simp only [addAll, addBind]
    by_cases hd : (r.isDefaultRoute && hasUserDefault r.family ts) = true
    · -- duplicate default: rejected
      simp only [hd, if_true]
      simp only [Bool.and_eq_true] at hd
      constructor
      · rintro ⟨_, h⟩; cases h
      · rintro ⟨_, h⟩
        have := (h r.family).1 hd.2
        rw [defaultsOf_cons] at this
        simp [hd.1] at this
    · simp only [hd]
      by_cases hp : maxPrefix r.family < r.prefixLen
      · simp only [hp, if_true]
        constructor
        · rintro ⟨_, h⟩; cases h
        · rintro ⟨⟨h, _⟩, _⟩; omega
      · simp only [hp, if_false, Bool.false_eq_true]
        rw [ih]
        have hp' : r.prefixLen ≤ maxPrefix r.family := by omega
        simp only [hp', true_and]
        apply and_congr_right; intro _
        apply forall_congr'; intro f
        rw [hasUserDefault_append, defaultsOf_cons]
        simp only [Bool.and_true]
        by_cases hf : r.family = f
        · subst hf
          by_cases hdr : r.isDefaultRoute = true
          · have hnd : hasUserDefault r.family ts = false := by
              simpa [hdr] using hd
            simp [hdr, hnd]; omega
          · simp [hdr]
        · have : (r.family == f) = false := by simpa using hf
          simp [this]

end IrohModel.C20
