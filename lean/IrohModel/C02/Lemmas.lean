/-
C02 — helper lemmas (integers, digit strings, varints, the representation invariant).
-/
import IrohModel.C02.Model
import IrohModel.Common.BaseNLemmas

namespace IrohModel.C02
open IrohModel
open IrohModel.Generated.C02

/-! ### little-endian u64 -/

@[simp] theorem length_le8 (n : Nat) : (le8 n).length = 8 := by simp [le8]

theorem ofLe8_le8 (n : Nat) (h : n < 2 ^ 64) : ofLe8 (le8 n) = n := by
  simp only [le8, ofLe8, List.map_cons, List.map_nil, List.foldr_cons, List.foldr_nil,
    UInt8.toNat_ofNat']
  omega

theorem le8_inj {m n : Nat} (hm : m < 2 ^ 64) (hn : n < 2 ^ 64) (h : le8 m = le8 n) : m = n := by
  rw [← ofLe8_le8 m hm, ← ofLe8_le8 n hn, h]

/-! ### hexadecimal ids -/

theorem hexVal_hexDigitByte {d : Nat} (h : d < 16) : hexVal (hexDigitByte d) = some d := by
  unfold hexDigitByte hexVal
  by_cases h10 : d < 10
  · simp only [h10, if_true, UInt8.le_iff_toNat_le, UInt8.toNat_ofNat', UInt8.toNat_ofNat]
    rw [Nat.mod_eq_of_lt (by omega)]
    rw [if_pos (by omega)]
    congr 1; omega
  · simp only [h10, if_false, UInt8.le_iff_toNat_le, UInt8.toNat_ofNat', UInt8.toNat_ofNat]
    rw [Nat.mod_eq_of_lt (by omega)]
    rw [if_neg (by omega), if_pos (by omega)]
    congr 1; omega

theorem nibbles_lt : ∀ (w n : Nat), ∀ d ∈ nibbles w n, d < 16
  | 0, _, d, h => by simp [nibbles] at h
  | w + 1, n, d, h => by
    simp only [nibbles, List.mem_cons] at h
    rcases h with rfl | h
    · exact Nat.mod_lt _ (by decide)
    · exact nibbles_lt w _ d h

@[simp] theorem length_nibbles (w n : Nat) : (nibbles w n).length = w := by
  induction w generalizing n with
  | zero => rfl
  | succ w ih => simp [nibbles, ih]

theorem parseDigits_nibbles (w : Nat) : ∀ (acc n : Nat), acc * 16 ^ w + n % 16 ^ w < 2 ^ 64 →
    parseDigits acc ((nibbles w n).map hexDigitByte) = some (acc * 16 ^ w + n % 16 ^ w) := by
  induction w with
  | zero => intro acc n _; simp [nibbles, parseDigits, Nat.mod_one]
  | succ w ih =>
    intro acc n h
    have hd : n / 16 ^ w % 16 < 16 := Nat.mod_lt _ (by decide)
    have hP : 0 < 16 ^ w := Nat.pos_of_ne_zero (by simp)
    have hsplit : n % 16 ^ (w + 1) = n % 16 ^ w + 16 ^ w * (n / 16 ^ w % 16) := Nat.mod_pow_succ
    have hmul : (acc * 16 + n / 16 ^ w % 16) * 16 ^ w =
        acc * 16 ^ (w + 1) + 16 ^ w * (n / 16 ^ w % 16) := by
      rw [Nat.add_mul, Nat.mul_assoc, Nat.pow_succ, Nat.mul_comm 16 (16 ^ w),
        Nat.mul_comm (n / 16 ^ w % 16)]
    have hle : acc * 16 + n / 16 ^ w % 16 ≤ (acc * 16 + n / 16 ^ w % 16) * 16 ^ w :=
      Nat.le_mul_of_pos_right _ hP
    have hrec := ih (acc * 16 + n / 16 ^ w % 16) (n % 16 ^ w) (by rw [Nat.mod_mod]; omega)
    simp only [nibbles, List.map_cons, parseDigits, hexVal_hexDigitByte hd]
    rw [if_pos (by omega), hrec, Nat.mod_mod]
    congr 1; omega

theorem parseDigits_stripZeros : ∀ ds : List Nat,
    parseDigits 0 ((stripZeros ds).map hexDigitByte) = parseDigits 0 (ds.map hexDigitByte)
  | [] => rfl
  | [_] => by simp [stripZeros]
  | 0 :: d :: ds => by
    have ih := parseDigits_stripZeros (d :: ds)
    rw [stripZeros, ih]
    conv => rhs; rw [List.map_cons, parseDigits, hexVal_hexDigitByte (by decide : 0 < 16)]
    simp
  | (n + 1) :: d :: ds => by simp [stripZeros]

theorem stripZeros_subset : ∀ (ds : List Nat), ∀ x ∈ stripZeros ds, x ∈ ds
  | [], _, h => by simp [stripZeros] at h
  | [_], _, h => by simpa [stripZeros] using h
  | 0 :: d :: ds, x, h => by
    rw [stripZeros] at h
    exact List.mem_cons_of_mem _ (stripZeros_subset (d :: ds) x h)
  | (n + 1) :: d :: ds, x, h => by simpa [stripZeros] using h

theorem stripZeros_ne_nil : ∀ (ds : List Nat), ds ≠ [] → stripZeros ds ≠ []
  | [], h => absurd rfl h
  | [_], _ => by simp [stripZeros]
  | 0 :: d :: ds, _ => by
    rw [stripZeros]; exact stripZeros_ne_nil (d :: ds) (by simp)
  | (n + 1) :: d :: ds, _ => by simp [stripZeros]

theorem mem_fmtHexU64 {id : UInt64} {c : UInt8} (h : c ∈ fmtHexU64 id) :
    ∃ d, d < 16 ∧ c = hexDigitByte d := by
  simp only [fmtHexU64, List.mem_map] at h
  obtain ⟨d, hd, rfl⟩ := h
  exact ⟨d, nibbles_lt _ _ d (stripZeros_subset _ d hd), rfl⟩

theorem hexDigitByte_isHex {d : Nat} (h : d < 16) :
    hexDigitByte d ≠ 95 ∧ hexDigitByte d ≠ 43 ∧ hexDigitByte d ≠ 45 := by
  have := hexVal_hexDigitByte h
  have h95 : hexVal 95 = none := by decide
  have h43 : hexVal 43 = none := by decide
  have h45 : hexVal 45 = none := by decide
  refine ⟨?_, ?_, ?_⟩ <;> intro heq <;> rw [heq] at this
  · rw [h95] at this; cases this
  · rw [h43] at this; cases this
  · rw [h45] at this; cases this

theorem fmtHexU64_ne_nil (id : UInt64) : fmtHexU64 id ≠ [] := by
  simp only [fmtHexU64, ne_eq, List.map_eq_nil_iff]
  apply stripZeros_ne_nil
  intro h
  have := congrArg List.length h
  simp at this

/-- `u64::from_str_radix(format!("{:x}", id), 16) == Ok(id)` -/
theorem parseU64Hex_fmtHexU64 (id : UInt64) : parseU64Hex (fmtHexU64 id) = some id := by
  have hlt : id.toNat < 2 ^ 64 := UInt64.toNat_lt id
  have hval : parseDigits 0 (fmtHexU64 id) = some id.toNat := by
    rw [fmtHexU64, parseDigits_stripZeros]
    have := parseDigits_nibbles 16 0 id.toNat (by
      have : id.toNat % 16 ^ 16 = id.toNat := Nat.mod_eq_of_lt (by omega)
      omega)
    rw [this]
    congr 1
    have : id.toNat % 16 ^ 16 = id.toNat := Nat.mod_eq_of_lt (by omega)
    omega
  cases hs : fmtHexU64 id with
  | nil => exact absurd hs (fmtHexU64_ne_nil id)
  | cons c rest =>
    have hc : c ∈ fmtHexU64 id := by rw [hs]; simp
    obtain ⟨d, hd, rfl⟩ := mem_fmtHexU64 hc
    have ⟨_, h43, h45⟩ := hexDigitByte_isHex hd
    rw [hs] at hval
    simp only [parseU64Hex, h43, h45, or_self, and_false, if_false, hval, Option.map_some,
      UInt64.ofNat_toNat]

/-! ### `split_once` -/

theorem splitOnce_append (sep : UInt8) : ∀ (xs ys : Bytes), sep ∉ xs →
    splitOnce sep (xs ++ sep :: ys) = some (xs, ys)
  | [], ys, _ => by simp [splitOnce]
  | x :: xs, ys, h => by
    have hx : x ≠ sep := fun e => h (by simp [e])
    have ih := splitOnce_append sep xs ys (fun hm => h (List.mem_cons_of_mem _ hm))
    simp [splitOnce, hx, ih]

/-! ### postcard varints -/

theorem varintDec_varintEnc (f : Nat) : ∀ (n : Nat) (rest : Bytes), n < 2 ^ (7 * f + 1) →
    varintDec (f + 1) (varintEnc (f + 1) n ++ rest) = .ok (n, rest) := by
  induction f with
  | zero =>
    intro n rest h
    have hn : n < 2 := by simpa using h
    have hv : (UInt8.ofNat n).toNat = n := by
      rw [UInt8.toNat_ofNat', Nat.mod_eq_of_lt (by omega)]
    have h1 : n < 128 := by omega
    have h2 : ¬ 1 < n := by omega
    simp [varintEnc, h1, varintDec, hv, h2]
  | succ f ih =>
    intro n rest h
    by_cases hs : n < 128
    · have hv : (UInt8.ofNat n).toNat = n := by
        rw [UInt8.toNat_ofNat', Nat.mod_eq_of_lt (by omega)]
      simp [varintEnc, hs, varintDec, hv]
    · have hv : (UInt8.ofNat (n % 128 + 128)).toNat = n % 128 + 128 := by
        rw [UInt8.toNat_ofNat', Nat.mod_eq_of_lt (by omega)]
      have hdiv : n / 128 < 2 ^ (7 * f + 1) := by
        apply Nat.div_lt_of_lt_mul
        have : 2 ^ (7 * (f + 1) + 1) = 128 * 2 ^ (7 * f + 1) := by
          rw [show 7 * (f + 1) + 1 = 7 + (7 * f + 1) by omega, Nat.pow_add]
        omega
      have hrec := ih (n / 128) rest hdiv
      have h3 : ¬ n % 128 + 128 < 128 := by omega
      rw [varintEnc, if_neg hs, List.cons_append, varintDec, hv, if_neg h3, hrec]
      simp only
      congr 2
      omega

/-- The encoder never uses more than ten bytes for a `u64`. -/
theorem varintDec_varintEnc_u64 (n : Nat) (rest : Bytes) (h : n < 2 ^ 64) :
    varintDec 10 (varintEnc 10 n ++ rest) = .ok (n, rest) :=
  varintDec_varintEnc 9 n rest (by simpa using h)

/-! ### byte-list order -/

theorem cmpBytes_eq_iff : ∀ (x y : Bytes), cmpBytes x y = .eq ↔ x = y
  | [], [] => by simp [cmpBytes]
  | [], _ :: _ => by simp [cmpBytes]
  | _ :: _, [] => by simp [cmpBytes]
  | a :: x, b :: y => by
    have ih := cmpBytes_eq_iff x y
    simp only [cmpBytes, List.cons.injEq]
    by_cases h1 : a < b
    · simp only [h1, if_true, reduceCtorEq, false_iff, not_and]
      intro e; subst e; exact absurd h1 (by simp)
    · by_cases h2 : b < a
      · simp only [h1, h2, if_false, if_true, reduceCtorEq, false_iff, not_and]
        intro e; subst e; exact absurd h2 (by simp)
      · have hab : a = b := by
          rw [UInt8.lt_iff_toNat_lt] at h1 h2
          exact UInt8.toNat_inj.mp (by omega)
        simp [hab, ih]

theorem cmpBytes_swap : ∀ (x y : Bytes), (cmpBytes x y).swap = cmpBytes y x
  | [], [] => rfl
  | [], _ :: _ => rfl
  | _ :: _, [] => rfl
  | a :: x, b :: y => by
    have ih := cmpBytes_swap x y
    simp only [cmpBytes]
    by_cases h1 : a < b
    · have h2 : ¬ b < a := by rw [UInt8.lt_iff_toNat_lt] at h1 ⊢; omega
      simp [h1, h2]
    · by_cases h2 : b < a
      · simp [h1, h2]
      · simp [h1, h2, ih]

theorem cmpNat_eq_iff (a b : Nat) : cmpNat a b = .eq ↔ a = b := by
  unfold cmpNat
  by_cases h1 : a < b
  · simp [h1]; omega
  · by_cases h2 : b < a
    · simp [h1, h2]; omega
    · simp [h1, h2]; omega

theorem cmpNat_swap (a b : Nat) : (cmpNat a b).swap = cmpNat b a := by
  unfold cmpNat
  by_cases h1 : a < b
  · have : ¬ b < a := by omega
    simp [h1, this]
  · by_cases h2 : b < a
    · simp [h1, h2]
    · simp [h1, h2]

theorem then_eq_iff (o₁ o₂ : Ordering) : o₁.then o₂ = .eq ↔ o₁ = .eq ∧ o₂ = .eq := by
  cases o₁ <;> cases o₂ <;> simp [Ordering.then]

theorem then_swap (o₁ o₂ : Ordering) : (o₁.then o₂).swap = o₁.swap.then o₂.swap := by
  cases o₁ <;> cases o₂ <;> rfl

/-! ### the representation -/

namespace CustomAddrBytes

/-- `copy_from_slice` never panics and produces the canonical representation. -/
theorem copyFromSlice_spec (d : Bytes) :
    ∃ r, copyFromSlice d = .ok r ∧ r.WF ∧ r.asBytes = .ok d ∧ r.len = d.length := by
  unfold copyFromSlice
  by_cases h : d.length ≤ inlineCutoff
  · have h30 : d.length ≤ 30 := h
    rw [if_pos h, if_pos (show d.length ≤ inlineBuf from h30)]
    have hsz : (UInt8.ofNat d.length).toNat = d.length := by
      rw [UInt8.toNat_ofNat', Nat.mod_eq_of_lt (by omega)]
    refine ⟨_, rfl, ?_, ?_, ?_⟩
    · simp only [WF, hsz, List.length_append, List.length_replicate, inlineBuf, inlineCap]
      refine ⟨by omega, h30, ?_⟩
      rw [List.drop_left' rfl]
    · simp only [asBytes, hsz, List.length_append, List.length_replicate]
      rw [if_pos (by omega), List.take_left' rfl]
    · simp [len, hsz]
  · rw [if_neg h]
    refine ⟨_, rfl, ?_, rfl, rfl⟩
    simp only [WF, inlineCap]
    have : ¬ d.length ≤ 30 := h
    omega

/-- A well-formed representation is exactly what `copy_from_slice` makes of its bytes. -/
theorem wf_canonical {r : CustomAddrBytes} (h : r.WF) :
    ∃ d, r.asBytes = .ok d ∧ copyFromSlice d = .ok r ∧ r.len = d.length := by
  cases r with
  | heap d =>
    refine ⟨d, rfl, ?_, rfl⟩
    have : ¬ d.length ≤ inlineCutoff := by
      have : 30 < d.length := h
      show ¬ d.length ≤ 30
      omega
    simp [copyFromSlice, this]
  | inline size data =>
    obtain ⟨hlen, hsz, hpad⟩ := h
    have hlen' : data.length = 30 := hlen
    have hsz' : size.toNat ≤ 30 := hsz
    refine ⟨data.take size.toNat, ?_, ?_, ?_⟩
    · simp only [asBytes]; rw [if_pos (by omega)]
    · have htl : (data.take size.toNat).length = size.toNat := by
        rw [List.length_take]; omega
      unfold copyFromSlice
      rw [htl, if_pos (show size.toNat ≤ inlineCutoff from hsz'),
        if_pos (show size.toNat ≤ inlineBuf from hsz'), UInt8.ofNat_toNat]
      have : List.replicate (inlineBuf - size.toNat) (0 : UInt8) = data.drop size.toNat := by
        rw [hpad]
      rw [this, List.take_append_drop]
    · simp only [len, List.length_take]; omega

theorem wf_iff_canonical (r : CustomAddrBytes) : r.WF ↔ ∃ d, copyFromSlice d = .ok r := by
  constructor
  · intro h
    obtain ⟨d, _, hc, _⟩ := wf_canonical h
    exact ⟨d, hc⟩
  · rintro ⟨d, hd⟩
    obtain ⟨r', hr', hwf, _, _⟩ := copyFromSlice_spec d
    rw [hd] at hr'
    cases hr'
    exact hwf

/-- Two canonical representations with the same bytes are the same value. -/
theorem wf_eq_of_asBytes_eq {r₁ r₂ : CustomAddrBytes} (h₁ : r₁.WF) (h₂ : r₂.WF)
    (h : r₁.asBytes = r₂.asBytes) : r₁ = r₂ := by
  obtain ⟨d₁, ha₁, hc₁, _⟩ := wf_canonical h₁
  obtain ⟨d₂, ha₂, hc₂, _⟩ := wf_canonical h₂
  rw [ha₁, ha₂] at h
  cases h
  rw [hc₁] at hc₂
  cases hc₂
  rfl

end CustomAddrBytes

theorem CustomAddr.fromParts_spec (id : UInt64) (d : Bytes) :
    ∃ a, CustomAddr.fromParts id d = .ok a ∧ a.WF ∧ a.id = id ∧ a.data.asBytes = .ok d ∧
      a.data.len = d.length := by
  obtain ⟨r, hr, hwf, hb, hl⟩ := CustomAddrBytes.copyFromSlice_spec d
  exact ⟨⟨id, r⟩, by simp [CustomAddr.fromParts, hr], hwf, rfl, hb, hl⟩

end IrohModel.C02

namespace IrohModel.C02
open IrohModel
open IrohModel.Generated.C02

/-! ### `decode_base32_hex` in closed form -/

theorem base32_decodeLen_iff (n : Nat) : base32.decodeLen n = some 32 ↔ n = 52 := by
  unfold BaseN.decodeLen
  show (if n * 5 % 8 < 5 then some (n * 5 / 8) else none) = some 32 ↔ n = 52
  split
  · simp only [Option.some.injEq]; omega
  · simp only [reduceCtorEq, false_iff]; omega

theorem hexLower_decodeLen_iff (n : Nat) : hexLower.decodeLen n = some 32 ↔ n = 64 := by
  unfold BaseN.decodeLen
  show (if n * 4 % 8 < 4 then some (n * 4 / 8) else none) = some 32 ↔ n = 64
  split
  · simp only [Option.some.injEq]; omega
  · simp only [reduceCtorEq, false_iff]; omega

/-- What `decode_base32_hex` computes, with the (unreachable) panic of `decode_mut` and the
(always true) final length check resolved. -/
theorem decodeBase32Hex_eq (s : Bytes) : decodeBase32Hex s =
    if s.length = 64 then
      (match hexLower.decodeBytes s with
       | some bs => .ok bs
       | none => .err .hex)
    else if s.length = 52 then
      (match base32.decodeBytes (s.map asciiUpperByte) with
       | some bs => .ok bs
       | none => .err .base32)
    else .err .length := by
  unfold decodeBase32Hex decodeMut
  by_cases h64 : s.length = 64
  · have h64' : s.length = keyLen * 2 := h64
    have hl : hexLower.decodeLen s.length = some keyLen := (hexLower_decodeLen_iff _).mpr h64
    rw [if_pos h64', if_pos h64, if_pos hl]
    cases hd : hexLower.decodeBytes s with
    | none => rfl
    | some bs =>
      have := hexLower.length_of_decodeBytes hd
      rw [hl] at this
      have hb : bs.length = keyLen := (Option.some.inj this).symm
      show (if bs.length = keyLen then _ else _) = _
      rw [if_pos hb]
  · have h64' : ¬ s.length = keyLen * 2 := h64
    rw [if_neg h64', if_neg h64]
    by_cases h52 : s.length = 52
    · have hc : base32.decodeLen (s.map asciiUpperByte).length = some keyLen := by
        rw [List.length_map]; exact (base32_decodeLen_iff _).mpr h52
      simp only [hc, if_true, h52]
      cases hd : base32.decodeBytes (s.map asciiUpperByte) with
      | none => rfl
      | some bs =>
        have := base32.length_of_decodeBytes hd
        rw [hc] at this
        have hb : bs.length = keyLen := (Option.some.inj this).symm
        show (if bs.length = keyLen then _ else _) = _
        rw [if_pos hb]
    · have hc : ¬ base32.decodeLen (s.map asciiUpperByte).length = some keyLen := by
        rw [List.length_map]; exact fun h => h52 ((base32_decodeLen_iff _).mp h)
      rw [if_neg hc, if_neg h52]

end IrohModel.C02
