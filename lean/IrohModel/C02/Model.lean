/-
C02 — key and address encodings.  Executable model of

* `iroh-base/src/key.rs`: `decode_base32_hex`, `PublicKey::{from_bytes, try_from(&[u8]),
  from_str, Display, Debug, fmt_short, to_z32, from_z32, as_verifying_key}`,
  `SecretKey::{from_str, try_from(&[u8])}`, `Signature::try_from(&[u8])`;
* `iroh-base/src/endpoint_addr.rs`: `CustomAddrBytes::{copy_from_slice, len, as_bytes}`,
  `CustomAddr::{from_parts, id, data, to_vec, from_bytes, Display, FromStr, Debug}`,
  the derived `PartialEq/Ord/Hash`, and the postcard form of the custom
  `Serialize`/`Deserialize` (varint id, varint length, bytes).

Conventions.  A Rust `&str`/`String` is its UTF-8 byte list (`Bytes`); everything the
code does with strings here is byte-wise (`len`, `as_bytes`, `to_ascii_uppercase`,
`split_once('_')` on an ASCII separator, `from_str_radix`, `data-encoding`), so the
model is total over *all* byte lists, a superset of the valid strings.  A Rust panic
is the explicit outcome `Res.panic`.  Curve-point validity is the parameter
`vp : Bytes → Bool` (answered by the real curve25519-dalek in the correspondence run).
Core Lean only.
-/
import IrohModel.Common.Hex
import IrohModel.Common.BaseN
import IrohModel.Generated.C02

namespace IrohModel.C02
open IrohModel
open IrohModel.Generated.C02

/-- Result of a Rust call that may return `Ok`, `Err` or panic. -/
inductive Res (ε α : Type) where
  | ok (a : α)
  | err (e : ε)
  | panic
deriving DecidableEq, Repr

/-! ## keys (`key.rs`) -/

/-- `KeyParsingError` -/
inductive KeyErr where
  | hex      -- FailedToDecodeHex
  | base32   -- FailedToDecodeBase32
  | length   -- InvalidLength
  | keyData  -- InvalidKeyData
deriving DecidableEq, Repr

/-- `Encoding::decode_mut(input, &mut output)` with `output.len() = outLen`.
data-encoding asserts `Ok(output.len()) == self.decode_len(input.len())` and panics otherwise. -/
def decodeMut (b : BaseN) (input : Bytes) (outLen : Nat) : Res Unit Bytes :=
  if b.decodeLen input.length = some outLen then
    match b.decodeBytes input with
    | some bs => .ok bs
    | none => .err ()
  else .panic

/-- `decode_base32_hex` (key.rs:475): byte length `2*32` → strict lower-case hex; otherwise
upper-case the input, require `BASE32_NOPAD.decode_len(len) == Ok(32)`, decode. -/
def decodeBase32Hex (s : Bytes) : Res KeyErr Bytes :=
  if s.length = keyLen * 2 then
    match decodeMut hexLower s keyLen with
    | .ok bs => if bs.length = keyLen then .ok bs else .err .length
    | .err _ => .err .hex
    | .panic => .panic
  else
    let input := s.map asciiUpperByte
    if base32.decodeLen input.length = some keyLen then
      match decodeMut base32 input keyLen with
      | .ok bs => if bs.length = keyLen then .ok bs else .err .length
      | .err _ => .err .base32
      | .panic => .panic
    else .err .length

/-- `PublicKey(CompressedEdwardsY)`: the 32 stored bytes. -/
structure PublicKey where
  bytes : Bytes
deriving DecidableEq, Repr

namespace PublicKey

/-- `PublicKey::from_bytes(&[u8; 32])`: `VerifyingKey::from_bytes` decompresses the point,
`to_bytes` returns the very bytes that were passed in. -/
def fromBytes (vp : Bytes → Bool) (b : Bytes) : Res KeyErr PublicKey :=
  if vp b then .ok ⟨b⟩ else .err .keyData

/-- `TryFrom<&[u8]>`: `VerifyingKey::try_from` checks the length first. -/
def tryFromSlice (vp : Bytes → Bool) (b : Bytes) : Res KeyErr PublicKey :=
  if b.length = keyLen then fromBytes vp b else .err .keyData

/-- `FromStr` -/
def fromStr (vp : Bytes → Bool) (s : Bytes) : Res KeyErr PublicKey :=
  match decodeBase32Hex s with
  | .ok b => fromBytes vp b
  | .err e => .err e
  | .panic => .panic

/-- `Display`: lower-case hex. -/
def display (k : PublicKey) : Bytes := hexLower.encodeBytes k.bytes

/-- `Debug` -/
def debug (k : PublicKey) : Bytes :=
  "PublicKey(".toUTF8.toList ++ hexLower.encodeBytes k.bytes ++ ")".toUTF8.toList

/-- `fmt_short`: `as_bytes()[0..5]` (slice indexing panics when out of range). -/
def fmtShort (k : PublicKey) : Res Unit Bytes :=
  if shortLen ≤ k.bytes.length then .ok (hexLower.encodeBytes (k.bytes.take shortLen)) else .panic

/-- `to_z32` -/
def toZ32 (k : PublicKey) : Bytes := zbase32.encodeBytes k.bytes

/-- `from_z32` -/
def fromZ32 (vp : Bytes → Bool) (s : Bytes) : Res KeyErr PublicKey :=
  match zbase32.decodeBytes s with
  | none => .err .base32
  | some b => tryFromSlice vp b

/-- `as_verifying_key`: `.expect("already verified")`. -/
def asVerifyingKey (vp : Bytes → Bool) (k : PublicKey) : Res Unit Unit :=
  if vp k.bytes then .ok () else .panic

/-- Representation invariant of every key the constructors hand out. -/
def WF (vp : Bytes → Bool) (k : PublicKey) : Prop := k.bytes.length = keyLen ∧ vp k.bytes = true

end PublicKey

/-- `SecretKey::from_str` = `decode_base32_hex` then `SigningKey::from_bytes` (total). -/
def secretKeyFromStr (s : Bytes) : Res KeyErr Bytes := decodeBase32Hex s

/-- `SecretKey: TryFrom<&[u8]>` -/
def secretKeyFromSlice (b : Bytes) : Res KeyErr Bytes :=
  if b.length = keyLen then .ok b else .err .length

/-- `Signature: TryFrom<&[u8]>` (`ed25519::Signature::from_slice`: 64 bytes). -/
def signatureFromSlice (b : Bytes) : Res Unit Bytes :=
  if b.length = 2 * keyLen then .ok b else .err ()

/-- Abstract signature scheme (Ed25519 is modelled, not verified). -/
structure SigScheme where
  pub : Bytes → Bytes
  sign : Bytes → Bytes → Bytes
  verify : Bytes → Bytes → Bytes → Bool
  verify_sign : ∀ sk m, verify (pub sk) m (sign sk m) = true

/-! ## custom transport addresses (`endpoint_addr.rs`) -/

/-- `enum CustomAddrBytes { Inline { size: u8, data: [u8; 30] }, Heap(Box<[u8]>) }` -/
inductive CustomAddrBytes where
  | inline (size : UInt8) (data : Bytes)
  | heap (data : Bytes)
deriving DecidableEq, Repr

namespace CustomAddrBytes

/-- `copy_from_slice`, the only constructor.  `inline[..data.len()]` would panic if the
cut-off exceeded the buffer. -/
def copyFromSlice (d : Bytes) : Res Unit CustomAddrBytes :=
  if d.length ≤ inlineCutoff then
    if d.length ≤ inlineBuf then
      .ok (.inline (UInt8.ofNat d.length) (d ++ List.replicate (inlineBuf - d.length) 0))
    else .panic
  else .ok (.heap d)

/-- `len` -/
def len : CustomAddrBytes → Nat
  | .inline size _ => size.toNat
  | .heap d => d.length

/-- `as_bytes`: `&data[..*size as usize]` panics when `size` exceeds the array. -/
def asBytes : CustomAddrBytes → Res Unit Bytes
  | .inline size data => if size.toNat ≤ data.length then .ok (data.take size.toNat) else .panic
  | .heap d => .ok d

/-- The canonical representation: what `copy_from_slice` produces. -/
def WF : CustomAddrBytes → Prop
  | .inline size data =>
      data.length = inlineCap ∧ size.toNat ≤ inlineCap ∧
      data.drop size.toNat = List.replicate (inlineCap - size.toNat) 0
  | .heap d => inlineCap < d.length

/-- `"Inline"` / `"Heap"` as shown by `{:#?}`. -/
def kind : CustomAddrBytes → String
  | .inline _ _ => "Inline"
  | .heap _ => "Heap"

end CustomAddrBytes

/-- `struct CustomAddr { id: u64, data: CustomAddrBytes }` -/
structure CustomAddr where
  id : UInt64
  data : CustomAddrBytes
deriving DecidableEq, Repr

/-- `AddrErr`: `CustomAddrParseError` + the `&'static str` of `from_bytes`. -/
inductive AddrErr where
  | sep | id | data | short
deriving DecidableEq, Repr

/-! ### integers -/

/-- `u64::to_le_bytes` -/
def le8 (n : Nat) : Bytes :=
  [n % 256, n / 256 % 256, n / 256 ^ 2 % 256, n / 256 ^ 3 % 256, n / 256 ^ 4 % 256,
   n / 256 ^ 5 % 256, n / 256 ^ 6 % 256, n / 256 ^ 7 % 256].map UInt8.ofNat

/-- `u64::from_le_bytes` -/
def ofLe8 (b : Bytes) : Nat := b.foldr (fun x acc => x.toNat + 256 * acc) 0

/-- The `w` base-16 digits of `n`, most significant first. -/
def nibbles : Nat → Nat → List Nat
  | 0, _ => []
  | w + 1, n => n / 16 ^ w % 16 :: nibbles w (n % 16 ^ w)

/-- Drop leading zero digits, keep at least one digit. -/
def stripZeros : List Nat → List Nat
  | 0 :: d :: ds => stripZeros (d :: ds)
  | ds => ds

def hexDigitByte (d : Nat) : UInt8 := if d < 10 then UInt8.ofNat (48 + d) else UInt8.ofNat (87 + d)

/-- `format!("{:x}", id)` -/
def fmtHexU64 (id : UInt64) : Bytes := (stripZeros (nibbles 16 id.toNat)).map hexDigitByte

/-- `(c as char).to_digit(16)` -/
def hexVal (c : UInt8) : Option Nat :=
  if 48 ≤ c ∧ c ≤ 57 then some (c.toNat - 48)
  else if 97 ≤ c ∧ c ≤ 102 then some (c.toNat - 87)
  else if 65 ≤ c ∧ c ≤ 70 then some (c.toNat - 55)
  else none

/-- The digit loop of `u64::from_str_radix(_, 16)`: `checked_mul(16)`, `checked_add(d)`. -/
def parseDigits (acc : Nat) : Bytes → Option Nat
  | [] => some acc
  | c :: cs =>
    match hexVal c with
    | none => none
    | some d => if acc * 16 + d < 2 ^ 64 then parseDigits (acc * 16 + d) cs else none

/-- `u64::from_str_radix(s, 16)`: empty → error; a lone `+` or `-` → error; one leading `+`
is skipped (`-` is not a sign for unsigned types); then the digit loop. -/
def parseU64Hex (s : Bytes) : Option UInt64 :=
  match s with
  | [] => none
  | c :: rest =>
    if rest.isEmpty ∧ (c = 43 ∨ c = 45) then none
    else if c = 43 then (parseDigits 0 rest).map UInt64.ofNat
    else (parseDigits 0 s).map UInt64.ofNat

/-- `str::split_once(sep)` for an ASCII separator. -/
def splitOnce (sep : UInt8) : Bytes → Option (Bytes × Bytes)
  | [] => none
  | c :: cs =>
    if c = sep then some ([], cs)
    else match splitOnce sep cs with
      | some (a, b) => some (c :: a, b)
      | none => none

/-! ### postcard varints -/

inductive PcErr where
  | unexpectedEnd | badVarint
deriving DecidableEq, Repr

/-- postcard `varint_u64` (`fuel` = bytes still available, 10 for `u64`/`usize`). -/
def varintEnc : Nat → Nat → Bytes
  | 0, _ => []
  | fuel + 1, n =>
    if n < 128 then [UInt8.ofNat n] else UInt8.ofNat (n % 128 + 128) :: varintEnc fuel (n / 128)

/-- postcard `try_take_varint_u64`: at most 10 bytes, `DeserializeUnexpectedEnd` when the
input ends, `DeserializeBadVarint` when the tenth byte has its continuation bit set or is
larger than 1.  (The code accumulates `out |= carry << 7*i`; the bit ranges are disjoint and
anything shifted out of the `u64` makes the call fail, so the value is the sum below.) -/
def varintDec : Nat → Bytes → Except PcErr (Nat × Bytes)
  | 0, _ => .error .badVarint
  | _ + 1, [] => .error .unexpectedEnd
  | fuel + 1, v :: rest =>
    if v.toNat < 128 then
      if fuel = 0 ∧ 1 < v.toNat then .error .badVarint else .ok (v.toNat, rest)
    else
      match varintDec fuel rest with
      | .ok (n, r) => .ok (v.toNat % 128 + 128 * n, r)
      | .error e => .error e

namespace CustomAddr

/-- `from_parts` -/
def fromParts (id : UInt64) (d : Bytes) : Res Unit CustomAddr :=
  match CustomAddrBytes.copyFromSlice d with
  | .ok r => .ok ⟨id, r⟩
  | _ => .panic

/-- `data()` -/
def dataBytes (a : CustomAddr) : Res Unit Bytes := a.data.asBytes

/-- `to_vec`: `vec![0; 8 + self.data.len()]`, `out[8..].copy_from_slice(self.data())`
(`copy_from_slice` panics on a length mismatch). -/
def toVec (a : CustomAddr) : Res Unit Bytes :=
  match a.data.asBytes with
  | .ok d => if d.length = a.data.len then .ok (le8 a.id.toNat ++ d) else .panic
  | _ => .panic

/-- `from_bytes` (binary form) -/
def fromBytes (b : Bytes) : Res AddrErr CustomAddr :=
  if b.length < binHeader then .err .short
  else
    match fromParts (UInt64.ofNat (ofLe8 (b.take binHeader))) (b.drop binHeader) with
    | .ok a => .ok a
    | _ => .panic

/-- `Display`: `{:x}_{hex}` -/
def display (a : CustomAddr) : Res Unit Bytes :=
  match a.data.asBytes with
  | .ok d => .ok (fmtHexU64 a.id ++ [95] ++ hexLower.encodeBytes d)
  | _ => .panic

/-- `FromStr` -/
def fromStr (s : Bytes) : Res AddrErr CustomAddr :=
  match splitOnce 95 s with
  | none => .err .sep
  | some (idStr, dataStr) =>
    match parseU64Hex idStr with
    | none => .err .id
    | some id =>
      match hexLower.decodeBytes dataStr with
      | none => .err .data
      | some d =>
        match fromParts id d with
        | .ok a => .ok a
        | _ => .panic

/-- postcard form: `id` as varint, then `serialize_bytes(as_bytes())`. -/
def toPostcard (a : CustomAddr) : Res Unit Bytes :=
  match a.data.asBytes with
  | .ok d => .ok (varintEnc 10 a.id.toNat ++ varintEnc 10 d.length ++ d)
  | _ => .panic

/-- postcard `take_from_bytes::<CustomAddr>`: value and unread rest. -/
def fromPostcard (b : Bytes) : Res PcErr (CustomAddr × Bytes) :=
  match varintDec 10 b with
  | .error e => .err e
  | .ok (id, r1) =>
    match varintDec 10 r1 with
    | .error e => .err e
    | .ok (n, r2) =>
      if r2.length < n then .err .unexpectedEnd
      else
        match fromParts (UInt64.ofNat id) (r2.take n) with
        | .ok a => .ok (a, r2.drop n)
        | _ => .panic

/-- Derived `Debug` (non-alternate): `CustomAddr { id: 1, data: [a1b2] }`. -/
def debug (a : CustomAddr) : Res Unit Bytes :=
  match a.data.asBytes with
  | .ok d => .ok (s!"CustomAddr \{ id: {a.id.toNat}, data: [".toUTF8.toList ++
      hexLower.encodeBytes d ++ "] }".toUTF8.toList)
  | _ => .panic

/-- The representation invariant. -/
def WF (a : CustomAddr) : Prop := a.data.WF

end CustomAddr

/-! ### derived `Ord`, `Hash` -/

/-- `Ord` of `[u8]` / `[u8; N]`: lexicographic, a proper prefix is smaller. -/
def cmpBytes : Bytes → Bytes → Ordering
  | [], [] => .eq
  | [], _ :: _ => .lt
  | _ :: _, [] => .gt
  | x :: xs, y :: ys => if x < y then .lt else if y < x then .gt else cmpBytes xs ys

def cmpNat (a b : Nat) : Ordering := if a < b then .lt else if b < a then .gt else .eq

/-- `#[derive(Ord)]` on the enum: variant order first (`Inline < Heap`), then the fields in
order (`size`, then the whole 30-byte array). -/
def CustomAddrBytes.cmp : CustomAddrBytes → CustomAddrBytes → Ordering
  | .inline s₁ d₁, .inline s₂ d₂ => (cmpNat s₁.toNat s₂.toNat).then (cmpBytes d₁ d₂)
  | .inline _ _, .heap _ => .lt
  | .heap _, .inline _ _ => .gt
  | .heap d₁, .heap d₂ => cmpBytes d₁ d₂

/-- `#[derive(Ord)]` on the struct. -/
def CustomAddr.cmp (a b : CustomAddr) : Ordering :=
  (cmpNat a.id.toNat b.id.toNat).then (a.data.cmp b.data)

/-- What `#[derive(Hash)]` feeds to the `Hasher` (64-bit target, little endian): the id,
the discriminant as `isize`, then `size` and the length-prefixed array, or the
length-prefixed boxed slice. -/
def CustomAddr.hashFeed (a : CustomAddr) : Bytes :=
  le8 a.id.toNat ++
  match a.data with
  | .inline size data => le8 0 ++ [size] ++ le8 data.length ++ data
  | .heap d => le8 1 ++ le8 d.length ++ d

/-- The logical content of an address: id and data (when the accessor does not panic). -/
def CustomAddr.logical (a : CustomAddr) : Res Unit (UInt64 × Bytes) :=
  match a.data.asBytes with
  | .ok d => .ok (a.id, d)
  | _ => .panic

end IrohModel.C02
