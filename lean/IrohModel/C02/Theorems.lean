/-
C02 — property theorems (only).

Statement: every public key, secret key, signature, and custom transport address
survives every supported encoding (hex, base32, z-base-32, postcard, binary, string)
unchanged; parsing any byte or character string yields either an error or a value
whose accessors and formatters do not panic; public keys are only accepted if they
are valid curve points; `Eq`/`Ord`/`Hash` of custom addresses agree with equality of
`(id, data)`; a signature verifies under the signer's public key.

All theorems quantify over every byte list / every `validPoint` predicate / every id
and every data length (the 30/31 inline/heap cut-off is a case split inside the
proofs, not a sample).  JSON (serde_json), `Url` and `SocketAddr` are outside the
model and checked by the harness oracle only.
-/
import IrohModel.C02.Lemmas

namespace IrohModel.C02
open IrohModel
open IrohModel.Generated.C02

/-! ## 1. the base encodings (instances of the generic `BaseN` theorems) -/

/-- Hex round trip for every byte string. -/
theorem hex_rt (bs : Bytes) : hexLower.decodeBytes (hexLower.encodeBytes bs) = some bs :=
  hexLower.decodeBytes_encodeBytes hexLower_ascii bs

/-- Base32 (RFC 4648, no padding) round trip for every byte string. -/
theorem b32_rt (bs : Bytes) : base32.decodeBytes (base32.encodeBytes bs) = some bs :=
  base32.decodeBytes_encodeBytes base32_ascii bs

/-- z-base-32 round trip for every byte string. -/
theorem z32_rt (bs : Bytes) : zbase32.decodeBytes (zbase32.encodeBytes bs) = some bs :=
  zbase32.decodeBytes_encodeBytes zbase32_ascii bs

/-- The z-base-32 alphabet of the model is the one in `key.rs`. -/
theorem z32_alphabet_from_source : zbase32.alphabet = z32Symbols.toList := by decide

/-! ## 2. `decode_base32_hex`, keys -/

private theorem hexLen : hexLower.encodeLen 32 = 64 := by decide
private theorem b32Len : base32.encodeLen 32 = 52 := by decide

/-- `decode_base32_hex` never reaches the panicking assertion of `decode_mut`, and what it
returns has exactly 32 bytes. -/
theorem decodeBase32Hex_total (s : Bytes) :
    decodeBase32Hex s ≠ .panic ∧ ∀ b, decodeBase32Hex s = .ok b → b.length = keyLen := by
  rw [decodeBase32Hex_eq]
  by_cases h64 : s.length = 64
  · rw [if_pos h64]
    cases hd : hexLower.decodeBytes s with
    | none => exact ⟨by simp, by simp⟩
    | some bs =>
      refine ⟨by simp, ?_⟩
      intro b hb
      simp only [Res.ok.injEq] at hb
      subst hb
      have := hexLower.length_of_decodeBytes hd
      rw [h64, (hexLower_decodeLen_iff 64).mpr rfl] at this
      exact (Option.some.inj this).symm
  · rw [if_neg h64]
    by_cases h52 : s.length = 52
    · rw [if_pos h52]
      cases hd : base32.decodeBytes (s.map asciiUpperByte) with
      | none => exact ⟨by simp, by simp⟩
      | some bs =>
        refine ⟨by simp, ?_⟩
        intro b hb
        simp only [Res.ok.injEq] at hb
        subst hb
        have := base32.length_of_decodeBytes hd
        rw [List.length_map, h52, (base32_decodeLen_iff 52).mpr rfl] at this
        exact (Option.some.inj this).symm
    · rw [if_neg h52]; exact ⟨by simp, by simp⟩

/-- Exact shape of every accepted key string: 64 bytes that are the lower-case hex of the
result, or 52 bytes whose upper-casing is the RFC 4648 base32 of the result. -/
theorem decodeBase32Hex_shape (s b : Bytes) (h : decodeBase32Hex s = .ok b) :
    (s.length = 64 ∧ s = hexLower.encodeBytes b) ∨
    (s.length = 52 ∧ s.map asciiUpperByte = base32.encodeBytes b) := by
  rw [decodeBase32Hex_eq] at h
  by_cases h64 : s.length = 64
  · left
    rw [if_pos h64] at h
    cases hd : hexLower.decodeBytes s with
    | none => rw [hd] at h; cases h
    | some bs =>
      rw [hd] at h
      simp only [Res.ok.injEq] at h
      subst h
      exact ⟨h64, (hexLower.decodeBytes_eq_some_iff hexLower_ascii rfl s bs).mp hd⟩
  · right
    rw [if_neg h64] at h
    by_cases h52 : s.length = 52
    · rw [if_pos h52] at h
      cases hd : base32.decodeBytes (s.map asciiUpperByte) with
      | none => rw [hd] at h; cases h
      | some bs =>
        rw [hd] at h
        simp only [Res.ok.injEq] at h
        subst h
        exact ⟨h52, (base32.decodeBytes_eq_some_iff base32_ascii rfl _ bs).mp hd⟩
    · rw [if_neg h52] at h; cases h

/-- Hex form of any 32 bytes is accepted and gives them back. -/
theorem decodeBase32Hex_hex (b : Bytes) (hb : b.length = keyLen) :
    decodeBase32Hex (hexLower.encodeBytes b) = .ok b := by
  have hl : (hexLower.encodeBytes b).length = 64 := by
    rw [hexLower.length_encodeBytes, hb]; exact hexLen
  rw [decodeBase32Hex_eq, if_pos hl, hex_rt]

/-- Base32 form in any letter case of any 32 bytes is accepted and gives them back. -/
theorem decodeBase32Hex_base32 (b s : Bytes) (hb : b.length = keyLen)
    (hs : s.map asciiUpperByte = base32.encodeBytes b) : decodeBase32Hex s = .ok b := by
  have hl : s.length = 52 := by
    have := congrArg List.length hs
    rw [List.length_map, base32.length_encodeBytes, hb] at this
    rw [this]; exact b32Len
  have h64 : ¬ s.length = 64 := by rw [hl]; decide
  rw [decodeBase32Hex_eq, if_neg h64, if_pos hl, hs, b32_rt]

/-- Every other length is rejected with `InvalidLength`; in particular the length test is on
bytes, so multi-byte characters cannot reach `decode_mut` with a mismatched buffer. -/
theorem decodeBase32Hex_length (s : Bytes) (h64 : s.length ≠ 64) (h52 : s.length ≠ 52) :
    decodeBase32Hex s = .err .length := by
  rw [decodeBase32Hex_eq, if_neg h64, if_neg h52]

/-- Public keys are only ever accepted if they are valid curve points (string, z-base-32
and binary entry points), and then have 32 bytes. -/
theorem pubkey_accept_validPoint (vp : Bytes → Bool) (s : Bytes) (k : PublicKey) :
    (PublicKey.fromStr vp s = .ok k → k.WF vp) ∧
    (PublicKey.fromZ32 vp s = .ok k → k.WF vp) ∧
    (PublicKey.tryFromSlice vp s = .ok k → k.WF vp ∧ k.bytes = s) := by
  have hslice : ∀ b, PublicKey.tryFromSlice vp b = .ok k → k.WF vp ∧ k.bytes = b := by
    intro b h
    unfold PublicKey.tryFromSlice PublicKey.fromBytes at h
    by_cases hl : b.length = keyLen
    · by_cases hv : vp b = true
      · simp only [hl, hv, if_true, Res.ok.injEq] at h
        subst h; exact ⟨⟨hl, hv⟩, rfl⟩
      · simp [hl, hv] at h
    · simp [hl] at h
  refine ⟨?_, ?_, hslice s⟩
  · intro h
    unfold PublicKey.fromStr at h
    cases hd : decodeBase32Hex s with
    | panic => simp [hd] at h
    | err e => simp [hd] at h
    | ok b =>
      have hl := (decodeBase32Hex_total s).2 b hd
      simp only [hd] at h
      exact (hslice b (by simpa [PublicKey.tryFromSlice, hl] using h)).1
  · intro h
    unfold PublicKey.fromZ32 at h
    cases hd : zbase32.decodeBytes s with
    | none => simp [hd] at h
    | some b => simp only [hd] at h; exact (hslice b h).1

/-- Parsing a key never panics, whatever the input. -/
theorem pubkey_parse_total (vp : Bytes → Bool) (s : Bytes) :
    PublicKey.fromStr vp s ≠ .panic ∧ PublicKey.fromZ32 vp s ≠ .panic ∧
    PublicKey.tryFromSlice vp s ≠ .panic ∧ secretKeyFromStr s ≠ .panic := by
  have hb : ∀ b, PublicKey.fromBytes vp b ≠ .panic := by
    intro b; unfold PublicKey.fromBytes; split <;> simp
  have hs : ∀ b, PublicKey.tryFromSlice vp b ≠ .panic := by
    intro b; unfold PublicKey.tryFromSlice; split
    · exact hb b
    · simp
  refine ⟨?_, ?_, hs s, (decodeBase32Hex_total s).1⟩
  · unfold PublicKey.fromStr
    cases hd : decodeBase32Hex s with
    | panic => exact absurd hd (decodeBase32Hex_total s).1
    | err e => simp
    | ok b => exact hb b
  · unfold PublicKey.fromZ32
    cases zbase32.decodeBytes s with
    | none => simp
    | some b => exact hs b

/-- Every accessor / formatter of an accepted key is in bounds: `fmt_short` finds its five
bytes and `as_verifying_key`'s `expect` holds. -/
theorem pubkey_accessors_total (vp : Bytes → Bool) (k : PublicKey) (h : k.WF vp) :
    (∃ out, k.fmtShort = .ok out ∧ out.length = 2 * shortLen) ∧ k.asVerifyingKey vp = .ok () := by
  obtain ⟨hl, hv⟩ := h
  have h32 : k.bytes.length = 32 := hl
  constructor
  · refine ⟨hexLower.encodeBytes (k.bytes.take shortLen), ?_, ?_⟩
    · unfold PublicKey.fmtShort; rw [if_pos (by rw [h32]; decide)]
    · rw [hexLower.length_encodeBytes, List.length_take, h32]; decide
  · simp [PublicKey.asVerifyingKey, hv]

/-- `Display` → `FromStr`, base32 (any case) → `FromStr`, `to_z32` → `from_z32`,
`as_bytes` → `from_bytes` all return the key. -/
theorem pubkey_roundtrips (vp : Bytes → Bool) (k : PublicKey) (h : k.WF vp) :
    PublicKey.fromStr vp k.display = .ok k ∧
    (∀ s, s.map asciiUpperByte = base32.encodeBytes k.bytes → PublicKey.fromStr vp s = .ok k) ∧
    PublicKey.fromZ32 vp k.toZ32 = .ok k ∧
    PublicKey.fromBytes vp k.bytes = .ok k ∧ PublicKey.tryFromSlice vp k.bytes = .ok k := by
  obtain ⟨hl, hv⟩ := h
  have hfb : PublicKey.fromBytes vp k.bytes = .ok k := by simp [PublicKey.fromBytes, hv]
  have hts : PublicKey.tryFromSlice vp k.bytes = .ok k := by simp [PublicKey.tryFromSlice, hl, hfb]
  refine ⟨?_, ?_, ?_, hfb, hts⟩
  · simp [PublicKey.fromStr, PublicKey.display, decodeBase32Hex_hex k.bytes hl, hfb]
  · intro s hs
    simp [PublicKey.fromStr, decodeBase32Hex_base32 k.bytes s hl hs, hfb]
  · simp [PublicKey.fromZ32, PublicKey.toZ32, z32_rt, hts]

/-- Canonical shape of accepted key strings (nothing else parses). -/
theorem pubkey_fromStr_shape (vp : Bytes → Bool) (s : Bytes) (k : PublicKey)
    (h : PublicKey.fromStr vp s = .ok k) :
    s = k.display ∨ (s.length = 52 ∧ s.map asciiUpperByte = base32.encodeBytes k.bytes) := by
  unfold PublicKey.fromStr at h
  cases hd : decodeBase32Hex s with
  | panic => simp [hd] at h
  | err e => simp [hd] at h
  | ok b =>
    simp only [hd, PublicKey.fromBytes] at h
    by_cases hv : vp b = true
    · simp only [hv, if_true, Res.ok.injEq] at h
      subst h
      rcases decodeBase32Hex_shape s b hd with ⟨_, h1⟩ | h2
      · left; exact h1
      · right; exact h2
    · simp [hv] at h

/-- `from_z32` accepts exactly the z-base-32 encoding (lower case) of the key. -/
theorem pubkey_fromZ32_shape (vp : Bytes → Bool) (s : Bytes) (k : PublicKey)
    (h : PublicKey.fromZ32 vp s = .ok k) : s = k.toZ32 := by
  unfold PublicKey.fromZ32 at h
  cases hd : zbase32.decodeBytes s with
  | none => simp [hd] at h
  | some b =>
    simp only [hd] at h
    have := ((pubkey_accept_validPoint vp b k).2.2 h).2
    rw [PublicKey.toZ32, this]
    exact (zbase32.decodeBytes_eq_some_iff zbase32_ascii rfl s b).mp hd

/-- Secret keys: hex `Display` of the 32 bytes parses back; slices of 32 bytes convert. -/
theorem secretKey_roundtrips (b : Bytes) (hb : b.length = keyLen) :
    secretKeyFromStr (hexLower.encodeBytes b) = .ok b ∧ secretKeyFromSlice b = .ok b := by
  exact ⟨decodeBase32Hex_hex b hb, by simp [secretKeyFromSlice, hb]⟩

/-- Signatures: exactly the 64-byte strings convert, unchanged. -/
theorem signature_fromSlice_iff (b out : Bytes) :
    signatureFromSlice b = .ok out ↔ b.length = 64 ∧ out = b := by
  unfold signatureFromSlice
  by_cases h : b.length = 2 * keyLen
  · have h64 : b.length = 64 := h
    rw [if_pos h]
    constructor
    · intro e; cases e; exact ⟨h64, rfl⟩
    · rintro ⟨_, rfl⟩; rfl
  · have h64 : ¬ b.length = 64 := h
    rw [if_neg h]
    constructor
    · intro e; cases e
    · rintro ⟨h', _⟩; exact absurd h' h64

/-- A signature made with a secret key verifies under its public key (scheme law; that it
fails for any other message or key is the EUF-CMA assumption, exercised by the oracle). -/
theorem sig_verify_own (S : SigScheme) (sk m : Bytes) : S.verify (S.pub sk) m (S.sign sk m) = true :=
  S.verify_sign sk m

/-! ## 3. custom addresses -/

/-- `copy_from_slice` is total for every length and its result is canonical and reads back. -/
theorem copyFromSlice_total (d : Bytes) :
    ∃ r, CustomAddrBytes.copyFromSlice d = .ok r ∧ r.WF ∧ r.asBytes = .ok d ∧ r.len = d.length :=
  CustomAddrBytes.copyFromSlice_spec d

/-- The invariant is exactly "built by `copy_from_slice`". -/
theorem wf_iff_built (r : CustomAddrBytes) :
    r.WF ↔ ∃ d, CustomAddrBytes.copyFromSlice d = .ok r :=
  CustomAddrBytes.wf_iff_canonical r

/-- From the invariant every accessor and formatter is in bounds (`as_bytes_inbounds`). -/
theorem accessors_total (a : CustomAddr) (h : a.WF) :
    ∃ d, a.dataBytes = .ok d ∧ a.data.len = d.length ∧
      a.toVec = .ok (le8 a.id.toNat ++ d) ∧
      a.display = .ok (fmtHexU64 a.id ++ [95] ++ hexLower.encodeBytes d) ∧
      a.toPostcard = .ok (varintEnc 10 a.id.toNat ++ varintEnc 10 d.length ++ d) ∧
      (∃ g, a.debug = .ok g) ∧ a.logical = .ok (a.id, d) := by
  obtain ⟨d, hb, _, hl⟩ := CustomAddrBytes.wf_canonical h
  refine ⟨d, hb, hl, ?_, ?_, ?_, ?_, ?_⟩
  · simp [CustomAddr.toVec, hb, hl]
  · simp [CustomAddr.display, hb]
  · simp [CustomAddr.toPostcard, hb]
  · simp [CustomAddr.debug, hb]
  · simp [CustomAddr.logical, hb]

/-- Parsing is total: every string / byte string / postcard blob yields an error or a
value satisfying the invariant — never a panic. -/
theorem custom_parse_total (s : Bytes) :
    (CustomAddr.fromStr s ≠ .panic ∧ ∀ a, CustomAddr.fromStr s = .ok a → a.WF) ∧
    (CustomAddr.fromBytes s ≠ .panic ∧ ∀ a, CustomAddr.fromBytes s = .ok a → a.WF) ∧
    (CustomAddr.fromPostcard s ≠ .panic ∧ ∀ a r, CustomAddr.fromPostcard s = .ok (a, r) → a.WF) := by
  refine ⟨?_, ?_, ?_⟩
  · unfold CustomAddr.fromStr
    cases h0 : splitOnce 95 s with
    | none => exact ⟨by simp, by simp⟩
    | some p =>
      obtain ⟨i, ds⟩ := p
      simp only
      cases h1 : parseU64Hex i with
      | none => exact ⟨by simp, by simp⟩
      | some id =>
        simp only
        cases h2 : hexLower.decodeBytes ds with
        | none => exact ⟨by simp, by simp⟩
        | some d =>
          obtain ⟨a, ha, hwf, _⟩ := CustomAddr.fromParts_spec id d
          simp only [ha]
          refine ⟨by simp, ?_⟩
          intro a' h; cases h; exact hwf
  · unfold CustomAddr.fromBytes
    by_cases hl : s.length < binHeader
    · rw [if_pos hl]; exact ⟨by simp, by simp⟩
    · obtain ⟨a, ha, hwf, _⟩ :=
        CustomAddr.fromParts_spec (UInt64.ofNat (ofLe8 (s.take binHeader))) (s.drop binHeader)
      rw [if_neg hl, ha]
      refine ⟨by simp, ?_⟩
      intro a' h; cases h; exact hwf
  · unfold CustomAddr.fromPostcard
    cases h1 : varintDec 10 s with
    | error e => exact ⟨by simp, by simp⟩
    | ok p =>
      obtain ⟨id, r1⟩ := p
      simp only
      cases h2 : varintDec 10 r1 with
      | error e => exact ⟨by simp, by simp⟩
      | ok q =>
        obtain ⟨n, r2⟩ := q
        simp only
        by_cases hn : r2.length < n
        · rw [if_pos hn]; exact ⟨by simp, by simp⟩
        · obtain ⟨a, ha, hwf, _⟩ := CustomAddr.fromParts_spec (UInt64.ofNat id) (r2.take n)
          rw [if_neg hn, ha]
          refine ⟨by simp, ?_⟩
          intro a' r h; cases h; exact hwf

/-- `from_parts` then `id()`/`data()` gives the parts back, for every id and length. -/
theorem custom_parts_rt (id : UInt64) (d : Bytes) :
    ∃ a, CustomAddr.fromParts id d = .ok a ∧ a.WF ∧ a.logical = .ok (id, d) := by
  obtain ⟨a, ha, hwf, hid, hb, _⟩ := CustomAddr.fromParts_spec id d
  exact ⟨a, ha, hwf, by simp [CustomAddr.logical, hb, hid]⟩

private theorem fromParts_of_wf (a : CustomAddr) (h : a.WF) :
    ∃ d, a.data.asBytes = .ok d ∧ CustomAddr.fromParts a.id d = .ok a := by
  obtain ⟨d, hb, hc, _⟩ := CustomAddrBytes.wf_canonical h
  exact ⟨d, hb, by simp [CustomAddr.fromParts, hc]⟩

/-- String form: `Display` then `FromStr` returns the address (all ids, all lengths). -/
theorem custom_str_rt (a : CustomAddr) (h : a.WF) :
    ∃ s, a.display = .ok s ∧ CustomAddr.fromStr s = .ok a := by
  obtain ⟨d, hb, hp⟩ := fromParts_of_wf a h
  refine ⟨fmtHexU64 a.id ++ [95] ++ hexLower.encodeBytes d, by simp [CustomAddr.display, hb], ?_⟩
  have hsep : (95 : UInt8) ∉ fmtHexU64 a.id := by
    intro hm
    obtain ⟨x, hx, he⟩ := mem_fmtHexU64 hm
    exact (hexDigitByte_isHex hx).1 he.symm
  unfold CustomAddr.fromStr
  rw [List.append_assoc, List.singleton_append, splitOnce_append 95 _ _ hsep]
  simp only [parseU64Hex_fmtHexU64, hex_rt, hp]

/-- Binary form: `to_vec` then `from_bytes` returns the address. -/
theorem custom_bin_rt (a : CustomAddr) (h : a.WF) :
    ∃ v, a.toVec = .ok v ∧ CustomAddr.fromBytes v = .ok a := by
  obtain ⟨d, hb, hp⟩ := fromParts_of_wf a h
  obtain ⟨d', hb', hl, hv, _⟩ := accessors_total a h
  have : d' = d := by
    have : a.dataBytes = a.data.asBytes := rfl
    rw [this, hb] at hb'; cases hb'; rfl
  subst this
  refine ⟨_, hv, ?_⟩
  unfold CustomAddr.fromBytes
  have hlen : ¬ (le8 a.id.toNat ++ d').length < binHeader := by
    simp only [List.length_append, length_le8, binHeader]; omega
  rw [if_neg hlen, List.take_left' (by simp [binHeader]), List.drop_left' (by simp [binHeader]),
    ofLe8_le8 _ (UInt64.toNat_lt a.id), UInt64.ofNat_toNat, hp]

/-- Postcard form: serialize then `take_from_bytes` returns the address and exactly the
unread rest, for every data length below `2^64`. -/
theorem custom_postcard_rt (a : CustomAddr) (h : a.WF) (hlen : a.data.len < 2 ^ 64) (rest : Bytes) :
    ∃ p, a.toPostcard = .ok p ∧ CustomAddr.fromPostcard (p ++ rest) = .ok (a, rest) := by
  obtain ⟨d, hb, hp⟩ := fromParts_of_wf a h
  obtain ⟨d', hb', hl, _, _, hpc, _⟩ := accessors_total a h
  have : d' = d := by
    have : a.dataBytes = a.data.asBytes := rfl
    rw [this, hb] at hb'; cases hb'; rfl
  subst this
  refine ⟨_, hpc, ?_⟩
  unfold CustomAddr.fromPostcard
  rw [List.append_assoc, List.append_assoc,
    varintDec_varintEnc_u64 _ _ (UInt64.toNat_lt a.id)]
  simp only
  rw [varintDec_varintEnc_u64 _ _ (by rw [← hl]; exact hlen)]
  simp only
  rw [if_neg (by simp), List.take_left' rfl, List.drop_left' rfl, UInt64.ofNat_toNat, hp]

/-- `Eq` agrees with logical equality: two well-formed addresses are (structurally) equal
iff their ids and data bytes are equal — the representation is canonical. -/
theorem eq_canonical (a b : CustomAddr) (ha : a.WF) (hb : b.WF) :
    a = b ↔ a.logical = b.logical := by
  constructor
  · rintro rfl; rfl
  · intro h
    obtain ⟨da, hda, _⟩ := CustomAddrBytes.wf_canonical ha
    obtain ⟨db, hdb, _⟩ := CustomAddrBytes.wf_canonical hb
    simp only [CustomAddr.logical, hda, hdb, Res.ok.injEq, Prod.mk.injEq] at h
    obtain ⟨hid, hd⟩ := h
    have hrepr := CustomAddrBytes.wf_eq_of_asBytes_eq ha hb (by rw [hda, hdb, hd])
    cases a; cases b
    simp_all

/-- The derived `Ord` is consistent with `Eq` (on every representation) … -/
theorem cmp_eq_iff (a b : CustomAddr) : a.cmp b = .eq ↔ a = b := by
  have hbytes : ∀ x y : CustomAddrBytes, x.cmp y = .eq ↔ x = y := by
    intro x y
    cases x <;> cases y
    · simp [CustomAddrBytes.cmp, cmpNat_eq_iff, cmpBytes_eq_iff, UInt8.toNat_inj]
    · simp [CustomAddrBytes.cmp]
    · simp [CustomAddrBytes.cmp]
    · simp [CustomAddrBytes.cmp, cmpBytes_eq_iff]
  cases a with | mk i x => cases b with | mk j y =>
  simp [CustomAddr.cmp, cmpNat_eq_iff, hbytes, UInt64.toNat_inj]

/-- … antisymmetric … -/
theorem cmp_swap (a b : CustomAddr) : (a.cmp b).swap = b.cmp a := by
  have hbytes : ∀ x y : CustomAddrBytes, (x.cmp y).swap = y.cmp x := by
    intro x y
    cases x <;> cases y <;> simp [CustomAddrBytes.cmp, then_swap, cmpNat_swap, cmpBytes_swap]
  simp [CustomAddr.cmp, then_swap, cmpNat_swap, hbytes]

/-- … and `Eq`/`Ord`/`Hash` all agree with logical equality of `(id, data)` on values that
satisfy the invariant (every value any constructor or parser produces). -/
theorem eq_ord_hash_agree (a b : CustomAddr) (ha : a.WF) (hb : b.WF) :
    (a.cmp b = .eq ↔ a.logical = b.logical) ∧
    (a.logical = b.logical → a.hashFeed = b.hashFeed) := by
  constructor
  · rw [cmp_eq_iff, eq_canonical a b ha hb]
  · intro h
    rw [(eq_canonical a b ha hb).mpr h]

/-- The constants the representation depends on are mutually consistent and the `u8` size
field cannot truncate. -/
theorem inline_consts : inlineCutoff ≤ inlineBuf ∧ inlineBuf = inlineCap ∧ inlineCap = 30 ∧
    inlineCap < 256 ∧ binHeader = 8 ∧ keyLen = 32 ∧ shortLen ≤ keyLen := by decide

/-! ## non-vacuity -/

-- a valid-point predicate that accepts something, and a key satisfying the hypotheses
example : (⟨List.replicate 32 0⟩ : PublicKey).WF (fun _ => true) := ⟨by decide, rfl⟩
example : PublicKey.fromStr (fun _ => true) (hexLower.encodeBytes (List.replicate 32 7)) =
    .ok ⟨List.replicate 32 7⟩ :=
  (pubkey_roundtrips _ ⟨List.replicate 32 7⟩ ⟨by decide, rfl⟩).1
-- rejected when the predicate says no, although the string is well-formed
example : PublicKey.fromStr (fun _ => false) (hexLower.encodeBytes (List.replicate 32 7)) =
    .err .keyData := by
  unfold PublicKey.fromStr
  rw [decodeBase32Hex_hex _ (by decide)]
  rfl
-- the repo's regression input ("foobarbaz") is an error, not a panic
example : decodeBase32Hex [102, 111, 111, 98, 97, 114, 98, 97, 122] = .err .length :=
  decodeBase32Hex_length _ (by decide) (by decide)
-- well-formed addresses on both sides of the cut-off, and an ill-formed one
example : (CustomAddr.mk 1 (.inline 2 ([1, 2] ++ List.replicate 28 0))).WF :=
  ⟨by decide, by decide, by decide⟩
example : (CustomAddr.mk 1 (.heap (List.replicate 31 9))).WF :=
  show 30 < (List.replicate 31 (9 : UInt8)).length by decide
example : ¬ (CustomAddr.mk 1 (.inline 255 (List.replicate 30 9))).WF :=
  fun h => absurd h.2.1 (by decide)
example : (CustomAddr.mk 1 (.inline 255 (List.replicate 30 9))).dataBytes = .panic := by decide
-- equal logical content with different padding: excluded only by the invariant
example : (CustomAddr.mk 1 (.inline 1 (5 :: List.replicate 29 0))).logical =
    (CustomAddr.mk 1 (.inline 1 (5 :: List.replicate 29 1))).logical := by decide
-- the derived order is not the slice order ([5] < [1,1] because sizes compare first)
example : (CustomAddr.mk 1 (.inline 1 (5 :: List.replicate 29 0))).cmp
    (CustomAddr.mk 1 (.inline 2 (1 :: 1 :: List.replicate 28 0))) = .lt := by decide
-- a postcard blob that parses, one that ends early, one with a bad varint
example : CustomAddr.fromPostcard [1, 2, 7, 8, 9] =
    .ok (⟨1, .inline 2 ([7, 8] ++ List.replicate 28 0)⟩, [9]) := by decide
example : CustomAddr.fromPostcard [1, 3, 7, 8] = .err .unexpectedEnd := by decide
example : CustomAddr.fromPostcard [255, 255, 255, 255, 255, 255, 255, 255, 255, 2, 0] =
    .err .badVarint := by decide

end IrohModel.C02
