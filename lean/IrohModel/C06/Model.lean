/-
C06 — relay connection registry.  The model is the shared `Common/RelayRegistry`
(registry + per-connection queues + actors); this file instantiates its configuration
with the constants extracted from the source.
-/
import IrohModel.Generated.C06
import IrohModel.Common.RelayRegistry
import IrohModel.Common.RelaySched

namespace IrohModel.C06
open IrohModel.RelayRegistry

/-- Configuration of the real relay for payload type `α` with length function `plen`;
`cap = 0` stands for `Config::new`'s default `PER_CLIENT_SEND_QUEUE_DEPTH`. -/
def cfgOf {α : Type} (plen : α → Nat) (cap : Nat) : Cfg α :=
  { cap := if cap = 0 then Generated.C06.defaultCap else cap,
    maxPacket := Generated.C06.maxPacket,
    typeLen := Generated.C06.typeLen, keyLen := Generated.C06.keyLen,
    ecnLen := Generated.C06.ecnLen, segLen := Generated.C06.segLen,
    plen := plen }

/-- The configuration the driver replays harness scripts with. -/
def driverCfg (cap : Nat) : Cfg RelaySched.Tok := cfgOf (fun t => t.len) cap

end IrohModel.C06
