/-
C06 — relay connection registry: newest connection wins, older ones resume.

Property statement: for any history of connections and disconnections with the same
endpoint id, the relay delivers traffic for that id to the most recently connected
connection still open; when it closes, the most recent remaining one becomes active again
and is told it is healthy, and a displaced connection is told another connection took
over.  An endpoint's entry disappears only when its last connection is gone, and only
then do clients it had sent to receive a peer-gone notice (when their queue has room).

All theorems are about `RelayRegistry.run cfg ops` for ARBITRARY operation histories
`ops` (any number of endpoints and connections, any interleaving of registrations,
unregistrations, disconnect requests, frames, deliveries, actor exits and shutdowns) and
arbitrary configuration `cfg` (queue capacity, size limits), or about one step from an
arbitrary state.  "Is told" = the notice is put into the connection's message queue when
that queue has room (`try_send`), which is what the code does for all three notices.
-/
import IrohModel.C06.Lemmas

namespace IrohModel.C06
open IrohModel.RelayRegistry

variable {α : Type}

/-- **Main refinement theorem.**  After any history, the registry entry of every endpoint
is exactly determined by its open connections (registered, not yet unregistered, newest
first — `Spec`): no entry iff none is open; otherwise the newest open connection is the
active one and the remaining ones are the inactive ones, newest first. -/
theorem registry_is_open_connections (cfg : Cfg α) (ops : List (Op α)) (id : Id) :
    (run cfg ops).entries id = entryOf ((Spec.run ops).open_ id) :=
  (RegInv.run cfg ops).entries id

/-- The active connection is the most recently registered open connection of the id:
it is in the open list and every other open connection of the id has a smaller
(= earlier) connection id. -/
theorem active_is_newest_open (cfg : Cfg α) (ops : List (Op α)) (id : Id) (e : Entry)
    (h : (run cfg ops).entries id = some e) :
    e.active ∈ (Spec.run ops).open_ id ∧
    (∀ c ∈ (Spec.run ops).open_ id, c ≤ e.active) ∧
    (Spec.run ops).open_ id = e.active :: e.inactive := by
  rw [registry_is_open_connections] at h
  have hl := entryOf_eq_some h
  have hs := spec_sorted ops id
  rw [hl] at hs ⊢
  refine ⟨List.mem_cons_self, fun c hc => ?_, rfl⟩
  rcases List.mem_cons.mp hc with rfl | hc
  · exact Nat.le_refl _
  · exact Nat.le_of_lt ((List.pairwise_cons.mp hs).1 c hc)

/-- An entry exists iff some connection of the id is open. -/
theorem entry_iff_open (cfg : Cfg α) (ops : List (Op α)) (id : Id) :
    ((run cfg ops).entries id).isSome = true ↔ (Spec.run ops).open_ id ≠ [] := by
  rw [registry_is_open_connections]
  cases (Spec.run ops).open_ id <;> simp [entryOf]

/-- Promotion is last-in-first-out: when the active connection `c` of `id` unregisters and
inactive connections remain, the most recently displaced one (`last`) becomes active,
the others stay inactive in order, and `last` is told `Healthy` — as a `Status` frame, or
as a `Health` text frame for a protocol-V1 connection — iff its message queue has room. -/
theorem promotion_lifo (cfg : Cfg α) (s : State α) (c : Cid) (x : Conn α) (last : Cid) (rest : List Cid)
    (y : Conn α) (hx : s.conns c = some x)
    (he : s.entries x.owner = some { active := c, inactive := last :: rest })
    (hy : s.conns last = some y) (hne : last ≠ c) :
    (unregister cfg s c).entries x.owner = some { active := last, inactive := rest } ∧
    (y.msgQ.length < cfg.cap →
      (unregister cfg s c).log = s.log ++ [.enq last (healthMsg y.v1 .healthy)] ∧
      ((unregister cfg s c).conns last).map (·.msgQ) = some (y.msgQ ++ [healthMsg y.v1 .healthy])) ∧
    (¬ y.msgQ.length < cfg.cap →
      (unregister cfg s c).log = s.log ++ [.enqFail last (healthMsg y.v1 .healthy)] ∧
      (unregister cfg s c).conns last = some y) := by
  simp only [RelayRegistry.unregister, hx, unregisterReg, setConn_entries, he, if_true,
    trySendHealth, setEntry_conns, setConn_conns, if_neg hne, hy, trySendMsg]
  by_cases hroom : y.msgQ.length < cfg.cap <;> simp [hroom, hne, hy]

/-- A displaced connection is told: when a new connection registers for an id that has an
active connection `a`, then `a` becomes the newest inactive one and is sent
`SameEndpointIdConnected` (V1: as `Health` text) iff its message queue has room. -/
theorem displaced_is_told (cfg : Cfg α) (s : State α) (id : Id) (v1 : Bool) (e : Entry) (y : Conn α)
    (he : s.entries id = some e) (hy : s.conns e.active = some y) (hne : e.active ≠ s.nextCid) :
    (register cfg s id v1).entries id = some { active := s.nextCid, inactive := e.active :: e.inactive } ∧
    (y.msgQ.length < cfg.cap →
      (register cfg s id v1).log =
        s.log ++ [.registered s.nextCid id, .enq e.active (healthMsg y.v1 .sameIdConnected)] ∧
      ((register cfg s id v1).conns e.active).map (·.msgQ) =
        some (y.msgQ ++ [healthMsg y.v1 .sameIdConnected])) ∧
    (¬ y.msgQ.length < cfg.cap →
      (register cfg s id v1).log =
        s.log ++ [.registered s.nextCid id, .enqFail e.active (healthMsg y.v1 .sameIdConnected)] ∧
      (register cfg s id v1).conns e.active = some y) := by
  simp only [RelayRegistry.register, emit_entries, setConn_entries, he, trySendHealth, emit_conns,
    setConn_conns, if_neg hne, hy, trySendMsg]
  by_cases hroom : y.msgQ.length < cfg.cap <;> simp [hroom, hne, hy]

/-- In reachable states the side conditions of `displaced_is_told` / `promotion_lifo` hold:
connections in the registry have records, owned by the entry's endpoint, and ids below the
counter (so a registration never reuses an id). -/
theorem registered_have_records (cfg : Cfg α) (ops : List (Op α)) (id : Id) (e : Entry)
    (h : (run cfg ops).entries id = some e) :
    ∀ c ∈ e.active :: e.inactive,
      c < (run cfg ops).nextCid ∧ ∃ y, (run cfg ops).conns c = some y ∧ y.owner = id := by
  intro c hc
  have inv := RegInv.run cfg ops
  rw [inv.entries] at h
  rw [← entryOf_eq_some h] at hc
  refine ⟨inv.lt id c hc, ?_⟩
  have := inv.owner id c hc
  cases hcon : (run cfg ops).conns c with
  | none => rw [hcon] at this; simp at this
  | some y => rw [hcon] at this; exact ⟨y, rfl, by simpa using this⟩

/-- An entry disappears only when its last connection goes: if one step removes the entry
of `g`, the step is either a server shutdown, or the unregistration of `g`'s active
connection while no inactive one is left; in the latter case the peer-gone notifications
owed are exactly `g`'s `sent_to` set (which is cleared). -/
theorem entry_removed_only_by_last (cfg : Cfg α) (s : State α) (op : Op α) (g : Id) (e : Entry)
    (he : s.entries g = some e) (hgone : (step cfg s op).entries g = none) :
    op = .shutdown ∨
    ∃ x, op = .unregister e.active ∧ s.conns e.active = some x ∧ x.owner = g ∧ e.inactive = [] ∧
      (step cfg s op).log = s.log ++ [.entryRemoved g (s.sentTo g)] ∧
      (step cfg s op).pendingGone = s.pendingGone ++ (s.sentTo g).map (fun p => (g, p)) ∧
      (step cfg s op).sentTo g = [] := by
  cases op with
  | shutdown => exact Or.inl rfl
  | register id v1 =>
    exfalso
    simp only [RelayRegistry.step, RelayRegistry.register] at hgone
    split at hgone
    · rw [setEntry_entries, (trySendHealth_sameReg _ _ _ _).entries] at hgone
      split at hgone <;> simp_all
    · rw [setEntry_entries] at hgone
      split at hgone <;> simp_all
  | notifyGone => rw [RelayRegistry.step, (notifyGone_sameCore cfg s).entries, he] at hgone; cases hgone
  | disconnect id sel => rw [RelayRegistry.step, (disconnect_sameReg s id sel).entries, he] at hgone; cases hgone
  | recvFrame c f => rw [RelayRegistry.step, (recvFrame_sameCore cfg s c f).entries, he] at hgone; cases hgone
  | deliverPacket c => rw [RelayRegistry.step, (deliverPacket_sameReg cfg s c).entries, he] at hgone; cases hgone
  | deliverMsg c => rw [RelayRegistry.step, (deliverMsg_sameReg s c).entries, he] at hgone; cases hgone
  | actorExit c => rw [RelayRegistry.step, (actorExit_sameReg s c).entries, he] at hgone; cases hgone
  | unregister c =>
    right
    simp only [RelayRegistry.step, RelayRegistry.unregister] at hgone ⊢
    cases hx : s.conns c with
    | none => simp [hx, he] at hgone
    | some x =>
      simp only [hx] at hgone ⊢
      by_cases hown : x.owner = g
      · subst hown
        simp only [unregisterReg, setConn_entries, he] at hgone ⊢
        by_cases hact : e.active = c
        · subst hact
          simp only [if_true] at hgone ⊢
          cases hin : e.inactive with
          | nil =>
            refine ⟨x, trivial, hx, rfl, rfl, ?_, ?_, ?_⟩
            · rfl
            · rfl
            · show (if x.owner = x.owner then ([] : List Id) else _) = []
              simp
          | cons last rest =>
            simp only [hin] at hgone
            rw [(trySendHealth_sameReg _ _ _ _).entries] at hgone
            simp at hgone
        · simp [hact] at hgone
      · exfalso
        have : (unregisterReg cfg (setConn s c none) x.owner c).entries g = s.entries g := by
          unfold unregisterReg
          repeat' split
          all_goals first
            | rfl
            | (simp only [emit_entries, setEntry_entries, setSentTo_entries, setConn_entries,
                (trySendHealth_sameReg _ _ _ _).entries]
               rw [if_neg (Ne.symm hown)])
        rw [this, he] at hgone; cases hgone

/-- Peer-gone notices go out only from the notification loop of an entry removal, to the
then-active connection of the peer, iff that connection's message queue has room: if a
step puts `EndpointGone g` into the message queue of `c`, the step is the loop iteration
for a pending pair `(g, p)` and `c` is the active connection of `p`. -/
theorem gone_notice_only_from_removal (cfg : Cfg α) (s : State α) (op : Op α) (c : Cid) (g : Id)
    (evs : List (Event α)) (hlog : (step cfg s op).log = s.log ++ evs)
    (hev : Event.enq c (.endpointGone g) ∈ evs) :
    op = .notifyGone ∧ ∃ p rest e y, s.pendingGone = (g, p) :: rest ∧ s.entries p = some e ∧
      e.active = c ∧ s.conns c = some y ∧ y.msgQ.length < cfg.cap := by
  by_cases hop : op = .notifyGone
  · subst hop
    refine ⟨rfl, ?_⟩
    simp only [RelayRegistry.step, RelayRegistry.notifyGone] at hlog
    cases hp : s.pendingGone with
    | nil =>
      simp only [hp] at hlog
      have : evs = [] := by simpa using hlog
      subst this; simp at hev
    | cons pr rest =>
      obtain ⟨g', p⟩ := pr
      simp only [hp, emit_entries] at hlog
      cases hent : s.entries p with
      | none =>
        simp only [hent, emit_log] at hlog
        have : evs = [.goneAttempt g' p] := (List.append_cancel_left hlog).symm
        subst this; simp at hev
      | some e =>
        simp only [hent, trySendMsg, emit_conns] at hlog
        cases hy : s.conns e.active with
        | none =>
          simp only [hy, emit_log, List.append_assoc] at hlog
          have := (List.append_cancel_left hlog).symm
          subst this; simp at hev
        | some y =>
          simp only [hy] at hlog
          by_cases hroom : y.msgQ.length < cfg.cap
          · simp only [hroom, if_true, emit_log, setConn_log, List.append_assoc] at hlog
            have := (List.append_cancel_left hlog).symm
            subst this
            simp only [List.cons_append, List.nil_append, List.mem_cons, reduceCtorEq,
              Event.enq.injEq, Msg.endpointGone.injEq, List.not_mem_nil, or_false, false_or] at hev
            obtain ⟨rfl, rfl⟩ := hev
            exact ⟨p, rest, e, y, rfl, hent, rfl, hy, hroom⟩
          · simp only [hroom, if_false, emit_log, List.append_assoc] at hlog
            have := (List.append_cancel_left hlog).symm
            subst this; simp at hev
  · exfalso
    obtain ⟨evs', h1, h2⟩ := step_quiet cfg s op hop
    rw [h1] at hlog
    have := List.append_cancel_left hlog
    subst this
    have := h2 _ hev
    simp [isGoneEnq] at this

/-- One iteration of the notification loop: the pair is consumed; the peer's active
connection gets `EndpointGone g` iff the peer has an entry and the queue has room. -/
theorem gone_notice_delivery (cfg : Cfg α) (s : State α) (g p : Id) (rest : List (Id × Id))
    (h : s.pendingGone = (g, p) :: rest) :
    (notifyGone cfg s).pendingGone = rest ∧ (notifyGone cfg s).entries = s.entries ∧
    (s.entries p = none →
      (notifyGone cfg s).log = s.log ++ [.goneAttempt g p] ∧ (notifyGone cfg s).conns = s.conns) ∧
    (∀ e y, s.entries p = some e → s.conns e.active = some y →
      (y.msgQ.length < cfg.cap →
        (notifyGone cfg s).log = s.log ++ [.goneAttempt g p, .enq e.active (.endpointGone g)] ∧
        ((notifyGone cfg s).conns e.active).map (·.msgQ) = some (y.msgQ ++ [.endpointGone g])) ∧
      (¬ y.msgQ.length < cfg.cap →
        (notifyGone cfg s).log = s.log ++ [.goneAttempt g p, .enqFail e.active (.endpointGone g)] ∧
        (notifyGone cfg s).conns = s.conns)) := by
  refine ⟨?_, (notifyGone_sameCore cfg s).entries, fun hn => ?_, fun e y he hy => ⟨fun hroom => ?_, fun hroom => ?_⟩⟩
  · simp only [RelayRegistry.notifyGone, h]
    split
    · rfl
    · exact (trySendMsg_sameReg _ _ _ _).pendingGone
  · simp [RelayRegistry.notifyGone, h, hn]
  · simp [RelayRegistry.notifyGone, h, he, trySendMsg, hy, hroom]
  · simp [RelayRegistry.notifyGone, h, he, trySendMsg, hy, hroom]

/-- **Trace-level accounting of peer-gone notices.**  In every reachable state, the
notifications attempted so far followed by the ones still owed are exactly — same pairs,
same multiplicity, same order — the `(gone, peer)` pairs of all entry removals so far,
where an entry removal of `g` contributes one pair for every member of `g`'s `sent_to`
set at that moment (`entry_removed_only_by_last`).  So a peer-gone notice for `g` is
attempted only after `g`'s entry was removed, once per removal and recorded peer. -/
theorem gone_only_last (cfg : Cfg α) (ops : List (Op α)) :
    gonePairs (run cfg ops).log = attempts (run cfg ops).log ++ (run cfg ops).pendingGone :=
  goneInv_run cfg ops

/-- `sent_to` only contains endpoints the id has successfully sent to: every member of
`sentTo g` stems from a datagram of `g` that the relay accepted for that endpoint. -/
theorem sentTo_sound (cfg : Cfg α) (ops : List (Op α)) (g p : Id) (h : p ∈ (run cfg ops).sentTo g) :
    ∃ sender target d, Event.accepted sender g p target d ∈ (run cfg ops).log :=
  sentToInv_run cfg ops g p h

/-- A stale unregistration — the guard's connection id is not (or no longer) in the entry
of its endpoint — changes nothing in the registry. -/
theorem stale_unregister_noop (cfg : Cfg α) (s : State α) (id : Id) (cid : Cid)
    (h : ∀ e, s.entries id = some e → cid ≠ e.active ∧ cid ∉ e.inactive) :
    unregisterReg cfg s id cid = s := by
  unfold unregisterReg
  cases he : s.entries id with
  | none => rfl
  | some e =>
    obtain ⟨h1, h2⟩ := h e he
    simp only [if_neg (Ne.symm h1)]
    have hf : e.inactive.filter (· ≠ cid) = e.inactive :=
      List.filter_eq_self.mpr (fun a ha => by simp; rintro rfl; exact h2 ha)
    rw [hf]
    cases s with
    | mk entries sentTo conns nextCid pendingGone log =>
      simp only [setEntry, State.mk.injEq, and_true]
      funext k
      split
      · subst_vars; exact he.symm
      · rfl

/-- `disconnect` only cancels: it reports whether a matching connection is registered and
leaves the registry, the queues' owners and `sent_to` untouched. -/
theorem disconnect_only_cancels (s : State α) (id : Id) (sel : Option Cid) :
    let s' := disconnect s id sel
    s'.entries = s.entries ∧ s'.sentTo = s.sentTo ∧
    s'.log = s.log ++ [.discResult (match s.entries id, sel with
      | none, _ => false
      | some _, none => true
      | some e, some c => decide (c ∈ e.inactive ∨ c = e.active))] := by
  intro s'
  refine ⟨(disconnect_sameReg s id sel).entries, (disconnect_sameReg s id sel).sentTo, ?_⟩
  show (disconnect s id sel).log = _
  unfold disconnect
  cases s.entries id with
  | none => rfl
  | some e =>
    cases sel with
    | none => simp [foldl_cancel_log]
    | some c =>
      by_cases hc : c ∈ e.all
      · have : c ∈ e.inactive ∨ c = e.active := by simpa [Entry.all] using hc
        simp [hc, cancel_log, this]
      · have : ¬ (c ∈ e.inactive ∨ c = e.active) := by simpa [Entry.all] using hc
        simp [hc, this]

/-- **Exit ⇒ unregistration, whatever the stream's state.**  `Actor::run` calls
`Clients::unregister` right after `run_inner` returns (source shape pinned by the constant
`exitUnregistersAtOnce`): nothing the connection still has queued or unsent — the contents
of its packet and message queues, its flags — influences what the unregistration does to
the registry: the resulting entries depend only on the entries before and on the
connection's owner. -/
theorem unregister_ignores_stream_state (cfg : Cfg α) (s : State α) (c : Cid) (x x' : Conn α)
    (hx : s.conns c = some x) (ho : x'.owner = x.owner) :
    (unregister cfg (setConn s c (some x')) c).entries = (unregister cfg s c).entries := by
  -- the registry part only looks at `entries`, `sentTo` and (for the notice) other records
  have key : ∀ (t u : State α) (id : Id), t.entries = u.entries →
      (unregisterReg cfg t id c).entries = (unregisterReg cfg u id c).entries := by
    intro t u id he
    unfold unregisterReg
    rw [he]
    split
    · exact he
    · split
      · split
        · rw [(trySendHealth_sameReg _ _ _ _).entries, (trySendHealth_sameReg _ _ _ _).entries]
          funext k; simp only [setEntry_entries, he]
        · funext k; simp only [emit_entries, setEntry_entries, setSentTo_entries, he]
      · funext k; simp only [setEntry_entries, he]
  simp only [RelayRegistry.unregister, setConn_conns, if_true, hx, ho]
  exact key _ _ _ rfl

/-! ### Non-vacuity: concrete histories on which the hypotheses above hold -/

/-- A toy configuration: capacity 1, real size limits, payload = byte list. -/
def demoCfg : Cfg (List Nat) := cfgOf List.length 1

/-- Three connections of id 0; the middle one leaves; then the newest one leaves. -/
def demoOps : List (Op (List Nat)) :=
  [.register 0 false, .register 0 true, .register 0 false, .unregister 1, .unregister 2]

example : (run demoCfg demoOps).entries 0 = some { active := 0, inactive := [] } := by decide
example : (Spec.run demoOps).open_ 0 = [0] := by decide
example : (run demoCfg (demoOps.take 3)).entries 0 = some { active := 2, inactive := [1, 0] } := by decide
-- the displaced V1 connection was told with a `Health` frame, the promoted one with `Status`
example : ((run demoCfg (demoOps.take 3)).conns 1).map (·.msgQ) = some [.health .sameIdConnected] := by decide
example : ((run demoCfg demoOps).conns 0).map (·.msgQ) = some [.status .sameIdConnected] := by decide
-- (capacity 1: the `Healthy` notice for connection 0 found the queue full)
example : Event.enqFail 0 (.status .healthy) ∈ (run demoCfg demoOps).log := by decide

/-- Endpoint 1 sends to endpoint 0, then leaves: endpoint 0 is owed and gets a notice. -/
def demoGone : List (Op (List Nat)) :=
  [.register 0 false, .register 1 false, .recvFrame 1 (.datagrams 0 ⟨0, 0, [7]⟩), .unregister 1, .notifyGone]

example : gonePairs (run demoCfg demoGone).log = [(1, 0)] := by decide
example : ((run demoCfg demoGone).conns 0).map (·.msgQ) = some [.endpointGone 1] := by decide
example : (run demoCfg (demoGone.take 3)).sentTo 1 = [0] := by decide

end IrohModel.C06
