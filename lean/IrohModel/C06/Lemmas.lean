/-
C06 — helper lemmas: the invariants of `Common/RelayRegistryLemmas` instantiated at the
initial state.
-/
import IrohModel.C06.Model
import IrohModel.Common.RelayRegistryLemmas

namespace IrohModel.C06
open IrohModel.RelayRegistry

variable {α : Type}

theorem spec_sorted (ops : List (Op α)) (id : Id) : ((Spec.run ops).open_ id).Pairwise (· > ·) :=
  (SpecSorted.foldl ops SpecSorted.init).sorted id

theorem goneInv_run (cfg : Cfg α) (ops : List (Op α)) : GoneInv (run cfg ops) :=
  GoneInv.runFrom cfg ops GoneInv.init

theorem sentToInv_run (cfg : Cfg α) (ops : List (Op α)) : SentToInv (run cfg ops) :=
  SentToInv.runFrom cfg ops SentToInv.init

end IrohModel.C06
