/-
C14 — relay keep-alive `PingTracker` (iroh-relay/src/ping_tracker.rs).

Executable model of the tracker as a state machine.  Time is an *input* (whole
milliseconds since an arbitrary origin, `Nat`); the random ping payload
(`rand::random::<[u8; 8]>()` in the code) is an *input* of type `δ` (any type with
decidable equality; the code uses `[u8; 8]`).

Correspondence of definitions:
  `State`            ↔ `struct PingTracker { inner, max_timeout, last_rtt }`
  `Ping`             ↔ `struct PingInner { data, deadline, sent_at }`
  `init`             ↔ `PingTracker::new`
  `pingTimeout`      ↔ `PingTracker::ping_timeout`   (`none` = the `assert!(min <= max)` in `Ord::clamp` panics)
  `step … (.ping d none)`      ↔ `new_ping`
  `step … (.ping d (some t))`  ↔ `new_ping_with_timeout(t)`
  `step … (.pong d)`           ↔ `pong_received(d)`
  `step … .poll`               ↔ one poll of the future returned by `timeout()` at virtual time `now`
                                 (`fired` = it completed, `pending` = it did not; dropping a pending
                                 `timeout()` future leaves the tracker unchanged: cancel-safe)
`Instant::elapsed` saturates at zero, as does `Nat` subtraction.  `Instant + Duration`
and `Duration * 3` overflow (≈ 2^64 s) are outside the model (see props/C14.json assumptions).
-/
import IrohModel.Generated.C14

namespace IrohModel.C14
open IrohModel.Generated.C14

/-- The outstanding ping. -/
structure Ping (δ : Type) where
  data : δ
  deadline : Nat
  sentAt : Nat
deriving DecidableEq, Repr

structure State (δ : Type) where
  inner : Option (Ping δ)
  maxTimeout : Nat
  lastRtt : Option Nat
deriving DecidableEq, Repr

/-- `PingTracker::new(max_timeout)`. -/
def init {δ : Type} (maxTimeout : Nat) : State δ := ⟨none, maxTimeout, none⟩

/-- `Ord::clamp(self, min, max)`: `assert!(min <= max)`, then
`if self < min { min } else if self > max { max } else { self }`.  `none` = panic. -/
def clamp? (x lo hi : Nat) : Option Nat :=
  if lo ≤ hi then some (if x < lo then lo else if x > hi then hi else x) else none

/-- `ping_timeout()`; `none` = panic. -/
def pingTimeout {δ : Type} (s : State δ) : Option Nat :=
  match s.lastRtt with
  | none => some s.maxTimeout
  | some rtt => clamp? (rttFactor * rtt) minHealthCheckTimeoutMs s.maxTimeout

inductive Op (δ : Type) where
  /-- `new_ping()` (`timeout = none`) or `new_ping_with_timeout(t)`; `data` is the random payload drawn. -/
  | ping (data : δ) (timeout : Option Nat)
  /-- `pong_received(data)` -/
  | pong (data : δ)
  /-- poll `timeout()` once -/
  | poll
deriving DecidableEq, Repr

inductive Out where
  | ok | panic | fired | pending
deriving DecidableEq, Repr

/-- The timeout a `ping` operation uses; `none` = panic. -/
def effTimeout {δ : Type} (s : State δ) : Option Nat → Option Nat
  | some t => some t
  | none => pingTimeout s

/-- One operation at virtual time `now`. -/
def step {δ : Type} [DecidableEq δ] (s : State δ) (now : Nat) : Op δ → State δ × Out
  | .ping d to =>
    match effTimeout s to with
    | none => (s, .panic)     -- `ping_timeout()` panics before anything is written
    | some t => ({ s with inner := some ⟨d, now + t, now⟩ }, .ok)
  | .pong d =>
    match s.inner with
    | some p =>
      if p.data = d then ({ s with lastRtt := some (now - p.sentAt), inner := none }, .ok)
      else (s, .ok)
    | none => (s, .ok)
  | .poll =>
    match s.inner with
    | some p => if p.deadline ≤ now then ({ s with inner := none }, .fired) else (s, .pending)
    | none => (s, .pending)

/-- A timed event of a history. -/
abbrev Event (δ : Type) := Nat × Op δ

/-- State after a history (chronological list of timed events) starting in `s`. -/
def exec {δ : Type} [DecidableEq δ] (s : State δ) (h : List (Event δ)) : State δ :=
  h.foldl (fun s e => (step s e.1 e.2).1) s

/-- Outputs of a history, chronological. -/
def outs {δ : Type} [DecidableEq δ] : State δ → List (Event δ) → List Out
  | _, [] => []
  | s, e :: rest => (step s e.1 e.2).2 :: outs (step s e.1 e.2).1 rest

/-- `tokio::time::timeout(ms, tracker.timeout())` under an auto-advancing paused clock that
reads `now`: completes (`fired`) at the deadline iff the deadline is at most `now + ms`
(the inner future is polled first), otherwise the clock ends at `now + ms` (`pending`).
Returns the new state, the new clock and the outcome.  It is `step … .poll` at the instant
the runtime wakes the future. -/
def wait {δ : Type} [DecidableEq δ] (s : State δ) (now ms : Nat) : State δ × Nat × Out :=
  match s.inner with
  | some p =>
    if p.deadline ≤ now + ms then
      let t := max now p.deadline
      ((step s t .poll).1, t, (step s t .poll).2)
    else (s, now + ms, (step s (now + ms) .poll).2)
  | none => (s, now + ms, (step s (now + ms) .poll).2)

/-! ### The user of the tracker: `ActiveRelayActor` (iroh/src/socket/transports/relay/actor.rs)

`run_connected` creates `ConnectedRelayState { ping_tracker: PingTracker::default(), .. }` for
**each** connection; pings are sent on the interval tick and on `CheckConnection`
(`state.ping_tracker.new_ping()`), pongs read from the stream are fed to
`state.ping_tracker.pong_received`, and the select arm `state.ping_tracker.timeout()` ends the
connection with `RunError::PingTimeout`.  When `run_connected` returns for any reason the state
— tracker included — is dropped; `run` dials again and the next `run_connected` starts with a
fresh tracker. -/

/-- A relay connection of the actor: its number, its tracker, and (ghost, never read by
`astep`) the tracker operations performed on this connection so far. -/
structure Conn (δ : Type) where
  id : Nat
  tracker : State δ
  events : List (Event δ)

structure Actor (δ : Type) where
  /-- `none` while dialing / backing off -/
  conn : Option (Conn δ)
  /-- number the next connection gets -/
  next : Nat

def Actor.start {δ : Type} : Actor δ := ⟨none, 1⟩

inductive AOp (δ : Type) where
  /-- dialing succeeded: `run_connected` starts -/
  | connected
  /-- the connection ends for a reason other than the ping timeout (stream closed, read or
  write error, send timeout, local IP invalid) -/
  | lost
  /-- a tracker operation in `run_connected`: `ping` = interval tick or `CheckConnection`,
  `pong` = a pong read from the stream, `poll` = the `ping_tracker.timeout()` select arm -/
  | tr (op : Op δ)

inductive AOut where
  | conn (n : Nat)
  | lost (n : Nat)
  /-- `RunError::PingTimeout` on connection `n` -/
  | dead (n : Nat)
  | tr (o : Out)
  /-- the operation does not apply in the current state -/
  | idle
deriving DecidableEq, Repr

def astep {δ : Type} [DecidableEq δ] (a : Actor δ) (now : Nat) : AOp δ → Actor δ × AOut
  | .connected =>
    match a.conn with
    | none => (⟨some ⟨a.next, init pingTimeoutMs, []⟩, a.next + 1⟩, .conn a.next)
    | some _ => (a, .idle)
  | .lost =>
    match a.conn with
    | some c => (⟨none, a.next⟩, .lost c.id)
    | none => (a, .idle)
  | .tr op =>
    match a.conn with
    | none => (a, .idle)
    | some c =>
      if (step c.tracker now op).2 = Out.fired then (⟨none, a.next⟩, .dead c.id)
      else (⟨some ⟨c.id, (step c.tracker now op).1, c.events ++ [(now, op)]⟩, a.next⟩,
            .tr (step c.tracker now op).2)

/-- State after a history of timed actor events. -/
def arun {δ : Type} [DecidableEq δ] (a : Actor δ) (h : List (Nat × AOp δ)) : Actor δ :=
  h.foldl (fun a e => (astep a e.1 e.2).1) a

end IrohModel.C14
