/-
C14 — relay keep-alive `PingTracker` (iroh-relay/src/ping_tracker.rs).

Executable model of the tracker as a state machine.  Time is an *input* (whole
milliseconds since an arbitrary origin, `Nat`); the random ping payload
(`rand::random::<[u8; 8]>()` in the code) is an *input* of type `δ` (any type with
decidable equality; the code uses `[u8; 8]`).

Correspondence of definitions:
  `State`            ↔ `struct PingTracker { inner, max_timeout, last_rtt }`
  `Ping`             ↔ `struct PingInner { data, deadline, sent_at }`
  `init`             ↔ `PingTracker::new`
  `pingTimeout`      ↔ `PingTracker::ping_timeout`   (`none` = the `assert!(min <= max)` in `Ord::clamp` panics)
  `step … (.ping d none)`      ↔ `new_ping`
  `step … (.ping d (some t))`  ↔ `new_ping_with_timeout(t)`
  `step … (.pong d)`           ↔ `pong_received(d)`
  `step … .poll`               ↔ one poll of the future returned by `timeout()` at virtual time `now`
                                 (`fired` = it completed, `pending` = it did not; dropping a pending
                                 `timeout()` future leaves the tracker unchanged: cancel-safe)
`Instant::elapsed` saturates at zero, as does `Nat` subtraction.  `Instant + Duration`
and `Duration * 3` overflow (≈ 2^64 s) are outside the model (see props/C14.json assumptions).
-/
import IrohModel.Generated.C14

namespace IrohModel.C14
open IrohModel.Generated.C14

/-- The outstanding ping. -/
structure Ping (δ : Type) where
  data : δ
  deadline : Nat
  sentAt : Nat
deriving DecidableEq, Repr

structure State (δ : Type) where
  inner : Option (Ping δ)
  maxTimeout : Nat
  lastRtt : Option Nat
deriving DecidableEq, Repr

/-- `PingTracker::new(max_timeout)`. -/
def init {δ : Type} (maxTimeout : Nat) : State δ := ⟨none, maxTimeout, none⟩

/-- `Ord::clamp(self, min, max)`: `assert!(min <= max)`, then
`if self < min { min } else if self > max { max } else { self }`.  `none` = panic. -/
def clamp? (x lo hi : Nat) : Option Nat :=
  if lo ≤ hi then some (if x < lo then lo else if x > hi then hi else x) else none

/-- `ping_timeout()`; `none` = panic. -/
def pingTimeout {δ : Type} (s : State δ) : Option Nat :=
  match s.lastRtt with
  | none => some s.maxTimeout
  | some rtt => clamp? (rttFactor * rtt) minHealthCheckTimeoutMs s.maxTimeout

inductive Op (δ : Type) where
  /-- `new_ping()` (`timeout = none`) or `new_ping_with_timeout(t)`; `data` is the random payload drawn. -/
  | ping (data : δ) (timeout : Option Nat)
  /-- `pong_received(data)` -/
  | pong (data : δ)
  /-- poll `timeout()` once -/
  | poll
deriving DecidableEq, Repr

inductive Out where
  | ok | panic | fired | pending
deriving DecidableEq, Repr

/-- The timeout a `ping` operation uses; `none` = panic. -/
def effTimeout {δ : Type} (s : State δ) : Option Nat → Option Nat
  | some t => some t
  | none => pingTimeout s

/-- One operation at virtual time `now`. -/
def step {δ : Type} [DecidableEq δ] (s : State δ) (now : Nat) : Op δ → State δ × Out
  | .ping d to =>
    match effTimeout s to with
    | none => (s, .panic)     -- `ping_timeout()` panics before anything is written
    | some t => ({ s with inner := some ⟨d, now + t, now⟩ }, .ok)
  | .pong d =>
    match s.inner with
    | some p =>
      if p.data = d then ({ s with lastRtt := some (now - p.sentAt), inner := none }, .ok)
      else (s, .ok)
    | none => (s, .ok)
  | .poll =>
    match s.inner with
    | some p => if p.deadline ≤ now then ({ s with inner := none }, .fired) else (s, .pending)
    | none => (s, .pending)

/-- A timed event of a history. -/
abbrev Event (δ : Type) := Nat × Op δ

/-- State after a history (chronological list of timed events) starting in `s`. -/
def exec {δ : Type} [DecidableEq δ] (s : State δ) (h : List (Event δ)) : State δ :=
  h.foldl (fun s e => (step s e.1 e.2).1) s

/-- Outputs of a history, chronological. -/
def outs {δ : Type} [DecidableEq δ] : State δ → List (Event δ) → List Out
  | _, [] => []
  | s, e :: rest => (step s e.1 e.2).2 :: outs (step s e.1 e.2).1 rest

/-- `tokio::time::timeout(ms, tracker.timeout())` under an auto-advancing paused clock that
reads `now`: completes (`fired`) at the deadline iff the deadline is at most `now + ms`
(the inner future is polled first), otherwise the clock ends at `now + ms` (`pending`).
Returns the new state, the new clock and the outcome.  It is `step … .poll` at the instant
the runtime wakes the future. -/
def wait {δ : Type} [DecidableEq δ] (s : State δ) (now ms : Nat) : State δ × Nat × Out :=
  match s.inner with
  | some p =>
    if p.deadline ≤ now + ms then
      let t := max now p.deadline
      ((step s t .poll).1, t, (step s t .poll).2)
    else (s, now + ms, (step s (now + ms) .poll).2)
  | none => (s, now + ms, (step s (now + ms) .poll).2)

end IrohModel.C14
