/-
C14 — helper lemmas (list combinatorics, one-step facts).
-/
import IrohModel.C14.Model

namespace IrohModel.C14
open IrohModel.Generated.C14

theorem snoc_induction {α : Type} {P : List α → Prop} (nil : P [])
    (snoc : ∀ l a, P l → P (l ++ [a])) : ∀ l, P l := by
  intro l
  rw [← List.reverse_reverse l]
  induction l.reverse with
  | nil => simpa using nil
  | cons a t ih => rw [List.reverse_cons]; exact snoc _ _ ih

theorem snoc_cases {α : Type} (l : List α) : l = [] ∨ ∃ l' a, l = l' ++ [a] := by
  induction l using snoc_induction with
  | nil => exact Or.inl rfl
  | snoc l a _ => exact Or.inr ⟨l, a, rfl⟩

/-- Splitting `h ++ [e]` at an element. -/
theorem split_snoc {α : Type} {pre post h : List α} {x e : α}
    (hh : pre ++ x :: post = h ++ [e]) :
    (post = [] ∧ pre = h ∧ x = e) ∨ (∃ post', post = post' ++ [e] ∧ h = pre ++ x :: post') := by
  rcases snoc_cases post with rfl | ⟨post', b, rfl⟩
  · left
    have := List.append_inj' (s₁ := pre) (t₁ := [x]) (s₂ := h) (t₂ := [e]) (by simpa using hh) rfl
    simp_all
  · right
    have h2 : (pre ++ x :: post') ++ [b] = h ++ [e] := by simpa using hh
    have := List.append_inj' h2 rfl
    refine ⟨post', ?_, this.1.symm⟩
    simp_all

variable {δ : Type} [DecidableEq δ]

@[simp] theorem exec_nil (s : State δ) : exec s [] = s := rfl

theorem exec_snoc (s : State δ) (h : List (Event δ)) (e : Event δ) :
    exec s (h ++ [e]) = (step (exec s h) e.1 e.2).1 := by
  simp [exec, List.foldl_append]

theorem exec_cons (s : State δ) (e : Event δ) (h : List (Event δ)) :
    exec s (e :: h) = exec (step s e.1 e.2).1 h := rfl

theorem exec_append (s : State δ) (h₁ h₂ : List (Event δ)) :
    exec s (h₁ ++ h₂) = exec (exec s h₁) h₂ := by
  simp [exec, List.foldl_append]

theorem outs_append (s : State δ) (h₁ h₂ : List (Event δ)) :
    outs s (h₁ ++ h₂) = outs s h₁ ++ outs (exec s h₁) h₂ := by
  induction h₁ generalizing s with
  | nil => rfl
  | cons e t ih => simp [outs, exec_cons, ih]

theorem outs_snoc (s : State δ) (h : List (Event δ)) (e : Event δ) :
    outs s (h ++ [e]) = outs s h ++ [(step (exec s h) e.1 e.2).2] := by
  rw [outs_append]; rfl

/-- `max_timeout` is never written. -/
theorem step_maxTimeout (s : State δ) (now : Nat) (op : Op δ) :
    (step s now op).1.maxTimeout = s.maxTimeout := by
  cases op with
  | ping d to => simp only [step]; split <;> rfl
  | pong d => simp only [step]; split <;> (try split) <;> rfl
  | poll => simp only [step]; split <;> (try split) <;> rfl

theorem exec_maxTimeout (s : State δ) (h : List (Event δ)) :
    (exec s h).maxTimeout = s.maxTimeout := by
  induction h using snoc_induction with
  | nil => rfl
  | snoc l e ih => rw [exec_snoc, step_maxTimeout, ih]

omit [DecidableEq δ] in
theorem pingTimeout_isSome_of_valid (s : State δ) (hv : minHealthCheckTimeoutMs ≤ s.maxTimeout) :
    (pingTimeout s).isSome = true := by
  unfold pingTimeout clamp?
  cases s.lastRtt <;> simp [hv]

/-- A step panics only through `ping_timeout()`. -/
theorem step_panic_iff (s : State δ) (now : Nat) (op : Op δ) :
    (step s now op).2 = .panic ↔ ∃ d, op = .ping d none ∧ pingTimeout s = none := by
  cases op with
  | ping d to =>
    cases to with
    | none =>
      simp only [step, effTimeout]
      cases h : pingTimeout s <;> simp
    | some t => simp [step, effTimeout]
  | pong d =>
    simp only [step]
    constructor
    · intro h; split at h <;> (try split at h) <;> cases h
    · rintro ⟨_, h, _⟩; cases h
  | poll =>
    simp only [step]
    constructor
    · intro h; split at h <;> (try split at h) <;> cases h
    · rintro ⟨_, h, _⟩; cases h

end IrohModel.C14
