/-
C14 — property theorems (only).

Statement: a relay connection is declared dead only when the most recent ping has
gone unanswered past its deadline; a pong for any older ping or with wrong data
neither resets the deadline nor updates the measured round-trip time.  The deadline
after a measured round trip is three times that round trip, clamped to the
configured bounds.  Quantifier: all interleavings of new pings, pongs (matching,
stale, forged) and time advances.

Histories are arbitrary lists of timed events (`Nat × Op δ`, chronological); no
monotonicity of time stamps is needed by any theorem (the code's `elapsed()`
saturates, as `Nat` subtraction does).  The ping payload type `δ` is arbitrary.
-/
import IrohModel.C14.Lemmas

namespace IrohModel.C14
open IrohModel.Generated.C14

variable {δ : Type} [DecidableEq δ]

/-! ### Vocabulary of the statement (independent of `step`) -/

/-- Event `e` neither replaces, answers, nor reports expiry of ping `p`:
it is not a new ping, not a pong carrying `p`'s data, and not a poll of
`timeout()` at or after `p`'s deadline. -/
def Quiet (p : Ping δ) : Event δ → Prop
  | (_, .ping _ _) => False
  | (_, .pong d) => d ≠ p.data
  | (t, .poll) => t < p.deadline

/-- `Latest M h p`: in history `h` (run from `PingTracker::new(M)`), `p` is the **most
recent** ping (no ping after it), sent at `p.sentAt` with payload `p.data`, its deadline is
the send time plus the timeout in force when it was sent, and since then it has been
neither answered by a pong with its data nor already reported as timed out. -/
def Latest (M : Nat) (h : List (Event δ)) (p : Ping δ) : Prop :=
  ∃ pre post to T,
    h = pre ++ (p.sentAt, Op.ping p.data to) :: post ∧
    effTimeout (exec (init M) pre) to = some T ∧
    p.deadline = p.sentAt + T ∧
    ∀ e ∈ post, Quiet p e

/-- `Ord::clamp` when it is defined. -/
def clampT (M x : Nat) : Nat :=
  if x < minHealthCheckTimeoutMs then minHealthCheckTimeoutMs else if x > M then M else x

/-! ### Characterisation of the tracked ping -/

theorem latest_snoc (M : Nat) (h : List (Event δ)) (e : Event δ) (p : Ping δ) :
    Latest M (h ++ [e]) p ↔
      (Latest M h p ∧ Quiet p e) ∨
      (∃ to T, e = (p.sentAt, Op.ping p.data to) ∧ effTimeout (exec (init M) h) to = some T ∧
        p.deadline = p.sentAt + T) := by
  constructor
  · rintro ⟨pre, post, to, T, hh, hT, hd, hq⟩
    rcases split_snoc hh.symm with ⟨rfl, rfl, rfl⟩ | ⟨post', rfl, rfl⟩
    · exact Or.inr ⟨to, T, rfl, hT, hd⟩
    · refine Or.inl ⟨⟨pre, post', to, T, rfl, hT, hd, fun e' he' => hq e' (by simp [he'])⟩, hq e (by simp)⟩
  · rintro (⟨⟨pre, post, to, T, rfl, hT, hd, hq⟩, hqe⟩ | ⟨to, T, rfl, hT, hd⟩)
    · refine ⟨pre, post ++ [e], to, T, by simp, hT, hd, ?_⟩
      intro e' he'
      rcases List.mem_append.1 he' with h1 | h1
      · exact hq e' h1
      · simp at h1; subst h1; exact hqe
    · exact ⟨h, [], to, T, rfl, hT, hd, by simp⟩

/-- **The tracker's outstanding ping is exactly the latest unanswered, unexpired ping.** -/
theorem latest_iff (M : Nat) (h : List (Event δ)) (hnp : Out.panic ∉ outs (init M) h) (p : Ping δ) :
    (exec (init M) h).inner = some p ↔ Latest M h p := by
  induction h using snoc_induction generalizing p with
  | nil =>
    constructor
    · intro h; cases h
    · rintro ⟨pre, post, _, _, hh, _⟩; cases pre <;> cases hh
  | snoc h e ih =>
    rw [outs_snoc] at hnp
    have hnp1 : Out.panic ∉ outs (init M) h := fun hc => hnp (by simp [hc])
    have hnp2 : (step (exec (init M) h) e.1 e.2).2 ≠ Out.panic := fun hc => hnp (by simp [hc])
    have ih := ih hnp1
    rw [exec_snoc, latest_snoc]
    obtain ⟨t, op⟩ := e
    cases op with
    | ping d to =>
      simp only [step] at hnp2 ⊢
      cases hT : effTimeout (exec (init M) h) to with
      | none => simp [hT] at hnp2
      | some T =>
        simp only [Quiet, and_false, false_or]
        constructor
        · intro hp; cases hp; exact ⟨to, T, rfl, hT, rfl⟩
        · rintro ⟨to', T', he, hT', hd⟩
          cases p; cases he
          simp only [hT] at hT'; cases hT'
          simp_all
    | pong d =>
      have hr : ¬ ∃ to T, ((t, Op.pong d) : Event δ) = (p.sentAt, Op.ping p.data to) ∧
          effTimeout (exec (init M) h) to = some T ∧ p.deadline = p.sentAt + T := by
        rintro ⟨_, _, he, _⟩; cases he
      simp only [hr, or_false, Quiet, step]
      cases hin : (exec (init M) h).inner with
      | none => simp [← ih, hin]
      | some q =>
        by_cases hq : q.data = d
        · simp only [hq, if_true]
          constructor
          · intro h; cases h
          · rintro ⟨hl, hne⟩
            have := (ih p).2 hl; rw [hin] at this; cases this
            exact absurd hq.symm hne
        · simp only [hq, if_false, ← ih, hin]
          constructor
          · intro hp; cases hp; exact ⟨rfl, fun h => hq h.symm⟩
          · exact fun hp => hp.1
    | poll =>
      have hr : ¬ ∃ to T, ((t, Op.poll) : Event δ) = (p.sentAt, Op.ping p.data to) ∧
          effTimeout (exec (init M) h) to = some T ∧ p.deadline = p.sentAt + T := by
        rintro ⟨_, _, he, _⟩; cases he
      simp only [hr, or_false, Quiet, step]
      cases hin : (exec (init M) h).inner with
      | none => simp [← ih, hin]
      | some q =>
        by_cases hq : q.deadline ≤ t
        · simp only [hq, if_true]
          constructor
          · intro h; cases h
          · rintro ⟨hl, hlt⟩
            have := (ih p).2 hl; rw [hin] at this; cases this
            omega
        · simp only [hq, if_false, ← ih, hin]
          constructor
          · intro hp; cases hp; exact ⟨rfl, by omega⟩
          · exact fun hp => hp.1

/-! ### Clause 1 — dead only when the latest ping is unanswered past its deadline -/

/-- `timeout()` completes at time `t` **iff** the most recent ping is still unanswered and
`t` is at or past its deadline.  (The property states the "only if" half.) -/
theorem fired_iff_latest_expired (M : Nat) (h : List (Event δ))
    (hnp : Out.panic ∉ outs (init M) h) (t : Nat) :
    (step (exec (init M) h) t Op.poll).2 = Out.fired ↔ ∃ p, Latest M h p ∧ p.deadline ≤ t := by
  simp only [← latest_iff M h hnp, step]
  cases hin : (exec (init M) h).inner with
  | none => simp
  | some q => by_cases hq : q.deadline ≤ t <;> simp [hq]

/-- The statement's wording: declared dead ⇒ a most-recent ping exists, unanswered, past its deadline. -/
theorem dead_only_if_latest_expired (M : Nat) (h : List (Event δ))
    (hnp : Out.panic ∉ outs (init M) h) (t : Nat)
    (hf : (step (exec (init M) h) t Op.poll).2 = Out.fired) :
    ∃ p, Latest M h p ∧ p.deadline ≤ t :=
  (fired_iff_latest_expired M h hnp t).1 hf

/-- The observation operation of the harness (`tokio::time::timeout(ms, tracker.timeout())`
under the auto-advancing paused clock) fires iff the tracked deadline is within `now + ms`,
and then the clock reads `max now deadline`. -/
theorem wait_fired_iff (s : State δ) (now ms : Nat) :
    (wait s now ms).2.2 = Out.fired ↔ ∃ p, s.inner = some p ∧ p.deadline ≤ now + ms := by
  unfold wait
  cases hin : s.inner with
  | none => simp [step, hin]
  | some q =>
    by_cases hq : q.deadline ≤ now + ms
    · have : q.deadline ≤ max now q.deadline := Nat.le_max_right _ _
      simp [hq, step, hin, this]
    · simp [hq, step, hin]

/-! ### Clause 2 — stale / forged pongs are inert -/

/-- A pong whose data is not the outstanding ping's data changes nothing: neither the
deadline (`inner`) nor the measured RTT. -/
theorem stale_pong_inert (s : State δ) (now : Nat) (d : δ)
    (hd : ∀ p, s.inner = some p → p.data ≠ d) :
    step s now (Op.pong d) = (s, Out.ok) := by
  simp only [step]
  cases hin : s.inner with
  | none => rfl
  | some q => simp [hd q hin]

/-- History form: a pong that does not carry the data of the latest unanswered ping can be
erased from any history without changing any later output or the final state. -/
theorem stale_pong_erasable (M : Nat) (h post : List (Event δ)) (t : Nat) (d : δ)
    (hnp : Out.panic ∉ outs (init M) h)
    (hd : ∀ p, Latest M h p → p.data ≠ d) :
    exec (init M) (h ++ (t, Op.pong d) :: post) = exec (init M) (h ++ post) ∧
    outs (init M) (h ++ (t, Op.pong d) :: post) = outs (init M) h ++ Out.ok :: outs (exec (init M) h) post ∧
    outs (init M) (h ++ post) = outs (init M) h ++ outs (exec (init M) h) post := by
  have hs := stale_pong_inert (exec (init M) h) t d (fun p hp => hd p ((latest_iff M h hnp p).1 hp))
  refine ⟨?_, ?_, outs_append _ _ _⟩
  · rw [exec_append, exec_append, exec_cons, hs]
  · rw [outs_append]; simp only [outs, hs]

/-- The most recent ping of a history is unique. -/
theorem latest_is_last_ping (M : Nat) (a post : List (Event δ)) (t1 : Nat) (d' : δ) (to' : Option Nat)
    (hpost : ∀ e ∈ post, ∀ d to, e.2 ≠ Op.ping d to) (p : Ping δ)
    (hl : Latest M (a ++ (t1, Op.ping d' to') :: post) p) : p.data = d' ∧ p.sentAt = t1 := by
  obtain ⟨pre, post2, to, T, hh, -, -, hq⟩ := hl
  induction a generalizing pre with
  | nil =>
    cases pre with
    | nil => simp at hh; exact ⟨hh.1.2.1.symm, hh.1.1.symm⟩
    | cons y pre' =>
      simp at hh
      have : (p.sentAt, Op.ping p.data to) ∈ post := by rw [hh.2]; simp
      exact absurd rfl (hpost _ this p.data to)
  | cons x a ih =>
    cases pre with
    | nil =>
      simp at hh
      have : (t1, Op.ping d' to') ∈ post2 := by rw [← hh.2]; simp
      exact absurd (hq _ this) (by simp [Quiet])
    | cons y pre' =>
      simp at hh
      exact ih pre' hh.2

/-- A pong for any **older** ping (one that has been superseded by a later ping with different
data) is inert. -/
theorem old_ping_pong_inert (M : Nat) (a post : List (Event δ)) (t1 t : Nat) (d d' : δ) (to' : Option Nat)
    (hpost : ∀ e ∈ post, ∀ d to, e.2 ≠ Op.ping d to) (hne : d ≠ d')
    (hnp : Out.panic ∉ outs (init M) (a ++ (t1, Op.ping d' to') :: post)) :
    step (exec (init M) (a ++ (t1, Op.ping d' to') :: post)) t (Op.pong d) =
      (exec (init M) (a ++ (t1, Op.ping d' to') :: post), Out.ok) := by
  apply stale_pong_inert
  intro p hp
  have := latest_is_last_ping M a post t1 d' to' hpost p ((latest_iff M _ hnp p).1 hp)
  rw [this.1]; exact fun h => hne h.symm

/-- The measured RTT changes only through a pong carrying the outstanding ping's data, and
then it is the time since that ping was sent. -/
theorem rtt_only_from_matching_pong (s : State δ) (now : Nat) (op : Op δ)
    (hc : (step s now op).1.lastRtt ≠ s.lastRtt) :
    ∃ p, s.inner = some p ∧ op = Op.pong p.data ∧
      (step s now op).1 = { s with lastRtt := some (now - p.sentAt), inner := none } := by
  cases op with
  | ping d to => simp only [step] at hc; split at hc <;> exact absurd rfl hc
  | poll => simp only [step] at hc; split at hc <;> (try split at hc) <;> exact absurd rfl hc
  | pong d =>
    simp only [step] at hc ⊢
    cases hin : s.inner with
    | none => simp [hin] at hc
    | some q =>
      by_cases hq : q.data = d
      · exact ⟨q, rfl, by rw [hq], by simp [hq]⟩
      · simp [hin, hq] at hc

/-- History form of the above: only a pong for the latest unanswered, unexpired ping moves the RTT. -/
theorem rtt_changes_only_by_latest_pong (M : Nat) (h : List (Event δ)) (t : Nat) (op : Op δ)
    (hnp : Out.panic ∉ outs (init M) h)
    (hc : (exec (init M) (h ++ [(t, op)])).lastRtt ≠ (exec (init M) h).lastRtt) :
    ∃ p, Latest M h p ∧ op = Op.pong p.data ∧
      (exec (init M) (h ++ [(t, op)])).lastRtt = some (t - p.sentAt) := by
  rw [exec_snoc] at hc ⊢
  obtain ⟨p, hp, hop, hs⟩ := rtt_only_from_matching_pong _ t op hc
  exact ⟨p, (latest_iff M h hnp p).1 hp, hop, by rw [hs]⟩

/-! ### Clause 3 — deadline after a measured round trip -/

/-- A pong for the latest ping measures `rtt = now − sent_at` and clears the ping. -/
theorem matching_pong_measures_rtt (M : Nat) (h : List (Event δ)) (t : Nat) (p : Ping δ)
    (hnp : Out.panic ∉ outs (init M) h) (hl : Latest M h p) :
    exec (init M) (h ++ [(t, Op.pong p.data)]) =
      { inner := none, maxTimeout := M, lastRtt := some (t - p.sentAt) } := by
  have hin := (latest_iff M h hnp p).2 hl
  have hM : (exec (init M : State δ) h).maxTimeout = M := exec_maxTimeout _ h
  rw [exec_snoc]
  simp [step, hin, hM]

omit [DecidableEq δ] in
/-- `ping_timeout()` panics iff an RTT has been measured and the configured maximum is below
the 500 ms minimum (`Ord::clamp` asserts `min ≤ max`). -/
theorem clamp_defined_iff (s : State δ) :
    pingTimeout s = none ↔ s.lastRtt.isSome = true ∧ s.maxTimeout < minHealthCheckTimeoutMs := by
  unfold pingTimeout clamp?
  cases s.lastRtt with
  | none => simp
  | some r => simp <;> omega

omit [DecidableEq δ] in
/-- With a valid configuration the timeout is `max_timeout` before any RTT was measured and
`clamp(3·rtt, 500 ms, max_timeout)` afterwards. -/
theorem pingTimeout_eq (s : State δ) (hv : minHealthCheckTimeoutMs ≤ s.maxTimeout) :
    pingTimeout s = some (match s.lastRtt with
      | none => s.maxTimeout
      | some rtt => clampT s.maxTimeout (3 * rtt)) := by
  unfold pingTimeout clamp? clampT
  cases s.lastRtt <;> simp [hv, rttFactor]

/-- **Deadline after a measured round trip.**  If the last measured RTT is `r`, the next
`new_ping()` at time `t` becomes the latest ping with deadline `t + clamp(3·r, 500 ms, M)`;
by `fired_iff_latest_expired` the connection is then declared dead exactly from that instant
on (unless a matching pong or a newer ping intervenes). -/
theorem deadline_after_rtt (M : Nat) (hv : minHealthCheckTimeoutMs ≤ M) (h : List (Event δ)) (r t : Nat) (d : δ)
    (hr : (exec (init M) h).lastRtt = some r) :
    Latest M (h ++ [(t, Op.ping d none)]) ⟨d, t + clampT M (3 * r), t⟩ := by
  refine (latest_snoc M h _ _).2 (Or.inr ⟨none, clampT M (3 * r), rfl, ?_, rfl⟩)
  have hM : (exec (init M : State δ) h).maxTimeout = M := exec_maxTimeout _ h
  simp only [effTimeout]
  rw [pingTimeout_eq _ (by rw [hM]; exact hv), hr, hM]

/-- Before any RTT is measured the deadline is `t + max_timeout`. -/
theorem deadline_without_rtt (M : Nat) (h : List (Event δ)) (t : Nat) (d : δ)
    (hr : (exec (init M) h).lastRtt = none) :
    Latest M (h ++ [(t, Op.ping d none)]) ⟨d, t + M, t⟩ := by
  refine (latest_snoc M h _ _).2 (Or.inr ⟨none, M, rfl, ?_, rfl⟩)
  have hM : (exec (init M : State δ) h).maxTimeout = M := exec_maxTimeout _ h
  simp only [effTimeout, pingTimeout, hr, hM]

/-- The clamp bounds: 500 ms ≤ deadline − send time ≤ max_timeout. -/
theorem clampT_bounds (M x : Nat) (hv : minHealthCheckTimeoutMs ≤ M) :
    minHealthCheckTimeoutMs ≤ clampT M x ∧ clampT M x ≤ M ∧
    (minHealthCheckTimeoutMs ≤ x → x ≤ M → clampT M x = x) := by
  unfold clampT; split <;> (try split) <;> omega

/-! ### No panic for valid configurations; observation O1 -/

/-- With `max_timeout ≥ 500 ms` no operation of any history panics. -/
theorem no_panic (M : Nat) (hv : minHealthCheckTimeoutMs ≤ M) (h : List (Event δ)) :
    Out.panic ∉ outs (init M) h := by
  induction h using snoc_induction with
  | nil => simp [outs]
  | snoc h e ih =>
    rw [outs_snoc]
    intro hc
    rcases List.mem_append.1 hc with hc | hc
    · exact ih hc
    · simp at hc
      obtain ⟨d, _, hp⟩ := (step_panic_iff _ _ _).1 hc.symm
      have := pingTimeout_isSome_of_valid (exec (init M) h)
        (by rw [exec_maxTimeout]; exact hv)
      rw [hp] at this; cases this

/-- The default configuration (`PING_TIMEOUT` = 5 s) never panics. -/
theorem default_no_panic (h : List (Event δ)) : Out.panic ∉ outs (init pingTimeoutMs) h :=
  no_panic pingTimeoutMs (by decide) h

/-- Observation O1 (outside the property's quantifier, recorded only): with
`max_timeout < 500 ms`, `new_ping()` after the first measured RTT panics. -/
theorem observation_O1_small_max_panics :
    outs (init 499 : State Nat) [(0, Op.ping 7 none), (10, Op.pong 7), (20, Op.ping 8 none)] =
      [Out.ok, Out.ok, Out.panic] := by decide

/-! ### The actor: one tracker per connection -/

/-- **Each connection's tracker is the tracker of that connection's own history**: whatever
happened before (earlier connections, their pings, how they ended), the tracker of the current
connection is `PingTracker::default()` run on the operations performed on *this* connection. -/
theorem conn_tracker_is_its_own_history (h : List (Nat × AOp δ)) (c : Conn δ)
    (hc : (arun Actor.start h).conn = some c) :
    c.tracker = exec (init pingTimeoutMs) c.events := by
  induction h using snoc_induction generalizing c with
  | nil => simp [arun, Actor.start] at hc
  | snoc h e ih =>
    have hs : arun Actor.start (h ++ [e]) = (astep (arun Actor.start h) e.1 e.2).1 := by
      simp [arun, List.foldl_append]
    rw [hs] at hc
    obtain ⟨t, op⟩ := e
    generalize arun Actor.start h = a at *
    cases op with
    | connected =>
      simp only [astep] at hc
      cases ha : a.conn with
      | none => simp only [ha] at hc; cases hc; rfl
      | some c0 => simp only [ha] at hc; rw [← ha] at hc; exact ih c hc
    | lost =>
      simp only [astep] at hc
      cases ha : a.conn with
      | none => simp only [ha] at hc; cases hc
      | some c0 => simp only [ha] at hc; cases hc
    | tr o =>
      simp only [astep] at hc
      cases ha : a.conn with
      | none => simp only [ha] at hc; cases hc
      | some c0 =>
        simp only [ha] at hc
        by_cases hf : (step c0.tracker t o).2 = Out.fired
        · simp only [hf, if_true] at hc; cases hc
        · simp only [hf, if_false, Option.some.injEq] at hc
          cases hc
          simp only
          rw [exec_snoc, ← ih c0 ha]

/-- **A new connection starts without an outstanding ping** (and without a remembered RTT):
its tracker is a fresh `PingTracker::default()`. -/
theorem new_connection_starts_without_outstanding_ping (a : Actor δ) (now : Nat) (c : Conn δ)
    (hd : a.conn = none) (hc : (astep a now AOp.connected).1.conn = some c) :
    c.tracker.inner = none ∧ c.tracker.lastRtt = none ∧ c.tracker.maxTimeout = pingTimeoutMs ∧
      c.events = [] ∧ c.id = a.next := by
  simp only [astep, hd, Option.some.injEq] at hc
  cases hc
  exact ⟨rfl, rfl, rfl, rfl, rfl⟩

/-- **Connection `n` is declared dead only through a ping sent on connection `n`**: if the
timeout arm fires at `t`, the current connection is `n` and among the operations performed on
it there is a ping — its most recent one — still unanswered, whose deadline (send time plus the
timeout in force on *this* connection) has passed. -/
theorem dead_only_from_ping_on_this_connection (h : List (Nat × AOp δ)) (t n : Nat) (o : Op δ)
    (hdead : (astep (arun Actor.start h) t (AOp.tr o)).2 = AOut.dead n) :
    ∃ c p, (arun Actor.start h).conn = some c ∧ c.id = n ∧ o = Op.poll ∧
      Latest pingTimeoutMs c.events p ∧ p.deadline ≤ t := by
  simp only [astep] at hdead
  cases ha : (arun Actor.start h).conn with
  | none => simp [ha] at hdead
  | some c =>
    simp only [ha] at hdead
    by_cases hf : (step c.tracker t o).2 = Out.fired
    · simp only [hf, if_true, AOut.dead.injEq] at hdead
      have htr := conn_tracker_is_its_own_history h c ha
      have hpoll : o = Op.poll := by
        cases o with
        | poll => rfl
        | ping d to => simp only [step] at hf; split at hf <;> cases hf
        | pong d => simp only [step] at hf; split at hf <;> (try split at hf) <;> cases hf
      subst hpoll
      rw [htr] at hf
      obtain ⟨p, hl, hp⟩ := (fired_iff_latest_expired pingTimeoutMs c.events (default_no_panic _) t).1 hf
      exact ⟨c, p, rfl, hdead, rfl, hl, hp⟩
    · simp [hf] at hdead

/-! ### Non-vacuity -/

-- `Latest` is inhabited, and the hypotheses of the history theorems are satisfiable.
example : Latest (δ := Nat) 5000 [(0, Op.ping 7 none), (10, Op.pong 9), (20, Op.poll)] ⟨7, 5000, 0⟩ :=
  ⟨[], [(10, Op.pong 9), (20, Op.poll)], none, 5000, rfl, rfl, rfl, by simp [Quiet]⟩
example : (step (exec (init 5000 : State Nat) [(0, Op.ping 7 none), (10, Op.pong 9)]) 5000 Op.poll).2 = Out.fired := by
  decide
example : (step (exec (init 5000 : State Nat) [(0, Op.ping 7 none), (10, Op.pong 7)]) 5000 Op.poll).2 = Out.pending := by
  decide
-- rtt 400 ms → 1200 ms; rtt 10 ms → 500 ms; rtt 4 s → 5 s
example : clampT 5000 (3 * 400) = 1200 ∧ clampT 5000 (3 * 10) = 500 ∧ clampT 5000 (3 * 4000) = 5000 := by decide
example : (exec (init 5000 : State Nat) [(0, Op.ping 7 none), (400, Op.pong 7)]).lastRtt = some 400 := by decide
example : (exec (init 5000 : State Nat) [(0, Op.ping 7 none), (400, Op.pong 7)]).lastRtt ≠
    (exec (init 5000 : State Nat) [(0, Op.ping 7 none)]).lastRtt := by decide
example : Out.panic ∉ outs (init 5000 : State Nat) [(0, Op.ping 7 none), (10, Op.pong 7), (20, Op.ping 8 none)] := by
  decide

-- the seeded scenario at model level: ping outstanding on connection 1, connection lost,
-- re-dial slower than the old deadline: connection 2 is not declared dead
example : ((arun (Actor.start : Actor Nat)
      [(0, .connected), (0, .tr (.ping 1 none)), (0, .tr (.pong 1)), (100, .tr (.ping 2 none)),
       (200, .lost), (1000, .connected)]).conn.map fun c => (c.id, c.tracker.inner.isSome)) =
    some (2, false) := by decide
example : (astep (arun (Actor.start : Actor Nat)
      [(0, .connected), (0, .tr (.ping 1 none)), (0, .tr (.pong 1)), (100, .tr (.ping 2 none))]) 600
      (.tr .poll)).2 = .dead 1 := by decide

end IrohModel.C14
