/-
C28 — property theorems (only).  Statement of the property:

  The preferred relay of a report is one of the relays measured in that report (or none if
  none was measured), chosen by best latency over the last five minutes.  If the previous
  preferred relay is still measured, the choice changes only when the new relay's best
  latency is at most two thirds of the previous relay's lowest latency in the current report.

Quantifier: all histories of reports (relay sets, latencies, ages) with and without a previous
preferred relay.  Every theorem is about one call `add h now r` on an **arbitrary** history `h`
(any retained reports, any ages, any previous preferred relay or none), an arbitrary instant
`now` and an arbitrary report `r` that comes in without a preferred relay (as the caller builds
it).  The only hypothesis on `h` and `r` is the `BTreeMap` invariant of their latency tables,
which every table built by `update_relay` has (`C27.run_wf`) and which `add` preserves
(`add_histWF`, `reachable_histWF`).

Vocabulary (`Spec.lean`): `Measured r u`, `IsBest rs u b` (b = minimum of all latencies the
reports `rs` hold for `u`), `window h now` (retained reports at most `maxAgeMs` old),
`prevRelay h`.  Constants `maxAgeMs = 300000`, `stickNum / stickDen = 2 / 3` are regenerated
from the source on every run.
-/
import IrohModel.C28.Lemmas

namespace IrohModel.C28
open IrohModel.C27
open IrohModel.Generated.C28

/-- The constants the statement names. -/
theorem constants : maxAgeMs = 5 * 60 * 1000 ∧ stickNum = 2 ∧ stickDen = 3 := by decide

/-- **Measured or none.**  No preferred relay iff nothing was measured in the report; a
preferred relay is always one measured in the report. -/
theorem preferred_measured_or_none (h : Hist) (now : Nat) (r : Report)
    (hh : HistWF h) (hr : WF r.lat) (hp : r.preferred = none) :
    ((add h now r).2.preferred = none ↔ ∀ u, ¬ Measured r u) ∧
    (∀ c, (add h now r).2.preferred = some c → Measured r c) := by
  have hc := cand_spec h now r hh hr
  rw [add_pref h now r hp]
  by_cases hs : ((prevRelay h).isSome && (cand h now r).pref != prevRelay h && oldCur h r != 0 &&
      decide ((cand h now r).bestAny > threshold (oldCur h r))) = true
  · -- sticks to the previous relay, which is measured with a non-zero latency
    rw [if_pos hs]
    simp only [Bool.and_eq_true, bne_iff_ne, ne_eq, decide_eq_true_eq] at hs
    obtain ⟨p, hpr, hm⟩ := oldCur_ne_zero_measured h r hs.1.2
    rw [hpr]
    refine ⟨?_, ?_⟩
    · constructor
      · intro hnone; cases hnone
      · intro hall; exact absurd hm (hall p)
    · intro c hc'; cases hc'; exact hm
  · rw [if_neg hs]
    by_cases hi : r.lat.iter = []
    · rw [hc.1 hi]
      refine ⟨⟨fun _ => (iter_nil_iff r).mp hi, fun _ => rfl⟩, ?_⟩
      intro c hc'; cases hc'
    · obtain ⟨c, hpc, hm, _, _⟩ := hc.2 hi
      rw [hpc]
      refine ⟨⟨?_, ?_⟩, ?_⟩
      · intro hnone; cases hnone
      · intro hall; exact absurd hm (hall c)
      · intro c' hc'; cases hc'; exact hm

/-- **Chosen by best latency over the last five minutes.**  The preferred relay is either the
previous preferred relay (still measured: the stickiness rule) or a measured relay whose best
latency over the window — the retained reports at most five minutes old plus the current one
— is at most that of every measured relay. -/
theorem best_over_5min (h : Hist) (now : Nat) (r : Report)
    (hh : HistWF h) (hr : WF r.lat) (hp : r.preferred = none) (c : Url)
    (hres : (add h now r).2.preferred = some c) :
    (prevRelay h = some c ∧ Measured r c) ∨
    (∃ bc, IsBest (window h now ++ [r]) c bc ∧
      ∀ v bv, Measured r v → IsBest (window h now ++ [r]) v bv → bc ≤ bv) := by
  have hc := cand_spec h now r hh hr
  rw [add_pref h now r hp] at hres
  by_cases hs : ((prevRelay h).isSome && (cand h now r).pref != prevRelay h && oldCur h r != 0 &&
      decide ((cand h now r).bestAny > threshold (oldCur h r))) = true
  · rw [if_pos hs] at hres
    simp only [Bool.and_eq_true, bne_iff_ne, ne_eq, decide_eq_true_eq] at hs
    obtain ⟨p, hpr, hm⟩ := oldCur_ne_zero_measured h r hs.1.2
    rw [hpr] at hres
    cases hres
    exact Or.inl ⟨hpr, hm⟩
  · rw [if_neg hs] at hres
    by_cases hi : r.lat.iter = []
    · rw [hc.1 hi] at hres; cases hres
    · obtain ⟨c', hpc, _, hbest, hall⟩ := hc.2 hi
      rw [hpc] at hres
      cases hres
      exact Or.inr ⟨_, hbest, hall⟩

/-- **Sticky.**  If the previous preferred relay `p` is still measured (lowest latency `old`
in the current report) and the choice changes to `c ≠ p`, then the best latency of `c` over
the window is at most two thirds of `old`. -/
theorem sticky (h : Hist) (now : Nat) (r : Report)
    (hh : HistWF h) (hr : WF r.lat) (hp : r.preferred = none) (p old c : Nat)
    (hprev : prevRelay h = some p) (hold : IsBest [r] p old)
    (hres : (add h now r).2.preferred = some c) (hne : c ≠ p) :
    ∃ bc, IsBest (window h now ++ [r]) c bc ∧ stickDen * bc ≤ stickNum * old := by
  have hc := cand_spec h now r hh hr
  have hold' := oldCur_spec h r p old hprev hold
  rw [add_pref h now r hp] at hres
  by_cases hs : ((prevRelay h).isSome && (cand h now r).pref != prevRelay h && oldCur h r != 0 &&
      decide ((cand h now r).bestAny > threshold (oldCur h r))) = true
  · rw [if_pos hs, hprev] at hres
    cases hres
    exact absurd rfl hne
  · rw [if_neg hs] at hres
    by_cases hi : r.lat.iter = []
    · rw [hc.1 hi] at hres; cases hres
    · obtain ⟨c', hpc, _, hbest, hall⟩ := hc.2 hi
      rw [hpc] at hres
      cases hres
      refine ⟨_, hbest, ?_⟩
      -- `p` is measured, so it took part in the selection
      have hmp : Measured r p := by
        have : latsIn r p ≠ [] := by
          intro hnil
          have := hold.1
          simp [allLats, hnil] at this
        exact this
      -- the stickiness condition was false although prev is some and differs from the choice
      simp only [hprev, hpc, hold', Option.isSome_some, Bool.true_and, Bool.and_eq_true,
        bne_iff_ne, ne_eq, Option.some.injEq, decide_eq_true_eq, not_and, Nat.not_lt] at hs
      by_cases hz : old = 0
      · -- a zero latency of the previous relay: the choice is at least as good as `p`, i.e. 0
        subst hz
        have hbp : ∃ bp, IsBest (window h now ++ [r]) p bp ∧ bp ≤ 0 := by
          have hmem : (0 : Nat) ∈ allLats (window h now ++ [r]) p := by
            rw [allLats_append]
            exact List.mem_append_right _ hold.1
          cases hm : minList (allLats (window h now ++ [r]) p) with
          | none => rw [minList_eq_none.mp hm] at hmem; simp at hmem
          | some bp =>
            have := minList_eq_some.mp hm
            exact ⟨bp, this, this.2 0 hmem⟩
        obtain ⟨bp, hbp, hle⟩ := hbp
        have := hall p bp hmp hbp
        simp only [stickDen, stickNum]
        omega
      · have h1 := hs ⟨hne, hz⟩
        have h2 := threshold_le old
        simp only [stickDen, stickNum] at h2 ⊢
        omega

/-- Converse direction of the stickiness rule (what the code does, beyond the statement): if
the previous relay is measured with a non-zero lowest latency `old` and no measured relay has a
best latency of at most `old / 3 * 2`, the previous relay stays preferred. -/
theorem sticky_stays (h : Hist) (now : Nat) (r : Report)
    (hh : HistWF h) (hr : WF r.lat) (hp : r.preferred = none) (p old : Nat)
    (hprev : prevRelay h = some p) (hold : IsBest [r] p old) (hz : old ≠ 0)
    (hall : ∀ v bv, Measured r v → IsBest (window h now ++ [r]) v bv → bv > threshold old) :
    (add h now r).2.preferred = some p := by
  have hc := cand_spec h now r hh hr
  have hold' := oldCur_spec h r p old hprev hold
  have hmp : Measured r p := by
    intro hnil
    have := hold.1
    simp [allLats, hnil] at this
  have hi : r.lat.iter ≠ [] := fun hnil => (iter_nil_iff r).mp hnil p hmp
  obtain ⟨c, hpc, hmc, hbest, _⟩ := hc.2 hi
  rw [add_pref h now r hp]
  by_cases hcp : c = p
  · subst hcp
    simp [hprev, hpc]
  · have hgt := hall c _ hmc hbest
    have : ((prevRelay h).isSome && (cand h now r).pref != prevRelay h && oldCur h r != 0 &&
        decide ((cand h now r).bestAny > threshold (oldCur h r))) = true := by
      simp [hprev, hpc, hold', hcp, hz, hgt]
    rw [if_pos this, hprev]

/-- **The history is the five-minute window.**  After the call the retained reports are exactly
those that were at most five minutes old, plus the new report at instant `now` (a report stored
at the very same instant is replaced), and the new report is the last one. -/
theorem history_window (h : Hist) (now : Nat) (r : Report) :
    (add h now r).1.prev =
      insertAt (h.prev.filter (fun e => decide (now - e.1 ≤ maxAgeMs))) now (add h now r).2 ∧
    (add h now r).1.last = some (add h now r).2 ∧
    (add h now r).2.lat = r.lat := by
  rw [add_hist]
  refine ⟨?_, rfl, rfl⟩
  have : kept h now = h.prev.filter (fun e => decide (now - e.1 ≤ maxAgeMs)) := by
    unfold kept tooOld
    apply List.filter_congr
    intro e _
    by_cases hc : now - e.1 ≤ maxAgeMs
    · have : ¬ now - e.1 > maxAgeMs := by omega
      simp [hc, this]
    · have : now - e.1 > maxAgeMs := by omega
      simp [hc, this]
  rw [this]

/-- `add` preserves the invariant the theorems assume … -/
theorem add_histWF (h : Hist) (now : Nat) (r : Report) (hh : HistWF h) (hr : WF r.lat) :
    HistWF (add h now r).1 := by
  intro e he
  rw [add_hist] at he
  rcases mem_insertAt he with rfl | he
  · exact hr
  · exact kept_wf hh now e he

/-- Histories reachable from a fresh client by adding reports built with `update_relay`. -/
inductive Reachable : Hist → Prop where
  | fresh : Reachable {}
  | add (h : Hist) (now : Nat) (us : List (Probe × Url × Nat)) :
      Reachable h → Reachable (add h now { lat := Latencies.build us }).1

theorem build_wf (us : List (Probe × Url × Nat)) : WF (Latencies.build us) := by
  unfold Latencies.build
  have : ∀ (l : Latencies), WF l →
      WF (us.foldl (fun l e => l.updateRelay e.2.1 e.2.2 e.1) l) := by
    induction us with
    | nil => intro l hl; exact hl
    | cons e us ih => intro l hl; exact ih _ (wf_updateRelay hl _ _ _)
  exact this {} empty_wf

/-- … so it holds for **every** history of reports. -/
theorem reachable_histWF (h : Hist) (hr : Reachable h) : HistWF h := by
  induction hr with
  | fresh => intro e he; simp at he
  | add h now us _ ih => exact add_histWF h now _ ih (build_wf us)

/-! ### Non-vacuity -/

/-- The D11 history: the previous relay 3 is measured by https (30 ms) and QAD-v6 (90 ms), relay
17 offers 25 ms > 2/3 · 30 ms: the repaired code stays on 3 (the unrepaired code switched). -/
example :
    (runHist [(0, { lat := Latencies.build [(.https, 3, 30000000), (.v6, 3, 90000000)] }),
              (1000, { lat := Latencies.build [(.https, 3, 30000000), (.v6, 3, 90000000),
                                               (.https, 17, 25000000)] })]).2
      = [(some 3, 1), (some 3, 2)] := by decide

/-- … and with 20 ms = 2/3 · 30 ms it switches: the hypotheses of `sticky` are satisfiable. -/
example :
    (runHist [(0, { lat := Latencies.build [(.https, 3, 30000000), (.v6, 3, 90000000)] }),
              (1000, { lat := Latencies.build [(.https, 3, 30000000), (.v6, 3, 90000000),
                                               (.https, 17, 20000000)] })]).2
      = [(some 3, 1), (some 17, 2)] := by decide

/-- A report older than five minutes no longer counts; one exactly five minutes old does. -/
example :
    (runHist [(0, { lat := Latencies.build [(.https, 3, 10)] }),
              (300000, { lat := Latencies.build [(.https, 3, 50), (.https, 17, 20)] })]).2
      = [(some 3, 1), (some 3, 2)] ∧
    (runHist [(0, { lat := Latencies.build [(.https, 3, 10)] }),
              (300001, { lat := Latencies.build [(.https, 3, 50), (.https, 17, 20)] })]).2
      = [(some 3, 1), (some 17, 1)] := by decide

example : HistWF {} ∧ prevRelay {} = none := ⟨fun _ h => by simp at h, rfl⟩

end IrohModel.C28
