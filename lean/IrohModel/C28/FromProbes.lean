/-
C28 ∘ C27 — from raw probe reports to the preferred relay.

A net-report run folds its probe reports, in arrival order, into a `Report`
(`C27.Report.run`, the model of `Report::update`); the report is then handed to
`add_report_history_and_set_preferred_relay` (`C28.add`).  This file composes the two verified
cores and states the C28 property on what actually comes in: the **raw probe latencies**.

Vocabulary.  A run is `(instant, probe reports)`.  `RawHist` is the ghost record of the retained
runs, maintained by `rawAdd` exactly as the statement describes the history ("the runs of the
last five minutes; a run at the very same instant replaces the earlier one").  `Reach h raw`
relates every model history `h` reachable by any sequence of runs (any instants, any probe
lists, any order of the probes) to that record.  `rawLats W u` are all latencies any probe of
the runs `W` reported for relay `u` (all probe kinds, wrong-family addresses included, as in
`C27.latsAny`), `IsBestRaw W u b` says `b` is their minimum.
-/
import IrohModel.C28.Theorems

namespace IrohModel.C28
open IrohModel.C27
open IrohModel.Generated.C28

/-- One net-report run: instant (ms) and the probe reports in arrival order. -/
abbrev Run := Nat × List ProbeReport

/-- The retained runs, sorted by instant. -/
abbrev RawHist := List Run

/-- A run stored at an instant that is already present replaces the earlier run. -/
def insertRaw : RawHist → Nat → List ProbeReport → RawHist
  | [], t, ps => [(t, ps)]
  | (k, v) :: rest, t, ps =>
    if t < k then (t, ps) :: (k, v) :: rest
    else if t = k then (k, ps) :: rest
    else (k, v) :: insertRaw rest t ps

/-- Keep the runs at most five minutes old, add the new one. -/
def rawAdd (raw : RawHist) (now : Nat) (ps : List ProbeReport) : RawHist :=
  insertRaw (raw.filter (fun e => decide (now - e.1 ≤ maxAgeMs))) now ps

/-- The probe lists of the retained runs at most five minutes old at `now`. -/
def rawWindow (raw : RawHist) (now : Nat) : List (List ProbeReport) :=
  (raw.filter (fun e => decide (now - e.1 ≤ maxAgeMs))).map (·.2)

/-- Every latency any probe of the runs `W` reported for relay `u`. -/
def rawLats (W : List (List ProbeReport)) (u : Url) : List Nat := W.flatMap (latsAny u)

/-- `b` is the lowest latency any probe of the runs `W` reported for relay `u`. -/
def IsBestRaw (W : List (List ProbeReport)) (u : Url) (b : Nat) : Prop :=
  b ∈ rawLats W u ∧ ∀ x ∈ rawLats W u, b ≤ x

/-- Histories reachable by any sequence of runs, with the record of the retained runs. -/
inductive Reach : Hist → RawHist → Prop where
  | fresh : Reach {} []
  | step (h : Hist) (raw : RawHist) (now : Nat) (ps : List ProbeReport) :
      Reach h raw → Reach (add h now (Report.run ps)).1 (rawAdd raw now ps)

/-- The model history and the record of runs list the same instants, and every stored report
has the latencies of its run. -/
def Rep : List (Nat × Report) → RawHist → Prop
  | [], [] => True
  | (t, r) :: hs, (t', ps) :: rs => t = t' ∧ r.lat = (Report.run ps).lat ∧ Rep hs rs
  | _, _ => False

/-- The fields of a report that `add` reads (now or in any later call). -/
def coreOf (r : Report) : Latencies × Option Url := (r.lat, r.preferred)

/-- Two histories that no later call of `add` can tell apart: same instants, and the same
latencies and preferred relay in every stored report and in the last one. -/
def HistEq (h h' : Hist) : Prop :=
  h.prev.map (fun e => (e.1, coreOf e.2)) = h'.prev.map (fun e => (e.1, coreOf e.2)) ∧
  h.last.map coreOf = h'.last.map coreOf

/-- Two sequences of runs with the same instants whose probe lists are permutations of each
other, run by run. -/
def RunsPerm : List Run → List Run → Prop
  | [], [] => True
  | (t, ps) :: rs, (t', ps') :: rs' => t = t' ∧ ps.Perm ps' ∧ RunsPerm rs rs'
  | _, _ => False

/-- A sequence of runs fed to a fresh client: per run the preferred relay and the history length. -/
def runProbes (rs : List Run) : Hist × List (Option Url × Nat) :=
  runHist (rs.map fun e => (e.1, Report.run e.2))

/-! ### Lemmas: the report of a run -/

theorem update_preferred (r : Report) (p : ProbeReport) : (r.update p).preferred = r.preferred := by
  cases p with
  | https u l => rfl
  | qad4 u l a => cases a <;> rfl
  | qad6 u l a => cases a <;> rfl

theorem foldl_preferred (ps : List ProbeReport) (r : Report) :
    (ps.foldl Report.update r).preferred = r.preferred := by
  induction ps generalizing r with
  | nil => rfl
  | cons p ps ih => simp only [List.foldl_cons]; rw [ih, update_preferred]

/-- A run never sets the preferred relay: the report reaches `add` with `None`. -/
theorem run_preferred (ps : List ProbeReport) : (Report.run ps).preferred = none :=
  foldl_preferred ps {}

/-- `RelayLatencies::get` of the report of a run is the minimum over the raw probe latencies. -/
theorem run_get (ps : List ProbeReport) (u : Url) :
    (Report.run ps).lat.get u = minList (latsAny u ps) := by
  have h := get_is_min ps u
  cases hg : (Report.run ps).lat.get u with
  | none => rw [h.1.mp hg]; rfl
  | some m => exact (minList_eq_some.mpr ((h.2 m).mp hg)).symm

theorem latsIn_min_of_lat {r : Report} {ps : List ProbeReport} (hl : r.lat = (Report.run ps).lat)
    (u : Url) : minList (latsIn r u) = minList (latsAny u ps) := by
  rw [← get_eq_minList, hl, run_get]

theorem measured_iff_raw {r : Report} {ps : List ProbeReport} (hl : r.lat = (Report.run ps).lat)
    (u : Url) : Measured r u ↔ latsAny u ps ≠ [] := by
  unfold Measured
  have h := latsIn_min_of_lat hl u
  constructor
  · intro hm hnil
    rw [hnil] at h
    exact hm (minList_eq_none.mp h)
  · intro hm hnil
    rw [hnil] at h
    exact hm (minList_eq_none.mp h.symm)

/-! ### Lemmas: the history and the record of runs -/

theorem rep_filter (p : Nat → Bool) {hs : List (Nat × Report)} {rs : RawHist} (h : Rep hs rs) :
    Rep (hs.filter (fun e => p e.1)) (rs.filter (fun e => p e.1)) := by
  induction hs generalizing rs with
  | nil =>
    cases rs with
    | nil => exact trivial
    | cons e rs => exact absurd h (by simp [Rep])
  | cons e hs ih =>
    obtain ⟨t, r⟩ := e
    cases rs with
    | nil => exact absurd h (by simp [Rep])
    | cons e' rs =>
      obtain ⟨t', ps⟩ := e'
      obtain ⟨rfl, hl, hrest⟩ := h
      by_cases hp : p t = true
      · simp only [List.filter_cons, hp, if_true]
        exact ⟨rfl, hl, ih hrest⟩
      · simp only [List.filter_cons, hp, if_false, Bool.false_eq_true]
        exact ih hrest

theorem rep_insert {hs : List (Nat × Report)} {rs : RawHist} (h : Rep hs rs) (t : Nat)
    {r : Report} {ps : List ProbeReport} (hl : r.lat = (Report.run ps).lat) :
    Rep (insertAt hs t r) (insertRaw rs t ps) := by
  induction hs generalizing rs with
  | nil =>
    cases rs with
    | nil => exact ⟨rfl, hl, trivial⟩
    | cons e rs => exact absurd h (by simp [Rep])
  | cons e hs ih =>
    obtain ⟨k, v⟩ := e
    cases rs with
    | nil => exact absurd h (by simp [Rep])
    | cons e' rs =>
      obtain ⟨k', v'⟩ := e'
      obtain ⟨rfl, hl', hrest⟩ := h
      by_cases h1 : t < k
      · simp only [insertAt, insertRaw, h1, if_true]
        exact ⟨rfl, hl, rfl, hl', hrest⟩
      · by_cases h2 : t = k
        · subst h2
          simp only [insertAt, insertRaw, Nat.lt_irrefl, if_true, if_false]
          exact ⟨rfl, hl, hrest⟩
        · simp only [insertAt, insertRaw, h1, h2, if_false]
          exact ⟨rfl, hl', ih hrest⟩

/-- Along every sequence of runs the tables are well-formed and the history represents the
record of retained runs. -/
theorem reach_inv {h : Hist} {raw : RawHist} (hr : Reach h raw) : HistWF h ∧ Rep h.prev raw := by
  induction hr with
  | fresh => exact ⟨fun _ he => by simp at he, trivial⟩
  | step h raw now ps _ ih =>
    refine ⟨add_histWF h now _ ih.1 (run_wf ps), ?_⟩
    have hw := history_window h now (Report.run ps)
    rw [hw.1]
    unfold rawAdd
    exact rep_insert (rep_filter (fun t => decide (now - t ≤ maxAgeMs)) ih.2) now hw.2.2

theorem rawLats_cons (ps : List ProbeReport) (W : List (List ProbeReport)) (u : Url) :
    rawLats (ps :: W) u = latsAny u ps ++ rawLats W u := by
  simp [rawLats]

theorem rawLats_append (W W' : List (List ProbeReport)) (u : Url) :
    rawLats (W ++ W') u = rawLats W u ++ rawLats W' u := by
  simp [rawLats]

theorem rep_lats {hs : List (Nat × Report)} {rs : RawHist} (h : Rep hs rs) (u : Url) :
    minList (allLats (hs.map (·.2)) u) = minList (rawLats (rs.map (·.2)) u) := by
  induction hs generalizing rs with
  | nil =>
    cases rs with
    | nil => rfl
    | cons e rs => exact absurd h (by simp [Rep])
  | cons e hs ih =>
    obtain ⟨t, r⟩ := e
    cases rs with
    | nil => exact absurd h (by simp [Rep])
    | cons e' rs =>
      obtain ⟨t', ps⟩ := e'
      obtain ⟨_, hl, hrest⟩ := h
      simp only [List.map_cons]
      rw [allLats_cons, rawLats_cons, minList_append, minList_append, latsIn_min_of_lat hl,
        ih hrest]

/-- The best latency over the window of reports is the best latency over the raw probes of
the window of runs. -/
theorem isBest_iff_raw {h : Hist} {raw : RawHist} (hr : Reach h raw) (now : Nat)
    (ps : List ProbeReport) (u : Url) (b : Nat) :
    IsBest (window h now ++ [Report.run ps]) u b ↔ IsBestRaw (rawWindow raw now ++ [ps]) u b := by
  have hrep := rep_filter (fun t => decide (now - t ≤ maxAgeMs)) (reach_inv hr).2
  have h1 := rep_lats hrep u
  rw [isBest_iff_minList]
  unfold IsBestRaw
  rw [← minList_eq_some]
  unfold window rawWindow
  rw [allLats_append, rawLats_append, minList_append, minList_append, h1]
  have : minList (allLats [Report.run ps] u) = minList (rawLats [ps] u) := by
    simp only [allLats, rawLats, List.flatMap_cons, List.flatMap_nil, List.append_nil]
    exact latsIn_min_of_lat rfl u
  rw [this]

theorem isBest_single_iff_raw (ps : List ProbeReport) (u : Url) (b : Nat) :
    IsBest [Report.run ps] u b ↔ (b ∈ latsAny u ps ∧ ∀ x ∈ latsAny u ps, b ≤ x) := by
  rw [isBest_iff_minList, ← minList_eq_some]
  simp only [allLats, List.flatMap_cons, List.flatMap_nil, List.append_nil]
  rw [latsIn_min_of_lat rfl u]

/-! ### (1) The preferred relay, from raw probes -/

/-- **preferred_from_probes.**  After any sequence of runs, for a further run with probe reports
`ps` (any list, any order) at instant `now`: the preferred relay is none iff no probe of the run
measured any relay; otherwise it is a relay some probe of the run measured, and it is either the
previous preferred relay (stickiness) or a relay whose lowest raw probe latency over the runs of
the last five minutes and the current run is at most that of every relay measured in the run. -/
theorem preferred_from_probes (h : Hist) (raw : RawHist) (hr : Reach h raw) (now : Nat)
    (ps : List ProbeReport) :
    ((add h now (Report.run ps)).2.preferred = none ↔ ∀ u, latsAny u ps = []) ∧
    (∀ c, (add h now (Report.run ps)).2.preferred = some c →
      latsAny c ps ≠ [] ∧
      (prevRelay h = some c ∨
        ∃ bc, IsBestRaw (rawWindow raw now ++ [ps]) c bc ∧
          ∀ v bv, latsAny v ps ≠ [] → IsBestRaw (rawWindow raw now ++ [ps]) v bv → bc ≤ bv)) := by
  have hwf := (reach_inv hr).1
  have hm := preferred_measured_or_none h now (Report.run ps) hwf (run_wf ps) (run_preferred ps)
  refine ⟨?_, ?_⟩
  · rw [hm.1]
    constructor
    · intro hall u
      apply Classical.byContradiction
      intro hne
      exact hall u ((measured_iff_raw rfl u).mpr hne)
    · intro hall u hmu
      exact (measured_iff_raw rfl u).mp hmu (hall u)
  · intro c hc
    refine ⟨(measured_iff_raw rfl c).mp (hm.2 c hc), ?_⟩
    rcases best_over_5min h now (Report.run ps) hwf (run_wf ps) (run_preferred ps) c hc with
      ⟨hp, _⟩ | ⟨bc, hbest, hall⟩
    · exact Or.inl hp
    · refine Or.inr ⟨bc, (isBest_iff_raw hr now ps c bc).mp hbest, ?_⟩
      intro v bv hv hbv
      exact hall v bv ((measured_iff_raw rfl v).mpr hv) ((isBest_iff_raw hr now ps v bv).mpr hbv)

/-! ### (3) Stickiness, from raw probes -/

/-- **sticky_from_probes.**  If the previous preferred relay `p` is measured by some probe of the
run, `old` being the lowest latency any probe of the run reported for it, and the preferred
relay changes to `c ≠ p`, then the lowest raw probe latency of `c` over the window is at most
two thirds of `old`. -/
theorem sticky_from_probes (h : Hist) (raw : RawHist) (hr : Reach h raw) (now : Nat)
    (ps : List ProbeReport) (p old c : Nat) (hprev : prevRelay h = some p)
    (hold : old ∈ latsAny p ps ∧ ∀ x ∈ latsAny p ps, old ≤ x)
    (hres : (add h now (Report.run ps)).2.preferred = some c) (hne : c ≠ p) :
    ∃ bc, IsBestRaw (rawWindow raw now ++ [ps]) c bc ∧ stickDen * bc ≤ stickNum * old := by
  have hwf := (reach_inv hr).1
  obtain ⟨bc, hbest, hle⟩ := sticky h now (Report.run ps) hwf (run_wf ps) (run_preferred ps) p old c
    hprev ((isBest_single_iff_raw ps p old).mpr hold) hres hne
  exact ⟨bc, (isBest_iff_raw hr now ps c bc).mp hbest, hle⟩

/-! ### (2) The order of the probe reports inside a run is irrelevant -/

theorem latsOf_perm {ps ps' : List ProbeReport} (hp : ps.Perm ps') (k : Probe) (u : Url) :
    (latsOf k u ps).Perm (latsOf k u ps') := hp.filterMap _

/-- The latency tables of a report do not depend on the order of the probe reports. -/
theorem lat_perm {ps ps' : List ProbeReport} (hp : ps.Perm ps') :
    (Report.run ps).lat = (Report.run ps').lat := by
  have hw := run_wf ps
  have hw' := run_wf ps'
  have key : ∀ k u, ((Report.run ps).lat.table k).get u = ((Report.run ps').lat.table k).get u := by
    intro k u
    have h1 := latency_is_min ps k u
    have h2 := latency_is_min ps' k u
    have hperm := latsOf_perm hp k u
    cases hg : ((Report.run ps).lat.table k).get u with
    | none =>
      have hnil := h1.1.mp hg
      rw [hnil] at hperm
      exact (h2.1.mpr hperm.symm.eq_nil).symm
    | some m =>
      obtain ⟨hm, hall⟩ := (h1.2 m).mp hg
      exact ((h2.2 m).mpr ⟨hperm.mem_iff.mp hm, fun x hx => hall x (hperm.mem_iff.mpr hx)⟩).symm
  have e1 := sorted_ext hw.1 hw'.1 (key .https)
  have e2 := sorted_ext hw.2.1 hw'.2.1 (key .v4)
  have e3 := sorted_ext hw.2.2 hw'.2.2 (key .v6)
  cases hx : (Report.run ps).lat
  cases hy : (Report.run ps').lat
  simp only [hx, hy] at e1 e2 e3
  simp [e1, e2, e3]

theorem obs4_perm {ps ps' : List ProbeReport} (hp : ps.Perm ps') : (obs4 ps).Perm (obs4 ps') :=
  hp.filterMap _

theorem obs6_perm {ps ps' : List ProbeReport} (hp : ps.Perm ps') : (obs6 ps).Perm (obs6 ps') :=
  hp.filterMap _

/-- Also order-independent: the mapping-varies flags and the UDP flags (they depend on the
*set* of observations) … -/
theorem varies_udp_perm {ps ps' : List ProbeReport} (hp : ps.Perm ps') :
    (Report.run ps).mv4 = (Report.run ps').mv4 ∧ (Report.run ps).mv6 = (Report.run ps').mv6 ∧
    (Report.run ps).udpV4 = (Report.run ps').udpV4 ∧
    (Report.run ps).udpV6 = (Report.run ps').udpV6 := by
  have mv : ∀ (o o' : List (Nat × Nat)) (m m' : Option Bool), o.Perm o' →
      ((m = none ↔ o.length < 2) ∧ (m = some true ↔ ∃ a ∈ o, ∃ b ∈ o, a ≠ b) ∧
        (m = some false ↔ 2 ≤ o.length ∧ ∀ a ∈ o, ∀ b ∈ o, a = b)) →
      ((m' = none ↔ o'.length < 2) ∧ (m' = some true ↔ ∃ a ∈ o', ∃ b ∈ o', a ≠ b) ∧
        (m' = some false ↔ 2 ≤ o'.length ∧ ∀ a ∈ o', ∀ b ∈ o', a = b)) → m = m' := by
    intro o o' m m' hperm h h'
    have hlen := hperm.length_eq
    cases m with
    | none => exact (h'.1.mpr (by have := h.1.mp rfl; omega)).symm
    | some b =>
      cases b with
      | true =>
        obtain ⟨x, hx, y, hy, hne⟩ := h.2.1.mp rfl
        exact (h'.2.1.mpr ⟨x, hperm.mem_iff.mp hx, y, hperm.mem_iff.mp hy, hne⟩).symm
      | false =>
        obtain ⟨hl, hall⟩ := h.2.2.mp rfl
        exact (h'.2.2.mpr ⟨by omega, fun x hx y hy =>
          hall x (hperm.mem_iff.mpr hx) y (hperm.mem_iff.mpr hy)⟩).symm
  have udp : ∀ (o o' : List (Nat × Nat)) (b b' : Bool), o.Perm o' →
      (b = true ↔ o ≠ []) → (b' = true ↔ o' ≠ []) → b = b' := by
    intro o o' b b' hperm h h'
    have : o = [] ↔ o' = [] := ⟨fun e => (e ▸ hperm).symm.eq_nil, fun e => (e ▸ hperm).eq_nil⟩
    cases b <;> cases b' <;> simp_all
  exact ⟨mv _ _ _ _ (obs4_perm hp) (varies_iff_v4 ps) (varies_iff_v4 ps'),
    mv _ _ _ _ (obs6_perm hp) (varies_iff_v6 ps) (varies_iff_v6 ps'),
    udp _ _ _ _ (obs4_perm hp) (udp_iff_observed ps).1 (udp_iff_observed ps').1,
    udp _ _ _ _ (obs6_perm hp) (udp_iff_observed ps).2 (udp_iff_observed ps').2⟩

/-- … whereas the global address **is** order-dependent (it is the first observation). -/
theorem global_order_dependent :
    ∃ ps ps' : List ProbeReport, ps.Perm ps' ∧ (Report.run ps).g4 ≠ (Report.run ps').g4 :=
  ⟨[.qad4 1 10 (.v4 7 1), .qad4 2 10 (.v4 8 1)], [.qad4 2 10 (.v4 8 1), .qad4 1 10 (.v4 7 1)],
    List.Perm.swap _ _ _, by decide⟩

theorem filter_map_core (p : Nat → Bool) (l : List (Nat × Report)) :
    (l.filter (fun e => p e.1)).map (fun e => (e.1, coreOf e.2)) =
      (l.map (fun e => (e.1, coreOf e.2))).filter (fun e => p e.1) := by
  induction l with
  | nil => rfl
  | cons e l ih =>
    by_cases hp : p e.1 = true
    · simp [List.filter_cons, hp, ih]
    · simp [List.filter_cons, hp, ih]

theorem insertAt_core_congr {l l' : List (Nat × Report)} (t : Nat) {r r' : Report}
    (hl : l.map (fun e => (e.1, coreOf e.2)) = l'.map (fun e => (e.1, coreOf e.2)))
    (hr : coreOf r = coreOf r') :
    (insertAt l t r).map (fun e => (e.1, coreOf e.2)) =
      (insertAt l' t r').map (fun e => (e.1, coreOf e.2)) := by
  induction l generalizing l' with
  | nil =>
    cases l' with
    | nil => simp [insertAt, hr]
    | cons e l' => simp at hl
  | cons e l ih =>
    obtain ⟨k, v⟩ := e
    cases l' with
    | nil => simp at hl
    | cons e' l' =>
      obtain ⟨k', v'⟩ := e'
      simp only [List.map_cons, List.cons.injEq, Prod.mk.injEq] at hl
      obtain ⟨⟨rfl, hv⟩, htl⟩ := hl
      by_cases h1 : t < k
      · simp [insertAt, h1, hr, hv, htl]
      · by_cases h2 : t = k
        · subst h2
          simp [insertAt, hr, htl]
        · simp [insertAt, h1, h2, hv, ih htl]

/-- `add` reads nothing of the incoming report but its latencies and its (unset) preferred
relay, and nothing of the history but instants, latencies and preferred relays. -/
theorem add_congr (h h' : Hist) (now : Nat) (r r' : Report) (hh : HistEq h h')
    (hl : r.lat = r'.lat) (hp : r.preferred = none) (hp' : r'.preferred = none) :
    coreOf (add h now r).2 = coreOf (add h' now r').2 ∧ HistEq (add h now r).1 (add h' now r').1 := by
  obtain ⟨hprev, hlast⟩ := hh
  -- the previous preferred relay
  have e_prev : prevRelay h = prevRelay h' := by
    unfold prevRelay
    cases h1 : h.last <;> cases h2 : h'.last <;> simp [h1, h2, coreOf] at hlast ⊢
    exact hlast.2
  -- the retained reports
  have e_kept : (kept h now).map (fun e => (e.1, coreOf e.2)) =
      (kept h' now).map (fun e => (e.1, coreOf e.2)) := by
    unfold kept
    rw [filter_map_core (fun t => !tooOld now t), filter_map_core (fun t => !tooOld now t), hprev]
  have e_lats : (kept h now).map (fun e => e.2.lat) = (kept h' now).map (fun e => e.2.lat) := by
    have := congrArg (List.map (fun x : Nat × Latencies × Option Url => x.2.1)) e_kept
    simpa [List.map_map, Function.comp_def, coreOf] using this
  have e_best : bestRecent (kept h now) r = bestRecent (kept h' now) r' := by
    unfold bestRecent
    have fm : ∀ (l : List (Nat × Report)) (acc : Latencies),
        l.foldl (fun acc e => acc.merge e.2.lat) acc =
          (l.map (fun e => e.2.lat)).foldl (fun acc x => acc.merge x) acc := by
      intro l
      induction l with
      | nil => intro acc; rfl
      | cons e l ih => intro acc; simp [ih]
    rw [fm, fm, e_lats, hl]
  have e_cand : cand h now r = cand h' now r' := by
    unfold cand
    rw [e_best, hl]
  have e_old : oldCur h r = oldCur h' r' := by
    unfold oldCur
    rw [e_prev, hl]
  have hp0 : ∀ (x : Hist) (y : Report), (add x now y).2.lat = y.lat := fun _ _ => rfl
  -- the decision
  have e_pref : (add h now r).2.preferred = (add h' now r').2.preferred := by
    rw [add_pref h now r hp, add_pref h' now r' hp', e_cand, e_old, e_prev]
  have e_core : coreOf (add h now r).2 = coreOf (add h' now r').2 := by
    unfold coreOf
    rw [hp0, hp0, hl, e_pref]
  refine ⟨e_core, ?_, ?_⟩
  · rw [add_hist, add_hist]
    exact insertAt_core_congr now e_kept e_core
  · rw [add_hist, add_hist]
    simp [e_core]

theorem histEq_refl (h : Hist) : HistEq h h := ⟨rfl, rfl⟩

/-- **probe_order_irrelevant** (one run).  Permuting the probe reports of a run changes neither
the preferred relay nor anything of the stored history that a later call can observe. -/
theorem probe_order_irrelevant (h h' : Hist) (hh : HistEq h h') (now : Nat)
    (ps ps' : List ProbeReport) (hp : ps.Perm ps') :
    (add h now (Report.run ps)).2.preferred = (add h' now (Report.run ps')).2.preferred ∧
    HistEq (add h now (Report.run ps)).1 (add h' now (Report.run ps')).1 ∧
    (add h now (Report.run ps)).1.prev.length = (add h' now (Report.run ps')).1.prev.length := by
  have := add_congr h h' now (Report.run ps) (Report.run ps') hh (lat_perm hp)
    (run_preferred ps) (run_preferred ps')
  refine ⟨congrArg Prod.snd this.1, this.2, ?_⟩
  have hl := congrArg List.length this.2.1
  simpa using hl

theorem runHist_foldl_congr (rs rs' : List Run) (hperm : RunsPerm rs rs') (h h' : Hist)
    (hh : HistEq h h') (out : List (Option Url × Nat)) :
    ((rs.map fun e => (e.1, Report.run e.2)).foldl (fun acc st =>
        let (h2, r2) := add acc.1 st.1 st.2
        (h2, acc.2 ++ [(r2.preferred, h2.prev.length)])) (h, out)).2 =
    ((rs'.map fun e => (e.1, Report.run e.2)).foldl (fun acc st =>
        let (h2, r2) := add acc.1 st.1 st.2
        (h2, acc.2 ++ [(r2.preferred, h2.prev.length)])) (h', out)).2 := by
  induction rs generalizing rs' h h' out with
  | nil =>
    cases rs' with
    | nil => rfl
    | cons e rs' => exact absurd hperm (by simp [RunsPerm])
  | cons e rs ih =>
    obtain ⟨t, ps⟩ := e
    cases rs' with
    | nil => exact absurd hperm (by simp [RunsPerm])
    | cons e' rs' =>
      obtain ⟨t', ps'⟩ := e'
      obtain ⟨rfl, hp, hrest⟩ := hperm
      have key := probe_order_irrelevant h h' hh t ps ps' hp
      simp only [List.map_cons, List.foldl_cons]
      rw [key.1, key.2.2]
      exact ih rs' hrest _ _ key.2.1 _

/-- **probe_order_irrelevant** (whole histories).  Two sequences of runs at the same instants
whose probe lists are permutations of each other produce, run by run, the same preferred relay
and the same history length. -/
theorem probe_order_irrelevant_runs (rs rs' : List Run) (hperm : RunsPerm rs rs') :
    (runProbes rs).2 = (runProbes rs').2 := by
  unfold runProbes runHist
  exact runHist_foldl_congr rs rs' hperm {} {} (histEq_refl _) []

/-! ### Non-vacuity -/

/-- Raw probes of D11, in two different arrival orders: same decisions. -/
example :
    (runProbes [(0, [.https 3 30000000, .qad6 3 90000000 (.v6 1 1)]),
                (1000, [.qad6 3 90000000 (.v6 1 1), .https 17 25000000, .https 3 30000000])]).2
      = [(some 3, 1), (some 3, 2)] ∧
    (runProbes [(0, [.qad6 3 90000000 (.v6 1 1), .https 3 30000000]),
                (1000, [.https 3 30000000, .https 17 25000000, .qad6 3 90000000 (.v6 1 1)])]).2
      = [(some 3, 1), (some 3, 2)] := by decide

example : Reach {} [] := Reach.fresh

end IrohModel.C28
