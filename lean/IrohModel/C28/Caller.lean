/-
C28 — the caller.  `Client::get_report` decides whether a run is *full* (major link change,
pending full report, more than five minutes since the last full one, captive portal without
UDP) or *incremental*, updates `reports.{last, next_full, last_full}` accordingly, runs the
probes and hands the finished report to `add_report_history_and_set_preferred_relay`.

The theorems show that this bookkeeping never touches `reports.prev`, the five-minute history
the core decides on — so `best_over_5min` holds across any mix of full and incremental runs —
and say exactly what a full run does change: it clears `last`, hence the history function sees
no previous preferred relay and the stickiness rule is vacuous for that run (`sticky` keeps
holding in the form proved for the core; `full_run_forgets_previous` states the consequence).
-/
import IrohModel.C28.Theorems

namespace IrohModel.C28
open IrohModel.C27
open IrohModel.Generated.C28

/-- The reset statement of a full report still has the shape the model transcribes (three
field assignments, no assignment of the whole `reports` value) and the interval is five minutes;
both are re-read from the source on every run. -/
theorem reset_shape : fullResetKeepsPrev = true ∧ fullIntervalMs = 5 * 60 * 1000 := by decide

/-- **full_report_keeps_history.**  The bookkeeping at the start of a run — full or
incremental — leaves the stored five-minute history untouched.  A full run clears `last`, resets
`next_full` and stamps `last_full`; an incremental run changes nothing at all. -/
theorem full_report_keeps_history (c : Caller) (now : Nat) (isMajor : Bool) :
    (begin c now isMajor).hist.prev = c.hist.prev ∧
    (doFull c now isMajor = true →
      (begin c now isMajor).hist.last = none ∧ (begin c now isMajor).nextFull = false ∧
      (begin c now isMajor).lastFull = now) ∧
    (doFull c now isMajor = false → begin c now isMajor = c) := by
  unfold begin
  cases h : doFull c now isMajor <;> simp

/-- When a run is full. -/
theorem doFull_iff (c : Caller) (now : Nat) (isMajor : Bool) :
    doFull c now isMajor = true ↔
      isMajor = true ∨ c.nextFull = true ∨ now - c.lastFull > fullIntervalMs ∨
      ∃ l, c.hist.last = some l ∧ l.udpV4 = false ∧ l.udpV6 = false ∧ l.captive = some true := by
  unfold doFull
  cases hl : c.hist.last with
  | none => simp [or_assoc]
  | some l => simp [or_assoc, and_assoc]

/-- The history after any run: the reports that were at most five minutes old — *whether or
not the run was full* — plus the new one. -/
theorem get_report_history_window (c : Caller) (now : Nat) (isMajor : Bool) (r : Report) :
    (getReport c now isMajor r).1.hist.prev =
      insertAt (c.hist.prev.filter (fun e => decide (now - e.1 ≤ maxAgeMs))) now
        (getReport c now isMajor r).2.1 ∧
    (getReport c now isMajor r).1.hist.last = some (getReport c now isMajor r).2.1 := by
  have hw := history_window (begin c now isMajor).hist now r
  have hp := (full_report_keeps_history c now isMajor).1
  unfold getReport
  simp only []
  rw [hw.1, hp]
  exact ⟨rfl, hw.2.1⟩

theorem window_begin (c : Caller) (now t : Nat) (isMajor : Bool) :
    window (begin c now isMajor).hist t = window c.hist t := by
  unfold window
  rw [(full_report_keeps_history c now isMajor).1]

theorem histWF_begin (c : Caller) (now : Nat) (isMajor : Bool) (h : HistWF c.hist) :
    HistWF (begin c now isMajor).hist := by
  intro e he
  rw [(full_report_keeps_history c now isMajor).1] at he
  exact h e he

/-- Client states reachable by any mix of full and incremental runs (any instants, any
`is_major` flags, any finished reports with well-formed tables and no preferred relay yet). -/
inductive CReach : Caller → Prop where
  | fresh (t0 : Nat) : CReach { lastFull := t0 }
  | run (c : Caller) (now : Nat) (isMajor : Bool) (r : Report) :
      CReach c → WF r.lat → r.preferred = none → CReach (getReport c now isMajor r).1

theorem creach_histWF {c : Caller} (h : CReach c) : HistWF c.hist := by
  induction h with
  | fresh t0 => intro e he; simp at he
  | run c now isMajor r _ hr _ ih =>
    exact add_histWF _ now r (histWF_begin c now isMajor ih) hr

/-- **best_over_5min across full and incremental runs.**  After any mix of runs, the preferred
relay of a further run — full or not — is the relay the history function kept from the last
report (only possible on an incremental run) or a measured relay whose best latency over the
reports of the last five minutes *of the client's whole history* and the current one is minimal. -/
theorem best_over_5min_any_mix (c : Caller) (hc : CReach c) (now : Nat) (isMajor : Bool)
    (r : Report) (hr : WF r.lat) (hp : r.preferred = none) (x : Url)
    (hres : (getReport c now isMajor r).2.1.preferred = some x) :
    Measured r x ∧
    ((doFull c now isMajor = false ∧ prevRelay c.hist = some x) ∨
      ∃ bc, IsBest (window c.hist now ++ [r]) x bc ∧
        ∀ v bv, Measured r v → IsBest (window c.hist now ++ [r]) v bv → bc ≤ bv) := by
  have hwf := histWF_begin c now isMajor (creach_histWF hc)
  have hres' : (add (begin c now isMajor).hist now r).2.preferred = some x := hres
  refine ⟨(preferred_measured_or_none _ now r hwf hr hp).2 x hres', ?_⟩
  rcases best_over_5min _ now r hwf hr hp x hres' with ⟨hprev, _⟩ | hbest
  · left
    cases hf : doFull c now isMajor with
    | true =>
      have := ((full_report_keeps_history c now isMajor).2.1 hf).1
      simp [prevRelay, this] at hprev
    | false =>
      rw [(full_report_keeps_history c now isMajor).2.2 hf] at hprev
      exact ⟨rfl, hprev⟩
  · right
    rw [window_begin] at hbest
    exact hbest

/-- **sticky across runs.**  On an incremental run the previous preferred relay is the one of
the last report, and the two-thirds rule holds against it. -/
theorem sticky_any_mix (c : Caller) (hc : CReach c) (now : Nat) (isMajor : Bool)
    (r : Report) (hr : WF r.lat) (hp : r.preferred = none) (p old x : Nat)
    (hinc : doFull c now isMajor = false) (hprev : prevRelay c.hist = some p)
    (hold : IsBest [r] p old) (hres : (getReport c now isMajor r).2.1.preferred = some x)
    (hne : x ≠ p) :
    ∃ bc, IsBest (window c.hist now ++ [r]) x bc ∧ stickDen * bc ≤ stickNum * old := by
  have hb := (full_report_keeps_history c now isMajor).2.2 hinc
  have hres' : (add (begin c now isMajor).hist now r).2.preferred = some x := hres
  rw [hb] at hres'
  exact sticky c.hist now r (creach_histWF hc) hr hp p old x hprev hold hres' hne

/-- What a full run changes for the decision: the history function sees no previous preferred
relay (`reports.last = None`), so the result is purely the best relay over the five-minute
history — the stickiness rule does not apply to full runs. -/
theorem full_run_forgets_previous (c : Caller) (hc : CReach c) (now : Nat) (isMajor : Bool)
    (r : Report) (hr : WF r.lat) (hp : r.preferred = none) (hf : doFull c now isMajor = true) :
    prevRelay (begin c now isMajor).hist = none ∧
    ∀ x, (getReport c now isMajor r).2.1.preferred = some x →
      ∃ bc, IsBest (window c.hist now ++ [r]) x bc ∧
        ∀ v bv, Measured r v → IsBest (window c.hist now ++ [r]) v bv → bc ≤ bv := by
  have hl := ((full_report_keeps_history c now isMajor).2.1 hf).1
  refine ⟨by simp [prevRelay, hl], ?_⟩
  intro x hres
  rcases (best_over_5min_any_mix c hc now isMajor r hr hp x hres).2 with ⟨hinc, _⟩ | h
  · rw [hf] at hinc; cases hinc
  · exact h

/-! ### Non-vacuity -/

/-- The seeded scenario: relay 3 had 10 ns a second ago; a *full* run (major link change) now
measures 3 at 50 ns and 17 at 20 ns.  The history still counts: 3 stays preferred, two reports
are retained.  (With the history wiped the run would pick 17 and retain one report.) -/
example :
    (runCaller [(0, false, { lat := Latencies.build [(.https, 3, 10), (.https, 17, 20)] }),
                (1000, true, { lat := Latencies.build [(.https, 3, 50), (.https, 17, 20)] })]).2
      = [(some 3, 1, true), (some 3, 2, true)] := by decide

/-- Periodic full report after more than five minutes: the old report has aged out anyway. -/
example :
    (runCaller [(0, false, { lat := Latencies.build [(.https, 3, 10), (.https, 17, 20)] }),
                (1000, false, { lat := Latencies.build [(.https, 3, 50), (.https, 17, 20)] }),
                (301001, false, { lat := Latencies.build [(.https, 3, 50), (.https, 17, 20)] })]).2
      = [(some 3, 1, true), (some 3, 2, false), (some 17, 1, true)] := by decide

end IrohModel.C28
