/-
C28 — the property's vocabulary, written without reference to `merge`, `get` or the selection
loop of the model: a relay is *measured* in a report when some probe kind has a latency for it;
the *window* is the set of retained reports not older than five minutes; the *best* latency of a
relay over some reports is the minimum of every latency any of them holds for it.
-/
import IrohModel.C28.Model
import IrohModel.C27.Spec

namespace IrohModel.C28
open IrohModel.C27
open IrohModel.Generated.C28

/-- The previous preferred relay: `self.reports.last.preferred_relay`. -/
def prevRelay (h : Hist) : Option Url :=
  match h.last with
  | some l => l.preferred
  | none => none

/-- The latencies report `r` holds for relay `u` (at most one per probe kind). -/
def latsIn (r : Report) (u : Url) : List Nat :=
  [Probe.https, Probe.v4, Probe.v6].filterMap (fun k => (r.lat.table k).get u)

/-- Relay `u` is measured in report `r`. -/
def Measured (r : Report) (u : Url) : Prop := latsIn r u ≠ []

/-- Every latency the reports `rs` hold for relay `u`. -/
def allLats (rs : List Report) (u : Url) : List Nat := rs.flatMap (fun r => latsIn r u)

/-- `b` is the best (lowest) latency of relay `u` over the reports `rs`. -/
def IsBest (rs : List Report) (u : Url) (b : Nat) : Prop :=
  b ∈ allLats rs u ∧ ∀ x ∈ allLats rs u, b ≤ x

/-- The retained reports that are at most five minutes old at instant `now` (ms). -/
def window (h : Hist) (now : Nat) : List Report :=
  (h.prev.filter (fun e => decide (now - e.1 ≤ maxAgeMs))).map (·.2)

/-- The `BTreeMap` invariant of every latency table in the history. -/
def HistWF (h : Hist) : Prop := ∀ e ∈ h.prev, WF e.2.lat

end IrohModel.C28
