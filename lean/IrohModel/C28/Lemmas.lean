/-
C28 — helper lemmas: what `best_recent` holds, what the selection loop returns.
-/
import IrohModel.C28.Spec
import IrohModel.C27.Theorems

namespace IrohModel.C28
open IrohModel.C27
open IrohModel.Generated.C28

/-! ### Tables and `iter` -/

theorem table_mem_get {t : Table} {k v : Nat} (h : (k, v) ∈ t) : ∃ w, Table.get t k = some w := by
  induction t with
  | nil => simp at h
  | cons e t ih =>
    obtain ⟨k', v'⟩ := e
    by_cases hk : k' = k
    · exact ⟨v', by simp [Table.get, hk]⟩
    · simp only [List.mem_cons, Prod.mk.injEq] at h
      rcases h with ⟨h1, _⟩ | h
      · exact absurd h1.symm hk
      · obtain ⟨w, hw⟩ := ih h
        exact ⟨w, by simp [Table.get, hk, hw]⟩

theorem table_get_mem {t : Table} {k v : Nat} (h : Table.get t k = some v) : (k, v) ∈ t := by
  induction t with
  | nil => simp [Table.get] at h
  | cons e t ih =>
    obtain ⟨k', v'⟩ := e
    by_cases hk : k' = k
    · simp [Table.get, hk] at h
      simp [hk, h]
    · simp [Table.get, hk] at h
      exact List.mem_cons_of_mem _ (ih h)

/-- `RelayLatencies::get` is the minimum of the (at most three) latencies held for the url. -/
theorem get_eq_minList (r : Report) (u : Url) : r.lat.get u = minList (latsIn r u) := by
  unfold Latencies.get latsIn
  simp only [List.filterMap_cons, List.filterMap_nil, Latencies.table]
  cases h1 : Table.get r.lat.https u <;> cases h2 : Table.get r.lat.ipv4 u <;>
    cases h3 : Table.get r.lat.ipv6 u <;> simp [minList, minOpt, Nat.min_assoc]

theorem measured_iff_get (r : Report) (u : Url) : Measured r u ↔ ∃ m, r.lat.get u = some m := by
  rw [get_eq_minList, Measured]
  cases h : minList (latsIn r u) with
  | none => simp [minList_eq_none.mp h]
  | some m =>
    have : latsIn r u ≠ [] := fun h' => by simp [h', minList] at h
    simp [this]

/-- Every url the loop iterates over is measured in the report. -/
theorem iter_measured (r : Report) {e : Probe × Url × Nat} (h : e ∈ r.lat.iter) :
    Measured r e.2.1 := by
  rw [measured_iff_get]
  unfold Latencies.iter at h
  simp only [List.mem_append, List.mem_map] at h
  have key : ∀ k, (∃ w, Table.get (r.lat.table k) e.2.1 = some w) → ∃ m, r.lat.get e.2.1 = some m := by
    intro k ⟨w, hw⟩
    cases hg : r.lat.get e.2.1 with
    | some m => exact ⟨m, rfl⟩
    | none =>
      unfold Latencies.get at hg
      rw [minOpt_eq_none, minOpt_eq_none] at hg
      cases k <;> simp [Latencies.table] at hw <;> simp_all
  rcases h with (⟨x, hx, rfl⟩ | ⟨x, hx, rfl⟩) | ⟨x, hx, rfl⟩
  · exact key .https (table_mem_get (t := r.lat.https) (by simpa using hx))
  · exact key .v4 (table_mem_get (t := r.lat.ipv4) (by simpa using hx))
  · exact key .v6 (table_mem_get (t := r.lat.ipv6) (by simpa using hx))

/-- ... and every measured url is iterated over. -/
theorem measured_iter (r : Report) {u : Url} (h : Measured r u) :
    ∃ e ∈ r.lat.iter, e.2.1 = u := by
  unfold Measured latsIn at h
  simp only [List.filterMap_cons, List.filterMap_nil, Latencies.table] at h
  unfold Latencies.iter
  cases h1 : Table.get r.lat.https u with
  | some v =>
    exact ⟨(.https, u, v), by simp; exact table_get_mem h1, rfl⟩
  | none =>
    cases h2 : Table.get r.lat.ipv4 u with
    | some v =>
      exact ⟨(.v4, u, v), by simp; exact table_get_mem h2, rfl⟩
    | none =>
      cases h3 : Table.get r.lat.ipv6 u with
      | some v =>
        exact ⟨(.v6, u, v), by simp; exact table_get_mem h3, rfl⟩
      | none => simp [h1, h2, h3] at h

theorem iter_nil_iff (r : Report) : r.lat.iter = [] ↔ ∀ u, ¬ Measured r u := by
  constructor
  · intro h u hm
    obtain ⟨e, he, _⟩ := measured_iter r hm
    simp [h] at he
  · intro h
    cases hi : r.lat.iter with
    | nil => rfl
    | cons e es =>
      exact absurd (iter_measured r (e := e) (by simp [hi])) (h _)

/-! ### `best_recent` -/

theorem allLats_cons (r : Report) (rs : List Report) (u : Url) :
    allLats (r :: rs) u = latsIn r u ++ allLats rs u := by
  simp [allLats]

theorem allLats_append (xs ys : List Report) (u : Url) :
    allLats (xs ++ ys) u = allLats xs u ++ allLats ys u := by
  simp [allLats]

theorem isBest_iff_minList (rs : List Report) (u : Url) (b : Nat) :
    IsBest rs u b ↔ minList (allLats rs u) = some b := minList_eq_some.symm

theorem empty_get (u : Url) : ({} : Latencies).get u = none := rfl

theorem empty_wf : WF ({} : Latencies) := ⟨sorted_nil, sorted_nil, sorted_nil⟩

/-- Merging the latencies of a list of reports into an accumulator. -/
theorem foldl_merge (ls : List (Nat × Report)) (acc : Latencies) (hacc : WF acc)
    (hls : ∀ e ∈ ls, WF e.2.lat) :
    WF (ls.foldl (fun acc e => acc.merge e.2.lat) acc) ∧
    ∀ u, (ls.foldl (fun acc e => acc.merge e.2.lat) acc).get u =
      minOpt (acc.get u) (minList (allLats (ls.map (·.2)) u)) := by
  induction ls generalizing acc with
  | nil => simp [allLats, minList, minOpt_none_right, hacc]
  | cons e ls ih =>
    have he : WF e.2.lat := hls e (by simp)
    have := ih (acc.merge e.2.lat) (merge_wf _ _ hacc) (fun x hx => hls x (by simp [hx]))
    refine ⟨this.1, fun u => ?_⟩
    simp only [List.foldl_cons, List.map_cons]
    rw [this.2 u, merge_get _ _ hacc he, allLats_cons, minList_append, get_eq_minList,
      minOpt_assoc]

/-- `best_recent.get(url)` is the minimum of every latency of `url` in the retained reports and
the current one. -/
theorem bestRecent_get (kept : List (Nat × Report)) (r : Report)
    (hk : ∀ e ∈ kept, WF e.2.lat) (hr : WF r.lat) (u : Url) :
    (bestRecent kept r).get u = minList (allLats (kept.map (·.2) ++ [r]) u) := by
  unfold bestRecent
  have h := foldl_merge kept {} empty_wf hk
  rw [merge_get _ _ h.1 hr, h.2 u, empty_get, minOpt_none_left, allLats_append, minList_append,
    get_eq_minList]
  simp [allLats]

/-- The model's `!tooOld` filter is the window of the specification. -/
theorem kept_eq_window (h : Hist) (now : Nat) :
    (h.prev.filter (fun e => !tooOld now e.1)).map (·.2) = window h now := by
  unfold window tooOld
  congr 1
  apply List.filter_congr
  intro e _
  by_cases hc : now - e.1 ≤ maxAgeMs
  · have : ¬ now - e.1 > maxAgeMs := by omega
    simp [hc, this]
  · have : now - e.1 > maxAgeMs := by omega
    simp [hc, this]

/-! ### The selection loop -/

/-- Invariant of the loop over the entries seen so far. -/
def PickInv (B : Latencies) (s : Pick) (seen : List (Probe × Url × Nat)) : Prop :=
  (s.pref = none ∧ seen = []) ∨
  (∃ c, s.pref = some c ∧ (∃ e ∈ seen, e.2.1 = c) ∧ B.get c = some s.bestAny ∧
    ∀ e ∈ seen, ∀ b, B.get e.2.1 = some b → s.bestAny ≤ b)

theorem pickStep_inv (B : Latencies) (s : Pick) (seen : List (Probe × Url × Nat))
    (e : Probe × Url × Nat) (hs : PickInv B s seen) (he : ∃ b, B.get e.2.1 = some b) :
    PickInv B (pickStep B s e) (seen ++ [e]) := by
  obtain ⟨best, hb⟩ := he
  unfold pickStep
  rw [hb]
  rcases hs with ⟨hp, hseen⟩ | ⟨c, hp, hmem, hget, hall⟩
  · right
    subst hseen
    simp only [hp, Option.isNone_none, Bool.true_or, if_true]
    exact ⟨e.2.1, rfl, ⟨e, by simp, rfl⟩, hb, by
      intro e' he' b' hb'
      simp only [List.nil_append, List.mem_singleton] at he'
      subst he'
      rw [hb] at hb'
      cases hb'
      exact Nat.le_refl _⟩
  · right
    by_cases hlt : best < s.bestAny
    · simp only [hp, Option.isNone_some, Bool.false_or, hlt, decide_true, if_true]
      refine ⟨e.2.1, rfl, ⟨e, by simp, rfl⟩, hb, ?_⟩
      intro e' he' b' hb'
      simp only [List.mem_append, List.mem_singleton] at he'
      rcases he' with he' | rfl
      · have := hall e' he' b' hb'
        omega
      · rw [hb] at hb'
        cases hb'
        exact Nat.le_refl _
    · simp only [hp, Option.isNone_some, Bool.false_or, hlt, decide_false, Bool.false_eq_true,
        if_false]
      refine ⟨c, rfl, ?_, hget, ?_⟩
      · obtain ⟨x, hx, hxc⟩ := hmem
        exact ⟨x, by simp [hx], hxc⟩
      · intro e' he' b' hb'
        simp only [List.mem_append, List.mem_singleton] at he'
        rcases he' with he' | rfl
        · exact hall e' he' b' hb'
        · rw [hb] at hb'
          cases hb'
          omega

theorem foldl_pick_inv (B : Latencies) (es : List (Probe × Url × Nat)) (s : Pick)
    (seen : List (Probe × Url × Nat)) (hs : PickInv B s seen)
    (hes : ∀ e ∈ es, ∃ b, B.get e.2.1 = some b) :
    PickInv B (es.foldl (pickStep B) s) (seen ++ es) := by
  induction es generalizing s seen with
  | nil => simpa using hs
  | cons e es ih =>
    have h1 := pickStep_inv B s seen e hs (hes e (by simp))
    have := ih (pickStep B s e) (seen ++ [e]) h1 (fun x hx => hes x (by simp [hx]))
    simpa [List.append_assoc] using this

/-- What the loop returns when it starts with no preferred relay. -/
theorem pick_result (B : Latencies) (es : List (Probe × Url × Nat))
    (hes : ∀ e ∈ es, ∃ b, B.get e.2.1 = some b) :
    PickInv B (es.foldl (pickStep B) ⟨none, 0⟩) es := by
  have := foldl_pick_inv B es ⟨none, 0⟩ [] (Or.inl ⟨rfl, rfl⟩) hes
  simpa using this

/-- `x / 3 * 2` never exceeds two thirds of `x`. -/
theorem threshold_le (old : Nat) : stickDen * threshold old ≤ stickNum * old := by
  unfold threshold
  simp only [stickDen, stickNum]
  omega

theorem mem_insertAt {m : List (Nat × Report)} {t : Nat} {r : Report} {e : Nat × Report}
    (h : e ∈ insertAt m t r) : e = (t, r) ∨ e ∈ m := by
  induction m with
  | nil => simp [insertAt] at h; left; exact h
  | cons hd m ih =>
    obtain ⟨k, v⟩ := hd
    by_cases h1 : t < k
    · simp only [insertAt, h1, if_true, List.mem_cons] at h
      rcases h with h | h | h
      · left; exact h
      · right; simp [h]
      · right; simp [h]
    · by_cases h2 : t = k
      · subst h2
        simp only [insertAt, Nat.lt_irrefl, if_true, if_false, List.mem_cons] at h
        rcases h with h | h
        · left; exact h
        · right; simp [h]
      · simp only [insertAt, h1, h2, if_false, List.mem_cons] at h
        rcases h with h | h
        · right; simp [h]
        · rcases ih h with h | h
          · left; exact h
          · right; simp [h]

/-! ### One call of `add`, decomposed -/

/-- The retained reports. -/
def kept (h : Hist) (now : Nat) : List (Nat × Report) := h.prev.filter (fun e => !tooOld now e.1)

/-- The result of the selection loop (before the stickiness rule). -/
def cand (h : Hist) (now : Nat) (r : Report) : Pick :=
  r.lat.iter.foldl (pickStep (bestRecent (kept h now) r)) ⟨none, 0⟩

/-- `old_relay_cur_latency`. -/
def oldCur (h : Hist) (r : Report) : Nat :=
  match prevRelay h with
  | some p => match r.lat.get p with
    | some d => d
    | none => 0
  | none => 0

theorem add_pref (h : Hist) (now : Nat) (r : Report) (hp : r.preferred = none) :
    (add h now r).2.preferred =
      if (prevRelay h).isSome && (cand h now r).pref != prevRelay h && oldCur h r != 0 &&
          decide ((cand h now r).bestAny > threshold (oldCur h r))
      then prevRelay h else (cand h now r).pref := by
  unfold add cand kept oldCur prevRelay
  simp only [hp]
  rfl

theorem add_hist (h : Hist) (now : Nat) (r : Report) :
    (add h now r).1 = { prev := insertAt (kept h now) now (add h now r).2,
                        last := some (add h now r).2 } := by
  unfold add kept
  rfl

theorem kept_wf {h : Hist} (hh : HistWF h) (now : Nat) : ∀ e ∈ kept h now, WF e.2.lat := by
  intro e he
  exact hh e (List.mem_filter.mp he).1

theorem kept_map (h : Hist) (now : Nat) : (kept h now).map (·.2) = window h now :=
  kept_eq_window h now

/-- What the selection loop returns, in the property's vocabulary. -/
theorem cand_spec (h : Hist) (now : Nat) (r : Report) (hh : HistWF h) (hr : WF r.lat) :
    (r.lat.iter = [] → (cand h now r).pref = none) ∧
    (r.lat.iter ≠ [] → ∃ c, (cand h now r).pref = some c ∧ Measured r c ∧
      IsBest (window h now ++ [r]) c (cand h now r).bestAny ∧
      ∀ v bv, Measured r v → IsBest (window h now ++ [r]) v bv → (cand h now r).bestAny ≤ bv) := by
  have hB : ∀ u, (bestRecent (kept h now) r).get u = minList (allLats (window h now ++ [r]) u) := by
    intro u
    rw [bestRecent_get _ _ (kept_wf hh now) hr, kept_map]
  have hes : ∀ e ∈ r.lat.iter, ∃ b, (bestRecent (kept h now) r).get e.2.1 = some b := by
    intro e he
    have hm := iter_measured r he
    rw [hB]
    cases hc : minList (allLats (window h now ++ [r]) e.2.1) with
    | some b => exact ⟨b, rfl⟩
    | none =>
      have := minList_eq_none.mp hc
      rw [allLats_append] at this
      have h2 : latsIn r e.2.1 = [] := by
        have := (List.append_eq_nil_iff.mp this).2
        simpa [allLats] using this
      exact absurd h2 hm
  have inv := pick_result (bestRecent (kept h now) r) r.lat.iter hes
  refine ⟨?_, ?_⟩
  · intro hnil
    unfold cand
    rw [hnil]
    rfl
  · intro hne
    rcases inv with ⟨_, hnil⟩ | ⟨c, hp, ⟨e, he, hec⟩, hget, hall⟩
    · exact absurd hnil hne
    · refine ⟨c, hp, ?_, ?_, ?_⟩
      · rw [← hec]; exact iter_measured r he
      · rw [isBest_iff_minList, ← hB]; exact hget
      · intro v bv hv hbv
        obtain ⟨e', he', hev⟩ := measured_iter r hv
        rw [isBest_iff_minList, ← hB] at hbv
        exact hall e' he' bv (by rw [hev]; exact hbv)

/-- `old_relay_cur_latency` is the lowest latency of the previous relay in the current report
(0 when there is no previous relay or it is not measured). -/
theorem oldCur_spec (h : Hist) (r : Report) (p old : Nat) (hp : prevRelay h = some p)
    (hold : IsBest [r] p old) : oldCur h r = old := by
  unfold oldCur
  rw [hp]
  have : r.lat.get p = some old := by
    rw [get_eq_minList, ← (isBest_iff_minList [r] p old).mp hold]
    simp [allLats]
  simp [this]

theorem oldCur_ne_zero_measured (h : Hist) (r : Report) (hne : oldCur h r ≠ 0) :
    ∃ p, prevRelay h = some p ∧ Measured r p := by
  unfold oldCur at hne
  cases hp : prevRelay h with
  | none => simp [hp] at hne
  | some p =>
    refine ⟨p, rfl, ?_⟩
    rw [measured_iff_get]
    cases hg : r.lat.get p with
    | none => simp [hp, hg] at hne
    | some d => exact ⟨d, rfl⟩

end IrohModel.C28
