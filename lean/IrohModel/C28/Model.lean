/-
C28 — preferred relay choice.  Model of
`Client::add_report_history_and_set_preferred_relay` (iroh/src/net_report.rs) **after** the
repair `fix: relay stickiness compares against the previous relay's lowest current latency`
(the unrepaired code took the latency of the previous relay from whichever probe kind was
iterated last; see known_findings.json).  Import-free apart from the C27 model of
`RelayLatencies` and the generated constants; executable.

* Time is an input: `now` and the keys of the history are milliseconds on the (virtual)
  monotonic clock; latencies are nanoseconds.
* `Reports.prev : BTreeMap<Instant, Report>` is a key-sorted association list; `Reports.last`
  the most recent report.
* Not modelled: the carry-over of `mapping_varies_by_dest_*` from the last report (it never
  influences `preferred_relay`, the only field the property observes).
-/
import IrohModel.C27.Model
import IrohModel.Generated.C28

namespace IrohModel.C28
open IrohModel.C27
open IrohModel.Generated.C28

/-- `Reports` (the fields the function uses). -/
structure Hist where
  /-- `prev`, sorted by instant. -/
  prev : List (Nat × Report) := []
  /-- `last`. -/
  last : Option Report := none
deriving Repr

/-- `BTreeMap::insert` on the key-sorted list: an entry with the same instant is replaced. -/
def insertAt : List (Nat × Report) → Nat → Report → List (Nat × Report)
  | [], t, r => [(t, r)]
  | (k, v) :: rest, t, r =>
    if t < k then (t, r) :: (k, v) :: rest
    else if t = k then (k, r) :: rest
    else (k, v) :: insertAt rest t r

/-- State of the selection loop: `r.preferred_relay` and `best_any`. -/
structure Pick where
  pref : Option Url
  bestAny : Nat
deriving Repr, DecidableEq

/-- One iteration of `for (_, url, _) in r.relay_latency.iter()`:
```
if let Some(best) = best_recent.get(url) && (r.preferred_relay.is_none() || best < best_any) {
    best_any = best; r.preferred_relay.replace(url.clone());
}
``` -/
def pickStep (bestRecent : Latencies) (s : Pick) (e : Probe × Url × Nat) : Pick :=
  match bestRecent.get e.2.1 with
  | some best => if s.pref.isNone || decide (best < s.bestAny) then ⟨some e.2.1, best⟩ else s
  | none => s

/-- `now.duration_since(*t) > MAX_AGE` (`duration_since` saturates, like `Nat` subtraction). -/
def tooOld (now t : Nat) : Bool := decide (now - t > maxAgeMs)

/-- `best_recent`: the latencies of every retained report merged, then the current report. -/
def bestRecent (kept : List (Nat × Report)) (r : Report) : Latencies :=
  (kept.foldl (fun acc e => acc.merge e.2.lat) ({} : Latencies)).merge r.lat

/-- `old_relay_cur_latency / 3 * 2` on nanoseconds (`Duration / u32` is the exact floor). -/
def threshold (old : Nat) : Nat := old / stickDen * stickNum

/-- `add_report_history_and_set_preferred_relay(&mut self, r)` at instant `now`; returns the new
history and the report as mutated. -/
def add (h : Hist) (now : Nat) (r : Report) : Hist × Report :=
  let prevRelay : Option Url := match h.last with
    | some l => l.preferred
    | none => none
  -- reports older than MAX_AGE are dropped, the others merged
  let kept := h.prev.filter (fun e => !tooOld now e.1)
  let best := bestRecent kept r
  -- `prev_relay.and_then(|url| r.relay_latency.get(url)).unwrap_or_default()`
  let oldCur : Nat := match prevRelay with
    | some p => match r.lat.get p with
      | some d => d
      | none => 0
    | none => 0
  let s := r.lat.iter.foldl (pickStep best) ⟨r.preferred, 0⟩
  -- stick with the previous relay unless the new one is much better
  let pref :=
    if prevRelay.isSome && s.pref != prevRelay && oldCur != 0 &&
        decide (s.bestAny > threshold oldCur)
    then prevRelay else s.pref
  let r' := { r with preferred := pref }
  ({ prev := insertAt kept now r', last := some r' }, r')

/-- A whole history: reports `(instant, report)` added in order to a fresh client; returns the
final history and, per step, the preferred relay and the history length. -/
def runHist (steps : List (Nat × Report)) : Hist × List (Option Url × Nat) :=
  steps.foldl (fun acc st =>
    let (h', r') := add acc.1 st.1 st.2
    (h', acc.2 ++ [(r'.preferred, h'.prev.length)])) ({}, [])

/-! ### The caller: `Client::get_report`'s bookkeeping around the history function -/

/-- `Client` as far as reports are concerned: `Reports { next_full, prev, last, last_full }`. -/
structure Caller where
  hist : Hist := {}
  /-- `next_full` (`Reports::default()` starts with `true`). -/
  nextFull : Bool := true
  /-- `last_full`, an instant in ms (`Reports::default()` takes `Instant::now()`). -/
  lastFull : Nat := 0
deriving Repr

/-- `do_full`: major change, pending full report, more than `FULL_REPORT_INTERVAL` since the
last full report, or the last report saw a captive portal and no UDP. -/
def doFull (c : Caller) (now : Nat) (isMajor : Bool) : Bool :=
  isMajor || c.nextFull || decide (now - c.lastFull > fullIntervalMs) ||
  (match c.hist.last with
   | some l => !(l.udpV4 || l.udpV6) && l.captive == some true
   | none => false)

/-- The state update at the start of `get_report`:
```
if do_full { self.reports.last = None; self.reports.next_full = false; self.reports.last_full = now; }
```
Only these three fields are written; `prev` is not touched. -/
def begin (c : Caller) (now : Nat) (isMajor : Bool) : Caller :=
  if doFull c now isMajor then
    { hist := { c.hist with last := none }, nextFull := false, lastFull := now }
  else c

/-- `get_report`: bookkeeping, then (after the probe phase produced `finished`) the history
function.  Returns the new state, the report handed back, and whether the run was full. -/
def getReport (c : Caller) (now : Nat) (isMajor : Bool) (finished : Report) :
    Caller × Report × Bool :=
  let full := doFull c now isMajor
  let c1 := begin c now isMajor
  let res := add c1.hist now finished
  ({ c1 with hist := res.1 }, res.2, full)

/-- Any mix of full and incremental runs on a fresh client (created at instant 0). -/
def runCaller (steps : List (Nat × Bool × Report)) : Caller × List (Option Url × Nat × Bool) :=
  steps.foldl (fun acc st =>
    let r := getReport acc.1 st.1 st.2.1 st.2.2
    (r.1, acc.2 ++ [(r.2.1.preferred, r.1.hist.prev.length, r.2.2)])) ({}, [])

end IrohModel.C28
