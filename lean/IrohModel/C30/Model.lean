/-
C30 — `AddressLookupServices::{add_boxed, publish}` as a labelled transition system.
Model of `iroh/src/address_lookup.rs` AFTER the repair (`fix:` commit, see
known_findings.json): both operations serialise on the `last_data` lock.

```
add_boxed(service):                         publish(data):
  A1  g = last_data.read()   (held to end)    data = filter(data)
      if let Some(d) = *g { service.publish(d) }
                                              P1  last = last_data.write()  (held to end)
  A2  services.write().push(service)          P2  services = services.read() (held to end)
      (release g)                             P3.i  services[i].publish(data)   for each i
                                              P4  *last = Some(data); release both
```

Atomicity: one LTS step = the code between two pause points
(`crate::verif_hooks::pause::point`, cfg(iroh_verif)); the names of the pause
points are the program counters below.  A step that starts with a lock
acquisition is *enabled* only if the lock can be taken (std `RwLock`: shared
readers or one writer); a scheduled thread whose step is not enabled does not
move (`blocked`).  Lock state is explicit (`lastW`, `lastR`, `svcR`: the thread
ids holding `last_data` exclusively / shared and `services` shared; the
exclusive hold of `services` in A2 begins and ends inside one step).
-/
import IrohModel.Generated.C30

namespace IrohModel.C30

/-- Published endpoint data: an id and which address kinds it contains. -/
structure Data where
  id : Nat
  relay : Bool
  ip : Bool
deriving DecidableEq, Repr

/-- The registry-wide `AddrFilter` (`set_addr_filter`) used by the correspondence run. -/
inductive Filter where
  | none | relayOnly | ipOnly
deriving DecidableEq, Repr

def applyFilter : Filter → Data → Data
  | .none, d => d
  | .relayOnly, d => { d with ip := false }
  | .ipOnly, d => { d with relay := false }

/-- A lookup service: its id and the log of everything it was given (`AddressLookup::publish`). -/
structure Svc where
  id : Nat
  log : List Data
deriving DecidableEq, Repr

inductive Op where
  | publish (d : Data)
  | add (sid : Nat)
deriving DecidableEq, Repr

/-- Program counters = pause points (the thread sits *before* the named action). -/
inductive Pc where
  /-- `publish:lock-last-write` -/
  | pLockLast
  /-- `publish:lock-services-read` -/
  | pLockSvc
  /-- `publish:service` (about to publish to `services[i]`) -/
  | pSvc (i : Nat)
  /-- `publish:store` -/
  | pStore
  /-- `add:lock-last-read` -/
  | aLockLast
  /-- `add:lock-services-write` -/
  | aLockSvc
  | done
deriving DecidableEq, Repr

structure Thread where
  op : Op
  pc : Pc
  /-- for `add`: the service being added (not yet registered), with what it was given so far -/
  svc : Svc
deriving DecidableEq, Repr

def Thread.idle : Thread := ⟨.add 0, .done, ⟨0, []⟩⟩

/-- A thread about to run `op` (at its first pause point, nothing done yet). -/
def Thread.start : Op → Thread
  | .publish d => ⟨.publish d, .pLockLast, ⟨0, []⟩⟩
  | .add sid => ⟨.add sid, .aLockLast, ⟨sid, []⟩⟩

structure State where
  /-- `services` (registration order) -/
  services : List Svc
  /-- `last_data` -/
  last : Option Data
  /-- thread holding `last_data` exclusively -/
  lastW : Option Nat
  /-- threads holding `last_data` shared -/
  lastR : List Nat
  /-- threads holding `services` shared -/
  svcR : List Nat
  threads : Nat → Thread

def State.init : State := ⟨[], none, none, [], [], fun _ => Thread.idle⟩

def State.setThread (st : State) (tid : Nat) (t : Thread) : State :=
  { st with threads := fun j => if j = tid then t else st.threads j }

def State.setPc (st : State) (tid : Nat) (pc : Pc) : State :=
  st.setThread tid { st.threads tid with pc := pc }

/-- Give `x` to the `i`-th registered service. -/
def giveAt (services : List Svc) (i : Nat) (x : Data) : List Svc :=
  services.modify i fun s => { s with log := s.log ++ [x] }

/-- Whether the next step of thread `tid` can run (its lock acquisition would not block). -/
def enabled (st : State) (tid : Nat) : Bool :=
  match (st.threads tid).pc with
  | .pLockLast => st.lastW.isNone && st.lastR.isEmpty      -- last_data.write()
  | .pLockSvc => true                                       -- services.read(): no writer is ever parked
  | .aLockLast => st.lastW.isNone                           -- last_data.read()
  | .aLockSvc => st.svcR.isEmpty                            -- services.write()
  | .pSvc _ => true
  | .pStore => true
  | .done => false

/-- One step of thread `tid` (no-op when the thread is done or blocked). -/
def step (f : Data → Data) (st : State) (tid : Nat) : State :=
  let t := st.threads tid
  if !enabled st tid then st else
  match t.op, t.pc with
  | .publish _, .pLockLast => { st.setPc tid .pLockSvc with lastW := some tid }
  | .publish _, .pLockSvc =>
    { st.setPc tid (if st.services.isEmpty then .pStore else .pSvc 0) with svcR := tid :: st.svcR }
  | .publish d, .pSvc i =>
    { (st.setPc tid (if i + 1 < st.services.length then .pSvc (i + 1) else .pStore)) with
      services := giveAt st.services i (f d) }
  | .publish d, .pStore =>
    { st.setPc tid .done with last := some (f d), lastW := none, svcR := st.svcR.filter (· != tid) }
  | .add _, .aLockLast =>
    let svc := match st.last with
      | some x => { t.svc with log := t.svc.log ++ [x] }
      | none => t.svc
    { st.setThread tid { t with pc := .aLockSvc, svc := svc } with lastR := tid :: st.lastR }
  | .add _, .aLockSvc =>
    { st.setPc tid .done with services := st.services ++ [t.svc], lastR := st.lastR.filter (· != tid) }
  | _, _ => st

/-- Run a schedule (a list of thread ids). -/
def run (f : Data → Data) (st : State) : List Nat → State
  | [] => st
  | tid :: sched => run f (step f st tid) sched

/-- All threads have finished. -/
def Quiescent (st : State) : Prop := ∀ j, (st.threads j).pc = .done

/-- Initial state: a registry in a consistent sequential state (`services`, `last`), all locks
free, and any number of threads about to run one operation each (`ops j = none`: no thread `j`). -/
def State.initWith (services : List Svc) (last : Option Data) (ops : Nat → Option Op) : State :=
  { services := services, last := last, lastW := none, lastR := [], svcR := [],
    threads := fun j => match ops j with
      | some op => Thread.start op
      | none => Thread.idle }

/-- The last thing a service was given. -/
def Svc.latest (s : Svc) : Option Data := s.log.getLast?

/-- The property at quiescence: every registered service has most recently been given the
latest published data (and was given nothing if nothing was ever published). -/
def allServicesLatest (st : State) : Prop :=
  ∀ s ∈ st.services, s.latest = st.last

instance (st : State) : Decidable (allServicesLatest st) := by
  unfold allServicesLatest; infer_instance

end IrohModel.C30
