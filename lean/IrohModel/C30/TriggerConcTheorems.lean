/-
C30 — concurrent publish triggers: theorems (model in `TriggersConc.lean`).

* `services_track_endpoint_data_concurrent` — repaired code (`publish_lock`): for ANY number of
  concurrent triggers, EVERY interleaving of their steps (blocked threads do not move), from any
  socket state whose data is already tracked: at quiescence, if the endpoint's current data is
  not all-empty, `last_data` is exactly the data built from the current values.
* `unrepaired_publish_snapshot_race` — before the repair (no lock) a trigger can take its
  snapshot, be overtaken by a later change and its publication, and publish the older snapshot
  last (found by the `E` correspondence run on the real endpoint, fixed in /repo f9c66fc).
-/
import IrohModel.C30.TriggersConc
import IrohModel.C30.TriggerTheorems

namespace IrohModel.C30.Triggers

/-- The local-address list of the event is not empty (hypothesis, as `LocOk`). -/
def NoEmptyLocal : Ev → Prop
  | .localAddrs ips r => (ips.isEmpty && r.isNone) = false
  | _ => True

structure CInv (st : CState) : Prop where
  holdOk : ∀ j, st.holder = some j → ∃ d, (st.threads j).pc = .publish d
  pubOnly : ∀ j d, (st.threads j).pc = .publish d → st.holder = some j
  snapFresh : ∀ j d, (st.threads j).pc = .publish d →
    d = dataOf st.sock ∨ ∃ k, (st.threads k).pc = .lock
  fresh : ((dataOf st.sock).isEmpty = false → st.sock.last = some (dataOf st.sock)) ∨
    (∃ k, (st.threads k).pc = .lock) ∨ (∃ k, (st.threads k).pc = .publish (dataOf st.sock))
  locOk : ∀ j, (st.threads j).pc = .change → NoEmptyLocal (st.threads j).ev

@[simp] theorem setT_threads (st : CState) (tid : Nat) (t : TThread) (j : Nat) :
    (setT st tid t).threads j = if j = tid then t else st.threads j := rfl
@[simp] theorem setT_sock (st : CState) (tid : Nat) (t : TThread) : (setT st tid t).sock = st.sock := rfl
@[simp] theorem setT_holder (st : CState) (tid : Nat) (t : TThread) : (setT st tid t).holder = st.holder := rfl

/-- A trigger whose guard says "no publish" did not change anything. -/
theorem applyChange_false (s : Sock) (e : Ev) (hl : NoEmptyLocal e) (h : (applyChange s e).2 = false) :
    (applyChange s e).1 = s := by
  cases e with
  | start => simp [applyChange] at h
  | storeDirect a => simp only [applyChange] at h ⊢; split <;> simp_all
  | localAddrs ips r =>
    simp only [applyChange] at h
    simp only [NoEmptyLocal] at hl
    rw [hl] at h; cases h
  | setUserData u => simp only [applyChange] at h ⊢; split <;> simp_all

theorem dataOf_last (s : Sock) (l : Option EData) : dataOf { s with last := l } = dataOf s := rfl

theorem cstep_inv {st : CState} (h : CInv st) (tid : Nat) : CInv (cstep false st tid) := by
  unfold cstep
  cases hen : cenabled false st tid
  · simpa using h
  · simp only [Bool.not_true, Bool.false_eq_true, if_false]
    rcases ht : st.threads tid with ⟨ev, pc⟩
    cases pc with
    | done => simpa [ht] using h
    | change =>
      have hloc : NoEmptyLocal ev := by simpa [ht] using h.locOk tid (by simp [ht])
      have hnotpub : ∀ d, (st.threads tid).pc ≠ .publish d := by simp [ht]
      cases hr : (applyChange st.sock ev).2
      · -- nothing changed, the thread is finished
        have hs := applyChange_false st.sock ev hloc hr
        simp only [hr, Bool.false_eq_true, if_false, hs]
        refine ⟨?_, ?_, ?_, ?_, ?_⟩
        · intro j hj
          obtain ⟨d, hd⟩ := h.holdOk j hj
          by_cases hjt : j = tid
          · subst hjt; exact absurd hd (hnotpub d)
          · exact ⟨d, by simpa [hjt] using hd⟩
        · intro j d hj
          by_cases hjt : j = tid
          · subst hjt; simp at hj
          · exact h.pubOnly j d (by simpa [hjt] using hj)
        · intro j d hj
          by_cases hjt : j = tid
          · subst hjt; simp at hj
          · rcases h.snapFresh j d (by simpa [hjt] using hj) with h1 | ⟨k, hk⟩
            · exact .inl h1
            · refine .inr ⟨k, ?_⟩
              by_cases hkt : k = tid
              · subst hkt; simp [ht] at hk
              · simpa [hkt] using hk
        · rcases h.fresh with h1 | ⟨k, hk⟩ | ⟨k, hk⟩
          · exact .inl h1
          · refine .inr (.inl ⟨k, ?_⟩)
            by_cases hkt : k = tid
            · subst hkt; simp [ht] at hk
            · simpa [hkt] using hk
          · refine .inr (.inr ⟨k, ?_⟩)
            by_cases hkt : k = tid
            · subst hkt; simp [ht] at hk
            · simpa [hkt] using hk
        · intro j hj
          by_cases hjt : j = tid
          · subst hjt; simp at hj
          · simp only [setT_threads, hjt, if_false] at hj ⊢
            exact h.locOk j hj
      · -- the thread goes on to `publish_my_addr`
        simp only [hr, if_true]
        refine ⟨?_, ?_, ?_, ?_, ?_⟩
        · intro j hj
          obtain ⟨d, hd⟩ := h.holdOk j hj
          by_cases hjt : j = tid
          · subst hjt; exact absurd hd (hnotpub d)
          · exact ⟨d, by simpa [hjt] using hd⟩
        · intro j d hj
          by_cases hjt : j = tid
          · subst hjt; simp at hj
          · exact h.pubOnly j d (by simpa [hjt] using hj)
        · intro j d _
          exact .inr ⟨tid, by simp⟩
        · exact .inr (.inl ⟨tid, by simp⟩)
        · intro j hj
          by_cases hjt : j = tid
          · subst hjt; simp at hj
          · simp only [setT_threads, hjt, if_false] at hj ⊢
            exact h.locOk j hj
    | lock =>
      have hfree : st.holder = none := by
        simpa [cenabled, ht] using hen
      have hnopub : ∀ j d, (st.threads j).pc ≠ .publish d := by
        intro j d hj
        have := h.pubOnly j d hj
        rw [hfree] at this; cases this
      cases hemp : (dataOf st.sock).isEmpty
      · -- snapshot taken, lock held
        simp only [Bool.false_eq_true, if_false]
        refine ⟨?_, ?_, ?_, ?_, ?_⟩
        · intro j hj
          have : j = tid := by simpa using hj.symm
          subst this; exact ⟨dataOf st.sock, by simp⟩
        · intro j d hj
          by_cases hjt : j = tid
          · simp [hjt]
          · exact absurd (by simpa [hjt] using hj) (hnopub j d)
        · intro j d hj
          by_cases hjt : j = tid
          · subst hjt; left; simpa using hj.symm
          · exact absurd (by simpa [hjt] using hj) (hnopub j d)
        · exact .inr (.inr ⟨tid, by simp⟩)
        · intro j hj
          by_cases hjt : j = tid
          · subst hjt; simp at hj
          · simp only [setT_threads, hjt, if_false] at hj ⊢
            exact h.locOk j hj
      · -- nothing to publish: early return
        simp only [if_true]
        refine ⟨?_, ?_, ?_, ?_, ?_⟩
        · intro j hj; simp [hfree] at hj
        · intro j d hj
          by_cases hjt : j = tid
          · subst hjt; simp at hj
          · exact absurd (by simpa [hjt] using hj) (hnopub j d)
        · intro j d hj
          by_cases hjt : j = tid
          · subst hjt; simp at hj
          · exact absurd (by simpa [hjt] using hj) (hnopub j d)
        · left; intro hne; simp [hemp] at hne
        · intro j hj
          by_cases hjt : j = tid
          · subst hjt; simp at hj
          · simp only [setT_threads, hjt, if_false] at hj ⊢
            exact h.locOk j hj
    | publish d =>
      have hhold : st.holder = some tid := h.pubOnly tid d (by simp [ht])
      have honly : ∀ j d', j ≠ tid → (st.threads j).pc ≠ .publish d' := by
        intro j d' hjt hj
        have := h.pubOnly j d' hj
        rw [hhold] at this; exact hjt (Option.some.inj this).symm
      simp only [Bool.false_eq_true, if_false]
      refine ⟨?_, ?_, ?_, ?_, ?_⟩
      · intro j hj; cases hj
      · intro j d' hj
        by_cases hjt : j = tid
        · subst hjt; simp at hj
        · exact absurd (by simpa [hjt] using hj) (honly j d' hjt)
      · intro j d' hj
        by_cases hjt : j = tid
        · subst hjt; simp at hj
        · exact absurd (by simpa [hjt] using hj) (honly j d' hjt)
      · rcases h.snapFresh tid d (by simp [ht]) with hd | ⟨k, hk⟩
        · left; intro _; simp [dataOf_last, hd]
        · refine .inr (.inl ⟨k, ?_⟩)
          by_cases hkt : k = tid
          · subst hkt; simp [ht] at hk
          · simpa [hkt] using hk
      · intro j hj
        by_cases hjt : j = tid
        · subst hjt; simp at hj
        · simp only [setT_threads, hjt, if_false] at hj ⊢
          exact h.locOk j hj

theorem crun_inv {st : CState} (h : CInv st) (sched : List Nat) : CInv (crun false st sched) := by
  induction sched generalizing st with
  | nil => exact h
  | cons tid sched ih => exact ih (cstep_inv h tid)

theorem cinit_inv (s : Sock) (evs : Nat → Option Ev) (hs : Tracks s)
    (hl : ∀ j e, evs j = some e → NoEmptyLocal e) : CInv (cinit s evs) := by
  have hpc : ∀ j, ((cinit s evs).threads j).pc = .change ∨ ((cinit s evs).threads j).pc = .done := by
    intro j; simp only [cinit]; cases evs j <;> simp
  refine ⟨?_, ?_, ?_, ?_, ?_⟩
  · intro j hj; cases hj
  · intro j d hj; rcases hpc j with h | h <;> rw [h] at hj <;> cases hj
  · intro j d hj; rcases hpc j with h | h <;> rw [h] at hj <;> cases hj
  · exact .inl hs
  · intro j hj
    simp only [cinit] at hj ⊢
    cases he : evs j with
    | none => rw [he] at hj; cases hj
    | some e => simpa [he] using hl j e he

/-- **services_track_endpoint_data_concurrent** — see the header. -/
theorem services_track_endpoint_data_concurrent (s : Sock) (hs : Tracks s) (evs : Nat → Option Ev)
    (hl : ∀ j e, evs j = some e → NoEmptyLocal e) (sched : List Nat)
    (hq : CQuiescent (crun false (cinit s evs) sched))
    (hne : (dataOf (crun false (cinit s evs) sched).sock).isEmpty = false) :
    (crun false (cinit s evs) sched).sock.last = some (dataOf (crun false (cinit s evs) sched).sock) := by
  have h := crun_inv (cinit_inv s evs hs hl) sched
  rcases h.fresh with h1 | ⟨k, hk⟩ | ⟨k, hk⟩
  · exact h1 hne
  · rw [hq k] at hk; cases hk
  · rw [hq k] at hk; cases hk

/-! ### Before the repair -/

/-- The race found on the real endpoint: user data `u0` published; concurrently the actor stores
a new direct-address set and the application sets `u2`. -/
def raceState : CState :=
  crun true (cinit { ud := some 0, last := some ⟨[], none, some 0⟩ }
      (fun j => [Ev.storeDirect [9], Ev.setUserData (some 2)][j]?))
    [0, 0, 1, 1, 1, 0]

/-- **unrepaired_publish_snapshot_race** (counterexample) — without the lock: the actor takes its
snapshot (`u0`), the application sets `u2` and publishes it, the actor publishes its older
snapshot last: all triggers are done, the endpoint has `u2`, the services were last given `u0`. -/
theorem unrepaired_publish_snapshot_race :
    (∀ j < 2, (raceState.threads j).pc = .done) ∧
    dataOf raceState.sock = ⟨[9], none, some 2⟩ ∧
    raceState.sock.last = some ⟨[9], none, some 0⟩ := by decide

/-- The same schedule with the lock: the application's publication waits, the services end with `u2`. -/
theorem repaired_same_schedule :
    (crun false (cinit { ud := some 0, last := some ⟨[], none, some 0⟩ }
        (fun j => [Ev.storeDirect [9], Ev.setUserData (some 2)][j]?))
      [0, 0, 1, 1, 1, 0, 1, 1]).sock.last = some ⟨[9], none, some 2⟩ := by decide

end IrohModel.C30.Triggers
