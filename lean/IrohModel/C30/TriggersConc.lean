/-
C30 — concurrent publish triggers.  `Socket::publish_my_addr` runs on whatever thread hits a
trigger (the socket actor for direct-address / local-address changes, the caller's thread for
`set_user_data_for_address_lookup`), so triggers interleave.  Model of the code after the repair
`fix: publish_my_addr snapshot and publication were not atomic` (the function holds
`publish_lock` from its first line to its return):

```
trigger e:     C   apply the state change of `e`; no publish if its guard says so
publish_my_addr:
               L   publish_lock.lock(); snapshot = (direct, relay, user data);
                   all empty → return (unlock)
               P   [pause point `publish_my_addr:publish`]  address_lookup.publish(snapshot); unlock
```
One LTS step per letter; `L` is enabled only while nobody holds `publish_lock`.
`lockFree := true` gives the code BEFORE the repair (no lock: `L` is always enabled).
-/
import IrohModel.C30.Triggers

namespace IrohModel.C30.Triggers

inductive TPc where
  | change
  | lock
  | publish (snapshot : EData)
  | done
deriving DecidableEq, Repr

structure TThread where
  ev : Ev
  pc : TPc
deriving DecidableEq, Repr

structure CState where
  sock : Sock
  /-- holder of `publish_lock` -/
  holder : Option Nat
  threads : Nat → TThread

/-- The state change of a trigger and whether it goes on to `publish_my_addr`. -/
def applyChange (s : Sock) : Ev → Sock × Bool
  | .start => (s, true)
  | .storeDirect a => if a = s.direct then (s, false) else ({ s with direct := a }, true)
  | .localAddrs ips r => ({ s with localIps := ips, relay := r }, !(ips.isEmpty && r.isNone))
  | .setUserData u => if u = s.ud then (s, false) else ({ s with ud := u }, true)

def setT (st : CState) (tid : Nat) (t : TThread) : CState :=
  { st with threads := fun j => if j = tid then t else st.threads j }

def cenabled (lockFree : Bool) (st : CState) (tid : Nat) : Bool :=
  match (st.threads tid).pc with
  | .change => true
  | .lock => lockFree || st.holder.isNone
  | .publish _ => true
  | .done => false

def cstep (lockFree : Bool) (st : CState) (tid : Nat) : CState :=
  let t := st.threads tid
  if !cenabled lockFree st tid then st else
  match t.pc with
  | .change =>
    let r := applyChange st.sock t.ev
    { setT st tid { t with pc := if r.2 then .lock else .done } with sock := r.1 }
  | .lock =>
    if (dataOf st.sock).isEmpty then setT st tid { t with pc := .done }
    else { setT st tid { t with pc := .publish (dataOf st.sock) } with
           holder := if lockFree then st.holder else some tid }
  | .publish d =>
    { setT st tid { t with pc := .done } with
      sock := { st.sock with last := some d }, holder := if lockFree then st.holder else none }
  | .done => st

def crun (lockFree : Bool) (st : CState) : List Nat → CState
  | [] => st
  | tid :: sched => crun lockFree (cstep lockFree st tid) sched

/-- Any number of concurrent triggers (`evs j = none`: no thread `j`) on a socket state. -/
def cinit (s : Sock) (evs : Nat → Option Ev) : CState :=
  { sock := s, holder := none,
    threads := fun j => match evs j with
      | some e => ⟨e, .change⟩
      | none => ⟨.start, .done⟩ }

def CQuiescent (st : CState) : Prop := ∀ j, (st.threads j).pc = .done

end IrohModel.C30.Triggers
