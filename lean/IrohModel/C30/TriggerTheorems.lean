/-
C30 — theorems about the publish triggers (model in `Triggers.lean`).

For EVERY sequence of trigger events after the actor's start:

* `services_track_endpoint_data` — whenever the endpoint's current data (direct addresses,
  home relay, user data) is not all-empty, `last_data` (= what every service holds, by
  `all_services_latest`) is exactly the data built from the CURRENT values;
* `nothing_published_iff_always_empty` — nothing was ever published iff the data has been
  all-empty in every state so far (the early return of `publish_my_addr`);
* `empty_after_nonempty_keeps_last` / `last_is_most_recent_nonempty` — what the code guarantees
  when the data BECOMES all-empty after having been non-empty: nothing is published, the
  services keep (and go on advertising) the data of the most recent non-empty state.

Hypothesis `LocOkAlong`: the local-address list never becomes empty while a home relay is set
(an endpoint with at least one bound IP transport, or one that keeps its relay).  It is needed:
the watcher arm publishes only for a non-empty list, so an endpoint WITHOUT IP transports that
loses its home relay does not publish the loss (`relay_loss_without_ip_not_published`; by
reading — the public API offers no way to make a connected home relay disappear, see props).
-/
import IrohModel.C30.Triggers

namespace IrohModel.C30.Triggers

/-- The hypothesis on a local-address event: an empty list does not take a relay away. -/
def LocOk (s : Sock) : Ev → Prop
  | .localAddrs ips r => (ips.isEmpty && r.isNone) = true → s.relay = none
  | _ => True

def LocOkAlong : Sock → List Ev → Prop
  | _, [] => True
  | s, e :: es => LocOk s e ∧ LocOkAlong (step s e) es

/-- Non-empty current data has been published, as it is now. -/
def Tracks (s : Sock) : Prop := (dataOf s).isEmpty = false → s.last = some (dataOf s)

theorem publish_tracks (s : Sock) : Tracks (publishMyAddr s) := by
  unfold Tracks publishMyAddr
  cases h : (dataOf s).isEmpty
  · simp [dataOf]
  · simp [h]

theorem step_tracks (s : Sock) (e : Ev) (h : Tracks s) (hl : LocOk s e) : Tracks (step s e) := by
  cases e with
  | start => exact publish_tracks s
  | storeDirect a =>
    simp only [step]
    split
    · exact h
    · exact publish_tracks _
  | localAddrs ips r =>
    simp only [step]
    split
    · rename_i hc
      have hr : s.relay = none := hl hc
      have hrn : r = none := by
        simp only [Bool.and_eq_true, Option.isNone_iff_eq_none] at hc; exact hc.2
      subst hrn
      intro hne
      have := h (by simpa [dataOf, hr] using hne)
      simpa [dataOf, hr] using this
    · exact publish_tracks _
  | setUserData u =>
    simp only [step]
    split
    · exact h
    · exact publish_tracks _

theorem run_tracks (s : Sock) (es : List Ev) (h : Tracks s) (hl : LocOkAlong s es) : Tracks (run s es) := by
  induction es generalizing s with
  | nil => exact h
  | cons e es ih => exact ih _ (step_tracks s e h hl.1) hl.2

/-- **services_track_endpoint_data** — after the start and any sequence of trigger events, if
the endpoint currently has anything to publish, `last_data` is exactly its current data. -/
theorem services_track_endpoint_data (es : List Ev) (hl : LocOkAlong {} (.start :: es))
    (hne : (dataOf (run {} (.start :: es))).isEmpty = false) :
    (run {} (.start :: es)).last = some (dataOf (run {} (.start :: es))) :=
  run_tracks {} (.start :: es) (by intro h; simp [dataOf, EData.isEmpty] at h) hl hne

/-- **empty_after_nonempty_keeps_last** — a step that leaves the data all-empty publishes nothing:
`last_data` (and with it every service) keeps what it had. -/
theorem empty_after_nonempty_keeps_last (s : Sock) (e : Ev) (h : (dataOf (step s e)).isEmpty = true) :
    (step s e).last = s.last := by
  have hp : ∀ s' : Sock, (dataOf (publishMyAddr s')).isEmpty = true → (publishMyAddr s').last = s'.last := by
    intro s' h'
    unfold publishMyAddr at h' ⊢
    cases hc : (dataOf s').isEmpty
    · rw [hc] at h'; simp [dataOf] at h' hc; simp [dataOf, hc] at h'
    · simp
  cases e with
  | start => exact hp s h
  | storeDirect a =>
    simp only [step] at h ⊢
    split
    · rfl
    · rename_i hc; simp only [hc, if_false] at h; exact hp _ h
  | localAddrs ips r =>
    simp only [step] at h ⊢
    split
    · rfl
    · rename_i hc; simp only [hc] at h; exact hp _ h
  | setUserData u =>
    simp only [step] at h ⊢
    split
    · rfl
    · rename_i hc; simp only [hc, if_false] at h; exact hp _ h

/-- The data of the most recent state (after a step) whose data was not all-empty; `g` if none. -/
def mostRecent (g : Option EData) (s : Sock) : List Ev → Option EData
  | [] => g
  | e :: es =>
    let s' := step s e
    mostRecent (if (dataOf s').isEmpty then g else some (dataOf s')) s' es

theorem run_last_mostRecent (s : Sock) (es : List Ev) (h : Tracks s) (hl : LocOkAlong s es) :
    (run s es).last = mostRecent s.last s es := by
  induction es generalizing s with
  | nil => rfl
  | cons e es ih =>
    have ht := step_tracks s e h hl.1
    simp only [run, mostRecent]
    rw [ih _ ht hl.2]
    congr 1
    cases hc : (dataOf (step s e)).isEmpty
    · simpa using ht hc
    · simpa using empty_after_nonempty_keeps_last s e hc

/-- **last_is_most_recent_nonempty** — at any time `last_data` is the data of the most recent
non-empty state of the endpoint (current, if the current data is not all-empty). -/
theorem last_is_most_recent_nonempty (es : List Ev) (hl : LocOkAlong {} (.start :: es)) :
    (run {} (.start :: es)).last = mostRecent none {} (.start :: es) :=
  run_last_mostRecent {} (.start :: es) (by intro h; simp [dataOf, EData.isEmpty] at h) hl

/-- Every state reached along the run (after each step) has all-empty data. -/
def AllEmpty : Sock → List Ev → Prop
  | _, [] => True
  | s, e :: es => (dataOf (step s e)).isEmpty = true ∧ AllEmpty (step s e) es

theorem mostRecent_none_iff (g : Option EData) (s : Sock) (es : List Ev) :
    mostRecent g s es = none ↔ g = none ∧ AllEmpty s es := by
  induction es generalizing g s with
  | nil => simp [mostRecent, AllEmpty]
  | cons e es ih =>
    simp only [mostRecent, AllEmpty]
    rw [ih]
    cases hc : (dataOf (step s e)).isEmpty <;> simp

/-- **nothing_published_iff_always_empty** — nothing was ever published iff direct addresses,
relay and user data have been empty in every state so far. -/
theorem nothing_published_iff_always_empty (es : List Ev) (hl : LocOkAlong {} (.start :: es)) :
    (run {} (.start :: es)).last = none ↔ AllEmpty {} (.start :: es) := by
  rw [last_is_most_recent_nonempty es hl, mostRecent_none_iff]
  simp

/-- Without the hypothesis: a relay-only endpoint with user data loses its home relay; the
local-address list is empty, so nothing is published and the services keep the relay url. -/
theorem relay_loss_without_ip_not_published :
    let s := run {} [.start, .setUserData (some 7), .localAddrs [] (some 1), .localAddrs [] none]
    dataOf s = ⟨[], none, some 7⟩ ∧ s.last = some ⟨[], some 1, some 7⟩ := by decide

/-! ### Non-vacuity -/

/-- relay up, external address added and removed again: the services follow. -/
example :
    let es := [Ev.localAddrs [] (some 1), .storeDirect [9], .storeDirect []]
    LocOkAlong {} (.start :: es) ∧ (run {} (.start :: es)).last = some ⟨[], some 1, none⟩ := by
  refine ⟨?_, by decide⟩
  simp [LocOkAlong, LocOk, step, publishMyAddr, dataOf, EData.isEmpty]

/-- user data set and cleared on an endpoint with nothing else: the services keep the user data. -/
example : (run {} [.start, .setUserData (some 3), .setUserData none]).last = some ⟨[], none, some 3⟩ := by
  decide

end IrohModel.C30.Triggers
