/-
C30 — the publish TRIGGERS: when does the socket hand its address data to
`AddressLookupServices::publish`?  Model of `iroh/src/socket.rs`:

* `Socket::publish_my_addr`: builds `EndpointData` from the CURRENT direct addresses
  (`direct_addrs.sockaddrs()`), home relay (`my_relay()`, read from the local-address watcher)
  and user data; returns early — publishes nothing — when all three are empty;
* its callers (all of them, `grep publish_my_addr`):
  `Actor::run` once at start; `store_direct_addresses` when `direct_addrs.update` reports a
  change; `set_user_data_for_address_lookup` when the value changed; the
  `local_addrs_watcher.updated()` arm of `Actor::run` when the new local-address list is not
  empty (this is how a home-relay change is published).

`last` is `AddressLookupServices::last_data`; by `all_services_latest` (Theorems.lean) it is
also what every registered service was given last.  Ids stand for addresses / relay urls /
user-data strings; the registry-wide address filter is the `f` of the base model and is left
out here (identity).
-/
namespace IrohModel.C30.Triggers

/-- `EndpointData`: ip addresses, relay url, user data. -/
structure EData where
  ips : List Nat
  relay : Option Nat
  ud : Option Nat
deriving DecidableEq, Repr

def EData.isEmpty (d : EData) : Bool := d.ips.isEmpty && d.relay.isNone && d.ud.isNone

structure Sock where
  /-- `DiscoveredDirectAddrs` -/
  direct : List Nat := []
  /-- local addresses of the bound IP transports (part of the local-address watcher's value) -/
  localIps : List Nat := []
  /-- home relay (the `Addr::Relay` entry of the local-address watcher's value) -/
  relay : Option Nat := none
  /-- `address_lookup_user_data` -/
  ud : Option Nat := none
  /-- `AddressLookupServices::last_data` -/
  last : Option EData := none
deriving DecidableEq, Repr

/-- The endpoint's current address data. -/
def dataOf (s : Sock) : EData := ⟨s.direct, s.relay, s.ud⟩

/-- `publish_my_addr` -/
def publishMyAddr (s : Sock) : Sock :=
  if (dataOf s).isEmpty then s else { s with last := some (dataOf s) }

inductive Ev where
  /-- `Actor::run` starts: "ensure we are doing an initial publish of our addresses" -/
  | start
  /-- `store_direct_addresses(addrs)` -/
  | storeDirect (addrs : List Nat)
  /-- the actor sees a new value of the local-address watcher -/
  | localAddrs (ips : List Nat) (relay : Option Nat)
  /-- `set_user_data_for_address_lookup(u)` -/
  | setUserData (u : Option Nat)
deriving DecidableEq, Repr

def step (s : Sock) : Ev → Sock
  | .start => publishMyAddr s
  | .storeDirect a => if a = s.direct then s else publishMyAddr { s with direct := a }
  | .localAddrs ips r =>
    let s' := { s with localIps := ips, relay := r }
    if ips.isEmpty && r.isNone then s' else publishMyAddr s'
  | .setUserData u => if u = s.ud then s else publishMyAddr { s with ud := u }

def run (s : Sock) : List Ev → Sock
  | [] => s
  | e :: es => run (step s e) es

end IrohModel.C30.Triggers
