/-
C30 — the inductive invariant of the repaired `add_boxed` / `publish` LTS and its
preservation by every step of every thread.
-/
import IrohModel.C30.Model

namespace IrohModel.C30

/-- The thread is inside `publish`'s critical section (holds `last_data` exclusively). -/
def Thread.inPub (t : Thread) : Bool :=
  match t.op, t.pc with
  | .publish _, .pLockSvc => true
  | .publish _, .pSvc _ => true
  | .publish _, .pStore => true
  | _, _ => false

/-- The thread is inside `add_boxed`'s critical section (holds `last_data` shared). -/
def Thread.inAdd (t : Thread) : Bool :=
  match t.op, t.pc with
  | .add _, .aLockSvc => true
  | _, _ => false

/-- What the `k`-th registered service must have been given last, given how far the publisher
inside the critical section (if any) has got. -/
def expected (f : Data → Data) (st : State) (k : Nat) : Option Data :=
  match st.lastW with
  | none => st.last
  | some j =>
    match (st.threads j).op, (st.threads j).pc with
    | .publish d, .pSvc i => if k < i then some (f d) else st.last
    | .publish d, .pStore => some (f d)
    | _, _ => st.last

structure Inv (f : Data → Data) (st : State) : Prop where
  /-- the holder of the exclusive lock is inside `publish` -/
  wOk : ∀ j, st.lastW = some j → (st.threads j).inPub = true
  /-- whoever is inside `publish` is the holder -/
  wOnly : ∀ j, (st.threads j).inPub = true → st.lastW = some j
  /-- the shared holders are exactly the threads inside `add_boxed` -/
  rOk : ∀ j, j ∈ st.lastR ↔ (st.threads j).inAdd = true
  /-- readers/writer exclusion of `last_data` -/
  excl : st.lastW.isSome = true → st.lastR = []
  /-- the loop index of a publisher is in range -/
  svcIdx : ∀ j i, (st.threads j).inPub = true → (st.threads j).pc = .pSvc i → i < st.services.length
  /-- registered services -/
  svcs : ∀ k (h : k < st.services.length), (st.services[k]).latest = expected f st k
  /-- services being added -/
  adds : ∀ j, (st.threads j).inAdd = true → (st.threads j).svc.latest = st.last
  /-- a service about to be added has been given nothing yet -/
  fresh : ∀ j, (st.threads j).pc = .aLockLast → (st.threads j).svc.log = []

@[simp] theorem setThread_threads (st : State) (tid : Nat) (t : Thread) (j : Nat) :
    (st.setThread tid t).threads j = if j = tid then t else st.threads j := rfl

@[simp] theorem setPc_threads (st : State) (tid : Nat) (pc : Pc) (j : Nat) :
    (st.setPc tid pc).threads j = if j = tid then { st.threads tid with pc := pc } else st.threads j := rfl

@[simp] theorem setThread_services (st : State) (tid : Nat) (t : Thread) : (st.setThread tid t).services = st.services := rfl
@[simp] theorem setThread_last (st : State) (tid : Nat) (t : Thread) : (st.setThread tid t).last = st.last := rfl
@[simp] theorem setThread_lastW (st : State) (tid : Nat) (t : Thread) : (st.setThread tid t).lastW = st.lastW := rfl
@[simp] theorem setThread_lastR (st : State) (tid : Nat) (t : Thread) : (st.setThread tid t).lastR = st.lastR := rfl
@[simp] theorem setPc_services (st : State) (tid : Nat) (pc : Pc) : (st.setPc tid pc).services = st.services := rfl
@[simp] theorem setPc_last (st : State) (tid : Nat) (pc : Pc) : (st.setPc tid pc).last = st.last := rfl
@[simp] theorem setPc_lastW (st : State) (tid : Nat) (pc : Pc) : (st.setPc tid pc).lastW = st.lastW := rfl
@[simp] theorem setPc_lastR (st : State) (tid : Nat) (pc : Pc) : (st.setPc tid pc).lastR = st.lastR := rfl

theorem latest_append (s : Svc) (x : Data) : Svc.latest { s with log := s.log ++ [x] } = some x := by
  simp [Svc.latest]

theorem giveAt_length (ss : List Svc) (i : Nat) (x : Data) : (giveAt ss i x).length = ss.length := by
  simp [giveAt]

theorem giveAt_latest (ss : List Svc) (i : Nat) (x : Data) (k : Nat) (h : k < ss.length) :
    ((giveAt ss i x)[k]'(by simpa [giveAt_length] using h)).latest = if k = i then some x else (ss[k]).latest := by
  unfold giveAt
  rw [List.getElem_modify]
  by_cases hk : i = k
  · subst hk; simp [latest_append]
  · have : ¬ k = i := fun h => hk h.symm
    simp [hk, this]

/-- A thread that is not inside `publish` is not the holder. -/
theorem Inv.not_holder {f : Data → Data} {st : State} (h : Inv f st) (j : Nat)
    (hj : (st.threads j).inPub = false) : st.lastW ≠ some j := by
  intro hw
  rw [h.wOk j hw] at hj; cases hj

theorem inPub_of (t : Thread) (d : Data) (hop : t.op = .publish d) :
    t.inPub = (t.pc = .pLockSvc ∨ (∃ i, t.pc = .pSvc i) ∨ t.pc = .pStore) := by
  obtain ⟨op, pc, svc⟩ := t
  simp only at hop; subst hop
  cases pc <;> simp [Thread.inPub]

theorem inAdd_publish (t : Thread) (d : Data) (hop : t.op = .publish d) : t.inAdd = false := by
  obtain ⟨op, pc, svc⟩ := t
  simp only at hop; subst hop
  cases pc <;> simp [Thread.inAdd]

theorem inPub_add (t : Thread) (s : Nat) (hop : t.op = .add s) : t.inPub = false := by
  obtain ⟨op, pc, svc⟩ := t
  simp only at hop; subst hop
  cases pc <;> simp [Thread.inPub]

/-- A publisher inside the critical section is the holder of the exclusive lock; nobody else is
inside `publish`, nobody is inside `add_boxed`. -/
theorem Inv.holder {f : Data → Data} {st : State} (h : Inv f st) (tid : Nat)
    (hin : (st.threads tid).inPub = true) :
    st.lastW = some tid ∧ (∀ j, j ≠ tid → (st.threads j).inPub = false) ∧
      (∀ j, (st.threads j).inAdd = false) := by
  have hw := h.wOnly tid hin
  refine ⟨hw, ?_, ?_⟩
  · intro j hj
    cases hjp : (st.threads j).inPub
    · rfl
    · have := h.wOnly j hjp
      rw [hw] at this; exact absurd (Option.some.inj this).symm hj
  · intro j
    cases hja : (st.threads j).inAdd
    · rfl
    · have := (h.rOk j).2 hja
      rw [h.excl (by simp [hw])] at this; cases this

/-- Nobody is inside `publish` when the exclusive lock is free. -/
theorem Inv.no_pub {f : Data → Data} {st : State} (h : Inv f st) (hw : st.lastW = none) :
    ∀ j, (st.threads j).inPub = false := by
  intro j
  cases hj : (st.threads j).inPub
  · rfl
  · rw [h.wOnly j hj] at hw; cases hw

/-- `publish:lock-last-write`: take `last_data` exclusively. -/
theorem inv_pLockLast {f : Data → Data} {st : State} (h : Inv f st) (tid : Nat) (d : Data) (svc : Svc)
    (ht : st.threads tid = ⟨.publish d, .pLockLast, svc⟩)
    (hw : st.lastW = none) (hr : st.lastR = []) :
    Inv f { st.setPc tid .pLockSvc with lastW := some tid } := by
  have hnone := h.no_pub hw
  refine ⟨?_, ?_, ?_, ?_, ?_, ?_, ?_, ?_⟩
  · intro j hj
    simp only [Option.some.injEq] at hj; subst hj
    simp [Thread.inPub, ht]
  · intro j hj
    by_cases hjt : j = tid
    · simp [hjt]
    · simp [hjt, hnone j] at hj
  · intro j
    by_cases hjt : j = tid
    · subst hjt
      simp [hr, Thread.inAdd, ht]
    · simpa [hjt] using h.rOk j
  · intro _; exact hr
  · intro j i hj hpcj
    by_cases hjt : j = tid
    · subst hjt; simp at hpcj
    · simp [hjt, hnone j] at hj
  · intro k hk
    have := h.svcs k hk
    simp only [expected, hw] at this
    simp [expected, ht]
    exact this
  · intro j hj
    by_cases hjt : j = tid
    · subst hjt; simp [Thread.inAdd, ht] at hj
    · simp only [setPc_threads, hjt, if_false] at hj ⊢
      exact h.adds j hj
  · intro j hj
    by_cases hjt : j = tid
    · subst hjt; simp at hj
    · simp only [setPc_threads, hjt, if_false] at hj ⊢
      exact h.fresh j hj

/-- `publish:lock-services-read`: take `services` shared, enter the loop. -/
theorem inv_pLockSvc {f : Data → Data} {st : State} (h : Inv f st) (tid : Nat) (d : Data) (svc : Svc)
    (ht : st.threads tid = ⟨.publish d, .pLockSvc, svc⟩) (r : List Nat) :
    Inv f { st.setPc tid (if st.services.isEmpty then .pStore else .pSvc 0) with svcR := r } := by
  have hin : (st.threads tid).inPub = true := by simp [ht, Thread.inPub]
  obtain ⟨hw, hothers, hnoadd⟩ := h.holder tid hin
  refine ⟨?_, ?_, ?_, ?_, ?_, ?_, ?_, ?_⟩
  · intro j hj
    have : j = tid := by simpa [hw] using hj.symm
    subst this
    cases hs : st.services.isEmpty <;> simp [ht, Thread.inPub, hs]
  · intro j hj
    by_cases hjt : j = tid
    · subst hjt; simpa using hw
    · simp [hjt, hothers j hjt] at hj
  · intro j
    by_cases hjt : j = tid
    · subst hjt
      have h1 := h.rOk j
      simp only [ht, Thread.inAdd] at h1
      cases hs : st.services.isEmpty <;> simpa [ht, Thread.inAdd, hs] using h1
    · simpa [hjt] using h.rOk j
  · simpa using h.excl
  · intro j i hj hpcj
    by_cases hjt : j = tid
    · subst hjt
      cases hs : st.services.isEmpty
      · simp [ht, hs] at hpcj
        subst hpcj
        cases hss : st.services with
        | nil => simp [hss] at hs
        | cons a b => simp [hss]
      · simp [ht, hs] at hpcj
    · simp [hjt, hothers j hjt] at hj
  · intro k hk
    have hk' : k < st.services.length := hk
    have := h.svcs k hk'
    simp only [expected, hw, ht] at this
    cases hs : st.services.isEmpty
    · simp [expected, hw, ht, hs]; exact this
    · simp at hs; simp [hs] at hk'
  · intro j hj
    by_cases hjt : j = tid
    · subst hjt
      cases hs : st.services.isEmpty <;> simp [ht, Thread.inAdd, hs] at hj
    · simp only [setPc_threads, hjt, if_false] at hj ⊢
      exact h.adds j hj
  · intro j hj
    by_cases hjt : j = tid
    · subst hjt
      cases hs : st.services.isEmpty <;> simp [ht, hs] at hj
    · simp only [setPc_threads, hjt, if_false] at hj ⊢
      exact h.fresh j hj

/-- `publish:service`: give the data to `services[i]`, move on. -/
theorem inv_pSvc {f : Data → Data} {st : State} (h : Inv f st) (tid : Nat) (d : Data) (svc : Svc) (i : Nat)
    (ht : st.threads tid = ⟨.publish d, .pSvc i, svc⟩) :
    Inv f { (st.setPc tid (if i + 1 < st.services.length then .pSvc (i + 1) else .pStore)) with
            services := giveAt st.services i (f d) } := by
  have hin : (st.threads tid).inPub = true := by simp [ht, Thread.inPub]
  obtain ⟨hw, hothers, hnoadd⟩ := h.holder tid hin
  have hi : i < st.services.length := h.svcIdx tid i hin (by simp [ht])
  refine ⟨?_, ?_, ?_, ?_, ?_, ?_, ?_, ?_⟩
  · intro j hj
    have : j = tid := by simpa [hw] using hj.symm
    subst this
    by_cases hs : i + 1 < st.services.length <;> simp [ht, Thread.inPub, hs]
  · intro j hj
    by_cases hjt : j = tid
    · subst hjt; simpa using hw
    · simp [hjt, hothers j hjt] at hj
  · intro j
    by_cases hjt : j = tid
    · subst hjt
      have h1 := h.rOk j
      simp only [ht, Thread.inAdd] at h1
      by_cases hs : i + 1 < st.services.length <;> simpa [ht, Thread.inAdd, hs] using h1
    · simpa [hjt] using h.rOk j
  · simpa using h.excl
  · intro j i' hj hpcj
    by_cases hjt : j = tid
    · subst hjt
      by_cases hs : i + 1 < st.services.length
      · simp [ht, hs] at hpcj
        subst hpcj
        simpa [giveAt_length] using hs
      · simp [ht, hs] at hpcj
    · simp [hjt, hothers j hjt] at hj
  · intro k hk
    have hk' : k < st.services.length := by simpa [giveAt_length] using hk
    have hold := h.svcs k hk'
    simp only [expected, hw, ht] at hold
    have hnew := giveAt_latest st.services i (f d) k hk'
    show ((giveAt st.services i (f d))[k]'_).latest = _
    rw [hnew]
    by_cases hs : i + 1 < st.services.length
    · simp only [expected, setPc_lastW, setPc_last, hw, ht, hs, setPc_threads, if_true]
      by_cases hki : k = i
      · simp [hki]
      · by_cases hlt : k < i
        · have : k < i + 1 := by omega
          simp [hki, hold, hlt, this]
        · have : ¬ k < i + 1 := by omega
          simp [hki, hold, hlt, this]
    · simp only [expected, setPc_lastW, setPc_last, hw, ht, hs, setPc_threads, if_true, if_false]
      by_cases hki : k = i
      · simp [hki]
      · have hlt : k < i := by omega
        simp [hki, hold, hlt]
  · intro j hj
    by_cases hjt : j = tid
    · subst hjt
      by_cases hs : i + 1 < st.services.length <;> simp [ht, Thread.inAdd, hs] at hj
    · simp only [setPc_threads, hjt, if_false] at hj ⊢
      exact h.adds j hj
  · intro j hj
    by_cases hjt : j = tid
    · subst hjt
      by_cases hs : i + 1 < st.services.length <;> simp [ht, hs] at hj
    · simp only [setPc_threads, hjt, if_false] at hj ⊢
      exact h.fresh j hj

/-- `publish:store`: store the data as the last published, release both locks. -/
theorem inv_pStore {f : Data → Data} {st : State} (h : Inv f st) (tid : Nat) (d : Data) (svc : Svc)
    (ht : st.threads tid = ⟨.publish d, .pStore, svc⟩) (r : List Nat) :
    Inv f { st.setPc tid .done with last := some (f d), lastW := none, svcR := r } := by
  have hin : (st.threads tid).inPub = true := by simp [ht, Thread.inPub]
  obtain ⟨hw, hothers, hnoadd⟩ := h.holder tid hin
  refine ⟨?_, ?_, ?_, ?_, ?_, ?_, ?_, ?_⟩
  · intro j hj; cases hj
  · intro j hj
    by_cases hjt : j = tid
    · subst hjt; simp [ht, Thread.inPub] at hj
    · simp [hjt, hothers j hjt] at hj
  · intro j
    by_cases hjt : j = tid
    · subst hjt
      have h1 := h.rOk j
      simp only [ht, Thread.inAdd] at h1
      simpa [ht, Thread.inAdd] using h1
    · simpa [hjt] using h.rOk j
  · intro hc; cases hc
  · intro j i hj hpcj
    by_cases hjt : j = tid
    · subst hjt; simp [ht, Thread.inPub] at hj
    · simp [hjt, hothers j hjt] at hj
  · intro k hk
    have hk' : k < st.services.length := hk
    have := h.svcs k hk'
    simp only [expected, hw, ht] at this
    simpa [expected] using this
  · intro j hj
    by_cases hjt : j = tid
    · subst hjt; simp [ht, Thread.inAdd] at hj
    · simp [hjt, hnoadd j] at hj
  · intro j hj
    by_cases hjt : j = tid
    · subst hjt; simp at hj
    · simp only [setPc_threads, hjt, if_false] at hj ⊢
      exact h.fresh j hj

/-- `add:lock-last-read`: take `last_data` shared, give the last published data to the new service. -/
theorem inv_aLockLast {f : Data → Data} {st : State} (h : Inv f st) (tid : Nat) (sid : Nat) (svc : Svc)
    (ht : st.threads tid = ⟨.add sid, .aLockLast, svc⟩) (hw : st.lastW = none) :
    Inv f { st.setThread tid ⟨.add sid, .aLockSvc,
              match st.last with
              | some x => { svc with log := svc.log ++ [x] }
              | none => svc⟩ with lastR := tid :: st.lastR } := by
  have hnone := h.no_pub hw
  have hfresh : svc.log = [] := by simpa [ht] using h.fresh tid (by simp [ht])
  refine ⟨?_, ?_, ?_, ?_, ?_, ?_, ?_, ?_⟩
  · intro j hj
    simp only [setThread_lastW, hw] at hj; cases hj
  · intro j hj
    by_cases hjt : j = tid
    · subst hjt; simp [Thread.inPub] at hj
    · simp [hjt, hnone j] at hj
  · intro j
    by_cases hjt : j = tid
    · subst hjt; simp [Thread.inAdd]
    · have := h.rOk j
      simp [hjt, this]
  · intro hc
    simp only [setThread_lastW, hw] at hc; cases hc
  · intro j i hj hpcj
    by_cases hjt : j = tid
    · subst hjt; simp [Thread.inPub] at hj
    · simp [hjt, hnone j] at hj
  · intro k hk
    have := h.svcs k hk
    simp only [expected, hw] at this
    simp only [expected, setThread_lastW, setThread_last, hw]
    exact this
  · intro j hj
    by_cases hjt : j = tid
    · subst hjt
      simp only [setThread_threads, if_true, setThread_last]
      cases hl : st.last with
      | none => simp [Svc.latest, hfresh]
      | some x => simp [Svc.latest]
    · simp only [setThread_threads, hjt, if_false] at hj ⊢
      exact h.adds j hj
  · intro j hj
    by_cases hjt : j = tid
    · subst hjt; simp at hj
    · simp only [setThread_threads, hjt, if_false] at hj ⊢
      exact h.fresh j hj

/-- `add:lock-services-write`: register the service, release `last_data`. -/
theorem inv_aLockSvc {f : Data → Data} {st : State} (h : Inv f st) (tid : Nat) (sid : Nat) (svc : Svc)
    (ht : st.threads tid = ⟨.add sid, .aLockSvc, svc⟩) :
    Inv f { st.setPc tid .done with services := st.services ++ [svc],
                                    lastR := st.lastR.filter (· != tid) } := by
  have hin : (st.threads tid).inAdd = true := by simp [ht, Thread.inAdd]
  have hmem : tid ∈ st.lastR := (h.rOk tid).2 hin
  have hw : st.lastW = none := by
    cases hl : st.lastW with
    | none => rfl
    | some j =>
      have := h.excl (by simp [hl])
      rw [this] at hmem; cases hmem
  have hnone := h.no_pub hw
  have hsvc : svc.latest = st.last := by simpa [ht] using h.adds tid hin
  refine ⟨?_, ?_, ?_, ?_, ?_, ?_, ?_, ?_⟩
  · intro j hj
    simp only [setPc_lastW, hw] at hj; cases hj
  · intro j hj
    by_cases hjt : j = tid
    · subst hjt; simp [ht, Thread.inPub] at hj
    · simp [hjt, hnone j] at hj
  · intro j
    by_cases hjt : j = tid
    · subst hjt; simp [ht, Thread.inAdd]
    · have := h.rOk j
      simp [hjt, this]
  · intro hc
    simp only [setPc_lastW, hw] at hc; cases hc
  · intro j i hj hpcj
    by_cases hjt : j = tid
    · subst hjt; simp [ht, Thread.inPub] at hj
    · simp [hjt, hnone j] at hj
  · intro k hk
    simp only [expected, setPc_lastW, setPc_last, hw]
    have hk2 : k < (st.services ++ [svc]).length := hk
    show ((st.services ++ [svc])[k]'hk2).latest = st.last
    by_cases hlt : k < st.services.length
    · rw [List.getElem_append_left hlt]
      have := h.svcs k hlt
      simpa [expected, hw] using this
    · have hk3 : k = st.services.length := by
        simp at hk2; omega
      subst hk3
      simp [hsvc]
  · intro j hj
    by_cases hjt : j = tid
    · subst hjt; simp [ht, Thread.inAdd] at hj
    · simp only [setPc_threads, hjt, if_false] at hj ⊢
      exact h.adds j hj
  · intro j hj
    by_cases hjt : j = tid
    · subst hjt; simp at hj
    · simp only [setPc_threads, hjt, if_false] at hj ⊢
      exact h.fresh j hj

/-- Every step of every thread preserves the invariant. -/
theorem step_inv {f : Data → Data} {st : State} (h : Inv f st) (tid : Nat) : Inv f (step f st tid) := by
  unfold step
  cases hen : enabled st tid
  · simpa using h
  · simp only [Bool.not_true, Bool.false_eq_true, if_false]
    rcases ht : st.threads tid with ⟨op, pc, svc⟩
    cases op with
    | publish d =>
      cases pc with
      | pLockLast =>
        simp only [enabled, ht, Bool.and_eq_true, Option.isNone_iff_eq_none, List.isEmpty_iff] at hen
        exact inv_pLockLast h tid d svc ht hen.1 hen.2
      | pLockSvc => exact inv_pLockSvc h tid d svc ht _
      | pSvc i => exact inv_pSvc h tid d svc i ht
      | pStore => exact inv_pStore h tid d svc ht _
      | aLockLast => exact h
      | aLockSvc => exact h
      | done => exact h
    | add sid =>
      cases pc with
      | aLockLast =>
        simp only [enabled, ht, Option.isNone_iff_eq_none] at hen
        exact inv_aLockLast h tid sid svc ht hen
      | aLockSvc => exact inv_aLockSvc h tid sid svc ht
      | pLockLast => exact h
      | pLockSvc => exact h
      | pSvc i => exact h
      | pStore => exact h
      | done => exact h

/-- The invariant holds along every schedule. -/
theorem run_inv {f : Data → Data} {st : State} (h : Inv f st) (sched : List Nat) : Inv f (run f st sched) := by
  induction sched generalizing st with
  | nil => exact h
  | cons tid sched ih => exact ih (step_inv h tid)

/-- A consistent sequential registry with any set of threads about to start satisfies the invariant. -/
theorem initWith_inv (f : Data → Data) (services : List Svc) (last : Option Data) (ops : Nat → Option Op)
    (hcons : ∀ s ∈ services, s.latest = last) : Inv f (State.initWith services last ops) := by
  have hpc : ∀ j, ((State.initWith services last ops).threads j).inPub = false ∧
      ((State.initWith services last ops).threads j).inAdd = false ∧
      ((State.initWith services last ops).threads j).svc.log = [] := by
    intro j
    simp only [State.initWith]
    cases ops j with
    | none => simp [Thread.idle, Thread.inPub, Thread.inAdd]
    | some op => cases op <;> simp [Thread.start, Thread.inPub, Thread.inAdd]
  refine ⟨?_, ?_, ?_, ?_, ?_, ?_, ?_, ?_⟩
  · intro j hj; cases hj
  · intro j hj; rw [(hpc j).1] at hj; cases hj
  · intro j; rw [(hpc j).2.1]; simp [State.initWith]
  · intro hc; cases hc
  · intro j i hj; rw [(hpc j).1] at hj; cases hj
  · intro k hk
    simp only [expected, State.initWith]
    exact hcons _ (List.getElem_mem _)
  · intro j hj; rw [(hpc j).2.1] at hj; cases hj
  · intro j _; exact (hpc j).2.2

/-- At quiescence the invariant says: every registered service was last given the last published data. -/
theorem Inv.quiescent_latest {f : Data → Data} {st : State} (h : Inv f st) (hq : Quiescent st) :
    allServicesLatest st := by
  have hw : st.lastW = none := by
    cases hl : st.lastW with
    | none => rfl
    | some j =>
      have := h.wOk j hl
      have hd := hq j
      rcases ht : st.threads j with ⟨op, pc, svc⟩
      simp only [ht] at hd this
      subst hd
      cases op <;> simp [Thread.inPub] at this
  intro s hs
  obtain ⟨k, hk, rfl⟩ := List.getElem_of_mem hs
  have := h.svcs k hk
  simpa [expected, hw] using this

/-! ### Progress: the lock nesting of the repair can not deadlock -/

/-- Operation and program counter of a thread fit together. -/
def Thread.wf (t : Thread) : Bool :=
  match t.op, t.pc with
  | .publish _, .aLockLast => false
  | .publish _, .aLockSvc => false
  | .add _, .pLockLast => false
  | .add _, .pLockSvc => false
  | .add _, .pSvc _ => false
  | .add _, .pStore => false
  | _, _ => true

structure Wf (st : State) : Prop where
  opPc : ∀ j, (st.threads j).wf = true
  /-- only publishers inside their critical section hold `services` shared -/
  svcROk : ∀ j, j ∈ st.svcR → (st.threads j).inPub = true

theorem step_wf (f : Data → Data) (st : State) (tid : Nat) (h : Wf st) : Wf (step f st tid) := by
  unfold step
  cases hen : enabled st tid
  · simpa using h
  · simp only [Bool.not_true, Bool.false_eq_true, if_false]
    have hwf := h.opPc tid
    rcases ht : st.threads tid with ⟨op, pc, svc⟩
    have hsv : ∀ j, j ≠ tid → j ∈ st.svcR → (st.threads j).inPub = true := fun j _ hj => h.svcROk j hj
    have hself := h.svcROk tid
    rw [ht] at hwf hself
    cases op with
    | publish d =>
      cases pc with
      | pLockLast =>
        refine ⟨?_, ?_⟩
        · intro j; by_cases hj : j = tid
          · subst hj; simp [ht, Thread.wf]
          · simpa [hj] using h.opPc j
        · intro j hj; by_cases hjt : j = tid
          · subst hjt; simp [ht, Thread.inPub]
          · simpa [hjt] using hsv j hjt hj
      | pLockSvc =>
        refine ⟨?_, ?_⟩
        · intro j; by_cases hj : j = tid
          · subst hj; cases hs : st.services.isEmpty <;> simp [ht, Thread.wf]
          · simpa [hj] using h.opPc j
        · intro j hj; by_cases hjt : j = tid
          · subst hjt; cases hs : st.services.isEmpty <;> simp [ht, Thread.inPub]
          · have : j ∈ st.svcR := by simpa [hjt] using hj
            simpa [hjt] using hsv j hjt this
      | pSvc i =>
        refine ⟨?_, ?_⟩
        · intro j; by_cases hj : j = tid
          · subst hj; by_cases hs : i + 1 < st.services.length <;> simp [ht, Thread.wf, hs]
          · simpa [hj] using h.opPc j
        · intro j hj; by_cases hjt : j = tid
          · subst hjt; by_cases hs : i + 1 < st.services.length <;> simp [ht, Thread.inPub, hs]
          · simpa [hjt] using hsv j hjt hj
      | pStore =>
        refine ⟨?_, ?_⟩
        · intro j; by_cases hj : j = tid
          · subst hj; simp [ht, Thread.wf]
          · simpa [hj] using h.opPc j
        · intro j hj
          have hj' : j ∈ st.svcR ∧ j ≠ tid := by simpa using hj
          simpa [hj'.2] using hsv j hj'.2 hj'.1
      | aLockLast => simp [Thread.wf] at hwf
      | aLockSvc => simp [Thread.wf] at hwf
      | done => simpa [ht] using h
    | add sid =>
      cases pc with
      | aLockLast =>
        refine ⟨?_, ?_⟩
        · intro j; by_cases hj : j = tid
          · subst hj; simp [Thread.wf]
          · simpa [hj] using h.opPc j
        · intro j hj; by_cases hjt : j = tid
          · subst hjt; simp [Thread.inPub] at hself; exact absurd hj hself
          · simpa [hjt] using hsv j hjt hj
      | aLockSvc =>
        refine ⟨?_, ?_⟩
        · intro j; by_cases hj : j = tid
          · subst hj; simp [ht, Thread.wf]
          · simpa [hj] using h.opPc j
        · intro j hj; by_cases hjt : j = tid
          · subst hjt; simp [Thread.inPub] at hself; exact absurd hj hself
          · simpa [hjt] using hsv j hjt hj
      | pLockLast => simp [Thread.wf] at hwf
      | pLockSvc => simp [Thread.wf] at hwf
      | pSvc i => simp [Thread.wf] at hwf
      | pStore => simp [Thread.wf] at hwf
      | done => simpa [ht] using h

theorem run_wf (f : Data → Data) (st : State) (sched : List Nat) (h : Wf st) : Wf (run f st sched) := by
  induction sched generalizing st with
  | nil => exact h
  | cons tid sched ih => exact ih _ (step_wf f st tid h)

theorem initWith_wf (services : List Svc) (last : Option Data) (ops : Nat → Option Op) :
    Wf (State.initWith services last ops) := by
  refine ⟨?_, ?_⟩
  · intro j
    simp only [State.initWith]
    cases ops j with
    | none => simp [Thread.idle, Thread.wf]
    | some op => cases op <;> simp [Thread.start, Thread.wf]
  · intro j hj; simp [State.initWith] at hj

/-- In every consistent state that is not quiescent some thread can take a step. -/
theorem enabled_of_not_quiescent {f : Data → Data} {st : State} (h : Inv f st) (hw : Wf st)
    (hq : ¬ Quiescent st) : ∃ tid, enabled st tid = true := by
  cases hl : st.lastW with
  | some w =>
    -- the publisher inside its critical section never waits
    have hin := h.wOk w hl
    refine ⟨w, ?_⟩
    rcases ht : st.threads w with ⟨op, pc, svc⟩
    rw [ht] at hin
    cases op <;> cases pc <;> simp [Thread.inPub] at hin <;> simp [enabled, ht]
  | none =>
    have hnopub := h.no_pub hl
    have hsvcR : st.svcR = [] := by
      cases hs : st.svcR with
      | nil => rfl
      | cons x xs =>
        have := hw.svcROk x (by simp [hs])
        rw [hnopub x] at this; cases this
    cases hr : st.lastR with
    | cons r rs =>
      -- an add inside its critical section: `services` is free
      have hin := (h.rOk r).1 (by simp [hr])
      refine ⟨r, ?_⟩
      rcases ht : st.threads r with ⟨op, pc, svc⟩
      rw [ht] at hin
      cases op <;> cases pc <;> simp [Thread.inAdd] at hin
      simp [enabled, ht, hsvcR]
    | nil =>
      -- all locks free: any unfinished thread can go
      have : ∃ j, (st.threads j).pc ≠ .done := by
        apply Classical.byContradiction
        intro hc
        apply hq
        intro j
        apply Classical.byContradiction
        intro hj
        exact hc ⟨j, hj⟩
      obtain ⟨j, hj⟩ := this
      refine ⟨j, ?_⟩
      have hwf := hw.opPc j
      have hnoadd : (st.threads j).inAdd = false := by
        cases ha : (st.threads j).inAdd
        · rfl
        · have := (h.rOk j).2 ha
          rw [hr] at this; cases this
      rcases ht : st.threads j with ⟨op, pc, svc⟩
      rw [ht] at hj hwf hnoadd
      cases op <;> cases pc <;> simp [Thread.wf] at hwf <;> simp [Thread.inAdd] at hnoadd <;>
        simp at hj <;> simp [enabled, ht, hl, hr]

end IrohModel.C30
