/-
C30 — the code BEFORE the repair (commit preceding the `fix:` commit), kept only to
state the defect (DESIGN §6 D12) as theorems about its LTS.  Same state and
program counters as the repaired model; different lock scopes:

```
add_boxed(service):                            publish(data):
  A1  { g = last_data.read();                    data = filter(data)
        if let Some(d) = *g { service.publish(d) } }   -- released here
                                                 P2  services = services.read() (held to end)
  A2  services.write().push(service)             P3.i  services[i].publish(data)
                                                 P1  last_data.write().replace(data); release
```
The schedules below were replayed on the real unrepaired type through the same
pause points (harness `c30`, payloads in corpus/C30/).
-/
import IrohModel.C30.Model

namespace IrohModel.C30.Unrepaired
open IrohModel.C30

/-- First pause point of the unrepaired operations. -/
def start : Op → Thread
  | .publish d => ⟨.publish d, .pLockSvc, ⟨0, []⟩⟩
  | .add sid => ⟨.add sid, .aLockLast, ⟨sid, []⟩⟩

def enabled (st : State) (tid : Nat) : Bool :=
  match (st.threads tid).pc with
  | .pLockSvc => true                                      -- services.read()
  | .pSvc _ => true
  | .pLockLast => st.lastW.isNone && st.lastR.isEmpty      -- last_data.write(), momentary
  | .aLockLast => st.lastW.isNone                          -- last_data.read(), momentary
  | .aLockSvc => st.svcR.isEmpty                           -- services.write()
  | .pStore => false
  | .done => false

def step (f : Data → Data) (st : State) (tid : Nat) : State :=
  let t := st.threads tid
  if !enabled st tid then st else
  match t.op, t.pc with
  | .publish _, .pLockSvc =>
    { st.setPc tid (if st.services.isEmpty then .pLockLast else .pSvc 0) with svcR := tid :: st.svcR }
  | .publish d, .pSvc i =>
    { (st.setPc tid (if i + 1 < st.services.length then .pSvc (i + 1) else .pLockLast)) with
      services := giveAt st.services i (f d) }
  | .publish d, .pLockLast =>
    { st.setPc tid .done with last := some (f d), svcR := st.svcR.filter (· != tid) }
  | .add _, .aLockLast =>
    let svc := match st.last with
      | some x => { t.svc with log := t.svc.log ++ [x] }
      | none => t.svc
    st.setThread tid { t with pc := .aLockSvc, svc := svc }
  | .add _, .aLockSvc =>
    { st.setPc tid .done with services := st.services ++ [t.svc] }
  | _, _ => st

def run (f : Data → Data) (st : State) : List Nat → State
  | [] => st
  | tid :: sched => run f (step f st tid) sched

/-- Registry `services`/`last` with the given operations about to start in threads 0, 1, … -/
def initWith (services : List Svc) (last : Option Data) (ops : List Op) : State :=
  { services := services, last := last, lastW := none, lastR := [], svcR := [],
    threads := fun j => match ops[j]? with
      | some op => start op
      | none => Thread.idle }

/-- Threads `0 .. n-1` have finished. -/
def doneBelow (st : State) (n : Nat) : Bool := (List.range n).all fun j => (st.threads j).pc == .done

end IrohModel.C30.Unrepaired
