/-
C30 — property theorems.

"After any interleaving of publishing endpoint data and adding lookup services,
every service — including one added concurrently with a publish — has most
recently been given the latest published data (with the address filter applied)."

Repaired code (model in `Model.lean`): `all_services_latest` holds at quiescence
for EVERY schedule of ANY number of concurrent `publish` and `add` calls
(`ops : Nat → Option Op`, one operation per thread, no bound on the number of
threads, the schedule is any list of thread ids, blocked threads do not move),
from any consistent sequential state of the registry, for any address filter `f`.

Unrepaired code (model in `Unrepaired.lean`): the property is false; the
witnesses `unrepaired_add_race`, `unrepaired_add_before_first_publish` and
`unrepaired_publish_publish` are the schedules that were replayed on the real
type before the `fix:` commit (known_findings.json → fixed).
-/
import IrohModel.C30.Lemmas
import IrohModel.C30.Unrepaired

namespace IrohModel.C30

/-- **all_services_latest** — at quiescence every registered service was most recently given
exactly the last published (filtered) data; if nothing was ever published, nothing was given. -/
theorem all_services_latest (f : Data → Data) (services : List Svc) (last : Option Data)
    (hcons : ∀ s ∈ services, s.latest = last) (ops : Nat → Option Op) (sched : List Nat)
    (hq : Quiescent (run f (State.initWith services last ops) sched)) :
    allServicesLatest (run f (State.initWith services last ops) sched) :=
  (run_inv (initWith_inv f services last ops hcons) sched).quiescent_latest hq

/-- The invariant behind it holds in EVERY reachable state, not only at quiescence: registered
services lag behind only inside the critical section of the single publisher that holds
`last_data`, and a service being added already has the data it will be registered with. -/
theorem invariant_reachable (f : Data → Data) (services : List Svc) (last : Option Data)
    (hcons : ∀ s ∈ services, s.latest = last) (ops : Nat → Option Op) (sched : List Nat) :
    Inv f (run f (State.initWith services last ops) sched) :=
  run_inv (initWith_inv f services last ops hcons) sched

/-- Whenever no publisher is inside its critical section (in particular at quiescence, but also
while adds are in flight) all registered services agree with `last_data`. -/
theorem latest_whenever_unlocked (f : Data → Data) (services : List Svc) (last : Option Data)
    (hcons : ∀ s ∈ services, s.latest = last) (ops : Nat → Option Op) (sched : List Nat)
    (hw : (run f (State.initWith services last ops) sched).lastW = none) :
    allServicesLatest (run f (State.initWith services last ops) sched) := by
  have h := invariant_reachable f services last hcons ops sched
  intro s hs
  obtain ⟨k, hk, rfl⟩ := List.getElem_of_mem hs
  simpa [expected, hw] using h.svcs k hk

/-- **no_deadlock** — the nested locking of the repair (`last_data`, then `services`, in both
operations) never leaves unfinished threads all blocked: in every reachable state that is not
quiescent some thread can take its next step. -/
theorem no_deadlock (f : Data → Data) (services : List Svc) (last : Option Data)
    (hcons : ∀ s ∈ services, s.latest = last) (ops : Nat → Option Op) (sched : List Nat)
    (hq : ¬ Quiescent (run f (State.initWith services last ops) sched)) :
    ∃ tid, enabled (run f (State.initWith services last ops) sched) tid = true :=
  enabled_of_not_quiescent (invariant_reachable f services last hcons ops sched)
    (run_wf f _ sched (initWith_wf services last ops)) hq

/-! ### The operations of a thread never change; `last_data` is always a filtered publish -/

theorem step_op (f : Data → Data) (st : State) (tid j : Nat) :
    ((step f st tid).threads j).op = (st.threads j).op := by
  unfold step
  cases hen : enabled st tid
  · simp
  · by_cases hj : j = tid
    · subst hj
      rcases ht : st.threads j with ⟨op, pc, svc⟩
      cases op <;> cases pc <;> simp [ht]
    · rcases ht : st.threads tid with ⟨op, pc, svc⟩
      cases op <;> cases pc <;> simp [hj]

theorem step_last (f : Data → Data) (st : State) (tid : Nat) :
    (step f st tid).last = st.last ∨
      ∃ d, (st.threads tid).op = .publish d ∧ (step f st tid).last = some (f d) := by
  unfold step
  cases hen : enabled st tid
  · exact .inl (by simp)
  · rcases ht : st.threads tid with ⟨op, pc, svc⟩
    cases op with
    | publish d =>
      cases pc <;> first | (left; simp; done) | (right; exact ⟨d, rfl, by simp⟩)
    | add s => cases pc <;> (left; simp)

/-- **last_is_filtered_publish** — the "latest published data" every service ends up with is the
initial one or `f d` for a `publish d` among the operations: the filter is always applied. -/
theorem last_is_filtered_publish (f : Data → Data) (services : List Svc) (last : Option Data)
    (ops : Nat → Option Op) (sched : List Nat) :
    (run f (State.initWith services last ops) sched).last = last ∨
      ∃ j d, ops j = some (.publish d) ∧
        (run f (State.initWith services last ops) sched).last = some (f d) := by
  suffices H : ∀ st : State, (∀ j, (st.threads j).op = ((State.initWith services last ops).threads j).op) →
      (st.last = last ∨ ∃ j d, ops j = some (.publish d) ∧ st.last = some (f d)) →
      ((run f st sched).last = last ∨ ∃ j d, ops j = some (.publish d) ∧ (run f st sched).last = some (f d)) by
    exact H _ (fun _ => rfl) (.inl rfl)
  induction sched with
  | nil => intro st _ h; exact h
  | cons tid sched ih =>
    intro st hops h
    apply ih (step f st tid)
    · intro j; rw [step_op]; exact hops j
    · rcases step_last f st tid with he | ⟨d, hop, he⟩
      · rw [he]; exact h
      · right
        refine ⟨tid, d, ?_, he⟩
        have := hops tid
        rw [hop] at this
        simp only [State.initWith] at this
        cases ho : ops tid with
        | none => rw [ho] at this; simp [Thread.idle] at this
        | some op =>
          rw [ho] at this
          cases op with
          | publish d' => simp [Thread.start] at this; rw [this]
          | add s => simp [Thread.start] at this

/-! ### The unrepaired code violates the property (DESIGN §6 D12) -/

namespace Unrepaired

theorem step_other (f : Data → Data) (st : State) (tid j : Nat) (hj : j ≠ tid) :
    (step f st tid).threads j = st.threads j := by
  unfold step
  cases hen : enabled st tid
  · simp
  · rcases ht : st.threads tid with ⟨op, pc, svc⟩
    cases op <;> cases pc <;> simp [hj]

theorem step_done (f : Data → Data) (st : State) (tid j : Nat) (hd : (st.threads j).pc = .done) :
    ((step f st tid).threads j).pc = .done := by
  by_cases hj : j = tid
  · subst hj
    have : enabled st j = false := by simp [enabled, hd]
    simp [step, this, hd]
  · rw [step_other f st tid j hj]; exact hd

theorem run_done (f : Data → Data) (st : State) (sched : List Nat) (j : Nat)
    (hd : (st.threads j).pc = .done) : ((run f st sched).threads j).pc = .done := by
  induction sched generalizing st with
  | nil => exact hd
  | cons tid sched ih => exact ih _ (step_done f st tid j hd)

/-- All threads are done once the `n` started ones are. -/
theorem quiescent_of_doneBelow (f : Data → Data) (services : List Svc) (last : Option Data)
    (ops : List Op) (sched : List Nat)
    (h : doneBelow (run f (initWith services last ops) sched) ops.length = true) :
    Quiescent (run f (initWith services last ops) sched) := by
  intro j
  by_cases hj : j < ops.length
  · simp only [doneBelow, List.all_eq_true, List.mem_range] at h
    simpa using h j hj
  · apply run_done
    simp only [initWith]
    rw [List.getElem?_eq_none (by omega)]
    rfl

end Unrepaired

def d1 : Data := ⟨1, true, true⟩
def d2 : Data := ⟨2, true, true⟩

/-- The unrepaired schedule of D12: service 0 registered, `d1` published; then concurrently
`add(service 1)` and `publish(d2)`: the add reads `last = d1` and gives it to service 1,
the publish runs completely (service 1 not yet registered), the add registers service 1. -/
def d12 : State :=
  Unrepaired.run id (Unrepaired.initWith [⟨0, [d1]⟩] (some d1) [.add 1, .publish d2]) [0, 1, 1, 1, 0]

/-- **unrepaired_add_race** (counterexample) — all threads done, `last_data = d2`, but service 1
was last given `d1`. -/
theorem unrepaired_add_race :
    Quiescent d12 ∧ d12.last = some d2 ∧ d12.services = [⟨0, [d1, d2]⟩, ⟨1, [d1]⟩] ∧
      ¬ allServicesLatest d12 := by
  refine ⟨Unrepaired.quiescent_of_doneBelow id _ _ _ _ (by decide), by decide, by decide, by decide⟩

/-- Add before anything was published, publish in between: the new service is given nothing. -/
def d12b : State :=
  Unrepaired.run id (Unrepaired.initWith [] none [.add 0, .publish d1]) [0, 1, 1, 0]

theorem unrepaired_add_before_first_publish :
    Quiescent d12b ∧ d12b.last = some d1 ∧ d12b.services = [⟨0, []⟩] ∧ ¬ allServicesLatest d12b := by
  refine ⟨Unrepaired.quiescent_of_doneBelow id _ _ _ _ (by decide), by decide, by decide, by decide⟩

/-- Two concurrent publishes over two services: both services end with `d2`, `last_data` with `d1`
(a service added later would be given `d1`). -/
def d12c : State :=
  Unrepaired.run id (Unrepaired.initWith [⟨0, []⟩, ⟨1, []⟩] none [.publish d1, .publish d2])
    [0, 0, 0, 1, 1, 1, 1, 0]

theorem unrepaired_publish_publish :
    Quiescent d12c ∧ d12c.last = some d1 ∧ d12c.services = [⟨0, [d1, d2]⟩, ⟨1, [d1, d2]⟩] ∧
      ¬ allServicesLatest d12c := by
  refine ⟨Unrepaired.quiescent_of_doneBelow id _ _ _ _ (by decide), by decide, by decide, by decide⟩

/-- The same three schedules on the repaired model end with every service up to date
(the publisher is blocked while the add is inside, resp. while the other publisher is). -/
theorem repaired_same_schedules :
    allServicesLatest (run id (State.initWith [⟨0, [d1]⟩] (some d1)
        (fun j => [Op.add 1, Op.publish d2][j]?)) [0, 1, 1, 1, 0, 1, 1, 1, 1, 1]) ∧
    allServicesLatest (run id (State.initWith [⟨0, []⟩, ⟨1, []⟩] none
        (fun j => [Op.publish d1, Op.publish d2][j]?)) [0, 0, 0, 1, 1, 1, 1, 0, 0, 1, 1, 1, 1, 1]) := by
  constructor <;> decide

/-! ### Non-vacuity of `all_services_latest` -/

/-- A concrete quiescent run of two publishes and an add (hypotheses of the theorem are satisfiable,
and the conclusion is not trivially about an empty registry). -/
example :
    let st := run id (State.initWith [⟨0, []⟩] none (fun j => [Op.publish d1, Op.add 1, Op.publish d2][j]?))
      [0, 1, 2, 0, 0, 0, 1, 1, 2, 2, 2, 2, 2, 2]
    ((List.range 3).all fun j => (st.threads j).pc == .done) = true ∧ st.last = some d2 ∧
      st.services = [⟨0, [d1, d2]⟩, ⟨1, [d1, d2]⟩] := by decide

end IrohModel.C30
