/-
C36 — the DNS server serves a zone only from packets signed by its key.

Model of the publish → store → answer path of iroh-dns-server:
  `http/pkarr.rs put`        : `PublicKey::from_z32(path)`, `SignedPacket::from_relay_payload`
                               (length bounds, signature check under the *path* key, DNS parse),
                               `ZoneStore::insert` (upsert, C37)
  `http/pkarr.rs get`        : `get_signed_packet`
  `util.rs signed_packet_to_hickory_records_without_origin`
                             : drop SOA/NS, drop names whose last label is not the z-base-32
                               of the packet's key (labels compare ASCII-case-insensitively),
                               strip that label
  `dns/node_zone_handler.rs` : SOA/NS queries go to the static zone (never to a packet); otherwise
                               `parse_name_as_pkarr_with_origin` (first origin that is a suffix,
                               the label before it must decode to a valid key), exact
                               (name, type) lookup in the key's zone, names re-rooted at
                               `<z32>.<origin>`.

Abstractions (DESIGN §4): the signature check is a parameter `verify key (ts, dns) sig`;
curve-point validity is a parameter `validPoint`; DNS wire parsing is assumed — a request
body carries its parsed records (`none` = does not parse); rdata is an opaque tag; the
static zone is assumed to have no records at the queried names (queries for apex names are
not generated).  z-base-32 is `Common.BaseN.zbase32`.  Names are label lists, leftmost
first, without the root; a label is its list of characters.  Core Lean only, executable.
-/
import IrohModel.Generated.C36
import IrohModel.Common.Pkarr
import IrohModel.Common.BaseN

namespace IrohModel.C36
open IrohModel.Pkarr

abbrev Key := List UInt8
/-- A DNS label: its characters (ASCII). -/
abbrev Label := List Char
abbrev Name := List Label

def lowerLabel (l : Label) : Label := l.map asciiLower

structure Rec where
  name : Name
  rtype : String
  tag : String
deriving DecidableEq, Repr

/-- A relay payload `<64 sig><8 ts><dns>` split into its parts. -/
structure Body where
  /-- bytes present in front of the DNS packet (72 = 64 signature + 8 timestamp when complete) -/
  hdrLen : Nat
  sig : List UInt8
  ts : Nat
  /-- encoded DNS packet (what `more_recent_than` compares on equal timestamps) -/
  dns : List UInt8
  /-- its true length in bytes -/
  dnsLen : Nat
  /-- its answer records if it parses -/
  records : Option (List Rec)
deriving DecidableEq, Repr

structure SPacket where
  key : Key
  sig : List UInt8
  ts : Nat
  dns : List UInt8
  records : List Rec
deriving DecidableEq, Repr

abbrev Store := Key → Option SPacket

def Store.empty : Store := fun _ => none
def Store.set (s : Store) (k : Key) (p : SPacket) : Store := fun k' => if k' = k then some p else s k'

/-- The abstract signature check `verify key (timestamp, dns) signature`. -/
abbrev Verify := Key → Nat × List UInt8 → List UInt8 → Bool

def z32 (k : Key) : Label := zbase32.encode k

/-- `PublicKey::from_z32`: z-base-32 decode (lower case only), 32 bytes, valid point. -/
def parseKey (validPoint : Key → Bool) (label : Label) : Option Key :=
  match zbase32.decode label with
  | some bs => if bs.length = 32 && validPoint bs then some bs else none
  | none => none

def ord (p : SPacket) : Packet := ⟨0, 0, p.ts, p.dns⟩

/-- `existing.more_recent_than(&packet)`. -/
def moreRecent (a b : SPacket) : Bool :=
  moreRecentBy Generated.C36.tsOp Generated.C36.tieOp (ord a) (ord b)

/-- `SignedPacket::from_relay_payload(&key, body)`: the accepted packet, if any. -/
def fromRelayPayload (verify : Verify) (k : Key) (b : Body) : Option SPacket :=
  if 32 + b.hdrLen + b.dnsLen < Generated.C36.headerSize then none
  else if b.dnsLen > Generated.C36.maxDnsPacketSize then none
  else if Generated.C36.fromBytesVerifies && !(verify k (b.ts, b.dns) b.sig) then none
  else match b.records with
    | none => none
    | some rs => some ⟨k, b.sig, b.ts, b.dns, rs⟩

def upsert (st : Store) (p : SPacket) : Store :=
  match st p.key with
  | some e => if moreRecent e p then st else st.set p.key p
  | none => st.set p.key p

/-- `PUT /pkarr/{label}`: new store and HTTP status. -/
def put (verify : Verify) (validPoint : Key → Bool) (st : Store) (label : Label) (b : Body) :
    Store × Nat :=
  match parseKey validPoint label with
  | none => (st, 400)
  | some k =>
    match fromRelayPayload verify k b with
    | none => (st, 400)
    | some p => (upsert st p, 204)

/-- `GET /pkarr/{label}`. -/
def get (validPoint : Key → Bool) (st : Store) (label : Label) : Nat × Option SPacket :=
  match parseKey validPoint label with
  | none => (400, none)
  | some k => match st k with
    | none => (404, none)
    | some p => (200, some p)

def lowerName (n : Name) : Name := n.map lowerLabel

def excluded (t : String) : Bool :=
  t == Generated.C36.excludedType1 || t == Generated.C36.excludedType2

/-- One record of a packet as it enters the zone (`none`: filtered out). -/
def zoneRec (k : Key) (r : Rec) : Option Rec :=
  if excluded r.rtype then none else
  match r.name.getLast? with
  | none => none
  | some zl =>
    if Generated.C36.zoneLabelMustEqualKey && lowerLabel zl != lowerLabel (z32 k) then none
    else some { r with name := r.name.dropLast }

/-- `signed_packet_to_hickory_records_without_origin`. -/
def zoneRecords (p : SPacket) : List Rec := p.records.filterMap (zoneRec p.key)

/-- `parse_name_as_pkarr_with_origin` on a lower-cased name: (rest, key, origin). -/
def parsePkarrName (validPoint : Key → Bool) (origins : List Name) (qn : Name) :
    Option (Name × Key × Name) :=
  match origins.find? (fun o => (lowerName o).isSuffixOf qn) with
  | none => none
  | some o =>
    if qn.length < o.length + 1 then none else
    match qn[qn.length - o.length - 1]? with
    | none => none
    | some kl =>
      match parseKey validPoint kl with
      | none => none
      | some k => some (qn.take (qn.length - o.length - 1), k, o)

inductive Resp where
  | records (rs : List Rec)
  | nxdomain
  /-- the server's own SOA of its first origin, from the static configuration -/
  | staticSoa
deriving DecidableEq, Repr

/-- The record set for `(rest, qtype)` in a zone: CNAME keeps the last one. -/
def select (zone : List Rec) (rest : Name) (qtype : String) : List Rec :=
  let m := zone.filter (fun r => lowerName r.name == rest && r.rtype == qtype)
  if qtype == "CNAME" then m.getLast?.toList else m

/-- `NodeZoneHandler::search` / `lookup` + `resolve_pkarr`.  An SOA query is answered with
the static SOA of the first origin whatever the name; an NS query is looked up in the static
zone, which has nothing at the queried (non-apex) names. -/
def answer (validPoint : Key → Bool) (origins : List Name) (st : Store) (qname : Name)
    (qtype : String) : Resp :=
  if qtype == "SOA" then .staticSoa else
  if qtype == "NS" then .nxdomain else
  match parsePkarrName validPoint origins (lowerName qname) with
  | none => .nxdomain
  | some (rest, k, o) =>
    match st k with
    | none => .nxdomain
    | some p =>
      match select (zoneRecords p) rest qtype with
      | [] => .nxdomain
      | rs => .records (rs.map fun r => { r with name := r.name ++ [z32 k] ++ o })

inductive Op where
  | put (label : Label) (b : Body)
  | get (label : Label)
  | query (qname : Name) (qtype : String)
deriving Repr

/-- State after a history of requests (only `put` changes it). -/
def runOps (verify : Verify) (validPoint : Key → Bool) (st : Store) : List Op → Store
  | [] => st
  | .put l b :: ops => runOps verify validPoint (put verify validPoint st l b).1 ops
  | _ :: ops => runOps verify validPoint st ops

end IrohModel.C36
