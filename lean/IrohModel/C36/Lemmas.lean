/-
C36 — helper lemmas: membership in the zone, in the selected record set, and the
store invariant along a history.
-/
import IrohModel.C36.Model
import IrohModel.Common.BaseNLemmas

namespace IrohModel.C36
open IrohModel.Pkarr

theorem excluded_iff (t : String) : excluded t = true ↔ t = "SOA" ∨ t = "NS" := by
  simp [excluded, Generated.C36.excludedType1, Generated.C36.excludedType2]

/-- A record of the zone of packet key `k` comes from a packet record that is not SOA/NS
and whose last label is (case-insensitively) the z-base-32 of `k`; it is that record
without its last label. -/
theorem zoneRec_some {k : Key} {r0 r : Rec} (h : zoneRec k r0 = some r) :
    excluded r0.rtype = false ∧
    (∃ zl, r0.name.getLast? = some zl ∧ lowerLabel zl = lowerLabel (z32 k)) ∧
    r = { r0 with name := r0.name.dropLast } := by
  unfold zoneRec at h
  split at h
  · cases h
  · rename_i hex
    split at h
    · cases h
    · rename_i zl hzl
      split at h
      · cases h
      · rename_i hz
        simp only [Generated.C36.zoneLabelMustEqualKey, Bool.true_and, bne_iff_ne, ne_eq,
          Decidable.not_not] at hz
        refine ⟨by simpa using hex, ⟨zl, hzl, hz⟩, ?_⟩
        simpa using h.symm

theorem mem_zoneRecords {p : SPacket} {r : Rec} (h : r ∈ zoneRecords p) :
    ∃ r0 ∈ p.records, zoneRec p.key r0 = some r := by
  unfold zoneRecords at h
  rw [List.mem_filterMap] at h
  exact h

theorem mem_select {zone : List Rec} {rest : Name} {qtype : String} {r : Rec}
    (h : r ∈ select zone rest qtype) : r ∈ zone ∧ lowerName r.name = rest ∧ r.rtype = qtype := by
  unfold select at h
  have hf : ∀ r, r ∈ zone.filter (fun r => lowerName r.name == rest && r.rtype == qtype) →
      r ∈ zone ∧ lowerName r.name = rest ∧ r.rtype = qtype := by
    intro r hr
    rw [List.mem_filter] at hr
    simpa using hr
  split at h
  · rw [Option.mem_toList] at h
    exact hf r (List.mem_of_getLast? h)
  · exact hf r h

/-- What is known about every stored packet after the requests `seen`. -/
def StoreInv (verify : Verify) (validPoint : Key → Bool) (seen : List Op) (st : Store) : Prop :=
  ∀ k p, st k = some p →
    p.key = k ∧ verify k (p.ts, p.dns) p.sig = true ∧
    ∃ label b, Op.put label b ∈ seen ∧ parseKey validPoint label = some k ∧
      b.sig = p.sig ∧ b.ts = p.ts ∧ b.dns = p.dns ∧ b.records = some p.records

theorem fromRelayPayload_some {verify : Verify} {k : Key} {b : Body} {p : SPacket}
    (h : fromRelayPayload verify k b = some p) :
    verify k (b.ts, b.dns) b.sig = true ∧ b.dnsLen ≤ Generated.C36.maxDnsPacketSize ∧
    b.records = some p.records ∧ p.key = k ∧ p.sig = b.sig ∧ p.ts = b.ts ∧ p.dns = b.dns := by
  unfold fromRelayPayload at h
  split at h
  · cases h
  split at h
  · cases h
  · rename_i hlen
    split at h
    · cases h
    · rename_i hv
      simp only [Generated.C36.fromBytesVerifies, Bool.true_and, Bool.not_eq_true', Bool.not_eq_false] at hv
      cases hr : b.records with
      | none => rw [hr] at h; cases h
      | some rs =>
        rw [hr] at h
        simp only [Option.some.injEq] at h
        subst h
        exact ⟨hv, by omega, rfl, rfl, rfl, rfl, rfl⟩

theorem upsert_get (st : Store) (p : SPacket) (k : Key) :
    upsert st p k = st k ∨ (k = p.key ∧ upsert st p k = some p) := by
  unfold upsert
  cases hs : st p.key with
  | none =>
    by_cases hk : k = p.key
    · right; exact ⟨hk, by simp [Store.set, hk]⟩
    · left; simp [Store.set, hk]
  | some e =>
    by_cases hm : moreRecent e p = true
    · left; simp [hm]
    · by_cases hk : k = p.key
      · right; exact ⟨hk, by simp [hm, Store.set, hk]⟩
      · left; simp [hm, Store.set, hk]

theorem put_get {verify : Verify} {vp : Key → Bool} (st : Store) (label : Label) (b : Body)
    (k : Key) :
    (put verify vp st label b).1 k = st k ∨
    ∃ p, parseKey vp label = some k ∧ fromRelayPayload verify k b = some p ∧
      (put verify vp st label b).1 k = some p := by
  unfold put
  cases hk : parseKey vp label with
  | none => left; rfl
  | some k0 =>
    cases hp : fromRelayPayload verify k0 b with
    | none => left; simp only [hp]
    | some p =>
      simp only [hp]
      rcases upsert_get st p k with h | ⟨hkp, h⟩
      · left; exact h
      · right
        have hpk := (fromRelayPayload_some hp).2.2.2.1
        rw [hpk] at hkp; subst hkp
        exact ⟨p, rfl, hp, h⟩

theorem storeInv_mono {verify : Verify} {vp : Key → Bool} {seen : List Op} {st : Store}
    (h : StoreInv verify vp seen st) (op : Op) : StoreInv verify vp (seen ++ [op]) st := by
  intro k p hkp
  obtain ⟨h1, h2, label, b, hm, hrest⟩ := h k p hkp
  exact ⟨h1, h2, label, b, List.mem_append_left _ hm, hrest⟩

theorem storeInv_put {verify : Verify} {vp : Key → Bool} {seen : List Op} {st : Store}
    (h : StoreInv verify vp seen st) (label : Label) (b : Body) :
    StoreInv verify vp (seen ++ [.put label b]) (put verify vp st label b).1 := by
  intro k p hkp
  rcases put_get (verify := verify) (vp := vp) st label b k with hsame | ⟨p', hk, hp, hget⟩
  · rw [hsame] at hkp
    exact storeInv_mono h _ k p hkp
  · rw [hget] at hkp; cases hkp
    obtain ⟨hv, _, hrec, hkey, hsig, hts, hdns⟩ := fromRelayPayload_some hp
    refine ⟨hkey, ?_, label, b, by simp, hk, hsig.symm, hts.symm, hdns.symm, hrec⟩
    rw [hts, hdns, hsig]; exact hv

theorem storeInv_runOps {verify : Verify} {vp : Key → Bool} {seen : List Op} {st : Store}
    (h : StoreInv verify vp seen st) (ops : List Op) :
    StoreInv verify vp (seen ++ ops) (runOps verify vp st ops) := by
  induction ops generalizing seen st with
  | nil => simpa [runOps] using h
  | cons op ops ih =>
    cases op with
    | put l b =>
      have := ih (storeInv_put h l b)
      simpa [runOps, List.append_assoc] using this
    | get l =>
      have := ih (storeInv_mono h (.get l))
      simpa [runOps, List.append_assoc] using this
    | query n t =>
      have := ih (storeInv_mono h (.query n t))
      simpa [runOps, List.append_assoc] using this

end IrohModel.C36
