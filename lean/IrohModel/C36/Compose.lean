/-
C36 (end to end) — composition of the iroh-dns client-side models with the server model:

  C31  `EndpointInfo` → `key=value` TXT strings → signed packet (`Pkt` = signer key + strings),
       and back: `from_txt_lookup(name, strings)`
  C36  `PUT /pkarr/<z32>` → store (C37 upsert) → zone filter → DNS answer

Publisher (`iroh/src/address_lookup/pkarr.rs`): `EndpointInfo::to_pkarr_signed_packet`, then
`PUT <relay>/pkarr/<z32 of the signer>` with `to_relay_payload()`.
Resolver (`iroh-dns/src/dns.rs lookup_endpoint_by_id`): TXT query for
`_iroh.<z32 id>.<origin>`, then `EndpointInfo::from_txt_lookup(name, answers)`.

Assumed, as explicit parameters:
* `Wire` / `Wire.Faithful`: the DNS wire encoding of the packet `from_txt_strings` builds
  (simple-dns) and the server's parse of it (hickory): `parse (enc key txts)` are the TXT
  records `_iroh.<z32 key>  TXT  "<string>"`, one per string, in order, and its length is
  C31's `dnsSize`.  The rdata tag of a TXT record is its character-string.
* `Verify` (signature check) and `Codecs` (address text parsers, curve-point validity).
* the resolver's transport (hickory resolver, UDP/DoH) hands the answer's TXT strings to
  `from_txt_lookup` unchanged.
Core Lean only, executable.
-/
import IrohModel.C31.Model
import IrohModel.C36.Model

namespace IrohModel.C36.E2E
open IrohModel IrohModel.C36

abbrev Str := C31.Str

/-- rdata tag of a TXT record holding the character-string `s`. -/
def tagOf (s : Str) : String := String.ofList s

/-- The label `_iroh`. -/
def irohLabel : Label := C31.irohTxtName

/-- The records in the DNS packet built by `SignedPacket::from_txt_strings(sk, "_iroh", txts)`. -/
def txtRecs (key : Key) (txts : List Str) : List Rec :=
  txts.map fun s => ⟨[irohLabel, z32 key], "TXT", tagOf s⟩

structure Wire where
  /-- simple-dns: the encoded reply packet with one TXT record per string at `_iroh.<z32 key>` -/
  enc : Key → List Str → List UInt8
  /-- the server's parse of an encoded DNS packet into its answer records -/
  parse : List UInt8 → Option (List Rec)

/-- The wire assumption for the packet of `key` with the strings `txts`: the server parses
the encoded DNS packet into one TXT record per string at `_iroh.<z32 key>`, in order, and
the encoding has the length C31 computes for it. -/
def Wire.Faithful (W : Wire) (key : Key) (txts : List Str) : Prop :=
  W.parse (W.enc key txts) = some (txtRecs key txts) ∧
  (W.enc key txts).length = C31.dnsSize key.length txts

/-- The request body a publisher sends for the C31 packet `p`, timestamp `ts`, signature `sig`. -/
def publishBody (W : Wire) (sig : List UInt8) (ts : Nat) (p : C31.Pkt) : Body :=
  let dns := W.enc p.key p.txts
  ⟨72, sig, ts, dns, dns.length, W.parse dns⟩

/-- A body whose parsed records and length are those of its DNS bytes. -/
def Coherent (W : Wire) (b : Body) : Prop := b.records = W.parse b.dns ∧ b.dnsLen = b.dns.length

inductive ResolveErr where
  | noRecords
  | parse (e : C31.ParseErr)
deriving DecidableEq, Repr

/-- The queried name `_iroh.<z32 id>.<origin>` as labels. -/
def queryName (id : Key) (origin : Name) : Name := [irohLabel, z32 id] ++ origin

/-- `lookup_endpoint_by_id(id, origin)` against the server: TXT query, then
`from_txt_lookup(format!("_iroh.{z32}.{origin}"), answers)`.  `originStr` is the origin as the
caller writes it. -/
def resolve (C : C31.Codecs) (origins : List Name) (st : Store) (id : Key) (origin : Name)
    (originStr : Str) : Except ResolveErr C31.Info :=
  match answer C.validKey origins st (queryName id origin) "TXT" with
  | .records rs =>
    match C31.fromTxtLookup C (C31.txtName id originStr) (rs.map fun r => r.tag.toList) with
    | .ok i => .ok i
    | .error e => .error (.parse e)
  | _ => .error .noRecords

/-- `EndpointInfo::to_pkarr_signed_packet(sk)` + PUT under the signer's own label; `none` when
the packet cannot be built (nothing is sent). -/
def publish (verify : Verify) (C : C31.Codecs) (W : Wire) (st : Store) (signer : Key)
    (sig : List UInt8) (ts : Nat) (i : C31.Info) : Except C31.BuildErr (Store × Nat) :=
  match C31.toSignedPacket signer i with
  | .error e => .error e
  | .ok p => .ok (put verify C.validKey st (z32 signer) (publishBody W sig ts p))

end IrohModel.C36.E2E
