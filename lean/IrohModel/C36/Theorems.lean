/-
C36 — property theorems (only).  Statement of the property: a DNS answer for a
name under endpoint key K contains only records that were published in a
packet signed by K, located under K's zone and not of type SOA or NS;
publishing under K never changes answers for any other key.  A publish whose
signature does not verify for the key in the request is rejected and changes
nothing.

"Signed by K" = the stored packet's signature passed `verify K (ts, dns) sig`
(the abstract check, DESIGN §4; no unforgeability claim).  All statements hold
for every `verify`, every `validPoint`, every list of origins, every history.
-/
import IrohModel.C36.Lemmas

namespace IrohModel.C36
open IrohModel.Pkarr

/-- Where an answered record `r` comes from: a record `r0` among `recs` (the records of a
packet of key `k`) that is not SOA/NS, has the queried type, whose name is
`rest.<label ≈ z32 k>`, re-rooted at `<z32 k>.<origin>` with rdata and type unchanged. -/
def ComesFrom (recs : List Rec) (k : Key) (o rest : Name) (qtype : String) (r : Rec) : Prop :=
  ∃ r0 ∈ recs,
    r0.rtype ≠ "SOA" ∧ r0.rtype ≠ "NS" ∧ r0.rtype = qtype ∧
    (∃ zl, r0.name.getLast? = some zl ∧ lowerLabel zl = lowerLabel (z32 k)) ∧
    lowerName r0.name.dropLast = rest ∧
    r.rtype = r0.rtype ∧ r.tag = r0.tag ∧ r.name = r0.name.dropLast ++ [z32 k] ++ o

/-- Every answer with records is for a name `rest.<z32 k>.<origin>` and each of its records
comes from the packet stored under exactly that `k`. -/
theorem answer_from_stored_packet {vp : Key → Bool} {origins : List Name} {st : Store}
    (hkeys : ∀ k p, st k = some p → p.key = k)
    {qname : Name} {qtype : String} {rs : List Rec}
    (h : answer vp origins st qname qtype = .records rs) :
    ∃ rest k o p, parsePkarrName vp origins (lowerName qname) = some (rest, k, o) ∧
      st k = some p ∧ ∀ r ∈ rs, ComesFrom p.records k o rest qtype r := by
  unfold answer at h
  split at h
  · cases h
  split at h
  · cases h
  · cases hp : parsePkarrName vp origins (lowerName qname) with
    | none => rw [hp] at h; cases h
    | some t =>
      obtain ⟨rest, k, o⟩ := t
      rw [hp] at h
      simp only at h
      cases hs : st k with
      | none => rw [hs] at h; cases h
      | some p =>
        rw [hs] at h
        simp only at h
        refine ⟨rest, k, o, p, rfl, hs, ?_⟩
        split at h
        · cases h
        · rename_i sel _
          simp only [Resp.records.injEq] at h
          subst h
          intro r hr
          rw [List.mem_map] at hr
          obtain ⟨r1, hr1, rfl⟩ := hr
          obtain ⟨hz, hname, htype⟩ := mem_select hr1
          obtain ⟨r0, hr0, hzr⟩ := mem_zoneRecords hz
          obtain ⟨hex, hzl, rfl⟩ := zoneRec_some hzr
          have hne : ¬ (r0.rtype = "SOA" ∨ r0.rtype = "NS") := by
            intro hc; rw [← excluded_iff] at hc; rw [hc] at hex; cases hex
          rw [hkeys k p hs] at hzl
          exact ⟨r0, hr0, fun hc => hne (Or.inl hc), fun hc => hne (Or.inr hc), htype, hzl, hname,
            rfl, rfl, rfl⟩

/-- History form: after any sequence of requests (puts with arbitrary path labels, bodies and
signatures; gets; queries) every answer with records is for a name
`rest.<z32 k>.<origin>`, and there is a packet that (1) was the body of a `PUT /pkarr/<label>`
of the history whose label decodes to `k`, (2) passed the signature check under `k`, and
(3) contains, under `k`'s zone label and not as SOA/NS, every record of the answer. -/
theorem answers_only_from_packets_signed_by_key (verify : Verify) (vp : Key → Bool)
    (origins : List Name) (ops : List Op) {qname : Name} {qtype : String} {rs : List Rec}
    (h : answer vp origins (runOps verify vp Store.empty ops) qname qtype = .records rs) :
    ∃ rest k o label b recs,
      parsePkarrName vp origins (lowerName qname) = some (rest, k, o) ∧
      Op.put label b ∈ ops ∧ parseKey vp label = some k ∧
      verify k (b.ts, b.dns) b.sig = true ∧ b.records = some recs ∧
      ∀ r ∈ rs, ComesFrom recs k o rest qtype r := by
  have hinv : StoreInv verify vp ([] ++ ops) (runOps verify vp Store.empty ops) :=
    storeInv_runOps (seen := []) (by intro k p hk; simp [Store.empty] at hk) ops
  simp only [List.nil_append] at hinv
  obtain ⟨rest, k, o, p, hparse, hst, hall⟩ :=
    answer_from_stored_packet (fun k p hk => (hinv k p hk).1) h
  obtain ⟨_, hv, label, b, hmem, hlabel, hsig, hts, hdns, hrec⟩ := hinv k p hst
  refine ⟨rest, k, o, label, b, p.records, hparse, hmem, hlabel, ?_, hrec, hall⟩
  rw [hts, hdns, hsig]; exact hv

/-- No answer contains an SOA or NS record, and every answered record has the queried type. -/
theorem only_in_zone_no_soa_ns {vp : Key → Bool} {origins : List Name} {st : Store}
    {qname : Name} {qtype : String} {rs : List Rec}
    (h : answer vp origins st qname qtype = .records rs) :
    ∀ r ∈ rs, r.rtype ≠ "SOA" ∧ r.rtype ≠ "NS" ∧ r.rtype = qtype := by
  unfold answer at h
  split at h
  · cases h
  rename_i hsoa
  split at h
  · cases h
  · rename_i hns
    have hex : ¬ excluded qtype = true := by
      rw [excluded_iff]; rintro (hc | hc)
      · exact hsoa (by simp [hc])
      · exact hns (by simp [hc])
    cases hp : parsePkarrName vp origins (lowerName qname) with
    | none => rw [hp] at h; cases h
    | some t =>
      obtain ⟨rest, k, o⟩ := t
      rw [hp] at h
      simp only at h
      cases hs : st k with
      | none => rw [hs] at h; cases h
      | some p =>
        rw [hs] at h
        simp only at h
        split at h
        · cases h
        · simp only [Resp.records.injEq] at h
          subst h
          intro r hr
          rw [List.mem_map] at hr
          obtain ⟨r1, hr1, rfl⟩ := hr
          obtain ⟨_, _, htype⟩ := mem_select hr1
          have hne : ¬ (qtype = "SOA" ∨ qtype = "NS") := by
            intro hc; rw [← excluded_iff] at hc; exact hex hc
          simp only
          rw [htype]
          exact ⟨fun hc => hne (Or.inl hc), fun hc => hne (Or.inr hc), rfl⟩

/-- SOA and NS queries are never answered from a packet: the answer does not depend on the
store (SOA: the server's static SOA of its first origin; NS: the static zone). -/
theorem soa_ns_queries_static (vp : Key → Bool) (origins : List Name) (st : Store) (qname : Name) :
    answer vp origins st qname "SOA" = .staticSoa ∧ answer vp origins st qname "NS" = .nxdomain := by
  constructor <;> simp [answer]

/-- A put changes the store at most at the key its path label decodes to. -/
theorem put_other_key (verify : Verify) (vp : Key → Bool) (st : Store) (label : Label) (b : Body)
    (k' : Key) (h : parseKey vp label ≠ some k') : (put verify vp st label b).1 k' = st k' := by
  rcases put_get (verify := verify) (vp := vp) st label b k' with hsame | ⟨_, hk, _⟩
  · exact hsame
  · exact absurd hk h

/-- An answer depends on the store only through the entry of the key the name parses to. -/
theorem answer_congr {vp : Key → Bool} {origins : List Name} {st st' : Store} {qname : Name}
    {qtype : String}
    (h : ∀ rest k o, parsePkarrName vp origins (lowerName qname) = some (rest, k, o) → st' k = st k) :
    answer vp origins st' qname qtype = answer vp origins st qname qtype := by
  unfold answer
  split
  · rfl
  split
  · rfl
  · cases hp : parsePkarrName vp origins (lowerName qname) with
    | none => rfl
    | some t =>
      obtain ⟨rest, k, o⟩ := t
      simp only [h rest k o hp]

/-- Publishing under `K` (any body, accepted or not) leaves every DNS answer for a name under
another key `K'`, and every pkarr GET for another key, unchanged. -/
theorem publish_isolated (verify : Verify) (vp : Key → Bool) (origins : List Name) (st : Store)
    (label : Label) (b : Body) (K : Key) (hK : parseKey vp label = some K) :
    (∀ qname qtype rest K' o, parsePkarrName vp origins (lowerName qname) = some (rest, K', o) →
      K' ≠ K →
      answer vp origins (put verify vp st label b).1 qname qtype = answer vp origins st qname qtype) ∧
    (∀ label' K', parseKey vp label' = some K' → K' ≠ K →
      get vp (put verify vp st label b).1 label' = get vp st label') := by
  constructor
  · intro qname qtype rest K' o hparse hne
    apply answer_congr
    intro rest2 k2 o2 hp2
    rw [hparse] at hp2; cases hp2
    apply put_other_key
    rw [hK]; intro hc; cases hc; exact hne rfl
  · intro label' K' hK' hne
    unfold get
    rw [hK']
    simp only
    rw [put_other_key verify vp st label b K' (by rw [hK]; intro hc; cases hc; exact hne rfl)]

/-- Names that are not pkarr names (no origin matches, or the label in front of the origin is
not a valid key) are answered without looking at the store. -/
theorem non_pkarr_name_independent_of_store (vp : Key → Bool) (origins : List Name) (st st' : Store)
    (qname : Name) (qtype : String) (h : parsePkarrName vp origins (lowerName qname) = none) :
    answer vp origins st qname qtype = answer vp origins st' qname qtype := by
  apply answer_congr; intro rest k o hp; rw [h] at hp; cases hp

/-- A publish whose signature does not verify for the key in the request path is rejected
with 400 and the store is unchanged; the same for a path that is not a valid key. -/
theorem bad_sig_rejected_no_change (verify : Verify) (vp : Key → Bool) (st : Store) (label : Label)
    (b : Body) :
    (∀ k, parseKey vp label = some k → verify k (b.ts, b.dns) b.sig = false →
      put verify vp st label b = (st, 400)) ∧
    (parseKey vp label = none → put verify vp st label b = (st, 400)) := by
  constructor
  · intro k hk hv
    have hnone : fromRelayPayload verify k b = none := by
      unfold fromRelayPayload
      simp [hv, Generated.C36.fromBytesVerifies]
    unfold put
    rw [hk]
    simp only [hnone]
  · intro hk
    unfold put; rw [hk]

/-- Distinct keys have distinct zone labels, and a valid key's label parses back to it. -/
theorem z32_injective {k k' : Key} (h : z32 k = z32 k') : k = k' := by
  exact BaseN.encode_injective zbase32 h

theorem parseKey_z32 (vp : Key → Bool) (k : Key) (hlen : k.length = 32) (hv : vp k = true) :
    parseKey vp (z32 k) = some k := by
  unfold parseKey z32
  rw [BaseN.decode_encode]
  simp [hlen, hv]

-- Non-vacuity: a concrete history with an accepted publish, an answer with records, a
-- rejected wrong-key publish, an out-of-zone record and an NS record that are not served.
private def vAll : Verify := fun k m s => s == k ++ m.2
private def kA : Key := List.replicate 32 1
private def kB : Key := List.replicate 32 2
private def recsA : List Rec :=
  [⟨[['_', 't'], z32 kA], "TXT", "1"⟩, ⟨[['_', 't'], z32 kB], "TXT", "2"⟩, ⟨[z32 kA], "NS", "3"⟩]
private def bodyA : Body := ⟨72, kA ++ [0, 9], 5, [0, 9], 60, some recsA⟩
private def opsA : List Op := [.put (z32 kA) bodyA, .put (z32 kB) bodyA]
private def stA : Store := runOps vAll (fun _ => true) Store.empty opsA
set_option maxRecDepth 100000 in
example : answer (fun _ => true) [[['e', 'x']], []] stA [['_', 'T'], z32 kA, ['E', 'x']] "TXT" =
    .records [⟨[['_', 't'], z32 kA, ['e', 'x']], "TXT", "1"⟩] := by decide
set_option maxRecDepth 100000 in
example : (put vAll (fun _ => true) Store.empty (z32 kB) bodyA).2 = 400 := by decide
set_option maxRecDepth 100000 in
example : answer (fun _ => true) [[]] stA [['_', 't'], z32 kB] "TXT" = .nxdomain := by decide
set_option maxRecDepth 100000 in
example : answer (fun _ => true) [[]] stA [z32 kA] "NS" = .nxdomain := by decide

end IrohModel.C36
