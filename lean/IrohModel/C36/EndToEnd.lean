/-
C36 — END-TO-END theorems: C31 (endpoint info ⇄ TXT strings ⇄ packet), C37 (newest packet
wins) and C36 (PUT handler, zone filter, DNS answer) composed.

Assumed pieces (parameters / hypotheses, see Compose.lean): the DNS wire encoding of TXT
character-strings (`Wire.Faithful`, for the published packet), the signature check `verify`, the address text parsers and
curve-point validity (`Codecs`), and that the resolver's transport hands the answer's TXT
strings to `from_txt_lookup` unchanged.
-/
import IrohModel.C36.Compose
import IrohModel.C36.Theorems
import IrohModel.C31.Theorems
import IrohModel.C37.Theorems
import IrohModel.C32.Theorems

namespace IrohModel.C36.E2E
open IrohModel IrohModel.C36 IrohModel.Pkarr

/-! ### names -/

theorem asciiLower_alphabet : ∀ c ∈ zbase32.alphabet, asciiLower c = c := by decide

theorem lowerLabel_z32 (k : Key) : lowerLabel (z32 k) = z32 k := by
  unfold lowerLabel z32
  have h : ∀ c ∈ zbase32.encode k, asciiLower c = c := fun c hc =>
    asciiLower_alphabet c (BaseN.encode_subset_alphabet zbase32 k c hc)
  calc (zbase32.encode k).map asciiLower = (zbase32.encode k).map id := List.map_congr_left h
    _ = zbase32.encode k := List.map_id _

theorem lowerLabel_iroh : lowerLabel irohLabel = irohLabel := by decide

/-- `o` is the first configured origin that is a suffix of the queried name. -/
def FirstOrigin (origins : List Name) (qname o : Name) : Prop :=
  origins.find? (fun o' => (lowerName o').isSuffixOf (lowerName qname)) = some o

/-- The server parses `_iroh.<z32 K>.<origin>` as (rest = `_iroh`, key = `K`, that origin). -/
theorem parse_queryName {vp : Key → Bool} {origins : List Name} {K : Key} {o : Name}
    (hlen : K.length = 32) (hv : vp K = true) (ho : FirstOrigin origins (queryName K o) o) :
    parsePkarrName vp origins (lowerName (queryName K o)) = some ([irohLabel], K, o) := by
  unfold parsePkarrName
  unfold FirstOrigin at ho
  rw [ho]
  have hq : lowerName (queryName K o) = irohLabel :: z32 K :: lowerName o := by
    simp [queryName, lowerName, lowerLabel_z32, lowerLabel_iroh]
  have hlo : (lowerName o).length = o.length := by simp [lowerName]
  rw [hq]
  simp only [List.length_cons, hlo]
  have h1 : ¬ (o.length + 1 + 1 < o.length + 1) := by omega
  have h2 : o.length + 1 + 1 - o.length - 1 = 1 := by omega
  simp only [h1, if_false, h2, List.getElem?_cons_succ, List.getElem?_cons_zero,
    parseKey_z32 vp K hlen hv, List.take_succ_cons, List.take_zero]

/-! ### what the zone of a published packet answers -/

theorem zoneRecords_txtRecs (p : SPacket) (txts : List Str) (h : p.records = txtRecs p.key txts) :
    zoneRecords p = txts.map fun s => ⟨[irohLabel], "TXT", tagOf s⟩ := by
  unfold zoneRecords
  rw [h]
  unfold txtRecs
  rw [List.filterMap_map]
  have : ∀ s : Str, (zoneRec p.key ∘ fun s => (⟨[irohLabel, z32 p.key], "TXT", tagOf s⟩ : Rec)) s =
      some ⟨[irohLabel], "TXT", tagOf s⟩ := by
    intro s
    have hex : excluded "TXT" = false := by
      cases h' : excluded "TXT" with
      | false => rfl
      | true => rw [excluded_iff] at h'; rcases h' with h' | h' <;> exact absurd h' (by decide)
    simp [zoneRec, hex, Generated.C36.zoneLabelMustEqualKey]
  have hfun : (zoneRec p.key ∘ fun s => (⟨[irohLabel, z32 p.key], "TXT", tagOf s⟩ : Rec)) =
      fun s => some (⟨[irohLabel], "TXT", tagOf s⟩ : Rec) := funext this
  rw [hfun]
  induction txts with
  | nil => rfl
  | cons s ss ih => simp [List.filterMap_cons]

theorem select_iroh_txt (txts : List Str) :
    select (txts.map fun s => (⟨[irohLabel], "TXT", tagOf s⟩ : Rec)) [irohLabel] "TXT" =
      txts.map fun s => ⟨[irohLabel], "TXT", tagOf s⟩ := by
  unfold select
  have hne : ("TXT" == "CNAME") = false := by decide
  simp only [hne, Bool.false_eq_true, if_false]
  apply List.filter_eq_self.mpr
  intro r hr
  rw [List.mem_map] at hr
  obtain ⟨s, _, rfl⟩ := hr
  simp [lowerName, lowerLabel_iroh]

/-- If the store holds for `K` a packet whose records are those of the TXT strings `txts`
(not empty), the TXT query for `_iroh.<z32 K>.<origin>` is answered with exactly these strings. -/
theorem answer_of_stored_txts {vp : Key → Bool} {origins : List Name} {st : Store} {K : Key}
    {o : Name} {q : SPacket} {txts : List Str}
    (hlen : K.length = 32) (hv : vp K = true) (ho : FirstOrigin origins (queryName K o) o)
    (hst : st K = some q) (hkey : q.key = K) (hrec : q.records = txtRecs K txts) (hne : txts ≠ []) :
    ∃ rs, answer vp origins st (queryName K o) "TXT" = .records rs ∧
      rs.map (fun r => r.tag.toList) = txts := by
  unfold answer
  have h1 : ("TXT" == "SOA") = false := by decide
  have h2 : ("TXT" == "NS") = false := by decide
  simp only [h1, h2, Bool.false_eq_true, if_false, parse_queryName hlen hv ho, hst]
  have hz := zoneRecords_txtRecs q txts (by rw [hkey]; exact hrec)
  rw [hz, select_iroh_txt]
  cases txts with
  | nil => exact absurd rfl hne
  | cons s ss =>
    simp only [List.map_cons]
    refine ⟨_, rfl, ?_⟩
    simp [tagOf, String.toList_ofList, Function.comp_def]

/-! ### bridge to C37: the entry of one key is C37's store fed with the accepted packets -/

theorem moreRecent36_eq (a b : SPacket) : C36.moreRecent a b = moreRecentThan (ord a) (ord b) := by
  simp only [C36.moreRecent, Generated.C36.tsOp, Generated.C36.tieOp, moreRecentBy_gt_gt]

/-- The packets the server accepted for key `K`, in order. -/
def acceptedFor (verify : Verify) (vp : Key → Bool) (K : Key) : List Op → List SPacket
  | [] => []
  | .put l b :: ops =>
    match parseKey vp l with
    | some k =>
      if k = K then
        match fromRelayPayload verify k b with
        | some p => p :: acceptedFor verify vp K ops
        | none => acceptedFor verify vp K ops
      else acceptedFor verify vp K ops
    | none => acceptedFor verify vp K ops
  | _ :: ops => acceptedFor verify vp K ops

theorem upsert_bridge {st : Store} {s37 : C37.Store} {K : Key} {p : SPacket} (hk : p.key = K)
    (h : (st K).map ord = s37 0) : ((upsert st p) K).map ord = (C37.upsert s37 (ord p)).1 0 := by
  rw [C37.upsert_def]
  unfold upsert
  have hk0 : (ord p).key = 0 := rfl
  rw [hk0, ← h, hk]
  cases hs : st K with
  | none => simp [Store.set, C37.Store.set]
  | some e =>
    simp only [Option.map_some, moreRecent36_eq]
    by_cases hm : moreRecentThan (ord e) (ord p) = true
    · have h' : s37 0 = some (ord e) := by rw [← h, hs]; rfl
      simp [hm, hs, h']
    · simp [hm, Store.set, C37.Store.set]

theorem finalStore_cons (s : C37.Store) (p : Packet) (ps : List Packet) :
    C37.finalStore s (p :: ps) = C37.finalStore (C37.upsert s p).1 ps := by
  simp [C37.finalStore, C37.publishAll]

theorem runOps_bridge (verify : Verify) (vp : Key → Bool) (K : Key) (ops : List Op) :
    ∀ (st : Store) (s37 : C37.Store), (st K).map ord = s37 0 →
      ((runOps verify vp st ops) K).map ord =
        C37.finalStore s37 ((acceptedFor verify vp K ops).map ord) 0 := by
  induction ops with
  | nil => intro st s37 h; simpa [runOps, acceptedFor, C37.finalStore, C37.publishAll] using h
  | cons op ops ih =>
    intro st s37 h
    cases op with
    | get l => simpa [runOps, acceptedFor] using ih st s37 h
    | query n t => simpa [runOps, acceptedFor] using ih st s37 h
    | put l b =>
      simp only [runOps, acceptedFor]
      cases hk : parseKey vp l with
      | none =>
        have : (put verify vp st l b).1 = st := by unfold put; rw [hk]
        rw [this]; exact ih st s37 h
      | some k =>
        by_cases hkK : k = K
        · subst hkK
          simp only [if_true]
          cases hp : fromRelayPayload verify k b with
          | none =>
            have : (put verify vp st l b).1 = st := by unfold put; rw [hk]; simp only [hp]
            rw [this]; exact ih st s37 h
          | some p =>
            have hput : (put verify vp st l b).1 = upsert st p := by
              unfold put; rw [hk]; simp only [hp]
            rw [hput, List.map_cons, finalStore_cons]
            exact ih _ _ (upsert_bridge (fromRelayPayload_some hp).2.2.2.1 h)
        · simp only [hkK, if_false]
          have hsame : (put verify vp st l b).1 K = st K :=
            put_other_key verify vp st l b K (by rw [hk]; intro hc; cases hc; exact hkK rfl)
          exact ih _ s37 (by rw [hsame]; exact h)

theorem mem_acceptedFor {verify : Verify} {vp : Key → Bool} {K : Key} {ops : List Op} {p : SPacket}
    (h : p ∈ acceptedFor verify vp K ops) :
    ∃ l b, Op.put l b ∈ ops ∧ parseKey vp l = some K ∧ fromRelayPayload verify K b = some p := by
  induction ops with
  | nil => simp [acceptedFor] at h
  | cons op ops ih =>
    cases op with
    | get l =>
      obtain ⟨l', b, hm, hr⟩ := ih (by simpa [acceptedFor] using h)
      exact ⟨l', b, List.mem_cons_of_mem _ hm, hr⟩
    | query n t =>
      obtain ⟨l', b, hm, hr⟩ := ih (by simpa [acceptedFor] using h)
      exact ⟨l', b, List.mem_cons_of_mem _ hm, hr⟩
    | put l b =>
      simp only [acceptedFor] at h
      have hrec : p ∈ acceptedFor verify vp K ops →
          ∃ l' b', Op.put l' b' ∈ Op.put l b :: ops ∧ parseKey vp l' = some K ∧
            fromRelayPayload verify K b' = some p := by
        intro h'
        obtain ⟨l', b', hm, hr⟩ := ih h'
        exact ⟨l', b', List.mem_cons_of_mem _ hm, hr⟩
      cases hk : parseKey vp l with
      | none => rw [hk] at h; exact hrec h
      | some k =>
        rw [hk] at h
        by_cases hkK : k = K
        · subst hkK
          simp only [if_true] at h
          cases hp : fromRelayPayload verify k b with
          | none => rw [hp] at h; exact hrec h
          | some p' =>
            rw [hp] at h
            rcases List.mem_cons.mp h with rfl | h'
            · exact ⟨l, b, List.mem_cons_self .., hk, hp⟩
            · exact hrec h'
        · simp only [hkK, if_false] at h; exact hrec h

theorem acceptedFor_append (verify : Verify) (vp : Key → Bool) (K : Key) (a b : List Op) :
    acceptedFor verify vp K (a ++ b) = acceptedFor verify vp K a ++ acceptedFor verify vp K b := by
  induction a with
  | nil => rfl
  | cons op ops ih =>
    cases op with
    | get l => simpa [acceptedFor] using ih
    | query n t => simpa [acceptedFor] using ih
    | put l bd =>
      simp only [List.cons_append, acceptedFor]
      cases parseKey vp l with
      | none => exact ih
      | some k =>
        by_cases hkK : k = K
        · simp only [hkK, if_true]
          cases fromRelayPayload verify K bd with
          | none => exact ih
          | some p => simp [ih]
        · simp only [hkK, if_false]; exact ih

/-! ### (1) publish, then resolve -/

/-- **End-to-end round trip.**  A well-formed endpoint info `i` that encodes into a packet
signed by its own key is PUT under its key with timestamp `ts`; before and after, anybody
publishes anything under other keys, and the same key publishes packets that are not more
recent (older timestamp, or the same timestamp with payload bytes not larger).  Then the TXT
query for `_iroh.<z32 id>.<origin>` is answered with records, and `from_txt_lookup` on the
answer's strings yields an info with the same id, the same address set and the same user
data.  (Hypothesis `hne`: an info without addresses and user data encodes to a packet without
records, which resolves as "no records".) -/
theorem publish_then_resolve_roundtrip
    (C : C31.Codecs) (verify : Verify) (W : Wire) (origins : List Name)
    (i : C31.Info) (hwf : C31.WF C i) (p : C31.Pkt)
    (henc : C31.toSignedPacket i.id i = .ok p) (hne : p.txts ≠ [])
    (hW : W.Faithful i.id p.txts)
    (sig : List UInt8) (ts : Nat)
    (hsig : verify i.id (ts, W.enc i.id p.txts) sig = true)
    (pre post : List Op)
    (hcoh : ∀ l b, Op.put l b ∈ pre ++ post → parseKey C.validKey l = some i.id → Coherent W b)
    (hold : ∀ l b, Op.put l b ∈ pre ++ post → parseKey C.validKey l = some i.id →
      moreRecentThan ⟨0, 0, b.ts, b.dns⟩ ⟨0, 0, ts, W.enc i.id p.txts⟩ = false)
    (o : Name) (ho : FirstOrigin origins (queryName i.id o) o) (originStr : Str) :
    ∃ i', resolve C origins (runOps verify C.validKey Store.empty
        (pre ++ [Op.put (z32 i.id) (publishBody W sig ts p)] ++ post)) i.id o originStr = .ok i' ∧
      i'.id = i.id ∧ i'.addrs.Perm i.addrs ∧ i'.userData = i.userData := by
  obtain ⟨⟨hstr, hsize⟩, hp⟩ := (C31.encodes_iff i.id i p).mp henc
  have hpkey : p.key = i.id := by rw [hp]
  have hptxts : p.txts = C31.toTxtStrings (C31.toAttrs i) := by rw [hp]
  have hlabel : parseKey C.validKey (z32 i.id) = some i.id :=
    parseKey_z32 C.validKey i.id hwf.idLen hwf.idValid
  -- the server accepts the publish
  have hacc : fromRelayPayload verify i.id (publishBody W sig ts p) =
      some ⟨i.id, sig, ts, W.enc i.id p.txts, txtRecs i.id p.txts⟩ := by
    unfold fromRelayPayload publishBody
    simp only [hpkey, hW.1, hW.2, Generated.C36.headerSize,
      Generated.C36.maxDnsPacketSize, Generated.C36.fromBytesVerifies, Bool.true_and]
    have h1 : ¬ (32 + 72 + C31.dnsSize i.id.length p.txts < 104) := by omega
    have h2 : ¬ (C31.dnsSize i.id.length p.txts > 1000) := by rw [hptxts]; omega
    simp only [h1, h2, hsig, if_false, Bool.not_true, Bool.false_eq_true]
  generalize hops : pre ++ [Op.put (z32 i.id) (publishBody W sig ts p)] ++ post = ops
  generalize hnewP : (⟨i.id, sig, ts, W.enc i.id p.txts, txtRecs i.id p.txts⟩ : SPacket) = newP at hacc
  -- C37: the stored entry for the key is a newest accepted packet
  have hbridge := runOps_bridge verify C.validKey i.id ops Store.empty C37.Store.empty
    (by simp [Store.empty, C37.Store.empty])
  have hmax := C37.stored_is_max ((acceptedFor verify C.validKey i.id ops).map ord) 0
  unfold C37.get at hmax
  rw [← hbridge] at hmax
  have hmemNew : newP ∈ acceptedFor verify C.validKey i.id ops := by
    rw [← hops, acceptedFor_append, acceptedFor_append]
    apply List.mem_append_left; apply List.mem_append_right
    simp [acceptedFor, hlabel, hacc]
  have hordNew : ord newP = ⟨0, 0, ts, W.enc i.id p.txts⟩ := by rw [← hnewP]; rfl
  have hnewest : C37.IsNewest ((acceptedFor verify C.validKey i.id ops).map ord) 0 (ord newP) := by
    refine ⟨List.mem_map.mpr ⟨newP, hmemNew, rfl⟩, by rw [hordNew], ?_⟩
    intro x hx _
    obtain ⟨q, hq, rfl⟩ := List.mem_map.mp hx
    obtain ⟨l, b, hm, hl, hq'⟩ := mem_acceptedFor hq
    obtain ⟨_, _, _, _, _, hqts, hqdns⟩ := fromRelayPayload_some hq'
    rw [← hops] at hm
    simp only [List.mem_append, List.mem_singleton] at hm
    rw [hordNew]
    rcases hm with (hm | hm) | hm
    · have := hold l b (List.mem_append_left _ hm) hl
      simpa [ord, hqts, hqdns] using this
    · cases hm
      rw [hacc] at hq'; cases hq'
      rw [← hordNew]; exact mr_irrefl _
    · have := hold l b (List.mem_append_right _ hm) hl
      simpa [ord, hqts, hqdns] using this
  cases hq : runOps verify C.validKey Store.empty ops i.id with
  | none =>
    rw [hq] at hmax
    simp only [Option.map_none, C37.Holds] at hmax
    exact absurd rfl (hmax (ord newP) (List.mem_map.mpr ⟨newP, hmemNew, rfl⟩))
  | some q =>
    rw [hq] at hmax
    simp only [Option.map_some, C37.Holds] at hmax
    have hcontent := (C37.newest_unique hmax hnewest).2
    rw [hordNew] at hcontent
    simp only [Packet.content, ord, Prod.mk.injEq] at hcontent
    obtain ⟨hqts, hqdns⟩ := hcontent
    -- the stored packet came from a body of the history; by coherence its records are the
    -- parse of its DNS bytes, which are the published ones
    have hinv : StoreInv verify C.validKey ([] ++ ops) (runOps verify C.validKey Store.empty ops) :=
      storeInv_runOps (seen := []) (by intro k p hk; simp [Store.empty] at hk) ops
    obtain ⟨hqkey, _, l, b, hm, hl, _, _, hbdns, hbrec⟩ := hinv i.id q hq
    have hrecs : q.records = txtRecs i.id p.txts := by
      rw [List.nil_append, ← hops] at hm
      simp only [List.mem_append, List.mem_singleton] at hm
      have hparse : some q.records = W.parse q.dns := by
        rcases hm with (hm | hm) | hm
        · have := (hcoh l b (List.mem_append_left _ hm) hl).1
          rw [← hbrec, this, hbdns]
        · cases hm
          simp only [publishBody] at hbrec hbdns
          rw [← hbrec, hbdns]
        · have := (hcoh l b (List.mem_append_right _ hm) hl).1
          rw [← hbrec, this, hbdns]
      rw [hqdns, hW.1] at hparse
      exact Option.some.inj hparse
    obtain ⟨rs, hans, hstrs⟩ := answer_of_stored_txts (vp := C.validKey) (origins := origins)
      hwf.idLen hwf.idValid ho hq hqkey hrecs hne
    obtain ⟨i', hlk, hid, haddrs, hud⟩ := C31.rt_txt C i originStr hwf
    refine ⟨i', ?_, hid, haddrs, hud⟩
    unfold resolve
    rw [hans]
    simp only [hstrs, hptxts, hlk]

/-! ### (2) nothing foreign is ever resolved -/

theorem push_id (a : C31.Attrs) (k : C31.Attr) (v : Str) : (a.push k v).id = a.id := by
  cases k <;> rfl

theorem fromStringsGo_id (acc : C31.Attrs) (l : List Str) (a : C31.Attrs)
    (h : C31.fromStringsGo acc l = .ok a) : a.id = acc.id := by
  induction l generalizing acc with
  | nil => simp only [C31.fromStringsGo, Except.ok.injEq] at h; rw [← h]
  | cons s rest ih =>
    simp only [C31.fromStringsGo] at h
    cases hs : C31.splitOnce '=' s with
    | none => rw [hs] at h; cases h
    | some kv =>
      rw [hs] at h
      simp only at h
      cases hk : C31.Attr.ofName? kv.1 with
      | none => rw [hk] at h; cases h
      | some k =>
        rw [hk] at h
        have := ih _ h
        rw [this, push_id]

/-- **No foreign info.**  Whatever anybody PUTs (any paths, bodies, signatures), if resolving
`K` at an origin yields an info, then its id is `K`, and it is the decoding
(`from_strings` + `endpoint_info_from_attrs`) of TXT strings that all come from one request
body of the history that was PUT under a path decoding to `K`, whose signature verified under
`K`, each string being the rdata of a TXT record of that body under `K`'s zone label. -/
theorem resolve_never_yields_foreign_info
    (C : C31.Codecs) (verify : Verify) (origins : List Name) (ops : List Op)
    (K : Key) (hlen : K.length = 32) (hv : C.validKey K = true)
    (o : Name) (ho : FirstOrigin origins (queryName K o) o) (originStr : Str) (info : C31.Info)
    (h : resolve C origins (runOps verify C.validKey Store.empty ops) K o originStr = .ok info) :
    info.id = K ∧
    ∃ label b recs strings attrs,
      Op.put label b ∈ ops ∧ parseKey C.validKey label = some K ∧
      verify K (b.ts, b.dns) b.sig = true ∧ b.records = some recs ∧
      (∀ s ∈ strings, ∃ r0 ∈ recs, r0.rtype = "TXT" ∧ r0.tag.toList = s ∧
          ∃ zl, r0.name.getLast? = some zl ∧ lowerLabel zl = lowerLabel (z32 K)) ∧
      C31.fromStrings K strings = .ok attrs ∧ info = C31.fromAttrs C attrs := by
  unfold resolve at h
  cases hans : answer C.validKey origins (runOps verify C.validKey Store.empty ops)
      (queryName K o) "TXT" with
  | nxdomain => rw [hans] at h; cases h
  | staticSoa => rw [hans] at h; cases h
  | records rs =>
    rw [hans] at h
    simp only at h
    have hidn := C31.id_of_txtName C K originStr hlen hv
    cases hlk : C31.fromTxtLookup C (C31.txtName K originStr) (rs.map fun r => r.tag.toList) with
    | error e => rw [hlk] at h; cases h
    | ok i' =>
      rw [hlk] at h
      simp only [Except.ok.injEq] at h
      subst h
      unfold C31.fromTxtLookup at hlk
      rw [hidn] at hlk
      simp only at hlk
      cases hfs : C31.fromStrings K (rs.map fun r => r.tag.toList) with
      | error e => rw [hfs] at hlk; cases hlk
      | ok attrs =>
        rw [hfs] at hlk
        simp only [Except.ok.injEq] at hlk
        have hattrid : attrs.id = K := fromStringsGo_id _ _ _ hfs
        refine ⟨by rw [← hlk]; exact hattrid, ?_⟩
        obtain ⟨rest, k, o', label, b, recs, hparse, hmem, hlabel, hver, hrec, hall⟩ :=
          answers_only_from_packets_signed_by_key verify C.validKey origins ops hans
        rw [parse_queryName hlen hv ho] at hparse
        simp only [Option.some.injEq, Prod.mk.injEq] at hparse
        obtain ⟨_, hk, _⟩ := hparse
        subst hk
        refine ⟨label, b, recs, rs.map (fun r => r.tag.toList), attrs, hmem, hlabel, hver, hrec, ?_,
          hfs, hlk.symm⟩
        intro s hs
        obtain ⟨r, hr, rfl⟩ := List.mem_map.mp hs
        obtain ⟨r0, hr0, _, _, htype, hzl, _, _, htag, _⟩ := hall r hr
        exact ⟨r0, hr0, htype, by rw [htag], hzl⟩

/-! ### the PUT handler's acceptance is C32's `from_relay_payload` -/

/-- C36's abstraction of the request body agrees with C32's byte-level
`SignedPacket::from_relay_payload(key, sig ‖ be64 ts ‖ dns)`: the server accepts the body iff
C32 accepts the bytes, when C32's environment answers the signature check and the DNS parse
the way C36's parameters do. -/
theorem put_acceptance_is_c32_acceptance (E : C32.Env) (verify : Verify) (k sig dns : List UInt8)
    (ts : Nat) (recs : Option (List Rec))
    (hk : k.length = 32) (hsig : sig.length = 64) (hts : ts < 18446744073709551616)
    (hvalid : E.validPoint k = true)
    (hver : E.verify k (C32.signable ts dns) sig = verify k (ts, dns) sig)
    (hdns : E.dnsParses dns = recs.isSome) :
    (∃ p, C32.fromRelayPayload E k (sig ++ C32.be64 ts ++ dns) = .ok p) ↔
      (fromRelayPayload verify k ⟨72, sig, ts, dns, dns.length, recs⟩).isSome = true := by
  have hb := C32.be64_length ts
  have e1 : (sig ++ C32.be64 ts ++ dns).take 64 = sig := by
    rw [List.append_assoc, List.take_append_of_le_length (by omega), ← hsig, List.take_length]
  have e2 : (sig ++ C32.be64 ts ++ dns).drop 64 = C32.be64 ts ++ dns := by
    rw [List.append_assoc, ← hsig, List.drop_left]
  have e3 : ((sig ++ C32.be64 ts ++ dns).drop 64).take 8 = C32.be64 ts := by
    rw [e2, ← hb, List.take_left]
  have e4 : (sig ++ C32.be64 ts ++ dns).drop 72 = dns := by
    rw [show 72 = 64 + 8 from rfl, ← List.drop_drop, e2, ← hb, List.drop_left]
  have elen : (sig ++ C32.be64 ts ++ dns).length = 72 + dns.length := by
    simp [hsig, hb]; omega
  constructor
  · rintro ⟨p, hp⟩
    obtain ⟨⟨_, h2, _, h4, h5⟩, _⟩ := (C32.relay_accept_iff_authentic E k _ hk p).mp hp
    rw [e1, e3, e4, C32.beNat_be64 ts hts, hver] at h4
    rw [e4, hdns] at h5
    rw [elen] at h2
    unfold fromRelayPayload
    simp only [Generated.C36.headerSize, Generated.C36.maxDnsPacketSize,
      Generated.C36.fromBytesVerifies, Bool.true_and, h4, Bool.not_true, Bool.false_eq_true, if_false]
    have h1' : ¬ (32 + 72 + dns.length < 104) := by omega
    have h2' : ¬ (dns.length > 1000) := by omega
    simp only [h1', h2', if_false]
    cases recs with
    | none => simp at h5
    | some rs => rfl
  · intro h
    unfold fromRelayPayload at h
    simp only [Generated.C36.headerSize, Generated.C36.maxDnsPacketSize,
      Generated.C36.fromBytesVerifies, Bool.true_and] at h
    have h1' : ¬ (32 + 72 + dns.length < 104) := by omega
    simp only [h1', if_false] at h
    by_cases hlen : dns.length > 1000
    · simp [hlen] at h
    · simp only [hlen, if_false] at h
      by_cases hv : verify k (ts, dns) sig = true
      · simp only [hv, Bool.not_true, Bool.false_eq_true, if_false] at h
        cases recs with
        | none => simp at h
        | some rs =>
          refine ⟨⟨k ++ (sig ++ C32.be64 ts ++ dns)⟩, ?_⟩
          apply (C32.relay_accept_iff_authentic E k _ hk _).mpr
          refine ⟨⟨by rw [elen]; omega, by rw [elen]; omega, hvalid, ?_, ?_⟩, rfl⟩
          · rw [e1, e3, e4, C32.beNat_be64 ts hts, hver]; exact hv
          · rw [e4, hdns]; rfl
      · simp [hv] at h

/-! ### Non-vacuity: the default origins, a concrete wire codec and a concrete round trip -/

/-- With the default configuration (`irohdns.example.` then the root) both origins are the
first match for their own names. -/
example (K : Key) :
    FirstOrigin [["irohdns".toList, "example".toList], []]
      (queryName K ["irohdns".toList, "example".toList]) ["irohdns".toList, "example".toList] ∧
    FirstOrigin [["irohdns".toList, "example".toList], []] (queryName K []) [] := by
  constructor
  · simp [FirstOrigin, queryName, lowerName, List.find?, List.isSuffixOf, List.isPrefixOf, lowerLabel]
  · have hf : (lowerLabel ['i', 'r', 'o', 'h', 'd', 'n', 's'] == lowerLabel irohLabel) = false := by
      decide
    simp [FirstOrigin, queryName, lowerName, List.find?, List.isSuffixOf, List.isPrefixOf, hf]

/-- All hypotheses of the round trip are jointly satisfiable: C31's well-formed toy info (with
`=` inside a URL and the user data), an ideal signature, a wire codec faithful for its packet,
a foreign publish before and an older publish by the same key after. -/
example : ∃ i', resolve C31.toyC [["irohdns".toList, "example".toList], []]
      (runOps (fun k m s => s == k ++ m.2) C31.toyC.validKey Store.empty
        ([Op.put (z32 (List.replicate 32 9)) ⟨72, [], 1, [], 0, some []⟩] ++
         [Op.put (z32 C31.toyInfo.id)
            (publishBody ⟨fun k t => List.replicate (C31.dnsSize k.length t) 0,
                          fun _ => some (txtRecs C31.toyInfo.id (C31.toTxtStrings (C31.toAttrs C31.toyInfo)))⟩
              (C31.toyInfo.id ++ List.replicate (C31.dnsSize 32 (C31.toTxtStrings (C31.toAttrs C31.toyInfo))) 0)
              5 ⟨C31.toyInfo.id, C31.toTxtStrings (C31.toAttrs C31.toyInfo)⟩)] ++
         [Op.put (z32 C31.toyInfo.id)
            ⟨72, [], 4, [], 0, some (txtRecs C31.toyInfo.id (C31.toTxtStrings (C31.toAttrs C31.toyInfo)))⟩]))
      C31.toyInfo.id [] "".toList = .ok i' ∧
    i'.id = C31.toyInfo.id ∧ i'.addrs.Perm C31.toyInfo.addrs ∧ i'.userData = C31.toyInfo.userData := by
  apply publish_then_resolve_roundtrip C31.toyC _ _ _ C31.toyInfo C31.toyInfo_wf
    ⟨C31.toyInfo.id, C31.toTxtStrings (C31.toAttrs C31.toyInfo)⟩
  · exact (C31.encodes_iff _ _ _).mpr ⟨⟨by decide, by decide⟩, rfl⟩
  · decide
  · exact ⟨rfl, by simp [C31.toyInfo]⟩
  · simp [C31.toyInfo]
  · intro l b hm hl
    simp only [List.mem_append, List.mem_singleton] at hm
    rcases hm with hm | hm
    · cases hm
      rw [parseKey_z32 _ _ (by decide) rfl] at hl
      exact absurd (Option.some.inj hl) (by decide)
    · cases hm; exact ⟨rfl, rfl⟩
  · intro l b hm hl
    simp only [List.mem_append, List.mem_singleton] at hm
    rcases hm with hm | hm
    · cases hm
      rw [parseKey_z32 _ _ (by decide) rfl] at hl
      exact absurd (Option.some.inj hl) (by decide)
    · cases hm; simp [moreRecentThan]
  · have hf : (lowerLabel ['i', 'r', 'o', 'h', 'd', 'n', 's'] == lowerLabel irohLabel) = false := by
      decide
    simp [FirstOrigin, queryName, lowerName, List.find?, List.isSuffixOf, List.isPrefixOf, hf]

end IrohModel.C36.E2E
