/-
C15 — property theorems (only).  Statement of the property:

  When an endpoint dials a relay, every address that name resolution yields is eventually
  attempted unless a connection has already succeeded, and the first successful attempt is
  returned.  The first attempt uses the preferred family whenever such an address resolves
  within the resolution delay, and later attempts alternate families while both have untried
  addresses.  Dialing fails only after resolution has finished and every attempt has failed.

All theorems are about `run (start p) evs = some s`: `evs` is an arbitrary schedule of
`(time, arm)` pairs — any order and timing in which the resolve stream yields addresses,
errors and its end, connection attempts connect or fail (a hang that ends in the attempt
timeout is a failure), and the delay timer fires — for both family preferences `p`.
`s.attempts` is the attempt log, `s.resolved` the addresses resolution yielded.
-/
import IrohModel.C15.Lemmas

namespace IrohModel.C15

open IrohModel.C35 (Fam Addr)

variable {p : Bool} {evs : List (Nat × Choice)} {s : DState}

/-! ### dialing fails only after resolution finished and every attempt failed -/

/-- If the function returned an error then the resolve stream had ended, every address it
yielded was attempted (exactly once: the attempted addresses are a permutation of the
resolved ones, nothing is left queued), every attempt had failed, and the error is the last
one seen (or "no response" if there was none). -/
theorem all_attempted (h : run (start p) evs = some s) (e : Err) (he : s.result = some (.error e)) :
    s.finished = true ∧ s.queue = [] ∧
    s.resolved.Perm (s.attempts.map (·.addr)) ∧
    s.failed.Perm (List.range s.attempts.length) ∧
    e = s.lastErr.getD noResponse := by
  have inv := inv_reachable h
  obtain ⟨hf, hq, hi, hle⟩ := inv.errExit e he
  refine ⟨hf, hq, ?_, ?_, hle⟩
  · simpa [hq] using inv.conserve
  · simpa [hi, succOf, he] using inv.partition

/-- At every moment, resolved addresses are conserved: each is in exactly one of the attempt
log and the queue; and each attempt is in flight, failed, or the one that connected. -/
theorem addresses_conserved (h : run (start p) evs = some s) :
    s.resolved.Perm (s.attempts.map (·.addr) ++ s.queue) ∧
    (s.inflight ++ s.failed ++ succOf s).Perm (List.range s.attempts.length) :=
  ⟨(inv_reachable h).conserve, (inv_reachable h).partition⟩

/-! ### every address is eventually attempted: no state with work pending and nothing to wait for -/

/-- While the function has not returned, a queued address always has the attempt/resolution
timer armed (so its turn comes after at most that delay), and at least one `select!` arm is
enabled: the loop can never park with all three arms disabled. -/
theorem progress_run {evs : List (Nat × Choice)} :
    ∀ {s0 s : DState}, run s0 evs = some s →
      (s0.result = none → (s0.queue ≠ [] → s0.timer.isSome = true) ∧
        (s0.inflight ≠ [] ∨ s0.finished = false ∨ s0.timer.isSome = true)) →
      s.result = none → (s.queue ≠ [] → s.timer.isSome = true) ∧
        (s.inflight ≠ [] ∨ s.finished = false ∨ s.timer.isSome = true) := by
  induction evs with
  | nil => intro s0 s h h0; simp only [run, Option.some.injEq] at h; subst h; exact h0
  | cons e evs ih =>
    intro s0 s h _
    obtain ⟨t, c⟩ := e
    simp only [run] at h
    cases hs : step t s0 c with
    | none => simp [hs] at h
    | some s1 =>
      simp only [hs, Option.bind_some] at h
      obtain ⟨_, _, rfl⟩ := step_some hs
      exact ih h (top_progress t _)

theorem progress (h : run (start p) evs = some s) (hr : s.result = none) :
    (s.queue ≠ [] → s.timer.isSome = true) ∧
    (s.inflight ≠ [] ∨ s.finished = false ∨ s.timer.isSome = true) :=
  progress_run h (top_progress 0 (init0 p)) hr

/-! ### the first successful attempt is returned -/

/-- The function has returned `Ok i` iff attempt `i` is the first attempt the schedule reports
as connected. -/
theorem first_success_returned (h : run (start p) evs = some s) (i : Nat) :
    s.result = some (.ok i) ↔ (oksOf evs).head? = some i := by
  have hstart : (start p).result = none := by
    simp [start, top, init0, popFamily, position?]
  obtain ⟨h1, h2⟩ := ok_history (hist := []) (s := start p) (s' := s) (evs := evs)
    (by intro i hi; simp [hstart] at hi) (by intro _; rfl) h
  simp only [List.nil_append] at h1 h2
  constructor
  · intro hi
    obtain ⟨pre, t, hev, hpre⟩ := h1 i hi
    rw [hev, oksOf_append, hpre]
    rfl
  · intro hhead
    cases hr : s.result with
    | none => rw [h2 (by intro j; simp [hr])] at hhead; simp at hhead
    | some x =>
      cases x with
      | error e => rw [h2 (by intro j; simp [hr])] at hhead; simp at hhead
      | ok j =>
        obtain ⟨pre, t, hev, hpre⟩ := h1 j hr
        rw [hev, oksOf_append, hpre] at hhead
        simp [oksOf] at hhead
        rw [hhead]

/-- It is returned at once: the schedule ends with that report and nothing connected before. -/
theorem success_returns_at_once (h : run (start p) evs = some s) (i : Nat)
    (hi : s.result = some (.ok i)) :
    ∃ pre t, evs = pre ++ [(t, .dialDone i none)] ∧ oksOf pre = [] := by
  have hstart : (start p).result = none := by
    simp [start, top, init0, popFamily, position?]
  obtain ⟨h1, _⟩ := ok_history (hist := []) (s := start p) (s' := s) (evs := evs)
    (by intro i hi; simp [hstart] at hi) (by intro _; rfl) h
  simpa using h1 i hi

/-! ### the first attempt uses the preferred family -/

theorem prefer6_const {evs : List (Nat × Choice)} : ∀ {s s' : DState}, run s evs = some s' →
    s'.prefer6 = s.prefer6 := by
  induction evs with
  | nil => intro s s' h; simp only [run, Option.some.injEq] at h; subst h; rfl
  | cons e evs ih =>
    intro s s' h
    obtain ⟨t, c⟩ := e
    simp only [run] at h
    cases hs : step t s c with
    | none => simp [hs] at h
    | some s1 =>
      simp only [hs, Option.bind_some] at h
      rw [ih h]
      obtain ⟨_, _, rfl⟩ := step_some hs
      have htop : ∀ x : DState, (top t x).prefer6 = x.prefer6 := by
        intro x; unfold top
        split
        · rfl
        · split
          · rfl
          · split
            · cases popFamily x.queue x.nextV6 with
              | none => rfl
              | some y => obtain ⟨a, q, w⟩ := y; rfl
            · rfl
      rw [htop]
      cases c with
      | dialDone i err => cases err <;> rfl
      | resolved item =>
        cases item with
        | addr a =>
          simp only [select]
          split
          · split
            · rfl
            · split <;> rfl
          · rfl
        | err e => rfl
        | fin => simp only [select]; split <;> rfl
      | timerFired => rfl

/-- The first attempt was taken from a queue that holds everything resolved until then, and it
is of the preferred family whenever that queue contained a preferred-family address: a
non-preferred first attempt means no preferred address had been resolved before it. -/
theorem preferred_first (h : run (start p) evs = some s) (a0 : Attempt)
    (h0 : s.attempts[0]? = some a0) :
    a0.queueAtStart <+: s.resolved ∧ a0.addr ∈ a0.queueAtStart ∧
    ((∃ b, b ∈ a0.queueAtStart ∧ isV6 b = p) → isV6 a0.addr = p) := by
  have inv := inv_reachable h
  have hp : s.prefer6 = p := by
    rw [prefer6_const h]
    simp [start, top, init0, popFamily, position?]
  have hok := chain_get (k := 0) inv.chain h0
  obtain ⟨hw, q, w, hpop⟩ := hok
  simp only at hw
  obtain ⟨hmem, _, _, hpref⟩ := popFamily_spec hpop
  rw [hw, hp] at hpref
  exact ⟨inv.firstQueue a0 h0, hmem, hpref⟩

/-- Until the first attempt the dialer only waits on the *resolution* delay: it never starts
a non-preferred attempt while that delay is running (a queued address before the first attempt
means the resolution-delay timer is armed). -/
theorem waits_resolution_delay (h : run (start p) evs = some s) (hr : s.result = none)
    (hs : s.started = false) (hq : s.queue ≠ []) :
    ∃ t, s.timer = some t ∧ t.kind = .resolution := by
  have inv := inv_reachable h
  have := (progress h hr).1 hq
  cases ht : s.timer with
  | none => simp [ht] at this
  | some t => exact ⟨t, rfl, inv.resolutionTimer hs t ht⟩

/-! ### later attempts alternate families while both have untried addresses -/

/-- Attempt `k + 1` was taken from the queue of that moment, and if that queue held an address
of the family opposite to attempt `k`'s (in particular if it held both families) then attempt
`k + 1` is of that opposite family. -/
theorem alternation (h : run (start p) evs = some s) (k : Nat) (prev cur : Attempt)
    (hk : s.attempts[k]? = some prev) (hk1 : s.attempts[k + 1]? = some cur) :
    cur.addr ∈ cur.queueAtStart ∧
    ((∃ b, b ∈ cur.queueAtStart ∧ isV6 b ≠ isV6 prev.addr) → isV6 cur.addr ≠ isV6 prev.addr) := by
  have inv := inv_reachable h
  have hok := chain_get (k := k + 1) inv.chain hk1
  simp only [hk] at hok
  obtain ⟨hw, q, w, hpop⟩ := hok
  simp only at hw
  obtain ⟨hmem, _, _, hpref⟩ := popFamily_spec hpop
  refine ⟨hmem, ?_⟩
  rintro ⟨b, hb, hne⟩
  have : isV6 cur.addr = cur.wantedV6 := hpref ⟨b, hb, by
    rw [hw]; cases hb6 : isV6 b <;> cases hp6 : isV6 prev.addr <;> simp_all⟩
  rw [this, hw]
  cases isV6 prev.addr <;> simp

/-- Record of defect D4: with the original `pop_family` (which flipped the wanted family) two
consecutive attempts took the same family although the other family was queued. -/
theorem original_not_alternating :
    ∃ (q : List Addr) (a b : Addr) (q1 q2 : List Addr) (w1 w2 : Bool),
      popFamilyOriginal q true = some (a, q1, w1) ∧
      popFamilyOriginal (q1 ++ [⟨.v6, 7⟩]) w1 = some (b, q2, w2) ∧
      isV6 a = isV6 b ∧ (∃ c, c ∈ q1 ++ [⟨.v6, 7⟩] ∧ isV6 c ≠ isV6 a) :=
  ⟨[⟨.v4, 1⟩, ⟨.v4, 2⟩], ⟨.v4, 1⟩, ⟨.v4, 2⟩, [⟨.v4, 2⟩], [⟨.v6, 7⟩], false, true,
    by decide, by decide, by decide, ⟨⟨.v6, 7⟩, by decide, by decide⟩⟩

/-! ### both call sites of the dialer in the connection builder -/

/-- Through `dial_url` — directly or through a proxy — a connection is reported only for the
attempt the dialer returned (so it is the first attempt that connected), the direct path
passes the dialer's result through unchanged, and the proxy path changes it in exactly two
ways: a missing port is reported as the proxy's, and a non-2xx answer to `CONNECT` turns the
connected attempt into an error. -/
theorem dial_url_paths (path : Path) (r : Except Err Nat) :
    (∀ i, dialUrlResult path r = .ok i → r = .ok i) ∧
    (dialUrlResult .direct r = r) ∧
    (∀ st e, r = .error e → e ≠ "port" → dialUrlResult (.proxy st) r = .error e) ∧
    (∀ st i, r = .ok i → 200 ≤ st → st < 300 → dialUrlResult (.proxy st) r = .ok i) := by
  refine ⟨?_, ?_, ?_, ?_⟩
  · intro i h
    cases path with
    | direct => simpa [dialUrlResult] using h
    | proxy st =>
      cases r with
      | ok j =>
        simp only [dialUrlResult] at h
        split at h
        · exact h
        · cases h
      | error e =>
        simp only [dialUrlResult] at h
        split at h <;> cases h
  · cases r <;> rfl
  · intro st e hr hne; subst hr; simp [dialUrlResult, hne]
  · intro st i hr h1 h2; subst hr; simp [dialUrlResult, h1, h2]

/-- The hop that `dial_url` dials — the relay itself or, with a proxy configured, the proxy —
is dialed with the builder's family preference: for any schedule of that hop's dial, its
first attempt is taken from everything resolved so far and is of the builder's preferred
family whenever such an address is there, and until then only the resolution delay is waited
on.  (In particular a configured proxy does not lose the IPv6 preference.) -/
theorem proxy_hop_uses_builder_preference (path : Path) (p : Bool) {evs : List (Nat × Choice)}
    {s : DState} (h : run (dialUrlStart path p) evs = some s) :
    s.prefer6 = p ∧
    (∀ a0, s.attempts[0]? = some a0 →
      a0.queueAtStart <+: s.resolved ∧ a0.addr ∈ a0.queueAtStart ∧
      ((∃ b, b ∈ a0.queueAtStart ∧ isV6 b = p) → isV6 a0.addr = p)) ∧
    (s.result = none → s.started = false → s.queue ≠ [] →
      ∃ t, s.timer = some t ∧ t.kind = .resolution) := by
  have h' : run (start p) evs = some s := h
  refine ⟨?_, fun a0 h0 => preferred_first h' a0 h0, fun hr hs hq => waits_resolution_delay h' hr hs hq⟩
  rw [prefer6_const h']
  simp [start, top, init0, popFamily, position?]

/-- Source shape: at both call sites in the connection builder the preference argument of
`dial_happy_eyeballs` is literally `self.prefer_ipv6` (extraction fails on anything else). -/
theorem hop_preference_source_shape :
    Generated.C15.proxyHopPreferArg = 1 ∧ Generated.C15.directHopPreferArg = 1 := ⟨rfl, rfl⟩

/-! ### the timed environment of the driver only ever takes steps of the transition system -/

/-- `d` is the result of some schedule. -/
def Reach (p : Bool) (d : DState) : Prop := ∃ evs, run (start p) evs = some d

theorem selectArm_d (sim : Sim) : (selectArm sim).1.d = sim.d := by
  unfold selectArm
  split
  · rfl
  · simp only
    split <;> rename_i hpolled
    · split at hpolled
      · simp only [Prod.mk.injEq] at hpolled; rw [← hpolled.1]
      · split at hpolled <;> (simp only [Prod.mk.injEq] at hpolled; rw [← hpolled.1])
    · have hd : ∀ x : Sim, x.d = sim.d → (match x.d.timer with
          | some t => if t.deadline ≤ x.now then (x, some Choice.timerFired) else (x, none)
          | none => (x, none)).1.d = sim.d := by
        intro x hx
        split
        · split <;> exact hx
        · exact hx
      split at hpolled
      · simp only [Prod.mk.injEq] at hpolled
        apply hd; rw [← hpolled.1]
      · split at hpolled <;> (simp only [Prod.mk.injEq] at hpolled; apply hd; rw [← hpolled.1])

theorem reach_pollQuiescent (p : Bool) (fuel : Nat) :
    ∀ (sim : Sim), Reach p sim.d → Reach p (pollQuiescent fuel sim).d := by
  induction fuel with
  | zero => intro sim h; exact h
  | succ fuel ih =>
    intro sim h
    unfold pollQuiescent
    split
    · exact h
    · have hd := selectArm_d sim
      cases hsel : selectArm sim with
      | mk sim1 oc =>
        rw [hsel] at hd
        simp only at hd
        cases oc with
        | none => simp only; rw [hd]; exact h
        | some c =>
          simp only
          cases hst : step sim1.now sim1.d c with
          | none => simp only; rw [hd]; exact h
          | some d' =>
            simp only
            apply ih
            have hr : Reach p d' := by
              obtain ⟨evs, hevs⟩ := h
              refine ⟨evs ++ [(sim1.now, c)], ?_⟩
              rw [run_append, hevs]
              simp only [Option.bind_some, run]
              rw [← hd, hst]; rfl
            split <;> exact hr

theorem reach_advanceTo (p : Bool) (target fuel : Nat) :
    ∀ (sim : Sim), Reach p sim.d → Reach p (advanceTo target fuel sim).d := by
  induction fuel with
  | zero => intro sim h; exact h
  | succ fuel ih =>
    intro sim h
    unfold advanceTo
    split
    · exact h
    · split
      · split
        · exact ih _ (reach_pollQuiescent p _ _ h)
        · exact h
      · exact h

theorem reach_applyEv (p : Bool) (sim : Sim) (ev : Ev) (h : Reach p sim.d) : Reach p (applyEv sim ev).d := by
  cases ev with
  | advance ms => exact reach_advanceTo p _ _ sim h
  | dns f r => simp only [applyEv]; split <;> exact h
  | dial i r =>
    simp only [applyEv]
    split
    · split <;> exact h
    · exact h

theorem reach_foldl_applyEv (p : Bool) (g : List Ev) : ∀ (sim : Sim), Reach p sim.d →
    Reach p (g.foldl applyEv sim).d := by
  induction g with
  | nil => intro sim h; exact h
  | cons ev g ih => intro sim h; exact ih _ (reach_applyEv p sim ev h)

/-- Whatever the driver reports (and the harness compares with the real code) is the state
after some schedule of the transition system, so the theorems above apply to it. -/
theorem simulate_is_schedule (p : Bool) (host : C35.Host) (cfg : C35.Config) (groups : List (List Ev)) :
    Reach p (simulate p host cfg groups).d := by
  unfold simulate
  have h0 : Reach p (simInit p host cfg).d := by
    unfold simInit
    exact reach_pollQuiescent p _ _ ⟨[], rfl⟩
  generalize simInit p host cfg = sim0 at h0
  induction groups generalizing sim0 with
  | nil => exact h0
  | cons g groups ih =>
    simp only [List.foldl_cons]
    apply ih
    unfold applyGroup
    split
    · exact h0
    · exact reach_pollQuiescent p _ _ (reach_foldl_applyEv p g sim0 h0)

/-! ### non-vacuity -/

-- prefer IPv6; IPv4 resolves, the resolution delay fires, IPv4 .1 is dialed; IPv6 .7 resolves;
-- the attempt delay fires: IPv6 .7 is dialed next (the D4 witness, repaired); it connects.
example :
    ∃ s, run (start true)
      [(0, .resolved (.addr ⟨.v4, 1⟩)), (0, .resolved (.addr ⟨.v4, 2⟩)), (50, .timerFired),
       (60, .resolved (.addr ⟨.v6, 7⟩)), (300, .timerFired), (310, .dialDone 1 none)] = some s ∧
      s.attempts.map (·.addr) = [⟨.v4, 1⟩, ⟨.v6, 7⟩] ∧ s.result = some (.ok 1) := ⟨_, rfl, by decide, rfl⟩
-- nothing resolves: error "no response"
example : ∃ s, run (start false) [(0, .resolved .fin)] = some s ∧ s.result = some (.error noResponse) :=
  ⟨_, rfl, rfl⟩
-- every attempt fails and the stream has ended: the last error is returned
example :
    ∃ s, run (start false)
      [(0, .resolved (.addr ⟨.v4, 1⟩)), (0, .resolved .fin), (5, .dialDone 0 (some "io.x"))] = some s ∧
      s.result = some (.error "io.x") := ⟨_, rfl, rfl⟩

end IrohModel.C15
