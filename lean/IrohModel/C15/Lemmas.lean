/-
C15 — helper lemmas: `pop_family`, the inductive invariant of the dial loop, and the
history of successful attempts.
-/
import IrohModel.C15.Model

namespace IrohModel.C15

open IrohModel.C35 (Fam Addr)

/-! ## `pop_family` -/

theorem position?_some {want : Bool} {q : List Addr} {i : Nat} (h : position? want q = some i) :
    ∃ a, q[i]? = some a ∧ isV6 a = want := by
  induction q generalizing i with
  | nil => simp [position?] at h
  | cons b rest ih =>
    unfold position? at h
    split at h
    · rename_i hb
      simp only [Option.some.injEq] at h
      subst h
      exact ⟨b, by simp, by simpa using hb⟩
    · cases hp : position? want rest with
      | none => simp [hp] at h
      | some j =>
        simp only [hp, Option.map_some, Option.some.injEq] at h
        subst h
        obtain ⟨a, ha, hw⟩ := ih hp
        exact ⟨a, by simpa using ha, hw⟩

theorem position?_none {want : Bool} {q : List Addr} (h : position? want q = none) :
    ∀ b, b ∈ q → isV6 b ≠ want := by
  induction q with
  | nil => intro b hb; cases hb
  | cons c rest ih =>
    unfold position? at h
    split at h
    · cases h
    · rename_i hc
      cases hp : position? want rest with
      | some j => simp [hp] at h
      | none =>
        intro b hb
        simp only [List.mem_cons] at hb
        rcases hb with hb | hb
        · subst hb; simpa using hc
        · exact ih hp b hb

theorem removeAt_perm {q : List Addr} {i : Nat} {a : Addr} (h : q[i]? = some a) :
    q.Perm (a :: removeAt q i) := by
  induction q generalizing i with
  | nil => simp at h
  | cons b rest ih =>
    cases i with
    | zero => simp at h; subst h; simp [removeAt]
    | succ i =>
      simp only [List.getElem?_cons_succ] at h
      simp only [removeAt]
      exact ((ih h).cons b).trans (List.Perm.swap a b _)

/-- What `pop_family` returns: an element of the queue, the rest of the queue, the opposite
family as the next wanted one; and it is of the wanted family whenever the queue has one. -/
theorem popFamily_spec {q : List Addr} {want : Bool} {a : Addr} {q' : List Addr} {w' : Bool}
    (h : popFamily q want = some (a, q', w')) :
    a ∈ q ∧ q.Perm (a :: q') ∧ w' = !isV6 a ∧ ((∃ b, b ∈ q ∧ isV6 b = want) → isV6 a = want) := by
  unfold popFamily at h
  simp only at h
  cases hg : q[(position? want q).getD 0]? with
  | none => simp [hg] at h
  | some x =>
    simp only [hg, Option.some.injEq, Prod.mk.injEq] at h
    obtain ⟨h1, h2, h3⟩ := h
    subst h1; subst h2; subst h3
    refine ⟨List.mem_of_getElem? hg, removeAt_perm hg, rfl, ?_⟩
    rintro ⟨b, hb, hbw⟩
    cases hp : position? want q with
    | none => exact absurd hbw (position?_none hp b hb)
    | some i =>
      obtain ⟨a, ha, hw⟩ := position?_some hp
      simp only [hp, Option.getD_some] at hg
      rw [ha] at hg
      cases hg
      exact hw

theorem popFamily_none {q : List Addr} {want : Bool} (h : popFamily q want = none) : q = [] := by
  unfold popFamily at h
  simp only at h
  cases q with
  | nil => rfl
  | cons b rest =>
    exfalso
    cases hp : position? want (b :: rest) with
    | none => simp [hp] at h
    | some i =>
      obtain ⟨a, ha, _⟩ := position?_some hp
      simp [hp, ha] at h

/-! ## The attempt chain -/

/-- Attempt `att` was chosen by `pop_family` from the queue of that moment, wanting the
preferred family if it is the first attempt and the opposite of the previous attempt's
family otherwise. -/
def AttemptOk (prefer6 : Bool) (prev : Option Attempt) (att : Attempt) : Prop :=
  att.wantedV6 = (match prev with | none => prefer6 | some p => !isV6 p.addr) ∧
  ∃ q w, popFamily att.queueAtStart att.wantedV6 = some (att.addr, q, w)

def ChainOk (prefer6 : Bool) : Option Attempt → List Attempt → Prop
  | _, [] => True
  | prev, a :: rest => AttemptOk prefer6 prev a ∧ ChainOk prefer6 (some a) rest

theorem chain_append {prefer6 : Bool} {l : List Attempt} {a : Attempt} :
    ∀ {prev : Option Attempt}, ChainOk prefer6 prev l →
      AttemptOk prefer6 (match l.getLast? with | some x => some x | none => prev) a →
      ChainOk prefer6 prev (l ++ [a]) := by
  induction l with
  | nil => intro prev _ h; exact ⟨by simpa using h, trivial⟩
  | cons b rest ih =>
    intro prev hc h
    refine ⟨hc.1, ih hc.2 ?_⟩
    cases rest with
    | nil => simpa using h
    | cons c rest' =>
      rw [List.getLast?_cons_cons] at h
      cases hgl : (c :: rest').getLast? with
      | none => simp at hgl
      | some x => rw [hgl] at h; simpa using h

theorem chain_get {prefer6 : Bool} {l : List Attempt} :
    ∀ {prev : Option Attempt} {k : Nat} {att : Attempt}, ChainOk prefer6 prev l → l[k]? = some att →
      AttemptOk prefer6 (match k with | 0 => prev | j + 1 => l[j]?) att := by
  induction l with
  | nil => intro prev k att _ h; simp at h
  | cons b rest ih =>
    intro prev k att hc h
    cases k with
    | zero => simp at h; subst h; exact hc.1
    | succ j =>
      simp only [List.getElem?_cons_succ] at h
      have := ih hc.2 h
      cases j with
      | zero => simpa using this
      | succ i => simpa using this

/-! ## The invariant -/

/-- The attempt that connected, if the function returned one. -/
def succOf (s : DState) : List Nat :=
  match s.result with
  | some (.ok i) => [i]
  | _ => []

structure Inv (s : DState) : Prop where
  /-- every address the stream yielded is in an attempt or still queued -/
  conserve : s.resolved.Perm (s.attempts.map (·.addr) ++ s.queue)
  /-- every attempt is in `dials`, has failed, or is the one that connected -/
  partition : (s.inflight ++ s.failed ++ succOf s).Perm (List.range s.attempts.length)
  errExit : ∀ e, s.result = some (.error e) →
    s.finished = true ∧ s.queue = [] ∧ s.inflight = [] ∧ e = s.lastErr.getD noResponse
  startedIff : s.started = true ↔ s.attempts ≠ []
  wantFirst : s.started = false → s.nextV6 = s.prefer6
  wantNext : ∀ last, s.attempts.getLast? = some last → s.nextV6 = !isV6 last.addr
  chain : ChainOk s.prefer6 none s.attempts
  noAttemptYet : s.attempts = [] → s.resolved = s.queue
  firstQueue : ∀ a0, s.attempts[0]? = some a0 → a0.queueAtStart <+: s.resolved
  resolutionTimer : s.started = false → ∀ t, s.timer = some t → t.kind = .resolution

theorem inv_init0 (p : Bool) : Inv (init0 p) where
  conserve := by simp [init0]
  partition := by simp [init0, succOf]
  errExit := by simp [init0]
  startedIff := by simp [init0]
  wantFirst := by simp [init0]
  wantNext := by simp [init0]
  chain := trivial
  noAttemptYet := by simp [init0]
  firstQueue := by simp [init0]
  resolutionTimer := by simp [init0]

theorem succOf_of_result_none {s : DState} (h : s.result = none) : succOf s = [] := by
  simp [succOf, h]

theorem inv_top (now : Nat) {s : DState} (inv : Inv s) : Inv (top now s) := by
  unfold top
  split
  · exact inv
  · rename_i hres
    have hnone : s.result = none := by simpa using hres
    split
    · -- exit with an error
      rename_i hexit
      simp only [Bool.and_eq_true, List.isEmpty_iff] at hexit
      exact
        { conserve := inv.conserve
          partition := by simpa [succOf, hnone] using inv.partition
          errExit := by
            intro e he
            simp only [Option.some.injEq, Except.error.injEq] at he
            exact ⟨hexit.1.1, hexit.1.2, hexit.2, he.symm⟩
          startedIff := inv.startedIff
          wantFirst := inv.wantFirst
          wantNext := inv.wantNext
          chain := inv.chain
          noAttemptYet := inv.noAttemptYet
          firstQueue := inv.firstQueue
          resolutionTimer := inv.resolutionTimer }
    · split
      · cases hp : popFamily s.queue s.nextV6 with
        | none => exact inv
        | some x =>
          obtain ⟨a, q, want⟩ := x
          simp only
          obtain ⟨hmem, hperm, hw, _⟩ := popFamily_spec hp
          refine
            { conserve := ?_, partition := ?_, errExit := ?_, startedIff := ?_, wantFirst := ?_,
              wantNext := ?_, chain := ?_, noAttemptYet := ?_, firstQueue := ?_,
              resolutionTimer := ?_ }
          · simp only [List.map_append, List.map_cons, List.map_nil, List.append_assoc,
              List.singleton_append]
            exact inv.conserve.trans (List.Perm.append_left _ hperm)
          · have hs : succOf s = [] := succOf_of_result_none hnone
            have := inv.partition
            rw [hs, List.append_nil] at this
            simp only [succOf, hnone, List.append_nil, List.length_append, List.length_cons,
              List.length_nil, List.range_succ]
            have h2 : (s.inflight ++ [s.attempts.length] ++ s.failed).Perm
                (s.inflight ++ s.failed ++ [s.attempts.length]) := by
              simp only [List.append_assoc]
              exact List.Perm.append_left _ List.perm_append_comm
            exact h2.trans (List.Perm.append_right _ this)
          · intro e he; simp [hnone] at he
          · simp
          · intro h; simp at h
          · intro last hl
            simp only [List.getLast?_append, List.getLast?_singleton, Option.some_or,
              Option.some.injEq] at hl
            subst hl
            exact hw
          · apply chain_append inv.chain
            refine ⟨?_, q, want, hp⟩
            cases hl : s.attempts.getLast? with
            | none =>
              simp only
              have : s.attempts = [] := by simpa using hl
              have hst : s.started = false := by
                cases h : s.started with
                | false => rfl
                | true => exact absurd this (inv.startedIff.mp h)
              exact inv.wantFirst hst
            | some last => exact inv.wantNext last hl
          · intro h; simp at h
          · intro a0 h0
            cases hatt : s.attempts with
            | nil =>
              rw [hatt] at h0
              simp only [List.nil_append, List.getElem?_cons_zero, Option.some.injEq] at h0
              subst h0
              simp only
              rw [inv.noAttemptYet hatt]
              exact List.prefix_refl _
            | cons b rest =>
              rw [hatt] at h0
              simp only [List.cons_append, List.getElem?_cons_zero, Option.some.injEq] at h0
              subst h0
              exact inv.firstQueue b (by simp [hatt])
          · intro h; simp at h
      · exact inv

theorem inv_select (now : Nat) {s : DState} (inv : Inv s) (c : Choice) (hres : s.result = none)
    (hg : guard s c = true) : Inv (select now s c) := by
  have hs : succOf s = [] := succOf_of_result_none hres
  cases c with
  | dialDone i err =>
    simp only [guard, List.contains_iff_mem] at hg
    have hpe := List.perm_cons_erase hg
    have hstarted : s.started = true := by
      cases h : s.started with
      | true => rfl
      | false =>
        exfalso
        have hne : s.attempts = [] := by
          apply Classical.byContradiction
          intro hne
          have := inv.startedIff.mpr hne
          simp [h] at this
        have hp := inv.partition
        rw [hne] at hp
        have : i ∈ s.inflight ++ s.failed ++ succOf s := by simp [hg]
        have := hp.mem_iff.mp this
        simp at this
    cases err with
    | none =>
      simp only [select]
      exact
        { conserve := inv.conserve
          partition := by
            have := inv.partition
            rw [hs, List.append_nil] at this
            simp only [succOf]
            refine List.Perm.trans ?_ this
            have h1 : (s.inflight.erase i ++ s.failed ++ [i]).Perm (i :: (s.inflight.erase i ++ s.failed)) :=
              List.perm_append_comm
            refine h1.trans ?_
            have h2 : (i :: (s.inflight.erase i ++ s.failed)) = (i :: s.inflight.erase i) ++ s.failed := rfl
            rw [h2]
            exact List.Perm.append_right _ hpe.symm
          errExit := by intro e he; simp at he
          startedIff := inv.startedIff
          wantFirst := inv.wantFirst
          wantNext := inv.wantNext
          chain := inv.chain
          noAttemptYet := inv.noAttemptYet
          firstQueue := inv.firstQueue
          resolutionTimer := by intro h; simp [hstarted] at h }
    | some e =>
      simp only [select]
      exact
        { conserve := inv.conserve
          partition := by
            have := inv.partition
            rw [hs, List.append_nil] at this
            simp only [succOf, hres, List.append_nil]
            refine List.Perm.trans ?_ this
            have h1 : (s.inflight.erase i ++ (s.failed ++ [i])).Perm
                (s.inflight.erase i ++ ([i] ++ s.failed)) :=
              List.Perm.append_left _ List.perm_append_comm
            refine h1.trans ?_
            have h2 : (s.inflight.erase i ++ ([i] ++ s.failed)).Perm
                ((i :: s.inflight.erase i) ++ s.failed) := by
              simp only [← List.append_assoc]
              exact List.Perm.append_right _ List.perm_append_comm
            exact h2.trans (List.Perm.append_right _ hpe.symm)
          errExit := by intro e' he; simp [hres] at he
          startedIff := inv.startedIff
          wantFirst := inv.wantFirst
          wantNext := inv.wantNext
          chain := inv.chain
          noAttemptYet := inv.noAttemptYet
          firstQueue := inv.firstQueue
          resolutionTimer := by intro h; simp [hstarted] at h }
  | resolved item =>
    cases item with
    | addr a =>
      have hbase : Inv { s with queue := s.queue ++ [a], resolved := s.resolved ++ [a] } :=
        { conserve := by
            simp only [← List.append_assoc]
            exact List.Perm.append_right _ inv.conserve
          partition := by simpa [succOf, hres] using inv.partition
          errExit := by intro e he; simp [hres] at he
          startedIff := inv.startedIff
          wantFirst := inv.wantFirst
          wantNext := inv.wantNext
          chain := inv.chain
          noAttemptYet := by intro h; simp only; rw [inv.noAttemptYet h]
          firstQueue := by
            intro a0 h0
            exact (inv.firstQueue a0 h0).trans (List.prefix_append _ _)
          resolutionTimer := inv.resolutionTimer }
      simp only [select]
      split
      · split
        · exact { hbase with resolutionTimer := by intro _ t ht; simp at ht }
        · split
          · exact { hbase with
              resolutionTimer := by
                intro _ t ht
                simp only [Option.some.injEq] at ht
                subst ht; rfl }
          · exact hbase
      · exact hbase
    | err e =>
      simp only [select]
      exact
        { conserve := inv.conserve
          partition := by simpa [succOf, hres] using inv.partition
          errExit := by intro e' he; simp [hres] at he
          startedIff := inv.startedIff
          wantFirst := inv.wantFirst
          wantNext := inv.wantNext
          chain := inv.chain
          noAttemptYet := inv.noAttemptYet
          firstQueue := inv.firstQueue
          resolutionTimer := inv.resolutionTimer }
    | fin =>
      have hbase : Inv { s with finished := true } :=
        { conserve := inv.conserve
          partition := by simpa [succOf, hres] using inv.partition
          errExit := by intro e' he; simp [hres] at he
          startedIff := inv.startedIff
          wantFirst := inv.wantFirst
          wantNext := inv.wantNext
          chain := inv.chain
          noAttemptYet := inv.noAttemptYet
          firstQueue := inv.firstQueue
          resolutionTimer := inv.resolutionTimer }
      simp only [select]
      split
      · exact { hbase with resolutionTimer := by intro _ t ht; simp at ht }
      · exact hbase
  | timerFired =>
    simp only [select]
    exact
      { conserve := inv.conserve
        partition := by simpa [succOf, hres] using inv.partition
        errExit := by intro e' he; simp [hres] at he
        startedIff := inv.startedIff
        wantFirst := inv.wantFirst
        wantNext := inv.wantNext
        chain := inv.chain
        noAttemptYet := inv.noAttemptYet
        firstQueue := inv.firstQueue
        resolutionTimer := by intro _ t ht; simp at ht }

theorem step_some {now : Nat} {s s' : DState} {c : Choice} (h : step now s c = some s') :
    s.result = none ∧ guard s c = true ∧ s' = top now (select now s c) := by
  unfold step at h
  split at h
  · cases h
  · rename_i hc
    simp only [Bool.or_eq_true, Bool.not_eq_true', not_or, Bool.not_eq_false] at hc
    simp only [Option.some.injEq] at h
    exact ⟨by simpa using hc.1, by simpa using hc.2, h.symm⟩

theorem inv_step {now : Nat} {s s' : DState} {c : Choice} (inv : Inv s)
    (h : step now s c = some s') : Inv s' := by
  obtain ⟨hres, hg, rfl⟩ := step_some h
  exact inv_top now (inv_select now inv c hres hg)

theorem inv_start (p : Bool) : Inv (start p) := inv_top 0 (inv_init0 p)

theorem inv_run {evs : List (Nat × Choice)} : ∀ {s s' : DState}, Inv s → run s evs = some s' → Inv s' := by
  induction evs with
  | nil => intro s s' inv h; simp only [run, Option.some.injEq] at h; subst h; exact inv
  | cons e evs ih =>
    intro s s' inv h
    obtain ⟨t, c⟩ := e
    simp only [run] at h
    cases hs : step t s c with
    | none => simp [hs] at h
    | some s1 =>
      simp only [hs, Option.bind_some] at h
      exact ih (inv_step inv hs) h

/-- The invariant holds in every state the dial loop can park in (or return from). -/
theorem inv_reachable {p : Bool} {evs : List (Nat × Choice)} {s : DState}
    (h : run (start p) evs = some s) : Inv s :=
  inv_run (inv_start p) h

/-! ## What `top` leaves behind (progress) -/

/-- After the top of an iteration, if the function has not returned: a queued address always
has the timer armed, and at least one `select!` arm is enabled. -/
theorem top_progress (now : Nat) (s : DState) (h : (top now s).result = none) :
    ((top now s).queue ≠ [] → (top now s).timer.isSome = true) ∧
    ((top now s).inflight ≠ [] ∨ (top now s).finished = false ∨ (top now s).timer.isSome = true) := by
  unfold top at h ⊢
  split
  · rename_i hr; simp [hr] at h
    rw [h] at hr; simp at hr
  · split
    · rename_i hr he; simp [hr, he] at h
    · rename_i hr hexit
      simp only [Bool.and_eq_true, List.isEmpty_iff, not_and] at hexit
      split
      · rename_i htimer
        cases hp : popFamily s.queue s.nextV6 with
        | none =>
          have hq := popFamily_none hp
          simp only
          refine ⟨fun hne => absurd hq hne, ?_⟩
          by_cases hf : s.finished = true
          · by_cases hi : s.inflight = []
            · exact absurd hi (hexit ⟨hf, hq⟩)
            · exact Or.inl hi
          · exact Or.inr (Or.inl (by simpa using hf))
        | some x =>
          obtain ⟨a, q, want⟩ := x
          simp
      · rename_i htimer
        have hts : s.timer.isSome = true := by
          cases ht : s.timer with
          | none => simp [ht] at htimer
          | some t => rfl
        exact ⟨fun _ => hts, Or.inr (Or.inr hts)⟩

/-! ## History of successes -/

/-- Attempts reported as connected by the schedule, in order. -/
def oksOf (evs : List (Nat × Choice)) : List Nat :=
  evs.filterMap fun | (_, .dialDone i none) => some i | _ => none

@[simp] theorem oksOf_nil : oksOf [] = [] := rfl
@[simp] theorem oksOf_append (a b : List (Nat × Choice)) : oksOf (a ++ b) = oksOf a ++ oksOf b := by
  simp [oksOf]

theorem run_append (s : DState) (a b : List (Nat × Choice)) :
    run s (a ++ b) = (run s a).bind fun s' => run s' b := by
  induction a generalizing s with
  | nil => simp [run]
  | cons e a ih =>
    obtain ⟨t, c⟩ := e
    simp only [List.cons_append, run]
    cases step t s c with
    | none => simp
    | some s' => simp [ih]

theorem top_result_ok {now : Nat} {s : DState} {i : Nat} :
    (top now s).result = some (.ok i) ↔ s.result = some (.ok i) := by
  unfold top
  split
  · rfl
  · rename_i hr
    have hnone : s.result = none := by simpa using hr
    split
    · simp [hnone]
    · split
      · cases popFamily s.queue s.nextV6 with
        | none => rfl
        | some x => obtain ⟨a, q, w⟩ := x; simp [hnone]
      · rfl

theorem select_result_ok {now : Nat} {s : DState} {c : Choice} {i : Nat} (hres : s.result = none) :
    (select now s c).result = some (.ok i) ↔ c = .dialDone i none := by
  cases c with
  | dialDone j err =>
    cases err with
    | none => simp [select]
    | some e => simp [select, hres]
  | resolved item =>
    cases item with
    | addr a =>
      simp only [select]
      split
      · split
        · simp [hres]
        · split <;> simp [hres]
      · simp [hres]
    | err e => simp [select, hres]
    | fin => simp only [select]; split <;> simp [hres]
  | timerFired => simp [select, hres]

/-- History invariant: the function has returned `Ok i` exactly when the last event of the
schedule is the first "connected" report, and it is for attempt `i`. -/
theorem ok_history {evs : List (Nat × Choice)} :
    ∀ {hist : List (Nat × Choice)} {s s' : DState},
      (∀ i, s.result = some (.ok i) → ∃ pre t, hist = pre ++ [(t, .dialDone i none)] ∧ oksOf pre = []) →
      ((∀ i, s.result ≠ some (.ok i)) → oksOf hist = []) →
      run s evs = some s' →
      (∀ i, s'.result = some (.ok i) →
        ∃ pre t, hist ++ evs = pre ++ [(t, .dialDone i none)] ∧ oksOf pre = []) ∧
      ((∀ i, s'.result ≠ some (.ok i)) → oksOf (hist ++ evs) = []) := by
  induction evs with
  | nil =>
    intro hist s s' h1 h2 h
    simp only [run, Option.some.injEq] at h
    subst h
    simp only [List.append_nil]
    exact ⟨h1, h2⟩
  | cons e evs ih =>
    intro hist s s' h1 h2 h
    obtain ⟨t, c⟩ := e
    simp only [run] at h
    cases hs : step t s c with
    | none => simp [hs] at h
    | some s1 =>
      simp only [hs, Option.bind_some] at h
      obtain ⟨hres, _, rfl⟩ := step_some hs
      have hno : ∀ i, s.result ≠ some (.ok i) := by intro i; simp [hres]
      have hh := h2 hno
      have := ih (hist := hist ++ [(t, c)]) (s := top t (select t s c)) (s' := s') ?_ ?_ h
      · simpa using this
      · intro i hi
        rw [top_result_ok, select_result_ok hres] at hi
        subst hi
        exact ⟨hist, t, rfl, hh⟩
      · intro hne
        rw [oksOf_append, hh, List.nil_append]
        cases c with
        | dialDone j err =>
          cases err with
          | none =>
            exfalso
            exact hne j (by rw [top_result_ok, select_result_ok hres])
          | some e => rfl
        | resolved item => rfl
        | timerFired => rfl

end IrohModel.C15
