/-
C15 — relay dialing, Happy Eyeballs style.  Model of `dial_happy_eyeballs` and
`pop_family` (iroh-relay/src/client/tls.rs) as the code is after the `fix:` commit that
sets the wanted family opposite to the family just dialed.

Two layers, both executable, core Lean only:

* the dial loop as a transition system.  The future only ever waits inside its `select!`,
  so a state is "the loop parked at the `select!`"; one step takes the arm the environment
  made ready (`Choice`: a connection attempt finished / the resolve stream yielded / the
  timer fired), then runs the top of the next iteration (`top`: exit check, start the next
  attempt).  The schedule — which arm fires when, with what — is the *input*; theorems hold
  for every such schedule.  `attempts`, `resolved`, `failed` are history fields.
* a timed environment (`Sim`) used by the driver: the `resolve_host_all` stream is the C35
  model, connection attempts complete when the harness says so or time out, the arms are
  taken in `biased` order (attempts, resolve stream, timer).
-/
import IrohModel.Generated.C15
import IrohModel.C35.Model

namespace IrohModel.C15

open IrohModel.C35 (Fam Addr)
open Generated.C15

abbrev Err := String

def isV6 (a : Addr) : Bool := a.fam == .v6

/-- What `resolve_stream.next()` can yield. -/
inductive RItem
  | addr (a : Addr)
  | err (e : Err)
  | fin
deriving DecidableEq, Repr

inductive TimerKind | resolution | attempt
deriving DecidableEq, Repr

/-- `next_dial_delayed_until` when it is `Some(sleep(..))`. -/
structure Timer where
  deadline : Nat
  kind : TimerKind
deriving DecidableEq, Repr

/-- A started connection attempt (history). -/
structure Attempt where
  addr : Addr
  start : Nat
  /-- the queue it was taken from (before removal) -/
  queueAtStart : List Addr
  /-- the family that was wanted -/
  wantedV6 : Bool
deriving Repr

structure DState where
  prefer6 : Bool
  queue : List Addr
  nextV6 : Bool
  /-- indices (into `attempts`) of the attempts in `dials` -/
  inflight : List Nat
  started : Bool
  lastErr : Option Err
  timer : Option Timer
  finished : Bool
  result : Option (Except Err Nat)
  /-- history: every attempt started, in order -/
  attempts : List Attempt
  /-- history: every address the resolve stream yielded, in order -/
  resolved : List Addr
  /-- history: attempts that failed, in order -/
  failed : List Nat
deriving Repr

def init0 (prefer6 : Bool) : DState :=
  { prefer6 := prefer6, queue := [], nextV6 := prefer6, inflight := [], started := false,
    lastErr := none, timer := none, finished := false, result := none,
    attempts := [], resolved := [], failed := [] }

/-- Remove the element at `idx`. -/
def removeAt : List Addr → Nat → List Addr
  | [], _ => []
  | _ :: xs, 0 => xs
  | x :: xs, i + 1 => x :: removeAt xs i

/-- `addrs.iter().position(|ip| ip.is_ipv6() == want)` -/
def position? (want : Bool) : List Addr → Option Nat
  | [] => none
  | a :: rest => if isV6 a == want then some 0 else (position? want rest).map (· + 1)

/-- `pop_family`: the first address of the wanted family, else the first address; the wanted
family becomes the opposite of the family taken. -/
def popFamily (q : List Addr) (wantV6 : Bool) : Option (Addr × List Addr × Bool) :=
  let idx := (position? wantV6 q).getD 0
  match q[idx]? with
  | none => none
  | some a => some (a, removeAt q idx, !isV6 a)

/-- The code as it was before the `fix:` commit (record of defect D4): the wanted family was
flipped, whatever family had been taken. -/
def popFamilyOriginal (q : List Addr) (wantV6 : Bool) : Option (Addr × List Addr × Bool) :=
  let idx := (position? wantV6 q).getD 0
  match q[idx]? with
  | none => none
  | some a => some (a, removeAt q idx, !wantV6)

def noResponse : Err := "dns.ENR"

/-- Top of a loop iteration: the exit check, then "the next dial is due and an address is
waiting".  Does nothing once the function has returned. -/
def top (now : Nat) (s : DState) : DState :=
  if s.result.isSome then s
  else if s.finished && s.queue.isEmpty && s.inflight.isEmpty then
    { s with result := some (.error (s.lastErr.getD noResponse)) }
  else if s.timer.isNone then
    match popFamily s.queue s.nextV6 with
    | none => s
    | some (a, q, want) =>
      { s with queue := q, nextV6 := want,
               attempts := s.attempts ++ [⟨a, now, s.queue, s.nextV6⟩],
               inflight := s.inflight ++ [s.attempts.length],
               started := true,
               timer := some ⟨now + attemptDelay, .attempt⟩ }
  else s

/-- The `select!` arm that fires. -/
inductive Choice
  /-- `dials.next()` yielded attempt `i`: `none` = connected, `some e` = failed -/
  | dialDone (i : Nat) (err : Option Err)
  /-- `resolve_stream.next()` yielded -/
  | resolved (item : RItem)
  /-- `next_dial_delayed_until` completed -/
  | timerFired
deriving Repr

/-- The arm guards (`if !dials.is_empty()` — here: the attempt is in `dials` —,
`if !resolve_stream_finished`, `if next_dial_delayed_until.is_some()`). -/
def guard (s : DState) : Choice → Bool
  | .dialDone i _ => s.inflight.contains i
  | .resolved _ => !s.finished
  | .timerFired => s.timer.isSome

/-- The body of the arm. -/
def select (now : Nat) (s : DState) : Choice → DState
  | .dialDone i none => { s with inflight := s.inflight.erase i, result := some (.ok i) }
  | .dialDone i (some e) =>
    let fl := s.inflight.erase i
    { s with inflight := fl, lastErr := some e, failed := s.failed ++ [i],
             timer := if fl.isEmpty then none else s.timer }
  | .resolved (.addr a) =>
    let s := { s with queue := s.queue ++ [a], resolved := s.resolved ++ [a] }
    if !s.started then
      if s.prefer6 == isV6 a then { s with timer := none }
      else if s.timer.isNone then { s with timer := some ⟨now + resolutionDelay, .resolution⟩ }
      else s
    else s
  | .resolved (.err e) => { s with lastErr := some e }
  | .resolved .fin =>
    let s := { s with finished := true }
    if !s.started then { s with timer := none } else s
  | .timerFired => { s with timer := none }

/-- One step of the parked loop at time `now`: take the ready arm, then run the top of the
next iteration.  `none` = the arm is not enabled or the function has already returned. -/
def step (now : Nat) (s : DState) (c : Choice) : Option DState :=
  if s.result.isSome || !guard s c then none else some (top now (select now s c))

/-- The state in which the future first parks (or has returned). -/
def start (prefer6 : Bool) : DState := top 0 (init0 prefer6)

/-- Run a schedule of `(time, arm)` pairs. -/
def run (s : DState) : List (Nat × Choice) → Option DState
  | [] => some s
  | (t, c) :: rest => (step t s c).bind fun s' => run s' rest

/-! ## The two call sites in the connection builder (`dial_url`) -/

/-- `MaybeTlsStreamBuilder::dial_url`: straight to the relay, or `dial_url_proxy` (dial the
proxy with the same dialer, then an HTTP `CONNECT` which the proxy answers with `status`). -/
inductive Path
  | direct
  | proxy (status : Nat)
deriving DecidableEq, Repr

/-- What `dial_url` returns given what the dialer returned.  On the proxy path a missing
port is reported as the proxy's, and a connected attempt still fails if the proxy does not
answer the `CONNECT` with a 2xx status. -/
def dialUrlResult (path : Path) (r : Except Err Nat) : Except Err Nat :=
  match path, r with
  | .direct, r => r
  | .proxy status, .ok i =>
    if 200 ≤ status ∧ status < 300 then .ok i else .error s!"proxystatus.{status}"
  | .proxy _, .error e => if e = "port" then .error "proxyport" else .error e

/-- The dial that `dial_url` performs on `path` for a builder whose `prefer_ipv6` is `p`: on
both paths `dial_happy_eyeballs(&self.dns_resolver, <relay or proxy url>, self.prefer_ipv6)` —
the proxy hop is an ordinary dial of the proxy's host with the builder's preference. -/
def dialUrlStart (_path : Path) (p : Bool) : DState := start p

/-! ## Timed environment (driver side) -/

/-- A connection attempt as the environment sees it. -/
structure DialEnv where
  /-- `some none` = connected, `some (some e)` = failed, `none` = no answer (yet) -/
  reply : Option (Option Err)
deriving Repr

structure Sim where
  now : Nat
  d : DState
  stream : C35.Stream
  cfg : C35.Config
  dials : List DialEnv
  /-- time at which the function returned -/
  retAt : Nat
  /-- the poll loop ran out of fuel (never happens) -/
  stuck : Bool

def syncNow (now : Nat) : C35.Stream → C35.Stream
  | .unfold s => .unfold { s with now := now }
  | st => st

def ritemOf : C35.TopOut → Option RItem
  | .errMissingHost => some (.err "dns.EMH")
  | .out (.item a) => some (.addr a)
  | .out (.errBoth a b) => some (.err s!"dns.EB.{a}.{b}")
  | .out .errNoResponse => some (.err noResponse)
  | .out .fin => some .fin
  | .out .pending => none

/-- The first attempt in `dials` that is ready: it has a reply, or `DIAL_ENDPOINT_TIMEOUT` ran out. -/
def readyDial (sim : Sim) : Option (Nat × Option Err) :=
  sim.d.inflight.findSome? fun i =>
    match sim.dials[i]?, sim.d.attempts[i]? with
    | some env, some att =>
      match env.reply with
      | some r => some (i, r)
      | none => if att.start + dialTimeout ≤ sim.now then some (i, some "dto") else none
    | _, _ => none

/-- One `select!` in `biased` order; `none` = every enabled arm is pending (the stream has
been polled nevertheless, which may issue its lookups). -/
def selectArm (sim : Sim) : Sim × Option Choice :=
  match readyDial sim with
  | some (i, r) => (sim, some (.dialDone i r))
  | none =>
    let polled : Sim × Option Choice :=
      if sim.d.finished then (sim, none)
      else
        let (st', o) := (syncNow sim.now sim.stream).poll sim.cfg
        match ritemOf o with
        | some item => ({ sim with stream := st' }, some (.resolved item))
        | none => ({ sim with stream := st' }, none)
    match polled with
    | (sim, some c) => (sim, some c)
    | (sim, none) =>
      match sim.d.timer with
      | some t => if t.deadline ≤ sim.now then (sim, some .timerFired) else (sim, none)
      | none => (sim, none)

/-- Poll the dial future until it is pending or has returned. -/
def pollQuiescent : Nat → Sim → Sim
  | 0, sim => { sim with stuck := true }
  | fuel + 1, sim =>
    if sim.d.result.isSome then sim
    else
      match selectArm sim with
      | (sim, none) => sim
      | (sim, some c) =>
        match step sim.now sim.d c with
        | none => { sim with stuck := true }
        | some d' =>
          let sim := { sim with d := d', dials := sim.dials ++ List.replicate (d'.attempts.length - sim.dials.length) ⟨none⟩ }
          let sim := if d'.result.isSome then { sim with retAt := sim.now } else sim
          pollQuiescent fuel sim

def pollFuel : Nat := 4096

/-- Instants after `now` at which some timer inside the future falls due. -/
def dueTimes (sim : Sim) : List Nat :=
  let t1 := match sim.d.timer with | some t => [t.deadline] | none => []
  let t2 := sim.d.inflight.filterMap fun i =>
    match sim.dials[i]?, sim.d.attempts[i]? with
    | some env, some att => if env.reply.isNone then some (att.start + dialTimeout) else none
    | _, _ => none
  let t3 := match sim.stream with
    | .unfold s =>
      let f := fun (x : C35.Fut) => match x with | .running t0 none => [t0 + sim.cfg.tmo] | _ => []
      f s.v4 ++ f s.v6
    | _ => []
  (t1 ++ t2 ++ t3).filter fun t => sim.now < t

def minOf : List Nat → Option Nat
  | [] => none
  | x :: xs => match minOf xs with | none => some x | some m => some (min x m)

/-- Let time pass until `target`, serving every timer at its own instant. -/
def advanceTo (target : Nat) : Nat → Sim → Sim
  | 0, sim => { sim with stuck := true }
  | fuel + 1, sim =>
    if sim.d.result.isSome then sim
    else match minOf (dueTimes sim) with
      | some t =>
        if t ≤ target then advanceTo target fuel (pollQuiescent pollFuel { sim with now := t })
        else { sim with now := target }
      | none => { sim with now := target }

inductive Ev
  | advance (ms : Nat)
  | dns (f : Fam) (r : C35.LookupRes)
  | dial (i : Nat) (r : Option Err)
deriving Repr

def applyEv (sim : Sim) : Ev → Sim
  | .advance ms => advanceTo (sim.now + ms) 64 sim
  | .dns f r =>
    match sim.stream with
    | .unfold s => { sim with stream := .unfold (C35.step sim.cfg s (.deliver f r)) }
    | _ => sim
  | .dial i r =>
    -- accepted only for an attempt that is still in `dials`, not timed out already served, without a reply
    if sim.d.inflight.contains i then
      match sim.dials[i]? with
      | some ⟨none⟩ => { sim with dials := sim.dials.set i ⟨some r⟩ }
      | _ => sim
    else sim

/-- One poll group: apply the events, then poll until quiescent. -/
def applyGroup (sim : Sim) (g : List Ev) : Sim :=
  if sim.d.result.isSome then sim
  else pollQuiescent pollFuel (g.foldl applyEv sim)

def simInit (prefer6 : Bool) (host : C35.Host) (cfg : C35.Config) : Sim :=
  let d := start prefer6
  pollQuiescent pollFuel
    { now := 0, d := d, stream := C35.resolveHostAll host, cfg := cfg,
      dials := List.replicate d.attempts.length ⟨none⟩, retAt := 0, stuck := false }

def simulate (prefer6 : Bool) (host : C35.Host) (cfg : C35.Config) (groups : List (List Ev)) : Sim :=
  groups.foldl applyGroup (simInit prefer6 host cfg)

end IrohModel.C15
