/-
C21 — property theorems (only).  Statement of the property:

"Every address-resolution or connection-registration request made for a remote endpoint
is processed by that remote's state and answered, even when the remote's state is
concurrently shutting down for idleness and being restarted.  At any time at most one live
state instance serves a remote, and requests for one remote are processed in the order
they were made."

The theorems quantify over ALL interleavings: every reachable state of the labelled
transition system of `Model.lean` (any number of remotes, any number of requests, any
order of request / actor / idle-timer / close-and-drain / cleanup steps), by induction over
the steps with the invariant `Inv` (Lemmas).  Liveness (`every_request_answered`) is stated
for every infinite execution that is weakly fair to the system's own steps for the remote
(actor task runs, cleanup runs): nothing is assumed about callers or the idle timer.
-/
import IrohModel.C21.Lemmas

namespace IrohModel.C21

/-- States reachable from the empty map by any sequence of enabled steps. -/
inductive Reachable : Sys → Prop
  | init : Reachable Sys.init
  | step {s s' : Sys} (l : Nat × Label) : Reachable s → sysStep s l = some s' → Reachable s'

/-- Everything the tasks of a remote still hold, in order. -/
def Remote.pending (R : Remote) : List Nat := R.tasks.flatMap (·.st.pending)

/-- A task that can still handle messages or accept them (its actor has not returned). -/
def Task.live (t : Task) : Bool :=
  match t.st with
  | .done _ => false
  | _ => true

theorem sysStep_at {s s' : Sys} {l : Nat × Label} (h : sysStep s l = some s') :
    ∃ R', step (s l.1) l.2 = some R' ∧ s' = s.set l.1 R' := by
  unfold sysStep at h
  cases hs : step (s l.1) l.2 with
  | none => simp [hs] at h
  | some R' => simp [hs] at h; exact ⟨R', rfl, h.symm⟩

theorem inv_reachable {s : Sys} (h : Reachable s) (i : Nat) : Inv (s i) := by
  induction h generalizing i with
  | init => exact inv_init
  | step l _ hstep ih =>
    obtain ⟨R', hR, rfl⟩ := sysStep_at hstep
    unfold Sys.set
    split
    · rename_i hi; exact step_spec (ih l.1) hR
    · exact ih i

/-! ## Safety -/

/-- **No request is lost, and the order is kept**: in every reachable state, for every
remote, the requests handled so far followed by the requests its state still holds
(initial messages, inbox, leftover — in that order) are exactly the requests made, in the
order they were made. -/
theorem no_loss_in_order {s : Sys} (h : Reachable s) (i : Nat) :
    (s i).processed ++ (s i).pending = (s i).made := by
  rcases inv_reachable h i with ⟨_, ht, hp⟩ | ⟨g, a, _, ht, hp⟩
  · simp [Remote.pending, ht, hp]
  · simp [Remote.pending, ht, hp]

/-- Requests are processed in the order they were made: the processed list is a prefix of
the made list. -/
theorem processed_prefix {s : Sys} (h : Reachable s) (i : Nat) :
    (s i).processed <+: (s i).made :=
  ⟨(s i).pending, no_loss_in_order h i⟩

/-- **At most one live state instance per remote** — in fact at most one task at all exists
per remote (a finished task is reaped before its successor is started), and the map's
sender feeds exactly that task. -/
theorem at_most_one_live {s : Sys} (h : Reachable s) (i : Nat) :
    (s i).tasks.length ≤ 1 ∧ ((s i).tasks.filter Task.live).length ≤ 1 ∧
    (∀ g, (s i).sender = some g ↔ ∃ a, (s i).tasks = [⟨g, a⟩]) ∧
    ((s i).sender = none ↔ (s i).tasks = []) := by
  rcases inv_reachable h i with ⟨hs, ht, _⟩ | ⟨g, a, hs, ht, _⟩
  · refine ⟨by simp [ht], by simp [ht], fun g => ?_, by simp [hs, ht]⟩
    simp [hs, ht]
  · refine ⟨by simp [ht], ?_, fun g' => ?_, by simp [hs, ht]⟩
    · rw [ht]
      exact Nat.le_trans (List.length_filter_le _ _) (by simp)
    · rw [hs, ht]
      constructor
      · intro h'; cases h'; exact ⟨a, rfl⟩
      · rintro ⟨a', h'⟩; cases h'; rfl

/-- A request is never handled twice: it is either among the handled ones or still held,
at its own position (`made[k]` is `processed[k]` once `k < processed.length`). -/
theorem handled_is_made {s : Sys} (h : Reachable s) (i k : Nat)
    (hk : k < (s i).processed.length) : (s i).processed[k]? = (s i).made[k]? := by
  rw [← no_loss_in_order h i, List.getElem?_append_left hk]

/-! ## Independence of remotes -/

/-- A step of one remote leaves every other remote's state untouched. -/
theorem step_other {s s' : Sys} {l : Nat × Label} (h : sysStep s l = some s') (j : Nat)
    (hj : j ≠ l.1) : s' j = s j := by
  obtain ⟨R', _, rfl⟩ := sysStep_at h
  simp [Sys.set, hj]

/-- Whether a step of a remote is enabled, and what it does, depends on that remote's state
only. -/
theorem step_local (s t : Sys) (l : Nat × Label) (h : s l.1 = t l.1) :
    (sysStep s l).map (· l.1) = (sysStep t l).map (· l.1) := by
  unfold sysStep
  rw [h]
  cases step (t l.1) l.2 <;> simp [Sys.set]

/-- Runs a schedule of one remote alone, skipping steps that are not enabled. -/
def runOne (R : Remote) : List Label → Remote
  | [] => R
  | l :: ls =>
    match step R l with
    | some R' => runOne R' ls
    | none => runOne R ls

/-- **Independence for all interleavings**: after any schedule over any remotes, the state of
remote `i` is what its own sub-schedule produces when run alone. -/
theorem independence (s : Sys) (sched : List (Nat × Label)) (i : Nat) :
    (runSkipping s sched) i = runOne (s i) ((sched.filter (·.1 = i)).map (·.2)) := by
  induction sched generalizing s with
  | nil => rfl
  | cons l ls ih =>
    simp only [runSkipping]
    by_cases hl : l.1 = i
    · subst hl
      simp only [List.filter_cons, decide_true, if_true, List.map_cons, runOne]
      unfold sysStep
      cases hs : step (s l.1) l.2 with
      | none => simp only [Option.map_none]; exact ih s
      | some R' =>
        simp only [Option.map_some]
        rw [ih]
        simp [Sys.set]
    · simp only [List.filter_cons, hl, decide_false, Bool.false_eq_true, if_false]
      cases hs : sysStep s l with
      | none => exact ih s
      | some s' =>
        simp only
        rw [ih, step_other hs i (fun h => hl h.symm)]

/-! ## Liveness under weak fairness -/

/-- An infinite execution: at every position a step of some remote is taken, or nothing
happens. -/
structure Exec where
  st : Nat → Sys
  lbl : Nat → Option (Nat × Label)
  start : st 0 = Sys.init
  next : ∀ n, match lbl n with
    | none => st (n + 1) = st n
    | some l => sysStep (st n) l = some (st (n + 1))

/-- The execution takes a progress step (actor handles a message / closes and drains /
cleanup reaps) of remote `i` at position `n`. -/
def Exec.progressAt (e : Exec) (i n : Nat) : Prop :=
  ∃ l, e.lbl n = some (i, l) ∧ l.isProgress = true

/-- Some progress step of remote `i` is enabled at position `n`. -/
def Exec.enabledAt (e : Exec) (i n : Nat) : Prop :=
  ∃ l : Label, l.isProgress = true ∧ (step (e.st n i) l).isSome = true

/-- Weak fairness for the system's own steps of remote `i`: they are not enabled forever
without being taken. -/
def Exec.WeakFair (e : Exec) (i : Nat) : Prop :=
  ∀ n, ∃ m, n ≤ m ∧ (e.progressAt i m ∨ ¬ e.enabledAt i m)

theorem Exec.reachable (e : Exec) (n : Nat) : Reachable (e.st n) := by
  induction n with
  | zero => rw [e.start]; exact .init
  | succ n ih =>
    have := e.next n
    cases hl : e.lbl n with
    | none => rw [hl] at this; rw [this]; exact ih
    | some l => rw [hl] at this; exact .step l ih this

/-- What one position of an execution does to remote `i`. -/
theorem Exec.next_at (e : Exec) (i n : Nat) :
    e.st (n + 1) i = e.st n i ∨
    ∃ l, e.lbl n = some (i, l) ∧ step (e.st n i) l = some (e.st (n + 1) i) := by
  have := e.next n
  cases hl : e.lbl n with
  | none => rw [hl] at this; exact Or.inl (by rw [this])
  | some l =>
    rw [hl] at this
    by_cases hi : l.1 = i
    · obtain ⟨R', hR, hs'⟩ := sysStep_at this
      subst hi
      refine Or.inr ⟨l.2, rfl, ?_⟩
      rw [hs']; simp [Sys.set, hR]
    · exact Or.inl (step_other this i (fun h => hi h.symm))

theorem Exec.made_mono (e : Exec) (i n m : Nat) (h : n ≤ m) :
    ∃ t, (e.st m i).made = (e.st n i).made ++ t := by
  induction m with
  | zero => have : n = 0 := by omega
            subst this; exact ⟨[], by simp⟩
  | succ m ih =>
    by_cases hn : n = m + 1
    · subst hn; exact ⟨[], by simp⟩
    · obtain ⟨t, ht⟩ := ih (by omega)
      rcases e.next_at i m with h' | ⟨l, _, hstep⟩
      · exact ⟨t, by rw [h', ht]⟩
      · obtain ⟨⟨t', ht'⟩, _⟩ := step_rank (inv_reachable (e.reachable m) i) hstep
        exact ⟨t ++ t', by rw [ht', ht, List.append_assoc]⟩

theorem Exec.processed_mono (e : Exec) (i n m : Nat) (h : n ≤ m) :
    (e.st n i).processed.length ≤ (e.st m i).processed.length := by
  induction m with
  | zero => have : n = 0 := by omega
            subst this; exact Nat.le_refl _
  | succ m ih =>
    by_cases hn : n = m + 1
    · subst hn; exact Nat.le_refl _
    · have := ih (by omega)
      rcases e.next_at i m with h' | ⟨l, _, hstep⟩
      · rw [h']; exact this
      · obtain ⟨_, ⟨t', ht'⟩, _⟩ := step_rank (inv_reachable (e.reachable m) i) hstep
        rw [ht']; simp; omega

theorem Exec.rank_mono (e : Exec) (i k n m : Nat) (h : n ≤ m) (hk : k < (e.st n i).made.length) :
    rank (e.st m i) k ≤ rank (e.st n i) k := by
  induction m with
  | zero => have : n = 0 := by omega
            subst this; exact Nat.le_refl _
  | succ m ih =>
    by_cases hn : n = m + 1
    · subst hn; exact Nat.le_refl _
    · have := ih (by omega)
      rcases e.next_at i m with h' | ⟨l, _, hstep⟩
      · rw [h']; exact this
      · obtain ⟨t, ht⟩ := e.made_mono i n m (by omega)
        have hk' : k < (e.st m i).made.length := by rw [ht]; simp; omega
        obtain ⟨_, _, hle, _⟩ := step_rank (inv_reachable (e.reachable m) i) hstep
        exact Nat.le_trans (hle k hk') this

/-- **Every request is eventually processed, in its turn** — in every execution that is
weakly fair to the system's own steps of remote `i`: if the `k`-th request for `i` has been
made by position `n`, then at some later position it has been handled, as the `k`-th
handled request of `i` (so after all requests made before it and before all made after). -/
theorem every_request_answered (e : Exec) (i : Nat) (fair : e.WeakFair i) (n k : Nat)
    (hk : k < (e.st n i).made.length) :
    ∃ m, n ≤ m ∧ k < (e.st m i).processed.length ∧
      (e.st m i).processed[k]? = (e.st n i).made[k]? := by
  -- it suffices to reach a position where `k` is handled
  suffices H : ∀ r n, k < (e.st n i).made.length → rank (e.st n i) k ≤ r →
      ∃ m, n ≤ m ∧ k < (e.st m i).processed.length by
    obtain ⟨m, hm, hp⟩ := H _ n hk (Nat.le_refl _)
    refine ⟨m, hm, hp, ?_⟩
    rw [handled_is_made (e.reachable m) i k hp]
    obtain ⟨t, ht⟩ := e.made_mono i n m hm
    rw [ht, List.getElem?_append_left hk]
  intro r
  induction r with
  | zero =>
    intro n hk hr
    -- rank 0 while unhandled is impossible: a task holds the request
    by_cases hp : k < (e.st n i).processed.length
    · exact ⟨n, Nat.le_refl _, hp⟩
    · exfalso
      have hinv := inv_reachable (e.reachable n) i
      rcases hinv with ⟨_, _, hpm⟩ | ⟨g, a, _, ht, _⟩
      · rw [hpm] at hp; exact hp hk
      · have : rank (e.st n i) k = (k - (e.st n i).processed.length) + phase a := by
          simp [rank, hp, ht]
        cases a <;> simp [phase] at this <;> omega
  | succ r ih =>
    intro n hk hr
    by_cases hp : k < (e.st n i).processed.length
    · exact ⟨n, Nat.le_refl _, hp⟩
    · obtain ⟨m, hnm, hfair⟩ := fair n
      obtain ⟨t, ht⟩ := e.made_mono i n m hnm
      have hkm : k < (e.st m i).made.length := by rw [ht]; simp; omega
      have hrm : rank (e.st m i) k ≤ r + 1 := Nat.le_trans (e.rank_mono i k n m hnm hk) hr
      by_cases hpm : k < (e.st m i).processed.length
      · exact ⟨m, hnm, hpm⟩
      · have hinv := inv_reachable (e.reachable m) i
        have hen : e.enabledAt i m := progress_enabled hinv hkm (by omega)
        rcases hfair with ⟨l, hl, hprog⟩ | hne
        · rcases e.next_at i m with hsame | ⟨l', hl', hstep⟩
          · -- the label at `m` is a step of `i`, so `next_at` gives the step itself
            have := e.next m
            rw [hl] at this
            obtain ⟨R', hR, hs'⟩ := sysStep_at this
            have hstep : step (e.st m i) l = some (e.st (m + 1) i) := by
              rw [hs']; simp [Sys.set, hR]
            obtain ⟨⟨t', ht'⟩, _, _, hlt⟩ := step_rank hinv hstep
            have hlt' := hlt hprog k hkm (by omega)
            obtain ⟨m', hm', hp'⟩ := ih (m + 1) (by rw [ht']; simp; omega) (by omega)
            exact ⟨m', by omega, hp'⟩
          · rw [hl] at hl'
            cases hl'
            obtain ⟨⟨t', ht'⟩, _, _, hlt⟩ := step_rank hinv hstep
            have hlt' := hlt hprog k hkm (by omega)
            obtain ⟨m', hm', hp'⟩ := ih (m + 1) (by rw [ht']; simp; omega) (by omega)
            exact ⟨m', by omega, hp'⟩
        · exact absurd hen hne

/-! ## The restart paths really occur (non-vacuity and the two races of the repo's tests) -/

/-- Leftover hand-off by `cleanup`: a request sent between the idle check and
`inbox.close()` is drained as leftover, the actor is restarted with it, and it is handled. -/
example :
    let sched : List (Nat × Label) :=
      [(0, .request 1), (0, .process 0), (0, .idleDecide 0), (0, .request 2), (0, .closeDrain 0),
       (0, .cleanup 0), (0, .process 1)]
    (runSkipping Sys.init sched 0).processed = [1, 2] ∧ (runSkipping Sys.init sched 0).sender = some 1 := by
  decide

/-- Restart by `send_to_actor`: the request finds the inbox closed, the finished task is
reaped first and the new actor starts with `leftover ++ [request]`; a later `cleanup` of the
old task is not enabled any more (`poll_cleanup_preserves_restarted_sender`). -/
example :
    let sched : List (Nat × Label) :=
      [(0, .request 1), (0, .process 0), (0, .idleDecide 0), (0, .request 2), (0, .closeDrain 0),
       (0, .request 3), (0, .cleanup 0), (0, .process 1), (0, .process 1)]
    (runSkipping Sys.init sched 0).processed = [1, 2, 3] ∧
    (runSkipping Sys.init sched 0).sender = some 1 ∧
    (runSkipping Sys.init sched 0).tasks.length = 1 := by
  decide

/-- The constants of the model are the ones in the source. -/
theorem consts_agree :
    Generated.C21.inboxCapacity = 16 ∧ Generated.C21.actorMaxIdleTimeoutSecs = 60 := by decide

end IrohModel.C21
