/-
C21 — per-remote state never loses requests across idle shutdown and restart.

Labelled transition system of `RemoteMap` (iroh/src/socket/remote_map.rs) and the
life cycle of `RemoteStateActor::run` (…/remote_map/remote_state.rs), per remote:

map side (owned by the socket actor; `send_to_actor` and `cleanup` take `&mut self`,
so they never overlap each other):
* `sender`  — `RemoteMap::senders[id]`: the generation of the actor whose inbox it feeds;
* `tasks`   — the entries of `Tasks::tasks` (the `JoinSet`) that belong to this remote and
              have not been reaped by `poll_join_next` yet;

actor side (one tokio task per started actor, `Task.st`):
* `running initial inbox` — in `run`: `initial_msgs` not yet handled, then the inbox (FIFO);
* `exiting inbox`         — the idle check (`is_idle`: inbox empty, nothing else to do) has
                            passed and the loop was left, `inbox.close()` not yet called:
                            senders on other threads can still enqueue;
* `done leftover`         — `inbox.close()` + `recv_many` ran, the task returned
                            `(id, leftover)`; the channel is closed, the `JoinSet` holds the result.

Steps (labels), each one atomic region of the code:
* `request r`  — `send_to_actor`: `get_or_insert_with(start actor)`, `sender.send(r)`;
                 on `SendError`: wait for this remote's task to join, restart the actor with
                 `leftover ++ [r]` (the send blocks while the inbox holds `cap` messages);
* `process g`  — the actor handles its next message (`initial_msgs` first, then `inbox.recv()`);
* `idleDecide g` — `ACTOR_MAX_IDLE_TIMEOUT` expired and `is_idle` ⇒ `break`;
* `closeDrain g` — `inbox.close(); inbox.recv_many(leftover)`; the task returns;
* `cleanup g`  — `RemoteMap::cleanup`: the joined task is reaped, `remove_or_restart_actor`.
Requests are natural numbers (ids); `made`/`processed` are history variables.

Below this atomicity: tokio's permit window inside `Sender::send` (permit acquired, value
not yet written while the receiver closes and drains on another thread) — named in
DESIGN §9, not modelled.
-/
import IrohModel.Generated.C21

namespace IrohModel.C21

/-- The bounded inbox: `mpsc::channel(16)`. -/
abbrev cap : Nat := Generated.C21.inboxCapacity

inductive Actor
  | running (initial inbox : List Nat)
  | exiting (inbox : List Nat)
  | done (leftover : List Nat)
deriving DecidableEq, Repr

structure Task where
  gen : Nat
  st : Actor
deriving DecidableEq, Repr

structure Remote where
  sender : Option Nat := none
  tasks : List Task := []
  nextGen : Nat := 0
  made : List Nat := []
  processed : List Nat := []
deriving DecidableEq, Repr

inductive Label
  | request (r : Nat)
  | process (g : Nat)
  | idleDecide (g : Nat)
  | closeDrain (g : Nat)
  | cleanup (g : Nat)
deriving DecidableEq, Repr

/-- Messages an actor still holds, in the order it will handle / hand them over. -/
def Actor.pending : Actor → List Nat
  | .running ini inbox => ini ++ inbox
  | .exiting inbox => inbox
  | .done leftover => leftover

def findTask (ts : List Task) (g : Nat) : Option Actor :=
  (ts.find? (·.gen == g)).map (·.st)

def setTask (ts : List Task) (g : Nat) (a : Actor) : List Task :=
  ts.map fun t => if t.gen == g then { t with st := a } else t

def removeTask (ts : List Task) (g : Nat) : List Task :=
  ts.filter fun t => !(t.gen == g)

/-- `Tasks::start_remote_state_actor(id, initial)` + `senders.insert(id, sender)`. -/
def spawn (R : Remote) (initial inbox : List Nat) : Remote :=
  { R with tasks := R.tasks ++ [⟨R.nextGen, .running initial inbox⟩],
           sender := some R.nextGen, nextGen := R.nextGen + 1 }

/-- The first finished task of this remote in the `JoinSet` (what the join loop of
`send_to_actor` finds). -/
def firstDone : List Task → Option (Nat × List Nat)
  | [] => none
  | t :: ts =>
    match t.st with
    | .done l => some (t.gen, l)
    | _ => firstDone ts

/-- One transition of one remote; `none` = the step is not enabled. -/
def step (R : Remote) : Label → Option Remote
  | .request r =>
    let R := { R with made := R.made ++ [r] }
    match R.sender with
    | none => some (spawn R [] [r])
    | some g =>
      match findTask R.tasks g with
      | some (.running ini inbox) =>
        if inbox.length < cap then some { R with tasks := setTask R.tasks g (.running ini (inbox ++ [r])) }
        else none
      | some (.exiting inbox) =>
        if inbox.length < cap then some { R with tasks := setTask R.tasks g (.exiting (inbox ++ [r])) }
        else none
      | some (.done _) =>
        -- the send fails; the join loop reaps this remote's finished task and restarts
        match firstDone R.tasks with
        | some (g', leftover) => some (spawn { R with tasks := removeTask R.tasks g' } (leftover ++ [r]) [])
        | none => none
      | none => none
  | .process g =>
    match findTask R.tasks g with
    | some (.running (m :: ini) inbox) =>
      some { R with tasks := setTask R.tasks g (.running ini inbox), processed := R.processed ++ [m] }
    | some (.running [] (m :: inbox)) =>
      some { R with tasks := setTask R.tasks g (.running [] inbox), processed := R.processed ++ [m] }
    | _ => none
  | .idleDecide g =>
    match findTask R.tasks g with
    | some (.running [] []) => some { R with tasks := setTask R.tasks g (.exiting []) }
    | _ => none
  | .closeDrain g =>
    match findTask R.tasks g with
    | some (.exiting inbox) => some { R with tasks := setTask R.tasks g (.done inbox) }
    | _ => none
  | .cleanup g =>
    match findTask R.tasks g with
    | some (.done leftover) =>
      let R := { R with tasks := removeTask R.tasks g }
      if leftover.isEmpty then some { R with sender := none }   -- `senders.remove(&id)`
      else some (spawn R leftover [])
    | _ => none

/-- The whole map: one `Remote` per endpoint id. -/
abbrev Sys := Nat → Remote

def Sys.init : Sys := fun _ => {}

def Sys.set (s : Sys) (i : Nat) (R : Remote) : Sys := fun j => if j = i then R else s j

/-- A system step is a step of one remote. -/
def sysStep (s : Sys) (l : Nat × Label) : Option Sys :=
  (step (s l.1) l.2).map (s.set l.1)

/-- Runs a schedule; steps that are not enabled are skipped (reported by the driver). -/
def runSkipping (s : Sys) : List (Nat × Label) → Sys
  | [] => s
  | l :: ls =>
    match sysStep s l with
    | some s' => runSkipping s' ls
    | none => runSkipping s ls

end IrohModel.C21
