/-
C21 — helper lemmas: the per-remote invariant (one task, sender ↔ task, history) and its
preservation by every step; ranking function for progress.
-/
import IrohModel.C21.Model

namespace IrohModel.C21

/-- Reachable-state invariant of one remote: either nothing exists for it (no sender, no
task, every request made was processed), or exactly one task exists, the map's sender feeds
exactly that task, and `processed ++ (what the task still holds) = made`. -/
def Inv (R : Remote) : Prop :=
  (R.sender = none ∧ R.tasks = [] ∧ R.processed = R.made) ∨
  (∃ g a, R.sender = some g ∧ R.tasks = [⟨g, a⟩] ∧ R.processed ++ a.pending = R.made)

theorem inv_init : Inv {} := Or.inl ⟨rfl, rfl, rfl⟩

theorem findTask_single (g : Nat) (a : Actor) : findTask [⟨g, a⟩] g = some a := by
  simp [findTask]

theorem findTask_single_ne {g g' : Nat} (a : Actor) (h : g ≠ g') : findTask [⟨g, a⟩] g' = none := by
  simp [findTask, h]

theorem setTask_single (g : Nat) (a b : Actor) : setTask [⟨g, a⟩] g b = [⟨g, b⟩] := by
  simp [setTask]

theorem removeTask_single (g : Nat) (a : Actor) : removeTask [⟨g, a⟩] g = [] := by
  simp [removeTask]

/-- What a step does to a remote in the "one task" shape, case by case. -/
theorem step_spec {R R' : Remote} {l : Label} (hinv : Inv R) (h : step R l = some R') :
    Inv R' := by
  rcases hinv with ⟨hs, ht, hp⟩ | ⟨g, a, hs, ht, hp⟩
  · -- nothing exists: only `request` is enabled
    cases l with
    | request r =>
      simp only [step, hs] at h
      cases h
      refine Or.inr ⟨R.nextGen, .running [] [r], rfl, by simp [spawn, ht], ?_⟩
      simp [spawn, Actor.pending, hp]
    | process g => simp [step, ht, findTask] at h
    | idleDecide g => simp [step, ht, findTask] at h
    | closeDrain g => simp [step, ht, findTask] at h
    | cleanup g => simp [step, ht, findTask] at h
  · cases l with
    | request r =>
      simp only [step, hs, ht, findTask_single] at h
      cases a with
      | running ini inbox =>
        simp only at h
        split at h
        · cases h
          refine Or.inr ⟨g, .running ini (inbox ++ [r]), rfl, by simp [setTask_single], ?_⟩
          simp only [Actor.pending] at hp ⊢
          rw [← hp]; simp [List.append_assoc]
        · cases h
      | exiting inbox =>
        simp only at h
        split at h
        · cases h
          refine Or.inr ⟨g, .exiting (inbox ++ [r]), rfl, by simp [setTask_single], ?_⟩
          simp only [Actor.pending] at hp ⊢
          rw [← hp]; simp [List.append_assoc]
        · cases h
      | done leftover =>
        simp only [firstDone, removeTask_single] at h
        cases h
        refine Or.inr ⟨R.nextGen, .running (leftover ++ [r]) [], rfl, by simp [spawn], ?_⟩
        simp only [spawn, Actor.pending, List.append_nil] at hp ⊢
        rw [← hp]; simp [List.append_assoc]
    | process g' =>
      by_cases hg : g = g'
      · subst hg
        simp only [step, ht, findTask_single] at h
        cases a with
        | running ini inbox =>
          cases ini with
          | cons m ini =>
            simp only at h; cases h
            refine Or.inr ⟨g, .running ini inbox, hs, by simp [setTask_single], ?_⟩
            simp only [Actor.pending] at hp ⊢
            rw [← hp]; simp [List.append_assoc]
          | nil =>
            cases inbox with
            | cons m inbox =>
              simp only at h; cases h
              refine Or.inr ⟨g, .running [] inbox, hs, by simp [setTask_single], ?_⟩
              simp only [Actor.pending] at hp ⊢
              rw [← hp]; simp [List.append_assoc]
            | nil => simp at h
        | exiting inbox => simp at h
        | done leftover => simp at h
      · simp [step, ht, findTask_single_ne _ hg] at h
    | idleDecide g' =>
      by_cases hg : g = g'
      · subst hg
        simp only [step, ht, findTask_single] at h
        cases a with
        | running ini inbox =>
          cases ini with
          | cons m ini => simp at h
          | nil =>
            cases inbox with
            | cons m inbox => simp at h
            | nil =>
              simp only at h; cases h
              exact Or.inr ⟨g, .exiting [], hs, by simp [setTask_single], by simpa [Actor.pending] using hp⟩
        | exiting inbox => simp at h
        | done leftover => simp at h
      · simp [step, ht, findTask_single_ne _ hg] at h
    | closeDrain g' =>
      by_cases hg : g = g'
      · subst hg
        simp only [step, ht, findTask_single] at h
        cases a with
        | running ini inbox => simp at h
        | exiting inbox =>
          simp only at h; cases h
          exact Or.inr ⟨g, .done inbox, hs, by simp [setTask_single], by simpa [Actor.pending] using hp⟩
        | done leftover => simp at h
      · simp [step, ht, findTask_single_ne _ hg] at h
    | cleanup g' =>
      by_cases hg : g = g'
      · subst hg
        simp only [step, ht, findTask_single] at h
        cases a with
        | running ini inbox => simp at h
        | exiting inbox => simp at h
        | done leftover =>
          simp only [removeTask_single] at h
          split at h
          · rename_i he
            cases h
            have : leftover = [] := by simpa using he
            subst this
            exact Or.inl ⟨rfl, rfl, by simpa [Actor.pending] using hp⟩
          · cases h
            refine Or.inr ⟨R.nextGen, .running leftover [], rfl, by simp [spawn], ?_⟩
            simpa [spawn, Actor.pending] using hp
      · simp [step, ht, findTask_single_ne _ hg] at h

/-! ## Progress: a ranking function -/

/-- The steps the system itself takes for a remote (actor task and the map's cleanup), as
opposed to `request` (callers) and `idleDecide` (the idle timer). -/
def Label.isProgress : Label → Bool
  | .process _ => true
  | .closeDrain _ => true
  | .cleanup _ => true
  | _ => false

def phase : Actor → Nat
  | .running _ _ => 1
  | .done _ => 2
  | .exiting _ => 3

/-- Upper bound on the number of progress steps before the `k`-th request made is handled. -/
def rank (R : Remote) (k : Nat) : Nat :=
  if k < R.processed.length then 0
  else match R.tasks with
    | [t] => (k - R.processed.length) + phase t.st
    | _ => 0

theorem inv_lengths {R : Remote} (h : Inv R) :
    R.processed.length ≤ R.made.length ∧
    (R.tasks = [] → R.processed.length = R.made.length) := by
  rcases h with ⟨_, ht, hp⟩ | ⟨g, a, _, ht, hp⟩
  · exact ⟨by rw [hp]; exact Nat.le_refl _, fun _ => by rw [hp]⟩
  · refine ⟨by rw [← hp]; simp, fun h => by rw [ht] at h; cases h⟩

/-- `made` and `processed` only grow; the rank of every request already made never grows,
and a progress step makes it strictly smaller while the request is unhandled. -/
theorem step_rank {R R' : Remote} {l : Label} (hinv : Inv R) (h : step R l = some R') :
    (∃ t, R'.made = R.made ++ t) ∧ (∃ t, R'.processed = R.processed ++ t) ∧
    (∀ k, k < R.made.length → rank R' k ≤ rank R k) ∧
    (l.isProgress = true → ∀ k, k < R.made.length → R.processed.length ≤ k → rank R' k < rank R k) := by
  have hlen := inv_lengths hinv
  rcases hinv with ⟨hs, ht, hp⟩ | ⟨g, a, hs, ht, hp⟩
  · cases l with
    | request r =>
      simp only [step, hs] at h
      cases h
      refine ⟨⟨[r], rfl⟩, ⟨[], by simp [spawn]⟩, ?_, by simp [Label.isProgress]⟩
      intro k hk
      have := hlen.2 ht
      have h1 : k < R.processed.length := by omega
      simp [rank, spawn, h1]
    | process g => simp [step, ht, findTask] at h
    | idleDecide g => simp [step, ht, findTask] at h
    | closeDrain g => simp [step, ht, findTask] at h
    | cleanup g => simp [step, ht, findTask] at h
  · have hpl : R.processed.length + a.pending.length = R.made.length := by
      rw [← hp]; simp
    cases l with
    | request r =>
      simp only [step, hs, ht, findTask_single] at h
      cases a with
      | running ini inbox =>
        simp only at h
        split at h
        · cases h
          refine ⟨⟨[r], rfl⟩, ⟨[], by simp⟩, ?_, by simp [Label.isProgress]⟩
          intro k _
          simp only [rank, ht, setTask_single, phase]; exact Nat.le_refl _
        · cases h
      | exiting inbox =>
        simp only at h
        split at h
        · cases h
          refine ⟨⟨[r], rfl⟩, ⟨[], by simp⟩, ?_, by simp [Label.isProgress]⟩
          intro k _
          simp only [rank, ht, setTask_single, phase]; exact Nat.le_refl _
        · cases h
      | done leftover =>
        simp only [firstDone, removeTask_single] at h
        cases h
        refine ⟨⟨[r], by simp [spawn]⟩, ⟨[], by simp [spawn]⟩, ?_, by simp [Label.isProgress]⟩
        intro k _
        simp only [rank, ht, spawn, phase, List.nil_append]
        by_cases hk' : k < R.processed.length <;> simp [hk']
    | process g' =>
      by_cases hg : g = g'
      · subst hg
        simp only [step, ht, findTask_single] at h
        cases a with
        | running ini inbox =>
          cases ini with
          | cons m ini =>
            simp only at h; cases h
            refine ⟨⟨[], by simp⟩, ⟨[m], rfl⟩, ?_, ?_⟩
            · intro k _
              simp only [rank, ht, setTask_single, phase, List.length_append, List.length_cons,
                List.length_nil]
              split <;> split <;> omega
            · intro _ k _ hk
              simp only [rank, ht, setTask_single, phase, List.length_append, List.length_cons,
                List.length_nil]
              split <;> split <;> omega
          | nil =>
            cases inbox with
            | cons m inbox =>
              simp only at h; cases h
              refine ⟨⟨[], by simp⟩, ⟨[m], rfl⟩, ?_, ?_⟩
              · intro k _
                simp only [rank, ht, setTask_single, phase, List.length_append, List.length_cons,
                  List.length_nil]
                split <;> split <;> omega
              · intro _ k _ hk
                simp only [rank, ht, setTask_single, phase, List.length_append, List.length_cons,
                  List.length_nil]
                split <;> split <;> omega
            | nil => simp at h
        | exiting inbox => simp at h
        | done leftover => simp at h
      · simp [step, ht, findTask_single_ne _ hg] at h
    | idleDecide g' =>
      by_cases hg : g = g'
      · subst hg
        simp only [step, ht, findTask_single] at h
        cases a with
        | running ini inbox =>
          cases ini with
          | cons m ini => simp at h
          | nil =>
            cases inbox with
            | cons m inbox => simp at h
            | nil =>
              simp only at h; cases h
              refine ⟨⟨[], by simp⟩, ⟨[], by simp⟩, ?_, by simp [Label.isProgress]⟩
              intro k hk
              -- nothing is pending, so every request made was handled
              simp only [Actor.pending, List.append_nil, List.length_nil, Nat.add_zero] at hpl
              simp only [rank]
              rw [if_pos (by omega), if_pos (by omega)]; exact Nat.le_refl _
        | exiting inbox => simp at h
        | done leftover => simp at h
      · simp [step, ht, findTask_single_ne _ hg] at h
    | closeDrain g' =>
      by_cases hg : g = g'
      · subst hg
        simp only [step, ht, findTask_single] at h
        cases a with
        | running ini inbox => simp at h
        | exiting inbox =>
          simp only at h; cases h
          refine ⟨⟨[], by simp⟩, ⟨[], by simp⟩, ?_, ?_⟩
          · intro k _
            simp only [rank, ht, setTask_single, phase]
            split <;> omega
          · intro _ k _ hk
            simp only [rank, ht, setTask_single, phase]
            split <;> omega
        | done leftover => simp at h
      · simp [step, ht, findTask_single_ne _ hg] at h
    | cleanup g' =>
      by_cases hg : g = g'
      · subst hg
        simp only [step, ht, findTask_single] at h
        cases a with
        | running ini inbox => simp at h
        | exiting inbox => simp at h
        | done leftover =>
          simp only [removeTask_single] at h
          split at h
          · rename_i he
            cases h
            have hl0 : leftover = [] := by simpa using he
            subst hl0
            simp only [Actor.pending, List.length_nil, Nat.add_zero] at hpl
            refine ⟨⟨[], by simp⟩, ⟨[], by simp⟩, ?_, ?_⟩
            · intro k hk
              simp only [rank]
              rw [if_pos (by omega), if_pos (by omega)]; exact Nat.le_refl _
            · intro _ k hk hk'; omega
          · cases h
            refine ⟨⟨[], by simp [spawn]⟩, ⟨[], by simp [spawn]⟩, ?_, ?_⟩
            · intro k _
              simp only [rank, ht, spawn, phase, List.nil_append]
              by_cases hk' : k < R.processed.length <;> simp [hk']
            · intro _ k _ hk
              simp only [rank, ht, spawn, phase, List.nil_append]
              have hk' : ¬ k < R.processed.length := by omega
              simp [hk']
      · simp [step, ht, findTask_single_ne _ hg] at h

/-- While a request made is unhandled, a progress step of its remote is enabled. -/
theorem progress_enabled {R : Remote} (hinv : Inv R) {k : Nat} (hk : k < R.made.length)
    (hu : R.processed.length ≤ k) : ∃ l : Label, l.isProgress = true ∧ (step R l).isSome = true := by
  rcases hinv with ⟨_, _, hp⟩ | ⟨g, a, hs, ht, hp⟩
  · rw [hp] at hu; omega
  · have hpl : R.processed.length + a.pending.length = R.made.length := by rw [← hp]; simp
    cases a with
    | running ini inbox =>
      refine ⟨.process g, rfl, ?_⟩
      simp only [step, ht, findTask_single]
      cases ini with
      | cons m ini => rfl
      | nil =>
        cases inbox with
        | cons m inbox => rfl
        | nil => simp [Actor.pending] at hpl; omega
    | exiting inbox => exact ⟨.closeDrain g, rfl, by simp [step, ht, findTask_single]⟩
    | done leftover =>
      refine ⟨.cleanup g, rfl, ?_⟩
      simp only [step, ht, findTask_single, removeTask_single]
      split <;> rfl

end IrohModel.C21
