/-
C12 — relay auth token extraction.  Model of `ClientRequest::auth_token` and
`ClientRequest::query_pairs` (iroh-relay/src/server.rs) as the code is:

```rust
for value in self.request.headers.get_all(AUTHORIZATION) {
    let value = value.to_str().ok()?;                        // non visible-ASCII ⇒ return None
    if let Some((scheme, token)) = value.split_once(' ')
        && scheme.eq_ignore_ascii_case("Bearer") { return Some(token.to_string()); }
}
self.query_pairs().find(|(name, _)| name == "token").map(|(_, value)| value.into_owned())
```

Strings are modelled as their UTF-8 byte lists (`String` equality in Rust is byte
equality).  `query_pairs` = `url::form_urlencoded::parse(query.unwrap_or(""))`; the
byte-level model of that third-party parser (`parseQuery`: split on `&`, drop empty
segments, split once on `=`, `+`→space, percent-decode, `String::from_utf8_lossy`) is
validated by the correspondence run; the property theorems quantify over *all* pair
lists, so they do not depend on it.

Core Lean only, executable.
-/
import IrohModel.Generated.C12

namespace IrohModel.C12

abbrev Bytes := List UInt8

/-- Bytes of an ASCII string constant. -/
def asciiBytes (s : String) : Bytes := s.toList.map (fun c => UInt8.ofNat c.toNat)

/-- `"Bearer"` as written in the source. -/
def bearer : Bytes := asciiBytes Generated.C12.bearerScheme
/-- `AUTH_TOKEN_URL_QUERY_PARAM`. -/
def tokenParam : Bytes := asciiBytes Generated.C12.tokenParam
/-- The separator of `value.split_once(' ')`. -/
def sep : UInt8 := UInt8.ofNat Generated.C12.schemeSep

/-- `http::header::value::is_visible_ascii`: what `HeaderValue::to_str` accepts. -/
def isVisibleAscii (b : UInt8) : Bool := (32 ≤ b && b < 127) || b == 9

/-- `HeaderValue::to_str().is_ok()`. -/
def isText (v : Bytes) : Bool := v.all isVisibleAscii

/-- `str::split_once(c)` for a single-byte separator. -/
def splitOnce (c : UInt8) : Bytes → Option (Bytes × Bytes)
  | [] => none
  | b :: rest =>
    if b == c then some ([], rest)
    else match splitOnce c rest with
      | some (l, r) => some (b :: l, r)
      | none => none

/-- `u8::to_ascii_lowercase`. -/
def toLower (b : UInt8) : UInt8 := if 65 ≤ b && b ≤ 90 then b + 32 else b

/-- `str::eq_ignore_ascii_case`. -/
def eqIgnoreCase (a b : Bytes) : Bool := a.map toLower == b.map toLower

/-- The body of the loop for one header value that passed `to_str`:
`Some(token)` when the header is `<scheme> <token>` with scheme `bearer`. -/
def headerToken (v : Bytes) : Option Bytes :=
  match splitOnce sep v with
  | some (scheme, tok) => if eqIgnoreCase scheme bearer then some tok else none
  | none => none

/-- Outcome of the `for` loop over the `Authorization` header values. -/
inductive Scan where
  /-- `return Some(token)` from inside the loop. -/
  | found (tok : Bytes)
  /-- `to_str().ok()?` returned `None` from the whole function. -/
  | malformed
  /-- the loop ran to completion. -/
  | exhausted
deriving DecidableEq, Repr

def scanHeaders : List Bytes → Scan
  | [] => .exhausted
  | v :: rest =>
    if !isText v then .malformed
    else match headerToken v with
      | some t => .found t
      | none => scanHeaders rest

/-- `.find(|(name, _)| name == "token").map(|(_, value)| value)`. -/
def queryToken : List (Bytes × Bytes) → Option Bytes
  | [] => none
  | (name, value) :: rest => if name == tokenParam then some value else queryToken rest

/-- `ClientRequest::auth_token`, given the `Authorization` header values in header-map order
and the query pairs in query order. -/
def authToken (auths : List Bytes) (pairs : List (Bytes × Bytes)) : Option Bytes :=
  match scanHeaders auths with
  | .found t => some t
  | .malformed => none
  | .exhausted => queryToken pairs

/-! ### `url::form_urlencoded::parse` at byte level (third-party; correspondence-checked) -/

/-- `slice.split(|b| b == c)`: always at least one piece. -/
def splitAll (c : UInt8) : Bytes → List Bytes
  | [] => [[]]
  | b :: rest =>
    if b == c then [] :: splitAll c rest
    else match splitAll c rest with
      | h :: t => (b :: h) :: t
      | [] => [[b]]

/-- `slice.splitn(2, |b| b == c)`: first piece and the (possibly empty) remainder. -/
def splitFirst (c : UInt8) (bs : Bytes) : Bytes × Bytes :=
  match splitOnce c bs with
  | some p => p
  | none => (bs, [])

/-- `char::to_digit(16)` on a byte. -/
def hexVal? (b : UInt8) : Option UInt8 :=
  if 48 ≤ b && b ≤ 57 then some (b - 48)
  else if 97 ≤ b && b ≤ 102 then some (b - 87)
  else if 65 ≤ b && b ≤ 70 then some (b - 55)
  else none

/-- `percent_encoding::percent_decode(..).collect()`. -/
def percentDecode : Bytes → Bytes
  | [] => []
  | [a] => [a]
  | [a, b] => [a, b]
  | a :: h :: l :: rest =>
    if a == 37 then
      match hexVal? h, hexVal? l with
      | some x, some y => (x * 16 + y) :: percentDecode rest
      | _, _ => a :: percentDecode (h :: l :: rest)
    else a :: percentDecode (h :: l :: rest)

def replacePlus (bs : Bytes) : Bytes := bs.map fun b => if b == 43 then 32 else b

def isCont (b : UInt8) : Bool := 128 ≤ b && b ≤ 191

/-- One step of `core::str::Utf8Chunks`: number of bytes inspected (≥ 1) and whether they
form one valid scalar value (`true`) or one maximal invalid prefix (`false`). -/
def utf8Step (b : UInt8) (rest : Bytes) : Nat × Bool :=
  let second := rest.headD 0
  let third := (rest.drop 1).headD 0
  let fourth := (rest.drop 2).headD 0
  if b < 128 then (1, true)
  else if 0xC2 ≤ b && b ≤ 0xDF then
    if isCont second then (2, true) else (1, false)
  else if 0xE0 ≤ b && b ≤ 0xEF then
    let ok2 := (b == 0xE0 && 0xA0 ≤ second && second ≤ 0xBF)
      || (0xE1 ≤ b && b ≤ 0xEC && isCont second)
      || (b == 0xED && 0x80 ≤ second && second ≤ 0x9F)
      || (0xEE ≤ b && isCont second)
    if !ok2 then (1, false)
    else if !isCont third then (2, false)
    else (3, true)
  else if 0xF0 ≤ b && b ≤ 0xF4 then
    let ok2 := (b == 0xF0 && 0x90 ≤ second && second ≤ 0xBF)
      || (0xF1 ≤ b && b ≤ 0xF3 && isCont second)
      || (b == 0xF4 && 0x80 ≤ second && second ≤ 0x8F)
    if !ok2 then (1, false)
    else if !isCont third then (2, false)
    else if !isCont fourth then (3, false)
    else (4, true)
  else (1, false)

/-- `String::from_utf8_lossy` (each maximal invalid prefix becomes U+FFFD = EF BF BD);
`fuel` bounds the number of steps (every step consumes at least one byte). -/
def utf8LossyAux : Nat → Bytes → Bytes
  | 0, _ => []
  | _, [] => []
  | fuel + 1, b :: rest =>
    let (n, ok) := utf8Step b rest
    (if ok then (b :: rest).take n else [0xEF, 0xBF, 0xBD]) ++ utf8LossyAux fuel ((b :: rest).drop n)

def utf8Lossy (bs : Bytes) : Bytes := utf8LossyAux bs.length bs

/-- `std::str::from_utf8(..).is_ok()` (used by `http::Uri` for non-ASCII request targets). -/
def utf8ValidAux : Nat → Bytes → Bool
  | 0, bs => bs.isEmpty
  | _, [] => true
  | fuel + 1, b :: rest =>
    let (n, ok) := utf8Step b rest
    ok && utf8ValidAux fuel ((b :: rest).drop n)

def utf8Valid (bs : Bytes) : Bool := utf8ValidAux bs.length bs

/-- `form_urlencoded::decode`. -/
def formDecode (bs : Bytes) : Bytes := utf8Lossy (percentDecode (replacePlus bs))

/-- `form_urlencoded::parse(query).collect()`. -/
def parseQuery (q : Bytes) : List (Bytes × Bytes) :=
  ((splitAll 38 q).filter (fun s => !s.isEmpty)).map fun s =>
    let (n, v) := splitFirst 61 s
    (formDecode n, formDecode v)

/-! ### The encoder the (browser) client uses: `query_pairs_mut().append_pair("token", t)` -/

/-- `form_urlencoded::byte_serialized_unchanged`: `* - . 0-9 A-Z _ a-z`. -/
def unreserved (b : UInt8) : Bool :=
  b == 42 || b == 45 || b == 46 || (48 ≤ b && b ≤ 57) || (65 ≤ b && b ≤ 90) || b == 95 ||
    (97 ≤ b && b ≤ 122)

/-- Upper-case hex digit of a nibble (`percent_encode_byte`). -/
def hexUpper (n : UInt8) : UInt8 := if n < 10 then 48 + n else 55 + n

/-- `form_urlencoded::byte_serialize(bs).collect()`: unreserved bytes verbatim, space → `+`,
everything else `%XX`. -/
def byteSerialize : Bytes → Bytes
  | [] => []
  | b :: rest =>
    (if unreserved b then [b] else if b == 32 then [43] else [37, hexUpper (b / 16), hexUpper (b % 16)])
      ++ byteSerialize rest

/-- The query string the client's `append_pair(AUTH_TOKEN_URL_QUERY_PARAM, token)` produces on a
URL without other parameters: `token=<serialized token>`. -/
def clientQuery (token : Bytes) : Bytes := byteSerialize tokenParam ++ 61 :: byteSerialize token

/-- `auth_token` of a request with the given `Authorization` values and raw query string
(`none` = the URI has no `?`). -/
def authTokenOfRequest (auths : List Bytes) (query : Option Bytes) : Option Bytes :=
  authToken auths (parseQuery (query.getD []))

end IrohModel.C12
